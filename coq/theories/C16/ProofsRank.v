(* C16 — Rank: a list of 64-bit words, most significant first, is a set of rule indices of any
   size.  rv is the number it stands for; every operation of the code is the corresponding
   operation on that number. *)
From Coq Require Import List NArith ZArith Bool Lia.
From Coq Require Import ZifyBool ZifyN ZifyNat.
From FV.C16 Require Import Model.
Import ListNotations.
Open Scope N_scope.

Definition W : N := 2 ^ 64.
Definition rank_ok (r : rank) : Prop := Forall (fun w => w < W) r.
(* value of a little-endian word list; a Rank is big-endian *)
Fixpoint lv (l : list N) : N := match l with [] => 0 | w :: t => w + W * lv t end.
Definition rv (r : rank) : N := lv (rev r).
Definition rbit (r : rank) (k : nat) : bool := N.testbit (rv r) (N.of_nat k).

Lemma W_pos : 0 < W. Proof. reflexivity. Qed.
Lemma rank_ok_nil : rank_ok []. Proof. constructor. Qed.
Lemma rank_ok_rev r : rank_ok r -> rank_ok (rev r).
Proof. unfold rank_ok. rewrite !Forall_forall. intros H w Hw. apply H. apply in_rev in Hw. first [exact Hw|now rewrite rev_involutive in Hw]. Qed.
Lemma rank_ok_app a b : rank_ok a -> rank_ok b -> rank_ok (a ++ b).
Proof. unfold rank_ok. intros. apply Forall_app. split; assumption. Qed.

Lemma rbit_nil k : rbit [] k = false.
Proof. unfold rbit, rv. cbn [rev lv]. apply N.bits_0. Qed.

(* ---- bits of  x + 2^m * a  ------------------------------------------------------------ *)
Lemma testbit_split m x a k : x < 2 ^ m ->
  N.testbit (x + 2 ^ m * a) k = if k <? m then N.testbit x k else N.testbit a (k - m).
Proof.
  intros Hx. assert (Hp : 2 ^ m <> 0) by (apply N.pow_nonzero; lia).
  destruct (N.ltb_spec k m) as [Hk|Hk].
  - rewrite <- (N.mod_pow2_bits_low (x + 2 ^ m * a) m k Hk).
    rewrite N.mul_comm, N.mod_add by exact Hp. now rewrite N.mod_small.
  - replace k with ((k - m) + m) at 1 by lia. rewrite <- N.div_pow2_bits.
    rewrite N.mul_comm, N.div_add by exact Hp. rewrite N.div_small by exact Hx. reflexivity.
Qed.

Lemma lor_split m x y a b : x < 2 ^ m -> y < 2 ^ m ->
  N.lor (x + 2 ^ m * a) (y + 2 ^ m * b) = N.lor x y + 2 ^ m * N.lor a b.
Proof.
  intros Hx Hy. assert (Hxy : N.lor x y < 2 ^ m).
  { destruct (N.eq_dec (N.lor x y) 0) as [E|E]; [rewrite E; apply N.neq_0_lt_0, N.pow_nonzero; lia|].
    apply N.log2_lt_pow2; [lia|]. rewrite N.log2_lor.
    destruct (N.eq_dec x 0) as [->|Ex]; destruct (N.eq_dec y 0) as [->|Ey]; cbn [N.log2 N.max] in *.
    - now rewrite N.lor_0_l in E.
    - rewrite N.max_r by lia. apply N.log2_lt_pow2; lia.
    - rewrite N.max_l by lia. apply N.log2_lt_pow2; lia.
    - apply N.max_lub_lt; apply N.log2_lt_pow2; lia. }
  apply N.bits_inj. intros k. rewrite N.lor_spec, !testbit_split by assumption.
  destruct (k <? m); now rewrite N.lor_spec.
Qed.

(* ---- little-endian values ------------------------------------------------------------------ *)
Lemma lv_bound l : rank_ok l -> lv l < 2 ^ (64 * N.of_nat (length l)).
Proof.
  induction l as [|w t IH]; intros H; cbn [lv length]; [cbn; lia|].
  inversion H as [|? ? Hw Ht]; subst. specialize (IH Ht).
  replace (64 * N.of_nat (S (length t))) with (64 + 64 * N.of_nat (length t)) by lia.
  rewrite N.pow_add_r. fold W. set (P := 2 ^ (64 * N.of_nat (length t))) in *.
  assert (H1 : W * (lv t + 1) <= W * P) by (apply N.mul_le_mono_l; lia). lia.
Qed.

Lemma lv_app a b : lv (a ++ b) = lv a + 2 ^ (64 * N.of_nat (length a)) * lv b.
Proof.
  induction a as [|w t IH]; cbn [app lv length].
  - change (N.of_nat 0) with 0. rewrite N.mul_0_r, N.pow_0_r. lia.
  - rewrite IH. replace (64 * N.of_nat (S (length t))) with (64 + 64 * N.of_nat (length t)) by lia.
    rewrite N.pow_add_r. fold W. lia.
Qed.

Lemma lv_repeat0 n : lv (repeat 0 n) = 0.
Proof. induction n as [|n IH]; cbn [repeat lv]; [reflexivity|]. rewrite IH. lia. Qed.

Lemma lv_zero l : forallb (fun w => w =? 0) l = (lv l =? 0).
Proof.
  induction l as [|w t IH]; cbn [forallb lv]; [reflexivity|]. rewrite IH.
  destruct (N.eqb_spec w 0) as [->|Hw]; cbn [andb].
  - destruct (N.eqb_spec (lv t) 0) as [->|Ht]; [reflexivity|]. symmetry. apply N.eqb_neq. unfold W. lia.
  - symmetry. apply N.eqb_neq. lia.
Qed.

Lemma or_prefix_length a b : length (or_prefix a b) = length a.
Proof. revert b. induction a as [|x a IH]; intros [|y b]; cbn [or_prefix length]; try reflexivity. now rewrite IH. Qed.

Lemma or_prefix_ok a b : rank_ok a -> rank_ok b -> rank_ok (or_prefix a b).
Proof.
  revert b. induction a as [|x a IH]; intros [|y b] Ha Hb; cbn [or_prefix]; try assumption.
  inversion Ha; inversion Hb; subst. constructor; [|now apply IH].
  assert (E : N.lor (x + 2 ^ 64 * 0) (y + 2 ^ 64 * 0) = N.lor x y + 2 ^ 64 * N.lor 0 0) by (apply lor_split; assumption).
  rewrite !N.mul_0_r, !N.add_0_r in E. cbn [N.lor] in E.
  destruct (N.eq_dec (N.lor x y) 0) as [E0|E0]; [rewrite E0; reflexivity|].
  apply N.log2_lt_pow2; [lia|]. rewrite N.log2_lor.
  destruct (N.eq_dec x 0) as [->|Ex]; destruct (N.eq_dec y 0) as [->|Ey]; cbn [N.log2 N.max] in *.
  - now rewrite N.lor_0_l in E0.
  - rewrite N.max_r by lia. apply N.log2_lt_pow2; [lia|assumption].
  - rewrite N.max_l by lia. apply N.log2_lt_pow2; [lia|assumption].
  - apply N.max_lub_lt; apply N.log2_lt_pow2; try lia; assumption.
Qed.

Lemma or_prefix_lv a b : rank_ok a -> rank_ok b -> (length b <= length a)%nat ->
  lv (or_prefix a b) = N.lor (lv a) (lv b).
Proof.
  revert b. induction a as [|x a IH]; intros [|y b] Ha Hb Hl; cbn [or_prefix lv length] in *; try lia.
  - reflexivity.
  - now rewrite N.lor_0_r.
  - inversion Ha; inversion Hb; subst. rewrite IH by (try assumption; lia).
    unfold W. symmetry. apply lor_split; assumption.
Qed.

(* ---- the operations ---------------------------------------------------------------------- *)
Lemma rank_new_ok i : rank_ok (rank_new i) /\ rv (rank_new i) = 2 ^ N.of_nat i.
Proof.
  unfold rank_new. split.
  - constructor.
    + rewrite N.shiftl_1_l. apply N.pow_lt_mono_r; [lia|]. pose proof (Nat.mod_upper_bound i 64). lia.
    + clear. induction (Nat.div i 64) as [|n IH]; cbn [repeat]; constructor; [reflexivity|exact IH].
  - unfold rv. cbn [rev]. rewrite lv_app. rewrite rev_length, repeat_length.
    assert (Hr : rev (repeat 0 (Nat.div i 64)) = repeat 0 (Nat.div i 64)).
    { clear. induction (Nat.div i 64) as [|n IH]; [reflexivity|]. cbn [repeat rev]. rewrite IH.
      clear. induction n as [|n IH]; [reflexivity|]. cbn [repeat app]. now rewrite IH. }
    rewrite Hr, lv_repeat0. cbn [lv]. rewrite N.shiftl_1_l, N.mul_0_r, N.add_0_r, N.add_0_l.
    rewrite <- N.pow_add_r. f_equal. pose proof (Nat.div_mod_eq i 64). lia.
Qed.

Lemma rbit_new i k : rbit (rank_new i) k = Nat.eqb k i.
Proof.
  unfold rbit. destruct (rank_new_ok i) as [_ ->].
  rewrite N.pow2_bits_eqb. destruct (Nat.eqb_spec k i) as [->|Hne]; [apply N.eqb_refl|].
  apply N.eqb_neq. lia.
Qed.

Lemma rank_bitor_ok a b : rank_ok a -> rank_ok b ->
  rank_ok (rank_bitor a b) /\ rv (rank_bitor a b) = N.lor (rv a) (rv b).
Proof.
  intros Ha Hb. unfold rank_bitor.
  destruct (Nat.ltb_spec (length b) (length a)) as [Hl|Hl].
  - split.
    + apply rank_ok_rev, or_prefix_ok; now apply rank_ok_rev.
    + unfold rv. rewrite rev_involutive. apply or_prefix_lv; try now apply rank_ok_rev. rewrite !rev_length. lia.
  - split.
    + apply rank_ok_rev, or_prefix_ok; now apply rank_ok_rev.
    + unfold rv. rewrite rev_involutive. rewrite N.lor_comm. apply or_prefix_lv; try now apply rank_ok_rev. rewrite !rev_length. lia.
Qed.

Lemma firstn_ok n r : rank_ok r -> rank_ok (firstn n r).
Proof. unfold rank_ok. rewrite !Forall_forall. intros H w Hw. apply H. rewrite <- (firstn_skipn n r). apply in_or_app. now left. Qed.
Lemma skipn_ok n r : rank_ok r -> rank_ok (skipn n r).
Proof. unfold rank_ok. rewrite !Forall_forall. intros H w Hw. apply H. rewrite <- (firstn_skipn n r). apply in_or_app. now right. Qed.

Lemma rank_bitor_assign_ok a b : rank_ok a -> rank_ok b ->
  rank_ok (rank_bitor_assign a b) /\ rv (rank_bitor_assign a b) = N.lor (rv a) (rv b).
Proof.
  intros Ha Hb. unfold rank_bitor_assign.
  set (missing := (length b - length a)%nat).
  assert (Hpad : rank_ok (firstn missing b ++ a)) by (apply rank_ok_app; [now apply firstn_ok|exact Ha]).
  split.
  - apply rank_ok_rev, or_prefix_ok; now apply rank_ok_rev.
  - unfold rv. rewrite rev_involutive.
    rewrite or_prefix_lv; try now apply rank_ok_rev.
    2:{ rewrite !rev_length, app_length, firstn_length. unfold missing. lia. }
    rewrite rev_app_distr, lv_app, rev_length.
    set (hi := lv (rev (firstn missing b))).
    destruct (Nat.le_gt_cases (length b) (length a)) as [Hle|Hgt].
    + (* nothing missing *)
      assert (Hm : missing = 0%nat) by (unfold missing; lia).
      unfold hi. rewrite Hm. cbn [firstn rev lv]. rewrite !N.mul_0_r, !N.add_0_r. reflexivity.
    + (* b = its leading `missing` words followed by as many words as a has *)
      set (lo := lv (rev (skipn missing b))).
      assert (Hsk : length (skipn missing b) = length a) by (rewrite skipn_length; unfold missing; lia).
      assert (Eb : lv (rev b) = lo + 2 ^ (64 * N.of_nat (length a)) * hi).
      { unfold lo, hi. rewrite <- (firstn_skipn missing b) at 1. rewrite rev_app_distr, lv_app, rev_length, Hsk. reflexivity. }
      rewrite Eb.
      assert (Hla : lv (rev a) < 2 ^ (64 * N.of_nat (length a))).
      { rewrite <- (rev_length a). apply lv_bound. now apply rank_ok_rev. }
      assert (Hlo : lo < 2 ^ (64 * N.of_nat (length a))).
      { unfold lo. rewrite <- Hsk, <- (rev_length (skipn missing b)). apply lv_bound. now apply rank_ok_rev, skipn_ok. }
      rewrite (lor_split _ _ _ _ _ Hla Hlo). rewrite N.lor_diag.
      replace (lv (rev a)) with (lv (rev a) + 2 ^ (64 * N.of_nat (length a)) * 0) at 2 by lia.
      rewrite (lor_split _ _ _ _ _ Hla Hlo). rewrite N.lor_0_l. reflexivity.
Qed.

Lemma rbit_bitor a b k : rank_ok a -> rank_ok b -> rbit (rank_bitor a b) k = rbit a k || rbit b k.
Proof. intros Ha Hb. unfold rbit. destruct (rank_bitor_ok a b Ha Hb) as [_ ->]. apply N.lor_spec. Qed.

Lemma rbit_bitor_assign a b k : rank_ok a -> rank_ok b -> rbit (rank_bitor_assign a b) k = rbit a k || rbit b k.
Proof. intros Ha Hb. unfold rbit. destruct (rank_bitor_assign_ok a b Ha Hb) as [_ ->]. apply N.lor_spec. Qed.

Lemma is_all_zeros_rv r : is_all_zeros r = (rv r =? 0).
Proof.
  unfold is_all_zeros, rv. rewrite <- lv_zero.
  clear. induction r as [|w t IH]; [reflexivity|]. cbn [forallb rev]. rewrite forallb_app. cbn [forallb].
  rewrite IH. rewrite andb_true_r. apply andb_comm.
Qed.

(* ---- popcount ------------------------------------------------------------- *)
Definition nsubset (a b : N) : Prop := forall k, N.testbit a k = true -> N.testbit b k = true.

Lemma testbit_pos_xI p k : N.testbit (Npos p~1) (N.succ k) = N.testbit (Npos p) k.
Proof. change (Npos p~1) with (N.succ_double (Npos p)). rewrite N.succ_double_spec. apply N.testbit_odd_succ. lia. Qed.
Lemma testbit_pos_xO p k : N.testbit (Npos p~0) (N.succ k) = N.testbit (Npos p) k.
Proof. change (Npos p~0) with (N.double (Npos p)). rewrite N.double_spec. apply N.testbit_even_succ. lia. Qed.

Lemma pop_pos_pos p : 1 <= pop_pos p.
Proof. induction p; cbn [pop_pos]; lia. Qed.

Lemma nsubset_pos_tail_II p q : nsubset (Npos p~1) (Npos q~1) -> nsubset (Npos p) (Npos q).
Proof. intros H k Hk. specialize (H (N.succ k)). rewrite !testbit_pos_xI in H. auto. Qed.
Lemma nsubset_pos_tail_IO p q : nsubset (Npos p~1) (Npos q~0) -> False.
Proof. intros H. specialize (H 0). cbn in H. specialize (H eq_refl). discriminate. Qed.
Lemma nsubset_pos_tail_OI p q : nsubset (Npos p~0) (Npos q~1) -> nsubset (Npos p) (Npos q).
Proof. intros H k Hk. specialize (H (N.succ k)). rewrite testbit_pos_xO, testbit_pos_xI in H. auto. Qed.
Lemma nsubset_pos_tail_OO p q : nsubset (Npos p~0) (Npos q~0) -> nsubset (Npos p) (Npos q).
Proof. intros H k Hk. specialize (H (N.succ k)). rewrite !testbit_pos_xO in H. auto. Qed.

Lemma nsubset_pos_1 p : nsubset (Npos p) 1 -> p = xH.
Proof.
  intros H. destruct p; [| |reflexivity].
  - exfalso. assert (Hb : exists k, N.testbit (Npos p) k = true).
    { exists (N.log2 (Npos p)). apply N.bit_log2. discriminate. }
    destruct Hb as [k Hk]. specialize (H (N.succ k)). rewrite testbit_pos_xI in H. specialize (H Hk).
    change 1 with (Npos 1) in H. rewrite N.bits_above_log2 in H; [discriminate|]. cbn. lia.
  - exfalso. assert (Hb : exists k, N.testbit (Npos p) k = true).
    { exists (N.log2 (Npos p)). apply N.bit_log2. discriminate. }
    destruct Hb as [k Hk]. specialize (H (N.succ k)). rewrite testbit_pos_xO in H. specialize (H Hk).
    rewrite N.bits_above_log2 in H; [discriminate|]. cbn. lia.
Qed.

Lemma pop_subset_pos p : forall q, nsubset (Npos p) (Npos q) ->
  pop_pos p <= pop_pos q /\ (pop_pos q <= pop_pos p -> p = q).
Proof.
  induction p as [p IH|p IH|]; intros q Hs.
  - destruct q as [q|q|].
    + apply nsubset_pos_tail_II in Hs. destruct (IH q Hs) as [H1 H2]. cbn [pop_pos]. split; [lia|].
      intros H. f_equal. apply H2. lia.
    + exfalso. eapply nsubset_pos_tail_IO. exact Hs.
    + apply nsubset_pos_1 in Hs. discriminate.
  - destruct q as [q|q|].
    + apply nsubset_pos_tail_OI in Hs. destruct (IH q Hs) as [H1 H2]. cbn [pop_pos]. split; [lia|].
      intros H. lia.
    + apply nsubset_pos_tail_OO in Hs. destruct (IH q Hs) as [H1 H2]. cbn [pop_pos]. split; [lia|].
      intros H. f_equal. apply H2. lia.
    + apply nsubset_pos_1 in Hs. discriminate.
  - cbn [pop_pos]. pose proof (pop_pos_pos q). split; [lia|]. intros H'.
    destruct q as [q|q|]; cbn [pop_pos] in *; [pose proof (pop_pos_pos q); lia| |reflexivity].
    exfalso. specialize (Hs 0). cbn in Hs. specialize (Hs eq_refl). discriminate.
Qed.

(* among subsets of one set, as many elements = the same set *)
Lemma pop_subset a b : nsubset a b -> popcount a <= popcount b /\ (popcount b <= popcount a -> a = b).
Proof.
  intros Hs. destruct a as [|p], b as [|q]; cbn [popcount].
  - split; [lia|reflexivity].
  - split; [lia|]. pose proof (pop_pos_pos q). lia.
  - exfalso. specialize (Hs (N.log2 (Npos p))). rewrite N.bit_log2 in Hs by discriminate.
    specialize (Hs eq_refl). rewrite N.bits_0 in Hs. discriminate.
  - destruct (pop_subset_pos p q Hs) as [H1 H2]. split; [exact H1|]. intros H. f_equal. now apply H2.
Qed.

Lemma popcount_double n : popcount (2 * n) = popcount n.
Proof. destruct n; reflexivity. Qed.
Lemma popcount_succ_double n : popcount (2 * n + 1) = 1 + popcount n.
Proof. destruct n; reflexivity. Qed.

Lemma popcount_split : forall m x a, x < 2 ^ N.of_nat m -> popcount (x + 2 ^ N.of_nat m * a) = popcount x + popcount a.
Proof.
  induction m as [|m IH]; intros x a Hx.
  - cbn in Hx. assert (x = 0) by lia. subst x. cbn [N.of_nat]. rewrite N.pow_0_r, N.mul_1_l. reflexivity.
  - replace (N.of_nat (S m)) with (N.succ (N.of_nat m)) in * by lia. rewrite N.pow_succ_r' in *.
    destruct (N.even x) eqn:Ev.
    + apply N.even_spec in Ev as [h ->].
      replace (2 * h + 2 * 2 ^ N.of_nat m * a) with (2 * (h + 2 ^ N.of_nat m * a)) by lia.
      rewrite !popcount_double. apply IH. lia.
    + assert (Ho : N.odd x = true) by (rewrite <- N.negb_even, Ev; reflexivity).
      apply N.odd_spec in Ho as [h ->].
      replace (2 * h + 1 + 2 * 2 ^ N.of_nat m * a) with (2 * (h + 2 ^ N.of_nat m * a) + 1) by lia.
      rewrite !popcount_succ_double. rewrite IH by lia. lia.
Qed.

Lemma count_ones_rv r : rank_ok r -> count_ones r = popcount (rv r).
Proof.
  unfold rv. induction r as [|w t IH]; intros H; [reflexivity|].
  inversion H as [|? ? Hw Ht]; subst. cbn [count_ones fold_right rev]. fold (count_ones t). rewrite (IH Ht).
  rewrite lv_app. cbn [lv]. rewrite N.mul_0_r, N.add_0_r.
  assert (Hb : lv (rev t) < 2 ^ (64 * N.of_nat (length (rev t)))) by (apply lv_bound; now apply rank_ok_rev).
  replace (64 * N.of_nat (length (rev t))) with (N.of_nat (64 * length (rev t))) in * by lia.
  rewrite popcount_split by exact Hb. lia.
Qed.

(* ---- reading the rule indices out of a rank ---------------------------------- *)
Lemma first_bit_rv r : first_bit_is_set r = N.odd (rv r).
Proof.
  unfold first_bit_is_set, rv. destruct (rev r) as [|w t] eqn:E.
  - assert (r = []) by (apply (f_equal (@rev N)) in E; rewrite rev_involutive in E; exact E). subst. reflexivity.
  - assert (Hl : last r 0 = w).
    { apply (f_equal (@rev N)) in E. rewrite rev_involutive in E. subst r. cbn [rev]. apply last_last. }
    rewrite Hl. cbn [lv]. unfold W. rewrite N.odd_add, N.odd_mul. cbn. now rewrite xorb_false_r.
Qed.

(* the arithmetic of one step of the shift *)
Lemma shr_arith c w x P : x < P -> (P = 1 \/ exists Q, P = 2 * Q) ->
  (w mod 2 * P + x) / 2 + P * (w / 2 + c * 2 ^ 63) = (c * (2 ^ 64 * P) + (x + P * w)) / 2.
Proof.
  intros Hx HP. change (2 ^ 64) with 18446744073709551616. change (2 ^ 63) with 9223372036854775808.
  pose proof (N.div_mod w 2 ltac:(lia)) as Hdm. pose proof (N.mod_upper_bound w 2 ltac:(lia)) as Hmb.
  destruct HP as [->|[Q ->]].
  - assert (x = 0) by lia. subst x. rewrite !N.mul_1_r, !N.mul_1_l, !N.add_0_r, !N.add_0_l.
    rewrite (N.div_small (w mod 2) 2) by lia.
    replace (c * 18446744073709551616 + w) with (w + (c * 9223372036854775808) * 2) by lia.
    rewrite N.div_add by lia. lia.
  - assert (Hq : Q * w = 2 * (Q * (w / 2)) + Q * (w mod 2)) by (rewrite Hdm at 1; lia).
    replace (w mod 2 * (2 * Q) + x) with (x + (Q * (w mod 2)) * 2) by lia. rewrite N.div_add by lia.
    replace (c * (18446744073709551616 * (2 * Q)) + (x + 2 * Q * w))
      with (x + (c * 18446744073709551616 * Q + Q * w) * 2) by lia.
    rewrite N.div_add by lia. lia.
Qed.

(* shifting the words right by one, with the carry coming in at the top *)
Lemma shr1_spec : forall r c, rank_ok r -> c <= 1 ->
  rank_ok (shr1 r c) /\ length (shr1 r c) = length r /\
  rv (shr1 r c) = (c * 2 ^ (64 * N.of_nat (length r)) + rv r) / 2.
Proof.
  induction r as [|w t IH]; intros c Hr Hc.
  - cbn. split; [constructor|]. split; [reflexivity|]. unfold rv. cbn. assert (c = 0 \/ c = 1) as [->| ->] by lia; reflexivity.
  - inversion Hr as [|? ? Hw Ht]; subst. cbn [shr1 length].
    assert (Hc' : N.land w 1 <= 1).
    { change 1 with (N.ones 1). rewrite N.land_ones. cbn. pose proof (N.mod_upper_bound w 2). lia. }
    destruct (IH (N.land w 1) Ht Hc') as [Hok [Hlen Hval]].
    assert (Hw2 : N.shiftr w 1 < 2 ^ 63).
    { rewrite N.shiftr_div_pow2. cbn. unfold W in Hw. apply N.div_lt_upper_bound; [lia|]. cbn in *. lia. }
    assert (Hnew : N.lor (N.shiftr w 1) (N.shiftl c 63) = w / 2 + c * 2 ^ 63).
    { rewrite N.shiftr_div_pow2, N.shiftl_mul_pow2. change (2 ^ 1) with 2.
      assert (E : N.lor (w / 2 + 2 ^ 63 * 0) (0 + 2 ^ 63 * c) = N.lor (w / 2) 0 + 2 ^ 63 * N.lor 0 c).
      { apply lor_split; [rewrite N.shiftr_div_pow2 in Hw2; exact Hw2|cbn; lia]. }
      rewrite N.mul_0_r, N.add_0_r, N.add_0_l, N.lor_0_r, N.lor_0_l in E. rewrite (N.mul_comm c). exact E. }
    split; [|split].
    + constructor; [|exact Hok]. rewrite Hnew. rewrite N.shiftr_div_pow2 in Hw2. change (2 ^ 1) with 2 in Hw2.
      unfold W. assert (c = 0 \/ c = 1) as [->| ->] by lia; cbn in *; lia.
    + now rewrite Hlen.
    + unfold rv in *. cbn [rev]. rewrite !lv_app. cbn [lv]. rewrite !N.mul_0_r, !N.add_0_r.
      rewrite !rev_length, Hlen. rewrite Hval, Hnew.
      set (n := length t). set (P := 2 ^ (64 * N.of_nat n)). set (x := lv (rev t)).
      replace (64 * N.of_nat (S n)) with (64 + 64 * N.of_nat n) by lia. rewrite N.pow_add_r. fold P.
      assert (Hl1 : N.land w 1 = w mod 2) by (change 1 with (N.ones 1); now rewrite N.land_ones).
      rewrite Hl1.
      assert (HP : P = 1 \/ exists Q, P = 2 * Q).
      { unfold P. destruct n as [|n']; [left; reflexivity|right].
        exists (2 ^ (64 * N.of_nat (S n') - 1)). rewrite <- N.pow_succ_r'. f_equal. lia. }
      assert (Hx : x < P).
      { unfold x, P, n. rewrite <- (rev_length t). apply lv_bound. now apply rank_ok_rev. }
      apply shr_arith; [exact Hx|exact HP].
Qed.

Lemma right_shift_rv r : rank_ok r ->
  rank_ok (right_shift_one r) /\ length (right_shift_one r) = length r /\ rv (right_shift_one r) = N.div2 (rv r).
Proof.
  intros H. unfold right_shift_one. destruct (shr1_spec r 0 H ltac:(lia)) as [H1 [H2 H3]].
  split; [exact H1|]. split; [exact H2|]. rewrite H3, N.mul_0_l, N.add_0_l. now rewrite N.div2_div.
Qed.

(* the elements of l whose position is a set bit of w *)
Fixpoint pickw (l : list submap) (w : N) : list submap :=
  match l with
  | [] => []
  | s :: t => if N.odd w then s :: pickw t (N.div2 w) else pickw t (N.div2 w)
  end.

Lemma testbit_div2 w k : N.testbit (N.div2 w) k = N.testbit w (N.succ k).
Proof. now rewrite N.div2_spec, N.shiftr_spec, N.add_1_r by lia. Qed.

Lemma pickw_0 l : pickw l 0 = [].
Proof. induction l as [|s t IH]; cbn; [reflexivity|exact IH]. Qed.

Lemma expand_rank_S f (subs : list submap) r i :
  expand_rank (S f) subs r i =
  if is_all_zeros r then Ok []
  else if first_bit_is_set r then
         match nth_error subs i with
         | None => Panic
         | Some s => match expand_rank f subs (right_shift_one r) (S i) with Ok l => Ok (s :: l) | e => e end
         end
       else expand_rank f subs (right_shift_one r) (S i).
Proof. reflexivity. Qed.

(* the loop that turns a rank into the list of its rules' maps: no panic as long as every set bit
   names an existing rule, enough fuel as long as the fuel exceeds the bit length *)
Lemma expand_rank_spec (subs : list submap) : forall f r i,
  rank_ok r -> rv r < 2 ^ N.of_nat f ->
  (forall k, N.testbit (rv r) (N.of_nat k) = true -> (i + k < length subs)%nat) ->
  expand_rank (S f) subs r i = Ok (pickw (skipn i subs) (rv r)).
Proof.
  induction f as [|f IH]; intros r i Hok Hw Hb.
  - assert (Hz : rv r = 0) by (cbn in Hw; lia). rewrite expand_rank_S, is_all_zeros_rv, Hz. cbn [N.eqb]. now rewrite pickw_0.
  - rewrite expand_rank_S, is_all_zeros_rv.
    destruct (N.eqb_spec (rv r) 0) as [Hz|Hnz]; [rewrite Hz; now rewrite pickw_0|].
    destruct (right_shift_rv r Hok) as [Hok' [_ Hval]].
    assert (Hi : (i < length subs)%nat).
    { specialize (Hb (N.to_nat (N.log2 (rv r)))). rewrite N2Nat.id in Hb. rewrite N.bit_log2 in Hb by exact Hnz.
      specialize (Hb eq_refl). lia. }
    assert (Hw2 : rv (right_shift_one r) < 2 ^ N.of_nat f).
    { rewrite Hval, N.div2_div. apply N.div_lt_upper_bound; [lia|].
      replace (N.of_nat (S f)) with (N.succ (N.of_nat f)) in Hw by lia. rewrite N.pow_succ_r' in Hw. exact Hw. }
    assert (Hb2 : forall k, N.testbit (rv (right_shift_one r)) (N.of_nat k) = true -> (S i + k < length subs)%nat).
    { intros k Hk. rewrite Hval, testbit_div2 in Hk. specialize (Hb (S k)).
      replace (N.of_nat (S k)) with (N.succ (N.of_nat k)) in Hb by lia. specialize (Hb Hk). lia. }
    rewrite first_bit_rv.
    destruct (nth_error subs i) as [s|] eqn:En; [|apply nth_error_None in En; lia].
    assert (Hsk : skipn i subs = s :: skipn (S i) subs).
    { clear -En. revert i En. induction subs as [|x t IHt]; intros [|i] En; cbn in *; try discriminate.
      - now inversion En.
      - now apply IHt. }
    rewrite Hsk. cbn [pickw]. rewrite (IH (right_shift_one r) (S i) Hok' Hw2 Hb2), Hval.
    destruct (N.odd (rv r)); reflexivity.
Qed.

(* the bits select the substitution maps of the rules they name *)
Lemma pickw_filter (rules : list rule) (f : rule -> bool) : forall w,
  (forall k, (k < length rules)%nat -> N.testbit w (N.of_nat k) = f (nth k rules ([], []))) ->
  pickw (map snd rules) w = map snd (filter f rules).
Proof.
  induction rules as [|r t IH]; intros w H; cbn [map pickw filter]; [reflexivity|].
  assert (H0 : N.odd w = f r).
  { specialize (H 0%nat). cbn in H. rewrite <- N.bit0_odd. apply H. lia. }
  assert (Ht : forall k, (k < length t)%nat -> N.testbit (N.div2 w) (N.of_nat k) = f (nth k t ([], []))).
  { intros k Hk. rewrite testbit_div2. specialize (H (S k)). cbn [nth length] in H.
    replace (N.of_nat (S k)) with (N.succ (N.of_nat k)) in H by lia. apply H. lia. }
  rewrite H0, (IH _ Ht). destruct (f r); reflexivity.
Qed.
