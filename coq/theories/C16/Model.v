(* C16 — executable model of the feature-variations pipeline of fontc:
     fontir/src/feature_variations.rs   NBox, Region, Rank, overlay_feature_variations,
                                        merge_same_sub_rules, merge_same_region_rules,
                                        NBox::to_condition_set
     fontbe/src/features/feature_variations.rs   FeatureVariationsProvider::new,
                                        make_substitution_lookups
     fea-rs/src/compile/feature_writer.rs + compile_ctx.rs   the ConditionSet-keyed map of
                                        variations, sort_feature_variations
   and of how an OpenType consumer evaluates the resulting table.
   Executable definitions only; proofs are in Proofs.v.

   Numbers.  A normalized coordinate (f64 in the code) is an integer number of
   1/U units: U is the integer that stands for 1.0 (NormalizedCoord::MAX), -U
   for -1.0.  The overlay code only compares coordinates, takes max/min and
   tests equality with -1.0/1.0, so any U works; to_f2dot14 is the only place
   where the unit matters.  Axis tags and glyph names are interned as N in a
   way that preserves their order (BTreeMap order = numeric order). *)
From Coq Require Import List NArith ZArith Bool.
Import ListNotations.

Definition axis := N.
Definition glyph := N.
Definition range := (Z * Z)%type.
(* NBox(BTreeMap<Tag,(min,max)>): association list, ascending keys *)
Definition box := list (axis * range).
(* Region(Vec<NBox>) *)
Definition region := list box.
(* BTreeMap<GlyphName,GlyphName>: association list, ascending keys *)
Definition submap := list (glyph * glyph).
Definition rule := (region * submap)%type.

(* outcome of a computation that can panic; OutOfFuel is never a real outcome *)
Inductive res (A : Type) := Ok (a : A) | Panic | OutOfFuel.
Arguments Ok {A} a.
Arguments Panic {A}.
Arguments OutOfFuel {A}.

(* ---- equality / order on the key types ------------------------------------ *)
Definition range_eqb (r1 r2 : range) : bool := (fst r1 =? fst r2)%Z && (snd r1 =? snd r2)%Z.
Fixpoint box_eqb (a b : box) : bool :=
  match a, b with
  | [], [] => true
  | (k1, r1) :: t1, (k2, r2) :: t2 => (k1 =? k2)%N && range_eqb r1 r2 && box_eqb t1 t2
  | _, _ => false
  end.
Fixpoint region_eqb (a b : region) : bool :=
  match a, b with
  | [], [] => true
  | x :: t1, y :: t2 => box_eqb x y && region_eqb t1 t2
  | _, _ => false
  end.
Fixpoint submap_eqb (a b : submap) : bool :=
  match a, b with
  | [], [] => true
  | (k1, v1) :: t1, (k2, v2) :: t2 => (k1 =? k2)%N && (v1 =? v2)%N && submap_eqb t1 t2
  | _, _ => false
  end.

Definition lex (c1 c2 : comparison) : comparison := match c1 with Eq => c2 | c => c end.
Definition range_cmp (r1 r2 : range) : comparison := lex (fst r1 ?= fst r2)%Z (snd r1 ?= snd r2)%Z.
(* derived Ord of NBox = Ord of BTreeMap = lexicographic over the entries *)
Fixpoint box_cmp (a b : box) : comparison :=
  match a, b with
  | [], [] => Eq
  | [], _ => Lt
  | _, [] => Gt
  | (k1, r1) :: t1, (k2, r2) :: t2 => lex (k1 ?= k2)%N (lex (range_cmp r1 r2) (box_cmp t1 t2))
  end.
Fixpoint submap_cmp (a b : submap) : comparison :=
  match a, b with
  | [], [] => Eq
  | [], _ => Lt
  | _, [] => Gt
  | (k1, v1) :: t1, (k2, v2) :: t2 => lex (k1 ?= k2)%N (lex (v1 ?= v2)%N (submap_cmp t1 t2))
  end.

(* stable sort (slice::sort / sort_by_key): insertion sort, equal elements keep their order *)
Section Sort.
  Context {A : Type} (gtb : A -> A -> bool).   (* gtb x y = true iff x > y *)
  (* x is placed in front of the first element that is not smaller than x *)
  Fixpoint sort_insert (x : A) (l : list A) : list A :=
    match l with
    | [] => [x]
    | y :: t => if gtb x y then y :: sort_insert x t else x :: l
    end.
  (* x precedes every element of t in the input, so equal elements keep their order *)
  Fixpoint stable_sort (l : list A) : list A :=
    match l with
    | [] => []
    | x :: t => sort_insert x (stable_sort t)
    end.
End Sort.

(* ---- BTreeMap primitives ---------------------------------------------------- *)
Section KV.
  Context {V : Type}.
  Fixpoint kv_find (m : list (N * V)) (k : N) : option V :=
    match m with
    | [] => None
    | (k', v) :: t => if (k =? k')%N then Some v else kv_find t k
    end.
  Definition kv_mem (m : list (N * V)) (k : N) : bool :=
    match kv_find m k with Some _ => true | None => false end.
  (* BTreeMap::insert: replace, or insert at the sorted position *)
  Fixpoint kv_set (m : list (N * V)) (k : N) (v : V) : list (N * V) :=
    match m with
    | [] => [(k, v)]
    | (k', v') :: t =>
        if (k =? k')%N then (k, v) :: t
        else if (k <? k')%N then (k, v) :: m
        else (k', v') :: kv_set t k v
    end.
  (* collect() / extend(): insert one after the other, later entries overwrite *)
  Definition kv_extend (m add : list (N * V)) : list (N * V) :=
    fold_left (fun acc e => kv_set acc (fst e) (snd e)) add m.
End KV.

(* ---- NBox ------------------------------------------------------------------- *)
Section Scale.
  Variable U : Z.

  Definition full_range : range := ((- U)%Z, U).
  Definition box_get (b : box) (a : axis) : range :=
    match kv_find b a with Some r => r | None => full_range end.

  (* NBox::insert *)
  Definition clamp_range (omin omax : option Z) : range :=
    (Z.max (match omin with Some v => v | None => - U end) (- U),
     Z.min (match omax with Some v => v | None => U end) U)%Z.
  Definition nbox_insert (b : box) (a : axis) (omin omax : option Z) : box :=
    kv_set b a (clamp_range omin omax).

  (* an NBox built the way the callers do: default(), then insert per condition *)
  Definition mk_box (l : list (axis * (option Z * option Z))) : box :=
    fold_left (fun b e => nbox_insert b (fst e) (fst (snd e)) (snd (snd e))) l [].

  (* FeatureVariationsProvider::new: the conditions of one set (in the IR's sorted order) are
     gathered per axis, a repeated axis intersects (Option::max on the minima, the smaller of the
     maxima), then inserted into an NBox *)
  Definition opt_min_hi (a b : option Z) : option Z :=
    match a, b with Some x, Some y => Some (Z.min x y) | Some x, None => Some x | None, y => y end.
  Definition opt_max_lo (a b : option Z) : option Z :=
    match a, b with Some x, Some y => Some (Z.max x y) | Some x, None => Some x | None, y => y end.
  Definition gather_conditions (l : list (axis * (option Z * option Z))) : list (axis * (option Z * option Z)) :=
    fold_left (fun acc e =>
                 match kv_find acc (fst e) with
                 | Some cur => kv_set acc (fst e) (opt_max_lo (fst cur) (fst (snd e)), opt_min_hi (snd cur) (snd (snd e)))
                 | None => kv_set acc (fst e) (snd e)
                 end) l [].
  Definition box_of_conditions (l : list (axis * (option Z * option Z))) : box := mk_box (gather_conditions l).

  (* NBox::cleanup *)
  Definition box_cleanup (b : box) : box :=
    filter (fun e => negb (range_eqb (snd e) full_range)) b.

  (* first loop of overlay_onto, over the axes common to both boxes (the code
     iterates a HashSet; the only order-dependent effect would be the early
     return, which is the same whichever axis triggers it) *)
  Fixpoint inter_loop (self other : box) (axes : list axis) (inter : box) : option box :=
    match axes with
    | [] => Some inter
    | a :: t =>
        let '(min1, max1) := box_get self a in
        let '(min2, max2) := box_get other a in
        let mn := Z.max min1 min2 in
        let mx := Z.min max1 max2 in
        if (mx <=? mn)%Z then None     (* min >= max: no intersection *)
        else inter_loop self other t (nbox_insert inter a (Some mn) (Some mx))
    end.

  (* second loop, over other's keys in order; None = one of the two
     `return (Some(intersection), Some(other.clone()))` *)
  Fixpoint rem_loop (self other inter : box) (axes : list axis) (rem : box)
           (extruding fully_inside : bool) : option (box * bool) :=
    match axes with
    | [] => Some (rem, fully_inside)
    | a :: t =>
        if negb (kv_mem self a) then rem_loop self other inter t rem extruding fully_inside
        else
          let '(min1, max1) := box_get inter a in
          let '(min2, max2) := box_get other a in
          if (min1 <=? min2)%Z && (max2 <=? max1)%Z
          then rem_loop self other inter t rem extruding fully_inside
          else if extruding then None
          else if (min1 <=? min2)%Z
          then rem_loop self other inter t
                 (nbox_insert rem a (Some (Z.max max1 min2)) (Some max2)) true false
          else if (max2 <=? max1)%Z
          then rem_loop self other inter t
                 (nbox_insert rem a (Some min2) (Some (Z.min min1 max2))) true false
          else None
    end.

  (* NBox::overlay_onto: (intersection, remainder) *)
  Definition overlay_onto (self other : box) : option box * option box :=
    let inter0 := kv_extend [] (self ++ other) in
    let shared := filter (kv_mem other) (map fst self) in
    match inter_loop self other shared inter0 with
    | None => (None, Some other)
    | Some inter =>
        let ext0 := existsb (fun a => negb (kv_mem other a)) (map fst self) in
        match rem_loop self other inter (map fst other) other ext0 (negb ext0) with
        | None => (Some inter, Some other)
        | Some (rem, fully_inside) =>
            if fully_inside then (Some inter, None) else (Some inter, Some rem)
        end
    end.

  (* Region::cleanup_and_normalize *)
  Definition region_normalize (r : region) : region :=
    stable_sort (fun x y => match box_cmp x y with Gt => true | _ => false end)
                (map box_cleanup r).
End Scale.

(* ---- Rank: SmallVec<[u64;4]>, most significant word first (as repaired: `|=` aligned at the
   least significant word, sort key = number of set bits) ------------------------------------- *)
Definition rank := list N.

Definition rank_new (v : nat) : rank :=
  N.shiftl 1 (N.of_nat (Nat.modulo v 64)) :: repeat 0%N (Nat.div v 64).

Fixpoint pop_pos (p : positive) : N :=
  match p with xH => 1 | xO q => pop_pos q | xI q => 1 + pop_pos q end%N.
Definition popcount (n : N) : N := match n with N0 => 0%N | Npos p => pop_pos p end.
(* u64::count_ones summed over the words *)
Definition count_ones (r : rank) : N := fold_right (fun w acc => popcount w + acc)%N 0%N r.
Definition is_all_zeros (r : rank) : bool := forallb (fun w => (w =? 0)%N) r.
Definition first_bit_is_set (r : rank) : bool := N.odd (last r 0%N).
Fixpoint shr1 (r : rank) (carry : N) : rank :=
  match r with
  | [] => []
  | w :: t => N.lor (N.shiftr w 1) (N.shiftl carry 63) :: shr1 t (N.land w 1)
  end.
Definition right_shift_one (r : rank) : rank := shr1 r 0%N.

(* a.iter_mut().zip(b): OR b onto a position by position, as far as both go *)
Fixpoint or_prefix (a b : list N) : list N :=
  match a, b with
  | x :: a', y :: b' => N.lor x y :: or_prefix a' b'
  | _, _ => a
  end.
(* impl BitOr for &Rank: the shorter onto the longer, aligned at the END *)
Definition rank_bitor (self rhs : rank) : rank :=
  let '(out, other) := if (length rhs <? length self)%nat then (self, rhs) else (rhs, self) in
  rev (or_prefix (rev out) (rev other)).
(* impl BitOrAssign: pad self at the front with rhs's leading words, then OR
   aligned at the END (least significant word) *)
Definition rank_bitor_assign (self rhs : rank) : rank :=
  let missing := (length rhs - length self)%nat in
  rev (or_prefix (rev (firstn missing rhs ++ self)) (rev rhs)).

(* ---- overlay_feature_variations ---------------------------------------------- *)
Definition boxmap := list (box * rank).     (* IndexMap<NBox, Rank>: insertion ordered *)

(* *boxmap.entry(b).or_default() |= &r *)
Fixpoint upsert_or (m : boxmap) (b : box) (r : rank) : boxmap :=
  match m with
  | [] => [(b, rank_bitor_assign [] r)]
  | (b', r') :: t =>
      if box_eqb b b' then (b', rank_bitor_assign r' r) :: t else (b', r') :: upsert_or t b r
  end.

Definition init_map : boxmap := [([], [])].

Section Scale2.
  Variable U : Z.

  Definition overlay_one (rk cur_rank : rank) (b : box) (m : boxmap) (cb : box) : boxmap :=
    let '(oi, orem) := overlay_onto U cb b in
    let m1 := match oi with Some i => upsert_or m i (rank_bitor rk cur_rank) | None => m end in
    match orem with Some r => upsert_or m1 r rk | None => m1 end.

  Definition overlay_step (cur : region) (cur_rank : rank) (old : boxmap) : boxmap :=
    fold_left (fun m e => fold_left (overlay_one (snd e) cur_rank (fst e)) cur m) old init_map.

  Fixpoint overlay_loop (rules : list rule) (i : nat) (m : boxmap) : boxmap :=
    match rules with
    | [] => m
    | (reg, _) :: t =>
        match reg with
        | [] => overlay_loop t (S i) m      (* `continue`: a rule without condition set never applies *)
        | _ => overlay_loop t (S i) (overlay_step reg (rank_new i) m)
        end
    end.

  (* merge_same_sub_rules: IndexMap keyed by the substitution map *)
  Fixpoint mss_insert (acc : list (submap * region)) (s : submap) (r : region) :=
    match acc with
    | [] => [(s, r)]
    | (s', r') :: t => if submap_eqb s s' then (s', r' ++ r) :: t else (s', r') :: mss_insert t s r
    end.
  Definition merge_same_sub_rules (rules : list rule) : list rule :=
    map (fun e => (snd e, fst e)) (fold_left (fun acc e => mss_insert acc (snd e) (fst e)) rules []).

  (* merge_same_region_rules: IndexMap keyed by the normalized region, filled in
     reverse rule order, `extend` lets the earlier rule overwrite; reversed back *)
  Fixpoint msr_insert (acc : list (region * submap)) (r : region) (s : submap) :=
    match acc with
    | [] => [(r, s)]
    | (r', s') :: t => if region_eqb r r' then (r', kv_extend s' s) :: t else (r', s') :: msr_insert t r s
    end.
  Definition merge_same_region_rules (rules : list rule) : list rule :=
    rev (fold_left (fun acc e => msr_insert acc (region_normalize U (fst e)) (snd e)) (rev rules) []).

  Definition preflight (rules : list rule) : list rule :=
    merge_same_region_rules (merge_same_sub_rules rules).

  (* while !rank.is_all_zeros() { if first bit { push(conditional_subs[i]) } shift; i += 1 } *)
  Fixpoint expand_rank (fuel : nat) (subs : list submap) (r : rank) (i : nat) : res (list submap) :=
    if is_all_zeros r then Ok []
    else match fuel with
         | O => OutOfFuel
         | S f =>
             if first_bit_is_set r then
               match nth_error subs i with
               | None => Panic                  (* index out of bounds *)
               | Some s =>
                   match expand_rank f subs (right_shift_one r) (S i) with
                   | Ok l => Ok (s :: l)
                   | e => e
                   end
               end
             else expand_rank f subs (right_shift_one r) (S i)
         end.

  Fixpoint collect_items (subs : list submap) (sorted : boxmap) : res (list (box * list submap)) :=
    match sorted with
    | [] => Ok []
    | (b, rk) :: t =>
        if is_all_zeros rk then collect_items subs t
        else match expand_rank (S (64 * length rk)) subs rk 0 with
             | Ok l => match collect_items subs t with Ok rest => Ok ((b, l) :: rest) | e => e end
             | Panic => Panic
             | OutOfFuel => OutOfFuel
             end
    end.

  (* sort_by_key(Reverse(count_ones)): most contributing rules first, stable *)
  Definition sort_by_ones (m : boxmap) : boxmap :=
    stable_sort (fun x y => (count_ones (snd x) <? count_ones (snd y))%N) m.

  (* overlay over rules that already went through the preflight *)
  Definition overlay_merged (rules : list rule) : res (list (box * list submap)) :=
    collect_items (map snd rules) (sort_by_ones (overlay_loop rules 0 init_map)).

  Definition overlay_feature_variations (rules : list rule) : res (list (box * list submap)) :=
    overlay_merged (preflight rules).
End Scale2.

(* ---- second stage: ConditionSets, lookups, records --------------------------- *)
(* F2Dot14::from_f64: (x * 16384 + (+-0.5)) as i16 — round half away from zero, saturating *)
Definition f2dot14 (U z : Z) : Z :=
  let n := (z * 16384)%Z in
  let q := if (0 <=? z)%Z then ((2 * n + U) / (2 * U))%Z else (- ((- 2 * n + U) / (2 * U)))%Z in
  Z.max (-32768) (Z.min 32767 q).

(* what to_condition_set reads of an axis: its index in StaticMetadata.axes and
   the F2Dot14 values of its normalized minimum and maximum *)
Record axis_info := { ax_index : N; ax_minq : Z; ax_maxq : Z }.
Definition axes_env := list (axis * axis_info).
Definition cond := (N * (Z * Z))%type.     (* ConditionFormat1: axis index, min, max (F2Dot14 bits) *)
Definition condset := list cond.

Fixpoint condset_eqb (a b : condset) : bool :=
  match a, b with
  | [], [] => true
  | (k1, r1) :: t1, (k2, r2) :: t2 => (k1 =? k2)%N && range_eqb r1 r2 && condset_eqb t1 t2
  | _, _ => false
  end.

(* NBox::to_condition_set; None = the `expect` on an unknown axis *)
Fixpoint to_condition_set (U : Z) (env : axes_env) (b : box) : option condset :=
  match b with
  | [] => Some []
  | (a, (mn, mx)) :: t =>
      match kv_find env a, to_condition_set U env t with
      | Some ai, Some rest =>
          let q := (f2dot14 U mn, f2dot14 U mx) in
          if range_eqb q (ax_minq ai, ax_maxq ai) then Some rest
          else Some ((ax_index ai, q) :: rest)
      | _, _ => None
      end
  end.

(* make_substitution_lookups: all maps, sorted by content, deduplicated *)
Fixpoint dedup_sorted (l : list submap) : list submap :=
  match l with
  | [] => []
  | x :: t => match t with
              | [] => [x]
              | y :: _ => if submap_eqb x y then dedup_sorted t else x :: dedup_sorted t
              end
  end.
Definition make_lookups (items : list (box * list submap)) : list submap :=
  dedup_sorted (stable_sort (fun x y => match submap_cmp x y with Gt => true | _ => false end)
                            (flat_map snd items)).
Fixpoint lookup_index (lookups : list submap) (s : submap) (i : N) : option N :=
  match lookups with
  | [] => None
  | x :: t => if submap_eqb x s then Some i else lookup_index t s (N.succ i)
  end.
Fixpoint map_opt {A B} (f : A -> option B) (l : list A) : option (list B) :=
  match l with
  | [] => Some []
  | x :: t => match f x, map_opt f t with Some y, Some r => Some (y :: r) | _, _ => None end
  end.
Definition sort_N (l : list N) : list N := stable_sort (fun x y => (y <? x)%N) l.

(* FeatureVariationsProvider::new after the overlay: (ConditionSet, sorted lookup indices) per box *)
Definition provider_conditions (U : Z) (env : axes_env) (lookups : list submap)
           (items : list (box * list submap)) : option (list (condset * list N)) :=
  map_opt (fun it =>
             match to_condition_set U env (fst it), map_opt (fun s => lookup_index lookups s 0%N) (snd it) with
             | Some cs, Some idx => Some (cs, sort_N idx)
             | _, _ => None
             end) items.

(* fea-rs: `variations: HashMap<ConditionSet, Vec<LookupId>>` filled with extend/insert
   (a later equal key replaces the value), then sort_feature_variations orders the records
   by the first registration of their ConditionSet *)
Fixpoint rec_upsert (recs : list (condset * list N)) (k : condset) (v : list N) :=
  match recs with
  | [] => [(k, v)]
  | (k', v') :: t => if condset_eqb k k' then (k', v) :: t else (k', v') :: rec_upsert t k v
  end.
Definition build_records (conds : list (condset * list N)) : list (condset * list N) :=
  fold_left (fun acc e => rec_upsert acc (fst e) (snd e)) conds [].

Record gsub_fv := { fv_lookups : list submap; fv_records : list (condset * list N) }.

Definition compile_rules (U : Z) (env : axes_env) (rules : list rule) : res gsub_fv :=
  match overlay_feature_variations U rules with
  | Ok items =>
      let lookups := make_lookups items in
      match provider_conditions U env lookups items with
      | Some conds => Ok {| fv_lookups := lookups; fv_records := build_records conds |}
      | None => Panic
      end
  | Panic => Panic
  | OutOfFuel => OutOfFuel
  end.

(* ---- how the table is consumed (OpenType) -------------------------------------- *)
(* a location as seen by a shaper: normalized F2Dot14 coordinate per axis index *)
Definition qpoint := N -> Z.
Definition cond_holds (p : qpoint) (c : cond) : bool :=
  let '(i, (mn, mx)) := c in (mn <=? p i)%Z && (p i <=? mx)%Z.
Definition condset_holds (p : qpoint) (cs : condset) : bool := forallb (cond_holds p) cs.
(* first matching FeatureVariationRecord *)
Definition select_record (recs : list (condset * list N)) (p : qpoint) : option (list N) :=
  match find (fun r => condset_holds p (fst r)) recs with Some r => Some (snd r) | None => None end.

Definition sub_apply (m : submap) (g : glyph) : glyph :=
  match kv_find m g with Some h => h | None => g end.
(* lookups are applied one after the other *)
Definition apply_seq (ms : list submap) (g : glyph) : glyph := fold_left (fun g m => sub_apply m g) ms g.

Fixpoint dedup_N (l : list N) : list N :=
  match l with
  | [] => []
  | x :: t => match t with
              | [] => [x]
              | y :: _ => if (x =? y)%N then dedup_N t else x :: dedup_N t
              end
  end.
(* the lookups of the substituted feature run in lookup-list order, each once *)
Definition font_apply (f : gsub_fv) (p : qpoint) (g : glyph) : glyph :=
  match select_record (fv_records f) p with
  | None => g
  | Some idx => apply_seq (flat_map (fun i => match nth_error (fv_lookups f) (N.to_nat i) with
                                                | Some m => [m] | None => [] end)
                                     (dedup_N (sort_N idx))) g
  end.

(* ---- what the source says ------------------------------------------------------ *)
Definition point := axis -> Z.
Definition in_rangeb (r : range) (x : Z) : bool := (fst r <=? x)%Z && (x <=? snd r)%Z.
(* a condition set holds when each of its conditions does (closed ranges) *)
Definition in_boxb (p : point) (b : box) : bool := forallb (fun e => in_rangeb (snd e) (p (fst e))) b.
(* a rule fires when one of its condition sets holds *)
Definition in_regionb (p : point) (r : region) : bool := existsb (in_boxb p) r.
Definition active_maps (rules : list rule) (p : point) : list submap :=
  map snd (filter (fun r => in_regionb p (fst r)) rules).
(* designspaceLib.processRules: the firing rules are applied in rule order *)
Definition spec_apply (rules : list rule) (p : point) (g : glyph) : glyph :=
  apply_seq (active_maps rules p) g.

(* first output box of the overlay containing the point *)
Definition first_match (items : list (box * list submap)) (p : point) : option (list submap) :=
  match find (fun it => in_boxb p (fst it)) items with Some it => Some (snd it) | None => None end.

(* ---- comparison helpers for the correspondence cases ----------------------------- *)
Fixpoint list_eqb' {A} (eqb : A -> A -> bool) (a b : list A) : bool :=
  match a, b with
  | [], [] => true
  | x :: a', y :: b' => eqb x y && list_eqb' eqb a' b'
  | _, _ => false
  end.
Definition items_eqb (a b : list (box * list submap)) : bool :=
  list_eqb' (fun x y => box_eqb (fst x) (fst y) && list_eqb' submap_eqb (snd x) (snd y)) a b.
Definition overlay_res_eqb (r : res (list (box * list submap))) (expect : option (list (box * list submap))) : bool :=
  match r, expect with
  | Ok a, Some b => items_eqb a b
  | Panic, None => true
  | _, _ => false
  end.
Definition records_eqb (a b : list (condset * list N)) : bool :=
  list_eqb' (fun x y => condset_eqb (fst x) (fst y) && list_eqb' N.eqb (snd x) (snd y)) a b.
Definition gsub_res_eqb (r : res gsub_fv) (expect : option (list submap * list (condset * list N))) : bool :=
  match r, expect with
  | Ok f, Some (l, rs) => list_eqb' submap_eqb (fv_lookups f) l && records_eqb (fv_records f) rs
  | Panic, None => true
  | _, _ => false
  end.
