(* C16 — the first output box that contains a location carries exactly the firing rules. *)
From Coq Require Import List NArith ZArith Bool Lia Sorted Permutation.
From Coq Require Import ZifyBool ZifyN ZifyNat.
From FV.C16 Require Import Model ProofsBox ProofsRank ProofsOverlay.
Import ListNotations.

Lemma rbit_nsubset r r' : (forall k, rbit r k = true -> rbit r' k = true) -> nsubset (rv r) (rv r').
Proof.
  intros H k Hk. specialize (H (N.to_nat k)). unfold rbit in H. rewrite N2Nat.id in H. now apply H.
Qed.

Section First.
  Variable U : Z.
  Variable rules : list rule.
  Hypothesis Hwf : Forall (fun r => Forall (wf_box U) (fst r)) rules.

  Let n := length rules.
  Let subs := map snd rules.
  Let final := overlay_loop U rules 0 init_map.
  Let sorted := sort_by_ones final.

  Definition nonzero (e : box * rank) : bool := negb (is_all_zeros (snd e)).
  Definition item_of (e : box * rank) : box * list submap := (fst e, pickw subs (rv (snd e))).

  Lemma init_entry_ok : Forall (entry_ok U rules 0) init_map.
  Proof.
    constructor; [|constructor]. split; [apply wf_box_nil|]. split; [apply rank_ok_nil|].
    intros k Hk. cbn [snd] in Hk. rewrite rbit_nil in Hk. discriminate.
  Qed.

  Lemma final_sound : Forall (entry_ok U rules n) final.
  Proof.
    (* soundness does not depend on the location: run the invariant at any location that is in no
       way special, e.g. without the completeness part *)
    unfold final, n.
    assert (G : forall rest i m, skipn i rules = rest -> (i <= length rules)%nat -> Forall (entry_ok U rules i) m ->
                Forall (entry_ok U rules (length rules)) (overlay_loop U rest i m)).
    { induction rest as [|[reg s] t IH]; intros i m Hsk Hle Hm; cbn [overlay_loop].
      - assert (Hl : length (skipn i rules) = (length rules - i)%nat) by apply skipn_length.
        rewrite Hsk in Hl. cbn in Hl. assert (i = length rules) by lia. subst i. exact Hm.
      - assert (Hi : nth_error rules i = Some (reg, s)).
        { rewrite <- (firstn_skipn i rules) at 1. rewrite Hsk.
          rewrite nth_error_app2 by (rewrite firstn_length; lia). rewrite firstn_length, Nat.min_l by exact Hle.
          now rewrite Nat.sub_diag. }
        assert (Hlt : (i < length rules)%nat) by (apply nth_error_Some; congruence).
        destruct reg as [|c0 regt].
        + apply IH; [now apply (skipn_S_tail _ _ _ _ Hsk)|lia|].
          eapply Forall_impl; [|exact Hm]. intros e. apply entry_ok_mono. lia.
        + apply IH; [now apply (skipn_S_tail _ _ _ _ Hsk)|lia|].
          now apply (step_sound U rules Hwf i (c0 :: regt) s). }
    apply (G rules 0%nat init_map); [reflexivity|lia|apply init_entry_ok].
  Qed.

  Lemma sorted_perm : Permutation sorted final.
  Proof. unfold sorted, sort_by_ones. apply (stable_sort_perm_d (fun e : box * rank => count_ones (snd e))). Qed.

  Lemma sorted_sound : Forall (entry_ok U rules n) sorted.
  Proof.
    rewrite Forall_forall. intros e He. apply (Permutation_in _ sorted_perm) in He.
    pose proof final_sound as H. rewrite Forall_forall in H. now apply H.
  Qed.

  (* the set bits of an entry's rank name existing rules *)
  Lemma entry_bits e : entry_ok U rules n e -> forall k, N.testbit (rv (snd e)) k = true -> (N.to_nat k < n)%nat.
  Proof.
    intros [_ [_ H]] k Hk. specialize (H (N.to_nat k)). unfold rbit in H. rewrite N2Nat.id in H.
    destruct (H Hk) as [Hlt _]. exact Hlt.
  Qed.

  (* collect_items never panics and lists the non-empty entries in order *)
  Lemma collect_items_ok : forall l, Forall (entry_ok U rules n) l ->
    collect_items subs l = Ok (map item_of (filter nonzero l)).
  Proof.
    induction l as [|[b rk] t IH]; intros Hl; cbn [collect_items filter map]; [reflexivity|].
    inversion Hl as [|? ? He Ht]; subst. unfold nonzero at 1. cbn [snd].
    destruct (is_all_zeros rk) eqn:Ez; cbn [negb]; [now apply IH|].
    destruct He as [Hwb [Hok Hbits]]. cbn [fst snd] in *.
    assert (Hexp : expand_rank (S (64 * length rk)) subs rk 0 = Ok (pickw subs (rv rk))).
    { rewrite (expand_rank_spec subs (64 * length rk) rk 0 Hok).
      - reflexivity.
      - unfold rv. replace (N.of_nat (64 * length rk)) with (64 * N.of_nat (length (rev rk)))%N by (rewrite rev_length; lia).
        apply lv_bound. now apply rank_ok_rev.
      - intros k Hk. specialize (Hbits k Hk). destruct Hbits as [Hlt _]. unfold subs. rewrite map_length. unfold n in Hlt. exact Hlt. }
    rewrite Hexp, (IH Ht). reflexivity.
  Qed.

  Lemma overlay_merged_ok : overlay_merged U rules = Ok (map item_of (filter nonzero sorted)).
  Proof. unfold overlay_merged. fold subs. fold final. fold sorted. apply collect_items_ok, sorted_sound. Qed.

  (* every map listed for a box belongs to a rule that fires everywhere in the box *)
  Lemma pickw_In (l : list submap) : forall w s, In s (pickw l w) ->
    exists k, N.testbit w (N.of_nat k) = true /\ nth_error l k = Some s.
  Proof.
    induction l as [|x t IH]; intros w s Hin; cbn [pickw] in Hin; [destruct Hin|].
    assert (Hrec : In s (pickw t (N.div2 w)) -> exists k, N.testbit w (N.of_nat k) = true /\ nth_error (x :: t) k = Some s).
    { intros H. destruct (IH _ _ H) as [k [Hb Hn']]. exists (S k). split; [|exact Hn'].
      rewrite testbit_div2 in Hb. now replace (N.of_nat (S k)) with (N.succ (N.of_nat k)) by lia. }
    destruct (N.odd w) eqn:Eo; [|now apply Hrec].
    destruct Hin as [<-|Hin]; [|now apply Hrec].
    exists 0%nat. split; [now rewrite N.bit0_odd|reflexivity].
  Qed.

  Lemma items_sound items : overlay_merged U rules = Ok items ->
    forall b maps, In (b, maps) items -> wf_box U b /\
      forall q s, in_box U q b -> In s maps -> exists k r, nth_error rules k = Some r /\ snd r = s /\ fires U rules k q.
  Proof.
    rewrite overlay_merged_ok. intros H; inversion H; subst. intros b maps Hin.
    apply in_map_iff in Hin as [e [He Hin]]. unfold item_of in He. inversion He; subst.
    apply filter_In in Hin as [Hin _]. pose proof sorted_sound as Hs. rewrite Forall_forall in Hs.
    destruct (Hs _ Hin) as [Hw [Hok Hbits]]. split; [exact Hw|].
    intros q s Hq Hs'. apply pickw_In in Hs' as [k [Hb Hn']]. destruct (Hbits k Hb) as [_ Hf].
    assert (Hex : exists r, nth_error rules k = Some r /\ snd r = s).
    { unfold subs in Hn'. clear -Hn'. revert k Hn'. induction rules as [|r t IH]; intros [|k] H; cbn in H; try discriminate.
      - inversion H; subst. now exists r.
      - now apply IH. }
    destruct Hex as [r [Er Es]]. exists k, r. split; [exact Er|]. split; [exact Es|now apply Hf].
  Qed.

  (* ---- at a location ---- *)
  Variable p : point.
  Hypothesis Hd : in_dom U p.
  Hypothesis Hexcl : forall a, lo_edge U rules a (p a) -> hi_edge U rules a (p a) -> False.

  Lemma final_complete : complete U rules p n final.
  Proof.
    unfold final, n.
    apply (loop_inv U rules Hwf p Hexcl rules 0%nat init_map); [reflexivity|lia|apply init_entry_ok|].
    exists [], []. split; [now left|]. split.
    - intros a. unfold box_get. cbn [kv_find]. unfold full_range. cbn [fst snd]. specialize (Hd a).
      split.
      + destruct (Z.eq_dec (- U) (p a)) as [E|E]; [right; split; [exact E|left; lia]|left; lia].
      + destruct (Z.eq_dec U (p a)) as [E|E]; [right; split; [exact E|left; lia]|left; lia].
    - intros k Hk. lia.
  Qed.

  Definition fires_b (r : rule) : bool := in_regionb p (fst r).

  Lemma fires_iff k : (k < n)%nat -> fires U rules k p <-> fires_b (nth k rules ([], [])) = true.
  Proof.
    intros Hk. unfold fires, fires_b, in_regionb. rewrite existsb_exists.
    assert (Hnth : nth_error rules k = Some (nth k rules ([], []))) by (apply nth_error_nth'; exact Hk).
    split.
    - intros [r [Hr [c [Hc Hin]]]]. rewrite Hnth in Hr. inversion Hr; subst. exists c. split; [exact Hc|].
      apply (in_boxb_in_box U p c); [eapply rule_box_wf; eassumption|exact Hd|exact Hin].
    - intros [c [Hc Hin]]. exists (nth k rules ([], [])). split; [exact Hnth|]. exists c. split; [exact Hc|].
      apply (in_boxb_in_box U p c); [eapply rule_box_wf; eassumption|exact Hd|exact Hin].
  Qed.

  Definition hit (e : box * rank) : bool := nonzero e && in_boxb p (fst e).

  Lemma first_match_find :
    first_match (map item_of (filter nonzero sorted)) p = option_map (fun e => pickw subs (rv (snd e))) (find hit sorted).
  Proof.
    unfold first_match. rewrite find_map. cbn [item_of fst]. rewrite find_filter. fold hit.
    destruct (find hit sorted); reflexivity.
  Qed.

  (* the rank of the first hit is exactly the set of firing rules *)
  Lemma first_hit_exact e :
    find hit sorted = Some e -> forall k, (k < n)%nat -> N.testbit (rv (snd e)) (N.of_nat k) = fires_b (nth k rules ([], [])).
  Proof.
    intros Hf. apply find_some in Hf as Hf'. destruct Hf' as [Hin Hhit].
    unfold hit in Hhit. apply andb_true_iff in Hhit as [Hnz Hpb].
    pose proof sorted_sound as Hs. rewrite Forall_forall in Hs. pose proof (Hs _ Hin) as He.
    destruct He as [Hwb [Hok Hbits]].
    apply (in_boxb_in_box U p (fst e) Hwb Hd) in Hpb.
    (* the complete entry *)
    destruct final_complete as [b0 [r0 [Hin0 [Hg0 Hact0]]]].
    apply (Permutation_in _ (Permutation_sym sorted_perm)) in Hin0.
    pose proof (Hs _ Hin0) as [Hwb0 [Hok0 Hbits0]]. cbn [fst snd] in *.
    pose proof (good_in_box U _ _ p b0 Hg0) as Hpb0.
    (* e's rank is contained in r0's *)
    assert (Hsub : forall k, rbit (snd e) k = true -> rbit r0 k = true).
    { intros k Hk. destruct (Hbits k Hk) as [Hlt Hfk]. apply Hact0; [exact Hlt|now apply Hfk]. }
    (* r0 is not empty, so (b0, r0) is a hit too, and sorts no earlier than e *)
    assert (Hnz0 : nonzero (b0, r0) = true).
    { unfold nonzero in *. cbn [snd]. rewrite is_all_zeros_rv in *.
      apply negb_true_iff in Hnz. apply N.eqb_neq in Hnz. apply negb_true_iff. apply N.eqb_neq. intros Hz.
      apply Hnz. apply N.bits_inj_0. intros k. destruct (N.testbit (rv (snd e)) k) eqn:Ek; [|reflexivity].
      apply (rbit_nsubset _ _ Hsub) in Ek. rewrite Hz, N.bits_0 in Ek. discriminate. }
    assert (Hhit0 : hit (b0, r0) = true).
    { unfold hit. rewrite Hnz0. cbn [fst andb]. now apply (in_boxb_in_box U p b0 Hwb0 Hd). }
    pose proof (find_sorted_max (fun e : box * rank => count_ones (snd e)) hit sorted e (b0, r0)
                  (stable_sort_sorted_d _ final) Hf Hin0 Hhit0) as Hcz.
    cbn [snd] in Hcz. rewrite !count_ones_rv in Hcz by assumption.
    (* a subset with at least as many elements is the whole set *)
    destruct (pop_subset (rv (snd e)) (rv r0) (rbit_nsubset _ _ Hsub)) as [_ Heq].
    specialize (Heq Hcz).
    intros k Hk. rewrite Heq. destruct (fires_b (nth k rules ([], []))) eqn:Ef.
    - apply (fires_iff k Hk) in Ef. apply (Hact0 k Hk Ef).
    - destruct (N.testbit (rv r0) (N.of_nat k)) eqn:Eb; [|reflexivity].
      destruct (Hbits0 k Eb) as [_ Hfk]. specialize (Hfk p Hpb0). apply (fires_iff k Hk) in Hfk. congruence.
  Qed.

  Lemma no_hit_none_fire : find hit sorted = None -> forall r, In r rules -> fires_b r = false.
  Proof.
    intros Hf r Hr. destruct (fires_b r) eqn:Ef; [|reflexivity]. exfalso.
    destruct (In_nth _ _ ([], []) Hr) as [k [Hk Hnth]]. fold n in Hk.
    assert (Hfk : fires U rules k p).
    { apply (fires_iff k Hk). assert (E : nth k rules ([], []) = r) by exact Hnth. rewrite E. exact Ef. }
    destruct final_complete as [b0 [r0 [Hin0 [Hg0 Hact0]]]].
    apply (Permutation_in _ (Permutation_sym sorted_perm)) in Hin0.
    pose proof sorted_sound as Hs. rewrite Forall_forall in Hs. pose proof (Hs _ Hin0) as [Hwb0 [Hok0 _]]. cbn [fst snd] in *.
    pose proof (find_none _ _ Hf _ Hin0) as Hnh. unfold hit in Hnh. cbn [fst] in Hnh.
    assert (Hpb : in_boxb p b0 = true) by (apply (in_boxb_in_box U p b0 Hwb0 Hd); exact (good_in_box U _ _ p b0 Hg0)).
    rewrite Hpb, andb_true_r in Hnh. unfold nonzero in Hnh. cbn [snd] in Hnh. apply negb_false_iff in Hnh.
    rewrite is_all_zeros_rv in Hnh. apply N.eqb_eq in Hnh.
    specialize (Hact0 k Hk Hfk). unfold rbit in Hact0. rewrite Hnh, N.bits_0 in Hact0. discriminate.
  Qed.

  (* the main statement about the merged rules *)
  Lemma first_match_active :
    exists items, overlay_merged U rules = Ok items /\
      first_match items p = match active_maps rules p with [] => None | l => Some l end.
  Proof.
    exists (map item_of (filter nonzero sorted)). split; [apply overlay_merged_ok|].
    rewrite first_match_find.
    assert (Hact : active_maps rules p = map snd (filter fires_b rules)) by reflexivity. rewrite Hact. clear Hact.
    destruct (find hit sorted) as [e|] eqn:Ef; cbn [option_map].
    - pose proof (first_hit_exact e Ef) as Hbits.
      unfold subs. rewrite (pickw_filter rules fires_b (rv (snd e)) Hbits).
      (* the rank is not empty, so some rule fires *)
      apply find_some in Ef as [Hin Hhit]. unfold hit in Hhit. apply andb_true_iff in Hhit as [Hnz _].
      pose proof sorted_sound as Hs. rewrite Forall_forall in Hs. pose proof (Hs _ Hin) as He.
      destruct (map snd (filter fires_b rules)) eqn:Em; [|reflexivity]. exfalso.
      unfold nonzero in Hnz. destruct He as [_ [Hok Hb]]. rewrite is_all_zeros_rv in Hnz.
      apply negb_true_iff, N.eqb_neq in Hnz. apply Hnz. apply N.bits_inj_0. intros k.
      destruct (N.testbit (rv (snd e)) k) eqn:Ek; [|reflexivity]. exfalso.
      pose proof (entry_bits e (Hs _ Hin) k Ek) as Hlt.
      specialize (Hbits (N.to_nat k) Hlt). rewrite N2Nat.id, Ek in Hbits.
      assert (Hin' : In (nth (N.to_nat k) rules ([], [])) (filter fires_b rules)).
      { apply filter_In. split; [apply nth_In; exact Hlt|now symmetry]. }
      apply (in_map snd) in Hin'. rewrite Em in Hin'. destruct Hin'.
    - pose proof (no_hit_none_fire Ef) as Hnone.
      assert (Hfil : filter fires_b rules = []).
      { clear -Hnone. induction rules as [|r t IH]; [reflexivity|]. cbn [filter].
        rewrite (Hnone r) by now left. apply IH. intros r' Hr'. apply Hnone. now right. }
      rewrite Hfil. reflexivity.
  Qed.
End First.
