(* C16 — concrete inputs.  First the three situations that were repaired in /repo (Rank with more
   than one word, a rule without condition set, two conditions on one axis): the model of the
   repaired code now does what the source says.  Then the inputs on which the model (and, as the
   harness re-observes on every run, the real code) does not do what the source rules say; each is
   outside the hypotheses of the positive theorems in exactly one respect. *)
From Coq Require Import List NArith ZArith Bool Lia.
From FV.C16 Require Import Model ProofsBox ProofsOverlay ProofsSubs ProofsPipeline ProofsStage2 ProofsCheck ProofsFont.
Import ListNotations.
Open Scope Z_scope.

(* one axis (id 1), one condition set per rule unless said otherwise *)
Definition iv (lo hi : Z) : box := [(1%N, (lo, hi))].
Definition swap (g : N) : submap := [(g, (g + 1)%N)].
Definition at1 (x : Z) : point := fun _ => x.

Definition applied (r : res (list (box * list submap))) (p : point) : list submap :=
  match r with Ok items => match first_match items p with Some l => l | None => [] end | _ => [] end.

(* ---- 65 rules: the two-word Rank ------------------------------------------------------ *)
(* 64 disjoint intervals; rule 64 has two boxes that split the interval of rule 1 *)
Definition rules65 : list rule :=
  map (fun k => ([iv (10 * Z.of_nat k) (10 * Z.of_nat k + 6)], swap (N.of_nat (2 * k)))) (seq 0 64)
  ++ [([iv 10 13; iv 13 16], swap 128)].

Lemma rules65_fine :
  rules_wfb 1000 rules65 = true /\ length rules65 = 65%nat /\
  applied (overlay_feature_variations 1000 rules65) (at1 12) = [swap 2; swap 128] /\
  active_maps rules65 (at1 12) = [swap 2; swap 128].
Proof. vm_compute. repeat split. Qed.

(* 65 rules: rule 0 covers [0,100], rule 64 an interval inside it; the box carrying both rules has a
   two-word rank and must still come before the box of rule 0 alone *)
Definition rules65b : list rule :=
  ([iv 0 100], swap 0) ::
  map (fun k => ([iv (200 + 10 * Z.of_nat k) (206 + 10 * Z.of_nat k)], swap (N.of_nat (2 * k)))) (seq 1 63)
  ++ [([iv 40 60], swap 128)].

Lemma rules65b_fine :
  rules_wfb 1000 rules65b = true /\ length rules65b = 65%nat /\
  compatibleb (active_maps rules65b (at1 50)) = true /\ exclusiveb 1000 rules65b (at1 50) = true /\
  applied (overlay_feature_variations 1000 rules65b) (at1 50) = [swap 0; swap 128] /\
  active_maps rules65b (at1 50) = [swap 0; swap 128].
Proof. vm_compute. repeat split. Qed.

(* ---- a rule without condition set ------------------------------------------------------ *)
Definition rules_empty : list rule := [([iv 0 8], swap 0); ([], swap 2); ([iv (-8) 4], swap 4)].

Lemma rules_empty_fine :
  rules_wfb 16 rules_empty = true /\ exclusiveb 16 rules_empty (at1 6) = true /\
  applied (overlay_feature_variations 16 rules_empty) (at1 6) = [swap 0] /\
  active_maps rules_empty (at1 6) = [swap 0] /\
  applied (overlay_feature_variations 16 rules_empty) (at1 2) = [swap 0; swap 4].
Proof. vm_compute. repeat split. Qed.

(* ---- two rules of one region (written differently) replace glyph 0 differently -------------- *)
Definition rules_same_region : list rule :=
  [([iv 4 12; iv (-12) (-4)], [(0%N, 1%N)]);
   ([iv 0 2], swap 6);
   ([[(1%N, (-12, -4)); (2%N, (-16, 16))]; iv 4 12], [(0%N, 3%N); (2%N, 3%N)])].

Lemma rules_same_region_fine :
  rules_wfb 16 rules_same_region = true /\ exclusiveb 16 rules_same_region (at1 8) = true /\
  compatibleb (active_maps rules_same_region (at1 8)) = false /\
  applied (overlay_feature_variations 16 rules_same_region) (at1 8) = [[(0%N, 1%N); (2%N, 3%N)]] /\
  spec_apply rules_same_region (at1 8) 0%N = 1%N /\ spec_apply rules_same_region (at1 8) 2%N = 3%N.
Proof. vm_compute. repeat split. Qed.

(* ---- two conditions on one axis: wght >= 4 and wght <= 12 ---------------------------------- *)
Lemma two_conditions_fine :
  box_of_conditions 16 [(1%N, (None, Some 12)); (1%N, (Some 4, None))] = iv 4 12.
Proof. reflexivity. Qed.

(* ---- a location on a lower and an upper edge ------------------------------------------- *)
Definition rules_touch : list rule := [([iv (-16) 0], swap 0); ([iv 0 16], swap 2)].

Lemma rules_touch_wrong :
  rules_wfb 16 rules_touch = true /\ compatibleb (active_maps rules_touch (at1 0)) = true /\
  exclusiveb 16 rules_touch (at1 0) = false /\
  applied (overlay_feature_variations 16 rules_touch) (at1 0) = [swap 2] /\
  active_maps rules_touch (at1 0) = [swap 0; swap 2].
Proof. vm_compute. repeat split. Qed.

(* ---- through the second stage ----------------------------------------------------------- *)
(* axes: wdth (id 2) is axis 1 of the font, -1..1; wght (id 3) is axis 0, default at its minimum: 0..1 *)
Definition env2 : axes_env :=
  [(2%N, {| ax_index := 1; ax_minq := -16384; ax_maxq := 16384 |});
   (3%N, {| ax_index := 0; ax_minq := 0; ax_maxq := 16384 |})].
Definition at2 (wdth wght : Z) : point := fun a => if (a =? 2)%N then wdth else if (a =? 3)%N then wght else 0.

Definition font_gives (r : res gsub_fv) (p : point) (g : glyph) : option glyph :=
  match r with Ok f => Some (font_apply f (qpoint_of env2 p) g) | _ => None end.

(* rule 1 spells out the whole range of wght: its box gets the ConditionSet of rule 0's box *)
Definition rules_coll : list rule :=
  [([[(2%N, (12288, 16384))]], swap 0);
   ([[(2%N, (12288, 16384)); (3%N, (0, 16384))]], swap 2)].

Lemma rules_coll_wrong :
  rules_wfb 16384 rules_coll = true /\ compatibleb (active_maps rules_coll (at2 14336 8192)) = true /\
  exclusiveb 16384 rules_coll (at2 14336 8192) = true /\
  font_gives (compile_rules 16384 env2 rules_coll) (at2 14336 8192) 2%N = Some 2%N /\
  spec_apply rules_coll (at2 14336 8192) 2%N = 3%N.
Proof. vm_compute. repeat split. Qed.

(* two rules replace the same glyph: the lookups are ordered by content, the later rule wins *)
Definition rules_conflict : list rule :=
  [([[(2%N, (12288, 16384))]], [(0%N, 2%N)]);
   ([[(3%N, (8192, 16384))]], [(0%N, 1%N)])].

Lemma rules_conflict_wrong :
  rules_wfb 16384 rules_conflict = true /\ exclusiveb 16384 rules_conflict (at2 14336 12288) = true /\
  compatibleb (active_maps rules_conflict (at2 14336 12288)) = false /\
  font_gives (compile_rules 16384 env2 rules_conflict) (at2 14336 12288) 0%N = Some 1%N /\
  spec_apply rules_conflict (at2 14336 12288) 0%N = 2%N.
Proof. vm_compute. repeat split. Qed.

(* rule 0 replaces the result of rule 1: in rule order g0 ends as g2, the font makes it g4 *)
Definition rules_chain : list rule :=
  [([[(3%N, (8192, 16384))]], [(2%N, 4%N)]);
   ([[(3%N, (4096, 16384))]], [(0%N, 2%N)])].

Lemma rules_chain_wrong :
  rules_wfb 16384 rules_chain = true /\ exclusiveb 16384 rules_chain (at2 0 12288) = true /\
  compatibleb (active_maps rules_chain (at2 0 12288)) = false /\
  font_gives (compile_rules 16384 env2 rules_chain) (at2 0 12288) 0%N = Some 4%N /\
  spec_apply rules_chain (at2 0 12288) 0%N = 2%N.
Proof. vm_compute. repeat split. Qed.
