(* C16 — merge_same_sub_rules and merge_same_region_rules keep what fires where. *)
From Coq Require Import List NArith ZArith Bool Lia Sorted Permutation.
From Coq Require Import ZifyBool ZifyN ZifyNat.
From FV.C16 Require Import Model ProofsBox ProofsSubs.
Import ListNotations.

Lemma submap_eqb_eq a b : submap_eqb a b = true <-> a = b.
Proof.
  revert b. induction a as [|[k1 v1] t1 IH]; intros [|[k2 v2] t2]; cbn [submap_eqb]; split; try discriminate; try reflexivity.
  - intros H. apply andb_true_iff in H as [H H3]. apply andb_true_iff in H as [H1 H2].
    apply N.eqb_eq in H1. apply N.eqb_eq in H2. apply IH in H3. congruence.
  - intros H. inversion H; subst. rewrite !N.eqb_refl. cbn [andb]. now apply IH.
Qed.

Lemma region_eqb_eq a b : region_eqb a b = true <-> a = b.
Proof.
  revert b. induction a as [|x t1 IH]; intros [|y t2]; cbn [region_eqb]; split; try discriminate; try reflexivity.
  - intros H. apply andb_true_iff in H as [H1 H2]. apply box_eqb_eq in H1. apply IH in H2. congruence.
  - intros H. inversion H; subst. apply andb_true_iff. split; [now apply box_eqb_eq|now apply IH].
Qed.

Lemma sort_insert_perm_gen {A} (gtb : A -> A -> bool) x l : Permutation (sort_insert gtb x l) (x :: l).
Proof.
  induction l as [|y t IH]; cbn [sort_insert]; [reflexivity|].
  destruct (gtb x y); [|reflexivity]. rewrite IH. apply perm_swap.
Qed.
Lemma stable_sort_perm_gen {A} (gtb : A -> A -> bool) l : Permutation (stable_sort gtb l) l.
Proof.
  induction l as [|x t IH]; cbn [stable_sort]; [reflexivity|].
  rewrite sort_insert_perm_gen. now constructor.
Qed.

(* ---- which maps fire at a location ------------------------------------------ *)
Definition fires_with (L : list rule) (p : point) (s : submap) : Prop :=
  exists reg c, In (reg, s) L /\ In c reg /\ in_boxb p c = true.

Lemma active_maps_In L p s : In s (active_maps L p) <-> fires_with L p s.
Proof.
  unfold active_maps, fires_with. rewrite in_map_iff. split.
  - intros [[reg s'] [<- Hin]]. apply filter_In in Hin as [Hin Hf]. cbn [fst snd] in *.
    unfold in_regionb in Hf. apply existsb_exists in Hf as [c [Hc Hp]]. now exists reg, c.
  - intros [reg [c [Hin [Hc Hp]]]]. exists (reg, s). split; [reflexivity|]. apply filter_In. split; [exact Hin|].
    cbn [fst]. unfold in_regionb. apply existsb_exists. now exists c.
Qed.

Lemma binds_active L1 L2 p :
  (forall s, fires_with L1 p s <-> fires_with L2 p s) ->
  forall g x, binds (active_maps L1 p) g x <-> binds (active_maps L2 p) g x.
Proof.
  intros H g x. unfold binds. split; intros [m [Hm Hf]]; exists m; (split; [|exact Hf]);
    apply active_maps_In; apply active_maps_In in Hm; now apply H.
Qed.

(* ---- merge_same_sub_rules ----------------------------------------------------- *)
Definition pairs (l : list (submap * region)) (s : submap) (c : box) : Prop := exists reg, In (s, reg) l /\ In c reg.

Lemma mss_insert_pairs acc s0 r0 s c : pairs (mss_insert acc s0 r0) s c <-> pairs acc s c \/ (s = s0 /\ In c r0).
Proof.
  unfold pairs. induction acc as [|[s' r'] t IH]; cbn [mss_insert].
  - split.
    + intros [reg [[Heq|[]] Hc]]. inversion Heq; subst. right. tauto.
    + intros [[reg [[] _]]|[-> Hc]]. exists r0. split; [now left|exact Hc].
  - destruct (submap_eqb s0 s') eqn:E.
    + apply submap_eqb_eq in E. subst s'. split.
      * intros [reg [[Heq|Hin] Hc]].
        -- inversion Heq; subst. apply in_app_or in Hc as [Hc|Hc]; [left; exists r'; split; [now left|exact Hc]|right; tauto].
        -- left. exists reg. split; [now right|exact Hc].
      * intros [[reg [[Heq|Hin] Hc]]|[-> Hc]].
        -- inversion Heq; subst. exists (reg ++ r0). split; [now left|apply in_or_app; now left].
        -- exists reg. split; [now right|exact Hc].
        -- exists (r' ++ r0). split; [now left|apply in_or_app; now right].
    + split.
      * intros [reg [[Heq|Hin] Hc]].
        -- inversion Heq; subst. left. exists reg. split; [now left|exact Hc].
        -- assert (Hp : exists reg, In (s, reg) (mss_insert t s0 r0) /\ In c reg) by (exists reg; tauto).
           apply IH in Hp as [[reg' [Hi Hc']]|Hr]; [left; exists reg'; split; [now right|exact Hc']|now right].
      * intros [[reg [[Heq|Hin] Hc]]|Hr].
        -- inversion Heq; subst. exists reg. split; [now left|exact Hc].
        -- assert (Hp : exists reg, In (s, reg) (mss_insert t s0 r0) /\ In c reg) by (apply IH; left; exists reg; tauto).
           destruct Hp as [reg' [Hi Hc']]. exists reg'. split; [now right|exact Hc'].
        -- assert (Hp : exists reg, In (s, reg) (mss_insert t s0 r0) /\ In c reg) by (apply IH; now right).
           destruct Hp as [reg' [Hi Hc']]. exists reg'. split; [now right|exact Hc'].
Qed.

Lemma mss_fold_pairs rules : forall acc s c,
  pairs (fold_left (fun acc e => mss_insert acc (snd e) (fst e)) rules acc) s c <->
  pairs acc s c \/ exists reg, In (reg, s) rules /\ In c reg.
Proof.
  induction rules as [|[reg0 s0] t IH]; intros acc s c; cbn [fold_left fst snd].
  - split; [now left|]. intros [H|[reg [[] _]]]. exact H.
  - rewrite IH, mss_insert_pairs. split.
    + intros [[H|[-> Hc]]|[reg [Hin Hc]]]; [now left|right; exists reg0; split; [now left|exact Hc]|right; exists reg; split; [now right|exact Hc]].
    + intros [H|[reg [[Heq|Hin] Hc]]]; [left; now left| |right; exists reg; tauto].
      inversion Heq; subst. left. right. tauto.
Qed.

Lemma mss_insert_nonempty acc s0 r0 :
  (forall e, In e acc -> snd e <> []) -> r0 <> [] -> forall e, In e (mss_insert acc s0 r0) -> snd e <> [].
Proof.
  induction acc as [|[s' r'] t IH]; cbn [mss_insert]; intros Hacc Hr e He.
  - destruct He as [<-|[]]. exact Hr.
  - destruct (submap_eqb s0 s').
    + destruct He as [<-|He]; [|apply Hacc; now right]. cbn [snd]. intros Hc. apply app_eq_nil in Hc as [_ Hc]. contradiction.
    + destruct He as [<-|He]; [apply (Hacc (s', r')); now left|]. apply (IH (fun e He => Hacc e (or_intror He)) Hr). exact He.
Qed.

Lemma mss_fold_nonempty rules : forall acc,
  (forall e, In e acc -> snd e <> []) -> (forall r, In r rules -> fst r <> []) ->
  forall e, In e (fold_left (fun acc e => mss_insert acc (snd e) (fst e)) rules acc) -> snd e <> [].
Proof.
  induction rules as [|[reg0 s0] t IH]; intros acc Hacc Hr e He; cbn [fold_left fst snd] in He; [now apply Hacc|].
  apply (IH (mss_insert acc s0 reg0)); [|intros r Hin; apply Hr; now right|exact He].
  apply mss_insert_nonempty; [exact Hacc|]. apply (Hr (reg0, s0)). now left.
Qed.

Lemma mss_In rules reg s :
  In (reg, s) (merge_same_sub_rules rules) <-> In (s, reg) (fold_left (fun acc e => mss_insert acc (snd e) (fst e)) rules []).
Proof.
  unfold merge_same_sub_rules. rewrite in_map_iff. split.
  - intros [[s' r'] [Heq Hin]]. cbn [fst snd] in Heq. now inversion Heq; subst.
  - intros Hin. exists (s, reg). split; [reflexivity|exact Hin].
Qed.

Lemma mss_fires rules p s : fires_with (merge_same_sub_rules rules) p s <-> fires_with rules p s.
Proof.
  unfold fires_with. split.
  - intros [reg [c [Hin [Hc Hp]]]]. apply mss_In in Hin.
    assert (Hp' : pairs (fold_left (fun acc e => mss_insert acc (snd e) (fst e)) rules []) s c) by (exists reg; tauto).
    apply mss_fold_pairs in Hp' as [[r [[] _]]|[reg' [Hin' Hc']]]. now exists reg', c.
  - intros [reg [c [Hin [Hc Hp]]]].
    assert (Hp' : pairs (fold_left (fun acc e => mss_insert acc (snd e) (fst e)) rules []) s c).
    { apply mss_fold_pairs. right. now exists reg. }
    destruct Hp' as [reg' [Hin' Hc']]. exists reg', c. split; [now apply mss_In|tauto].
Qed.

Lemma mss_boxes rules reg s c : In (reg, s) (merge_same_sub_rules rules) -> In c reg -> exists reg', In (reg', s) rules /\ In c reg'.
Proof.
  intros Hin Hc. apply mss_In in Hin.
  assert (Hp' : pairs (fold_left (fun acc e => mss_insert acc (snd e) (fst e)) rules []) s c) by (exists reg; tauto).
  apply mss_fold_pairs in Hp' as [[r [[] _]]|H]. exact H.
Qed.

Lemma mss_nonempty rules : (forall r, In r rules -> fst r <> []) -> forall r, In r (merge_same_sub_rules rules) -> fst r <> [].
Proof.
  intros H [reg s] Hin. apply mss_In in Hin. cbn [fst].
  apply (mss_fold_nonempty rules [] (fun e He => match He with end) H (s, reg) Hin).
Qed.

Lemma mss_maps rules reg s : In (reg, s) (merge_same_sub_rules rules) -> exists reg', In (reg', s) rules.
Proof.
  intros Hin. apply mss_In in Hin.
  assert (G : forall l acc, In (s, reg) (fold_left (fun acc e => mss_insert acc (snd e) (fst e)) l acc) ->
              (exists r, In (s, r) acc) \/ exists r, In (r, s) l).
  { induction l as [|[reg0 s0] t IH]; intros acc H; cbn [fold_left fst snd] in H; [left; now exists reg|].
    apply IH in H as [[r Hr]|[r Hr]]; [|right; exists r; now right].
    assert (Hk : forall acc, In (s, r) (mss_insert acc s0 reg0) -> (exists r', In (s, r') acc) \/ s = s0).
    { clear. induction acc as [|[s' r'] t IH]; cbn [mss_insert]; intros Hin.
      - destruct Hin as [Heq|[]]. inversion Heq; subst. now right.
      - destruct (submap_eqb s0 s') eqn:E.
        + apply submap_eqb_eq in E; subst. destruct Hin as [Heq|Hin].
          * inversion Heq; subst. left. exists r'. now left.
          * left. exists r. now right.
        + destruct Hin as [Heq|Hin].
          * inversion Heq; subst. left. exists r. now left.
          * apply IH in Hin as [[r2 Hr2]| ->]; [left; exists r2; now right|now right]. }
    apply Hk in Hr as [[r' Hr']| ->]; [left; now exists r'|right; exists reg0; now left]. }
  apply G in Hin as [[r []]|H]. exact H.
Qed.

(* ---- merge_same_region_rules ---------------------------------------------------- *)
Lemma active_maps_In' L p s : In s (active_maps L p) <-> exists reg, In (reg, s) L /\ in_regionb p reg = true.
Proof.
  unfold active_maps. rewrite in_map_iff. split.
  - intros [[reg s'] [<- Hin]]. apply filter_In in Hin as [Hin Hf]. now exists reg.
  - intros [reg [Hin Hf]]. exists (reg, s). split; [reflexivity|]. apply filter_In. now split.
Qed.

Section Region.
  Variable U : Z.
  Variable p : point.
  Hypothesis Hd : in_dom U p.

  Lemma in_boxb_cleanup c : in_boxb p (box_cleanup U c) = in_boxb p c.
  Proof.
    unfold in_boxb, box_cleanup. induction c as [|[a r] t IH]; cbn [filter forallb fst snd]; [reflexivity|].
    destruct (range_eqb r (full_range U)) eqn:E; cbn [negb forallb fst snd].
    - apply range_eqb_eq in E. subst r. rewrite IH. specialize (Hd a).
      assert (Hr : in_rangeb (full_range U) (p a) = true) by (unfold in_rangeb, full_range; cbn [fst snd]; lia).
      now rewrite Hr.
    - now rewrite IH.
  Qed.

  Lemma in_regionb_normalize reg : in_regionb p (region_normalize U reg) = in_regionb p reg.
  Proof.
    unfold in_regionb, region_normalize.
    set (gtb := fun x y : box => match box_cmp x y with Gt => true | _ => false end).
    pose proof (stable_sort_perm_gen gtb (map (box_cleanup U) reg)) as Hperm.
    destruct (existsb (in_boxb p) reg) eqn:E.
    - apply existsb_exists in E as [c [Hc Hp]]. apply existsb_exists. exists (box_cleanup U c). split.
      + apply (Permutation_in _ (Permutation_sym Hperm)). now apply in_map.
      + now rewrite in_boxb_cleanup.
    - destruct (existsb (in_boxb p) (stable_sort gtb (map (box_cleanup U) reg))) eqn:E2; [|reflexivity].
      apply existsb_exists in E2 as [c' [Hc' Hp']]. apply (Permutation_in _ Hperm) in Hc'.
      apply in_map_iff in Hc' as [c [<- Hc]]. rewrite in_boxb_cleanup in Hp'.
      assert (existsb (in_boxb p) reg = true) by (apply existsb_exists; now exists c). congruence.
  Qed.

  Lemma normalize_boxes reg c' : In c' (region_normalize U reg) <-> exists c, In c reg /\ c' = box_cleanup U c.
  Proof.
    unfold region_normalize.
    set (gtb := fun x y : box => match box_cmp x y with Gt => true | _ => false end).
    pose proof (stable_sort_perm_gen gtb (map (box_cleanup U) reg)) as Hperm. split.
    - intros H. apply (Permutation_in _ Hperm) in H. apply in_map_iff in H as [c [<- Hc]]. now exists c.
    - intros [c [Hc ->]]. apply (Permutation_in _ (Permutation_sym Hperm)). now apply in_map.
  Qed.

  Definition msr_fold (L : list rule) (acc : list (region * submap)) : list (region * submap) :=
    fold_left (fun acc e => msr_insert acc (region_normalize U (fst e)) (snd e)) L acc.

  Lemma find_extend_cases (s0 s : submap) g x : keys_sorted s ->
    kv_find (kv_extend s0 s) g = Some x -> kv_find s g = Some x \/ kv_find s0 g = Some x.
  Proof.
    intros Hs. rewrite kv_find_extend, (kv_find_rev s g Hs). destruct (kv_find s g); [intros H; now left|intros H; now right].
  Qed.

  Lemma find_extend_keeps (s0 s : submap) g : keys_sorted s ->
    (kv_find s g <> None \/ kv_find s0 g <> None) -> kv_find (kv_extend s0 s) g <> None.
  Proof.
    intros Hs. rewrite kv_find_extend, (kv_find_rev s g Hs). destruct (kv_find s g); [discriminate|]. intros [H|H]; [congruence|exact H].
  Qed.

  (* (a) every substitution of a merged rule is a substitution of one of the rules it was made of *)
  Lemma msr_insert_binding acc r s r' s' g x : keys_sorted s ->
    In (r', s') (msr_insert acc r s) -> kv_find s' g = Some x ->
    (exists s0, In (r', s0) acc /\ kv_find s0 g = Some x) \/ (r' = r /\ kv_find s g = Some x).
  Proof.
    intros Hs. induction acc as [|[r0 s0] t IH]; cbn [msr_insert]; intros Hin Hf.
    - destruct Hin as [Heq|[]]. inversion Heq; subst. now right.
    - destruct (region_eqb r r0) eqn:E.
      + apply region_eqb_eq in E. subst r0. destruct Hin as [Heq|Hin].
        * inversion Heq; subst. apply (find_extend_cases s0 s g x Hs) in Hf as [Hf|Hf]; [now right|].
          left. exists s0. split; [now left|exact Hf].
        * left. exists s'. split; [now right|exact Hf].
      + destruct Hin as [Heq|Hin].
        * inversion Heq; subst. left. exists s'. split; [now left|exact Hf].
        * destruct (IH Hin Hf) as [[s1 [Hi1 Hf1]]|H]; [left; exists s1; split; [now right|exact Hf1]|now right].
  Qed.

  Lemma msr_fold_binding L : forall acc r' s' g x,
    (forall e, In e L -> keys_sorted (snd e)) ->
    In (r', s') (msr_fold L acc) -> kv_find s' g = Some x ->
    (exists s0, In (r', s0) acc /\ kv_find s0 g = Some x) \/
    (exists reg s, In (reg, s) L /\ region_normalize U reg = r' /\ kv_find s g = Some x).
  Proof.
    induction L as [|[reg0 s0] t IH]; intros acc r' s' g x Hs Hin Hf; cbn [msr_fold fold_left fst snd] in Hin.
    - left. now exists s'.
    - destruct (IH _ r' s' g x (fun e He => Hs e (or_intror He)) Hin Hf) as [[s1 [Hi1 Hf1]]|[reg [s [Hi [Hn Hf']]]]].
      + destruct (msr_insert_binding acc _ s0 r' s1 g x (Hs (reg0, s0) (or_introl eq_refl)) Hi1 Hf1) as [H|[-> Hf2]].
        * now left.
        * right. exists reg0, s0. split; [now left|tauto].
      + right. exists reg, s. split; [now right|tauto].
  Qed.

  (* (b) no substituted glyph is lost *)
  Definition keys_sub (s s' : submap) : Prop := forall g, kv_find s g <> None -> kv_find s' g <> None.

  Lemma msr_insert_keeps acc r s r0 s0 : keys_sorted s -> In (r0, s0) acc ->
    exists s', In (r0, s') (msr_insert acc r s) /\ keys_sub s0 s'.
  Proof.
    intros Hs. induction acc as [|[r1 s1] t IH]; cbn [msr_insert]; intros Hin; [destruct Hin|].
    destruct (region_eqb r r1) eqn:E.
    - destruct Hin as [Heq|Hin].
      + inversion Heq; subst. exists (kv_extend s0 s). split; [now left|]. intros g Hg. apply find_extend_keeps; [exact Hs|now right].
      + exists s0. split; [now right|intros g Hg; exact Hg].
    - destruct Hin as [Heq|Hin].
      + inversion Heq; subst. exists s0. split; [now left|intros g Hg; exact Hg].
      + destruct (IH Hin) as [s' [Hi Hk]]. exists s'. split; [now right|exact Hk].
  Qed.

  Lemma msr_insert_has acc r s : keys_sorted s -> exists s', In (r, s') (msr_insert acc r s) /\ keys_sub s s'.
  Proof.
    intros Hs. induction acc as [|[r1 s1] t IH]; cbn [msr_insert].
    - exists s. split; [now left|intros g Hg; exact Hg].
    - destruct (region_eqb r r1) eqn:E.
      + apply region_eqb_eq in E. subst r1. exists (kv_extend s1 s). split; [now left|].
        intros g Hg. apply find_extend_keeps; [exact Hs|now left].
      + destruct IH as [s' [Hi Hk]]. exists s'. split; [now right|exact Hk].
  Qed.

  Lemma msr_fold_keeps L : forall acc r0 s0, (forall e, In e L -> keys_sorted (snd e)) -> In (r0, s0) acc ->
    exists s', In (r0, s') (msr_fold L acc) /\ keys_sub s0 s'.
  Proof.
    induction L as [|[reg1 s1] t IH]; intros acc r0 s0 Hs Hin; cbn [msr_fold fold_left fst snd].
    - exists s0. split; [exact Hin|intros g Hg; exact Hg].
    - destruct (msr_insert_keeps acc (region_normalize U reg1) s1 r0 s0 (Hs (reg1, s1) (or_introl eq_refl)) Hin) as [s2 [Hi2 Hk2]].
      destruct (IH _ r0 s2 (fun e He => Hs e (or_intror He)) Hi2) as [s3 [Hi3 Hk3]].
      exists s3. split; [exact Hi3|]. intros g Hg. apply Hk3, Hk2, Hg.
  Qed.

  Lemma msr_fold_has L : forall acc reg s, (forall e, In e L -> keys_sorted (snd e)) -> In (reg, s) L ->
    exists s', In (region_normalize U reg, s') (msr_fold L acc) /\ keys_sub s s'.
  Proof.
    induction L as [|[reg1 s1] t IH]; intros acc reg s Hs Hin; [destruct Hin|]. cbn [msr_fold fold_left fst snd].
    destruct Hin as [Heq|Hin].
    - inversion Heq; subst.
      destruct (msr_insert_has acc (region_normalize U reg) s (Hs (reg, s) (or_introl eq_refl))) as [s2 [Hi2 Hk2]].
      destruct (msr_fold_keeps t _ _ s2 (fun e He => Hs e (or_intror He)) Hi2) as [s3 [Hi3 Hk3]].
      exists s3. split; [exact Hi3|]. intros g Hg. apply Hk3, Hk2, Hg.
    - apply (IH _ reg s (fun e He => Hs e (or_intror He)) Hin).
  Qed.

  (* (c) the regions of the result are the normalized regions of the rules *)
  Lemma msr_insert_regions acc r s r' s' : In (r', s') (msr_insert acc r s) -> (exists s0, In (r', s0) acc) \/ r' = r.
  Proof.
    induction acc as [|[r1 s1] t IH]; cbn [msr_insert]; intros Hin.
    - destruct Hin as [Heq|[]]. inversion Heq; subst. now right.
    - destruct (region_eqb r r1) eqn:E.
      + destruct Hin as [Heq|Hin]; [inversion Heq; subst; left; exists s1; now left|left; exists s'; now right].
      + destruct Hin as [Heq|Hin]; [inversion Heq; subst; left; exists s'; now left|].
        destruct (IH Hin) as [[s0 H]|H]; [left; exists s0; now right|now right].
  Qed.

  Lemma msr_fold_regions L : forall acc r' s', In (r', s') (msr_fold L acc) ->
    (exists s0, In (r', s0) acc) \/ exists reg s, In (reg, s) L /\ r' = region_normalize U reg.
  Proof.
    induction L as [|[reg1 s1] t IH]; intros acc r' s' Hin; cbn [msr_fold fold_left fst snd] in Hin.
    - left. now exists s'.
    - destruct (IH _ r' s' Hin) as [[s0 H0]|[reg [s [Hi Hr]]]].
      + destruct (msr_insert_regions acc _ s1 r' s0 H0) as [H|H]; [now left|right; exists reg1, s1; split; [now left|exact H]].
      + right. exists reg, s. split; [now right|exact Hr].
  Qed.

  Lemma msr_In rules e : In e (merge_same_region_rules U rules) <-> In e (msr_fold (rev rules) []).
  Proof. unfold merge_same_region_rules, msr_fold. now rewrite <- in_rev. Qed.

  (* the substitutions in force at the location are unchanged, as long as the firing rules do not
     contradict each other *)
  Lemma msr_binds rules :
    (forall r, In r rules -> keys_sorted (snd r)) ->
    compatible (active_maps rules p) ->
    forall g x, binds (active_maps (merge_same_region_rules U rules) p) g x <-> binds (active_maps rules p) g x.
  Proof.
    intros Hs Hc.
    assert (Hs' : forall e, In e (rev rules) -> keys_sorted (snd e)) by (intros e He; apply Hs; now apply in_rev).
    assert (Hfwd : forall g x, binds (active_maps (merge_same_region_rules U rules) p) g x -> binds (active_maps rules p) g x).
    { intros g x [s' [Hact Hf]]. apply active_maps_In' in Hact as [r' [Hin Hfire]]. apply msr_In in Hin.
      destruct (msr_fold_binding _ _ r' s' g x Hs' Hin Hf) as [[s0 [[] _]]|[reg [s [Hi [Hn Hf']]]]].
      exists s. split; [|exact Hf']. apply active_maps_In'. exists reg. split; [now apply in_rev|].
      subst r'. now rewrite in_regionb_normalize in Hfire. }
    intros g x. split; [apply Hfwd|].
    intros [s [Hact Hf]]. apply active_maps_In' in Hact as [reg [Hin Hfire]].
    destruct (msr_fold_has (rev rules) [] reg s Hs' (proj1 (in_rev _ _) Hin)) as [s' [Hi' Hk]].
    destruct (kv_find s' g) as [y|] eqn:Ey; [|exfalso; apply (Hk g); [congruence|exact Ey]].
    assert (Hby : binds (active_maps (merge_same_region_rules U rules) p) g y).
    { exists s'. split; [|exact Ey]. apply active_maps_In'. exists (region_normalize U reg). split; [now apply msr_In|].
      now rewrite in_regionb_normalize. }
    assert (Hbx : binds (active_maps rules p) g x).
    { exists s. split; [|exact Hf]. apply active_maps_In'. now exists reg. }
    destruct (Hc g x Hbx) as [Hu _]. rewrite <- (Hu y (Hfwd g y Hby)). exact Hby.
  Qed.
End Region.

(* ---- rules of one and the same region: the earlier rule's replacement stands ------------------- *)
(* the replacement of g by the first rule, in rule order, whose normalized region is r' and that
   replaces g at all *)
Fixpoint region_lookup (U : Z) (rules : list rule) (r' : region) (g : glyph) : option glyph :=
  match rules with
  | [] => None
  | (reg, s) :: t =>
      if region_eqb (region_normalize U reg) r'
      then match kv_find s g with Some x => Some x | None => region_lookup U t r' g end
      else region_lookup U t r' g
  end.

Section SameRegion.
  Variable U : Z.

  Lemma region_eqb_refl r : region_eqb r r = true.
  Proof. now apply region_eqb_eq. Qed.

  Lemma region_lookup_absent P r' g :
    (forall reg s, In (reg, s) P -> region_normalize U reg <> r') -> region_lookup U P r' g = None.
  Proof.
    induction P as [|[reg s] t IH]; intros H; cbn [region_lookup]; [reflexivity|].
    destruct (region_eqb (region_normalize U reg) r') eqn:E.
    - apply region_eqb_eq in E. exfalso. apply (H reg s); [now left|exact E].
    - apply IH. intros reg' s' Hin. apply (H reg' s'). now right.
  Qed.

  Lemma msr_insert_keys acc r s :
    map fst (msr_insert acc r s) = if existsb (region_eqb r) (map fst acc) then map fst acc else map fst acc ++ [r].
  Proof.
    induction acc as [|[r' s'] t IH]; cbn [msr_insert map fst existsb]; [reflexivity|].
    destruct (region_eqb r r') eqn:E; cbn [orb map fst]; [reflexivity|].
    rewrite IH. destruct (existsb (region_eqb r) (map fst t)); reflexivity.
  Qed.

  Lemma msr_insert_entries acc r s r' s' : NoDup (map fst acc) -> In (r', s') (msr_insert acc r s) ->
    (r' <> r /\ In (r', s') acc) \/
    (r' = r /\ ((exists s0, In (r, s0) acc /\ s' = kv_extend s0 s) \/ (~ In r (map fst acc) /\ s' = s))).
  Proof.
    induction acc as [|[r1 s1] t IH]; cbn [msr_insert map fst]; intros Hnd Hin.
    - destruct Hin as [Heq|[]]. inversion Heq; subst. right. split; [reflexivity|]. right. split; [intros []|reflexivity].
    - inversion Hnd as [|? ? Hni Hnd']; subst. destruct (region_eqb r r1) eqn:E.
      + apply region_eqb_eq in E. subst r1. destruct Hin as [Heq|Hin].
        * inversion Heq; subst. right. split; [reflexivity|]. left. exists s1. split; [now left|reflexivity].
        * left. split; [|now right]. intros ->. apply Hni. apply in_map_iff. now exists (r, s').
      + assert (Hne : r1 <> r) by (intros ->; rewrite region_eqb_refl in E; discriminate).
        destruct Hin as [Heq|Hin].
        * inversion Heq; subst. left. split; [exact Hne|now left].
        * destruct (IH Hnd' Hin) as [[H1 H2]|[H1 [[s0 [H2 H3]]|[H2 H3]]]].
          -- left. split; [exact H1|now right].
          -- right. split; [exact H1|]. left. exists s0. split; [now right|exact H3].
          -- right. split; [exact H1|]. right. split; [|exact H3]. intros [Hc|Hc]; [congruence|contradiction].
  Qed.

  Definition msr_inv (acc : list (region * submap)) (P : list rule) : Prop :=
    NoDup (map fst acc) /\
    (forall r' s', In (r', s') acc -> forall g, kv_find s' g = region_lookup U P r' g) /\
    (forall reg s, In (reg, s) P -> In (region_normalize U reg) (map fst acc)).

  Lemma msr_insert_inv acc P reg s : keys_sorted s -> msr_inv acc P ->
    msr_inv (msr_insert acc (region_normalize U reg) s) ((reg, s) :: P).
  Proof.
    intros Hs [Hnd [Hlk Hcov]]. set (r := region_normalize U reg).
    assert (Hex : existsb (region_eqb r) (map fst acc) = true <-> In r (map fst acc)).
    { rewrite existsb_exists. split; [intros [x [Hx E]]; apply region_eqb_eq in E; now subst|intros H; exists r; split; [exact H|apply region_eqb_refl]]. }
    split; [|split].
    - rewrite msr_insert_keys. destruct (existsb (region_eqb r) (map fst acc)) eqn:E; [exact Hnd|].
      assert (Hni : ~ In r (map fst acc)) by (intros H; apply Hex in H; congruence).
      clear -Hnd Hni. induction (map fst acc) as [|y t IH]; cbn [app]; [constructor; [intros []|constructor]|].
      inversion Hnd; subst. constructor.
      + intros Hin. apply in_app_or in Hin as [Hin|[<-|[]]]; [contradiction|]. apply Hni. now left.
      + apply IH; [assumption|]. intros Hin. apply Hni. now right.
    - intros r' s' Hin g. cbn [region_lookup]. fold r.
      destruct (msr_insert_entries acc r s r' s' Hnd Hin) as [[Hne Hold]|[-> [[s0 [Hold ->]]|[Hni ->]]]].
      + assert (E : region_eqb r r' = false) by (destruct (region_eqb r r') eqn:E; [apply region_eqb_eq in E; congruence|reflexivity]).
        rewrite E. now apply Hlk.
      + rewrite region_eqb_refl, kv_find_extend, (kv_find_rev s g Hs).
        destruct (kv_find s g); [reflexivity|]. now apply Hlk.
      + rewrite region_eqb_refl. destruct (kv_find s g); [reflexivity|]. symmetry. apply region_lookup_absent.
        intros reg' s' Hin' Heq. apply Hni. rewrite <- Heq. now apply (Hcov reg' s').
    - intros reg' s' [Heq|Hin'].
      + inversion Heq; subst. rewrite msr_insert_keys. fold r.
        destruct (existsb (region_eqb r) (map fst acc)) eqn:E; [now apply Hex|apply in_or_app; right; now left].
      + rewrite msr_insert_keys. specialize (Hcov _ _ Hin').
        destruct (existsb (region_eqb r) (map fst acc)); [exact Hcov|apply in_or_app; now left].
  Qed.

  Lemma msr_fold_inv l : forall acc P, (forall e, In e l -> keys_sorted (snd e)) -> msr_inv acc P ->
    msr_inv (msr_fold U l acc) (rev l ++ P).
  Proof.
    induction l as [|[reg s] t IH]; intros acc P Hs Hinv; cbn [msr_fold fold_left rev app fst snd]; [exact Hinv|].
    rewrite <- app_assoc. cbn [app]. apply (IH _ _ (fun e He => Hs e (or_intror He))).
    apply msr_insert_inv; [exact (Hs (reg, s) (or_introl eq_refl))|exact Hinv].
  Qed.

  (* after merge_same_region_rules, the rule that stands for a region replaces a glyph by what the
     EARLIEST rule of that region says *)
  Lemma msr_earlier_wins rules r' s' : (forall r, In r rules -> keys_sorted (snd r)) ->
    In (r', s') (merge_same_region_rules U rules) -> forall g, kv_find s' g = region_lookup U rules r' g.
  Proof.
    intros Hs Hin g. apply msr_In in Hin.
    destruct (msr_fold_inv (rev rules) [] [] (fun e He => Hs e (proj2 (in_rev _ _) He))) as [_ [Hlk _]].
    { split; [constructor|]. split; [intros ? ? []|intros ? ? []]. }
    rewrite rev_involutive, app_nil_r in Hlk. now apply Hlk.
  Qed.
End SameRegion.
