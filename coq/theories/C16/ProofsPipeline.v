(* C16 — overlay_feature_variations as a whole (preflight + overlay + sort). *)
From Coq Require Import List NArith ZArith Bool Lia Sorted Permutation.
From Coq Require Import ZifyBool ZifyN ZifyNat.
From FV.C16 Require Import Model ProofsBox ProofsRank ProofsOverlay ProofsFirst ProofsSubs ProofsPreflight.
Import ListNotations.

(* what a caller has to provide: boxes built with NBox::insert, substitution maps that are maps
   (a rule may have any number of condition sets, none included) *)
Definition rule_wf (U : Z) (r : rule) : Prop :=
  Forall (wf_box U) (fst r) /\ keys_sorted (snd r).
Definition rules_wf (U : Z) (rules : list rule) : Prop := Forall (rule_wf U) rules.

Lemma mss_insert_length acc s r : (length (mss_insert acc s r) <= S (length acc))%nat.
Proof. induction acc as [|[s' r'] t IH]; cbn [mss_insert length]; [lia|]. destruct (submap_eqb s s'); cbn [length]; lia. Qed.

Lemma msr_insert_length acc r s : (length (msr_insert acc r s) <= S (length acc))%nat.
Proof. induction acc as [|[r' s'] t IH]; cbn [msr_insert length]; [lia|]. destruct (region_eqb r r'); cbn [length]; lia. Qed.

Lemma merge_same_sub_length rules : (length (merge_same_sub_rules rules) <= length rules)%nat.
Proof.
  unfold merge_same_sub_rules. rewrite map_length.
  assert (G : forall l acc, (length (fold_left (fun acc e => mss_insert acc (snd e) (fst e)) l acc) <= length acc + length l)%nat).
  { induction l as [|e t IH]; intros acc; cbn [fold_left length]; [lia|].
    specialize (IH (mss_insert acc (snd e) (fst e))). pose proof (mss_insert_length acc (snd e) (fst e)). lia. }
  apply (G rules []).
Qed.

Lemma merge_same_region_length U rules : (length (merge_same_region_rules U rules) <= length rules)%nat.
Proof.
  unfold merge_same_region_rules. rewrite rev_length.
  assert (G : forall l acc, (length (fold_left (fun acc e => msr_insert acc (region_normalize U (fst e)) (snd e)) l acc) <= length acc + length l)%nat).
  { induction l as [|e t IH]; intros acc; cbn [fold_left length]; [lia|].
    specialize (IH (msr_insert acc (region_normalize U (fst e)) (snd e))).
    pose proof (msr_insert_length acc (region_normalize U (fst e)) (snd e)). lia. }
  specialize (G (rev rules) []). rewrite rev_length in G. exact G.
Qed.

(* merging never produces more rules than there were *)
Lemma preflight_length U rules : (length (preflight U rules) <= length rules)%nat.
Proof.
  unfold preflight. pose proof (merge_same_region_length U (merge_same_sub_rules rules)).
  pose proof (merge_same_sub_length rules). lia.
Qed.

Section Pipeline.
  Variable U : Z.
  Variable rules : list rule.
  Hypothesis Hwf : rules_wf U rules.

  Let rules1 := merge_same_sub_rules rules.
  Let rules2 := preflight U rules.

  Lemma rules1_from r1 : In r1 rules1 ->
    keys_sorted (snd r1) /\ forall c, In c (fst r1) -> exists reg s, In (reg, s) rules /\ In c reg.
  Proof.
    intros Hin. destruct r1 as [reg s]. cbn [fst snd]. unfold rules_wf in Hwf. rewrite Forall_forall in Hwf. split.
    - destruct (mss_maps rules reg s Hin) as [reg' Hr']. exact (proj2 (Hwf _ Hr')).
    - intros c Hc. destruct (mss_boxes rules reg s c Hin Hc) as [reg' [H1 H2]]. now exists reg', s.
  Qed.

  Lemma rules2_from r2 : In r2 rules2 -> exists reg s, In (reg, s) rules1 /\ fst r2 = region_normalize U reg.
  Proof.
    intros Hin. unfold rules2, preflight in Hin. fold rules1 in Hin. destruct r2 as [r' s']. apply msr_In in Hin.
    destruct (msr_fold_regions U _ _ r' s' Hin) as [[s0 []]|[reg [s [Hi Hr]]]].
    exists reg, s. split; [now apply in_rev|exact Hr].
  Qed.

  Lemma rules2_box r2 c' : In r2 rules2 -> In c' (fst r2) ->
    exists c, c' = box_cleanup U c /\ wf_box U c /\ In c (all_boxes rules).
  Proof.
    intros Hin Hc. destruct (rules2_from r2 Hin) as [reg [s [Hi Hr]]]. rewrite Hr in Hc.
    apply normalize_boxes in Hc as [c [Hc ->]]. exists c. split; [reflexivity|].
    destruct (rules1_from (reg, s) Hi) as [_ Hb]. destruct (Hb c Hc) as [reg0 [s0 [Hi0 Hc0]]].
    unfold rules_wf in Hwf. rewrite Forall_forall in Hwf. destruct (Hwf _ Hi0) as [Hw _]. rewrite Forall_forall in Hw.
    split; [now apply Hw|]. unfold all_boxes. apply in_flat_map. now exists (reg0, s0).
  Qed.

  Lemma rules2_wf : Forall (fun r => Forall (wf_box U) (fst r)) rules2.
  Proof.
    rewrite Forall_forall. intros r2 Hin. rewrite Forall_forall. intros c' Hc.
    destruct (rules2_box r2 c' Hin Hc) as [c [-> [Hw _]]]. now apply wf_box_cleanup.
  Qed.

  Lemma rules2_lo a x : lo_edge U rules2 a x -> lo_edge U rules a x.
  Proof.
    intros [H|[c' [Hc Hx]]]; [now left|]. right. unfold all_boxes in Hc. apply in_flat_map in Hc as [r2 [Hin Hc]].
    destruct (rules2_box r2 c' Hin Hc) as [c [-> [Hw Hall]]]. exists c. split; [exact Hall|].
    now rewrite box_cleanup_get in Hx by apply Hw.
  Qed.
  Lemma rules2_hi a x : hi_edge U rules2 a x -> hi_edge U rules a x.
  Proof.
    intros [H|[c' [Hc Hx]]]; [now left|]. right. unfold all_boxes in Hc. apply in_flat_map in Hc as [r2 [Hin Hc]].
    destruct (rules2_box r2 c' Hin Hc) as [c [-> [Hw Hall]]]. exists c. split; [exact Hall|].
    now rewrite box_cleanup_get in Hx by apply Hw.
  Qed.

  (* no panic, whatever the rules are and however many *)
  Lemma overlay_no_panic : exists items, overlay_feature_variations U rules = Ok items.
  Proof.
    unfold overlay_feature_variations. eexists. apply (overlay_merged_ok U rules2 rules2_wf).
  Qed.

  Lemma overlay_items_wf items : overlay_feature_variations U rules = Ok items -> Forall (fun it => wf_box U (fst it)) items.
  Proof.
    unfold overlay_feature_variations. fold rules2. rewrite (overlay_merged_ok U rules2 rules2_wf).
    intros H; inversion H; subst. rewrite Forall_forall. intros it Hit. apply in_map_iff in Hit as [e [<- He]].
    apply filter_In in He as [He _]. pose proof (sorted_sound U rules2 rules2_wf) as Hs. rewrite Forall_forall in Hs.
    destruct (Hs _ He) as [Hw _]. exact Hw.
  Qed.

  (* soundness at every location of the designspace, special or not: a map listed for a box belongs
     to a (merged) rule that fires at every location of that box *)
  Lemma overlay_sound items : overlay_feature_variations U rules = Ok items ->
    forall b maps, In (b, maps) items -> forall q, in_dom U q -> in_boxb q b = true ->
    forall s, In s maps -> In s (active_maps (preflight U rules) q).
  Proof.
    unfold overlay_feature_variations. fold rules2. intros Hov b maps Hin q Hq Hqb s Hs.
    destruct (items_sound U rules2 rules2_wf items Hov b maps Hin) as [Hwb Hall].
    apply (in_boxb_in_box U q b Hwb Hq) in Hqb.
    destruct (Hall q s Hqb Hs) as [k [[reg s'] [Hk [Hs' [r' [Hk' [c [Hc Hqc]]]]]]]]. cbn [snd] in Hs'. subst s'.
    rewrite Hk in Hk'. inversion Hk'; subst r'. cbn [fst] in Hc.
    apply active_maps_In'. exists reg. split; [eapply nth_error_In; exact Hk|].
    unfold in_regionb. apply existsb_exists. exists c. split; [exact Hc|].
    apply (in_boxb_in_box U q c); [|exact Hq|exact Hqc].
    pose proof rules2_wf as Hw2. rewrite Forall_forall in Hw2. apply nth_error_In in Hk. specialize (Hw2 _ Hk).
    rewrite Forall_forall in Hw2. now apply Hw2.
  Qed.

  Variable p : point.
  Hypothesis Hd : in_dom U p.
  Hypothesis Hexcl : forall a, lo_edge U rules a (p a) -> hi_edge U rules a (p a) -> False.

  (* the first output box containing the location lists exactly the merged rules firing there *)
  Lemma overlay_first_match :
    exists items, overlay_feature_variations U rules = Ok items /\
      first_match items p = match active_maps (preflight U rules) p with [] => None | l => Some l end.
  Proof.
    unfold overlay_feature_variations. fold rules2.
    apply (first_match_active U rules2 rules2_wf p Hd).
    intros a Hl Hh. apply (Hexcl a); [now apply rules2_lo|now apply rules2_hi].
  Qed.

  Lemma preflight_binds : compatible (active_maps rules p) ->
    forall g x, binds (active_maps (preflight U rules) p) g x <-> binds (active_maps rules p) g x.
  Proof.
    intros Hc g x. unfold preflight. fold rules1.
    assert (H1 : forall g x, binds (active_maps rules1 p) g x <-> binds (active_maps rules p) g x).
    { apply binds_active. intros s. apply mss_fires. }
    assert (Hc1 : compatible (active_maps rules1 p)).
    { eapply compatible_ext; [|exact Hc]. intros g' x'. symmetry. apply H1. }
    rewrite (msr_binds U p Hd rules1 (fun r Hr => proj1 (rules1_from r Hr)) Hc1). apply H1.
  Qed.

  (* ... and applying its maps in the order given is what the source rules say *)
  Lemma overlay_correct : compatible (active_maps rules p) ->
    exists items, overlay_feature_variations U rules = Ok items /\
      forall g, apply_seq (match first_match items p with Some l => l | None => [] end) g = spec_apply rules p g.
  Proof.
    intros Hc. destruct overlay_first_match as [items [Hov Hfm]]. exists items. split; [exact Hov|].
    intros g. unfold spec_apply.
    assert (E : match first_match items p with Some l => l | None => [] end = active_maps (preflight U rules) p).
    { rewrite Hfm. destruct (active_maps (preflight U rules) p); reflexivity. }
    rewrite E. symmetry. apply apply_seq_ext; [|exact Hc]. intros g' x'. symmetry. now apply preflight_binds.
  Qed.
End Pipeline.
