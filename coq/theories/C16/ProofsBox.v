(* C16 — lemmas about association lists, NBox and NBox::overlay_onto. *)
From Coq Require Import List NArith ZArith Bool Lia Sorted Permutation.
From Coq Require Import ZifyBool ZifyN ZifyNat.
From FV.C16 Require Import Model.
Import ListNotations.

(* ------------------------------------------------------------------------ *)
(* association lists                                                          *)

Definition keys_sorted {V} (m : list (N * V)) : Prop := StronglySorted N.lt (map fst m).

Lemma kv_find_set_same {V} (m : list (N * V)) k v : kv_find (kv_set m k v) k = Some v.
Proof.
  induction m as [|[k' v'] t IH]; cbn [kv_set kv_find].
  - now rewrite N.eqb_refl.
  - destruct (N.eqb_spec k k') as [->|Hne].
    + cbn [kv_find]. now rewrite N.eqb_refl.
    + destruct (N.ltb_spec k k'); cbn [kv_find].
      * now rewrite N.eqb_refl.
      * destruct (N.eqb_spec k k'); [contradiction|exact IH].
Qed.

Lemma kv_find_set_other {V} (m : list (N * V)) k k2 v :
  k2 <> k -> kv_find (kv_set m k v) k2 = kv_find m k2.
Proof.
  intros Hne. induction m as [|[k' v'] t IH]; cbn [kv_set kv_find].
  - destruct (N.eqb_spec k2 k); [contradiction|reflexivity].
  - destruct (N.eqb_spec k k') as [->|Hne'].
    + cbn [kv_find]. destruct (N.eqb_spec k2 k'); [contradiction|reflexivity].
    + destruct (N.ltb_spec k k'); cbn [kv_find].
      * destruct (N.eqb_spec k2 k); [contradiction|reflexivity].
      * destruct (N.eqb_spec k2 k'); [reflexivity|exact IH].
Qed.

Lemma kv_set_keys_lb {V} (m : list (N * V)) k v x :
  Forall (N.lt x) (map fst m) -> (x < k)%N -> Forall (N.lt x) (map fst (kv_set m k v)).
Proof.
  induction m as [|[k' v'] t IH]; cbn [kv_set map fst]; intros Hf Hlt.
  - constructor; [exact Hlt|constructor].
  - inversion Hf as [|? ? H1 H2]; subst. cbn [fst] in *.
    destruct (N.eqb_spec k k') as [->|Hne].
    + cbn [map fst]. constructor; assumption.
    + destruct (N.ltb_spec k k'); cbn [map fst].
      * constructor; [exact Hlt|constructor; assumption].
      * constructor; [exact H1|apply IH; assumption].
Qed.

Lemma kv_set_sorted {V} (m : list (N * V)) k v : keys_sorted m -> keys_sorted (kv_set m k v).
Proof.
  unfold keys_sorted. induction m as [|[k' v'] t IH]; cbn [kv_set map fst]; intros Hs.
  - constructor; constructor.
  - inversion Hs as [|? ? Hs' Hf]; subst.
    destruct (N.eqb_spec k k') as [->|Hne].
    + cbn [map fst]. constructor; assumption.
    + destruct (N.ltb_spec k k') as [Hlt|Hge]; cbn [map fst].
      * constructor; [constructor; assumption|].
        constructor; [exact Hlt|].
        eapply Forall_impl; [|exact Hf]. intros a Ha. cbn in Ha. lia.
      * constructor; [apply IH; exact Hs'|].
        apply kv_set_keys_lb; [exact Hf|lia].
Qed.

Lemma kv_extend_sorted {V} (add m : list (N * V)) : keys_sorted m -> keys_sorted (kv_extend m add).
Proof.
  unfold kv_extend. revert m. induction add as [|e t IH]; intros m Hs; cbn [fold_left].
  - exact Hs.
  - apply IH. apply kv_set_sorted. exact Hs.
Qed.

Lemma kv_find_In {V} (m : list (N * V)) k v : kv_find m k = Some v -> In (k, v) m.
Proof.
  induction m as [|[k' v'] t IH]; cbn [kv_find]; [discriminate|].
  destruct (N.eqb_spec k k') as [->|Hne]; intros H.
  - inversion H; subst. now left.
  - right. now apply IH.
Qed.

Lemma kv_In_find {V} (m : list (N * V)) k v : keys_sorted m -> In (k, v) m -> kv_find m k = Some v.
Proof.
  unfold keys_sorted. induction m as [|[k' v'] t IH]; cbn [kv_find map fst]; intros Hs Hin; [destruct Hin|].
  inversion Hs as [|? ? Hs' Hf]; subst.
  destruct Hin as [Heq|Hin].
  - inversion Heq; subst. now rewrite N.eqb_refl.
  - destruct (N.eqb_spec k k') as [->|Hne].
    + exfalso. rewrite Forall_forall in Hf.
      assert (Hk : In k' (map fst t)) by (apply in_map_iff; exists (k', v); split; [reflexivity|exact Hin]).
      specialize (Hf _ Hk). lia.
    + now apply IH.
Qed.

Lemma kv_mem_In {V} (m : list (N * V)) k : kv_mem m k = true <-> In k (map fst m).
Proof.
  unfold kv_mem. induction m as [|[k' v'] t IH]; cbn [kv_find map fst In].
  - split; [discriminate|tauto].
  - destruct (N.eqb_spec k k') as [->|Hne].
    + split; [now left|reflexivity].
    + rewrite IH. split; [now right|]. intros [H|H]; [congruence|exact H].
Qed.

Lemma kv_mem_false {V} (m : list (N * V)) k : kv_mem m k = false <-> kv_find m k = None.
Proof. unfold kv_mem. destruct (kv_find m k); split; congruence. Qed.

Lemma kv_find_app {V} (a b : list (N * V)) k :
  kv_find (a ++ b) k = match kv_find a k with Some v => Some v | None => kv_find b k end.
Proof.
  induction a as [|[k' v'] t IH]; cbn [app kv_find]; [reflexivity|].
  destruct (N.eqb_spec k k'); [reflexivity|exact IH].
Qed.

(* inserting a whole list: the last entry for a key wins *)
Lemma kv_find_extend {V} (add m : list (N * V)) k :
  kv_find (kv_extend m add) k = match kv_find (rev add) k with Some v => Some v | None => kv_find m k end.
Proof.
  unfold kv_extend. revert m. induction add as [|[k' v'] t IH]; intros m; cbn [fold_left rev].
  - reflexivity.
  - rewrite IH, kv_find_app. destruct (kv_find (rev t) k); [reflexivity|].
    cbn [kv_find fst snd]. destruct (N.eqb_spec k k') as [->|Hne].
    + apply kv_find_set_same.
    + apply kv_find_set_other. exact Hne.
Qed.

Lemma kv_find_rev {V} (m : list (N * V)) k : keys_sorted m -> kv_find (rev m) k = kv_find m k.
Proof.
  intros Hs. destruct (kv_find m k) as [v|] eqn:E.
  - apply kv_find_In in E.
    assert (Hs' : forall l : list (N * V), NoDup (map fst l) -> In (k, v) l -> kv_find l k = Some v).
    { induction l as [|[k' v'] l IH]; cbn [map fst kv_find]; intros Hnd Hin; [destruct Hin|].
      inversion Hnd as [|? ? Hni Hnd']; subst. destruct Hin as [Heq|Hin].
      - inversion Heq; subst. now rewrite N.eqb_refl.
      - destruct (N.eqb_spec k k') as [->|Hne]; [|now apply IH].
        exfalso. apply Hni. apply in_map_iff. exists (k', v). split; [reflexivity|exact Hin]. }
    apply Hs'.
    + rewrite map_rev. apply NoDup_rev.
      unfold keys_sorted in Hs. clear -Hs. induction Hs as [|a l Hs IH Hf]; constructor; [|exact IH].
      intros Hin. rewrite Forall_forall in Hf. specialize (Hf _ Hin). lia.
    + apply in_rev. rewrite rev_involutive. exact E.
  - destruct (kv_find (rev m) k) as [v|] eqn:E2; [|reflexivity].
    apply kv_find_In in E2. apply in_rev in E2. apply (kv_In_find _ _ _ Hs) in E2. congruence.
Qed.

(* ------------------------------------------------------------------------ *)
(* decidable equalities                                                       *)

Lemma range_eqb_eq r1 r2 : range_eqb r1 r2 = true <-> r1 = r2.
Proof. destruct r1, r2; unfold range_eqb; cbn [fst snd]. split; [intros; f_equal; lia|intros H; inversion H; lia]. Qed.

Lemma box_eqb_eq a b : box_eqb a b = true <-> a = b.
Proof.
  revert b. induction a as [|[k1 r1] t1 IH]; intros [|[k2 r2] t2]; cbn [box_eqb]; split; try discriminate; try reflexivity.
  - intros H. apply andb_true_iff in H as [H H3]. apply andb_true_iff in H as [H1 H2].
    apply N.eqb_eq in H1. apply range_eqb_eq in H2. apply IH in H3. congruence.
  - intros H. inversion H; subst. rewrite N.eqb_refl. cbn [andb].
    apply andb_true_iff. split; [now apply range_eqb_eq|now apply IH].
Qed.

(* ------------------------------------------------------------------------ *)
(* boxes as point sets                                                        *)

Definition in_range (r : range) (x : Z) : Prop := (fst r <= x <= snd r)%Z.
Definition in_box (U : Z) (p : point) (b : box) : Prop := forall a, in_range (box_get U b a) (p a).
(* NBox::insert stores  -U <= min  and  max <= U *)
Definition wf_range (U : Z) (r : range) : Prop := (- U <= fst r /\ snd r <= U)%Z.
Definition wf_box (U : Z) (b : box) : Prop := keys_sorted b /\ Forall (fun e => wf_range U (snd e)) b.
Definition in_dom (U : Z) (p : point) : Prop := forall a, (- U <= p a <= U)%Z.

Definition rinter (r1 r2 : range) : range := (Z.max (fst r1) (fst r2), Z.min (snd r1) (snd r2)).

Lemma wf_get U b a : wf_box U b -> wf_range U (box_get U b a).
Proof.
  intros [_ Hf]. unfold box_get. destruct (kv_find b a) as [r|] eqn:E.
  - apply kv_find_In in E. rewrite Forall_forall in Hf. exact (Hf _ E).
  - unfold wf_range, full_range; cbn [fst snd]. lia.
Qed.

Lemma in_box_dom U p b : wf_box U b -> in_box U p b -> in_dom U p.
Proof.
  intros Hwf Hin a. specialize (Hin a). pose proof (wf_get U b a Hwf) as Hr.
  unfold in_range, wf_range in *. lia.
Qed.

Lemma wf_box_nil U : wf_box U [].
Proof. split; [constructor|constructor]. Qed.

Lemma clamp_wf U omin omax : wf_range U (clamp_range U omin omax).
Proof. unfold wf_range, clamp_range; cbn [fst snd]. lia. Qed.

Lemma clamp_id U mn mx : (- U <= mn)%Z -> (mx <= U)%Z -> clamp_range U (Some mn) (Some mx) = (mn, mx).
Proof. intros. unfold clamp_range. f_equal; lia. Qed.

Lemma kv_set_Forall {V} (P : N * V -> Prop) (m : list (N * V)) k v :
  Forall P m -> P (k, v) -> Forall P (kv_set m k v).
Proof.
  induction m as [|[k' v'] t IH]; cbn [kv_set]; intros Hf Hp.
  - constructor; [exact Hp|constructor].
  - inversion Hf; subst. destruct (k =? k')%N; [constructor; assumption|].
    destruct (k <? k')%N; [constructor; [exact Hp|constructor; assumption]|].
    constructor; [assumption|apply IH; assumption].
Qed.

Lemma wf_box_set U b a r : wf_box U b -> wf_range U r -> wf_box U (kv_set b a r).
Proof.
  intros [Hs Hf] Hr. split; [apply kv_set_sorted; exact Hs|].
  apply kv_set_Forall; [exact Hf|exact Hr].
Qed.

Lemma wf_nbox_insert U b a omin omax : wf_box U b -> wf_box U (nbox_insert U b a omin omax).
Proof. intros H. apply wf_box_set; [exact H|apply clamp_wf]. Qed.

Lemma wf_mk_box U l : wf_box U (mk_box U l).
Proof.
  unfold mk_box. assert (H : forall b, wf_box U b -> wf_box U (fold_left (fun b e => nbox_insert U b (fst e) (fst (snd e)) (snd (snd e))) l b)).
  { induction l as [|e t IH]; intros b Hb; cbn [fold_left]; [exact Hb|]. apply IH. apply wf_nbox_insert. exact Hb. }
  apply H. apply wf_box_nil.
Qed.

Lemma box_get_set_same U b a r : box_get U (kv_set b a r) a = r.
Proof. unfold box_get. now rewrite kv_find_set_same. Qed.

Lemma box_get_set_other U b a a2 r : a2 <> a -> box_get U (kv_set b a r) a2 = box_get U b a2.
Proof. intros H. unfold box_get. now rewrite kv_find_set_other. Qed.

Lemma box_get_set U b a a2 r : box_get U (kv_set b a r) a2 = if (a2 =? a)%N then r else box_get U b a2.
Proof.
  destruct (N.eqb_spec a2 a) as [->|Hne]; [apply box_get_set_same|now apply box_get_set_other].
Qed.

Lemma box_cleanup_get U b a : keys_sorted b -> box_get U (box_cleanup U b) a = box_get U b a.
Proof.
  unfold box_get, box_cleanup. induction b as [|[k r] t IH]; intros Hs; cbn [filter kv_find snd]; [reflexivity|].
  assert (Hs' : keys_sorted t) by (unfold keys_sorted in *; cbn [map fst] in Hs; inversion Hs; assumption).
  destruct (range_eqb r (full_range U)) eqn:E; cbn [negb kv_find].
  - apply range_eqb_eq in E. subst r. destruct (N.eqb_spec a k) as [->|Hne]; [|apply IH; exact Hs'].
    rewrite IH by exact Hs'.
    destruct (kv_find t k) as [r'|] eqn:E2; [|reflexivity].
    exfalso. apply kv_find_In in E2. unfold keys_sorted in Hs. cbn [map fst] in Hs. inversion Hs as [|? ? _ Hf]; subst.
    rewrite Forall_forall in Hf. assert (Hk : In k (map fst t)) by (apply in_map_iff; exists (k, r'); split; [reflexivity|exact E2]).
    specialize (Hf _ Hk). lia.
  - destruct (N.eqb_spec a k); [reflexivity|apply IH; exact Hs'].
Qed.

Lemma filter_sorted {V} (f : N * V -> bool) (m : list (N * V)) : keys_sorted m -> keys_sorted (filter f m).
Proof.
  unfold keys_sorted. induction m as [|e t IH]; cbn [filter map]; intros Hs; [constructor|].
  inversion Hs as [|? ? Hs' Hf]; subst. destruct (f e); cbn [map]; [|apply IH; exact Hs'].
  constructor; [apply IH; exact Hs'|].
  rewrite Forall_forall in *. intros x Hx. apply Hf. apply in_map_iff in Hx as [y [<- Hy]].
  apply filter_In in Hy as [Hy _]. apply in_map. exact Hy.
Qed.

Lemma wf_box_cleanup U b : wf_box U b -> wf_box U (box_cleanup U b).
Proof.
  intros [Hs Hf]. split; [apply filter_sorted; exact Hs|].
  unfold box_cleanup. rewrite Forall_forall in *. intros x Hx. apply filter_In in Hx as [Hx _]. exact (Hf _ Hx).
Qed.

Lemma in_box_cleanup U p b : keys_sorted b -> in_box U p (box_cleanup U b) <-> in_box U p b.
Proof. intros Hs. unfold in_box. split; intros H a; specialize (H a); now rewrite box_cleanup_get in *. Qed.

(* the executable membership test agrees with in_box on well-formed boxes and
   locations of the designspace *)
Lemma in_boxb_in_box U p b : wf_box U b -> in_dom U p -> in_boxb p b = true <-> in_box U p b.
Proof.
  intros [Hs Hf] Hd. unfold in_boxb. rewrite forallb_forall. split.
  - intros H a. unfold box_get. destruct (kv_find b a) as [r|] eqn:E.
    + apply kv_find_In in E. specialize (H _ E). cbn [fst snd] in H. unfold in_rangeb in H. unfold in_range. lia.
    + specialize (Hd a). unfold in_range, full_range; cbn [fst snd]. lia.
  - intros H [a r] Hin. cbn [fst snd]. specialize (H a). unfold box_get in H.
    rewrite (kv_In_find _ _ _ Hs Hin) in H. unfold in_range in H. unfold in_rangeb. lia.
Qed.

(* ------------------------------------------------------------------------ *)
(* NBox::overlay_onto                                                          *)

Section Onto.
  Variable U : Z.
  Variables self other : box.
  Hypothesis Hself : wf_box U self.
  Hypothesis Hother : wf_box U other.

  Let inter0 := kv_extend [] (self ++ other).

  Lemma inter0_get a :
    box_get U inter0 a = if kv_mem other a then box_get U other a else box_get U self a.
  Proof.
    unfold inter0, box_get, kv_mem. rewrite kv_find_extend. cbn [kv_find].
    rewrite rev_app_distr, kv_find_app.
    rewrite (kv_find_rev other) by apply Hother. rewrite (kv_find_rev self) by apply Hself.
    destruct (kv_find other a); [reflexivity|]. destruct (kv_find self a); reflexivity.
  Qed.

  Lemma inter0_wf : wf_box U inter0.
  Proof.
    unfold inter0. split.
    - apply kv_extend_sorted. constructor.
    - unfold kv_extend.
      assert (H : forall l m, Forall (fun e : axis * range => wf_range U (snd e)) l ->
                  Forall (fun e : axis * range => wf_range U (snd e)) m ->
                  Forall (fun e : axis * range => wf_range U (snd e)) (fold_left (fun acc e => kv_set acc (fst e) (snd e)) l m)).
      { induction l as [|e t IH]; intros m Hl Hm; cbn [fold_left]; [exact Hm|].
        inversion Hl; subst. apply IH; [assumption|]. apply kv_set_Forall; assumption. }
      apply H; [|constructor]. apply Forall_app. split; [apply Hself|apply Hother].
  Qed.

  (* the first loop *)
  Lemma inter_loop_some axes inter inter' :
    wf_box U inter ->
    inter_loop U self other axes inter = Some inter' ->
    wf_box U inter' /\
    (forall a, In a axes -> box_get U inter' a = rinter (box_get U self a) (box_get U other a) /\
                            (Z.max (fst (box_get U self a)) (fst (box_get U other a)) <
                             Z.min (snd (box_get U self a)) (snd (box_get U other a)))%Z) /\
    (forall a, ~ In a axes -> box_get U inter' a = box_get U inter a).
  Proof.
    revert inter. induction axes as [|a t IH]; intros inter Hwf; cbn [inter_loop].
    - intros H; inversion H; subst. split; [exact Hwf|]. split; [intros a []|reflexivity].
    - pose proof (wf_get U self a Hself) as Hs. pose proof (wf_get U other a Hother) as Ho.
      destruct (box_get U self a) as [min1 max1] eqn:E1. destruct (box_get U other a) as [min2 max2] eqn:E2.
      unfold wf_range in Hs, Ho; cbn [fst snd] in Hs, Ho.
      destruct (Z.leb_spec (Z.min max1 max2) (Z.max min1 min2)) as [Hle|Hlt]; [discriminate|].
      intros H. apply IH in H; [|apply wf_nbox_insert; exact Hwf].
      destruct H as [Hwf' [Hin Hout]]. split; [exact Hwf'|]. split.
      + intros a' [<-|Hin']; [|now apply Hin].
        destruct (in_dec N.eq_dec a t) as [Hi|Hni]; [now apply Hin|].
        rewrite Hout by exact Hni. unfold nbox_insert. rewrite box_get_set_same, E1, E2.
        unfold rinter; cbn [fst snd]. split; [apply clamp_id; lia|exact Hlt].
      + intros a' Hni. rewrite Hout by (intros Hc; apply Hni; now right).
        unfold nbox_insert. apply box_get_set_other. intros ->. apply Hni. now left.
  Qed.

  Lemma inter_loop_none axes inter :
    inter_loop U self other axes inter = None ->
    exists a, In a axes /\
      (Z.min (snd (box_get U self a)) (snd (box_get U other a)) <=
       Z.max (fst (box_get U self a)) (fst (box_get U other a)))%Z.
  Proof.
    revert inter. induction axes as [|a t IH]; intros inter; cbn [inter_loop]; [discriminate|].
    destruct (box_get U self a) as [min1 max1] eqn:E1. destruct (box_get U other a) as [min2 max2] eqn:E2.
    destruct (Z.leb_spec (Z.min max1 max2) (Z.max min1 min2)) as [Hle|Hlt].
    - intros _. exists a. split; [now left|]. rewrite E1, E2. exact Hle.
    - intros H. apply IH in H as [a' [Hin Hle]]. exists a'. split; [now right|exact Hle].
  Qed.

  Definition shared : list axis := filter (kv_mem other) (map fst self).

  Lemma shared_In a : In a shared <-> kv_mem self a = true /\ kv_mem other a = true.
  Proof. unfold shared. rewrite filter_In, (kv_mem_In self a). tauto. Qed.

  (* the intersection, when there is one, is the intersection *)
  Lemma inter_get inter :
    inter_loop U self other shared inter0 = Some inter ->
    wf_box U inter /\ forall a, box_get U inter a = rinter (box_get U self a) (box_get U other a).
  Proof.
    intros H. apply inter_loop_some in H; [|apply inter0_wf].
    destruct H as [Hwf [Hin Hout]]. split; [exact Hwf|]. intros a.
    destruct (in_dec N.eq_dec a shared) as [Hi|Hni]; [now apply Hin|].
    rewrite Hout by exact Hni. rewrite inter0_get.
    pose proof (wf_get U self a Hself) as Hs. pose proof (wf_get U other a Hother) as Ho.
    unfold wf_range in Hs, Ho. rewrite shared_In in Hni.
    destruct (kv_mem other a) eqn:Eo.
    - destruct (kv_mem self a) eqn:Es; [exfalso; apply Hni; tauto|].
      apply kv_mem_false in Es. unfold box_get at 2. rewrite Es. unfold rinter, full_range; cbn [fst snd].
      destruct (box_get U other a) as [lo hi]; cbn [fst snd] in *. f_equal; lia.
    - apply kv_mem_false in Eo. unfold box_get at 3. rewrite Eo. unfold rinter, full_range; cbn [fst snd].
      destruct (box_get U self a) as [lo hi]; cbn [fst snd] in *. f_equal; lia.
  Qed.

  (* ---- the second loop ---- *)
  Variable inter : box.
  Hypothesis Hinter : forall a, box_get U inter a = rinter (box_get U self a) (box_get U other a).

  (* `min1 <= min2 && max2 <= max1`: on this axis self covers other *)
  Definition covers (a : axis) : bool :=
    (fst (box_get U inter a) <=? fst (box_get U other a))%Z && (snd (box_get U other a) <=? snd (box_get U inter a))%Z.
  Definition ovl (a : axis) : bool := kv_mem self a && negb (covers a).
  Definition cut (a : axis) : option (Z * Z) :=
    let '(min1, max1) := box_get U inter a in
    let '(min2, max2) := box_get U other a in
    if (min1 <=? min2)%Z then Some (Z.max max1 min2, max2)
    else if (max2 <=? max1)%Z then Some (min2, Z.min min1 max2)
    else None.

  Lemma rem_loop_closed axes rem ext fi :
    rem_loop U self other inter axes rem ext fi =
    match filter ovl axes with
    | [] => Some (rem, fi)
    | a :: rest =>
        if ext then None
        else match cut a with
             | None => None
             | Some (lo, hi) =>
                 match rest with
                 | [] => Some (nbox_insert U rem a (Some lo) (Some hi), false)
                 | _ => None
                 end
             end
    end.
  Proof.
    revert rem ext fi. induction axes as [|a t IH]; intros rem ext fi; cbn [rem_loop filter]; [reflexivity|].
    unfold ovl at 1. destruct (kv_mem self a) eqn:Em; cbn [negb andb].
    2:{ apply IH. }
    unfold covers at 1.
    destruct (box_get U inter a) as [min1 max1] eqn:E1. destruct (box_get U other a) as [min2 max2] eqn:E2.
    cbn [fst snd].
    destruct ((min1 <=? min2)%Z && (max2 <=? max1)%Z) eqn:Ec; cbn [negb].
    - apply IH.
    - destruct ext; [reflexivity|].
      unfold cut. rewrite E1, E2.
      destruct (min1 <=? min2)%Z eqn:El.
      + rewrite IH. destruct (filter ovl t); reflexivity.
      + destruct (max2 <=? max1)%Z eqn:Er.
        * rewrite IH. destruct (filter ovl t); reflexivity.
        * reflexivity.
  Qed.

  Definition ext0 : bool := existsb (fun a => negb (kv_mem other a)) (map fst self).

  Lemma ext0_false a : ext0 = false -> kv_mem self a = true -> kv_mem other a = true.
  Proof.
    unfold ext0. intros H Hm. apply kv_mem_In in Hm.
    destruct (kv_mem other a) eqn:E; [reflexivity|].
    assert (existsb (fun a => negb (kv_mem other a)) (map fst self) = true).
    { apply existsb_exists. exists a. split; [exact Hm|now rewrite E]. }
    congruence.
  Qed.

  (* what the covering test says about the two boxes *)
  Lemma covers_spec a : covers a = true ->
    (fst (box_get U self a) <= fst (box_get U other a) /\ snd (box_get U other a) <= snd (box_get U self a))%Z.
  Proof. unfold covers. rewrite Hinter. unfold rinter; cbn [fst snd]. lia. Qed.

  Lemma not_ovl_covers a : In a (map fst other) -> filter ovl (map fst other) = [] -> kv_mem self a = true -> covers a = true.
  Proof.
    intros Hin Hf Hm. destruct (covers a) eqn:E; [reflexivity|].
    assert (In a (filter ovl (map fst other))) by (apply filter_In; split; [exact Hin|unfold ovl; now rewrite Hm, E]).
    rewrite Hf in H. destruct H.
  Qed.

  Lemma only_ovl_covers a0 a :
    In a (map fst other) -> filter ovl (map fst other) = [a0] -> kv_mem self a = true -> a <> a0 -> covers a = true.
  Proof.
    intros Hin Hf Hm Hne. destruct (covers a) eqn:E; [reflexivity|].
    assert (In a (filter ovl (map fst other))) by (apply filter_In; split; [exact Hin|unfold ovl; now rewrite Hm, E]).
    rewrite Hf in H. destruct H as [H|[]]. congruence.
  Qed.
End Onto.

(* ---- summary of overlay_onto used by the overlay proofs -------------------- *)
Lemma edge_lo_max l1 l2 x (P : Prop) :
  ((l1 < x)%Z \/ (l1 = x /\ P)) -> ((l2 < x)%Z \/ (l2 = x /\ P)) ->
  ((Z.max l1 l2 < x)%Z \/ (Z.max l1 l2 = x /\ P)).
Proof. intros [H1|[H1 HP]] [H2|[H2 HP']]; [left; lia|right; split; [lia|assumption]..]. Qed.

Lemma edge_hi_min h1 h2 x (P : Prop) :
  ((x < h1)%Z \/ (h1 = x /\ P)) -> ((x < h2)%Z \/ (h2 = x /\ P)) ->
  ((x < Z.min h1 h2)%Z \/ (Z.min h1 h2 = x /\ P)).
Proof. intros [H1|[H1 HP]] [H2|[H2 HP']]; [left; lia|right; split; [lia|assumption]..]. Qed.
Section OntoSound.
  Variable U : Z.
  Variables self other : box.
  Hypothesis Hself : wf_box U self.
  Hypothesis Hother : wf_box U other.

  (* 1. whatever comes back is well formed; the intersection is contained in both,
        the remainder in `other` *)
  Lemma overlay_onto_sound oi orem :
    overlay_onto U self other = (oi, orem) ->
    (forall i, oi = Some i -> wf_box U i /\ forall p, in_box U p i -> in_box U p self /\ in_box U p other) /\
    (forall r, orem = Some r -> wf_box U r /\ forall p, in_box U p r -> in_box U p other).
  Proof.
    unfold overlay_onto. fold (shared self other).
    destruct (inter_loop U self other (shared self other) (kv_extend [] (self ++ other))) as [inter|] eqn:El.
    2:{ intros H; inversion H; subst. split; [intros i Hi; discriminate|].
        intros r Hr; inversion Hr; subst. split; [exact Hother|tauto]. }
    apply (inter_get U self other Hself Hother) in El as [Hwfi Hget].
    assert (Hisound : forall p, in_box U p inter -> in_box U p self /\ in_box U p other).
    { intros p Hp. split; intros a; specialize (Hp a); rewrite Hget in Hp; unfold in_range, rinter in *; cbn [fst snd] in Hp; lia. }
    rewrite (rem_loop_closed U self other inter).
    set (L := filter (ovl U self other inter) (map fst other)).
    set (e0 := existsb (fun a => negb (kv_mem other a)) (map fst self)).
    assert (Hoth : forall i r, (Some inter, Some other) = (Some i, Some r) -> True) by trivial.
    assert (Hdone : forall (x : option box * option box), x = (Some inter, Some other) \/ x = (Some inter, None) ->
              x = (oi, orem) ->
              (forall i, oi = Some i -> wf_box U i /\ forall p, in_box U p i -> in_box U p self /\ in_box U p other) /\
              (forall r, orem = Some r -> wf_box U r /\ forall p, in_box U p r -> in_box U p other)).
    { intros x [->| ->] H; inversion H; subst; (split; [intros i Hi; inversion Hi; subst; split; [exact Hwfi|exact Hisound]|]).
      - intros r Hr; inversion Hr; subst. split; [exact Hother|tauto].
      - intros r Hr; discriminate. }
    destruct L as [|a0 rest] eqn:EL.
    - destruct (negb e0); apply Hdone; tauto.
    - destruct e0; [apply Hdone; tauto|].
      destruct (cut U other inter a0) as [[lo hi]|] eqn:Ec; [|apply Hdone; tauto].
      destruct rest; [|apply Hdone; tauto].
      intros H; inversion H; subst. split; [intros i Hi; inversion Hi; subst; split; [exact Hwfi|exact Hisound]|].
      intros r Hr; inversion Hr; subst. split; [apply wf_nbox_insert; exact Hother|].
      (* the cut range lies inside other's range *)
      pose proof (wf_get U other a0 Hother) as Ho. unfold wf_range in Ho.
      unfold cut in Ec. destruct (box_get U inter a0) as [min1 max1] eqn:E1. destruct (box_get U other a0) as [min2 max2] eqn:E2.
      cbn [fst snd] in Ho.
      intros p Hp a. specialize (Hp a). unfold nbox_insert in Hp. rewrite box_get_set in Hp.
      destruct (N.eqb_spec a a0) as [Heq|Hne]; [rewrite Heq in *; clear Heq|exact Hp].
      rewrite E2. unfold in_range, clamp_range in *; cbn [fst snd] in *.
      destruct (Z.leb_spec min1 min2).
      + inversion Ec; subst. lia.
      + destruct (Z.leb_spec max2 max1); [|discriminate]. inversion Ec; subst. lia.
  Qed.

End OntoSound.

Section OntoSpec.
  Variable U : Z.

  (* where `good` edges may touch the location (see Proofs.v) *)
  Variable lo_ok hi_ok : axis -> Z -> Prop.   (* the location may sit on a lower / upper edge of this value *)

  Definition good (p : point) (b : box) : Prop :=
    forall a, ((fst (box_get U b a) < p a)%Z \/ (fst (box_get U b a) = p a /\ lo_ok a (p a))) /\
              ((p a < snd (box_get U b a))%Z \/ (snd (box_get U b a) = p a /\ hi_ok a (p a))).

  Lemma good_in_box p b : good p b -> in_box U p b.
  Proof. intros H a. specialize (H a). unfold in_range. lia. Qed.

  Variables self other : box.
  Hypothesis Hself : wf_box U self.
  Hypothesis Hother : wf_box U other.

  (* 2. a location inside both boxes, touching their edges only in the allowed way, and
        not on a lower and an upper edge at once, is in the intersection *)
  Lemma overlay_onto_inter_complete p :
    good p self -> good p other ->
    (forall a, lo_ok a (p a) -> hi_ok a (p a) -> False) ->
    exists i orem, overlay_onto U self other = (Some i, orem) /\ good p i.
  Proof.
    intros Hgs Hgo Hex. unfold overlay_onto. fold (shared self other).
    destruct (inter_loop U self other (shared self other) (kv_extend [] (self ++ other))) as [inter|] eqn:El.
    - apply (inter_get U self other Hself Hother) in El as [Hwfi Hget].
      assert (Hg : good p inter).
      { intros a. specialize (Hgs a). specialize (Hgo a). rewrite Hget. unfold rinter; cbn [fst snd].
        split; [apply edge_lo_max; tauto|apply edge_hi_min; tauto]. }
      destruct (rem_loop U self other inter (map fst other) other _ _) as [[rem fi]|].
      + destruct fi; eexists; eexists; (split; [reflexivity|exact Hg]).
      + eexists; eexists; (split; [reflexivity|exact Hg]).
    - exfalso. apply inter_loop_none in El as [a [_ Hle]].
      specialize (Hgs a). specialize (Hgo a). specialize (Hex a).
      destruct (box_get U self a) as [l1 h1]. destruct (box_get U other a) as [l2 h2]. cbn [fst snd] in *.
      assert (Hlo : (Z.max l1 l2 < p a)%Z \/ (Z.max l1 l2 = p a /\ lo_ok a (p a))) by (apply edge_lo_max; tauto).
      assert (Hhi : (p a < Z.min h1 h2)%Z \/ (Z.min h1 h2 = p a /\ hi_ok a (p a))) by (apply edge_hi_min; tauto).
      destruct Hlo as [Hlo|[Hlo Hl]], Hhi as [Hhi|[Hhi Hh]]; try lia; try exact (Hex Hl Hh).
  Qed.

  (* 3. a location of `other` that is not in `self` stays in the remainder *)
  Lemma overlay_onto_rem_complete p oi orem :
    overlay_onto U self other = (oi, orem) ->
    good p other -> ~ in_box U p self ->
    exists r, orem = Some r /\ good p r.
  Proof.
    intros Hov Hgo Hns. pose proof (good_in_box _ _ Hgo) as Hpo.
    pose proof (in_box_dom U p other Hother Hpo) as Hd.
    revert Hov. unfold overlay_onto. fold (shared self other).
    destruct (inter_loop U self other (shared self other) (kv_extend [] (self ++ other))) as [inter|] eqn:El.
    2:{ intros H; inversion H; subst. exists other. split; [reflexivity|exact Hgo]. }
    apply (inter_get U self other Hself Hother) in El as [Hwfi Hget].
    rewrite (rem_loop_closed U self other inter).
    set (L := filter (ovl U self other inter) (map fst other)).
    fold (ext0 self other).
    (* on an axis self does not mention, or covers, the location is within self's range *)
    assert (Hfree : forall a, kv_mem self a = false -> in_range (box_get U self a) (p a)).
    { intros a Hm. apply kv_mem_false in Hm. unfold box_get. rewrite Hm. specialize (Hd a). unfold in_range, full_range; cbn [fst snd]. lia. }
    assert (Hcov : forall a, covers U other inter a = true -> in_range (box_get U self a) (p a)).
    { intros a Hc. apply (covers_spec U self other inter Hget) in Hc. specialize (Hpo a). unfold in_range in *. lia. }
    destruct L as [|a0 rest] eqn:EL.
    - destruct (ext0 self other) eqn:Ee; cbn [negb]; intros H; inversion H; subst.
      + exists other. split; [reflexivity|exact Hgo].
      + exfalso. apply Hns. intros a. destruct (kv_mem self a) eqn:Em; [|now apply Hfree].
        apply Hcov. apply (not_ovl_covers U self other inter); [|exact EL|exact Em].
        apply kv_mem_In. now apply (ext0_false self other).
    - destruct (ext0 self other) eqn:Ee.
      { intros H; inversion H; subst. exists other. split; [reflexivity|exact Hgo]. }
      destruct (cut U other inter a0) as [[lo hi]|] eqn:Ec.
      2:{ intros H; inversion H; subst. exists other. split; [reflexivity|exact Hgo]. }
      destruct rest.
      2:{ intros H; inversion H; subst. exists other. split; [reflexivity|exact Hgo]. }
      intros H; inversion H; subst. eexists. split; [reflexivity|].
      (* the location violates self on a0 and only there *)
      assert (Ha0 : ~ in_range (box_get U self a0) (p a0)).
      { intros Hin. apply Hns. intros a. destruct (N.eq_dec a a0) as [->|Hne]; [exact Hin|].
        destruct (kv_mem self a) eqn:Em; [|now apply Hfree].
        apply Hcov. apply (only_ovl_covers U self other inter a0); [|exact EL|exact Em|exact Hne].
        apply kv_mem_In. now apply (ext0_false self other). }
      pose proof (wf_get U other a0 Hother) as Ho. unfold wf_range in Ho.
      pose proof (wf_get U self a0 Hself) as Hs. unfold wf_range in Hs.
      intros a. unfold nbox_insert. rewrite box_get_set.
      destruct (N.eqb_spec a a0) as [->|Hne]; [|apply Hgo].
      specialize (Hgo a0). unfold cut in Ec. rewrite Hget in Ec. unfold rinter in Ec.
      destruct (box_get U self a0) as [l1 h1]. destruct (box_get U other a0) as [l2 h2].
      unfold in_range in Ha0. cbn [fst snd] in *. unfold clamp_range; cbn [fst snd].
      destruct Hgo as [G1 G2].
      assert (Hl2 : (l2 <= p a0)%Z) by (destruct G1 as [|[]]; lia).
      assert (Hh2 : (p a0 <= h2)%Z) by (destruct G2 as [|[]]; lia).
      destruct (Z.leb_spec (Z.max l1 l2) l2).
      + injection Ec as Elo Ehi; subst lo hi.
        replace (Z.max (Z.max (Z.min h1 h2) l2) (- U)) with (Z.max (Z.min h1 h2) l2) by lia.
        replace (Z.min h2 U) with h2 by lia.
        split; [apply edge_lo_max; [left; lia|exact G1]|exact G2].
      + destruct (Z.leb_spec h2 (Z.min h1 h2)); [|discriminate]. injection Ec as Elo Ehi; subst lo hi.
        replace (Z.max l2 (- U)) with l2 by lia.
        replace (Z.min (Z.min (Z.max l1 l2) h2) U) with (Z.min (Z.max l1 l2) h2) by lia.
        split; [exact G1|apply edge_hi_min; [left; lia|exact G2]].
  Qed.
End OntoSpec.
