(* C16 — when no condition of the source spells out the whole range of an axis, no two boxes of the
   overlay get the same ConditionSet. *)
From Coq Require Import List NArith ZArith Bool Lia Sorted Permutation.
From Coq Require Import ZifyBool ZifyN ZifyNat.
From FV.C16 Require Import Model ProofsBox ProofsShape ProofsRank ProofsOverlay ProofsFirst ProofsSubs ProofsPreflight
  ProofsPipeline ProofsStage2 ProofsFont.
Import ListNotations.

(* ---- the boxes of the map are pairwise different ------------------------------------------- *)
Lemma upsert_keys m b r :
  map fst (upsert_or m b r) = if existsb (box_eqb b) (map fst m) then map fst m else map fst m ++ [b].
Proof.
  induction m as [|[b' r'] t IH]; cbn [upsert_or map fst existsb]; [reflexivity|].
  destruct (box_eqb b b') eqn:E; cbn [orb map fst]; [reflexivity|].
  rewrite IH. destruct (existsb (box_eqb b) (map fst t)); reflexivity.
Qed.

Lemma NoDup_app_snoc {A} (l : list A) x : NoDup l -> ~ In x l -> NoDup (l ++ [x]).
Proof.
  induction l as [|y t IH]; cbn [app]; intros Hnd Hni; [constructor; [intros []|constructor]|].
  inversion Hnd as [|? ? Hy Ht]; subst. constructor.
  - intros Hin. apply in_app_or in Hin as [Hin|[<-|[]]]; [contradiction|]. apply Hni. now left.
  - apply IH; [exact Ht|]. intros Hin. apply Hni. now right.
Qed.

Lemma upsert_nodup m b r : NoDup (map fst m) -> NoDup (map fst (upsert_or m b r)).
Proof.
  intros H. rewrite upsert_keys. destruct (existsb (box_eqb b) (map fst m)) eqn:E; [exact H|].
  apply NoDup_app_snoc; [exact H|]. intros Hin.
  assert (existsb (box_eqb b) (map fst m) = true) by (apply existsb_exists; exists b; split; [exact Hin|now apply box_eqb_eq]).
  congruence.
Qed.

Lemma upserts_nodup l : forall m, NoDup (map fst m) -> NoDup (map fst (upserts l m)).
Proof. induction l as [|e t IH]; intros m H; cbn [upserts fold_left]; [exact H|]. apply IH. now apply upsert_nodup. Qed.

Lemma overlay_loop_nodup U rules : forall i m, NoDup (map fst m) -> NoDup (map fst (overlay_loop U rules i m)).
Proof.
  induction rules as [|[reg s] t IH]; intros i m H; cbn [overlay_loop]; [exact H|].
  destruct reg as [|c0 regt]; [now apply IH|].
  apply IH. rewrite overlay_step_upserts. apply upserts_nodup. cbn. constructor; [intros []|constructor].
Qed.

Lemma nodup_map_filter {A B} (f : A -> B) (g : A -> bool) l : NoDup (map f l) -> NoDup (map f (filter g l)).
Proof.
  induction l as [|x t IH]; cbn [map filter]; intros H; [constructor|]. inversion H as [|? ? Hni Hnd]; subst.
  destruct (g x); cbn [map]; [|now apply IH]. constructor; [|now apply IH].
  intros Hin. apply Hni. apply in_map_iff in Hin as [y [Hy Hin]]. apply filter_In in Hin as [Hin _].
  apply in_map_iff. now exists y.
Qed.

(* ---- where the entries of the boxes come from ---------------------------------------------- *)
Section Collision.
  Variable U : Z.
  Hypothesis HU : (0 < U)%Z.
  Variable rules : list rule.      (* the rules the overlay loop runs over *)
  Hypothesis Hwf : Forall (fun r => Forall (wf_box U) (fst r)) rules.
  (* input ranges are not beyond the designspace on either side *)
  Hypothesis Hbound : forall c a r, In c (all_boxes rules) -> In (a, r) c -> (fst r <= U /\ - U <= snd r)%Z.

  (* a range on axis a that is bounded and lies within a condition of the source on that axis *)
  Definition entry_from (a : axis) (r : range) : Prop :=
    (- U <= fst r <= U /\ - U <= snd r <= U)%Z /\
    exists c r0, In c (all_boxes rules) /\ In (a, r0) c /\ (fst r0 <= fst r /\ snd r <= snd r0)%Z.
  Definition box_from (b : box) : Prop := forall a r, In (a, r) b -> entry_from a r.

  Lemma input_box_from c : In c (all_boxes rules) -> wf_box U c -> box_from c.
  Proof.
    intros Hc Hw a r Hin. destruct (Hbound c a r Hc Hin) as [H1 H2].
    destruct Hw as [_ Hf]. rewrite Forall_forall in Hf. specialize (Hf _ Hin). unfold wf_range in Hf. cbn [snd] in Hf.
    split; [lia|]. exists c, r. repeat split; try assumption; lia.
  Qed.

  Lemma get_from b a : wf_box U b -> box_from b ->
    (kv_find b a = None /\ box_get U b a = full_range U) \/
    (exists r, kv_find b a = Some r /\ box_get U b a = r /\ entry_from a r).
  Proof.
    intros Hw Hb. unfold box_get. destruct (kv_find b a) as [r|] eqn:E; [right|left; tauto].
    exists r. split; [reflexivity|]. split; [reflexivity|]. apply Hb. now apply kv_find_In.
  Qed.

  Lemma onto_from self other oi orem :
    wf_box U self -> wf_box U other -> box_from self -> box_from other ->
    overlay_onto U self other = (oi, orem) ->
    (forall i, oi = Some i -> box_from i) /\ (forall r, orem = Some r -> box_from r).
  Proof.
    intros Hws Hwo Hfs Hfo Hov.
    destruct (overlay_onto_shape U self other Hws Hwo oi orem Hov) as [[-> ->]|[inter [-> [Hwi [Hget [Hkeys Hrem]]]]]].
    - split; [intros i Hi; discriminate|]. intros r Hr; inversion Hr; subst. exact Hfo.
    - assert (Hfi : box_from inter).
      { intros a r Hin. apply (kv_In_find _ _ _ (proj1 Hwi)) in Hin.
        assert (Hr : r = box_get U inter a) by (unfold box_get; now rewrite Hin). rewrite Hget in Hr.
        assert (Hm : kv_mem inter a = true) by (unfold kv_mem; now rewrite Hin).
        destruct (get_from self a Hws Hfs) as [[Ens Egs]|[rs [Ens [Egs [Hbs [cs [r0s [Hcs [Hins Hsub]]]]]]]]];
          destruct (get_from other a Hwo Hfo) as [[Eno Ego]|[ro [Eno [Ego [Hbo [co [r0o [Hco [Hino Hsubo]]]]]]]]];
          rewrite Egs, Ego in Hr; subst r; unfold entry_from, rinter, full_range; cbn [fst snd].
        - exfalso. destruct (Hkeys a Hm) as [H|H]; unfold kv_mem in H; [rewrite Ens in H|rewrite Eno in H]; discriminate.
        - split; [lia|]. exists co, r0o. repeat split; try assumption; lia.
        - split; [lia|]. exists cs, r0s. repeat split; try assumption; lia.
        - split; [lia|]. exists cs, r0s. repeat split; try assumption; lia. }
      split; [intros i Hi; inversion Hi; subst; exact Hfi|].
      intros r Hr. destruct Hrem as [->|[->|[a0 [lo [hi [Hmo [Hms [-> Hcut]]]]]]]]; [discriminate|inversion Hr; subst; exact Hfo|].
      inversion Hr; subst r. clear Hr.
      intros a r Hin.
      assert (Hwr : wf_box U (kv_set other a0 (lo, hi))).
      { apply wf_box_set; [exact Hwo|]. pose proof (wf_get U other a0 Hwo) as Ho. pose proof (wf_get U inter a0 Hwi) as Hi.
        unfold wf_range in *. cbn [fst snd]. lia. }
      apply (kv_In_find _ _ _ (proj1 Hwr)) in Hin.
      destruct (N.eq_dec a a0) as [->|Hne].
      + rewrite kv_find_set_same in Hin. inversion Hin; subst r. clear Hin.
        destruct (get_from other a0 Hwo Hfo) as [[Eno _]|[ro [Eno [Ego [Hbo [co [r0o [Hco [Hino Hsubo]]]]]]]]];
          [unfold kv_mem in Hmo; rewrite Eno in Hmo; discriminate|].
        pose proof (wf_get U inter a0 Hwi) as Hi. unfold wf_range in Hi.
        assert (Hii : (fst (box_get U inter a0) <= U /\ - U <= snd (box_get U inter a0))%Z).
        { rewrite Hget. destruct (get_from self a0 Hws Hfs) as [[Ens _]|[rs [Ens [Egs [Hbs _]]]]];
            [unfold kv_mem in Hms; rewrite Ens in Hms; discriminate|].
          rewrite Egs, Ego. unfold rinter; cbn [fst snd]. lia. }
        rewrite Ego in Hcut. unfold entry_from. cbn [fst snd].
        split; [lia|]. exists co, r0o. repeat split; try assumption; lia.
      + rewrite kv_find_set_other in Hin by exact Hne. apply Hfo. now apply kv_find_In.
  Qed.

  (* all boxes the loop ever holds are well formed and made of such entries *)
  Definition box_good (b : box) : Prop := wf_box U b /\ box_from b.

  Lemma step_boxes reg cr old :
    (forall c, In c reg -> In c (all_boxes rules) /\ wf_box U c) ->
    (forall e, In e old -> box_good (fst e)) ->
    forall e, In e (overlay_step U reg cr old) -> box_good (fst e).
  Proof.
    intros Hreg Hold. rewrite overlay_step_upserts. apply upserts_boxes.
    - intros e [<-|[]]. split; [apply wf_box_nil|intros a r []].
    - intros [b1 r1] Hin. unfold contribs in Hin. apply in_flat_map in Hin as [[b rk] [Hb Hin]].
      apply in_flat_map in Hin as [cb [Hcb Hin]]. cbn [fst snd] in *.
      destruct (Hold _ Hb) as [Hwb Hfb]. cbn [fst] in *. destruct (Hreg cb Hcb) as [Hall Hwc].
      unfold one_contrib in Hin. destruct (overlay_onto U cb b) as [oi orem] eqn:Eo.
      destruct (overlay_onto_sound U cb b Hwc Hwb oi orem Eo) as [HI HR].
      destruct (onto_from cb b oi orem Hwc Hwb (input_box_from cb Hall Hwc) Hfb Eo) as [FI FR].
      apply in_app_or in Hin as [Hin|Hin].
      + destruct oi as [ib|]; [|destruct Hin]. destruct Hin as [Heq|[]]. inversion Heq; subst.
        split; [apply (HI _ eq_refl)|apply (FI _ eq_refl)].
      + destruct orem as [rb|]; [|destruct Hin]. destruct Hin as [Heq|[]]. inversion Heq; subst.
        split; [apply (HR _ eq_refl)|apply (FR _ eq_refl)].
  Qed.

  Lemma loop_boxes : forall rest i m,
    incl rest rules -> (forall e, In e m -> box_good (fst e)) ->
    forall e, In e (overlay_loop U rest i m) -> box_good (fst e).
  Proof.
    induction rest as [|[reg s] t IH]; intros i m Hincl Hm e He; cbn [overlay_loop] in He; [now apply Hm|].
    destruct reg as [|c0 regt]; [apply (IH (S i) m); [intros x Hx; apply Hincl; now right|exact Hm|exact He]|].
    set (reg := c0 :: regt) in *.
    apply (IH (S i) (overlay_step U reg (rank_new i) m)); [intros x Hx; apply Hincl; now right| |exact He].
    apply step_boxes; [|exact Hm]. intros c Hc.
    assert (Hr : In (reg, s) rules) by (apply Hincl; now left).
    split; [unfold all_boxes; apply in_flat_map; now exists (reg, s)|].
    rewrite Forall_forall in Hwf. specialize (Hwf _ Hr). rewrite Forall_forall in Hwf. now apply Hwf.
  Qed.
End Collision.

(* ---- ConditionSets on the grid --------------------------------------------------------------- *)
Section Condsets.
  Variable env : axes_env.
  Hypothesis Henv : env_inj env.
  Variable rules : list rule.
  (* no condition of the source covers the whole normalized range of its axis *)
  Hypothesis Hcover : forall c a r0 ai, In c (all_boxes rules) -> In (a, r0) c -> In (a, ai) env ->
    ~ (fst r0 <= ax_minq ai /\ ax_maxq ai <= snd r0)%Z.

  Lemma sat_id v : (- UQ <= v <= UQ)%Z -> Z.max (-32768) (Z.min 32767 v) = v.
  Proof. unfold UQ. lia. Qed.

  Lemma tcs_cons a r t cs : entry_from UQ rules a r ->
    to_condition_set UQ env ((a, r) :: t) = Some cs ->
    exists ai rest, In (a, ai) env /\ to_condition_set UQ env t = Some rest /\ cs = (ax_index ai, r) :: rest.
  Proof.
    intros [[Hb1 Hb2] [c [r0 [Hc [Hin Hsub]]]]]. destruct r as [mn mx]. cbn [to_condition_set fst snd] in *.
    destruct (kv_find env a) as [ai|] eqn:Ea; [|discriminate]. destruct (to_condition_set UQ env t) as [rest|]; [|discriminate].
    apply kv_find_In in Ea. rewrite !f2dot14_grid, !sat_id by assumption.
    destruct (range_eqb (mn, mx) (ax_minq ai, ax_maxq ai)) eqn:E.
    - exfalso. apply range_eqb_eq in E. inversion E; subst. apply (Hcover c a r0 ai Hc Hin Ea). lia.
    - intros H; inversion H; subst. now exists ai, rest.
  Qed.

  Lemma tcs_inj : forall b1 b2 cs, box_from UQ rules b1 -> box_from UQ rules b2 ->
    to_condition_set UQ env b1 = Some cs -> to_condition_set UQ env b2 = Some cs -> b1 = b2.
  Proof.
    induction b1 as [|[a1 r1] t1 IH]; intros [|[a2 r2] t2] cs H1 H2 E1 E2.
    - reflexivity.
    - exfalso. cbn [to_condition_set] in E1. inversion E1; subst.
      destruct (tcs_cons a2 r2 t2 [] (H2 a2 r2 (or_introl eq_refl)) E2) as [ai [rest [_ [_ Hc]]]]. discriminate.
    - exfalso. cbn [to_condition_set] in E2. inversion E2; subst.
      destruct (tcs_cons a1 r1 t1 [] (H1 a1 r1 (or_introl eq_refl)) E1) as [ai [rest [_ [_ Hc]]]]. discriminate.
    - destruct (tcs_cons a1 r1 t1 cs (H1 a1 r1 (or_introl eq_refl)) E1) as [ai1 [rest1 [Hi1 [Et1 Hc1]]]].
      destruct (tcs_cons a2 r2 t2 cs (H2 a2 r2 (or_introl eq_refl)) E2) as [ai2 [rest2 [Hi2 [Et2 Hc2]]]].
      rewrite Hc1 in Hc2. inversion Hc2; subst.
      assert (a1 = a2) by (eapply Henv; eassumption). subst a2. f_equal.
      apply (IH t2 rest2); try assumption; intros a r Hin; [apply H1|apply H2]; now right.
  Qed.

  Lemma condsets_nodup : forall bs css, NoDup bs -> Forall (box_from UQ rules) bs ->
    map_opt (to_condition_set UQ env) bs = Some css -> NoDup css.
  Proof.
    induction bs as [|b t IH]; intros css Hnd Hf; cbn [map_opt].
    - intros H; inversion H; constructor.
    - destruct (to_condition_set UQ env b) as [cs|] eqn:Ecs; [|discriminate].
      destruct (map_opt (to_condition_set UQ env) t) as [css'|] eqn:Et; [|discriminate].
      intros H; inversion H; subst. inversion Hnd as [|? ? Hni Hnd']; subst. inversion Hf as [|? ? Hfb Hft]; subst.
      constructor; [|now apply IH].
      intros Hin. apply Hni.
      (* some later box has the same ConditionSet, hence is the same box *)
      assert (G : forall l r, map_opt (to_condition_set UQ env) l = Some r -> In cs r ->
                  exists b', In b' l /\ to_condition_set UQ env b' = Some cs).
      { clear. induction l as [|x l IHl]; intros r; cbn [map_opt].
        - intros H; inversion H; intros [].
        - destruct (to_condition_set UQ env x) as [cx|] eqn:Ex; [|discriminate].
          destruct (map_opt (to_condition_set UQ env) l) as [r'|]; [|discriminate].
          intros H; inversion H; subst. intros [<-|Hin]; [exists x; split; [now left|exact Ex]|].
          destruct (IHl r' eq_refl Hin) as [b' [Hb' Hc']]. exists b'. split; [now right|exact Hc']. }
      destruct (G t css' Et Hin) as [b' [Hb' Hc']].
      rewrite Forall_forall in Hft. rewrite (tcs_inj b b' cs Hfb (Hft _ Hb') Ecs Hc'). exact Hb'.
  Qed.
End Condsets.

(* ---- assembled: a source-level condition that excludes ConditionSet collisions ---------------- *)
Lemma map_opt_map {A B C} (f : B -> option C) (g : A -> B) l : map_opt (fun x => f (g x)) l = map_opt f (map g l).
Proof. induction l as [|x t IH]; cbn [map_opt map]; [reflexivity|]. now rewrite IH. Qed.

Section NoCollision.
  Variable env : axes_env.
  Variable rules : list rule.
  Hypothesis Hwf : rules_wf UQ rules.
  Hypothesis Henv : env_inj env.
  Hypothesis Hbound : forall c a r, In c (all_boxes rules) -> In (a, r) c -> (fst r <= UQ /\ - UQ <= snd r)%Z.
  Hypothesis Hcover : forall c a r0 ai, In c (all_boxes rules) -> In (a, r0) c -> In (a, ai) env ->
    r0 <> full_range UQ -> ~ (fst r0 <= ax_minq ai /\ ax_maxq ai <= snd r0)%Z.

  Let rules2 := preflight UQ rules.

  Lemma cleanup_entry c a r : In (a, r) (box_cleanup UQ c) -> In (a, r) c /\ r <> full_range UQ.
  Proof.
    unfold box_cleanup. intros H. apply filter_In in H as [H1 H2]. split; [exact H1|]. cbn [snd] in H2.
    intros ->. destruct (range_eqb (full_range UQ) (full_range UQ)) eqn:E; [discriminate|].
    assert (range_eqb (full_range UQ) (full_range UQ) = true) by now apply range_eqb_eq. congruence.
  Qed.

  Theorem no_collision_source : no_collision UQ env rules.
  Proof.
    intros items css Hov Hcs. unfold overlay_feature_variations in Hov. fold rules2 in Hov.
    pose proof (rules2_wf UQ rules Hwf) as Hwf2. fold rules2 in Hwf2.
    rewrite (overlay_merged_ok UQ rules2 Hwf2) in Hov. inversion Hov; subst items. clear Hov.
    rewrite map_opt_map in Hcs. rewrite map_map in Hcs. cbn [item_of fst] in Hcs.
    set (final := overlay_loop UQ rules2 0 init_map) in *.
    set (sorted := sort_by_ones final) in *.
    assert (Hperm : Permutation sorted final).
    { unfold sorted, sort_by_ones. apply (stable_sort_perm_d (fun e : box * rank => count_ones (snd e))). }
    (* boxes pairwise different *)
    assert (Hnd : NoDup (map fst (filter (nonzero) sorted))).
    { apply nodup_map_filter. apply (Permutation_NoDup (l := map fst final)); [apply Permutation_map, Permutation_sym, Hperm|].
      apply overlay_loop_nodup. cbn. constructor; [intros []|constructor]. }
    (* boxes made of bounded sub-ranges of the source conditions *)
    assert (Hb2 : forall c a r, In c (all_boxes rules2) -> In (a, r) c -> (fst r <= UQ /\ - UQ <= snd r)%Z).
    { intros c' a r Hc Hin. unfold all_boxes in Hc. apply in_flat_map in Hc as [r2 [Hr2 Hc]].
      destruct (rules2_box UQ rules Hwf r2 c' Hr2 Hc) as [c [-> [_ Hall]]].
      apply cleanup_entry in Hin as [Hin _]. now apply (Hbound c a r). }
    assert (Hc2 : forall c a r0 ai, In c (all_boxes rules2) -> In (a, r0) c -> In (a, ai) env ->
              ~ (fst r0 <= ax_minq ai /\ ax_maxq ai <= snd r0)%Z).
    { intros c' a r0 ai Hc Hin Hai. unfold all_boxes in Hc. apply in_flat_map in Hc as [r2 [Hr2 Hc]].
      destruct (rules2_box UQ rules Hwf r2 c' Hr2 Hc) as [c [-> [_ Hall]]].
      apply cleanup_entry in Hin as [Hin Hnf]. now apply (Hcover c a r0 ai). }
    assert (Hgood : forall e, In e final -> box_good UQ rules2 (fst e)).
    { apply (loop_boxes UQ eq_refl rules2 Hwf2 Hb2 rules2 0%nat init_map); [apply incl_refl|].
      intros e [<-|[]]. split; [apply wf_box_nil|intros a r []]. }
    apply (condsets_nodup env Henv rules2 Hc2 (map fst (filter nonzero sorted)) css Hnd); [|exact Hcs].
    rewrite Forall_forall. intros b Hb. apply in_map_iff in Hb as [e [<- He]]. apply filter_In in He as [He _].
    apply (Permutation_in _ Hperm) in He. exact (proj2 (Hgood e He)).
  Qed.
End NoCollision.
