(* C16 — the entries of the boxes overlay_onto returns (used for the ConditionSet collision theorem). *)
From Coq Require Import List NArith ZArith Bool Lia Sorted Permutation.
From Coq Require Import ZifyBool ZifyN ZifyNat.
From FV.C16 Require Import Model ProofsBox.
Import ListNotations.

Lemma kv_mem_set {V} (m : list (N * V)) k v k2 : kv_mem (kv_set m k v) k2 = (k2 =? k)%N || kv_mem m k2.
Proof.
  unfold kv_mem. destruct (N.eqb_spec k2 k) as [->|Hne].
  - now rewrite kv_find_set_same.
  - now rewrite kv_find_set_other.
Qed.

Lemma kv_mem_extend_nil {V} (l : list (N * V)) k : kv_mem (kv_extend [] l) k = true -> In k (map fst l).
Proof.
  unfold kv_mem. rewrite kv_find_extend. cbn [kv_find].
  destruct (kv_find (rev l) k) as [v|] eqn:E; [|discriminate]. intros _.
  apply kv_find_In, in_rev in E. apply in_map_iff. now exists (k, v).
Qed.

Section Shape.
  Variable U : Z.
  Variables self other : box.
  Hypothesis Hself : wf_box U self.
  Hypothesis Hother : wf_box U other.

  Lemma inter_loop_keys axes : forall inter inter',
    inter_loop U self other axes inter = Some inter' ->
    forall a, kv_mem inter' a = true -> kv_mem inter a = true \/ In a axes.
  Proof.
    induction axes as [|a0 t IH]; intros inter inter'; cbn [inter_loop].
    - intros H; inversion H; subst. tauto.
    - destruct (box_get U self a0) as [min1 max1]. destruct (box_get U other a0) as [min2 max2].
      destruct (Z.min max1 max2 <=? Z.max min1 min2)%Z; [discriminate|].
      intros H a Ha. destruct (IH _ _ H a Ha) as [Hm|Hin]; [|right; now right].
      unfold nbox_insert in Hm. rewrite kv_mem_set in Hm. apply orb_true_iff in Hm as [Hm|Hm]; [|now left].
      apply N.eqb_eq in Hm. subst a. right. now left.
  Qed.

  (* everything overlay_onto can return *)
  Lemma overlay_onto_shape oi orem :
    overlay_onto U self other = (oi, orem) ->
    (oi = None /\ orem = Some other) \/
    exists inter, oi = Some inter /\ wf_box U inter /\
      (forall a, box_get U inter a = rinter (box_get U self a) (box_get U other a)) /\
      (forall a, kv_mem inter a = true -> kv_mem self a = true \/ kv_mem other a = true) /\
      (orem = None \/ orem = Some other \/
       exists a0 lo hi, kv_mem other a0 = true /\ kv_mem self a0 = true /\ orem = Some (kv_set other a0 (lo, hi)) /\
         ((fst (box_get U inter a0) <= fst (box_get U other a0) /\
           lo = Z.max (snd (box_get U inter a0)) (fst (box_get U other a0)) /\ hi = snd (box_get U other a0)) \/
          (snd (box_get U other a0) <= snd (box_get U inter a0) /\
           lo = fst (box_get U other a0) /\ hi = Z.min (fst (box_get U inter a0)) (snd (box_get U other a0))))%Z).
  Proof.
    unfold overlay_onto. fold (shared self other).
    destruct (inter_loop U self other (shared self other) (kv_extend [] (self ++ other))) as [inter|] eqn:El.
    2:{ intros H; inversion H; subst. now left. }
    pose proof (inter_loop_keys _ _ _ El) as Hkeys.
    apply (inter_get U self other Hself Hother) in El as [Hwfi Hget].
    rewrite (rem_loop_closed U self other inter).
    assert (Hk : forall a, kv_mem inter a = true -> kv_mem self a = true \/ kv_mem other a = true).
    { intros a Ha. destruct (Hkeys a Ha) as [H|H].
      - apply kv_mem_extend_nil in H. rewrite map_app in H. apply in_app_or in H as [H|H]; [left|right]; now apply kv_mem_In.
      - apply shared_In in H. tauto. }
    intros H. right. exists inter.
    assert (Hbase : forall x, (Some inter, x) = (oi, orem) -> oi = Some inter /\ orem = x) by (intros x Hx; inversion Hx; tauto).
    destruct (filter (ovl U self other inter) (map fst other)) as [|a0 rest] eqn:EL.
    - destruct (negb (existsb (fun a => negb (kv_mem other a)) (map fst self))); apply Hbase in H as [-> ->]; (split; [reflexivity|]); (split; [exact Hwfi|]); (split; [exact Hget|]); (split; [exact Hk|]); first [left; reflexivity|right; left; reflexivity].
    - destruct (existsb (fun a => negb (kv_mem other a)) (map fst self)).
      { apply Hbase in H as [-> ->]; (split; [reflexivity|]); (split; [exact Hwfi|]); (split; [exact Hget|]); (split; [exact Hk|]); first [left; reflexivity|right; left; reflexivity]. }
      destruct (cut U other inter a0) as [[lo hi]|] eqn:Ec.
      2:{ apply Hbase in H as [-> ->]; (split; [reflexivity|]); (split; [exact Hwfi|]); (split; [exact Hget|]); (split; [exact Hk|]); first [left; reflexivity|right; left; reflexivity]. }
      destruct rest.
      2:{ apply Hbase in H as [-> ->]; (split; [reflexivity|]); (split; [exact Hwfi|]); (split; [exact Hget|]); (split; [exact Hk|]); first [left; reflexivity|right; left; reflexivity]. }
      apply Hbase in H as [-> ->]. split; [reflexivity|]. split; [exact Hwfi|]. split; [exact Hget|]. split; [exact Hk|]. right. right.
      assert (Hin : In a0 (filter (ovl U self other inter) (map fst other))) by (rewrite EL; now left).
      apply filter_In in Hin as [Hin Hov]. unfold ovl in Hov. apply andb_true_iff in Hov as [Hms _].
      pose proof (wf_get U other a0 Hother) as Ho. unfold wf_range in Ho.
      unfold cut in Ec. destruct (box_get U inter a0) as [min1 max1] eqn:E1. destruct (box_get U other a0) as [min2 max2] eqn:E2.
      cbn [fst snd] in *.
      destruct (Z.leb_spec min1 min2).
      + injection Ec as Elo Ehi; subst lo hi. exists a0, (Z.max max1 min2), max2. split; [now apply kv_mem_In|]. split; [exact Hms|]. split.
        * unfold nbox_insert. rewrite clamp_id by lia. reflexivity.
        * left. rewrite E1, E2. cbn [fst snd]. lia.
      + destruct (Z.leb_spec max2 max1); [|discriminate]. injection Ec as Elo Ehi; subst lo hi.
        exists a0, min2, (Z.min min1 max2). split; [now apply kv_mem_In|]. split; [exact Hms|]. split.
        * unfold nbox_insert. rewrite clamp_id by lia. reflexivity.
        * right. rewrite E1, E2. cbn [fst snd]. lia.
  Qed.
End Shape.
