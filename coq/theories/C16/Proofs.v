(* C16 — all lemmas (see the Proofs*.v files) and the counterexamples, re-exported. *)
From FV.C16 Require Export Model ProofsBox ProofsRank ProofsOverlay ProofsFirst ProofsSubs ProofsPreflight
  ProofsPipeline ProofsStage2 ProofsFont ProofsShape ProofsCollision ProofsConditions ProofsCheck Refuted.
