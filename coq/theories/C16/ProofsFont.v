(* C16 — the compiled table, read the way a shaper reads it, applies what the rules say. *)
From Coq Require Import List NArith ZArith Bool Lia Sorted Permutation.
From Coq Require Import ZifyBool ZifyN ZifyNat.
From FV.C16 Require Import Model ProofsBox ProofsRank ProofsOverlay ProofsFirst ProofsSubs ProofsPreflight
  ProofsPipeline ProofsStage2.
Import ListNotations.

(* no two boxes of the overlay end up with the same ConditionSet *)
Definition no_collision (U : Z) (env : axes_env) (rules : list rule) : Prop :=
  forall items css, overlay_feature_variations U rules = Ok items ->
    map_opt (fun it => to_condition_set U env (fst it)) items = Some css -> NoDup css.

Lemma select_lookups_In' lookups maps idx m :
  (forall i, In i idx <-> exists s, In s maps /\ lookup_index lookups s 0%N = Some i) ->
  (forall s, In s maps -> exists i, lookup_index lookups s 0%N = Some i) ->
  In m (select_lookups lookups idx) <-> In m maps.
Proof.
  intros Hidx Hall. unfold select_lookups. rewrite in_flat_map. split.
  - intros [i [Hi Hm]]. rewrite dedup_N_In, sort_N_In in Hi. apply Hidx in Hi as [s [Hs Hl]].
    apply lookup_index_spec in Hl as [_ Hn]. rewrite N.sub_0_r in Hn. rewrite Hn in Hm. destruct Hm as [<-|[]]. exact Hs.
  - intros Hm. destruct (Hall m Hm) as [i Hl]. exists i. split.
    + rewrite dedup_N_In, sort_N_In. apply Hidx. now exists m.
    + apply lookup_index_spec in Hl as [_ Hn]. rewrite N.sub_0_r in Hn. rewrite Hn. now left.
Qed.

Section Font.
  Variable env : axes_env.
  Variable rules : list rule.
  Hypothesis Hwf : rules_wf UQ rules.
  Hypothesis Henv : env_inj env.
  Hypothesis Hnocoll : no_collision UQ env rules.

  Variable p : point.
  Hypothesis Hd : in_dom UQ p.
  Hypothesis Hax : in_axes env p.
  Hypothesis Hexcl : forall a, lo_edge UQ rules a (p a) -> hi_edge UQ rules a (p a) -> False.
  Hypothesis Hcompat : compatible (active_maps rules p).

  Definition cond_of (lookups : list submap) (it : box * list submap) : option (condset * list N) :=
    match to_condition_set UQ env (fst it), map_opt (fun s => lookup_index lookups s 0%N) (snd it) with
    | Some cs, Some idx => Some (cs, sort_N idx)
    | _, _ => None
    end.

  (* the record chosen at the location belongs to the first box containing it *)
  Lemma select_matches lookups : forall items conds,
    Forall (fun it => wf_box UQ (fst it)) items ->
    Forall2 (fun it c => cond_of lookups it = Some c) items conds ->
    match first_match items p, select_record conds (qpoint_of env p) with
    | Some maps, Some sidx =>
        exists idx, map_opt (fun s => lookup_index lookups s 0%N) maps = Some idx /\ sidx = sort_N idx
    | None, None => True
    | _, _ => False
    end.
  Proof.
    intros items conds Hw HF. induction HF as [|it c items' conds' Hc HF' IH].
    - exact I.
    - inversion Hw as [|? ? Hwi Hw']; subst. specialize (IH Hw').
      unfold first_match, select_record in *. cbn [find].
      unfold cond_of in Hc. destruct (to_condition_set UQ env (fst it)) as [cs|] eqn:Ecs; [|discriminate].
      destruct (map_opt (fun s => lookup_index lookups s 0%N) (snd it)) as [idx|] eqn:Eidx; [|discriminate].
      inversion Hc; subst c. cbn [fst snd].
      rewrite (to_condition_set_holds env p Henv Hax Hd (fst it) cs Hwi Ecs).
      destruct (in_boxb p (fst it)); [|exact IH].
      exists idx. split; [exact Eidx|reflexivity].
  Qed.

  Lemma conds_keys lookups : forall items conds,
    Forall2 (fun it c => cond_of lookups it = Some c) items conds ->
    map_opt (fun it => to_condition_set UQ env (fst it)) items = Some (map fst conds).
  Proof.
    intros items conds HF. induction HF as [|it c items' conds' Hc HF' IH]; [reflexivity|].
    cbn [map_opt map]. rewrite IH. unfold cond_of in Hc.
    destruct (to_condition_set UQ env (fst it)) as [cs|]; [|discriminate].
    destruct (map_opt _ (snd it)); [|discriminate]. now inversion Hc.
  Qed.

  Theorem font_correct f :
    compile_rules UQ env rules = Ok f ->
    forall g, font_apply f (qpoint_of env p) g = spec_apply rules p g.
  Proof.
    intros Hcomp g.
    destruct (overlay_first_match UQ rules Hwf p Hd Hexcl) as [items [Hov Hfm]].
    destruct (overlay_correct UQ rules Hwf p Hd Hexcl Hcompat) as [items' [Hov' Hspec]].
    rewrite Hov in Hov'. inversion Hov'; subst items'. clear Hov'.
    rewrite <- Hspec. clear Hspec.
    unfold compile_rules in Hcomp. rewrite Hov in Hcomp.
    destruct (provider_conditions UQ env (make_lookups items) items) as [conds|] eqn:Epc; [|discriminate].
    inversion Hcomp; subst f. clear Hcomp.
    unfold font_apply. cbn [fv_records fv_lookups].
    set (lookups := make_lookups items) in *.
    assert (HF : Forall2 (fun it c => cond_of lookups it = Some c) items conds).
    { unfold provider_conditions in Epc. apply map_opt_Forall2 in Epc. exact Epc. }
    assert (Hnd : NoDup (map fst conds)) by (apply (Hnocoll items _ Hov), (conds_keys lookups items conds HF)).
    rewrite (build_records_nodup conds Hnd).
    pose proof (select_matches lookups items conds (overlay_items_wf UQ rules Hwf items Hov) HF) as Hsel.
    destruct (first_match items p) as [maps|] eqn:Efm; destruct (select_record conds (qpoint_of env p)) as [sidx|] eqn:Esel;
      try contradiction; [|reflexivity].
    destruct Hsel as [idx [Hidx ->]].
    change (apply_seq (select_lookups lookups (sort_N idx)) g = apply_seq maps g).
    (* the maps of the box are the merged rules firing at the location: they are compatible *)
    assert (Hmaps : maps = active_maps (preflight UQ rules) p).
    { destruct (active_maps (preflight UQ rules) p); [discriminate|inversion Hfm; reflexivity]. }
    assert (Hcm : compatible maps).
    { rewrite Hmaps. eapply compatible_ext; [|exact Hcompat]. intros g' x'. symmetry.
      apply (preflight_binds UQ rules Hwf p Hd Hcompat). }
    symmetry. apply apply_seq_ext; [|exact Hcm].
    apply map_opt_Forall2 in Hidx.
    assert (Hin : forall m, In m (select_lookups lookups (sort_N idx)) <-> In m maps).
    { intros m. apply select_lookups_In'.
      - intros i. rewrite sort_N_In. clear -Hidx. induction Hidx as [|s j ms js Hsj HF IH]; cbn [In].
        + split; [intros []|intros [s [[] _]]].
        + rewrite IH. split.
          * intros [<-|[s' [Hs' Hl']]]; [exists s; split; [now left|exact Hsj]|exists s'; split; [now right|exact Hl']].
          * intros [s' [[<-|Hs'] Hl']]; [left; congruence|right; now exists s'].
      - intros s Hs. clear -Hidx Hs. induction Hidx as [|s' j ms js Hsj HF IH]; [destruct Hs|].
        destruct Hs as [<-|Hs]; [now exists j|now apply IH]. }
    intros g' x'. unfold binds. split; intros [m [Hm Hf]]; exists m; (split; [now apply Hin|exact Hf]).
  Qed.
End Font.
