(* C16 — from the conditions of one condition set to an NBox (FeatureVariationsProvider::new): the
   box holds exactly where all the conditions hold, also when an axis occurs more than once. *)
From Coq Require Import List NArith ZArith Bool Lia Sorted.
From Coq Require Import ZifyBool ZifyN ZifyNat.
From FV.C16 Require Import Model ProofsBox.
Import ListNotations.

Definition orange := (option Z * option Z)%type.
(* a source condition: the bounds that are present must hold (closed) *)
Definition holds_opt (r : orange) (x : Z) : Prop :=
  (forall v, fst r = Some v -> (v <= x)%Z) /\ (forall v, snd r = Some v -> (x <= v)%Z).
Definition cond_holds (p : point) (e : axis * orange) : Prop := holds_opt (snd e) (p (fst e)).

Lemma holds_opt_merge (a b : orange) x :
  holds_opt (opt_max_lo (fst a) (fst b), opt_min_hi (snd a) (snd b)) x <-> holds_opt a x /\ holds_opt b x.
Proof.
  destruct a as [[a1|] [a2|]], b as [[b1|] [b2|]]; unfold holds_opt; cbn [fst snd opt_max_lo opt_min_hi];
    (split; [intros [H1 H2]; repeat split; intros v Hv; inversion Hv; subst;
             try (specialize (H1 _ eq_refl)); try (specialize (H2 _ eq_refl)); lia
            |intros [[H1 H2] [H3 H4]]; split; intros v Hv; inversion Hv; subst;
             try (specialize (H1 _ eq_refl)); try (specialize (H2 _ eq_refl));
             try (specialize (H3 _ eq_refl)); try (specialize (H4 _ eq_refl)); lia]).
Qed.

Lemma holds_opt_none x : holds_opt (None, None) x.
Proof. split; intros v Hv; discriminate. Qed.

Definition find_or_none (g : list (axis * orange)) (a : axis) : orange :=
  match kv_find g a with Some r => r | None => (None, None) end.

Lemma gather_fold l : forall acc a x, keys_sorted acc ->
  let g := fold_left (fun acc e =>
                 match kv_find acc (fst e) with
                 | Some cur => kv_set acc (fst e) (opt_max_lo (fst cur) (fst (snd e)), opt_min_hi (snd cur) (snd (snd e)))
                 | None => kv_set acc (fst e) (snd e)
                 end) l acc in
  keys_sorted g /\
  (holds_opt (find_or_none g a) x <-> holds_opt (find_or_none acc a) x /\ Forall (fun e => fst e = a -> holds_opt (snd e) x) l).
Proof.
  induction l as [|[a0 r0] t IH]; intros acc a x Hs; cbn [fold_left fst snd]; cbv zeta.
  - split; [exact Hs|]. split; [intros H; split; [exact H|constructor]|intros [H _]; exact H].
  - set (acc' := match kv_find acc a0 with
                 | Some cur => kv_set acc a0 (opt_max_lo (fst cur) (fst r0), opt_min_hi (snd cur) (snd r0))
                 | None => kv_set acc a0 r0 end).
    assert (Hs' : keys_sorted acc') by (unfold acc'; destruct (kv_find acc a0); now apply kv_set_sorted).
    destruct (IH acc' a x Hs') as [Hg Hiff]. cbv zeta in Hg, Hiff. fold acc'. split; [exact Hg|]. rewrite Hiff.
    assert (Hstep : holds_opt (find_or_none acc' a) x <-> holds_opt (find_or_none acc a) x /\ (a0 = a -> holds_opt r0 x)).
    { unfold acc', find_or_none, orange, axis in *. destruct (N.eq_dec a a0) as [->|Hne].
      - destruct (kv_find acc a0) as [cur|] eqn:E.
        + rewrite kv_find_set_same. rewrite holds_opt_merge. intuition.
        + rewrite kv_find_set_same. pose proof (holds_opt_none x). intuition.
      - destruct (kv_find acc a0) as [cur|] eqn:E; rewrite kv_find_set_other by exact Hne;
          (split; [intros H; split; [exact H|intros Hc; congruence]|tauto]). }
    rewrite Hstep. split.
    + intros [[H1 H2] H3]. split; [exact H1|]. constructor; [exact H2|exact H3].
    + intros [H1 H2]. inversion H2; subst. tauto.
Qed.

Definition clamp_entry (U : Z) (e : axis * orange) : axis * range := (fst e, clamp_range U (fst (snd e)) (snd (snd e))).

Lemma mk_box_as_extend U l : mk_box U l = kv_extend [] (map (clamp_entry U) l).
Proof.
  unfold mk_box, kv_extend, nbox_insert.
  assert (G : forall (acc : box),
    fold_left (fun (b : box) (e : axis * (option Z * option Z)) => kv_set b (fst e) (clamp_range U (fst (snd e)) (snd (snd e)))) l acc =
    fold_left (fun (acc : box) (e : axis * range) => kv_set acc (fst e) (snd e)) (map (clamp_entry U) l) acc).
  { induction l as [|e t IH]; intros acc; cbn [fold_left map clamp_entry fst snd]; [reflexivity|apply IH]. }
  apply G.
Qed.

Lemma mk_box_get U l a : keys_sorted l ->
  box_get U (mk_box U l) a = match kv_find l a with Some r => clamp_range U (fst r) (snd r) | None => full_range U end.
Proof.
  intros Hs. unfold box_get. rewrite mk_box_as_extend, kv_find_extend. cbn [kv_find].
  assert (Hs' : keys_sorted (map (clamp_entry U) l)).
  { unfold keys_sorted in *. rewrite map_map. cbn [clamp_entry fst]. exact Hs. }
  rewrite (kv_find_rev (map (clamp_entry U) l) a Hs').
  clear. induction l as [|[k r] t IH]; cbn [map kv_find clamp_entry fst snd]; [reflexivity|].
  destruct (a =? k)%N; [reflexivity|exact IH].
Qed.

(* the theorem *)
Lemma box_of_conditions_conjunction U l p : in_dom U p ->
  in_box U p (box_of_conditions U l) <-> Forall (cond_holds p) l.
Proof.
  intros Hd. unfold box_of_conditions.
  set (g := gather_conditions l).
  assert (Hg : forall a, keys_sorted g /\
             (holds_opt (find_or_none g a) (p a) <-> Forall (fun e => fst e = a -> holds_opt (snd e) (p a)) l)).
  { intros a. unfold g, gather_conditions. destruct (gather_fold l [] a (p a) ltac:(constructor)) as [H1 H2]. split; [exact H1|].
    rewrite H2. split; [intros [_ H]; exact H|intros H; split; [exact (holds_opt_none (p a))|exact H]]. }
  assert (Hget : forall a, in_range (box_get U (mk_box U g) a) (p a) <-> holds_opt (find_or_none g a) (p a)).
  { intros a. rewrite (mk_box_get U g a (proj1 (Hg a))). specialize (Hd a).
    assert (E : forall o : option orange,
              in_range (match o with Some r => clamp_range U (fst r) (snd r) | None => full_range U end) (p a) <->
              holds_opt (match o with Some r => r | None => (None, None) end) (p a)).
    { intros [[omin omax]|].
      - unfold in_range, clamp_range, holds_opt. cbn [fst snd]. destruct omin as [mn|], omax as [mx|]; split.
        all: try (intros H; split; intros v Hv; inversion Hv; subst; lia).
        all: try (intros [H1 H2]; try (specialize (H1 _ eq_refl)); try (specialize (H2 _ eq_refl)); lia).
      - unfold in_range, full_range. cbn [fst snd]. pose proof (holds_opt_none (p a)). split; [tauto|lia]. }
    exact (E (kv_find g a)). }
  unfold in_box. split.
  - intros H. rewrite Forall_forall. intros [a r] Hin. unfold cond_holds. cbn [fst snd].
    specialize (H a). apply Hget in H. apply (proj2 (Hg a)) in H. rewrite Forall_forall in H. now apply (H (a, r) Hin).
  - intros H a. apply Hget. apply (proj2 (Hg a)). rewrite Forall_forall in *. intros [a' r] Hin Heq. cbn [fst snd] in *. subst a'.
    exact (H (a, r) Hin).
Qed.

Lemma box_of_conditions_wf U l : wf_box U (box_of_conditions U l).
Proof. apply wf_mk_box. Qed.
