(* C16 — applying substitution maps one after the other; when the order does not matter. *)
From Coq Require Import List NArith ZArith Bool Lia Sorted Permutation.
From Coq Require Import ZifyBool ZifyN ZifyNat.
From FV.C16 Require Import Model ProofsBox.
Import ListNotations.

(* (g, x) is a substitution of one of the maps *)
Definition binds (L : list submap) (g x : glyph) : Prop := exists m, In m L /\ kv_find m g = Some x.

(* the maps do not interfere: a glyph is never given two different replacements, and
   no replacement is itself replaced *)
Definition compatible (L : list submap) : Prop :=
  forall g x, binds L g x -> (forall y, binds L g y -> y = x) /\ (x <> g -> forall z, ~ binds L x z).

Lemma compatible_tail m L : compatible (m :: L) -> compatible L.
Proof.
  intros H g x [m' [Hm' Hf]]. assert (Hb : binds (m :: L) g x) by (exists m'; split; [now right|exact Hf]).
  destruct (H g x Hb) as [H1 H2]. split.
  - intros y [m2 [Hm2 Hf2]]. apply H1. exists m2. split; [now right|exact Hf2].
  - intros Hne z [m2 [Hm2 Hf2]]. apply (H2 Hne z). exists m2. split; [now right|exact Hf2].
Qed.

Lemma apply_seq_unbound L g : (forall x, ~ binds L g x) -> apply_seq L g = g.
Proof.
  revert g. induction L as [|m t IH]; intros g H; cbn [apply_seq fold_left]; [reflexivity|].
  unfold sub_apply. destruct (kv_find m g) as [x|] eqn:E.
  - exfalso. apply (H x). exists m. split; [now left|exact E].
  - apply IH. intros x [m' [Hm' Hf]]. apply (H x). exists m'. split; [now right|exact Hf].
Qed.

Lemma classic_binds L g : (exists z, binds L g z) \/ (forall x, ~ binds L g x).
Proof.
  induction L as [|m t IH].
  - right. intros x [m [[] _]].
  - destruct (kv_find m g) as [z|] eqn:E.
    + left. exists z, m. split; [now left|exact E].
    + destruct IH as [[z [m' [Hm' Hf]]]|Hnone].
      * left. exists z, m'. split; [now right|exact Hf].
      * right. intros x [m' [[<-|Hm'] Hf]]; [congruence|]. apply (Hnone x). exists m'. split; assumption.
Qed.

(* with compatible maps, applying them in sequence is looking the glyph up in their union *)
Lemma apply_seq_bound L g x : compatible L -> binds L g x -> apply_seq L g = x.
Proof.
  revert g x. induction L as [|m t IH]; intros g x Hc Hb; [destruct Hb as [m [[] _]]|].
  change (apply_seq (m :: t) g) with (apply_seq t (sub_apply m g)).
  unfold sub_apply. destruct (kv_find m g) as [y|] eqn:E.
  - assert (Hy : binds (m :: t) g y) by (exists m; split; [now left|exact E]).
    destruct (Hc g x Hb) as [Hu _]. specialize (Hu y Hy). subst y.
    destruct (N.eq_dec x g) as [->|Hne].
    + (* identity substitution: later maps may only repeat it *)
      destruct (classic_binds t g) as [[z Hz]|Hnone].
      * assert (Hz' : binds (m :: t) g z) by (destruct Hz as [m' [? ?]]; exists m'; split; [now right|assumption]).
        destruct (Hc g g Hb) as [Hu' _]. specialize (Hu' z Hz'). subst z.
        apply IH; [eapply compatible_tail; exact Hc|exact Hz].
      * now apply apply_seq_unbound.
    + apply apply_seq_unbound. intros z [m' [Hm' Hf]]. destruct (Hc g x Hb) as [_ Hch].
      apply (Hch Hne z). exists m'. split; [now right|exact Hf].
  - destruct Hb as [m' [[<-|Hm'] Hf]]; [congruence|].
    apply IH; [eapply compatible_tail; exact Hc|]. exists m'. split; assumption.
Qed.

(* two lists of maps with the same substitutions, one of them compatible, act the same *)
Lemma compatible_ext L1 L2 : (forall g x, binds L1 g x <-> binds L2 g x) -> compatible L1 -> compatible L2.
Proof.
  intros He Hc g x Hb. apply He in Hb. destruct (Hc g x Hb) as [H1 H2]. split.
  - intros y Hy. apply H1. now apply He.
  - intros Hne z Hz. apply (H2 Hne z). now apply He.
Qed.

Lemma apply_seq_ext L1 L2 : (forall g x, binds L1 g x <-> binds L2 g x) -> compatible L1 ->
  forall g, apply_seq L1 g = apply_seq L2 g.
Proof.
  intros He Hc g. pose proof (compatible_ext L1 L2 He Hc) as Hc2.
  destruct (classic_binds L1 g) as [[x Hx]|Hnone].
  - rewrite (apply_seq_bound L1 g x Hc Hx). symmetry. apply apply_seq_bound; [exact Hc2|now apply He].
  - rewrite (apply_seq_unbound L1 g Hnone). symmetry. apply apply_seq_unbound. intros x Hx. apply (Hnone x). now apply He.
Qed.
