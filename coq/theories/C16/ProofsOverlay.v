(* C16 — the overlay loop, the sort by rank and the first matching box. *)
From Coq Require Import List NArith ZArith Bool Lia Sorted Permutation.
From Coq Require Import ZifyBool ZifyN ZifyNat.
From FV.C16 Require Import Model ProofsBox ProofsRank.
Import ListNotations.

(* ------------------------------------------------------------------------ *)
(* generic list facts                                                         *)

Lemma fold_left_flat_map {A B C} (f : A -> C -> A) (g : B -> list C) (l : list B) (a : A) :
  fold_left f (flat_map g l) a = fold_left (fun acc b => fold_left f (g b) acc) l a.
Proof.
  revert a. induction l as [|b t IH]; intros a; cbn [flat_map fold_left]; [reflexivity|].
  rewrite fold_left_app. apply IH.
Qed.

Lemma fold_left_ext_all {A B} (f g : A -> B -> A) (l : list B) (a : A) :
  (forall a b, f a b = g a b) -> fold_left f l a = fold_left g l a.
Proof. intros H. revert a. induction l as [|b t IH]; intros a; cbn [fold_left]; [reflexivity|]. now rewrite H, IH. Qed.

Lemma skipn_S_tail {A} (l : list A) : forall i x t, skipn i l = x :: t -> skipn (S i) l = t.
Proof.
  induction l as [|y l IH]; intros [|i] x t H; cbn in *; try discriminate.
  - now inversion H.
  - now apply IH in H.
Qed.

Section SortFacts.
  Context {A : Type} (key : A -> N).
  Let gtb (x y : A) : bool := (key y <? key x)%N.
  Let le (x y : A) : Prop := (key x <= key y)%N.

  Lemma sort_insert_perm x l : Permutation (sort_insert gtb x l) (x :: l).
  Proof.
    induction l as [|y t IH]; cbn [sort_insert]; [reflexivity|].
    destruct (gtb x y); [|reflexivity].
    rewrite IH. apply perm_swap.
  Qed.

  Lemma stable_sort_perm l : Permutation (stable_sort gtb l) l.
  Proof.
    induction l as [|x t IH]; cbn [stable_sort]; [reflexivity|].
    rewrite sort_insert_perm. now constructor.
  Qed.

  Lemma sort_insert_sorted x l : StronglySorted le l -> StronglySorted le (sort_insert gtb x l).
  Proof.
    induction l as [|y t IH]; cbn [sort_insert]; intros Hs.
    - constructor; constructor.
    - inversion Hs as [|? ? Hs' Hf]; subst. unfold gtb at 1. destruct (N.ltb_spec (key y) (key x)) as [Hlt|Hge].
      + constructor; [apply IH; exact Hs'|].
        rewrite Forall_forall. intros z Hz.
        apply (Permutation_in _ (sort_insert_perm x t)) in Hz. destruct Hz as [<-|Hz].
        * unfold le. lia.
        * rewrite Forall_forall in Hf. now apply Hf.
      + constructor; [exact Hs|]. constructor; [unfold le; lia|].
        eapply Forall_impl; [|exact Hf]. intros z Hz. unfold le in *. lia.
  Qed.

  Lemma stable_sort_sorted l : StronglySorted le (stable_sort gtb l).
  Proof. induction l as [|x t IH]; cbn [stable_sort]; [constructor|apply sort_insert_sorted; exact IH]. Qed.

  (* in a sorted list the first element with a property has the smallest key among those with it *)
  Lemma find_sorted_min (P : A -> bool) l x y :
    StronglySorted le l -> find P l = Some x -> In y l -> P y = true -> (key x <= key y)%N.
  Proof.
    induction l as [|z t IH]; cbn [find]; intros Hs Hf Hin Hp; [discriminate|].
    inversion Hs as [|? ? Hs' Hfa]; subst. destruct (P z) eqn:Ez.
    - inversion Hf; subst. destruct Hin as [->|Hin]; [lia|]. rewrite Forall_forall in Hfa. exact (Hfa _ Hin).
    - destruct Hin as [->|Hin]; [congruence|]. now apply IH.
  Qed.
End SortFacts.

Section SortFactsDesc.
  Context {A : Type} (key : A -> N).
  Let gtb (x y : A) : bool := (key x <? key y)%N.
  Let ge (x y : A) : Prop := (key y <= key x)%N.

  Lemma sort_insert_perm_d x l : Permutation (sort_insert gtb x l) (x :: l).
  Proof.
    induction l as [|y t IH]; cbn [sort_insert]; [reflexivity|].
    destruct (gtb x y); [|reflexivity]. rewrite IH. apply perm_swap.
  Qed.

  Lemma stable_sort_perm_d l : Permutation (stable_sort gtb l) l.
  Proof.
    induction l as [|x t IH]; cbn [stable_sort]; [reflexivity|].
    rewrite sort_insert_perm_d. now constructor.
  Qed.

  Lemma sort_insert_sorted_d x l : StronglySorted ge l -> StronglySorted ge (sort_insert gtb x l).
  Proof.
    induction l as [|y t IH]; cbn [sort_insert]; intros Hs.
    - constructor; constructor.
    - inversion Hs as [|? ? Hs' Hf]; subst. unfold gtb at 1. destruct (N.ltb_spec (key x) (key y)) as [Hlt|Hge].
      + constructor; [apply IH; exact Hs'|].
        rewrite Forall_forall. intros z Hz.
        apply (Permutation_in _ (sort_insert_perm_d x t)) in Hz. destruct Hz as [<-|Hz].
        * unfold ge. lia.
        * rewrite Forall_forall in Hf. now apply Hf.
      + constructor; [exact Hs|]. constructor; [unfold ge; lia|].
        eapply Forall_impl; [|exact Hf]. intros z Hz. unfold ge in *. lia.
  Qed.

  Lemma stable_sort_sorted_d l : StronglySorted ge (stable_sort gtb l).
  Proof. induction l as [|x t IH]; cbn [stable_sort]; [constructor|apply sort_insert_sorted_d; exact IH]. Qed.

  (* in a list sorted by decreasing key the first element with a property has the largest key among
     those with it *)
  Lemma find_sorted_max (P : A -> bool) l x y :
    StronglySorted ge l -> find P l = Some x -> In y l -> P y = true -> (key y <= key x)%N.
  Proof.
    induction l as [|z t IH]; cbn [find]; intros Hs Hf Hin Hp; [discriminate|].
    inversion Hs as [|? ? Hs' Hfa]; subst. destruct (P z) eqn:Ez.
    - inversion Hf; subst. destruct Hin as [->|Hin]; [lia|]. rewrite Forall_forall in Hfa. exact (Hfa _ Hin).
    - destruct Hin as [->|Hin]; [congruence|]. now apply IH.
  Qed.
End SortFactsDesc.

Lemma find_some_In {A} (P : A -> bool) l x : find P l = Some x -> In x l /\ P x = true.
Proof. apply find_some. Qed.

Lemma find_filter {A} (P Q : A -> bool) l : find P (filter Q l) = find (fun x => Q x && P x) l.
Proof.
  induction l as [|x t IH]; cbn [filter find]; [reflexivity|].
  destruct (Q x); cbn [find andb]; [destruct (P x); [reflexivity|exact IH]|exact IH].
Qed.

Lemma find_map {A B} (f : A -> B) (P : B -> bool) l :
  find P (map f l) = option_map f (find (fun x => P (f x)) l).
Proof.
  induction l as [|x t IH]; cbn [map find]; [reflexivity|].
  destruct (P (f x)); [reflexivity|exact IH].
Qed.

(* ------------------------------------------------------------------------ *)
(* upsert                                                                     *)

Definition ranks_ok (m : boxmap) : Prop := Forall (fun e => rank_ok (snd e)) m.
Definition rsub (r r' : rank) : Prop := forall k, rbit r k = true -> rbit r' k = true.

Lemma upsert_ranks_ok m b r : ranks_ok m -> rank_ok r -> ranks_ok (upsert_or m b r).
Proof.
  unfold ranks_ok. induction m as [|[b' r'] t IH]; cbn [upsert_or]; intros Hm Hr.
  - constructor; [|constructor]. cbn [snd]. apply rank_bitor_assign_ok; [apply rank_ok_nil|exact Hr].
  - inversion Hm; subst. cbn [snd] in *. destruct (box_eqb b b').
    + constructor; [|assumption]. cbn [snd]. now apply rank_bitor_assign_ok.
    + constructor; [assumption|now apply IH].
Qed.

(* every entry after the upsert is an old entry, or the new pair joined with an old entry for the box *)
Lemma upsert_In m b r b1 r1 : ranks_ok m -> rank_ok r -> In (b1, r1) (upsert_or m b r) ->
  In (b1, r1) m \/
  (b1 = b /\ rank_ok r1 /\ forall k, rbit r1 k = true -> rbit r k = true \/ exists r0, In (b, r0) m /\ rbit r0 k = true).
Proof.
  unfold ranks_ok. induction m as [|[b' r'] t IH]; cbn [upsert_or]; intros Hm Hr Hin.
  - destruct Hin as [Heq|[]]. inversion Heq; subst. right. split; [reflexivity|].
    split; [apply rank_bitor_assign_ok; [apply rank_ok_nil|exact Hr]|].
    intros k Hk. rewrite rbit_bitor_assign in Hk by (try exact Hr; apply rank_ok_nil). rewrite rbit_nil in Hk. now left.
  - inversion Hm as [|? ? Hr' Hm']; subst. cbn [snd] in Hr'. destruct (box_eqb b b') eqn:E.
    + apply box_eqb_eq in E. subst b'. destruct Hin as [Heq|Hin]; [|left; now right].
      inversion Heq; subst. right. split; [reflexivity|]. split; [now apply rank_bitor_assign_ok|].
      intros k Hk. rewrite rbit_bitor_assign in Hk by assumption. apply orb_true_iff in Hk as [Hk|Hk]; [|now left].
      right. exists r'. split; [now left|exact Hk].
    + destruct Hin as [Heq|Hin]; [left; now left|].
      destruct (IH Hm' Hr Hin) as [H|[H1 [H2 H3]]]; [left; now right|].
      right. split; [exact H1|]. split; [exact H2|]. intros k Hk. destruct (H3 k Hk) as [H|[r0 [Hi Hb]]]; [now left|].
      right. exists r0. split; [now right|exact Hb].
Qed.

Lemma upsert_keeps m b r b0 r0 : ranks_ok m -> rank_ok r -> In (b0, r0) m ->
  exists r0', In (b0, r0') (upsert_or m b r) /\ rsub r0 r0'.
Proof.
  unfold ranks_ok. induction m as [|[b' r'] t IH]; cbn [upsert_or]; intros Hm Hr Hin; [destruct Hin|].
  inversion Hm as [|? ? Hr' Hm']; subst. cbn [snd] in Hr'. destruct (box_eqb b b') eqn:E.
  - destruct Hin as [Heq|Hin].
    + inversion Heq; subst. exists (rank_bitor_assign r0 r). split; [now left|].
      intros k Hk. rewrite rbit_bitor_assign by assumption. now rewrite Hk.
    + exists r0. split; [now right|intros k Hk; exact Hk].
  - destruct Hin as [Heq|Hin].
    + inversion Heq; subst. exists r0. split; [now left|intros k Hk; exact Hk].
    + destruct (IH Hm' Hr Hin) as [r0' [Hi Hs]]. exists r0'. split; [now right|exact Hs].
Qed.

Lemma upsert_adds m b r : ranks_ok m -> rank_ok r -> exists r', In (b, r') (upsert_or m b r) /\ rsub r r'.
Proof.
  unfold ranks_ok. induction m as [|[b' r'] t IH]; cbn [upsert_or]; intros Hm Hr.
  - eexists. split; [now left|]. intros k Hk. rewrite rbit_bitor_assign by (try exact Hr; apply rank_ok_nil). now rewrite Hk, orb_true_r.
  - inversion Hm as [|? ? Hr' Hm']; subst. cbn [snd] in Hr'. destruct (box_eqb b b') eqn:E.
    + apply box_eqb_eq in E. subst b'. eexists. split; [now left|].
      intros k Hk. rewrite rbit_bitor_assign by assumption. now rewrite Hk, orb_true_r.
    + destruct (IH Hm' Hr) as [r1 [Hi Hs]]. exists r1. split; [now right|exact Hs].
Qed.

Definition upserts (l : list (box * rank)) (m : boxmap) : boxmap :=
  fold_left (fun m e => upsert_or m (fst e) (snd e)) l m.

Lemma upserts_ranks_ok l : forall m, ranks_ok m -> Forall (fun e => rank_ok (snd e)) l -> ranks_ok (upserts l m).
Proof.
  induction l as [|[b r] t IH]; intros m Hm Hl; cbn [upserts fold_left]; [exact Hm|].
  inversion Hl; subst. apply IH; [|assumption]. now apply upsert_ranks_ok.
Qed.

Lemma upserts_keeps l : forall m b0 r0, ranks_ok m -> Forall (fun e => rank_ok (snd e)) l -> In (b0, r0) m ->
  exists r0', In (b0, r0') (upserts l m) /\ rsub r0 r0'.
Proof.
  induction l as [|[b r] t IH]; intros m b0 r0 Hm Hl Hin; cbn [upserts fold_left].
  - exists r0. split; [exact Hin|intros k Hk; exact Hk].
  - inversion Hl as [|? ? Hr Hl']; subst. cbn [fst snd] in *.
    destruct (upsert_keeps m b r b0 r0 Hm Hr Hin) as [r1 [Hi1 Hs1]].
    destruct (IH (upsert_or m b r) b0 r1 (upsert_ranks_ok m b r Hm Hr) Hl' Hi1) as [r2 [Hi2 Hs2]].
    exists r2. split; [exact Hi2|]. intros k Hk. apply Hs2, Hs1, Hk.
Qed.

Lemma upserts_adds l : forall m b r, ranks_ok m -> Forall (fun e => rank_ok (snd e)) l -> In (b, r) l ->
  exists r', In (b, r') (upserts l m) /\ rsub r r'.
Proof.
  induction l as [|[b1 r1] t IH]; intros m b r Hm Hl Hin; [destruct Hin|].
  inversion Hl as [|? ? Hr Hl']; subst. cbn [fst snd] in *. cbn [upserts fold_left fst snd].
  destruct Hin as [Heq|Hin].
  - inversion Heq; subst. destruct (upsert_adds m b r Hm Hr) as [r2 [Hi2 Hs2]].
    destruct (upserts_keeps t (upsert_or m b r) b r2 (upsert_ranks_ok m b r Hm Hr) Hl' Hi2) as [r3 [Hi3 Hs3]].
    exists r3. split; [exact Hi3|]. intros k Hk. apply Hs3, Hs2, Hk.
  - apply (IH (upsert_or m b1 r1) b r (upsert_ranks_ok m b1 r1 Hm Hr) Hl' Hin).
Qed.

(* every entry of the result traces back, bit by bit, to the start map or to the inserted pairs *)
Lemma upserts_In l : forall m b1 r1, ranks_ok m -> Forall (fun e => rank_ok (snd e)) l -> In (b1, r1) (upserts l m) ->
  rank_ok r1 /\ forall k, rbit r1 k = true -> exists r0, (In (b1, r0) m \/ In (b1, r0) l) /\ rbit r0 k = true.
Proof.
  induction l as [|[b r] t IH]; intros m b1 r1 Hm Hl Hin; cbn [upserts fold_left] in Hin.
  - split; [unfold ranks_ok in Hm; rewrite Forall_forall in Hm; exact (Hm _ Hin)|].
    intros k Hk. exists r1. split; [now left|exact Hk].
  - inversion Hl as [|? ? Hr Hl']; subst. cbn [fst snd] in *.
    destruct (IH (upsert_or m b r) b1 r1 (upsert_ranks_ok m b r Hm Hr) Hl' Hin) as [Hok Hbits].
    split; [exact Hok|]. intros k Hk. destruct (Hbits k Hk) as [r0 [[Hi|Hi] Hb]].
    + destruct (upsert_In m b r b1 r0 Hm Hr Hi) as [Hold|[-> [_ Hsrc]]].
      * exists r0. split; [now left|exact Hb].
      * destruct (Hsrc k Hb) as [Hb'|[r00 [Hi0 Hb0]]].
        -- exists r. split; [right; now left|exact Hb'].
        -- exists r00. split; [now left|exact Hb0].
    + exists r0. split; [right; now right|exact Hb].
Qed.

Lemma upsert_boxes (P : box -> Prop) m b r :
  (forall e, In e m -> P (fst e)) -> P b -> forall e, In e (upsert_or m b r) -> P (fst e).
Proof.
  induction m as [|[b' r'] t IH]; cbn [upsert_or]; intros Hm Hb e He.
  - destruct He as [<-|[]]. exact Hb.
  - destruct (box_eqb b b').
    + destruct He as [<-|He]; [apply (Hm (b', r')); now left|apply Hm; now right].
    + destruct He as [<-|He]; [apply (Hm (b', r')); now left|].
      apply (IH (fun e He => Hm e (or_intror He)) Hb). exact He.
Qed.

Lemma upserts_boxes (P : box -> Prop) l : forall m,
  (forall e, In e m -> P (fst e)) -> (forall e, In e l -> P (fst e)) ->
  forall e, In e (upserts l m) -> P (fst e).
Proof.
  induction l as [|[b r] t IH]; intros m Hm Hl e He; cbn [upserts fold_left] in He; [now apply Hm|].
  apply (IH (upsert_or m b r)); [|intros e' He'; apply Hl; now right|exact He].
  cbn [fst snd]. apply upsert_boxes; [exact Hm|]. apply (Hl (b, r)). now left.
Qed.

(* ------------------------------------------------------------------------ *)
(* one step of the overlay as a list of upserts                              *)

Definition one_contrib (U : Z) (rk cur_rank : rank) (b cb : box) : list (box * rank) :=
  let '(oi, orem) := overlay_onto U cb b in
  (match oi with Some i => [(i, rank_bitor rk cur_rank)] | None => [] end) ++
  (match orem with Some r => [(r, rk)] | None => [] end).

Definition contribs (U : Z) (cur : region) (cur_rank : rank) (old : boxmap) : list (box * rank) :=
  flat_map (fun e => flat_map (one_contrib U (snd e) cur_rank (fst e)) cur) old.

Lemma overlay_one_upserts U rk cr b m cb : overlay_one U rk cr b m cb = upserts (one_contrib U rk cr b cb) m.
Proof.
  unfold overlay_one, one_contrib, upserts. destruct (overlay_onto U cb b) as [[i|] [r|]]; reflexivity.
Qed.

Lemma overlay_step_upserts U cur cr old : overlay_step U cur cr old = upserts (contribs U cur cr old) init_map.
Proof.
  unfold overlay_step, contribs, upserts. rewrite fold_left_flat_map.
  apply fold_left_ext_all. intros m e. rewrite fold_left_flat_map.
  apply fold_left_ext_all. intros m' cb. rewrite overlay_one_upserts. reflexivity.
Qed.

(* ------------------------------------------------------------------------ *)
(* the invariants of the overlay loop                                         *)

Lemma bits_lt_pow2 w n : (forall k, N.testbit w k = true -> (k < n)%N) -> (w < 2 ^ n)%N.
Proof.
  intros H. destruct (N.eq_dec w 0) as [->|Hnz]; [apply N.neq_0_lt_0, N.pow_nonzero; lia|].
  apply N.log2_lt_pow2; [lia|]. apply H. now apply N.bit_log2.
Qed.

Section Overlay.
  Variable U : Z.
  Variable rules : list rule.      (* the rules the overlay loop runs over (after the preflight) *)
  Hypothesis Hwf : Forall (fun r => Forall (wf_box U) (fst r)) rules.

  Definition fires (k : nat) (q : point) : Prop :=
    exists r, nth_error rules k = Some r /\ exists c, In c (fst r) /\ in_box U q c.

  Definition all_boxes : list box := flat_map fst rules.
  (* values at which some condition (or the designspace itself) has a lower / an upper edge *)
  Definition lo_edge (a : axis) (x : Z) : Prop := x = (- U)%Z \/ exists c, In c all_boxes /\ fst (box_get U c a) = x.
  Definition hi_edge (a : axis) (x : Z) : Prop := x = U \/ exists c, In c all_boxes /\ snd (box_get U c a) = x.

  Lemma rule_box_wf k r c : nth_error rules k = Some r -> In c (fst r) -> wf_box U c.
  Proof.
    intros Hk Hc. apply nth_error_In in Hk. rewrite Forall_forall in Hwf. specialize (Hwf _ Hk).
    rewrite Forall_forall in Hwf. now apply Hwf.
  Qed.

  Lemma rule_box_all k r c : nth_error rules k = Some r -> In c (fst r) -> In c all_boxes.
  Proof. intros Hk Hc. apply nth_error_In in Hk. unfold all_boxes. apply in_flat_map. now exists r. Qed.

  (* a condition set that holds at a location touches it only with its own edges *)
  Lemma input_box_good q c : In c all_boxes -> in_box U q c -> good U lo_edge hi_edge q c.
  Proof.
    intros Hc Hin a. specialize (Hin a). unfold in_range in Hin. split.
    - destruct (Z.eq_dec (fst (box_get U c a)) (q a)) as [E|E]; [right|left; lia].
      split; [exact E|]. right. exists c. split; [exact Hc|exact E].
    - destruct (Z.eq_dec (snd (box_get U c a)) (q a)) as [E|E]; [right|left; lia].
      split; [exact E|]. right. exists c. split; [exact Hc|exact E].
  Qed.

  Definition entry_ok (i : nat) (e : box * rank) : Prop :=
    wf_box U (fst e) /\ rank_ok (snd e) /\
    forall k, rbit (snd e) k = true -> (k < i)%nat /\ forall q, in_box U q (fst e) -> fires k q.

  Lemma entry_ok_mono i j e : (i <= j)%nat -> entry_ok i e -> entry_ok j e.
  Proof. intros Hij [H1 [H2 H3]]. split; [exact H1|]. split; [exact H2|]. intros k Hk. destruct (H3 k Hk). split; [lia|assumption]. Qed.

  Lemma entries_ranks_ok i m : Forall (entry_ok i) m -> ranks_ok m.
  Proof. unfold ranks_ok. apply Forall_impl. intros e [_ [H _]]. exact H. Qed.

  (* ---- soundness of one step ---- *)
  Lemma step_sound i reg s old :
    nth_error rules i = Some (reg, s) ->
    Forall (entry_ok i) old ->
    Forall (entry_ok (S i)) (overlay_step U reg (rank_new i) old).
  Proof.
    intros Hi Hold. rewrite overlay_step_upserts.
    destruct (rank_new_ok i) as [Hnew_ok _].
    (* every contributed pair is fine on its own *)
    assert (Hc : Forall (entry_ok (S i)) (contribs U reg (rank_new i) old)).
    { unfold contribs. rewrite Forall_forall. intros [b1 r1] Hin.
      apply in_flat_map in Hin as [[b rk] [Hb Hin]]. apply in_flat_map in Hin as [cb [Hcb Hin]].
      cbn [fst snd] in Hin. rewrite Forall_forall in Hold. destruct (Hold _ Hb) as [Hwb [Hrk Hbits]]. cbn [fst snd] in *.
      assert (Hwc : wf_box U cb) by (eapply rule_box_wf; [exact Hi|exact Hcb]).
      unfold one_contrib in Hin. destruct (overlay_onto U cb b) as [oi orem] eqn:Eo.
      destruct (overlay_onto_sound U cb b Hwc Hwb oi orem Eo) as [HI HR].
      apply in_app_or in Hin as [Hin|Hin].
      - destruct oi as [ib|]; [|destruct Hin]. destruct Hin as [Heq|[]]. inversion Heq; subst.
        destruct (HI _ eq_refl) as [Hwi Hsub]. split; [exact Hwi|]. split; [now apply rank_bitor_ok|].
        cbn [fst snd]. intros k Hk. rewrite rbit_bitor in Hk by assumption. apply orb_true_iff in Hk as [Hk|Hk].
        + destruct (Hbits k Hk) as [Hlt Hf]. split; [lia|]. intros q Hq. apply Hf. now apply Hsub.
        + rewrite rbit_new in Hk. apply Nat.eqb_eq in Hk. subst k. split; [lia|].
          intros q Hq. exists (reg, s). split; [exact Hi|]. exists cb. split; [exact Hcb|]. now apply Hsub.
      - destruct orem as [rb|]; [|destruct Hin]. destruct Hin as [Heq|[]]. inversion Heq; subst.
        destruct (HR _ eq_refl) as [Hwr Hsub]. split; [exact Hwr|]. split; [exact Hrk|].
        cbn [fst snd]. intros k Hk. destruct (Hbits k Hk) as [Hlt Hf]. split; [lia|]. intros q Hq. apply Hf. now apply Hsub. }
    assert (Hcr : Forall (fun e => rank_ok (snd e)) (contribs U reg (rank_new i) old)).
    { eapply Forall_impl; [|exact Hc]. intros e [_ [H _]]. exact H. }
    assert (Hinit : ranks_ok init_map) by (constructor; [apply rank_ok_nil|constructor]).
    rewrite Forall_forall. intros [b1 r1] Hin.
    destruct (upserts_In _ _ _ _ Hinit Hcr Hin) as [Hok Hbits].
    (* the box is the empty box of init_map or a contributed box *)
    assert (Hwb : wf_box U b1).
    { apply (upserts_boxes (wf_box U) (contribs U reg (rank_new i) old) init_map) with (e := (b1, r1)); [| |exact Hin].
      - intros e [<-|[]]. apply wf_box_nil.
      - intros e He. rewrite Forall_forall in Hc. now destruct (Hc e He). }
    split; [exact Hwb|]. split; [exact Hok|]. cbn [fst snd]. intros k Hk.
    destruct (Hbits k Hk) as [r0 [[Hi0|Hi0] Hb0]].
    - destruct Hi0 as [Heq|[]]. inversion Heq; subst. rewrite rbit_nil in Hb0. discriminate.
    - rewrite Forall_forall in Hc. destruct (Hc _ Hi0) as [_ [_ H]]. exact (H k Hb0).
  Qed.

  (* ---- completeness of one step, at a fixed location ---- *)
  Variable p : point.
  Hypothesis Hexcl : forall a, lo_edge a (p a) -> hi_edge a (p a) -> False.

  Definition complete (i : nat) (m : boxmap) : Prop :=
    exists b r, In (b, r) m /\ good U lo_edge hi_edge p b /\ forall k, (k < i)%nat -> fires k p -> rbit r k = true.

  Lemma step_complete i reg s old :
    nth_error rules i = Some (reg, s) -> reg <> [] ->
    Forall (entry_ok i) old ->
    complete i old -> complete (S i) (overlay_step U reg (rank_new i) old).
  Proof.
    intros Hi Hne Hold [b [rk [Hb [Hg Hact]]]]. rewrite overlay_step_upserts.
    destruct (rank_new_ok i) as [Hnew_ok _].
    pose proof (step_sound i reg s old Hi Hold) as Hsound. rewrite overlay_step_upserts in Hsound.
    rewrite Forall_forall in Hold. destruct (Hold _ Hb) as [Hwb [Hrk Hbits]]. cbn [fst snd] in *.
    pose proof (in_box_dom U p b Hwb (good_in_box U lo_edge hi_edge p b Hg)) as Hd.
    assert (Hinit : ranks_ok init_map) by (constructor; [apply rank_ok_nil|constructor]).
    assert (Hcr : Forall (fun e => rank_ok (snd e)) (contribs U reg (rank_new i) old)).
    { rewrite Forall_forall. intros [b1 r1] Hin. cbn [snd].
      unfold contribs in Hin. apply in_flat_map in Hin as [[b' rk'] [Hb' Hin]]. apply in_flat_map in Hin as [cb [Hcb Hin]].
      cbn [fst snd] in Hin. destruct (Hold _ Hb') as [_ [Hrk' _]]. cbn [snd] in Hrk'.
      unfold one_contrib in Hin. destruct (overlay_onto U cb b') as [oi orem].
      apply in_app_or in Hin as [Hin|Hin].
      - destruct oi; [|destruct Hin]. destruct Hin as [Heq|[]]. inversion Heq; subst. now apply rank_bitor_ok.
      - destruct orem; [|destruct Hin]. destruct Hin as [Heq|[]]. inversion Heq; subst. exact Hrk'. }
    destruct (existsb (in_boxb p) reg) eqn:Efire.
    - (* the rule fires: the intersection with the witness box carries it *)
      apply existsb_exists in Efire as [cb [Hcb Hpcb]].
      assert (Hwc : wf_box U cb) by (eapply rule_box_wf; [exact Hi|exact Hcb]).
      apply (in_boxb_in_box U p cb Hwc Hd) in Hpcb.
      assert (Hgc : good U lo_edge hi_edge p cb).
      { apply input_box_good; [eapply rule_box_all; [exact Hi|exact Hcb]|exact Hpcb]. }
      destruct (overlay_onto_inter_complete U lo_edge hi_edge cb b Hwc Hwb p Hgc Hg Hexcl) as [ib [orem [Eo Hgi]]].
      assert (Hin : In (ib, rank_bitor rk (rank_new i)) (contribs U reg (rank_new i) old)).
      { unfold contribs. apply in_flat_map. exists (b, rk). split; [exact Hb|]. apply in_flat_map. exists cb. split; [exact Hcb|].
        cbn [fst snd]. unfold one_contrib. rewrite Eo. apply in_or_app. left. now left. }
      destruct (upserts_adds _ init_map _ _ Hinit Hcr Hin) as [r' [Hi' Hs']].
      exists ib, r'. split; [exact Hi'|]. split; [exact Hgi|].
      intros k Hk Hf. apply Hs'. rewrite rbit_bitor by assumption.
      destruct (Nat.eq_dec k i) as [->|Hne'].
      + rewrite rbit_new. rewrite Nat.eqb_refl. apply orb_true_r.
      + rewrite Hact; [reflexivity|lia|exact Hf].
    - (* the rule does not fire: the remainder of its first box keeps the location *)
      destruct reg as [|cb0 regt]; [contradiction|].
      assert (Hcb0 : In cb0 (cb0 :: regt)) by now left.
      assert (Hwc : wf_box U cb0) by (eapply rule_box_wf; [exact Hi|exact Hcb0]).
      assert (Hnot : forall cb, In cb (cb0 :: regt) -> ~ in_box U p cb).
      { intros cb Hcb Hin. assert (Hwc' : wf_box U cb) by (eapply rule_box_wf; [exact Hi|exact Hcb]).
        apply (in_boxb_in_box U p cb Hwc' Hd) in Hin.
        assert (existsb (in_boxb p) (cb0 :: regt) = true) by (apply existsb_exists; exists cb; tauto). congruence. }
      destruct (overlay_onto U cb0 b) as [oi orem] eqn:Eo.
      destruct (overlay_onto_rem_complete U lo_edge hi_edge cb0 b Hwc Hwb p oi orem Eo Hg (Hnot cb0 Hcb0)) as [rb [-> Hgr]].
      assert (Hin : In (rb, rk) (contribs U (cb0 :: regt) (rank_new i) old)).
      { unfold contribs. apply in_flat_map. exists (b, rk). split; [exact Hb|]. apply in_flat_map. exists cb0. split; [exact Hcb0|].
        cbn [fst snd]. unfold one_contrib. rewrite Eo. apply in_or_app. right. now left. }
      destruct (upserts_adds _ init_map _ _ Hinit Hcr Hin) as [r' [Hi' Hs']].
      exists rb, r'. split; [exact Hi'|]. split; [exact Hgr|].
      intros k Hk Hf. apply Hs'. destruct (Nat.eq_dec k i) as [->|Hne'].
      + exfalso. destruct Hf as [r0 [Hr0 [c [Hc Hpc]]]]. rewrite Hi in Hr0. inversion Hr0; subst. cbn [fst] in Hc.
        exact (Hnot c Hc Hpc).
      + apply Hact; [lia|exact Hf].
  Qed.

  (* ---- the whole loop ---- *)
  Lemma loop_inv : forall rest i m,
    skipn i rules = rest -> (i <= length rules)%nat ->
    Forall (entry_ok i) m -> complete i m ->
    Forall (entry_ok (length rules)) (overlay_loop U rest i m) /\ complete (length rules) (overlay_loop U rest i m).
  Proof.
    induction rest as [|[reg s] t IH]; intros i m Hsk Hle Hm Hc; cbn [overlay_loop].
    - assert (Hlen : i = length rules).
      { assert (Hl : length (skipn i rules) = (length rules - i)%nat) by apply skipn_length.
        rewrite Hsk in Hl. cbn in Hl. lia. }
      subst i. split; assumption.
    - assert (Hi : nth_error rules i = Some (reg, s)).
      { rewrite <- (firstn_skipn i rules) at 1. rewrite Hsk.
        rewrite nth_error_app2 by (rewrite firstn_length; lia). rewrite firstn_length, Nat.min_l by exact Hle.
        now rewrite Nat.sub_diag. }
      assert (Hlt : (i < length rules)%nat) by (apply nth_error_Some; congruence).
      destruct reg as [|c0 regt].
      + (* a rule without condition set is skipped: it fires nowhere *)
        apply IH; [now apply (skipn_S_tail _ _ _ _ Hsk)|lia| |].
        * eapply Forall_impl; [|exact Hm]. intros e. apply entry_ok_mono. lia.
        * destruct Hc as [b [r [Hb [Hg Hact]]]]. exists b, r. split; [exact Hb|]. split; [exact Hg|].
          intros k Hk Hf. destruct (Nat.eq_dec k i) as [->|Hne].
          -- exfalso. destruct Hf as [r0 [Hr0 [c [Hc _]]]]. rewrite Hi in Hr0. inversion Hr0; subst. destruct Hc.
          -- apply Hact; [lia|exact Hf].
      + apply IH.
        * now apply (skipn_S_tail _ _ _ _ Hsk).
        * lia.
        * now apply (step_sound i (c0 :: regt) s).
        * apply (step_complete i (c0 :: regt) s); try assumption. discriminate.
  Qed.
End Overlay.
