(* Helpers used by the harness-written cases_*.v files. *)
From Coq Require Import List NArith ZArith QArith Qabs Bool.
Import ListNotations.

Fixpoint fail_idx (i : N) (l : list bool) : list N :=
  match l with
  | [] => []
  | b :: t => if b then fail_idx (N.succ i) t else i :: fail_idx (N.succ i) t
  end.

Fixpoint list_eqb {A} (eqb : A -> A -> bool) (a b : list A) : bool :=
  match a, b with
  | [], [] => true
  | x :: a', y :: b' => eqb x y && list_eqb eqb a' b'
  | _, _ => false
  end.

Definition option_eqb {A} (eqb : A -> A -> bool) (a b : option A) : bool :=
  match a, b with
  | None, None => true
  | Some x, Some y => eqb x y
  | _, _ => false
  end.

Definition pair_eqb {A B} (ea : A -> A -> bool) (eb : B -> B -> bool) (a b : A * B) : bool :=
  ea (fst a) (fst b) && eb (snd a) (snd b).

Lemma list_eqb_eq {A} (eqb : A -> A -> bool) :
  (forall x y, eqb x y = true <-> x = y) ->
  forall a b, list_eqb eqb a b = true <-> a = b.
Proof.
  intros H a; induction a as [|x a IH]; intros [|y b]; simpl; split; intro E;
    try reflexivity; try discriminate.
  - apply andb_true_iff in E as [E1 E2]. apply H in E1. apply IH in E2. congruence.
  - inversion E; subst. apply andb_true_iff; split; [apply H | apply IH]; reflexivity.
Qed.

(* closeness of rationals: |a - b| <= eps *)
Definition Qclose (eps a b : Q) : bool := Qle_bool (Qabs (a - b)) eps.
