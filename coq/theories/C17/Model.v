(* C17 — executable model of the summary-field computations of fontbe:
     metrics_and_limits.rs  MetricsBuilder::{update,build}, MaxBuilder::{update,update_composite_limits},
                            head box, maxp
     vertical_metrics.rs    (same MetricsBuilder, fed with heights / top side bearings)
     glyphs.rs              bbox_of_composite / compute_composite_bboxes
     os2.rs                 x_avg_char_width, apply_min_max_char_index, unicode / code-page ranges
     os2/max_context.rs     compute_max_context_value
     write-fonts loca.rs    LocaFormat::new (the rule head.indexToLocFormat follows)
   Definitions only; proofs are in Proofs.v.  Integers are Z / N (Rust's fixed widths are written
   in where the property is about them: clamp_i16, the u16 narrowing of the composite totals),
   f64 is Q for coordinates and is modelled by rounding Q to 53 significant bits where the
   rounding matters (xAvgCharWidth). *)
From Coq Require Import List NArith ZArith QArith Qround Qminmax Bool.
Import ListNotations.

(* ------------------------------------------------------------------------------------------ *)
(** * 1. MetricsBuilder (hmtx/hhea and vmtx/vhea) *)
Open Scope Z_scope.

Definition clamp_i16 (v : Z) : Z :=
  if v <? -32768 then -32768 else if v >? 32767 then 32767 else v.

(* one glyph as the builder sees it: advance, side bearing, Some (max - min) of its box
   (None for a glyph without outline) *)
Definition minput := (Z * Z * option Z)%type.

Record mstate := mkMS {
  ms_long : list (Z * Z);      (* long_metrics, in push order *)
  ms_amax : Z;
  ms_min1 : option Z;
  ms_min2 : option Z;
  ms_ext : option Z }.

Definition ms_init : mstate := mkMS [] 0 None None None.

Definition opt_min (o : option Z) (v : Z) : option Z :=
  Some (match o with Some m => Z.min m v | None => v end).
Definition opt_max (o : option Z) (v : Z) : option Z :=
  Some (match o with Some m => Z.max m v | None => v end).

Definition second_sb (g : minput) : Z :=
  let '(adv, sb, ba) := g in clamp_i16 (adv - sb - match ba with Some b => b | None => 0 end).
Definition extent_of (g : minput) : Z :=
  let '(adv, sb, ba) := g in clamp_i16 (sb + match ba with Some b => b | None => 0 end).

Definition mb_update (s : mstate) (g : minput) : mstate :=
  let '(adv, sb, ba) := g in
  let long := ms_long s ++ [(adv, sb)] in
  let amax := Z.max (ms_amax s) adv in
  match ba with
  | None => mkMS long amax (ms_min1 s) (ms_min2 s) (ms_ext s)
  | Some _ => mkMS long amax (opt_min (ms_min1 s) sb) (opt_min (ms_min2 s) (second_sb g))
                   (opt_max (ms_ext s) (extent_of g))
  end.

(* length of the run of advance [a] at the head of [l] (the builder walks long_metrics reversed) *)
Fixpoint run_len (a : Z) (l : list (Z * Z)) : nat :=
  match l with
  | (a', _) :: t => if a' =? a then S (run_len a t) else O
  | [] => O
  end.

Definition num_lsb_only (long : list (Z * Z)) : nat :=
  match rev long with
  | [] => O
  | (a, _) :: _ => (run_len a (rev long) - 1)%nat
  end.

Record metrics := mkMetrics {
  m_long : list (Z * Z);
  m_sbs : list Z;
  m_amax : Z;
  m_min1 : Z;
  m_min2 : Z;
  m_ext : Z }.

Definition unwrap0 (o : option Z) : Z := match o with Some v => v | None => 0 end.

Definition mb_build (s : mstate) : metrics :=
  let k := (length (ms_long s) - num_lsb_only (ms_long s))%nat in
  mkMetrics (firstn k (ms_long s)) (map snd (skipn k (ms_long s)))
            (ms_amax s) (unwrap0 (ms_min1 s)) (unwrap0 (ms_min2 s)) (unwrap0 (ms_ext s)).

Definition mb_run (gs : list minput) : metrics := mb_build (fold_left mb_update gs ms_init).

(* How every reader expands hmtx/vmtx: the first numLong glyphs have their own pair, the
   others repeat the last long advance.  None: side bearings without any long metric. *)
Definition hmtx_expand (long : list (Z * Z)) (sbs : list Z) : option (list (Z * Z)) :=
  match sbs, rev long with
  | [], _ => Some long
  | _, [] => None
  | _, (a, _) :: _ => Some (long ++ map (fun s => (a, s)) sbs)
  end.

Definition pairZ_eqb (a b : Z * Z) : bool := (fst a =? fst b) && (snd a =? snd b).
Fixpoint list_eqb' {A} (e : A -> A -> bool) (a b : list A) : bool :=
  match a, b with
  | [], [] => true
  | x :: a', y :: b' => e x y && list_eqb' e a' b'
  | _, _ => false
  end.

Definition metrics_eqb (a b : metrics) : bool :=
  list_eqb' pairZ_eqb (m_long a) (m_long b) && list_eqb' Z.eqb (m_sbs a) (m_sbs b)
  && (m_amax a =? m_amax b) && (m_min1 a =? m_min1 b) && (m_min2 a =? m_min2 b) && (m_ext a =? m_ext b).

(* ------------------------------------------------------------------------------------------ *)
(** * 2. MaxBuilder: maxp limits and the head box *)

Definition bbox := (Z * Z * Z * Z)%type.   (* x_min, y_min, x_max, y_max *)

Definition bbox_union (a b : bbox) : bbox :=
  let '(ax0, ay0, ax1, ay1) := a in
  let '(bx0, by0, bx1, by1) := b in
  (Z.min ax0 bx0, Z.min ay0 by0, Z.max ax1 bx1, Z.max ay1 by1).

Definition bbox_eqb (a b : bbox) : bool :=
  let '(ax0, ay0, ax1, ay1) := a in
  let '(bx0, by0, bx1, by1) := b in
  (ax0 =? bx0) && (ay0 =? by0) && (ax1 =? bx1) && (ay1 =? by1).

(* a glyf entry as MaxBuilder::update looks at it: points per contour / component glyph ids *)
Inductive glyph :=
| GEmpty
| GSimple (contours : list N) (bb : bbox)
| GComposite (comps : list N) (bb : bbox).

Definition glyph_bbox (g : glyph) : option bbox :=
  match g with GEmpty => None | GSimple _ b => Some b | GComposite _ b => Some b end.

Open Scope N_scope.

Record limits := mkLim { l_pts : N; l_ctr : N; l_depth : N }.
Definition lim_zero : limits := mkLim 0 0 0.
Definition lim_max (a b : limits) : limits :=
  mkLim (N.max (l_pts a) (l_pts b)) (N.max (l_ctr a) (l_ctr b)) (N.max (l_depth a) (l_depth b)).

Record ginfo := mkGI { gi_limits : option limits; gi_comps : option (list N) }.

Definition u16 (n : N) : N := n mod 65536.
Definition sumN (l : list N) : N := fold_right N.add 0 l.
Definition lenN {A} (l : list A) : N := N.of_nat (length l).

(* HashMap<GlyphId16, GlyphInfo> *)
Definition imap := N -> option ginfo.
Definition upd (m : imap) (k : N) (v : ginfo) : imap := fun k' => if k' =? k then Some v else m k'.

Record mxstate := mkMX {
  mx_pts : N; mx_ctr : N; mx_elems : N;
  mx_info : imap;
  mx_bbox : option bbox }.

Definition mx_init : mxstate := mkMX 0 0 0 (fun _ => None) None.

Definition ginfo_of (g : glyph) : ginfo :=
  match g with
  | GEmpty => mkGI (Some lim_zero) None
  | GSimple cs _ => mkGI (Some (mkLim (u16 (sumN cs)) (u16 (lenN cs)) 0)) None
  | GComposite comps _ => mkGI None (Some comps)
  end.

Definition mx_update (s : mxstate) (id : N) (g : glyph) : mxstate :=
  let bb := match glyph_bbox g with
            | Some b => Some (match mx_bbox s with Some a => bbox_union a b | None => b end)
            | None => mx_bbox s
            end in
  let info := upd (mx_info s) id (ginfo_of g) in
  match g with
  | GEmpty => mkMX (mx_pts s) (mx_ctr s) (mx_elems s) info bb
  | GSimple cs _ => mkMX (N.max (mx_pts s) (u16 (sumN cs))) (N.max (mx_ctr s) (u16 (lenN cs))) (mx_elems s) info bb
  | GComposite comps _ => mkMX (mx_pts s) (mx_ctr s) (N.max (mx_elems s) (u16 (lenN comps))) info bb
  end.

Fixpoint mx_fold (s : mxstate) (id : N) (gl : list glyph) : mxstate :=
  match gl with
  | [] => s
  | g :: t => mx_fold (mx_update s id g) (N.succ id) t
  end.

(* The composite totals are summed in u32 (exact: at most 65535 components of at most 65535
   each) and then narrowed with u16::try_from; a total that does not fit is Error::OutOfBounds.
   [Ideal] is the same computation without the narrowing: the intended arithmetic. *)
Inductive mode := Ideal | Checked.

Definition lim_step (a e : limits) : limits :=
  mkLim (l_pts a + l_pts e) (l_ctr a + l_ctr e) (N.max (l_depth a) (l_depth e + 1)).
Definition sum_limits (ls : list limits) : limits := fold_left lim_step ls lim_zero.

Definition fits16 (l : limits) : bool :=
  (l_pts l <? 65536) && (l_ctr l <? 65536) && (l_depth l <? 65536).
Definition finish (m : mode) (l : limits) : option limits :=
  match m with Ideal => Some l | Checked => if fits16 l then Some l else None end.

Inductive outcome (A : Type) :=
| LOk (a : A)
| LTooBig            (* Err(Error::OutOfBounds): the build fails with a diagnostic *)
| LStuck             (* assert!(pending.len() < size_before) *)
| LMissing           (* .unwrap() on a glyph id that is not in the map *)
| LFuel.             (* model artefact; shown unreachable *)
Arguments LOk {A}. Arguments LTooBig {A}. Arguments LStuck {A}. Arguments LMissing {A}. Arguments LFuel {A}.

Inductive ready := RMissing | RNotYet | RReady (ls : list limits).

(* components.extend(.. map(|gid| glyph_info.get(gid).unwrap().limits)); then all(is_some) *)
Fixpoint child_limits (info : imap) (comps : list N) : ready :=
  match comps with
  | [] => RReady []
  | c :: t =>
    match info c with
    | None => RMissing
    | Some gi =>
      match child_limits info t with
      | RMissing => RMissing
      | RNotYet => RNotYet
      | RReady ls => match gi_limits gi with None => RNotYet | Some l => RReady (l :: ls) end
      end
    end
  end.

(* one `pending.retain(..)`.  The code finishes the pass before it returns the error; the
   model stops at the first total that does not fit — the outcome is the same error. *)
Fixpoint pass (m : mode) (info : imap) (pending : list N) (omax : limits)
  : outcome (imap * list N * limits) :=
  match pending with
  | [] => LOk (info, [], omax)
  | gid :: rest =>
    match info gid with
    | None => LMissing
    | Some gi =>
      match gi_comps gi with
      | None => LMissing
      | Some comps =>
        match child_limits info comps with
        | RMissing => LMissing
        | RNotYet =>
          match pass m info rest omax with
          | LOk (i, kept, om) => LOk (i, gid :: kept, om)
          | e => e
          end
        | RReady ls =>
          match finish m (sum_limits ls) with
          | None => LTooBig
          | Some limit => pass m (upd info gid (mkGI (Some limit) (Some comps))) rest (lim_max omax limit)
          end
        end
      end
    end
  end.

Fixpoint loop (m : mode) (fuel : nat) (info : imap) (pending : list N) (omax : limits) : outcome limits :=
  match pending with
  | [] => LOk omax
  | _ :: _ =>
    match fuel with
    | O => LFuel
    | S f =>
      match pass m info pending omax with
      | LOk (info', kept, omax') =>
        if (length kept <? length pending)%nat then loop m f info' kept omax' else LStuck
      | LTooBig => LTooBig
      | LStuck => LStuck
      | LMissing => LMissing
      | LFuel => LFuel
      end
    end
  end.

(* `pending` is the order in which the HashMap happens to yield the composites *)
Definition update_composite_limits (m : mode) (info : imap) (pending : list N) : outcome limits :=
  loop m (length pending) info pending lim_zero.

Record limits_out := mkLimitsOut {
  lo_pts : N; lo_ctr : N; lo_elems : N;
  lo_cpts : N; lo_cctr : N; lo_depth : N;
  lo_bbox : option bbox }.

Definition limits_run (m : mode) (gl : list glyph) (pending : list N) : outcome limits_out :=
  let s := mx_fold mx_init 0 gl in
  match update_composite_limits m (mx_info s) pending with
  | LOk c => LOk (mkLimitsOut (mx_pts s) (mx_ctr s) (mx_elems s) (l_pts c) (l_ctr c) (l_depth c) (mx_bbox s))
  | LTooBig => LTooBig
  | LStuck => LStuck
  | LMissing => LMissing
  | LFuel => LFuel
  end.

Definition is_composite (g : glyph) : bool := match g with GComposite _ _ => true | _ => false end.

(* glyph ids of the composites, ascending *)
Fixpoint composite_ids (id : N) (gl : list glyph) : list N :=
  match gl with
  | [] => []
  | g :: t => if is_composite g then id :: composite_ids (N.succ id) t else composite_ids (N.succ id) t
  end.

Definition opt_bbox_eqb (a b : option bbox) : bool :=
  match a, b with Some x, Some y => bbox_eqb x y | None, None => true | _, _ => false end.

Definition limits_out_eqb (a b : limits_out) : bool :=
  (lo_pts a =? lo_pts b) && (lo_ctr a =? lo_ctr b) && (lo_elems a =? lo_elems b)
  && (lo_cpts a =? lo_cpts b) && (lo_cctr a =? lo_cctr b) && (lo_depth a =? lo_depth b)
  && opt_bbox_eqb (lo_bbox a) (lo_bbox b).

Definition outcome_eqb (a b : outcome limits_out) : bool :=
  match a, b with
  | LOk x, LOk y => limits_out_eqb x y
  | LTooBig, LTooBig | LStuck, LStuck | LMissing, LMissing | LFuel, LFuel => true
  | _, _ => false
  end.

Definition outcome_is_error (a : outcome limits_out) : bool :=
  match a with LTooBig => true | _ => false end.

(* The recursive definition the fixed point is meant to compute. *)
Definition glyph_at (gl : list glyph) (g : N) : option glyph := nth_error gl (N.to_nat g).

Inductive has_limits (gl : list glyph) : N -> limits -> Prop :=
| HL_empty : forall g, glyph_at gl g = Some GEmpty -> has_limits gl g lim_zero
| HL_simple : forall g cs bb, glyph_at gl g = Some (GSimple cs bb) ->
    has_limits gl g (mkLim (sumN cs) (lenN cs) 0)
| HL_comp : forall g comps bb ls, glyph_at gl g = Some (GComposite comps bb) ->
    Forall2 (has_limits gl) comps ls -> has_limits gl g (sum_limits ls).

(* ------------------------------------------------------------------------------------------ *)
(** * 3. Composite boxes (glyphs.rs bbox_of_composite) *)
Open Scope Z_scope.

(* decoded glyf entry with its outline *)
Definition dcomp := (N * (Z * Z * Z * Z) * (Z * Z))%type.  (* glyph id, F2Dot14 xx yx xy yy (raw), dx dy *)
Inductive dbody :=
| DEmpty
| DSimple (bb : bbox) (contours : list N) (pts : list (Z * Z))
| DComposite (bb : bbox) (comps : list dcomp).

Open Scope Q_scope.
(* kurbo::Affine [a b c d e f]:  x' = a x + c y + e,  y' = b x + d y + f *)
Definition aff := (Q * Q * Q * Q * Q * Q)%type.
Definition aff_id : aff := (1, 0, 0, 1, 0, 0).
Definition aff_mul (p c : aff) : aff :=
  let '(pa, pb, pc, pd, pe, pf) := p in
  let '(ca, cb, cc, cd, ce, cf) := c in
  (pa * ca + pc * cb, pb * ca + pd * cb, pa * cc + pc * cd, pb * cc + pd * cd,
   pa * ce + pc * cf + pe, pb * ce + pd * cf + pf).
Definition aff_apply (a : aff) (p : Q * Q) : Q * Q :=
  let '(xa, xb, xc, xd, xe, xf) := a in
  (xa * fst p + xc * snd p + xe, xb * fst p + xd * snd p + xf).
Definition f2dot14 (z : Z) : Q := z # 16384.
(* affine_for: the transform as it is stored in the font *)
Definition aff_of (c : dcomp) : aff :=
  let '(_, (xx, yx, xy, yy), (dx, dy)) := c in
  (f2dot14 xx, f2dot14 yx, f2dot14 xy, f2dot14 yy, inject_Z dx, inject_Z dy).
Definition qpt (p : Z * Z) : Q * Q := (inject_Z (fst p), inject_Z (snd p)).

Definition rect := (Q * Q * Q * Q)%type.   (* x0 y0 x1 y1 *)
Definition rect_union_pt (r : option rect) (p : Q * Q) : option rect :=
  match r with
  | None => Some (fst p, snd p, fst p, snd p)
  | Some (x0, y0, x1, y1) => Some (Qmin x0 (fst p), Qmin y0 (snd p), Qmax x1 (fst p), Qmax y1 (snd p))
  end.
Definition rect_union (a b : rect) : rect :=
  let '(ax0, ay0, ax1, ay1) := a in
  let '(bx0, by0, bx1, by1) := b in
  (Qmin ax0 bx0, Qmin ay0 by0, Qmax ax1 bx1, Qmax ay1 by1).
Definition rect_union_opt (a : option rect) (b : option rect) : option rect :=
  match a, b with
  | Some x, Some y => Some (rect_union x y)
  | None, Some y => Some y
  | x, None => x
  end.

Definition comp_gid (c : dcomp) : N := fst (fst c).

(* bbox_of_composite.  The loop over the components, with the recursive call for a nested
   composite passed in ([recb]); fuel bounds the nesting depth (the Rust recursion has no bound:
   a cycle overflows the stack, C15).  None: fuel exhausted or a glyph id out of range. *)
Fixpoint bbox_go (recb : aff -> list dcomp -> option (option rect)) (gl : list dbody) (a : aff)
                 (cs : list dcomp) (acc : option rect) : option (option rect) :=
  match cs with
  | [] => Some acc
  | c :: t =>
    let a' := aff_mul a (aff_of c) in
    match nth_error gl (N.to_nat (comp_gid c)) with
    | None => None
    | Some DEmpty => bbox_go recb gl a t acc
    | Some (DSimple _ _ pts) =>
      bbox_go recb gl a t (fold_left (fun r p => rect_union_pt r (aff_apply a' (qpt p))) pts acc)
    | Some (DComposite _ comps') =>
      match recb a' comps' with
      | None => None
      | Some child => bbox_go recb gl a t (rect_union_opt acc child)
      end
    end
  end.

Fixpoint bbox_comp (fuel : nat) (gl : list dbody) (a : aff) (comps : list dcomp) (acc : option rect)
  : option (option rect) :=
  match fuel with
  | O => None
  | S f => bbox_go (fun a' c' => bbox_comp f gl a' c' None) gl a comps acc
  end.

(* the resolved outline: every point of every leaf, transformed *)
Fixpoint resolve_go (recr : aff -> list dcomp -> option (list (Q * Q))) (gl : list dbody) (a : aff)
                    (cs : list dcomp) : option (list (Q * Q)) :=
  match cs with
  | [] => Some []
  | c :: t =>
    let a' := aff_mul a (aff_of c) in
    match nth_error gl (N.to_nat (comp_gid c)) with
    | None => None
    | Some DEmpty => resolve_go recr gl a t
    | Some (DSimple _ _ pts) =>
      match resolve_go recr gl a t with
      | None => None
      | Some r => Some (map (fun p => aff_apply a' (qpt p)) pts ++ r)
      end
    | Some (DComposite _ comps') =>
      match recr a' comps', resolve_go recr gl a t with
      | Some x, Some r => Some (x ++ r)
      | _, _ => None
      end
    end
  end.

Fixpoint resolve (fuel : nat) (gl : list dbody) (a : aff) (comps : list dcomp) : option (list (Q * Q)) :=
  match fuel with
  | O => None
  | S f => resolve_go (fun a' c' => resolve f gl a' c') gl a comps
  end.

(* write-fonts OtRound for f64 -> i16: floor(x + 1/2) (saturation is C19's subject) *)
Definition ot_round (q : Q) : Z := Qfloor (q + (1 # 2)).

(* compute_composite_bboxes: `bbox.unwrap_or_default().into()` *)
Definition composite_bbox (fuel : nat) (gl : list dbody) (comps : list dcomp) : option bbox :=
  match bbox_comp fuel gl aff_id comps None with
  | None => None
  | Some None => Some (0, 0, 0, 0)%Z
  | Some (Some (x0, y0, x1, y1)) => Some (ot_round x0, ot_round y0, ot_round x1, ot_round y1)
  end.

(* ------------------------------------------------------------------------------------------ *)
(** * 4. loca format (write-fonts LocaFormat::new) *)
Open Scope N_scope.
Definition loca_is_short (offsets : list N) : bool :=
  (last offsets 0 <? 0x20000) && forallb (fun o => o mod 2 =? 0) offsets.
(* what a reader gets back from a short loca entry *)
Definition short_roundtrip (o : N) : N := 2 * ((o / 2) mod 65536).
Fixpoint offsets_of (start : N) (sizes : list N) : list N :=
  match sizes with [] => [start] | s :: t => start :: offsets_of (start + s) t end.

(* ------------------------------------------------------------------------------------------ *)
(** * 5. OS/2 *)

(* x_avg_char_width: (count, total) of the non-zero advances, computed from the compressed hmtx *)
Open Scope Z_scope.
Definition xavg_parts (long : list (Z * Z)) (num_glyphs : Z) : Z * Z :=
  let nz := filter (fun m => negb (fst m =? 0)) long in
  let count := Z.of_nat (length nz) in
  let total := fold_right Z.add 0 (map fst nz) in
  let last_adv := match rev long with [] => 0 | (a, _) :: _ => a end in
  if last_adv >? 0 then
    let num_short := num_glyphs - Z.of_nat (length long) in
    (count + num_short, total + num_short * last_adv)
  else (count, total).

(* the same two numbers straight from the per-glyph advances *)
Definition xavg_parts_spec (advs : list Z) : Z * Z :=
  let nz := filter (fun a => negb (a =? 0)) advs in
  (Z.of_nat (length nz), fold_right Z.add 0 nz).

(* exact rounding of the mean: floor(total/count + 1/2) *)
Definition xavg_exact (count total : Z) : Z :=
  if count =? 0 then 0 else (2 * total + count) / (2 * count).

(* binary floating point: round a positive rational to [prec] significant bits, ties to even
   (prec = 53: f64, the type the mean is computed in; prec = 24: f32, what it used to be) *)
Open Scope Q_scope.
Definition pow2 (e : Z) : Q := Qpower 2 e.
Definition round_half_even (q : Q) : Z :=
  let f := Qfloor q in
  match Qcompare (q - inject_Z f) (1 # 2) with
  | Lt => f
  | Gt => (f + 1)%Z
  | Eq => if Z.even f then f else (f + 1)%Z
  end.
Definition qlog2 (q : Q) : Z :=      (* floor(log2 q) for q > 0 *)
  let k := (Z.log2 (Qnum q) - Z.log2 (Zpos (Qden q)))%Z in
  if Qle_bool (pow2 k) q then (if Qle_bool (pow2 (k + 1)) q then k + 1 else k)%Z else (k - 1)%Z.
Definition fp_round (prec : Z) (q : Q) : Q :=
  if Qle_bool q 0 then 0 else
  let e := (qlog2 q - (prec - 1))%Z in
  inject_Z (round_half_even (q / pow2 e)) * pow2 e.
Definition sat_i16 (z : Z) : Z := clamp_i16 z.
(* (total as fXX / count as fXX).ot_round() with ot_round = (x + 0.5).floor() as i16; 0/0 = NaN -> 0;
   [rnd] is the rounding of the float type *)
Definition xavg_fp (rnd : Q -> Q) (count total : Z) : Z :=
  if (count =? 0)%Z then 0%Z else
  let x := rnd (rnd (inject_Z total) / rnd (inject_Z count)) in
  sat_i16 (Qfloor (rnd (x + (1 # 2)))).
Definition xavg_f64 : Z -> Z -> Z := xavg_fp (fp_round 53).
Definition xavg_f32 : Z -> Z -> Z := xavg_fp (fp_round 24).   (* before the repair *)

(* apply_min_max_char_index *)
Open Scope N_scope.
Definition min_max_char (cps : list N) : N * N :=
  let '(mn, mx) := fold_left (fun '(mn, mx) cp => (N.min cp mn, N.max cp mx)) cps (0xFFFF, 0) in
  (N.min mn 0xFFFF, N.min mx 0xFFFF).

(* UNICODE_RANGES of os2.rs (the harness checks on every run that this is the table in the source) *)
Definition unicode_ranges : list (N * N * N) := [
  (0x0000, 0x007F, 0); (0x0080, 0x00FF, 1); (0x0100, 0x017F, 2); (0x0180, 0x024F, 3);
  (0x0250, 0x02AF, 4); (0x02B0, 0x02FF, 5); (0x0300, 0x036F, 6); (0x0370, 0x03FF, 7);
  (0x0400, 0x04FF, 9); (0x0500, 0x052F, 9); (0x0530, 0x058F, 10); (0x0590, 0x05FF, 11);
  (0x0600, 0x06FF, 13); (0x0700, 0x074F, 71); (0x0750, 0x077F, 13); (0x0780, 0x07BF, 72);
  (0x07C0, 0x07FF, 14); (0x0900, 0x097F, 15); (0x0980, 0x09FF, 16); (0x0A00, 0x0A7F, 17);
  (0x0A80, 0x0AFF, 18); (0x0B00, 0x0B7F, 19); (0x0B80, 0x0BFF, 20); (0x0C00, 0x0C7F, 21);
  (0x0C80, 0x0CFF, 22); (0x0D00, 0x0D7F, 23); (0x0D80, 0x0DFF, 73); (0x0E00, 0x0E7F, 24);
  (0x0E80, 0x0EFF, 25); (0x0F00, 0x0FFF, 70); (0x1000, 0x109F, 74); (0x10A0, 0x10FF, 26);
  (0x1100, 0x11FF, 28); (0x1200, 0x137F, 75); (0x1380, 0x139F, 75); (0x13A0, 0x13FF, 76);
  (0x1400, 0x167F, 77); (0x1680, 0x169F, 78); (0x16A0, 0x16FF, 79); (0x1700, 0x171F, 84);
  (0x1720, 0x173F, 84); (0x1740, 0x175F, 84); (0x1760, 0x177F, 84); (0x1780, 0x17FF, 80);
  (0x1800, 0x18AF, 81); (0x1900, 0x194F, 93); (0x1950, 0x197F, 94); (0x1980, 0x19DF, 95);
  (0x19E0, 0x19FF, 80); (0x1A00, 0x1A1F, 96); (0x1B00, 0x1B7F, 27); (0x1B80, 0x1BBF, 112);
  (0x1C00, 0x1C4F, 113); (0x1C50, 0x1C7F, 114); (0x1D00, 0x1D7F, 4); (0x1D80, 0x1DBF, 4);
  (0x1DC0, 0x1DFF, 6); (0x1E00, 0x1EFF, 29); (0x1F00, 0x1FFF, 30); (0x2000, 0x206F, 31);
  (0x2070, 0x209F, 32); (0x20A0, 0x20CF, 33); (0x20D0, 0x20FF, 34); (0x2100, 0x214F, 35);
  (0x2150, 0x218F, 36); (0x2190, 0x21FF, 37); (0x2200, 0x22FF, 38); (0x2300, 0x23FF, 39);
  (0x2400, 0x243F, 40); (0x2440, 0x245F, 41); (0x2460, 0x24FF, 42); (0x2500, 0x257F, 43);
  (0x2580, 0x259F, 44); (0x25A0, 0x25FF, 45); (0x2600, 0x26FF, 46); (0x2700, 0x27BF, 47);
  (0x27C0, 0x27EF, 38); (0x27F0, 0x27FF, 37); (0x2800, 0x28FF, 82); (0x2900, 0x297F, 37);
  (0x2980, 0x29FF, 38); (0x2A00, 0x2AFF, 38); (0x2B00, 0x2BFF, 37); (0x2C00, 0x2C5F, 97);
  (0x2C60, 0x2C7F, 29); (0x2C80, 0x2CFF, 8); (0x2D00, 0x2D2F, 26); (0x2D30, 0x2D7F, 98);
  (0x2D80, 0x2DDF, 75); (0x2DE0, 0x2DFF, 9); (0x2E00, 0x2E7F, 31); (0x2E80, 0x2EFF, 59);
  (0x2F00, 0x2FDF, 59); (0x2FF0, 0x2FFF, 59); (0x3000, 0x303F, 48); (0x3040, 0x309F, 49);
  (0x30A0, 0x30FF, 50); (0x3100, 0x312F, 51); (0x3130, 0x318F, 52); (0x3190, 0x319F, 59);
  (0x31A0, 0x31BF, 51); (0x31C0, 0x31EF, 61); (0x31F0, 0x31FF, 50); (0x3200, 0x32FF, 54);
  (0x3300, 0x33FF, 55); (0x3400, 0x4DBF, 59); (0x4DC0, 0x4DFF, 99); (0x4E00, 0x9FFF, 59);
  (0xA000, 0xA48F, 83); (0xA490, 0xA4CF, 83); (0xA500, 0xA63F, 12); (0xA640, 0xA69F, 9);
  (0xA700, 0xA71F, 5); (0xA720, 0xA7FF, 29); (0xA800, 0xA82F, 100); (0xA840, 0xA87F, 53);
  (0xA880, 0xA8DF, 115); (0xA900, 0xA92F, 116); (0xA930, 0xA95F, 117); (0xAA00, 0xAA5F, 118);
  (0xAC00, 0xD7AF, 56); (0xD800, 0xDFFF, 57); (0xE000, 0xF8FF, 60); (0xF900, 0xFAFF, 61);
  (0xFB00, 0xFB4F, 62); (0xFB50, 0xFDFF, 63); (0xFE00, 0xFE0F, 91); (0xFE10, 0xFE1F, 65);
  (0xFE20, 0xFE2F, 64); (0xFE30, 0xFE4F, 65); (0xFE50, 0xFE6F, 66); (0xFE70, 0xFEFF, 67);
  (0xFF00, 0xFFEF, 68); (0xFFF0, 0xFFFF, 69); (0x10000, 0x1007F, 101); (0x10080, 0x100FF, 101);
  (0x10100, 0x1013F, 101); (0x10140, 0x1018F, 102); (0x10190, 0x101CF, 119); (0x101D0, 0x101FF, 120);
  (0x10280, 0x1029F, 121); (0x102A0, 0x102DF, 121); (0x10300, 0x1032F, 85); (0x10330, 0x1034F, 86);
  (0x10380, 0x1039F, 103); (0x103A0, 0x103DF, 104); (0x10400, 0x1044F, 87); (0x10450, 0x1047F, 105);
  (0x10480, 0x104AF, 106); (0x10800, 0x1083F, 107); (0x10900, 0x1091F, 58); (0x10920, 0x1093F, 121);
  (0x10A00, 0x10A5F, 108); (0x12000, 0x123FF, 110); (0x12400, 0x1247F, 110); (0x1D000, 0x1D0FF, 88);
  (0x1D100, 0x1D1FF, 88); (0x1D200, 0x1D24F, 88); (0x1D300, 0x1D35F, 109); (0x1D360, 0x1D37F, 111);
  (0x1D400, 0x1D7FF, 89); (0x1F000, 0x1F02F, 122); (0x1F030, 0x1F09F, 122); (0x20000, 0x2A6DF, 59);
  (0x2F800, 0x2FA1F, 61); (0xE0000, 0xE007F, 92); (0xE0100, 0xE01EF, 91); (0xF0000, 0xFFFFD, 90);
  (0x100000, 0x10FFFD, 90)].

Definition ranges_eqb (a b : list (N * N * N)) : bool :=
  list_eqb' (fun x y => (fst (fst x) =? fst (fst y)) && (snd (fst x) =? snd (fst y)) && (snd x =? snd y)) a b.

(* slice::binary_search_by with the comparator of add_unicode_range_bits.  For a table of disjoint
   ascending ranges at most one index can match, so any correct binary search returns it. *)
Fixpoint bsearch (fuel : nat) (tbl : list (N * N * N)) (lo hi : nat) (cp : N) : option nat :=
  match fuel with
  | O => None
  | S f =>
    if (hi <=? lo)%nat then None else
    let mid := (lo + (hi - lo) / 2)%nat in
    match nth_error tbl mid with
    | None => None
    | Some (a, b, _) =>
      if cp <? a then bsearch f tbl lo mid cp
      else if b <? cp then bsearch f tbl (S mid) hi cp
      else Some mid
    end
  end.

Definition range_bit (tbl : list (N * N * N)) (cp : N) : option N :=
  match bsearch (S (length tbl)) tbl 0 (length tbl) cp with
  | Some i => match nth_error tbl i with Some (_, _, bit) => Some bit | None => None end
  | None => None
  end.

Definition unicode_bits_of (cp : N) : list N :=
  (match range_bit unicode_ranges cp with Some b => [b] | None => [] end)
  ++ (if (0x10000 <=? cp) && (cp <=? 0x10FFFF) then [57] else []).

(* bits -> 32-bit words: word i collects 1 << (bit - 32 i) *)
Definition pack_word (bits : list N) (i : N) : N :=
  fold_left (fun w b => if b / 32 =? i then N.lor w (N.shiftl 1 (b - 32 * i)) else w) bits 0.

Definition unicode_range_words (cps : list N) : N * N * N * N :=
  let bits := flat_map unicode_bits_of cps in
  (pack_word bits 0, pack_word bits 1, pack_word bits 2, pack_word bits 3).

(* codepage_range_bits: every rule only asks whether characters are present *)
Definition mem (c : N) (cps : list N) : bool := existsb (N.eqb c) cps.
Fixpoint nrange (lo : N) (n : nat) : list N := match n with O => [] | S k => lo :: nrange (N.succ lo) k end.
Definition has_ascii (cps : list N) : bool := forallb (fun c => mem c cps) (nrange 0x20 94).  (* 0x20..0x7E exclusive *)

Definition codepage_bits_raw (cps : list N) : list N :=
  let has c := mem c cps in
  let ascii := has_ascii cps in
  let lineart := has 0x2524 in
  let sqrt := has 0x221A in
  let rule (cond : bool) (bit : N) := if cond then [bit] else [] in
  rule (has 0xDE && ascii) 0
  ++ rule (has 0x13D && ascii) 1 ++ rule (has 0x13D && ascii && lineart) 58
  ++ rule (has 0x411) 2 ++ rule (has 0x411 && has 0x405 && lineart) 57 ++ rule (has 0x411 && has 0x255C && lineart) 49
  ++ rule (has 0x386) 3 ++ rule (has 0x386 && lineart && has 0xBD) 48 ++ rule (has 0x386 && lineart && sqrt) 60
  ++ rule (has 0x130 && ascii) 4 ++ rule (has 0x130 && ascii && lineart) 56
  ++ rule (has 0x5D0) 5 ++ rule (has 0x5D0 && lineart && sqrt) 53
  ++ rule (has 0x631) 6 ++ rule (has 0x631 && sqrt) 51 ++ rule (has 0x631 && lineart) 61
  ++ rule (has 0x157 && ascii) 7 ++ rule (has 0x157 && ascii && lineart) 59
  ++ rule (has 0x20AB && ascii) 8
  ++ rule (has 0xE45) 16 ++ rule (has 0x30A8) 17 ++ rule (has 0x3105) 18 ++ rule (has 0x3131) 19
  ++ rule (has 0x592E) 20 ++ rule (has 0xACF4) 21
  ++ rule (has 0x2665 && ascii) 30
  ++ rule (has 0xFE && ascii && lineart) 54
  ++ rule (has 0x255A && ascii) 62 ++ rule (has 0x255A && ascii) 63
  ++ rule (has 0xC5 && ascii && lineart && sqrt) 50
  ++ rule (has 0xE9 && ascii && lineart && sqrt) 52
  ++ rule (has 0xF5 && ascii && lineart && sqrt) 55
  ++ rule (ascii && has 0x2030 && has 0x2211) 29.

Definition codepage_bits (cps : list N) : list N :=
  match codepage_bits_raw cps with [] => [0] | l => l end.

Definition codepage_words (cps : list N) : N * N :=
  let bits := codepage_bits cps in (pack_word bits 0, pack_word bits 1).

(* max_context.rs: a lookup is a list of subtables; a subtable is summarised by what counts *)
Inductive subtable :=
| StFixed (k : N)                 (* single/multiple/alternate 1, pair 2, cursive/mark 0 *)
| StLigature (components : list N)  (* component count of every ligature (first glyph included) *)
| StContext (glyphs : list N)       (* glyph count of every rule (formats 1, 2, 3) *)
| StChain (rules : list (N * N))    (* (input count, lookahead count) of every rule *)
| StReverse (lookahead : N).

Definition list_max (l : list N) : N := fold_right N.max 0 l.

Definition sub_context (s : subtable) : N :=
  match s with
  | StFixed k => k
  | StLigature l => list_max l
  | StContext l => list_max l
  | StChain l => list_max (map (fun r => fst r + snd r) l)
  | StReverse la => 1 + la
  end.

Definition max_context (lookups : list (list subtable)) : N :=
  list_max (map (fun l => list_max (map sub_context l)) lookups).

(* ------------------------------------------------------------------------------------------ *)
(** * 6. The whole-font checker: recompute every summary field from the decoded tables *)
Open Scope Z_scope.

Record dglyph := mkG { dg_adv : Z; dg_lsb : Z; dg_body : dbody }.

Record dfont := mkF {
  f_glyphs : list dglyph;                 (* glyf entry + expanded hmtx pair, by glyph id *)
  f_numh : N;                             (* hhea.numberOfHMetrics *)
  f_head_bbox : bbox;
  f_hhea : Z * Z * Z * Z;                 (* advanceWidthMax, minLSB, minRSB, xMaxExtent *)
  f_maxp : N * N * N * N * N * N;         (* points, contours, comp. points, comp. contours, elements, depth *)
  f_loca_long : bool;                     (* head.indexToLocFormat = 1 *)
  f_offsets : list N;                     (* loca, in bytes *)
  f_glyf_len : N;
  f_os2 : Z * N * N;                      (* xAvgCharWidth, usFirstCharIndex, usLastCharIndex *)
  f_ur : N * N * N * N;
  f_cp : N * N;
  f_maxctx : N;
  f_cps : list N;                         (* code points of cmap *)
  f_lookups : list (list subtable);       (* GSUB then GPOS lookups *)
  f_vert : option (list (Z * Z) * N * (Z * Z * Z * Z))  (* expanded vmtx, numOfLongVerMetrics, vhea *)
}.

Definition body_bbox (b : dbody) : option bbox :=
  match b with DEmpty => None | DSimple bb _ _ => Some bb | DComposite bb _ => Some bb end.

Definition to_glyph (b : dbody) : glyph :=
  match b with
  | DEmpty => GEmpty
  | DSimple bb cs _ => GSimple cs bb
  | DComposite bb comps => GComposite (map comp_gid comps) bb
  end.

(* what MetricAndLimitWork feeds the builder: advance, xMin (0 without outline), xMax - xMin *)
Definition h_input (g : dglyph) : minput :=
  match body_bbox (dg_body g) with
  | Some (x0, _, x1, _) => (dg_adv g, x0, Some (x1 - x0))
  | None => (dg_adv g, 0, None)
  end.

(* VerticalMetricsWork: advance height, top side bearing, yMax - yMin *)
Definition v_input (g : dglyph) (m : Z * Z) : minput :=
  match body_bbox (dg_body g) with
  | Some (_, y0, _, y1) => (fst m, snd m, Some (y1 - y0))
  | None => (fst m, snd m, None)
  end.

Definition quad_eqb (a b : Z * Z * Z * Z) : bool := bbox_eqb a b.

Definition check_hmetrics (f : dfont) : bool :=
  let m := mb_run (map h_input (f_glyphs f)) in
  forallb (fun g => 0 <=? dg_adv g) (f_glyphs f) &&
  match hmtx_expand (m_long m) (m_sbs m) with
  | Some e => list_eqb' pairZ_eqb e (map (fun g => (dg_adv g, dg_lsb g)) (f_glyphs f))
  | None => false
  end
  && (lenN (m_long m) =? f_numh f)%N
  && quad_eqb (f_hhea f) (m_amax m, m_min1 m, m_min2 m, m_ext m).

Fixpoint zip {A B} (a : list A) (b : list B) : list (A * B) :=
  match a, b with x :: a', y :: b' => (x, y) :: zip a' b' | _, _ => [] end.

Definition check_vmetrics (f : dfont) : bool :=
  match f_vert f with
  | None => true
  | Some (vm, numv, vhea) =>
    let m := mb_run (map (fun gm => v_input (fst gm) (snd gm)) (zip (f_glyphs f) vm)) in
    (length vm =? length (f_glyphs f))%nat
    && (lenN (m_long m) =? numv)%N
    && quad_eqb vhea (m_amax m, m_min1 m, m_min2 m, m_ext m)
  end.

Definition font_glyphs (f : dfont) : list glyph := map (fun g => to_glyph (dg_body g)) (f_glyphs f).

(* the glyf format cannot hold more: endPtsOfContours and numberOfContours are 16-bit *)
Definition simple_fits_b (gl : list glyph) : bool :=
  forallb (fun g => match g with
                    | GSimple cs _ => (sumN cs <? 65536)%N && (lenN cs <? 65536)%N
                    | _ => true
                    end) gl.

Definition check_limits (f : dfont) : bool :=
  let gl := font_glyphs f in
  let '(p, c, cp, cc, el, d) := f_maxp f in
  match limits_run Checked gl (composite_ids 0 gl) with
  | LOk o =>
    simple_fits_b gl &&
    (lo_pts o =? p)%N && (lo_ctr o =? c)%N && (lo_cpts o =? cp)%N && (lo_cctr o =? cc)%N
    && (lo_elems o =? el)%N && (lo_depth o =? d)%N
    && bbox_eqb (f_head_bbox f) (match lo_bbox o with Some b => b | None => (0, 0, 0, 0) end)
  | _ => false
  end.

Definition check_composite_boxes (f : dfont) : bool :=
  let bodies := map dg_body (f_glyphs f) in
  forallb (fun b => match b with
                    | DComposite bb comps =>
                      match composite_bbox (S (length bodies)) bodies comps with
                      | Some bb' => bbox_eqb bb bb'
                      | None => false
                      end
                    | _ => true
                    end) bodies.

Definition check_loca (f : dfont) : bool :=
  Bool.eqb (loca_is_short (f_offsets f)) (negb (f_loca_long f))
  && (length (f_offsets f) =? S (length (f_glyphs f)))%nat.

Definition check_os2 (f : dfont) : bool :=
  let '(avg, first, last) := f_os2 f in
  let long := firstn (N.to_nat (f_numh f)) (map (fun g => (dg_adv g, dg_lsb g)) (f_glyphs f)) in
  let '(count, total) := xavg_parts long (Z.of_nat (length (f_glyphs f))) in
  (xavg_f64 count total =? avg)
  && (let '(mn, mx) := min_max_char (f_cps f) in (mn =? first)%N && (mx =? last)%N)
  && (let '(a, b, c, d) := unicode_range_words (f_cps f) in
      let '(a', b', c', d') := f_ur f in (a =? a')%N && (b =? b')%N && (c =? c')%N && (d =? d')%N)
  && (let '(a, b) := codepage_words (f_cps f) in let '(a', b') := f_cp f in (a =? a')%N && (b =? b')%N)
  && (max_context (f_lookups f) =? f_maxctx f)%N.

Definition check_font_report (f : dfont) : list bool :=
  [check_hmetrics f; check_vmetrics f; check_limits f; check_composite_boxes f; check_loca f; check_os2 f].

Definition check_font (f : dfont) : bool := forallb (fun b => b) (check_font_report f).
