(* C17 — the executable model of binary floating-point rounding (fp_round 53) is monotone and
   exact on the grid of multiples of 2^-20 below 2^33: the two hypotheses of xavg_fp_exact. *)
From Coq Require Import List NArith ZArith QArith Qpower Qround Qminmax Bool Lia Lqa.
From FV.C17 Require Import Model.
Import ListNotations.
Open Scope Q_scope.

Lemma pow2_pos : forall e, 0 < pow2 e.
Proof. intros e. unfold pow2. apply Qpower_0_lt. reflexivity. Qed.

Lemma pow2_plus : forall a b, pow2 (a + b) == pow2 a * pow2 b.
Proof. intros a b. unfold pow2. apply Qpower_plus. discriminate. Qed.

Lemma pow2_mono : forall a b, (a <= b)%Z -> pow2 a <= pow2 b.
Proof. intros a b H. unfold pow2. apply Qpower_le_compat_l; [exact H|discriminate]. Qed.

Lemma pow2_mono_inv : forall a b, pow2 a < pow2 b -> (a < b)%Z.
Proof.
  intros a b H. destruct (Z_lt_ge_dec a b) as [|G]; [assumption|]. exfalso.
  assert (pow2 b <= pow2 a) by (apply pow2_mono; lia). lra.
Qed.

Lemma pow2_int : forall e, (0 <= e)%Z -> pow2 e == inject_Z (2 ^ e).
Proof. intros e He. unfold pow2. rewrite Zpower_Qpower by exact He. reflexivity. Qed.

Lemma pow2_div : forall a b, pow2 a / pow2 b == pow2 (a - b).
Proof.
  intros a b. pose proof (pow2_pos b). 
  assert (E : pow2 a == pow2 (a - b) * pow2 b) by (rewrite <- pow2_plus; replace (a - b + b)%Z with a by lia; reflexivity).
  rewrite E. field. lra.
Qed.

(* floor(log2 q) *)
Lemma qlog2_spec : forall q, 0 < q -> pow2 (qlog2 q) <= q /\ q < pow2 (qlog2 q + 1).
Proof.
  intros [n d] Hq. assert (Hn : (0 < n)%Z) by (unfold Qlt in Hq; cbn in Hq; lia).
  unfold qlog2. cbn [Qnum Qden].
  set (a := Z.log2 n). set (b := Z.log2 (Z.pos d)). set (k := (a - b)%Z).
  destruct (Z.log2_spec n Hn) as [A1 A2]. destruct (Z.log2_spec (Z.pos d) eq_refl) as [B1 B2].
  fold a in A1, A2. fold b in B1, B2.
  assert (Ha : (0 <= a)%Z) by apply Z.log2_nonneg. assert (Hb : (0 <= b)%Z) by apply Z.log2_nonneg.
  (* the same in Q *)
  assert (QA1 : pow2 a <= inject_Z n) by (rewrite pow2_int by lia; rewrite <- Zle_Qle; exact A1).
  assert (QA2 : inject_Z n < pow2 (a + 1)) by (rewrite pow2_int by lia; rewrite <- Zlt_Qlt; exact A2).
  assert (QB1 : pow2 b <= inject_Z (Z.pos d)) by (rewrite pow2_int by lia; rewrite <- Zle_Qle; exact B1).
  assert (QB2 : inject_Z (Z.pos d) < pow2 (b + 1)) by (rewrite pow2_int by lia; rewrite <- Zlt_Qlt; exact B2).
  assert (Qd : 0 < inject_Z (Z.pos d)) by (change 0 with (inject_Z 0); rewrite <- Zlt_Qlt; lia).
  assert (Eq : n # d == inject_Z n / inject_Z (Z.pos d)) by apply Qmake_Qdiv.
  (* 2^(k-1) < q < 2^(k+1) *)
  assert (Lo : pow2 (k - 1) < n # d).
  { rewrite Eq. apply Qlt_shift_div_l; [exact Qd|].
    assert (E : pow2 a == pow2 (k - 1) * pow2 (b + 1)) by (rewrite <- pow2_plus; replace (k - 1 + (b + 1))%Z with a by (unfold k; lia); reflexivity).
    pose proof (pow2_pos (k - 1)). nra. }
  assert (Hi : n # d < pow2 (k + 1)).
  { rewrite Eq. apply Qlt_shift_div_r; [exact Qd|].
    assert (E : pow2 (a + 1) == pow2 (k + 1) * pow2 b) by (rewrite <- pow2_plus; replace (k + 1 + b)%Z with (a + 1)%Z by (unfold k; lia); reflexivity).
    pose proof (pow2_pos (k + 1)). nra. }
  destruct (Qle_bool (pow2 k) (n # d)) eqn:E1.
  - apply Qle_bool_iff in E1. destruct (Qle_bool (pow2 (k + 1)) (n # d)) eqn:E2.
    + apply Qle_bool_iff in E2. lra.
    + split; [exact E1|exact Hi].
  - assert (~ pow2 k <= n # d) by (intro H; apply Qle_bool_iff in H; congruence).
    replace (k - 1 + 1)%Z with k by lia. split; lra.
Qed.

Lemma qlog2_mono : forall a b, 0 < a -> a <= b -> (qlog2 a <= qlog2 b)%Z.
Proof.
  intros a b Ha Hab. destruct (qlog2_spec a Ha) as [A1 _]. destruct (qlog2_spec b) as [_ B2]; [lra|].
  assert (pow2 (qlog2 a) < pow2 (qlog2 b + 1)) by lra. apply pow2_mono_inv in H. lia.
Qed.

Lemma qlog2_unique : forall q k, pow2 k <= q -> q < pow2 (k + 1) -> qlog2 q = k.
Proof.
  intros q k H1 H2. assert (Hq : 0 < q) by (pose proof (pow2_pos k); lra).
  destruct (qlog2_spec q Hq) as [S1 S2].
  assert (pow2 k < pow2 (qlog2 q + 1)) by lra. assert (pow2 (qlog2 q) < pow2 (k + 1)) by lra.
  apply pow2_mono_inv in H. apply pow2_mono_inv in H0. lia.
Qed.

(** round half to even *)
Lemma rhe_int : forall z : Z, round_half_even (inject_Z z) = z.
Proof.
  intros z. unfold round_half_even. rewrite Qfloor_Z.
  destruct (Qcompare_spec (inject_Z z - inject_Z z) (1 # 2)) as [E|E|E]; try reflexivity; exfalso; lra.
Qed.

Lemma rhe_bounds : forall q, (Qfloor q <= round_half_even q <= Qfloor q + 1)%Z.
Proof.
  intros q. unfold round_half_even. destruct (Qcompare (q - inject_Z (Qfloor q)) (1 # 2)); [destruct (Z.even (Qfloor q))| |]; lia.
Qed.

Lemma rhe_mono : forall a b, a <= b -> (round_half_even a <= round_half_even b)%Z.
Proof.
  intros a b H. pose proof (Qfloor_resp_le a b H) as Hf.
  destruct (Z.eq_dec (Qfloor a) (Qfloor b)) as [E|Hne].
  - unfold round_half_even. rewrite <- E. set (f := Qfloor a).
    destruct (Qcompare_spec (a - inject_Z f) (1 # 2)) as [Ea|Ea|Ea];
    destruct (Qcompare_spec (b - inject_Z f) (1 # 2)) as [Eb|Eb|Eb];
      try (destruct (Z.even f)); try lia; exfalso; lra.
  - pose proof (rhe_bounds a). pose proof (rhe_bounds b). lia.
Qed.

Lemma rhe_comp : forall a b, a == b -> round_half_even a = round_half_even b.
Proof. intros a b E. apply Z.le_antisymm; apply rhe_mono; rewrite E; apply Qle_refl. Qed.

(** fp_round 53 *)
Lemma fp_round_nonpos : forall p q, q <= 0 -> fp_round p q = 0.
Proof. intros p q H. unfold fp_round. apply Qle_bool_iff in H. now rewrite H. Qed.

Lemma fp_round_pos_eq : forall p q, 0 < q ->
  fp_round p q = inject_Z (round_half_even (q / pow2 (qlog2 q - (p - 1)))) * pow2 (qlog2 q - (p - 1)).
Proof.
  intros p q H. unfold fp_round. destruct (Qle_bool q 0) eqn:E; [|reflexivity].
  apply Qle_bool_iff in E. lra.
Qed.

Lemma fp_round_range : forall q, 0 < q ->
  pow2 (qlog2 q) <= fp_round 53 q /\ fp_round 53 q <= pow2 (qlog2 q + 1).
Proof.
  intros q Hq. rewrite fp_round_pos_eq by exact Hq. set (k := qlog2 q). set (e := (k - (53 - 1))%Z).
  destruct (qlog2_spec q Hq) as [S1 S2]. fold k in S1, S2.
  pose proof (pow2_pos e) as He.
  assert (L : pow2 52 <= q / pow2 e).
  { apply Qle_shift_div_l; [exact He|]. rewrite <- pow2_plus. replace (52 + e)%Z with k by (unfold e; lia). exact S1. }
  assert (U : q / pow2 e <= pow2 53).
  { apply Qle_shift_div_r; [exact He|]. rewrite <- pow2_plus. replace (53 + e)%Z with (k + 1)%Z by (unfold e; lia). lra. }
  assert (ML : (2 ^ 52 <= round_half_even (q / pow2 e))%Z).
  { rewrite <- (rhe_int (2 ^ 52)). apply rhe_mono. rewrite <- pow2_int by lia. exact L. }
  assert (MU : (round_half_even (q / pow2 e) <= 2 ^ 53)%Z).
  { rewrite <- (rhe_int (2 ^ 53)). apply rhe_mono. rewrite <- pow2_int by lia. exact U. }
  set (m := round_half_even (q / pow2 e)) in *.
  rewrite Zle_Qle in ML, MU. rewrite <- pow2_int in ML, MU by lia.
  assert (E1 : pow2 k == pow2 52 * pow2 e) by (rewrite <- pow2_plus; replace (52 + e)%Z with k by (unfold e; lia); reflexivity).
  assert (E2 : pow2 (k + 1) == pow2 53 * pow2 e) by (rewrite <- pow2_plus; replace (53 + e)%Z with (k + 1)%Z by (unfold e; lia); reflexivity).
  rewrite E1, E2. split; apply Qmult_le_compat_r; lra.
Qed.

Lemma fp_round_nonneg : forall q, 0 <= fp_round 53 q.
Proof.
  intros q. destruct (Qlt_le_dec 0 q) as [H|H].
  - destruct (fp_round_range q H) as [L _]. pose proof (pow2_pos (qlog2 q)). lra.
  - rewrite fp_round_nonpos by exact H. apply Qle_refl.
Qed.

Lemma fp_round_mono : forall a b, a <= b -> fp_round 53 a <= fp_round 53 b.
Proof.
  intros a b H. destruct (Qlt_le_dec 0 a) as [Ha|Ha].
  2:{ rewrite (fp_round_nonpos 53 a Ha). apply fp_round_nonneg. }
  assert (Hb : 0 < b) by lra.
  pose proof (qlog2_mono a b Ha H) as Hk.
  destruct (Z.eq_dec (qlog2 a) (qlog2 b)) as [E|Hne].
  - rewrite !fp_round_pos_eq by assumption. rewrite E. set (e := (qlog2 b - (53 - 1))%Z).
    pose proof (pow2_pos e) as He.
    assert (Hm : (round_half_even (a / pow2 e) <= round_half_even (b / pow2 e))%Z).
    { apply rhe_mono. apply Qle_shift_div_l; [exact He|]. unfold Qdiv. rewrite <- Qmult_assoc.
      rewrite (Qmult_comm (/ pow2 e)). rewrite Qmult_inv_r by lra. lra. }
    rewrite Zle_Qle in Hm. apply Qmult_le_compat_r; lra.
  - destruct (fp_round_range a Ha) as [_ U]. destruct (fp_round_range b Hb) as [L _].
    assert (pow2 (qlog2 a + 1) <= pow2 (qlog2 b)) by (apply pow2_mono; lia). lra.
Qed.

Lemma fp_round_grid : forall j : Z, (0 <= j < 2 ^ 53)%Z ->
  fp_round 53 (inject_Z j * (1 # 1048576)) == inject_Z j * (1 # 1048576).
Proof.
  intros j Hj. destruct (Z.eq_dec j 0) as [->|Hnz].
  { rewrite fp_round_nonpos; [reflexivity|]. change (inject_Z 0) with 0. lra. }
  set (q := inject_Z j * (1 # 1048576)).
  assert (Qj : 0 < inject_Z j) by (change 0 with (inject_Z 0); rewrite <- Zlt_Qlt; lia).
  assert (Hq : 0 < q) by (unfold q; lra).
  rewrite fp_round_pos_eq by exact Hq.
  (* the exponent of q is log2 j - 20 *)
  set (a := Z.log2 j). destruct (Z.log2_spec j ltac:(lia)) as [A1 A2]. fold a in A1, A2.
  assert (Ha : (0 <= a)%Z) by apply Z.log2_nonneg.
  assert (Ha52 : (a <= 52)%Z).
  { destruct (Z_le_gt_dec a 52) as [|G]; [assumption|]. exfalso.
    assert (2 ^ 53 <= 2 ^ a)%Z by (apply Z.pow_le_mono_r; lia). lia. }
  assert (E20 : (1 # 1048576) == pow2 (-20)) by reflexivity.
  assert (Hk : qlog2 q = (a - 20)%Z).
  { apply qlog2_unique; unfold q; rewrite E20.
    - replace (a - 20)%Z with (a + -20)%Z by lia. rewrite pow2_plus. apply Qmult_le_compat_r; [|pose proof (pow2_pos (-20)); lra].
      rewrite pow2_int by lia. rewrite <- Zle_Qle. exact A1.
    - replace (a - 20 + 1)%Z with ((a + 1) + -20)%Z by lia. rewrite pow2_plus.
      pose proof (pow2_pos (-20)).
      assert (inject_Z j < pow2 (a + 1)) by (rewrite pow2_int by lia; rewrite <- Zlt_Qlt; exact A2).
      apply Qmult_lt_compat_r; assumption. }
  rewrite Hk. set (e := (a - 20 - (53 - 1))%Z).
  (* q / 2^e is the integer j * 2^(52 - a) *)
  assert (Eint : q / pow2 e == inject_Z (j * 2 ^ (52 - a))).
  { rewrite inject_Z_mult, <- pow2_int by lia. unfold q. rewrite E20.
    pose proof (pow2_pos e).
    assert (E : pow2 (-20) == pow2 (52 - a) * pow2 e) by (rewrite <- pow2_plus; replace (52 - a + e)%Z with (-20)%Z by (unfold e; lia); reflexivity).
    rewrite E. field. lra. }
  rewrite (rhe_comp _ _ Eint), rhe_int. rewrite <- Eint. field. pose proof (pow2_pos e). lra.
Qed.
