(* C17 — lemmas.  The property theorems in Props.v are closed by `exact` from here. *)
From Coq Require Import List NArith ZArith QArith Qround Qminmax Bool Lia Permutation.
From Coq Require Import ZifyBool ZifyN ZifyNat.
From FV.C17 Require Import Model.
Import ListNotations.
Ltac Zify.zify_post_hook ::= Z.div_mod_to_equations.

(* ========================================================================================== *)
(** * 1. MetricsBuilder *)
Open Scope Z_scope.

Lemma fold_update_long : forall gs s,
  ms_long (fold_left mb_update gs s) = ms_long s ++ map (fun g : minput => (fst (fst g), snd (fst g))) gs.
Proof.
  induction gs as [|[[adv sb] ba] gs IH]; intros s; cbn [fold_left map].
  - now rewrite app_nil_r.
  - rewrite IH. unfold mb_update at 1. destruct ba; cbn [ms_long fst snd]; now rewrite <- app_assoc.
Qed.

Lemma run_len_le : forall a l, (run_len a l <= length l)%nat.
Proof.
  induction l as [|[a' s] l IH]; cbn [run_len length]; [lia|]. destruct (a' =? a); lia.
Qed.

Lemma run_len_firstn : forall a l, Forall (fun p => fst p = a) (firstn (run_len a l) l).
Proof.
  induction l as [|[a' s] l IH]; cbn [run_len]; [constructor|].
  destruct (Z.eqb_spec a' a); cbn [firstn]; constructor; auto.
Qed.

Lemma run_len_max : forall a l m, (m <= length l)%nat ->
  Forall (fun p => fst p = a) (firstn m l) -> (m <= run_len a l)%nat.
Proof.
  induction l as [|[a' s] l IH]; intros m Hm HF; cbn [length] in Hm.
  - cbn. lia.
  - destruct m as [|m]; [lia|]. cbn [firstn] in HF.
    pose proof (Forall_inv HF) as Hx. pose proof (Forall_inv_tail HF) as HF'.
    cbn [fst] in Hx. subst a'. cbn [run_len]. rewrite Z.eqb_refl.
    apply le_n_S. apply IH; [lia|assumption].
Qed.

Lemma in_skipn' : forall {A} n (l : list A) x, In x (skipn n l) -> In x l.
Proof.
  intros A n l x H. rewrite <- (firstn_skipn n l). apply in_or_app. now right.
Qed.

Lemma in_firstn' : forall {A} n (l : list A) x, In x (firstn n l) -> In x l.
Proof.
  intros A n l x H. rewrite <- (firstn_skipn n l). apply in_or_app. now left.
Qed.

(* expansion of a compressed table, in terms of the reversed list *)
Lemma expand_split : forall (R : list (Z * Z)) (r : nat) a s0 R',
  R = (a, s0) :: R' -> (1 <= r <= length R)%nat ->
  Forall (fun p => fst p = a) (firstn r R) ->
  hmtx_expand (rev (skipn (r - 1) R)) (map snd (rev (firstn (r - 1) R))) = Some (rev R).
Proof.
  intros R r a s0 R' HR Hr HF.
  assert (Hsplit : rev R = rev (skipn (r - 1) R) ++ rev (firstn (r - 1) R)).
  { rewrite <- rev_app_distr. now rewrite firstn_skipn. }
  assert (HF' : Forall (fun p => fst p = a) (rev (firstn (r - 1) R))).
  { apply Forall_rev. apply Forall_forall. intros x Hx.
    rewrite Forall_forall in HF. apply HF.
    replace r with ((r - 1) + 1)%nat by lia.
    rewrite <- (firstn_skipn (r - 1) (firstn (r - 1 + 1) R)).
    apply in_or_app. left. rewrite firstn_firstn. replace (Init.Nat.min (r - 1) (r - 1 + 1)) with (r - 1)%nat by lia.
    exact Hx. }
  unfold hmtx_expand. rewrite rev_involutive.
  destruct (map snd (rev (firstn (r - 1) R))) eqn:Hsbs.
  - rewrite Hsplit. destruct (rev (firstn (r - 1) R)); [now rewrite app_nil_r|discriminate].
  - rewrite <- Hsbs. clear Hsbs.
    destruct (skipn (r - 1) R) as [|[a1 s1] K] eqn:HK.
    + exfalso. assert (length (skipn (r - 1) R) = 0%nat) by now rewrite HK. rewrite skipn_length in H. lia.
    + (* the head of the kept part still lies in the run *)
      assert (Ha1 : a1 = a).
      { rewrite Forall_forall in HF. apply (HF (a1, s1)).
        assert (Hin : In (a1, s1) (firstn 1 (skipn (r - 1) R))) by (rewrite HK; now left).
        assert (firstn 1 (skipn (r - 1) R) = skipn (r - 1) (firstn r R)) as E.
        { rewrite skipn_firstn_comm. f_equal. lia. }
        rewrite E in Hin. eapply in_skipn'; exact Hin. }
      subst a1. rewrite Hsplit, <- HK. f_equal. f_equal.
      rewrite map_map. rewrite <- (map_id (rev (firstn (r - 1) R))) at 2.
      apply map_ext_in. intros [x y] Hx. rewrite Forall_forall in HF'.
      specialize (HF' _ Hx). cbn in *. now subst.
Qed.

Definition pair_of (g : minput) : Z * Z := (fst (fst g), snd (fst g)).

Lemma mb_run_long : forall gs, ms_long (fold_left mb_update gs ms_init) = map pair_of gs.
Proof. intros. now rewrite fold_update_long. Qed.

(* the two halves of the built table, seen from the reversed list *)
Lemma build_halves : forall (L : list (Z * Z)) a s0 R',
  rev L = (a, s0) :: R' ->
  let r := run_len a (rev L) in
  let k := (length L - num_lsb_only L)%nat in
  (1 <= r <= length L)%nat /\ k = (length L - (r - 1))%nat /\
  firstn k L = rev (skipn (r - 1) (rev L)) /\ skipn k L = rev (firstn (r - 1) (rev L)).
Proof.
  intros L a s0 R' HR r k.
  assert (Hr1 : (1 <= r)%nat).
  { unfold r. rewrite HR. cbn [run_len]. rewrite Z.eqb_refl. lia. }
  assert (Hr2 : (r <= length L)%nat).
  { unfold r. rewrite <- (rev_length L). apply run_len_le. }
  assert (Hk : k = (length L - (r - 1))%nat).
  { unfold k, num_lsb_only. rewrite HR. fold r. rewrite <- HR. reflexivity. }
  repeat split; try assumption.
  - rewrite <- (rev_involutive L) at 1. rewrite firstn_rev. rewrite rev_length. f_equal. f_equal. lia.
  - rewrite <- (rev_involutive L) at 1. rewrite skipn_rev. rewrite rev_length. f_equal. f_equal. lia.
Qed.

Lemma hmtx_reconstructs_list : forall L : list (Z * Z),
  let k := (length L - num_lsb_only L)%nat in
  hmtx_expand (firstn k L) (map snd (skipn k L)) = Some L.
Proof.
  intros L k. destruct (rev L) as [|[a s0] R'] eqn:HR.
  - assert (L = []) by (rewrite <- (rev_involutive L), HR; reflexivity). subst L. reflexivity.
  - destruct (build_halves L a s0 R' HR) as ((Hr1 & Hr2) & Hk & HF & HS).
    fold k in Hk, HF, HS. rewrite HF, HS.
    replace (Some L) with (Some (rev (rev L))) by now rewrite rev_involutive.
    eapply expand_split; [exact HR| rewrite rev_length; lia | apply run_len_firstn].
Qed.

Lemma hmtx_reconstructs : forall gs : list minput,
  let m := mb_run gs in
  hmtx_expand (m_long m) (m_sbs m) = Some (map pair_of gs)
  /\ (length (m_long m) + length (m_sbs m) = length gs)%nat.
Proof.
  intros gs m. unfold m, mb_run, mb_build. cbn [m_long m_sbs]. rewrite mb_run_long. split.
  - apply hmtx_reconstructs_list.
  - rewrite !map_length, firstn_length, skipn_length, !map_length. lia.
Qed.

(* Any other way of cutting the list that still expands to it keeps at least as many long metrics. *)
Lemma expand_some_tail : forall (P : list (Z * Z)) (sbs : list Z) L,
  sbs <> [] -> hmtx_expand P sbs = Some L ->
  exists a s0 P', rev P = (a, s0) :: P' /\ L = P ++ map (fun s => (a, s)) sbs.
Proof.
  intros P sbs L Hne H. unfold hmtx_expand in H.
  destruct sbs as [|s sbs]; [congruence|].
  destruct (rev P) as [|[a s0] P'] eqn:HP; [discriminate|].
  inversion H. eauto.
Qed.

Lemma num_long_minimal_list : forall (L : list (Z * Z)) n,
  hmtx_expand (firstn n L) (map snd (skipn n L)) = Some L ->
  (length L - num_lsb_only L <= n)%nat.
Proof.
  intros L n H.
  destruct (Nat.le_gt_cases (length L) n) as [Hge|Hlt]; [lia|].
  (* n < length L: the tail is not empty *)
  assert (Hne : map snd (skipn n L) <> []).
  { intro E. apply (f_equal (@length Z)) in E. rewrite map_length, skipn_length in E. cbn in E. lia. }
  destruct (expand_some_tail _ _ _ Hne H) as (a & s0 & P' & HP & HL).
  (* every element from position n-1 on has advance a *)
  assert (Hn : (1 <= n)%nat).
  { destruct n; [|lia]. cbn in HP. discriminate. }
  destruct (rev L) as [|[b t0] R'] eqn:HR.
  { assert (L = []) by (rewrite <- (rev_involutive L), HR; reflexivity). subst L. cbn in Hlt. lia. }
  assert (Hall : Forall (fun p => fst p = a) (firstn (length L - n + 1) (rev L))).
  { (* rev L = rev (tail) ++ rev (firstn n L) ; first (len-n) from tail, next one is last of firstn n L *)
    rewrite HL at 2. rewrite rev_app_distr, HP.
    assert (Hlen : length (rev (map (fun s : Z => (a, s)) (map snd (skipn n L)))) = (length L - n)%nat).
    { rewrite rev_length, !map_length, skipn_length. reflexivity. }
    rewrite firstn_app, Hlen.
    replace (length L - n + 1 - (length L - n))%nat with 1%nat by lia.
    apply Forall_app. split.
    - apply Forall_forall. intros x Hx. apply in_firstn' in Hx. apply in_rev in Hx.
      apply in_map_iff in Hx. destruct Hx as (s & <- & _). reflexivity.
    - cbn [firstn]. constructor; [reflexivity|constructor]. }
  assert (Hb : b = a).
  { rewrite HR in Hall. replace (length L - n + 1)%nat with (S (length L - n)) in Hall by lia.
    cbn [firstn] in Hall. apply Forall_inv in Hall. exact Hall. }
  subst b.
  assert (Hrun : (length L - n + 1 <= run_len a (rev L))%nat).
  { apply run_len_max; [rewrite rev_length; lia| exact Hall]. }
  unfold num_lsb_only. rewrite HR. rewrite <- HR. lia.
Qed.

Lemma num_long_minimal : forall (gs : list minput) n,
  hmtx_expand (firstn n (map pair_of gs)) (map snd (skipn n (map pair_of gs))) = Some (map pair_of gs) ->
  (length (m_long (mb_run gs)) <= n)%nat.
Proof.
  intros gs n H. unfold mb_run, mb_build. cbn [m_long]. rewrite mb_run_long.
  rewrite firstn_length. pose proof (num_long_minimal_list _ _ H). lia.
Qed.

(** ** extrema kept by the builder *)
Definition acc_min (o : option Z) (vs : list Z) : option Z := fold_left opt_min vs o.
Definition acc_max (o : option Z) (vs : list Z) : option Z := fold_left opt_max vs o.

Lemma acc_min_some : forall vs o, (o <> None \/ vs <> []) -> exists m, acc_min o vs = Some m.
Proof.
  induction vs as [|v vs IH]; intros o H; cbn.
  - destruct o; [eauto|]. destruct H; congruence.
  - apply IH. left. discriminate.
Qed.

Lemma acc_min_spec : forall vs o m, acc_min o vs = Some m ->
  (forall v, In v vs -> m <= v) /\ (forall x, o = Some x -> m <= x) /\ (o = Some m \/ In m vs).
Proof.
  induction vs as [|v vs IH]; intros o m H; cbn in H.
  - subst o. split; [intros v []|]. split; [intros x E; inversion E; lia|now left].
  - apply IH in H. destruct H as (H1 & H2 & H3). repeat split.
    + intros w [<-|Hw]; [|auto]. specialize (H2 _ eq_refl). destruct o; lia.
    + intros x ->. specialize (H2 _ eq_refl). lia.
    + destruct H3 as [H3|H3]; [|right; now right].
      unfold opt_min in H3. inversion H3 as [E]. destruct o as [x|].
      * destruct (Z.min_spec x v) as [[_ ->]|[_ ->]]; [now left|right; now left].
      * right. now left.
Qed.

Lemma acc_max_some : forall vs o, (o <> None \/ vs <> []) -> exists m, acc_max o vs = Some m.
Proof.
  induction vs as [|v vs IH]; intros o H; cbn.
  - destruct o; [eauto|]. destruct H; congruence.
  - apply IH. left. discriminate.
Qed.

Lemma acc_max_spec : forall vs o m, acc_max o vs = Some m ->
  (forall v, In v vs -> v <= m) /\ (forall x, o = Some x -> x <= m) /\ (o = Some m \/ In m vs).
Proof.
  induction vs as [|v vs IH]; intros o m H; cbn in H.
  - subst o. split; [intros v []|]. split; [intros x E; inversion E; lia|now left].
  - apply IH in H. destruct H as (H1 & H2 & H3). repeat split.
    + intros w [<-|Hw]; [|auto]. specialize (H2 _ eq_refl). destruct o; lia.
    + intros x ->. specialize (H2 _ eq_refl). lia.
    + destruct H3 as [H3|H3]; [|right; now right].
      unfold opt_max in H3. inversion H3 as [E]. destruct o as [x|].
      * destruct (Z.max_spec x v) as [[_ ->]|[_ ->]]; [right; now left|now left].
      * right. now left.
Qed.

Lemma acc_none_nil : forall vs, acc_min None vs = None -> vs = [].
Proof. intros [|v vs] H; [reflexivity|]. destruct (acc_min_some (v :: vs) None) as [m Hm]; [right; discriminate|congruence]. Qed.
Lemma acc_max_none_nil : forall vs, acc_max None vs = None -> vs = [].
Proof. intros [|v vs] H; [reflexivity|]. destruct (acc_max_some (v :: vs) None) as [m Hm]; [right; discriminate|congruence]. Qed.

Definition has_outline (g : minput) : bool := match snd g with Some _ => true | None => false end.
Definition adv_of (g : minput) : Z := fst (fst g).
Definition sb_of (g : minput) : Z := snd (fst g).

Lemma fold_update_extrema : forall gs s,
  let s' := fold_left mb_update gs s in
  ms_min1 s' = acc_min (ms_min1 s) (map sb_of (filter has_outline gs))
  /\ ms_min2 s' = acc_min (ms_min2 s) (map second_sb (filter has_outline gs))
  /\ ms_ext s' = acc_max (ms_ext s) (map extent_of (filter has_outline gs))
  /\ ms_amax s' = fold_left Z.max (map adv_of gs) (ms_amax s).
Proof.
  induction gs as [|[[adv sb] ba] gs IH]; intros s; cbn [fold_left].
  - cbn. auto.
  - specialize (IH (mb_update s (adv, sb, ba))). cbv zeta in IH.
    destruct IH as (I1 & I2 & I3 & I4). rewrite I1, I2, I3, I4.
    destruct ba as [b|]; cbn [filter has_outline snd map mb_update ms_min1 ms_min2 ms_ext ms_amax adv_of sb_of fst];
      cbn [acc_min acc_max fold_left]; auto.
Qed.

Lemma fold_max_spec : forall vs a0,
  let m := fold_left Z.max vs a0 in
  a0 <= m /\ (forall v, In v vs -> v <= m) /\ (m = a0 \/ In m vs).
Proof.
  induction vs as [|v vs IH]; intros a0; cbn [fold_left]; cbv zeta.
  - cbn. repeat split; try lia; try tauto.
  - specialize (IH (Z.max a0 v)). cbv zeta in IH. destruct IH as (H1 & H2 & H3). repeat split.
    + lia.
    + intros w [<-|Hw]; [lia|auto].
    + destruct H3 as [H3|H3]; [|right; now right].
      destruct (Z.max_spec a0 v) as [[_ E]|[_ E]]; rewrite E in *; [right; left; now symmetry|now left].
Qed.

(* The summary values of hhea/vhea, for every glyph list:
   - the advance maximum bounds every advance and is one of them (or 0 for no glyphs);
   - the minimum first side bearing, minimum second side bearing and maximum extent range over
     the glyphs with an outline, are attained there, and are 0 when there is none. *)
Definition is_min_over (vals : list Z) (m : Z) : Prop :=
  match vals with [] => m = 0 | _ => In m vals /\ forall v, In v vals -> m <= v end.
Definition is_max_over (vals : list Z) (m : Z) : Prop :=
  match vals with [] => m = 0 | _ => In m vals /\ forall v, In v vals -> v <= m end.

Lemma hhea_extrema_exact : forall gs : list minput,
  (forall g, In g gs -> 0 <= adv_of g) ->
  let m := mb_run gs in
  let outl := filter has_outline gs in
  is_max_over (map adv_of gs) (m_amax m)
  /\ is_min_over (map sb_of outl) (m_min1 m)
  /\ is_min_over (map second_sb outl) (m_min2 m)
  /\ is_max_over (map extent_of outl) (m_ext m).
Proof.
  intros gs Hpos m outl. unfold m, mb_run, mb_build. cbn [m_amax m_min1 m_min2 m_ext].
  destruct (fold_update_extrema gs ms_init) as (I1 & I2 & I3 & I4). cbv zeta in *.
  rewrite I1, I2, I3, I4. cbn [ms_init ms_min1 ms_min2 ms_ext ms_amax]. fold outl.
  repeat split.
  - unfold is_max_over. destruct (map adv_of gs) as [|v vs] eqn:E; [reflexivity|]. rewrite <- E.
    destruct (fold_max_spec (map adv_of gs) 0) as (H1 & H2 & H3). split; [|exact H2].
    destruct H3 as [H3|H3]; [|exact H3].
    (* the maximum is 0 = the start value: then some advance is 0 *)
    assert (Hv : In v (map adv_of gs)) by (rewrite E; now left).
    pose proof (H2 _ Hv) as Hle. apply in_map_iff in Hv. destruct Hv as (g & Hg & Hin).
    pose proof (Hpos _ Hin). rewrite H3 in Hle. assert (v = 0) by lia. subst v.
    rewrite H3, E. now left.
  - unfold is_min_over. destruct (map sb_of outl) as [|v vs] eqn:E; [reflexivity|]. rewrite <- E.
    destruct (acc_min_some (map sb_of outl) None) as [x Hx]; [right; rewrite E; discriminate|].
    rewrite Hx. cbn [unwrap0]. destruct (acc_min_spec _ _ _ Hx) as (H1 & _ & [H3|H3]); [discriminate|auto].
  - unfold is_min_over. destruct (map second_sb outl) as [|v vs] eqn:E; [reflexivity|]. rewrite <- E.
    destruct (acc_min_some (map second_sb outl) None) as [x Hx]; [right; rewrite E; discriminate|].
    rewrite Hx. cbn [unwrap0]. destruct (acc_min_spec _ _ _ Hx) as (H1 & _ & [H3|H3]); [discriminate|auto].
  - unfold is_max_over. destruct (map extent_of outl) as [|v vs] eqn:E; [reflexivity|]. rewrite <- E.
    destruct (acc_max_some (map extent_of outl) None) as [x Hx]; [right; rewrite E; discriminate|].
    rewrite Hx. cbn [unwrap0]. destruct (acc_max_spec _ _ _ Hx) as (H1 & _ & [H3|H3]); [discriminate|auto].
Qed.

Lemma clamp_i16_id : forall v, -32768 <= v <= 32767 -> clamp_i16 v = v.
Proof. intros v H. unfold clamp_i16. destruct (Z.ltb_spec v (-32768)); [lia|]. destruct (v >? 32767) eqn:E; [lia|reflexivity]. Qed.

Lemma clamp_i16_mono : forall a b, a <= b -> clamp_i16 a <= clamp_i16 b.
Proof.
  intros a b H. unfold clamp_i16.
  destruct (Z.ltb_spec a (-32768)), (Z.ltb_spec b (-32768)); destruct (a >? 32767) eqn:Ea; destruct (b >? 32767) eqn:Eb; lia.
Qed.

(* ========================================================================================== *)
(** * 2. update_composite_limits *)
Open Scope N_scope.

Definition comps_of (g : glyph) : option (list N) :=
  match g with GComposite c _ => Some c | _ => None end.

Definition small (l : limits) : Prop := l_pts l < 65536 /\ l_ctr l < 65536 /\ l_depth l < 65536.

Lemma fits16_small : forall l, fits16 l = true <-> small l.
Proof.
  intros l. unfold fits16, small. rewrite !andb_true_iff, !N.ltb_lt. tauto.
Qed.

Lemma finish_some : forall m l l', finish m l = Some l' -> l' = l /\ (m = Checked -> small l).
Proof.
  intros [] l l' H; cbn [finish] in H.
  - injection H as <-. split; [reflexivity|intros E; discriminate E].
  - destruct (fits16 l) eqn:E; [|discriminate]. injection H as <-. split; [reflexivity|]. intros _. apply fits16_small. exact E.
Qed.

Lemma finish_none : forall m l, finish m l = None -> m = Checked /\ ~ small l.
Proof.
  intros [] l H; cbn [finish] in H; [discriminate|].
  destruct (fits16 l) eqn:E; [discriminate|]. split; [reflexivity|]. intros Hs. apply fits16_small in Hs. congruence.
Qed.

Definition lim_le (a b : limits) : Prop :=
  l_pts a <= l_pts b /\ l_ctr a <= l_ctr b /\ l_depth a <= l_depth b.

Lemma lim_le_refl : forall a, lim_le a a.
Proof. intros a. unfold lim_le. lia. Qed.

Lemma lim_step_le : forall a e, lim_le a (lim_step a e).
Proof. intros a e. unfold lim_le, lim_step. cbn. lia. Qed.

Lemma fold_lim_step_le : forall ls a, lim_le a (fold_left lim_step ls a).
Proof.
  induction ls as [|e ls IH]; intros a; cbn [fold_left]; [apply lim_le_refl|].
  specialize (IH (lim_step a e)). pose proof (lim_step_le a e). unfold lim_le in *. lia.
Qed.

Section Limits.
Variable gl : list glyph.
Notation G := (glyph_at gl).

Definition simple_fits : Prop :=
  forall g cs bb, G g = Some (GSimple cs bb) -> sumN cs < 65536 /\ lenN cs < 65536.

(* the wrapping / panicking sums agree with the exact ones as long as nothing reaches 65536 *)
Definition mode_ok (m : mode) : Prop := m = Ideal \/ forall g l, has_limits gl g l -> small l.

Definition info0 : imap := fun g => option_map ginfo_of (G g).

Definition Inv (info : imap) : Prop :=
  forall g, match G g with
            | None => info g = None
            | Some gly => exists gi, info g = Some gi /\ gi_comps gi = comps_of gly
                /\ (forall l, gi_limits gi = Some l -> has_limits gl g l)
                /\ (comps_of gly = None -> gi_limits gi <> None)
            end.

Lemma Inv_info0 : simple_fits -> Inv info0.
Proof.
  intros Hfit g. unfold info0. destruct (G g) as [gly|] eqn:E; cbn [option_map]; [|reflexivity].
  exists (ginfo_of gly). split; [reflexivity|]. destruct gly as [|cs bb|c bb]; cbn [ginfo_of gi_comps gi_limits comps_of].
  - repeat split; try congruence. intros l H. inversion H. now apply HL_empty.
  - destruct (Hfit _ _ _ E) as [F1 F2]. unfold u16. rewrite !N.mod_small by assumption.
    repeat split; try congruence. intros l H. inversion H. now apply HL_simple with bb.
  - repeat split; try congruence.
Qed.

Lemma child_limits_sound : forall info, Inv info -> forall comps ls,
  child_limits info comps = RReady ls -> Forall2 (has_limits gl) comps ls.
Proof.
  intros info HI. induction comps as [|c t IH]; intros ls H; cbn [child_limits] in H.
  - inversion H. constructor.
  - destruct (info c) as [gi|] eqn:Ec; [|discriminate].
    destruct (child_limits info t) as [| |ls'] eqn:Et; try discriminate.
    destruct (gi_limits gi) as [l|] eqn:El; [|discriminate]. inversion H; subst.
    constructor; [|now apply IH].
    specialize (HI c). destruct (G c); [|congruence].
    destruct HI as (gi' & E1 & _ & E3 & _). rewrite Ec in E1. inversion E1; subst. auto.
Qed.

Definition unresolved (info : imap) (g : N) : Prop := exists gi, info g = Some gi /\ gi_limits gi = None.

Definition is_comp (g : N) : Prop := exists c bb, G g = Some (GComposite c bb).

Definition OmaxInv (m : mode) (info : imap) (omax : limits) (done : list limits) : Prop :=
  omax = fold_left lim_max done lim_zero
  /\ (forall l, In l done -> exists g, is_comp g /\ has_limits gl g l)
  /\ (forall g gi l, is_comp g -> info g = Some gi -> gi_limits gi = Some l -> In l done)
  /\ (m = Checked -> forall l, In l done -> small l).

Lemma upd_same : forall info k v, upd info k v k = Some v.
Proof. intros. unfold upd. now rewrite N.eqb_refl. Qed.
Lemma upd_other : forall info k v g, g <> k -> upd info k v g = info g.
Proof. intros. unfold upd. destruct (N.eqb_spec g k); [congruence|reflexivity]. Qed.

Lemma pass_sound : forall m pending info omax done info' kept omax',
  Inv info -> OmaxInv m info omax done ->
  pass m info pending omax = LOk (info', kept, omax') ->
  Inv info' /\ (exists done', OmaxInv m info' omax' done')
  /\ (forall g, In g kept -> In g pending)
  /\ (forall g, unresolved info' g -> unresolved info g /\ (In g pending -> In g kept))
  /\ (length kept <= length pending)%nat.
Proof.
  intros m. induction pending as [|gid rest IH]; intros info omax done info' kept omax' HI HO H;
    cbn [pass] in H.
  - inversion H; subst. repeat split; eauto; try tauto.
  - destruct (info gid) as [gi|] eqn:Egid; [|discriminate].
    destruct (gi_comps gi) as [comps|] eqn:Ecomps; [|discriminate].
    destruct (child_limits info comps) as [| |ls] eqn:Ech; [discriminate| |].
    + (* not yet: kept *)
      destruct (pass m info rest omax) as [[[i k] om]| | | |] eqn:Ep; try discriminate.
      inversion H; subst.
      destruct (IH _ _ _ _ _ _ HI HO Ep) as (I1 & I2 & I3 & I4 & I5).
      split; [exact I1|]. split; [exact I2|]. split; [|split].
      * intros g [<-|Hg]; [now left|right; auto].
      * intros g Hu. split; [apply (I4 g Hu)|].
        intros [<-|Hg]; [now left|]. right. apply (proj2 (I4 g Hu)). assumption.
      * cbn [length]. lia.
    + (* resolved now *)
      pose proof (child_limits_sound info HI comps ls Ech) as HF2.
      pose proof (HI gid) as Hg. destruct (G gid) as [gly|] eqn:EG; [|congruence].
      destruct Hg as (gi0 & E0 & Ec0 & El0 & En0). rewrite Egid in E0. inversion E0; subst gi0.
      rewrite Ecomps in Ec0. destruct gly as [|cs bb|c bb]; cbn [comps_of] in Ec0; try discriminate.
      inversion Ec0; subst c.
      assert (Hhl : has_limits gl gid (sum_limits ls)) by (eapply HL_comp; eauto).
      destruct (finish m (sum_limits ls)) as [limit|] eqn:Efin; [|discriminate].
      destruct (finish_some _ _ _ Efin) as [-> Hsmall].
      set (info1 := upd info gid (mkGI (Some (sum_limits ls)) (Some comps))) in *.
      assert (HI1 : Inv info1).
      { intros g. destruct (N.eq_dec g gid) as [->|Hne].
        - rewrite EG. unfold info1. rewrite upd_same. eexists. split; [reflexivity|].
          cbn [gi_comps gi_limits comps_of]. repeat split; try congruence.
        - unfold info1. rewrite upd_other by assumption. apply HI. }
      destruct HO as (O1 & O2 & O3 & O4).
      assert (HO1 : OmaxInv m info1 (lim_max omax (sum_limits ls)) (done ++ [sum_limits ls])).
      { split; [|split; [|split]].
        - rewrite fold_left_app. cbn [fold_left]. now rewrite <- O1.
        - intros l Hl. apply in_app_or in Hl. destruct Hl as [Hl|[<-|[]]]; [auto|].
          exists gid. split; [exists comps, bb; exact EG|exact Hhl].
        - intros g gi' l Hc Hi Hl. destruct (N.eq_dec g gid) as [->|Hne].
          + unfold info1 in Hi. rewrite upd_same in Hi. inversion Hi; subst. cbn in Hl. inversion Hl; subst.
            apply in_or_app. right. now left.
          + unfold info1 in Hi. rewrite upd_other in Hi by assumption. apply in_or_app. left. eauto.
        - intros Hm l Hl. apply in_app_or in Hl. destruct Hl as [Hl|[<-|[]]]; [auto|auto]. }
      destruct (IH _ _ _ _ _ _ HI1 HO1 H) as (I1 & I2 & I3 & I4 & I5).
      split; [exact I1|]. split; [exact I2|]. split; [|split].
      * intros g Hg. right. auto.
      * intros g Hu. destruct (I4 g Hu) as ((gi' & Ei & El) & Hk).
        destruct (N.eq_dec g gid) as [->|Hne].
        -- exfalso. unfold info1 in Ei. rewrite upd_same in Ei. inversion Ei; subst. discriminate.
        -- unfold info1 in Ei. rewrite upd_other in Ei by assumption. split; [exists gi'; auto|].
           intros [E|Hg]; [congruence|auto].
      * cbn [length]. lia.
Qed.

(* every component of a composite is a glyph of the font *)
Definition refs_ok : Prop :=
  forall g c bb, G g = Some (GComposite c bb) -> forall x, In x c -> G x <> None.

(* the component graph is acyclic: some rank strictly decreases along every reference *)
Definition acyclic (rank : N -> nat) : Prop :=
  forall g c bb, G g = Some (GComposite c bb) -> forall x, In x c -> (rank x < rank g)%nat.

Definition resolved (info : imap) (x : N) : Prop := exists gi l, info x = Some gi /\ gi_limits gi = Some l.

Lemma child_ready : forall info comps, (forall x, In x comps -> resolved info x) ->
  exists ls, child_limits info comps = RReady ls.
Proof.
  intros info. induction comps as [|c t IH]; intros H; cbn [child_limits]; [eauto|].
  destruct (H c) as (gi & l & E1 & E2); [now left|]. rewrite E1.
  destruct IH as [ls Els]; [intros x Hx; apply H; now right|]. rewrite Els, E2. eauto.
Qed.

Lemma child_not_missing : forall info comps, (forall x, In x comps -> info x <> None) ->
  child_limits info comps <> RMissing.
Proof.
  intros info. induction comps as [|c t IH]; intros H; cbn [child_limits]; [discriminate|].
  destruct (info c) as [gi|] eqn:E; [|exfalso; apply (H c); [now left|assumption]].
  assert (IH' := IH (fun x Hx => H x (or_intror Hx))).
  destruct (child_limits info t); [congruence|discriminate|]. destruct (gi_limits gi); discriminate.
Qed.

Lemma Inv_exists : forall info, Inv info -> forall x, G x <> None -> info x <> None.
Proof.
  intros info HI x Hx. specialize (HI x). destruct (G x); [|congruence].
  destruct HI as (gi & E & _). congruence.
Qed.

(* a composite whose recursive totals do not fit maxp's u16 fields *)
Definition too_big : Prop := exists g l, is_comp g /\ has_limits gl g l /\ ~ small l.

(* with well-formed references a pass cannot panic: it succeeds, or reports a total that does not fit *)
Lemma pass_outcomes : forall m, refs_ok -> forall pending info omax done,
  Inv info -> OmaxInv m info omax done -> (forall g, In g pending -> is_comp g) ->
  (exists info' kept omax', pass m info pending omax = LOk (info', kept, omax'))
  \/ (pass m info pending omax = LTooBig /\ m = Checked /\ too_big).
Proof.
  intros m Hrefs. induction pending as [|gid rest IH]; intros info omax done HI HO Hp; cbn [pass].
  - left. eauto.
  - destruct (Hp gid (or_introl eq_refl)) as (c & bb & EG).
    pose proof (HI gid) as Hg. rewrite EG in Hg. destruct Hg as (gi & Ei & Ec & El & _).
    rewrite Ei, Ec. cbn [comps_of].
    assert (Hnm : child_limits info c <> RMissing).
    { apply child_not_missing. intros x Hx. apply Inv_exists; [assumption|]. eapply Hrefs; eauto. }
    destruct (child_limits info c) as [| |ls] eqn:Ech; [congruence| |].
    + destruct (IH info omax done HI HO) as [(i & k & om & E)|(E & Hm & Hb)]; [intros g Hg; apply Hp; now right| |].
      * rewrite E. left. eauto.
      * rewrite E. right. auto.
    + pose proof (child_limits_sound info HI c ls Ech) as HF2.
      assert (Hhl : has_limits gl gid (sum_limits ls)) by (eapply HL_comp; eauto).
      destruct (finish m (sum_limits ls)) as [limit|] eqn:Efin.
      2:{ destruct (finish_none _ _ Efin) as [Hm Hns]. right. split; [reflexivity|]. split; [exact Hm|].
          exists gid, (sum_limits ls). split; [exists c, bb; exact EG|]. auto. }
      destruct (finish_some _ _ _ Efin) as [-> Hsmall].
      set (info1 := upd info gid (mkGI (Some (sum_limits ls)) (Some c))).
      assert (HI1 : Inv info1).
      { intros g. destruct (N.eq_dec g gid) as [->|Hne].
        - rewrite EG. unfold info1. rewrite upd_same. eexists. split; [reflexivity|].
          cbn [gi_comps gi_limits comps_of]. repeat split; try congruence.
        - unfold info1. rewrite upd_other by assumption. apply HI. }
      destruct HO as (O1 & O2 & O3 & O4).
      assert (HO1 : OmaxInv m info1 (lim_max omax (sum_limits ls)) (done ++ [sum_limits ls])).
      { split; [|split; [|split]].
        - rewrite fold_left_app. cbn [fold_left]. now rewrite <- O1.
        - intros l Hl. apply in_app_or in Hl. destruct Hl as [Hl|[<-|[]]]; [auto|].
          exists gid. split; [exists c, bb; exact EG|exact Hhl].
        - intros g gi' l Hc Hi Hl. destruct (N.eq_dec g gid) as [->|Hne].
          + unfold info1 in Hi. rewrite upd_same in Hi. inversion Hi; subst. cbn in Hl. inversion Hl; subst.
            apply in_or_app. right. now left.
          + unfold info1 in Hi. rewrite upd_other in Hi by assumption. apply in_or_app. left. eauto.
        - intros Hm l Hl. apply in_app_or in Hl. destruct Hl as [Hl|[<-|[]]]; [auto|auto]. }
      apply (IH info1 _ _ HI1 HO1). intros g Hg. apply Hp. now right.
Qed.

(* a glyph whose components are all resolved when the pass starts is dropped by it *)
Lemma pass_progress : forall m pending info omax info' kept omax',
  pass m info pending omax = LOk (info', kept, omax') ->
  (exists g gi comps ls, In g pending /\ info g = Some gi /\ gi_comps gi = Some comps
                         /\ child_limits info comps = RReady ls) ->
  (length kept < length pending)%nat.
Proof.
  intros m. induction pending as [|gid rest IH]; intros info omax info' kept omax' H Hex; cbn [pass] in H.
  - destruct Hex as (g & _ & _ & _ & [] & _).
  - destruct (info gid) as [gi|] eqn:Egid; [|discriminate].
    destruct (gi_comps gi) as [comps|] eqn:Ecomps; [|discriminate].
    destruct (child_limits info comps) as [| |ls] eqn:Ech; [discriminate| |].
    + destruct (pass m info rest omax) as [[[i k] om]| | | |] eqn:Ep; try discriminate.
      inversion H; subst. cbn [length]. apply -> Nat.succ_lt_mono.
      eapply IH; [exact Ep|].
      destruct Hex as (g & gi' & comps' & ls' & [<-|Hin] & E1 & E2 & E3).
      * rewrite Egid in E1. inversion E1; subst. rewrite Ecomps in E2. inversion E2; subst. congruence.
      * exists g, gi', comps', ls'. auto.
    + destruct (finish m (sum_limits ls)) as [limit|]; [|discriminate].
      (* the head is dropped: whatever the rest does, the result is shorter *)
      clear IH Hex.
      assert (Hlen : forall pend inf om i k o, pass m inf pend om = LOk (i, k, o) -> (length k <= length pend)%nat).
      { induction pend as [|x xs IHx]; intros inf om i k o Hp; cbn [pass] in Hp.
        - inversion Hp. cbn. lia.
        - destruct (inf x) as [gx|]; [|discriminate]. destruct (gi_comps gx) as [cx|]; [|discriminate].
          destruct (child_limits inf cx) as [| |lx]; [discriminate| |].
          + destruct (pass m inf xs om) as [[[i2 k2] o2]| | | |] eqn:E2; try discriminate.
            inversion Hp; subst. cbn [length]. specialize (IHx _ _ _ _ _ E2). lia.
          + destruct (finish m (sum_limits lx)); [|discriminate].
            specialize (IHx _ _ _ _ _ Hp). cbn [length]. lia. }
      specialize (Hlen _ _ _ _ _ _ H). cbn [length]. lia.
Qed.

Lemma min_rank_elem : forall (rank : N -> nat) (l : list N), l <> [] ->
  exists g, In g l /\ forall x, In x l -> (rank g <= rank x)%nat.
Proof.
  intros rank. induction l as [|a l IH]; intros Hne; [congruence|].
  destruct l as [|b l'].
  - exists a. split; [now left|]. intros x [<-|[]]. lia.
  - destruct IH as (g & Hin & Hmin); [discriminate|].
    destruct (Nat.le_gt_cases (rank a) (rank g)) as [Hle|Hgt].
    + exists a. split; [now left|]. intros x [<-|Hx]; [lia|]. specialize (Hmin x Hx). lia.
    + exists g. split; [now right|]. intros x [<-|Hx]; [lia|auto].
Qed.

Definition lim_fields_attained (L : limits) (done : list limits) : Prop :=
  (l_pts L = 0 \/ exists l, In l done /\ l_pts l = l_pts L)
  /\ (l_ctr L = 0 \/ exists l, In l done /\ l_ctr l = l_ctr L)
  /\ (l_depth L = 0 \/ exists l, In l done /\ l_depth l = l_depth L).

Lemma fold_lim_max_spec : forall done a,
  let L := fold_left lim_max done a in
  lim_le a L /\ (forall l, In l done -> lim_le l L)
  /\ (l_pts L = l_pts a \/ exists l, In l done /\ l_pts l = l_pts L)
  /\ (l_ctr L = l_ctr a \/ exists l, In l done /\ l_ctr l = l_ctr L)
  /\ (l_depth L = l_depth a \/ exists l, In l done /\ l_depth l = l_depth L).
Proof.
  induction done as [|d done IH]; intros a; cbn [fold_left]; cbv zeta.
  - split; [apply lim_le_refl|]. split; [intros l []|]. auto.
  - specialize (IH (lim_max a d)). cbv zeta in IH. destruct IH as (H1 & H2 & H3 & H4 & H5).
    set (L := fold_left lim_max done (lim_max a d)) in *.
    unfold lim_le, lim_max in *. cbn [l_pts l_ctr l_depth] in *.
    split; [lia|]. split.
    { intros l [<-|Hl]; [lia|]. apply H2. exact Hl. }
    split; [|split].
    + destruct H3 as [H3|(l & Hl & E)]; [|right; exists l; split; [now right|exact E]].
      destruct (N.max_spec (l_pts a) (l_pts d)) as [[_ E]|[_ E]]; rewrite E in H3; [|now left].
      right. exists d. split; [now left|congruence].
    + destruct H4 as [H4|(l & Hl & E)]; [|right; exists l; split; [now right|exact E]].
      destruct (N.max_spec (l_ctr a) (l_ctr d)) as [[_ E]|[_ E]]; rewrite E in H4; [|now left].
      right. exists d. split; [now left|congruence].
    + destruct H5 as [H5|(l & Hl & E)]; [|right; exists l; split; [now right|exact E]].
      destruct (N.max_spec (l_depth a) (l_depth d)) as [[_ E]|[_ E]]; rewrite E in H5; [|now left].
      right. exists d. split; [now left|congruence].
Qed.

(* what a successful run means *)
Definition limits_spec (L : limits) : Prop :=
  exists done,
    (forall l, In l done -> exists g, is_comp g /\ has_limits gl g l)
    /\ (forall g, is_comp g -> exists l, has_limits gl g l /\ In l done)
    /\ (forall l, In l done -> lim_le l L)
    /\ lim_fields_attained L done.

(* ... and, for the narrowing code, that every total did fit *)
Definition all_fit : Prop := forall g, is_comp g -> exists l, has_limits gl g l /\ small l.

Lemma loop_sound : forall m fuel info pending omax done L,
  Inv info -> OmaxInv m info omax done -> (forall g, unresolved info g -> In g pending) ->
  loop m fuel info pending omax = LOk L -> limits_spec L /\ (m = Checked -> all_fit).
Proof.
  intros m.
  assert (Hbase : forall info omax done, Inv info -> OmaxInv m info omax done ->
            (forall g, unresolved info g -> False) -> limits_spec omax /\ (m = Checked -> all_fit)).
  { intros info omax done HI (O1 & O2 & O3 & O4) HU.
    assert (Hall : forall g, is_comp g -> exists l, has_limits gl g l /\ In l done).
    { intros g Hc. pose proof Hc as (c & bb & EG). pose proof (HI g) as Hg. rewrite EG in Hg.
      destruct Hg as (gi & Ei & _ & El & _).
      destruct (gi_limits gi) as [l|] eqn:E.
      - exists l. split; [auto|]. eapply O3; eauto.
      - exfalso. apply (HU g). exists gi. auto. }
    split.
    - exists done. split; [exact O2|]. split; [exact Hall|].
      destruct (fold_lim_max_spec done lim_zero) as (_ & F2 & F3 & F4 & F5). cbv zeta in *.
      rewrite <- O1 in *. split; [exact F2|]. unfold lim_fields_attained. cbn [lim_zero l_pts l_ctr l_depth] in *. auto.
    - intros Hm g Hc. destruct (Hall g Hc) as (l & H1 & H2). exists l. split; [exact H1|]. apply (O4 Hm l H2). }
  induction fuel as [|f IH]; intros info pending omax done L HI HO HU H.
  - destruct pending as [|p ps]; cbn [loop] in H; [|discriminate].
    inversion H; subst. eapply Hbase; eauto.
  - destruct pending as [|p ps]; cbn [loop] in H.
    + inversion H; subst. eapply Hbase; eauto.
    + destruct (pass m info (p :: ps) omax) as [[[i k] om]| | | |] eqn:Ep; try discriminate.
      destruct (length k <? length (p :: ps))%nat; [|discriminate].
      destruct (pass_sound m _ _ _ _ _ _ _ HI HO Ep) as (I1 & (done' & I2) & I3 & I4 & I5).
      eapply IH; [exact I1|exact I2| |exact H].
      intros g Hu. destruct (I4 g Hu) as (Hu0 & Hk). apply Hk. apply HU. exact Hu0.
Qed.

(* on an acyclic table with existing references the loop never panics: it succeeds, or it reports
   a composite whose totals do not fit *)
Lemma loop_outcomes : forall m, refs_ok -> forall rank, acyclic rank ->
  forall fuel info pending omax done,
  (length pending <= fuel)%nat ->
  Inv info -> OmaxInv m info omax done ->
  (forall g, In g pending -> is_comp g) -> (forall g, unresolved info g -> In g pending) ->
  (exists L, loop m fuel info pending omax = LOk L)
  \/ (loop m fuel info pending omax = LTooBig /\ m = Checked /\ too_big).
Proof.
  intros m Hrefs rank Hacyc. induction fuel as [|f IH]; intros info pending omax done Hlen HI HO Hp HU.
  - destruct pending; [left; cbn; eauto|cbn in Hlen; lia].
  - destruct pending as [|p ps] eqn:Epend; [left; cbn; eauto|]. rewrite <- Epend in *.
    assert (Hne : pending <> []) by (rewrite Epend; discriminate).
    cbn [loop]. rewrite Epend. cbn [loop]. rewrite <- Epend.
    destruct (pass_outcomes m Hrefs pending info omax done HI HO Hp) as [(i & k & om & Ep)|(Ep & Hm & Hb)].
    2:{ rewrite Ep. right. auto. }
    rewrite Ep.
    destruct (pass_sound m _ _ _ _ _ _ _ HI HO Ep) as (I1 & (done' & I2) & I3 & I4 & I5).
    (* the pending glyph of least rank has every component resolved *)
    destruct (min_rank_elem rank pending Hne) as (g & Hgin & Hmin).
    destruct (Hp g Hgin) as (c & bb & EG).
    pose proof (HI g) as Hg. rewrite EG in Hg. destruct Hg as (gi & Ei & Ec & _ & _). cbn [comps_of] in Ec.
    assert (Hres : forall x, In x c -> resolved info x).
    { intros x Hx. pose proof (Hrefs _ _ _ EG x Hx) as Hex. pose proof (HI x) as Hxi.
      destruct (G x) as [gx|] eqn:EGx; [|congruence]. destruct Hxi as (gix & Eix & _ & _ & Hn).
      destruct (gi_limits gix) as [l|] eqn:El; [exists gix, l; auto|].
      exfalso. assert (Hxin : In x pending) by (apply HU; exists gix; auto).
      specialize (Hmin x Hxin). specialize (Hacyc _ _ _ EG x Hx). lia. }
    destruct (child_ready info c Hres) as (ls & Els).
    assert (Hlt : (length k < length pending)%nat).
    { eapply pass_progress; [exact Ep|]. exists g, gi, c, ls. auto. }
    destruct (Nat.ltb_spec (length k) (length pending)); [|lia].
    eapply IH; [lia|exact I1|exact I2| |].
    + intros x Hx. apply Hp. auto.
    + intros x Hu. destruct (I4 x Hu) as (Hu0 & Hk). apply Hk. apply HU. exact Hu0.
Qed.

Lemma OmaxInv_init : forall m info, Inv info -> (forall g, is_comp g -> unresolved info g) ->
  OmaxInv m info lim_zero [].
Proof.
  intros m info HI Hun. split; [reflexivity|]. split; [intros l []|]. split.
  - intros g gi l Hc Hi Hl. destruct (Hun g Hc) as (gi' & E1 & E2). congruence.
  - intros _ l [].
Qed.

Lemma info0_unresolved : forall g, unresolved info0 g <-> is_comp g.
Proof.
  intros g. unfold unresolved, is_comp, info0. split.
  - intros (gi & E1 & E2). destruct (G g) as [[|cs bb|c bb]|]; cbn in E1; inversion E1; subst; cbn in E2; try discriminate. eauto.
  - intros (c & bb & ->). cbn. eexists. split; reflexivity.
Qed.

Lemma mode_ok_not_too_big : forall m, mode_ok m -> m = Checked -> ~ too_big.
Proof.
  intros m [->|H] Hm; [discriminate|]. intros (g & l & _ & Hl & Hn). apply Hn. eapply H; eauto.
Qed.

(* The fixed point computes the recursive definition, whatever order the hash map yields the
   composites in — for the narrowing code as long as every total fits. *)
Lemma composite_limits_main : forall m rank pending,
  simple_fits -> refs_ok -> acyclic rank -> mode_ok m ->
  (forall g, In g pending <-> is_comp g) ->
  exists L, update_composite_limits m info0 pending = LOk L /\ limits_spec L.
Proof.
  intros m rank pending Hfit Hrefs Hacyc Hm Hpend.
  pose proof (Inv_info0 Hfit) as HI.
  assert (HO : OmaxInv m info0 lim_zero []) by (apply OmaxInv_init; [exact HI|intros g; apply info0_unresolved]).
  assert (HU : forall g, unresolved info0 g -> In g pending) by (intros g Hu; apply Hpend, info0_unresolved, Hu).
  assert (Hp : forall g, In g pending -> is_comp g) by (intros g; apply Hpend).
  destruct (loop_outcomes m Hrefs rank Hacyc (length pending) info0 pending lim_zero [] (le_n _) HI HO Hp HU)
    as [(L & HL)|(_ & Hc & Hb)].
  - exists L. split; [exact HL|]. eapply loop_sound; eauto.
  - exfalso. eapply mode_ok_not_too_big; eauto.
Qed.

(* A total that does not fit is reported as an error: never a wrapped value, never a panic. *)
Lemma composite_limits_overflow_reported : forall rank pending,
  simple_fits -> refs_ok -> acyclic rank ->
  (forall g, In g pending <-> is_comp g) ->
  (exists g, is_comp g /\ forall l, has_limits gl g l -> ~ small l) ->
  update_composite_limits Checked info0 pending = LTooBig.
Proof.
  intros rank pending Hfit Hrefs Hacyc Hpend (g & Hc & Hbig).
  pose proof (Inv_info0 Hfit) as HI.
  assert (HO : OmaxInv Checked info0 lim_zero []) by (apply OmaxInv_init; [exact HI|intros x; apply info0_unresolved]).
  assert (HU : forall x, unresolved info0 x -> In x pending) by (intros x Hu; apply Hpend, info0_unresolved, Hu).
  assert (Hp : forall x, In x pending -> is_comp x) by (intros x; apply Hpend).
  destruct (loop_outcomes Checked Hrefs rank Hacyc (length pending) info0 pending lim_zero [] (le_n _) HI HO Hp HU)
    as [(L & HL)|(HL & _)]; [|exact HL].
  exfalso. destruct (loop_sound Checked _ _ _ _ _ _ HI HO HU HL) as [_ Hfits].
  destruct (Hfits eq_refl g Hc) as (l & H1 & H2). exact (Hbig l H1 H2).
Qed.

Lemma composite_limits_sound : forall m pending L,
  simple_fits -> (forall g, is_comp g -> In g pending) ->
  update_composite_limits m info0 pending = LOk L -> limits_spec L /\ (m = Checked -> all_fit).
Proof.
  intros m pending L Hfit Hpend H.
  pose proof (Inv_info0 Hfit) as HI.
  assert (HO : OmaxInv m info0 lim_zero []) by (apply OmaxInv_init; [exact HI|intros g; apply info0_unresolved]).
  eapply loop_sound; eauto. intros g Hu. apply Hpend, info0_unresolved, Hu.
Qed.

End Limits.

(** ** the recursive definition is a function on acyclic glyph tables *)
Lemma Forall2_unique : forall (R : N -> limits -> Prop) comps ls ls',
  Forall2 R comps ls -> Forall2 R comps ls' ->
  (forall c l l', In c comps -> R c l -> R c l' -> l = l') -> ls = ls'.
Proof.
  intros R comps ls ls' H. revert ls'. induction H as [|c l comps ls Hc Hrest IH]; intros ls' H' Hu.
  - inversion H'. reflexivity.
  - inversion H' as [|c' l' comps' ls'' Hc' Hrest']; subst. f_equal.
    + eapply Hu; eauto. now left.
    + apply IH; [assumption|]. intros c0 a b Hin. apply Hu. now right.
Qed.

Lemma has_limits_unique : forall gl rank, acyclic gl rank ->
  forall g l l', has_limits gl g l -> has_limits gl g l' -> l = l'.
Proof.
  intros gl rank Hacyc.
  assert (H : forall n g, (rank g < n)%nat -> forall l l', has_limits gl g l -> has_limits gl g l' -> l = l').
  { induction n as [|n IH]; intros g Hr l l' H1 H2; [lia|].
    inversion H1 as [g1 E1|g1 cs1 bb1 E1|g1 c1 bb1 ls1 E1 F1]; subst;
    inversion H2 as [g2 E2|g2 cs2 bb2 E2|g2 c2 bb2 ls2 E2 F2]; subst; try congruence.
    all: rewrite E1 in E2; inversion E2; subst; try reflexivity.
    f_equal.
    eapply Forall2_unique; eauto. intros c a b Hin Ha Hb.
    eapply (IH c); eauto. specialize (Hacyc _ _ _ E1 c Hin). lia. }
  intros g. apply (H (S (rank g))). lia.
Qed.

(** ** MaxBuilder::update folded over the glyph order *)
Lemma mx_update_info : forall s id g, mx_info (mx_update s id g) = upd (mx_info s) id (ginfo_of g).
Proof. intros s id []; reflexivity. Qed.

Lemma mx_fold_info : forall gl s id g,
  mx_info (mx_fold s id gl) g =
  match (if id <=? g then nth_error gl (N.to_nat (g - id)) else None) with
  | Some gly => Some (ginfo_of gly)
  | None => mx_info s g
  end.
Proof.
  induction gl as [|x t IH]; intros s id g; cbn [mx_fold].
  - destruct (id <=? g); [destruct (N.to_nat (g - id))|]; reflexivity.
  - rewrite IH. rewrite mx_update_info.
    destruct (N.leb_spec (N.succ id) g) as [H|H].
    + destruct (N.leb_spec id g) as [H'|H']; [|lia].
      replace (N.to_nat (g - id)) with (S (N.to_nat (g - N.succ id))) by lia. cbn [nth_error].
      destruct (nth_error t (N.to_nat (g - N.succ id))); [reflexivity|].
      apply upd_other. lia.
    + destruct (N.leb_spec id g) as [H'|H'].
      * assert (g = id) by lia. subst g. rewrite N.sub_diag. cbn [N.to_nat nth_error]. apply upd_same.
      * apply upd_other. lia.
Qed.

Lemma mx_fold_info0 : forall gl g, mx_info (mx_fold mx_init 0 gl) g = info0 gl g.
Proof.
  intros gl g. rewrite mx_fold_info. cbn [N.leb]. rewrite N.sub_0_r. unfold info0, glyph_at.
  destruct (N.leb_spec 0 g) as [_|H]; [|lia].
  destruct (nth_error gl (N.to_nat g)); reflexivity.
Qed.

(* the loop only ever looks the map up, so maps that agree pointwise give the same result *)
Lemma child_limits_ext : forall i1 i2, (forall g, i1 g = i2 g) -> forall c, child_limits i1 c = child_limits i2 c.
Proof. intros i1 i2 H. induction c as [|x t IH]; cbn [child_limits]; [reflexivity|]. now rewrite H, IH. Qed.

Definition out_rel {A} (R : A -> A -> Prop) (a b : outcome A) : Prop :=
  match a, b with
  | LOk x, LOk y => R x y
  | LTooBig, LTooBig | LStuck, LStuck | LMissing, LMissing | LFuel, LFuel => True
  | _, _ => False
  end.

Lemma pass_ext : forall m pending i1 i2 omax, (forall g, i1 g = i2 g) ->
  out_rel (fun a b => (forall g, fst (fst a) g = fst (fst b) g) /\ snd (fst a) = snd (fst b) /\ snd a = snd b)
          (pass m i1 pending omax) (pass m i2 pending omax).
Proof.
  intros m. induction pending as [|gid rest IH]; intros i1 i2 omax H; cbn [pass].
  - cbn. auto.
  - rewrite <- H. destruct (i1 gid) as [gi|]; [|exact I]. destruct (gi_comps gi) as [c|]; [|exact I].
    rewrite <- (child_limits_ext i1 i2 H). destruct (child_limits i1 c) as [| |ls]; [exact I| |].
    + specialize (IH i1 i2 omax H).
      destruct (pass m i1 rest omax) as [[[a1 k1] o1]| | | |], (pass m i2 rest omax) as [[[a2 k2] o2]| | | |]; cbn in IH |- *; try tauto.
      destruct IH as (E1 & E2 & E3). cbn in *. subst. auto.
    + destruct (finish m (sum_limits ls)) as [limit|]; [|exact I].
      apply IH. intros g. unfold upd. destruct (g =? gid); [reflexivity|apply H].
Qed.

Lemma loop_ext : forall m fuel pending i1 i2 omax, (forall g, i1 g = i2 g) ->
  loop m fuel i1 pending omax = loop m fuel i2 pending omax.
Proof.
  intros m. induction fuel as [|f IH]; intros pending i1 i2 omax H; destruct pending as [|p ps]; cbn [loop]; try reflexivity.
  pose proof (pass_ext m (p :: ps) i1 i2 omax H) as HP.
  destruct (pass m i1 (p :: ps) omax) as [[[a1 k1] o1]| | | |], (pass m i2 (p :: ps) omax) as [[[a2 k2] o2]| | | |]; cbn in HP; try tauto.
  destruct HP as (E1 & E2 & E3). cbn [fst snd] in *. subst.
  rewrite (IH k2 a1 a2 o2 E1). reflexivity.
Qed.

Lemma composite_ids_spec : forall gl id g,
  In g (composite_ids id gl) <-> (id <= g /\ exists c bb, nth_error gl (N.to_nat (g - id)) = Some (GComposite c bb)).
Proof.
  induction gl as [|x t IH]; intros id g; cbn [composite_ids].
  - split; [intros []|]. intros (_ & c & bb & E). destruct (N.to_nat (g - id)); discriminate.
  - assert (Hrest : In g (composite_ids (N.succ id) t) <->
                    (id < g /\ exists c bb, nth_error (x :: t) (N.to_nat (g - id)) = Some (GComposite c bb))).
    { rewrite IH. split.
      - intros (Hle & c & bb & E). split; [lia|]. exists c, bb.
        replace (N.to_nat (g - id)) with (S (N.to_nat (g - N.succ id))) by lia. exact E.
      - intros (Hlt & c & bb & E). split; [lia|]. exists c, bb.
        replace (N.to_nat (g - id)) with (S (N.to_nat (g - N.succ id))) in E by lia. exact E. }
    destruct (is_composite x) eqn:Ex.
    + cbn [In]. rewrite Hrest. split.
      * intros [<-|(Hlt & Hex)]; [|split; [lia|exact Hex]].
        split; [lia|]. rewrite N.sub_diag. cbn. destruct x; try discriminate. eauto.
      * intros (Hle & Hex). destruct (N.eq_dec id g) as [->|Hne]; [now left|right]. split; [lia|exact Hex].
    + rewrite Hrest. split.
      * intros (Hlt & Hex). split; [lia|exact Hex].
      * intros (Hle & c & bb & E). destruct (N.eq_dec id g) as [->|Hne].
        -- rewrite N.sub_diag in E. cbn in E. inversion E; subst. discriminate.
        -- split; [lia|]. eauto.
Qed.

Lemma composite_ids_is_comp : forall gl g, In g (composite_ids 0 gl) <-> is_comp gl g.
Proof.
  intros gl g. rewrite composite_ids_spec. rewrite N.sub_0_r. unfold is_comp, glyph_at.
  split; [intros (_ & H); exact H|intros H; split; [lia|exact H]].
Qed.

(** ** the running maxima and the head box *)
Definition pts_list (gl : list glyph) : list N :=
  flat_map (fun g => match g with GSimple cs _ => [u16 (sumN cs)] | _ => [] end) gl.
Definition ctr_list (gl : list glyph) : list N :=
  flat_map (fun g => match g with GSimple cs _ => [u16 (lenN cs)] | _ => [] end) gl.
Definition elems_list (gl : list glyph) : list N :=
  flat_map (fun g => match g with GComposite c _ => [u16 (lenN c)] | _ => [] end) gl.
Definition boxes (gl : list glyph) : list bbox :=
  flat_map (fun g => match glyph_bbox g with Some b => [b] | None => [] end) gl.
Definition box_acc (o : option bbox) (b : bbox) : option bbox :=
  Some (match o with Some a => bbox_union a b | None => b end).

Lemma mx_fold_summary : forall gl s id,
  let s' := mx_fold s id gl in
  mx_pts s' = fold_left N.max (pts_list gl) (mx_pts s)
  /\ mx_ctr s' = fold_left N.max (ctr_list gl) (mx_ctr s)
  /\ mx_elems s' = fold_left N.max (elems_list gl) (mx_elems s)
  /\ mx_bbox s' = fold_left box_acc (boxes gl) (mx_bbox s).
Proof.
  induction gl as [|g t IH]; intros s id; cbn [mx_fold]; cbv zeta.
  - cbn. auto.
  - specialize (IH (mx_update s id g) (N.succ id)). cbv zeta in IH. destruct IH as (I1 & I2 & I3 & I4).
    rewrite I1, I2, I3, I4. unfold pts_list, ctr_list, elems_list, boxes. cbn [flat_map].
    destruct g as [|cs bb|c bb]; cbn [mx_update glyph_bbox mx_pts mx_ctr mx_elems mx_bbox app fold_left box_acc]; auto.
Qed.

Lemma fold_maxN_spec : forall vs a0,
  let m := fold_left N.max vs a0 in
  a0 <= m /\ (forall v, In v vs -> v <= m) /\ (m = a0 \/ In m vs).
Proof.
  induction vs as [|v vs IH]; intros a0; cbn [fold_left]; cbv zeta.
  - cbn. repeat split; try lia; try tauto.
  - specialize (IH (N.max a0 v)). cbv zeta in IH. destruct IH as (H1 & H2 & H3). repeat split.
    + lia.
    + intros w [<-|Hw]; [lia|auto].
    + destruct H3 as [H3|H3]; [|right; now right].
      destruct (N.max_spec a0 v) as [[_ E]|[_ E]]; rewrite E in *; [right; left; now symmetry|now left].
Qed.

Definition is_maxN_over (vals : list N) (m : N) : Prop :=
  match vals with [] => m = 0 | _ => In m vals /\ forall v, In v vals -> v <= m end.

Lemma fold_maxN_is_max : forall vs, is_maxN_over vs (fold_left N.max vs 0).
Proof.
  intros vs. unfold is_maxN_over. destruct vs as [|v vs'] eqn:E; [reflexivity|]. rewrite <- E.
  destruct (fold_maxN_spec vs 0) as (H1 & H2 & H3). cbv zeta in *. split; [|exact H2].
  destruct H3 as [H3|H3]; [|exact H3].
  assert (Hv : In v vs) by (rewrite E; now left). pose proof (H2 v Hv). rewrite H3 in *.
  assert (v = 0) by lia. subst v. exact Hv.
Qed.

Open Scope Z_scope.
Definition bx0 (b : bbox) : Z := fst (fst (fst b)).
Definition by0 (b : bbox) : Z := snd (fst (fst b)).
Definition bx1 (b : bbox) : Z := snd (fst b).
Definition by1 (b : bbox) : Z := snd b.
Definition inside (b r : bbox) : Prop := bx0 r <= bx0 b /\ by0 r <= by0 b /\ bx1 b <= bx1 r /\ by1 b <= by1 r.

Lemma box_fold_spec : forall bs o r, fold_left box_acc bs o = Some r ->
  (forall b, In b bs -> inside b r) /\ (forall a, o = Some a -> inside a r)
  /\ (exists b, (o = Some b \/ In b bs) /\ bx0 b = bx0 r)
  /\ (exists b, (o = Some b \/ In b bs) /\ by0 b = by0 r)
  /\ (exists b, (o = Some b \/ In b bs) /\ bx1 b = bx1 r)
  /\ (exists b, (o = Some b \/ In b bs) /\ by1 b = by1 r).
Proof.
  induction bs as [|v bs IH]; intros o r H; cbn [fold_left] in H.
  - subst o. split; [intros b []|]. split; [intros a E; inversion E; unfold inside; lia|].
    repeat split; exists r; auto.
  - apply IH in H. destruct H as (H1 & H2 & (b0 & B0 & E0) & (b1 & B1 & E1) & (b2 & B2 & E2) & (b3 & B3 & E3)).
    specialize (H2 _ eq_refl).
    assert (Hv : inside v r /\ forall a, o = Some a -> inside a r).
    { destruct o as [a|]; cbn [box_acc] in H2.
      - destruct a as [[[ax0 ay0] ax1] ay1], v as [[[vx0 vy0] vx1] vy1], r as [[[rx0 ry0] rx1] ry1].
        unfold inside, bx0, by0, bx1, by1, bbox_union in *. cbn [fst snd] in *.
        split; [lia|]. intros a' E; inversion E; subst. cbn [fst snd]. lia.
      - split; [exact H2|intros a E; discriminate]. }
    destruct Hv as (Hv & Ha).
    split; [intros b [<-|Hb]; auto|]. split; [exact Ha|].
    (* attained: an extreme of the union is an extreme of one of the two *)
    assert (Hatt : forall (p : bbox -> Z) (pick : Z -> Z -> Z),
              (forall x y, pick x y = x \/ pick x y = y) ->
              (forall a, p (bbox_union a v) = pick (p a) (p v)) ->
              forall b, (box_acc o v = Some b \/ In b bs) -> forall z, p b = z ->
              exists b', (o = Some b' \/ In b' (v :: bs)) /\ p b' = z).
    { intros p pick Hpick Hp b [Hb|Hb] z Hz.
      - destruct o as [a|]; cbn [box_acc] in Hb; inversion Hb; subst b.
        + rewrite Hp in Hz. destruct (Hpick (p a) (p v)) as [E|E]; rewrite E in Hz;
            [exists a; auto|exists v; split; [right; now left|exact Hz]].
        + exists v. split; [right; now left|exact Hz].
      - exists b. split; [right; now right|exact Hz]. }
    repeat split.
    + refine (Hatt bx0 Z.min _ _ b0 B0 _ E0); [intros x y; lia|].
      intros [[[ax0 ay0] ax1] ay1]; destruct v as [[[vx0 vy0] vx1] vy1]; reflexivity.
    + refine (Hatt by0 Z.min _ _ b1 B1 _ E1); [intros x y; lia|].
      intros [[[ax0 ay0] ax1] ay1]; destruct v as [[[vx0 vy0] vx1] vy1]; reflexivity.
    + refine (Hatt bx1 Z.max _ _ b2 B2 _ E2); [intros x y; lia|].
      intros [[[ax0 ay0] ax1] ay1]; destruct v as [[[vx0 vy0] vx1] vy1]; reflexivity.
    + refine (Hatt by1 Z.max _ _ b3 B3 _ E3); [intros x y; lia|].
      intros [[[ax0 ay0] ax1] ay1]; destruct v as [[[vx0 vy0] vx1] vy1]; reflexivity.
Qed.

Definition is_union_of (bs : list bbox) (hb : option bbox) : Prop :=
  match bs with
  | [] => hb = None
  | _ => exists r, hb = Some r /\ (forall b, In b bs -> inside b r)
         /\ (exists b, In b bs /\ bx0 b = bx0 r) /\ (exists b, In b bs /\ by0 b = by0 r)
         /\ (exists b, In b bs /\ bx1 b = bx1 r) /\ (exists b, In b bs /\ by1 b = by1 r)
  end.

Lemma box_fold_some : forall bs o, (o <> None \/ bs <> []) -> exists r, fold_left box_acc bs o = Some r.
Proof.
  induction bs as [|b bs IH]; intros o H; cbn [fold_left].
  - destruct o; [eauto|]. destruct H; congruence.
  - apply IH. left. discriminate.
Qed.

Lemma head_bbox_is_union : forall gl : list glyph,
  is_union_of (boxes gl) (mx_bbox (mx_fold mx_init 0%N gl)).
Proof.
  intros gl. destruct (mx_fold_summary gl mx_init 0%N) as (_ & _ & _ & H). cbv zeta in H. rewrite H.
  cbn [mx_init mx_bbox]. unfold is_union_of. destruct (boxes gl) as [|b bs] eqn:E; [reflexivity|]. rewrite <- E.
  destruct (box_fold_some (boxes gl) None) as [r Hr]; [right; rewrite E; discriminate|].
  exists r. split; [exact Hr|].
  destruct (box_fold_spec _ _ _ Hr) as (H1 & _ & (b0 & B0 & E0) & (b1 & B1 & E1) & (b2 & B2 & E2) & (b3 & B3 & E3)).
  split; [exact H1|].
  repeat split; [exists b0|exists b1|exists b2|exists b3]; (split; [|assumption]);
    match goal with [ H : None = Some _ \/ _ |- _ ] => destruct H as [H|H]; [discriminate|exact H] end.
Qed.

(* ========================================================================================== *)
(** * 3. OS/2 *)
Open Scope Z_scope.

Lemma filter_map_fst : forall (P : list (Z * Z)),
  filter (fun a => negb (a =? 0)) (map fst P) = map fst (filter (fun m => negb (fst m =? 0)) P).
Proof.
  induction P as [|[a s] P IH]; cbn [map filter fst]; [reflexivity|].
  destruct (negb (a =? 0)); cbn [map fst]; now rewrite IH.
Qed.

Lemma sum_app : forall a b, fold_right Z.add 0 (a ++ b) = fold_right Z.add 0 a + fold_right Z.add 0 b.
Proof. induction a as [|x a IH]; intros b; cbn [app fold_right]; [lia|]. rewrite IH. lia. Qed.

Lemma const_tail_nonzero : forall (T : list (Z * Z)) a, Forall (fun p => fst p = a) T -> a <> 0 ->
  filter (fun x => negb (x =? 0)) (map fst T) = map fst T
  /\ fold_right Z.add 0 (map fst T) = Z.of_nat (length T) * a.
Proof.
  induction T as [|[x s] T IH]; intros a HF Ha; [cbn; split; [reflexivity|lia]|].
  pose proof (Forall_inv HF) as Hx. cbn [fst] in Hx. subst x.
  destruct (IH a (Forall_inv_tail HF) Ha) as (I1 & I2).
  cbn [map filter fst fold_right length]. destruct (Z.eqb_spec a 0); [congruence|]. cbn [negb].
  rewrite I1, I2. split; [reflexivity|lia].
Qed.

Lemma const_tail_zero : forall (T : list (Z * Z)), Forall (fun p => fst p = 0) T ->
  filter (fun x => negb (x =? 0)) (map fst T) = [].
Proof.
  induction T as [|[x s] T IH]; intros HF; [reflexivity|].
  pose proof (Forall_inv HF) as Hx. cbn [fst] in Hx. subst x. cbn. apply IH. exact (Forall_inv_tail HF).
Qed.

Lemma xavg_parts_of_expand : forall (P T : list (Z * Z)),
  (T = [] \/ exists a s0 P', rev P = (a, s0) :: P' /\ Forall (fun p => fst p = a) T /\ 0 <= a) ->
  xavg_parts P (Z.of_nat (length P + length T)) = xavg_parts_spec (map fst (P ++ T)).
Proof.
  intros P T H. unfold xavg_parts, xavg_parts_spec.
  rewrite map_app, filter_app, app_length, sum_app, filter_map_fst, map_length.
  set (cnt := Z.of_nat (length (filter (fun m : Z * Z => negb (fst m =? 0)) P))).
  set (tot := fold_right Z.add 0 (map fst (filter (fun m : Z * Z => negb (fst m =? 0)) P))).
  destruct H as [->|(a & s0 & P' & HP & HF & Ha)].
  - cbn [length map filter fold_right]. rewrite Nat.add_0_r.
    destruct (match rev P with [] => 0 | (a, _) :: _ => a end >? 0); f_equal; lia.
  - rewrite HP. destruct (Z.gtb_spec a 0) as [Hpos|Hnpos].
    + destruct (const_tail_nonzero T a HF) as (E1 & E2); [lia|]. rewrite E1, E2, map_length. f_equal; lia.
    + assert (a = 0) by lia. subst a. rewrite (const_tail_zero T HF). cbn [length fold_right]. f_equal; lia.
Qed.

Lemma xavg_counts_all_glyphs : forall gs : list minput,
  (forall g, In g gs -> 0 <= adv_of g) ->
  xavg_parts (m_long (mb_run gs)) (Z.of_nat (length gs)) = xavg_parts_spec (map adv_of gs).
Proof.
  intros gs Hpos. unfold mb_run, mb_build. cbn [m_long]. rewrite mb_run_long.
  set (L := map pair_of gs). set (k := (length L - num_lsb_only L)%nat).
  assert (Hadv : map adv_of gs = map fst L) by (unfold L; rewrite map_map; reflexivity).
  assert (Hlen : length gs = (length (firstn k L) + length (skipn k L))%nat).
  { rewrite <- app_length, firstn_skipn. unfold L. now rewrite map_length. }
  rewrite Hadv, Hlen.
  replace (map fst L) with (map fst (firstn k L ++ skipn k L)) by now rewrite firstn_skipn.
  apply xavg_parts_of_expand.
  destruct (skipn k L) as [|t T] eqn:ET; [now left|right]. rewrite <- ET.
  pose proof (hmtx_reconstructs_list L) as HE. cbv zeta in HE. fold k in HE.
  assert (Hne : map snd (skipn k L) <> []) by (rewrite ET; discriminate).
  destruct (expand_some_tail _ _ _ Hne HE) as (a & s0 & P' & HP & HL).
  exists a, s0, P'. split; [exact HP|].
  assert (HT : skipn k L = map (fun s => (a, s)) (map snd (skipn k L))).
  { rewrite <- (firstn_skipn k L) in HL at 1. apply app_inv_head in HL. exact HL. }
  split.
  - rewrite HT. apply Forall_forall. intros x Hx. apply in_map_iff in Hx. destruct Hx as (s & <- & _). reflexivity.
  - (* a is the advance of a glyph *)
    assert (Hin : In (a, s0) L).
    { apply (in_firstn' k). apply in_rev. rewrite HP. now left. }
    unfold L in Hin. apply in_map_iff in Hin. destruct Hin as (g & Eg & Hg). specialize (Hpos g Hg).
    unfold pair_of in Eg. inversion Eg. unfold adv_of in Hpos. lia.
Qed.

Lemma xavg_exact_is_rounded_mean : forall count total, 0 < count -> 0 <= total ->
  let r := xavg_exact count total in
  2 * count * r <= 2 * total + count < 2 * count * (r + 1).
Proof.
  intros count total Hc Ht r. unfold r, xavg_exact. destruct (Z.eqb_spec count 0); [lia|].
  pose proof (Z.div_mod (2 * total + count) (2 * count)). 
  pose proof (Z.mod_pos_bound (2 * total + count) (2 * count)). lia.
Qed.

(* first / last character index *)
Open Scope N_scope.
Lemma min_max_fold : forall cps mn mx,
  let r := fold_left (fun '(mn, mx) cp => (N.min cp mn, N.max cp mx)) cps (mn, mx) in
  (fst r <= mn /\ (forall c, In c cps -> fst r <= c) /\ (fst r = mn \/ In (fst r) cps))
  /\ (mx <= snd r /\ (forall c, In c cps -> c <= snd r) /\ (snd r = mx \/ In (snd r) cps)).
Proof.
  induction cps as [|c cps IH]; intros mn mx; cbn [fold_left]; cbv zeta.
  - cbn. repeat split; try lia; try tauto.
  - specialize (IH (N.min c mn) (N.max c mx)). cbv zeta in IH.
    destruct IH as ((A1 & A2 & A3) & (B1 & B2 & B3)).
    set (r := fold_left (fun '(mn, mx) cp => (N.min cp mn, N.max cp mx)) cps (N.min c mn, N.max c mx)) in *.
    repeat split.
    + lia.
    + intros x [<-|Hx]; [lia|auto].
    + destruct A3 as [A3|A3]; [|right; now right].
      destruct (N.min_spec c mn) as [[_ E]|[_ E]]; rewrite E in A3; [right; left; now symmetry|now left].
    + lia.
    + intros x [<-|Hx]; [lia|auto].
    + destruct B3 as [B3|B3]; [|right; now right].
      destruct (N.max_spec c mx) as [[_ E]|[_ E]]; rewrite E in B3; [now left|right; left; now symmetry].
Qed.

(* usFirstCharIndex is the least code point capped at 0xFFFF (0xFFFF for an empty cmap);
   usLastCharIndex the greatest, capped (0 for an empty cmap). *)
Lemma first_last_char_index : forall cps,
  let '(first, last) := min_max_char cps in
  (forall c, In c cps -> first <= c /\ N.min c 0xFFFF <= last)
  /\ (first = 0xFFFF \/ In first cps)
  /\ (last = 0 \/ exists c, In c cps /\ last = N.min c 0xFFFF)
  /\ first <= 0xFFFF /\ last <= 0xFFFF.
Proof.
  intros cps. unfold min_max_char.
  pose proof (min_max_fold cps 0xFFFF 0) as H. cbv zeta in H.
  destruct (fold_left (fun '(mn, mx) cp => (N.min cp mn, N.max cp mx)) cps (0xFFFF, 0)) as [mn mx].
  cbn [fst snd] in H. destruct H as ((A1 & A2 & A3) & (B1 & B2 & B3)).
  repeat split.
  - specialize (A2 c H). lia.
  - specialize (B2 c H). lia.
  - destruct A3 as [->|A3]; [now left|]. right. replace (N.min mn 65535) with mn by lia. exact A3.
  - destruct B3 as [->|B3]; [now left|]. right. exists mx. split; [exact B3|reflexivity].
  - lia.
  - lia.
Qed.

(** ** Unicode ranges: the binary search finds the range, if there is one *)
Definition rlo (r : N * N * N) : N := fst (fst r).
Definition rhi (r : N * N * N) : N := snd (fst r).
Definition contains (r : N * N * N) (cp : N) : Prop := rlo r <= cp /\ cp <= rhi r.

Fixpoint sorted_ranges (prev : option N) (tbl : list (N * N * N)) : bool :=
  match tbl with
  | [] => true
  | r :: t => (rlo r <=? rhi r) && (match prev with None => true | Some h => h <? rlo r end)
              && sorted_ranges (Some (rhi r)) t
  end.

Lemma sorted_ranges_after : forall t h, sorted_ranges (Some h) t = true ->
  forall r, In r t -> h < rlo r /\ rlo r <= rhi r.
Proof.
  induction t as [|x t IH]; intros h H r Hin; [destruct Hin|].
  cbn [sorted_ranges] in H. apply andb_true_iff in H. destruct H as [H H3].
  apply andb_true_iff in H. destruct H as [H1 H2].
  destruct Hin as [<-|Hin]; [lia|]. specialize (IH _ H3 r Hin). lia.
Qed.

Lemma sorted_ranges_idx : forall tbl prev, sorted_ranges prev tbl = true ->
  forall i j x y, (i < j)%nat -> nth_error tbl i = Some x -> nth_error tbl j = Some y -> rhi x < rlo y.
Proof.
  induction tbl as [|r t IH]; intros prev H i j x y Hij Hi Hj; [destruct i; discriminate|].
  cbn [sorted_ranges] in H. apply andb_true_iff in H. destruct H as [H H3].
  destruct j as [|j]; [lia|]. cbn [nth_error] in Hj. destruct i as [|i].
  - cbn in Hi. inversion Hi; subst. apply nth_error_In in Hj.
    destruct (sorted_ranges_after _ _ H3 y Hj). lia.
  - cbn [nth_error] in Hi. apply (IH (Some (rhi r)) H3 i j x y); [lia|exact Hi|exact Hj].
Qed.

Lemma sorted_ranges_wf : forall tbl prev, sorted_ranges prev tbl = true -> forall r, In r tbl -> rlo r <= rhi r.
Proof.
  induction tbl as [|x t IH]; intros prev H r Hin; [destruct Hin|].
  cbn [sorted_ranges] in H. apply andb_true_iff in H. destruct H as [H H3].
  apply andb_true_iff in H. destruct H as [H1 H2].
  destruct Hin as [<-|Hin]; [lia|eauto].
Qed.

Lemma bsearch_sound : forall tbl cp fuel lo hi i, bsearch fuel tbl lo hi cp = Some i ->
  exists r, nth_error tbl i = Some r /\ contains r cp.
Proof.
  intros tbl cp. induction fuel as [|f IH]; intros lo hi i H; cbn [bsearch] in H; [discriminate|].
  destruct (hi <=? lo)%nat; [discriminate|].
  destruct (nth_error tbl (lo + (hi - lo) / 2)) as [[[a b] bit]|] eqn:E; [|discriminate].
  destruct (N.ltb_spec cp a); [eauto|]. destruct (N.ltb_spec b cp); [eauto|].
  inversion H; subst. exists (a, b, bit). split; [exact E|]. unfold contains, rlo, rhi. cbn. lia.
Qed.

Lemma bsearch_complete : forall tbl cp, sorted_ranges None tbl = true ->
  forall fuel lo hi, (hi <= length tbl)%nat -> (hi - lo < fuel)%nat ->
  bsearch fuel tbl lo hi cp = None ->
  forall i r, (lo <= i < hi)%nat -> nth_error tbl i = Some r -> ~ contains r cp.
Proof.
  intros tbl cp Hs. induction fuel as [|f IH]; intros lo hi Hhi Hf H i r Hi Hr; [lia|].
  cbn [bsearch] in H. destruct (Nat.leb_spec hi lo); [lia|].
  set (mid := (lo + (hi - lo) / 2)%nat) in *.
  assert (Hmid : (lo <= mid < hi)%nat) by (unfold mid; split; [lia|]; pose proof (Nat.div_lt_upper_bound (hi - lo) 2 (hi - lo)); lia).
  destruct (nth_error tbl mid) as [[[a b] bit]|] eqn:E.
  2:{ apply nth_error_None in E. lia. }
  unfold contains. destruct (N.ltb_spec cp a) as [Hlt|Hge].
  - destruct (Nat.lt_ge_cases i mid) as [Him|Him].
    + eapply (IH lo mid); eauto; lia.
    + destruct (Nat.eq_dec i mid) as [->|Hne].
      * rewrite E in Hr. inversion Hr; subst. unfold rlo. cbn. lia.
      * assert (rhi (a, b, bit) < rlo r) by (eapply (sorted_ranges_idx tbl None Hs mid i); eauto; lia).
        pose proof (sorted_ranges_wf tbl None Hs (a, b, bit) (nth_error_In _ _ E)).
        unfold rhi, rlo in *. cbn [fst snd] in *. lia.
  - destruct (N.ltb_spec b cp) as [Hlt|Hge2]; [|discriminate].
    destruct (Nat.lt_ge_cases mid i) as [Him|Him].
    + eapply (IH (S mid) hi); eauto; lia.
    + destruct (Nat.eq_dec i mid) as [->|Hne].
      * rewrite E in Hr. inversion Hr; subst. unfold rhi. cbn. lia.
      * assert (rhi r < rlo (a, b, bit)) by (eapply (sorted_ranges_idx tbl None Hs i mid); eauto; lia).
        pose proof (sorted_ranges_wf tbl None Hs r (nth_error_In _ _ Hr)).
        unfold rhi, rlo in *. cbn [fst snd] in *. lia.
Qed.

Lemma unicode_ranges_sorted : sorted_ranges None unicode_ranges = true.
Proof. vm_compute. reflexivity. Qed.

Lemma range_bit_correct : forall tbl cp, sorted_ranges None tbl = true ->
  match range_bit tbl cp with
  | Some bit => exists r, In r tbl /\ contains r cp /\ snd r = bit
  | None => forall r, In r tbl -> ~ contains r cp
  end.
Proof.
  intros tbl cp Hs. unfold range_bit.
  destruct (bsearch (S (length tbl)) tbl 0 (length tbl) cp) as [i|] eqn:E.
  - destruct (bsearch_sound _ _ _ _ _ _ E) as (r & Hr & Hc). rewrite Hr. destruct r as [[a b] bit].
    exists (a, b, bit). split; [eapply nth_error_In; eauto|]. auto.
  - intros r Hin. apply In_nth_error in Hin. destruct Hin as [i Hi].
    eapply (bsearch_complete tbl cp Hs (S (length tbl)) 0 (length tbl)); eauto; try lia.
    split; [lia|]. apply nth_error_Some. congruence.
Qed.

Lemma ranges_disjoint : forall tbl, sorted_ranges None tbl = true ->
  forall r r' cp, In r tbl -> In r' tbl -> contains r cp -> contains r' cp -> r = r'.
Proof.
  intros tbl Hs r r' cp Hr Hr' Hc Hc'.
  apply In_nth_error in Hr. destruct Hr as [i Hi]. apply In_nth_error in Hr'. destruct Hr' as [j Hj].
  unfold contains in *.
  destruct (Nat.lt_trichotomy i j) as [H|[H|H]].
  - pose proof (sorted_ranges_idx tbl None Hs i j r r' H Hi Hj). lia.
  - subst. congruence.
  - pose proof (sorted_ranges_idx tbl None Hs j i r' r H Hj Hi). lia.
Qed.

(** ** packing bits into 32-bit words *)
Lemma pack_word_bits : forall bits i k w,
  N.testbit (fold_left (fun w b => if b / 32 =? i then N.lor w (N.shiftl 1 (b - 32 * i)) else w) bits w) k
  = N.testbit w k || existsb (fun b => (b / 32 =? i) && (b - 32 * i =? k)) bits.
Proof.
  induction bits as [|b bits IH]; intros i k w; cbn [fold_left existsb].
  - now rewrite orb_false_r.
  - rewrite IH. destruct (b / 32 =? i) eqn:E; cbn [andb].
    + rewrite N.lor_spec, N.shiftl_1_l, N.pow2_bits_eqb. now rewrite orb_assoc.
    + reflexivity.
Qed.

Lemma pack_word_spec : forall bits b, b < 128 ->
  N.testbit (pack_word bits (b / 32)) (b mod 32) = true <-> In b bits.
Proof.
  intros bits b Hb. unfold pack_word. rewrite pack_word_bits, N.bits_0. cbn [orb].
  rewrite existsb_exists. split.
  - intros (x & Hx & Hc). apply andb_true_iff in Hc. destruct Hc as [C1 C2].
    apply N.eqb_eq in C1. apply N.eqb_eq in C2. replace b with x; [exact Hx|]. lia.
  - intros Hin. exists b. split; [exact Hin|]. apply andb_true_iff. split; apply N.eqb_eq; lia.
Qed.

Lemma unicode_bits_of_spec : forall cp b,
  In b (unicode_bits_of cp) <->
  (exists r, In r unicode_ranges /\ contains r cp /\ snd r = b) \/ (b = 57 /\ 0x10000 <= cp <= 0x10FFFF).
Proof.
  intros cp b. unfold unicode_bits_of. rewrite in_app_iff.
  pose proof (range_bit_correct unicode_ranges cp unicode_ranges_sorted) as HR.
  assert (H57 : In b (if (65536 <=? cp) && (cp <=? 1114111) then [57] else []) <-> (b = 57 /\ 65536 <= cp <= 1114111)).
  { destruct (N.leb_spec 65536 cp), (N.leb_spec cp 1114111); cbn [andb In]; split;
      try (intros []; fail); try (intros [? ?]; lia).
    intros [<-|[]]. lia. }
  rewrite H57. clear H57.
  destruct (range_bit unicode_ranges cp) as [bit|].
  - destruct HR as (r & Hin & Hc & Hb). split.
    + intros [[<-|[]]|H]; [left; eauto|right; exact H].
    + intros [(r' & Hin' & Hc' & Hb')|H]; [|right; exact H]. left. left.
      rewrite (ranges_disjoint _ unicode_ranges_sorted r r' cp Hin Hin' Hc Hc') in Hb. congruence.
  - split.
    + intros [[]|H]; right; exact H.
    + intros [(r' & Hin' & Hc' & _)|H]; [exfalso; eapply HR; eauto|right; exact H].
Qed.

Lemma all_unicode_bits_small : forall r, In r unicode_ranges -> snd r < 128.
Proof.
  assert (H : forallb (fun r => snd r <? 128) unicode_ranges = true) by (vm_compute; reflexivity).
  intros r Hin. rewrite forallb_forall in H. specialize (H r Hin). lia.
Qed.

(* Bit b of ulUnicodeRange1..4 is set exactly when some cmap code point lies in a range the table
   assigns to b — or b = 57 and some code point is beyond the BMP. *)
Lemma unicode_range_bits_correct : forall cps b, b < 128 ->
  let '(w0, w1, w2, w3) := unicode_range_words cps in
  let word := match b / 32 with 0 => w0 | 1 => w1 | 2 => w2 | _ => w3 end in
  N.testbit word (b mod 32) = true <->
  exists cp, In cp cps /\
    ((exists r, In r unicode_ranges /\ contains r cp /\ snd r = b) \/ (b = 57 /\ 0x10000 <= cp <= 0x10FFFF)).
Proof.
  intros cps b Hb. unfold unicode_range_words.
  set (bits := flat_map unicode_bits_of cps).
  assert (Hw : (match b / 32 with 0 => pack_word bits 0 | 1 => pack_word bits 1 | 2 => pack_word bits 2 | _ => pack_word bits 3 end)
               = pack_word bits (b / 32)).
  { assert (b / 32 < 4) by lia. destruct (b / 32) as [|[[|[]|]|[|[]|]|]] eqn:E; try reflexivity; lia. }
  rewrite Hw, pack_word_spec by exact Hb. unfold bits. rewrite in_flat_map.
  split; intros (cp & Hin & H); exists cp; (split; [exact Hin|]); apply unicode_bits_of_spec; exact H.
Qed.

(** ** code pages: only the set of code points matters (the HashSet iteration order cannot) *)
Lemma mem_iff : forall c cps, mem c cps = true <-> In c cps.
Proof.
  intros c cps. unfold mem. rewrite existsb_exists. split.
  - intros (x & Hx & E). apply N.eqb_eq in E. now subst.
  - intros H. exists c. split; [exact H|apply N.eqb_refl].
Qed.

Lemma mem_ext : forall cps cps', (forall c, In c cps <-> In c cps') -> forall c, mem c cps = mem c cps'.
Proof.
  intros cps cps' H c. destruct (mem c cps) eqn:E1, (mem c cps') eqn:E2; try reflexivity.
  - apply mem_iff, H, mem_iff in E1. congruence.
  - apply mem_iff, H, mem_iff in E2. congruence.
Qed.

Lemma codepage_bits_set_only : forall cps cps', (forall c, In c cps <-> In c cps') ->
  codepage_bits cps = codepage_bits cps'.
Proof.
  intros cps cps' H. pose proof (mem_ext cps cps' H) as Hm.
  assert (Ha : has_ascii cps = has_ascii cps').
  { unfold has_ascii. induction (nrange 32 94) as [|x l IH]; cbn [forallb]; [reflexivity|]. now rewrite Hm, IH. }
  unfold codepage_bits, codepage_bits_raw. rewrite Ha. rewrite !Hm. reflexivity.
Qed.

Lemma codepage_bits_nonempty : forall cps, codepage_bits cps <> [].
Proof. intros cps. unfold codepage_bits. destruct (codepage_bits_raw cps); discriminate. Qed.

(** ** max context *)
Lemma list_max_spec : forall l, (forall x, In x l -> x <= list_max l) /\ (list_max l = 0 \/ In (list_max l) l).
Proof.
  induction l as [|a l [IH1 IH2]]; cbn [list_max fold_right]; [split; [intros x []|now left]|].
  fold (list_max l). split.
  - intros x [<-|Hx]; [lia|]. specialize (IH1 x Hx). lia.
  - destruct (N.max_spec a (list_max l)) as [[_ E]|[_ E]]; rewrite E.
    + destruct IH2 as [->|IH2]; [now left|right; now right].
    + right. now left.
Qed.

Lemma max_context_is_max : forall lookups,
  (forall l st, In l lookups -> In st l -> sub_context st <= max_context lookups)
  /\ (max_context lookups = 0 \/ exists l st, In l lookups /\ In st l /\ sub_context st = max_context lookups).
Proof.
  intros lookups. unfold max_context.
  destruct (list_max_spec (map (fun l => list_max (map sub_context l)) lookups)) as [H1 H2]. split.
  - intros l st Hl Hst.
    assert (Hin : In (list_max (map sub_context l)) (map (fun l => list_max (map sub_context l)) lookups)) by (apply in_map_iff; eauto).
    specialize (H1 _ Hin). destruct (list_max_spec (map sub_context l)) as [G1 _].
    specialize (G1 (sub_context st) (in_map _ _ _ Hst)). lia.
  - destruct H2 as [H2|H2]; [now left|]. apply in_map_iff in H2. destruct H2 as (l & El & Hl).
    destruct (list_max_spec (map sub_context l)) as [_ [G2|G2]].
    + left. lia.
    + apply in_map_iff in G2. destruct G2 as (st & Est & Hst). right. exists l, st. repeat split; auto. lia.
Qed.

(* what a subtable contributes, rule by rule *)
Lemma sub_context_rules : forall st,
  match st with
  | StFixed k => sub_context st = k
  | StLigature l | StContext l => (forall n, In n l -> n <= sub_context st)
  | StChain l => forall i la, In (i, la) l -> i + la <= sub_context st
  | StReverse la => sub_context st = 1 + la
  end.
Proof.
  intros [k|l|l|l|la]; cbn [sub_context]; try reflexivity.
  - apply (proj1 (list_max_spec l)).
  - apply (proj1 (list_max_spec l)).
  - intros i la Hin. apply (proj1 (list_max_spec _)). apply in_map_iff. exists (i, la). auto.
Qed.

(** ** loca *)
Lemma offsets_le_last : forall sizes s o, In o (offsets_of s sizes) -> o <= last (offsets_of s sizes) 0.
Proof.
  induction sizes as [|x t IH]; intros s o Hin; cbn [offsets_of] in *.
  - destruct Hin as [<-|[]]. cbn. lia.
  - assert (Hne : offsets_of (s + x) t <> []) by (destruct t; discriminate).
    assert (Hl : last (s :: offsets_of (s + x) t) 0 = last (offsets_of (s + x) t) 0).
    { destruct (offsets_of (s + x) t); [congruence|reflexivity]. }
    rewrite Hl. destruct Hin as [<-|Hin]; [|auto].
    assert (In (s + x) (offsets_of (s + x) t)) by (destruct t; cbn; auto).
    specialize (IH _ _ H). lia.
Qed.

(* short format is only chosen when every offset survives the halving to u16 *)
Lemma loca_short_roundtrips : forall sizes,
  let offs := offsets_of 0 sizes in
  loca_is_short offs = true -> Forall (fun o => short_roundtrip o = o) offs.
Proof.
  intros sizes offs H. unfold loca_is_short in H. apply andb_true_iff in H. destruct H as [H1 H2].
  apply Forall_forall. intros o Hin. rewrite forallb_forall in H2. specialize (H2 o Hin).
  pose proof (offsets_le_last sizes 0 o Hin) as Hle. fold offs in Hle.
  unfold short_roundtrip. assert (o / 2 < 65536) by lia. rewrite N.mod_small by assumption. lia.
Qed.

(* and long format only when some offset would not *)
Lemma loca_long_needed : forall offs, loca_is_short offs = false ->
  exists o, (In o offs \/ o = last offs 0) /\ short_roundtrip o <> o.
Proof.
  intros offs H. unfold loca_is_short in H. apply andb_false_iff in H. destruct H as [H|H].
  - exists (last offs 0). split; [now right|]. unfold short_roundtrip.
    assert (131072 <= last offs 0) by lia. pose proof (N.mod_upper_bound (last offs 0 / 2) 65536). lia.
  - assert (Hex : exists o, In o offs /\ (o mod 2 =? 0) = false).
    { induction offs as [|x t IH]; [discriminate|]. cbn [forallb] in H. apply andb_false_iff in H.
      destruct H as [H|H]; [exists x; split; [now left|exact H]|].
      destruct (IH H) as (o & Ho & E). exists o. split; [now right|exact E]. }
    destruct Hex as (o & Ho & E). exists o. split; [now left|]. unfold short_roundtrip. lia.
Qed.

(* ========================================================================================== *)
(** * 4. Composite boxes *)
Require Import Lqa.
Open Scope Q_scope.

(* m is the least (greatest) element of S up to ==, None for an empty S *)
Definition E_min (S : list Q) (m : option Q) : Prop :=
  match m with
  | None => S = []
  | Some x => (forall v, In v S -> x <= v) /\ exists v, In v S /\ x == v
  end.
Definition E_max (S : list Q) (m : option Q) : Prop :=
  match m with
  | None => S = []
  | Some x => (forall v, In v S -> v <= x) /\ exists v, In v S /\ x == v
  end.

Definition omin (a b : option Q) : option Q :=
  match a, b with Some x, Some y => Some (Qmin x y) | None, y => y | x, None => x end.
Definition omax (a b : option Q) : option Q :=
  match a, b with Some x, Some y => Some (Qmax x y) | None, y => y | x, None => x end.

Lemma E_min_app : forall S1 S2 m1 m2, E_min S1 m1 -> E_min S2 m2 -> E_min (S1 ++ S2) (omin m1 m2).
Proof.
  intros S1 S2 [x|] [y|] H1 H2; cbn [E_min omin] in *.
  - destruct H1 as (A1 & v1 & I1 & E1), H2 as (A2 & v2 & I2 & E2).
    pose proof (Q.le_min_l x y). pose proof (Q.le_min_r x y). split.
    + intros v Hv. apply in_app_or in Hv. destruct Hv as [Hv|Hv]; [specialize (A1 v Hv)|specialize (A2 v Hv)]; lra.
    + destruct (Q.min_spec x y) as [[_ E]|[_ E]]; [exists v1|exists v2]; (split; [apply in_or_app; auto|]); lra.
  - subst S2. rewrite app_nil_r. exact H1.
  - subst S1. exact H2.
  - subst. reflexivity.
Qed.

Lemma E_max_app : forall S1 S2 m1 m2, E_max S1 m1 -> E_max S2 m2 -> E_max (S1 ++ S2) (omax m1 m2).
Proof.
  intros S1 S2 [x|] [y|] H1 H2; cbn [E_max omax] in *.
  - destruct H1 as (A1 & v1 & I1 & E1), H2 as (A2 & v2 & I2 & E2).
    pose proof (Q.le_max_l x y). pose proof (Q.le_max_r x y). split.
    + intros v Hv. apply in_app_or in Hv. destruct Hv as [Hv|Hv]; [specialize (A1 v Hv)|specialize (A2 v Hv)]; lra.
    + destruct (Q.max_spec x y) as [[_ E]|[_ E]]; [exists v2|exists v1]; (split; [apply in_or_app; auto|]); lra.
  - subst S2. rewrite app_nil_r. exact H1.
  - subst S1. exact H2.
  - subst. reflexivity.
Qed.

Lemma E_min_single : forall v, E_min [v] (Some v).
Proof. intros v. cbn. split; [intros x [<-|[]]; lra|exists v; split; [now left|reflexivity]]. Qed.
Lemma E_max_single : forall v, E_max [v] (Some v).
Proof. intros v. cbn. split; [intros x [<-|[]]; lra|exists v; split; [now left|reflexivity]]. Qed.

Definition rx0 (r : rect) : Q := fst (fst (fst r)).
Definition ry0 (r : rect) : Q := snd (fst (fst r)).
Definition rx1 (r : rect) : Q := snd (fst r).
Definition ry1 (r : rect) : Q := snd r.

(* r is the bounding rectangle of the points S *)
Definition sides_ok (r : option rect) (S : list (Q * Q)) : Prop :=
  E_min (map fst S) (option_map rx0 r) /\ E_min (map snd S) (option_map ry0 r)
  /\ E_max (map fst S) (option_map rx1 r) /\ E_max (map snd S) (option_map ry1 r).

Lemma sides_union_opt : forall a b S1 S2, sides_ok a S1 -> sides_ok b S2 ->
  sides_ok (rect_union_opt a b) (S1 ++ S2).
Proof.
  intros a b S1 S2 (A1 & A2 & A3 & A4) (B1 & B2 & B3 & B4). unfold sides_ok. rewrite !map_app.
  pose proof (E_min_app _ _ _ _ A1 B1) as C1. pose proof (E_min_app _ _ _ _ A2 B2) as C2.
  pose proof (E_max_app _ _ _ _ A3 B3) as C3. pose proof (E_max_app _ _ _ _ A4 B4) as C4.
  destruct a as [[[[ax0 ay0] ax1] ay1]|], b as [[[[bx0 by0] bx1] by1]|]; cbn in *; auto.
Qed.

Lemma sides_point : forall p, sides_ok (Some (fst p, snd p, fst p, snd p)) [p].
Proof.
  intros p. unfold sides_ok. cbn. repeat split; try (intros x [<-|[]]; lra);
    first [exists (fst p); split; [now left|reflexivity] | exists (snd p); split; [now left|reflexivity]].
Qed.

Lemma union_pt_as_opt : forall r p, rect_union_pt r p = rect_union_opt r (Some (fst p, snd p, fst p, snd p)).
Proof. intros [[[[x0 y0] x1] y1]|] p; reflexivity. Qed.

Lemma sides_fold_pts : forall qs acc S, sides_ok acc S ->
  sides_ok (fold_left rect_union_pt qs acc) (S ++ qs).
Proof.
  induction qs as [|q qs IH]; intros acc S H; cbn [fold_left].
  - now rewrite app_nil_r.
  - replace (S ++ q :: qs) with ((S ++ [q]) ++ qs) by (rewrite <- app_assoc; reflexivity).
    apply IH. rewrite union_pt_as_opt. apply sides_union_opt; [exact H|apply sides_point].
Qed.

Lemma fold_left_map' : forall {A B C} (f : A -> B -> A) (g : C -> B) l a,
  fold_left (fun r p => f r (g p)) l a = fold_left f (map g l) a.
Proof. intros A B C f g. induction l as [|x l IH]; intros a; cbn; [reflexivity|apply IH]. Qed.

Lemma go_sides : forall gl recb recr,
  (forall a c r pts, recb a c = Some r -> recr a c = Some pts -> sides_ok r pts) ->
  forall a cs acc S r pts, sides_ok acc S ->
  bbox_go recb gl a cs acc = Some r -> resolve_go recr gl a cs = Some pts -> sides_ok r (S ++ pts).
Proof.
  intros gl recb recr Hrec a. induction cs as [|c t IH]; intros acc S r pts Hacc Hb Hr;
    cbn [bbox_go resolve_go] in Hb, Hr.
  - inversion Hb; inversion Hr; subst. now rewrite app_nil_r.
  - destruct (nth_error gl (N.to_nat (comp_gid c))) as [[|bb cts ps|bb comps']|]; try discriminate.
    + eapply IH; eauto.
    + destruct (resolve_go recr gl a t) as [rt|] eqn:Et; [|discriminate]. inversion Hr; subst.
      rewrite app_assoc. eapply IH; [|exact Hb|reflexivity].
      rewrite (fold_left_map' rect_union_pt). apply sides_fold_pts. exact Hacc.
    + destruct (recb (aff_mul a (aff_of c)) comps') as [child|] eqn:Eb; [|discriminate].
      destruct (recr (aff_mul a (aff_of c)) comps') as [x|] eqn:Ex; [|discriminate].
      destruct (resolve_go recr gl a t) as [rt|] eqn:Et; [|discriminate]. inversion Hr; subst.
      rewrite app_assoc. eapply IH; [|exact Hb|reflexivity].
      apply sides_union_opt; [exact Hacc|]. eapply Hrec; eauto.
Qed.

Lemma sides_none_nil : sides_ok None [].
Proof. unfold sides_ok. cbn. auto. Qed.

Lemma bbox_comp_sides : forall gl fuel a comps r pts,
  bbox_comp fuel gl a comps None = Some r -> resolve fuel gl a comps = Some pts -> sides_ok r pts.
Proof.
  intros gl. induction fuel as [|f IH]; intros a comps r pts Hb Hr; [discriminate|].
  cbn [bbox_comp resolve] in Hb, Hr.
  change pts with ([] ++ pts).
  refine (go_sides gl (fun a' c' => bbox_comp f gl a' c' None) (fun a' c' => resolve f gl a' c') _
                   a comps None [] r pts sides_none_nil Hb Hr).
  intros a' c' r' pts' H1 H2. eapply IH; eauto.
Qed.

(* rounding to nearest moves a bound by at most one half *)
Lemma ot_round_bounds : forall q, inject_Z (ot_round q) <= q + (1 # 2) /\ q + (1 # 2) < inject_Z (ot_round q) + 1.
Proof.
  intros q. unfold ot_round. split; [apply Qfloor_le|].
  pose proof (Qlt_floor (q + (1 # 2))) as H. rewrite inject_Z_plus in H. exact H.
Qed.

Lemma half_between : forall f z : Z, inject_Z f <= inject_Z z + (1 # 2) -> inject_Z z + (1 # 2) < inject_Z f + 1 -> f = z.
Proof.
  intros f z A B.
  assert (C : (f <= z)%Z).
  { destruct (Z_le_gt_dec f z) as [|G]; [assumption|]. exfalso.
    assert (H0 : (z + 1 <= f)%Z) by lia. rewrite Zle_Qle in H0. rewrite inject_Z_plus in H0.
    change (inject_Z 1) with 1 in H0. lra. }
  assert (D : (z <= f)%Z).
  { destruct (Z_le_gt_dec z f) as [|G]; [assumption|]. exfalso.
    assert (H0 : (f + 1 <= z)%Z) by lia. rewrite Zle_Qle in H0. rewrite inject_Z_plus in H0.
    change (inject_Z 1) with 1 in H0. lra. }
  lia.
Qed.

Lemma ot_round_integer : forall q z, q == inject_Z z -> ot_round q = z.
Proof.
  intros q z H. destruct (ot_round_bounds q) as [A B]. apply half_between; lra.
Qed.

Definition integral (p : Q * Q) : Prop := exists x y : Z, fst p == inject_Z x /\ snd p == inject_Z y.

(* The box written for a composite, against its resolved outline. *)
Lemma composite_bbox_covers : forall fuel gl comps bb pts,
  composite_bbox fuel gl comps = Some bb -> resolve fuel gl aff_id comps = Some pts ->
  let '(xmin, ymin, xmax, ymax) := bb in
  match pts with
  | [] => bb = (0, 0, 0, 0)%Z
  | _ =>
    (* every point lies in the box widened by half a unit *)
    (forall p, In p pts ->
        inject_Z xmin - (1 # 2) <= fst p /\ fst p < inject_Z xmax + (1 # 2)
        /\ inject_Z ymin - (1 # 2) <= snd p /\ snd p < inject_Z ymax + (1 # 2))
    (* every side is the rounded coordinate of some point *)
    /\ (exists p, In p pts /\ xmin = ot_round (fst p)) /\ (exists p, In p pts /\ ymin = ot_round (snd p))
    /\ (exists p, In p pts /\ xmax = ot_round (fst p)) /\ (exists p, In p pts /\ ymax = ot_round (snd p))
    (* and if the resolved outline is integral the box contains it *)
    /\ ((forall p, In p pts -> integral p) ->
        forall p, In p pts -> inject_Z xmin <= fst p <= inject_Z xmax /\ inject_Z ymin <= snd p <= inject_Z ymax)
  end.
Proof.
  intros fuel gl comps bb pts Hb Hr. unfold composite_bbox in Hb.
  destruct (bbox_comp fuel gl aff_id comps None) as [r|] eqn:Eb; [|discriminate].
  pose proof (bbox_comp_sides gl fuel aff_id comps r pts Eb Hr) as (S1 & S2 & S3 & S4).
  destruct r as [[[[x0 y0] x1] y1]|]; cbn [option_map rx0 ry0 rx1 ry1 fst snd] in *.
  2:{ inversion Hb; subst. cbn [E_min] in S1. destruct pts; [reflexivity|discriminate]. }
  inversion Hb; subst. clear Hb.
  destruct pts as [|p0 pts']; [destruct S1 as (_ & v & [] & _)|]. set (pts := p0 :: pts') in *.
  destruct S1 as (A1 & v1 & I1 & E1), S2 as (A2 & v2 & I2 & E2), S3 as (A3 & v3 & I3 & E3), S4 as (A4 & v4 & I4 & E4).
  pose proof (ot_round_bounds x0) as [B1 B1']. pose proof (ot_round_bounds y0) as [B2 B2'].
  pose proof (ot_round_bounds x1) as [B3 B3']. pose proof (ot_round_bounds y1) as [B4 B4'].
  split.
  { intros p Hp. pose proof (A1 _ (in_map fst _ _ Hp)). pose proof (A2 _ (in_map snd _ _ Hp)).
    pose proof (A3 _ (in_map fst _ _ Hp)). pose proof (A4 _ (in_map snd _ _ Hp)). repeat split; lra. }
  assert (Hround : forall a b, a == b -> ot_round a = ot_round b).
  { intros a b E. unfold ot_round. apply Qfloor_comp. rewrite E. reflexivity. }
  apply in_map_iff in I1. destruct I1 as (p1 & <- & P1). apply in_map_iff in I2. destruct I2 as (p2 & <- & P2).
  apply in_map_iff in I3. destruct I3 as (p3 & <- & P3). apply in_map_iff in I4. destruct I4 as (p4 & <- & P4).
  split; [exists p1; split; [exact P1|apply Hround; exact E1]|].
  split; [exists p2; split; [exact P2|apply Hround; exact E2]|].
  split; [exists p3; split; [exact P3|apply Hround; exact E3]|].
  split; [exists p4; split; [exact P4|apply Hround; exact E4]|].
  intros Hint p Hp.
  destruct (Hint p1 P1) as (z1 & _ & Z1 & _). destruct (Hint p2 P2) as (_ & z2 & _ & Z2).
  destruct (Hint p3 P3) as (z3 & _ & Z3 & _). destruct (Hint p4 P4) as (_ & z4 & _ & Z4).
  rewrite (ot_round_integer x0 z1) by (rewrite E1; exact Z1).
  rewrite (ot_round_integer y0 z2) by (rewrite E2; exact Z2).
  rewrite (ot_round_integer x1 z3) by (rewrite E3; exact Z3).
  rewrite (ot_round_integer y1 z4) by (rewrite E4; exact Z4).
  pose proof (A1 _ (in_map fst _ _ Hp)). pose proof (A2 _ (in_map snd _ _ Hp)).
  pose proof (A3 _ (in_map fst _ _ Hp)). pose proof (A4 _ (in_map snd _ _ Hp)).
  rewrite <- Z1, <- Z2, <- Z3, <- Z4, <- E1, <- E2, <- E3, <- E4. repeat split; assumption.
Qed.

(* ========================================================================================== *)
(** * 5. The refutations (faithful arithmetic) and the whole-font checker *)
Open Scope N_scope.

(* DESIGN 6.2: glyph 1 = 100 components of glyph 0, which has 700 points.  Before the repair the
   u16 sum wrapped to 4464 in release builds and panicked in debug builds. *)
Definition overflow_witness : list glyph :=
  [GSimple (repeat 4 175) (0, 0, 10, 10)%Z; GComposite (repeat 0 100) (0, 0, 10, 10)%Z].

Lemma overflow_witness_reported :
  (exists o, limits_run Ideal overflow_witness [1] = LOk o /\ lo_cpts o = 70000)
  /\ limits_run Checked overflow_witness [1] = LTooBig.
Proof. split; [eexists; split; vm_compute; reflexivity|vm_compute; reflexivity]. Qed.

Open Scope Q_scope.
(* a component scaled by one half: the point (21, 0) lands on x = 10.5, the box says 11 *)
Definition bbox_witness : list dbody :=
  [DSimple (21, 0, 41, 10)%Z [4%N] [(21, 0); (41, 0); (41, 10); (21, 10)]%Z].
Definition bbox_witness_comps : list dcomp := [(0%N, (8192, 0, 0, 8192), (0, 0))%Z].

Lemma composite_bbox_strict_refuted :
  exists gl comps bb pts p,
    composite_bbox 2 gl comps = Some bb /\ resolve 2 gl aff_id comps = Some pts /\ In p pts
    /\ ~ (inject_Z (fst (fst (fst bb))) <= fst p).
Proof.
  exists bbox_witness, bbox_witness_comps. eexists. eexists. eexists.
  split; [vm_compute; reflexivity|]. split; [vm_compute; reflexivity|].
  split; [left; reflexivity|]. vm_compute. intros H. apply H. reflexivity.
Qed.

Open Scope Z_scope.
(* 515 glyphs, 257 of advance 30001 and 258 of 30000: the mean is 30000.499..; dividing in f32
   (the code before the repair) gave 30001 *)
Lemma xavg_f32_differs :
  exists count total, 0 < count /\ xavg_f32 count total <> xavg_exact count total
                      /\ xavg_f64 count total = xavg_exact count total.
Proof. exists 515, 15450257. split; [lia|]. split; [vm_compute; discriminate|vm_compute; reflexivity]. Qed.

(* boolean equalities *)
Lemma bbox_eqb_eq : forall a b, bbox_eqb a b = true -> a = b.
Proof.
  intros [[[a0 a1] a2] a3] [[[b0 b1] b2] b3] H. unfold bbox_eqb in H.
  repeat (apply andb_true_iff in H; destruct H as [H ?]). f_equal; [f_equal; [f_equal|]|]; lia.
Qed.

Lemma andb_split : forall a b, a && b = true -> a = true /\ b = true.
Proof. intros. now apply andb_true_iff. Qed.

Lemma simple_fits_b_sound : forall gl, simple_fits_b gl = true -> simple_fits gl.
Proof.
  intros gl H g cs bb E. unfold simple_fits_b in H. rewrite forallb_forall in H.
  unfold glyph_at in E. apply nth_error_In in E. specialize (H _ E). cbn in H.
  apply andb_true_iff in H. destruct H. lia.
Qed.

Lemma limits_run_info0 : forall m gl pending,
  update_composite_limits m (mx_info (mx_fold mx_init 0%N gl)) pending = update_composite_limits m (info0 gl) pending.
Proof. intros. unfold update_composite_limits. apply loop_ext. apply mx_fold_info0. Qed.

(* what a font that passes the checker satisfies *)
Definition font_spec (f : dfont) : Prop :=
  let gs := map h_input (f_glyphs f) in
  let outl := filter has_outline gs in
  let gl := font_glyphs f in
  let '(amax, minlsb, minrsb, ext) := f_hhea f in
  let '(mp, mc, cp, cc, el, d) := f_maxp f in
  (* hmtx: every glyph's side bearing is its xMin (0 without outline) *)
  (forall g, In g (f_glyphs f) -> dg_lsb g = sb_of (h_input g))
  (* hhea *)
  /\ is_max_over (map adv_of gs) amax
  /\ is_min_over (map sb_of outl) minlsb
  /\ is_min_over (map second_sb outl) minrsb
  /\ is_max_over (map extent_of outl) ext
  (* maxp *)
  /\ is_maxN_over (pts_list gl) mp /\ is_maxN_over (ctr_list gl) mc /\ is_maxN_over (elems_list gl) el
  /\ limits_spec gl (mkLim cp cc d)
  (* head *)
  /\ match boxes gl with [] => f_head_bbox f = (0, 0, 0, 0) | _ => is_union_of (boxes gl) (Some (f_head_bbox f)) end
  (* OS/2 *)
  /\ (let '(_, first, last) := f_os2 f in min_max_char (f_cps f) = (first, last))
  /\ max_context (f_lookups f) = f_maxctx f.

Lemma list_eqb'_pairs : forall a b, list_eqb' pairZ_eqb a b = true -> a = b.
Proof.
  induction a as [|[x y] a IH]; intros [|[x' y'] b] H; cbn in H; try discriminate; [reflexivity|].
  apply andb_true_iff in H. destruct H as [H1 H2]. unfold pairZ_eqb in H1. cbn in H1.
  apply andb_true_iff in H1. destruct H1. f_equal; [f_equal; lia|auto].
Qed.

Lemma check_font_sound : forall f, check_font f = true -> font_spec f.
Proof.
  intros f H. unfold check_font, check_font_report in H. cbn [forallb] in H.
  apply andb_split in H. destruct H as [Hh H]. apply andb_split in H. destruct H as [_ H].
  apply andb_split in H. destruct H as [Hl H]. apply andb_split in H. destruct H as [_ H].
  apply andb_split in H. destruct H as [_ H]. apply andb_split in H. destruct H as [Ho _].
  unfold font_spec.
  destruct (f_hhea f) as [[[amax minlsb] minrsb] ext] eqn:Ehhea.
  destruct (f_maxp f) as [[[[[mp mc] cp] cc] el] d] eqn:Emaxp.
  (* horizontal metrics *)
  unfold check_hmetrics in Hh. rewrite Ehhea in Hh.
  apply andb_split in Hh. destruct Hh as [Hh Hq]. apply andb_split in Hh. destruct Hh as [Hh _].
  apply andb_split in Hh. destruct Hh as [Hpos Hexp].
  set (gs := map h_input (f_glyphs f)) in *.
  apply bbox_eqb_eq in Hq. inversion Hq; subst amax minlsb minrsb ext. clear Hq.
  assert (Hnonneg : forall g, In g gs -> 0 <= adv_of g).
  { intros g Hg. unfold gs in Hg. apply in_map_iff in Hg. destruct Hg as (dg & <- & Hdg).
    rewrite forallb_forall in Hpos. specialize (Hpos dg Hdg). unfold h_input, adv_of.
    destruct (body_bbox (dg_body dg)) as [[[[? ?] ?] ?]|]; cbn; lia. }
  destruct (hhea_extrema_exact gs Hnonneg) as (X1 & X2 & X3 & X4). cbv zeta in X1, X2, X3, X4.
  split.
  { (* lsb *)
    destruct (hmtx_reconstructs gs) as [Hrec _]. cbv zeta in Hrec. rewrite Hrec in Hexp.
    apply list_eqb'_pairs in Hexp. unfold gs in Hexp. rewrite map_map in Hexp.
    intros g Hg.
    assert (Hpw : forall (l : list dglyph), map (fun x => pair_of (h_input x)) l = map (fun g => (dg_adv g, dg_lsb g)) l ->
                  forall g, In g l -> dg_lsb g = sb_of (h_input g)).
    { induction l as [|x l IH]; intros E g0 Hin0; [destruct Hin0|].
      cbn [map] in E. inversion E. destruct Hin0 as [<-|Hin0]; [|auto].
      unfold sb_of. cbn [snd fst]. congruence. }
    apply (Hpw _ Hexp g Hg). }
  split; [exact X1|]. split; [exact X2|]. split; [exact X3|]. split; [exact X4|].
  (* maxp / head *)
  unfold check_limits in Hl. rewrite Emaxp in Hl. set (gl := font_glyphs f) in *.
  destruct (limits_run Checked gl (composite_ids 0 gl)) as [o| | | |] eqn:Erun; try discriminate.
  repeat (apply andb_split in Hl; destruct Hl as [Hl ?]).
  unfold limits_run in Erun. rewrite limits_run_info0 in Erun.
  destruct (update_composite_limits Checked (info0 gl) (composite_ids 0 gl)) as [c| | | |] eqn:Eupd; try discriminate.
  inversion Erun; subst o. clear Erun. cbn [lo_pts lo_ctr lo_elems lo_cpts lo_cctr lo_depth lo_bbox] in *.
  destruct (mx_fold_summary gl mx_init 0%N) as (M1 & M2 & M3 & M4). cbv zeta in M1, M2, M3, M4.
  cbn [mx_init mx_pts mx_ctr mx_elems mx_bbox] in M1, M2, M3, M4.
  assert (mp = fold_left N.max (pts_list gl) 0%N) by lia.
  assert (mc = fold_left N.max (ctr_list gl) 0%N) by lia.
  assert (el = fold_left N.max (elems_list gl) 0%N) by lia. subst mp mc el.
  split; [apply fold_maxN_is_max|]. split; [apply fold_maxN_is_max|]. split; [apply fold_maxN_is_max|].
  split.
  { assert (c = mkLim cp cc d) by (destruct c; cbn in *; f_equal; lia). subst c.
    refine (proj1 (composite_limits_sound gl Checked (composite_ids 0 gl) _ _ _ Eupd)).
    - apply simple_fits_b_sound; eassumption.
    - intros g Hg. apply composite_ids_is_comp. exact Hg. }
  split.
  { match goal with [ Hb : bbox_eqb (f_head_bbox f) _ = true |- _ ] => apply bbox_eqb_eq in Hb; rename Hb into Hbb end.
    pose proof (head_bbox_is_union gl) as HU. unfold is_union_of in *.
    destruct (boxes gl) as [|b bs] eqn:Eb.
    - rewrite HU in Hbb. exact Hbb.
    - destruct HU as (r & Er & HU). rewrite Er in Hbb. rewrite Hbb. exists r. split; [reflexivity|exact HU]. }
  (* OS/2 *)
  unfold check_os2 in Ho. destruct (f_os2 f) as [[avg first] last].
  destruct (xavg_parts _ _) as [count total].
  apply andb_split in Ho. destruct Ho as [Ho Hmc]. apply andb_split in Ho. destruct Ho as [Ho _].
  apply andb_split in Ho. destruct Ho as [Ho _]. apply andb_split in Ho. destruct Ho as [_ Hmm].
  split.
  - destruct (min_max_char (f_cps f)) as [mn mx]. apply andb_split in Hmm. destruct Hmm. f_equal; lia.
  - lia.
Qed.

(* ========================================================================================== *)
(** * 6. xAvgCharWidth: a float division with enough precision gives the exactly rounded mean *)
Open Scope Q_scope.

Lemma floor_unique : forall (y : Q) (n : Z), inject_Z n <= y -> y < inject_Z n + 1 -> Qfloor y = n.
Proof.
  intros y n H1 H2. pose proof (Qfloor_le y) as F1. pose proof (Qlt_floor y) as F2.
  rewrite inject_Z_plus in F2. change (inject_Z 1) with 1 in F2.
  set (f := Qfloor y) in *.
  assert (C : (f <= n)%Z).
  { destruct (Z_le_gt_dec f n) as [|G]; [assumption|]. exfalso.
    assert (H0 : (n + 1 <= f)%Z) by lia. rewrite Zle_Qle in H0. rewrite inject_Z_plus in H0.
    change (inject_Z 1) with 1 in H0. lra. }
  assert (D : (n <= f)%Z).
  { destruct (Z_le_gt_dec n f) as [|G]; [assumption|]. exfalso.
    assert (H0 : (f + 1 <= n)%Z) by lia. rewrite Zle_Qle in H0. rewrite inject_Z_plus in H0.
    change (inject_Z 1) with 1 in H0. lra. }
  lia.
Qed.

Lemma inject_Z_minus' : forall x y : Z, inject_Z (x - y) = inject_Z x - inject_Z y.
Proof. intros. unfold Z.sub, Qminus. now rewrite inject_Z_plus, inject_Z_opp. Qed.

Section Xavg.
(* the rounding of the float type: any monotone function that leaves the multiples of 2^-20 below
   2^33 alone — binary64 round-to-nearest is one (53 significant bits), binary32 is not *)
Variable rnd : Q -> Q.
Hypothesis rnd_mono : forall a b, a <= b -> rnd a <= rnd b.
Hypothesis rnd_grid : forall j : Z, (0 <= j < 2 ^ 53)%Z -> rnd (inject_Z j * (1 # 1048576)) == inject_Z j * (1 # 1048576).

Lemma rnd_eq : forall a b, a == b -> rnd a == rnd b.
Proof. intros a b E. apply Qle_antisym; apply rnd_mono; rewrite E; apply Qle_refl. Qed.

Lemma rnd_int : forall z : Z, (0 <= z < 2 ^ 33)%Z -> rnd (inject_Z z) == inject_Z z.
Proof.
  intros z Hz. assert (E : inject_Z z == inject_Z (z * 1048576) * (1 # 1048576)).
  { rewrite inject_Z_mult. change (inject_Z 1048576) with (1048576 # 1). field. }
  rewrite (rnd_eq _ _ E), rnd_grid; [symmetry; exact E|]. lia.
Qed.

Lemma xavg_fp_exact : forall count total : Z,
  (0 < count <= 65536)%Z -> (0 <= total <= count * 65535)%Z ->
  xavg_fp rnd count total = sat_i16 (xavg_exact count total).
Proof.
  intros C T HC HT. unfold xavg_fp, xavg_exact. destruct (Z.eqb_spec C 0) as [|_]; [lia|]. f_equal.
  set (n := ((2 * T + C) / (2 * C))%Z).
  assert (Hn1 : (2 * C * n <= 2 * T + C)%Z) by (unfold n; apply Z.mul_div_le; lia).
  assert (Hn2 : (2 * T + C + 1 <= 2 * C * n + 2 * C)%Z).
  { unfold n. pose proof (Z.mod_pos_bound (2 * T + C) (2 * C)). pose proof (Z.div_mod (2 * T + C) (2 * C)). lia. }
  assert (Hn0 : (0 <= n)%Z) by (unfold n; apply Z.div_pos; lia).
  assert (Hn3 : (n <= 65535)%Z) by nia.
  (* the same facts in Q *)
  assert (Q1 : 2 * inject_Z C * inject_Z n <= 2 * inject_Z T + inject_Z C).
  { rewrite Zle_Qle in Hn1. rewrite inject_Z_plus, !inject_Z_mult in Hn1. exact Hn1. }
  assert (Q2 : 2 * inject_Z T + inject_Z C + 1 <= 2 * inject_Z C * inject_Z n + 2 * inject_Z C).
  { rewrite Zle_Qle in Hn2. rewrite !inject_Z_plus, !inject_Z_mult in Hn2. exact Hn2. }
  assert (QC : 0 < inject_Z C) by (change 0 with (inject_Z 0); rewrite <- Zlt_Qlt; lia).
  assert (QC' : inject_Z C <= 65536) by (change 65536 with (inject_Z 65536); rewrite <- Zle_Qle; lia).
  assert (QT : 0 <= inject_Z T) by (change 0 with (inject_Z 0); rewrite <- Zle_Qle; lia).
  assert (Qn : 0 <= inject_Z n) by (change 0 with (inject_Z 0); rewrite <- Zle_Qle; lia).
  set (r := inject_Z T / inject_Z C).
  assert (ET : rnd (inject_Z T) == inject_Z T) by (apply rnd_int; nia).
  assert (EC : rnd (inject_Z C) == inject_Z C) by (apply rnd_int; lia).
  assert (Ex : rnd (rnd (inject_Z T) / rnd (inject_Z C)) == rnd r).
  { apply rnd_eq. unfold r. rewrite ET, EC. reflexivity. }
  (* r lies between two grid points that round to themselves *)
  set (g := inject_Z ((2 * n + 1) * 524288 - 1) * (1 # 1048576)).
  assert (Eg : g == inject_Z n + (1 # 2) - (1 # 1048576)).
  { unfold g. rewrite inject_Z_minus', inject_Z_mult, inject_Z_plus, inject_Z_mult.
    change (inject_Z 524288) with (524288 # 1). change (inject_Z 2) with 2. change (inject_Z 1) with 1. field. }
  assert (Hr_hi : r <= g).
  { rewrite Eg. unfold r. apply Qle_shift_div_r; [exact QC|]. nra. }
  assert (Hx_hi : rnd r <= inject_Z n + (1 # 2) - (1 # 1048576)).
  { assert (Rg : rnd g == g) by (unfold g; apply rnd_grid; lia).
    pose proof (rnd_mono _ _ Hr_hi). lra. }
  assert (Hx_lo : inject_Z n - (1 # 2) <= rnd r /\ 0 <= rnd r).
  { split.
    - destruct (Z.eq_dec n 0) as [E0|Hnz].
      + rewrite E0. assert (Z0 : rnd 0 == 0) by (apply (rnd_int 0); lia).
        assert (0 <= rnd r). { rewrite <- Z0. apply rnd_mono. unfold r. apply Qle_shift_div_l; [exact QC|]. lra. }
        change (inject_Z 0) with 0. lra.
      + set (a := inject_Z ((2 * n - 1) * 524288) * (1 # 1048576)).
        assert (Ea : a == inject_Z n - (1 # 2)).
        { unfold a. rewrite inject_Z_mult, inject_Z_minus', inject_Z_mult.
          change (inject_Z 524288) with (524288 # 1). change (inject_Z 2) with 2. change (inject_Z 1) with 1. field. }
        assert (Ra : rnd a == a) by (unfold a; apply rnd_grid; lia).
        assert (Har : a <= r) by (rewrite Ea; unfold r; apply Qle_shift_div_l; [exact QC|]; nra).
        pose proof (rnd_mono _ _ Har). lra.
    - assert (Z0 : rnd 0 == 0) by (apply (rnd_int 0); lia).
      rewrite <- Z0. apply rnd_mono. unfold r. apply Qle_shift_div_l; [exact QC|]. lra. }
  destruct Hx_lo as [Hx_lo Hx_0].
  set (x := rnd (rnd (inject_Z T) / rnd (inject_Z C))) in *.
  assert (Hx1 : inject_Z n <= x + (1 # 2)) by (rewrite Ex; lra).
  assert (Hx2 : x + (1 # 2) <= inject_Z n + 1 - (1 # 1048576)) by (rewrite Ex; lra).
  (* and so does the sum with one half *)
  assert (Hy1 : inject_Z n <= rnd (x + (1 # 2))).
  { pose proof (rnd_int n ltac:(lia)). pose proof (rnd_mono _ _ Hx1). lra. }
  set (h := inject_Z ((n + 1) * 1048576 - 1) * (1 # 1048576)).
  assert (Eh : h == inject_Z n + 1 - (1 # 1048576)).
  { unfold h. rewrite inject_Z_minus', inject_Z_mult, inject_Z_plus.
    change (inject_Z 1048576) with (1048576 # 1). change (inject_Z 1) with 1. field. }
  assert (Hy2 : rnd (x + (1 # 2)) <= inject_Z n + 1 - (1 # 1048576)).
  { assert (Rh : rnd h == h) by (unfold h; apply rnd_grid; lia).
    assert (Hxh : x + (1 # 2) <= h) by lra.
    pose proof (rnd_mono _ _ Hxh). lra. }
  apply floor_unique; lra.
Qed.
End Xavg.
