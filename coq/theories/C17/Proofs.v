(* C17 — lemmas.  The property theorems in Props.v are closed by `exact` from here. *)
From Coq Require Import List NArith ZArith QArith Qround Qminmax Bool Lia Permutation.
From Coq Require Import ZifyBool ZifyN ZifyNat.
From FV.C17 Require Import Model.
Import ListNotations.
Ltac Zify.zify_post_hook ::= Z.div_mod_to_equations.

(* ========================================================================================== *)
(** * 1. MetricsBuilder *)
Open Scope Z_scope.

Lemma fold_update_long : forall gs s,
  ms_long (fold_left mb_update gs s) = ms_long s ++ map (fun g : minput => (fst (fst g), snd (fst g))) gs.
Proof.
  induction gs as [|[[adv sb] ba] gs IH]; intros s; cbn [fold_left map].
  - now rewrite app_nil_r.
  - rewrite IH. unfold mb_update at 1. destruct ba; cbn [ms_long fst snd]; now rewrite <- app_assoc.
Qed.

Lemma run_len_le : forall a l, (run_len a l <= length l)%nat.
Proof.
  induction l as [|[a' s] l IH]; cbn [run_len length]; [lia|]. destruct (a' =? a); lia.
Qed.

Lemma run_len_firstn : forall a l, Forall (fun p => fst p = a) (firstn (run_len a l) l).
Proof.
  induction l as [|[a' s] l IH]; cbn [run_len]; [constructor|].
  destruct (Z.eqb_spec a' a); cbn [firstn]; constructor; auto.
Qed.

Lemma run_len_max : forall a l m, (m <= length l)%nat ->
  Forall (fun p => fst p = a) (firstn m l) -> (m <= run_len a l)%nat.
Proof.
  induction l as [|[a' s] l IH]; intros m Hm HF; cbn [length] in Hm.
  - cbn. lia.
  - destruct m as [|m]; [lia|]. cbn [firstn] in HF.
    pose proof (Forall_inv HF) as Hx. pose proof (Forall_inv_tail HF) as HF'.
    cbn [fst] in Hx. subst a'. cbn [run_len]. rewrite Z.eqb_refl.
    apply le_n_S. apply IH; [lia|assumption].
Qed.

Lemma in_skipn' : forall {A} n (l : list A) x, In x (skipn n l) -> In x l.
Proof.
  intros A n l x H. rewrite <- (firstn_skipn n l). apply in_or_app. now right.
Qed.

Lemma in_firstn' : forall {A} n (l : list A) x, In x (firstn n l) -> In x l.
Proof.
  intros A n l x H. rewrite <- (firstn_skipn n l). apply in_or_app. now left.
Qed.

(* expansion of a compressed table, in terms of the reversed list *)
Lemma expand_split : forall (R : list (Z * Z)) (r : nat) a s0 R',
  R = (a, s0) :: R' -> (1 <= r <= length R)%nat ->
  Forall (fun p => fst p = a) (firstn r R) ->
  hmtx_expand (rev (skipn (r - 1) R)) (map snd (rev (firstn (r - 1) R))) = Some (rev R).
Proof.
  intros R r a s0 R' HR Hr HF.
  assert (Hsplit : rev R = rev (skipn (r - 1) R) ++ rev (firstn (r - 1) R)).
  { rewrite <- rev_app_distr. now rewrite firstn_skipn. }
  assert (HF' : Forall (fun p => fst p = a) (rev (firstn (r - 1) R))).
  { apply Forall_rev. apply Forall_forall. intros x Hx.
    rewrite Forall_forall in HF. apply HF.
    replace r with ((r - 1) + 1)%nat by lia.
    rewrite <- (firstn_skipn (r - 1) (firstn (r - 1 + 1) R)).
    apply in_or_app. left. rewrite firstn_firstn. replace (Init.Nat.min (r - 1) (r - 1 + 1)) with (r - 1)%nat by lia.
    exact Hx. }
  unfold hmtx_expand. rewrite rev_involutive.
  destruct (map snd (rev (firstn (r - 1) R))) eqn:Hsbs.
  - rewrite Hsplit. destruct (rev (firstn (r - 1) R)); [now rewrite app_nil_r|discriminate].
  - rewrite <- Hsbs. clear Hsbs.
    destruct (skipn (r - 1) R) as [|[a1 s1] K] eqn:HK.
    + exfalso. assert (length (skipn (r - 1) R) = 0%nat) by now rewrite HK. rewrite skipn_length in H. lia.
    + (* the head of the kept part still lies in the run *)
      assert (Ha1 : a1 = a).
      { rewrite Forall_forall in HF. apply (HF (a1, s1)).
        assert (Hin : In (a1, s1) (firstn 1 (skipn (r - 1) R))) by (rewrite HK; now left).
        assert (firstn 1 (skipn (r - 1) R) = skipn (r - 1) (firstn r R)) as E.
        { rewrite skipn_firstn_comm. f_equal. lia. }
        rewrite E in Hin. eapply in_skipn'; exact Hin. }
      subst a1. rewrite Hsplit, <- HK. f_equal. f_equal.
      rewrite map_map. rewrite <- (map_id (rev (firstn (r - 1) R))) at 2.
      apply map_ext_in. intros [x y] Hx. rewrite Forall_forall in HF'.
      specialize (HF' _ Hx). cbn in *. now subst.
Qed.

Definition pair_of (g : minput) : Z * Z := (fst (fst g), snd (fst g)).

Lemma mb_run_long : forall gs, ms_long (fold_left mb_update gs ms_init) = map pair_of gs.
Proof. intros. now rewrite fold_update_long. Qed.

(* the two halves of the built table, seen from the reversed list *)
Lemma build_halves : forall (L : list (Z * Z)) a s0 R',
  rev L = (a, s0) :: R' ->
  let r := run_len a (rev L) in
  let k := (length L - num_lsb_only L)%nat in
  (1 <= r <= length L)%nat /\ k = (length L - (r - 1))%nat /\
  firstn k L = rev (skipn (r - 1) (rev L)) /\ skipn k L = rev (firstn (r - 1) (rev L)).
Proof.
  intros L a s0 R' HR r k.
  assert (Hr1 : (1 <= r)%nat).
  { unfold r. rewrite HR. cbn [run_len]. rewrite Z.eqb_refl. lia. }
  assert (Hr2 : (r <= length L)%nat).
  { unfold r. rewrite <- (rev_length L). apply run_len_le. }
  assert (Hk : k = (length L - (r - 1))%nat).
  { unfold k, num_lsb_only. rewrite HR. fold r. rewrite <- HR. reflexivity. }
  repeat split; try assumption.
  - rewrite <- (rev_involutive L) at 1. rewrite firstn_rev. rewrite rev_length. f_equal. f_equal. lia.
  - rewrite <- (rev_involutive L) at 1. rewrite skipn_rev. rewrite rev_length. f_equal. f_equal. lia.
Qed.

Lemma hmtx_reconstructs_list : forall L : list (Z * Z),
  let k := (length L - num_lsb_only L)%nat in
  hmtx_expand (firstn k L) (map snd (skipn k L)) = Some L.
Proof.
  intros L k. destruct (rev L) as [|[a s0] R'] eqn:HR.
  - assert (L = []) by (rewrite <- (rev_involutive L), HR; reflexivity). subst L. reflexivity.
  - destruct (build_halves L a s0 R' HR) as ((Hr1 & Hr2) & Hk & HF & HS).
    fold k in Hk, HF, HS. rewrite HF, HS.
    replace (Some L) with (Some (rev (rev L))) by now rewrite rev_involutive.
    eapply expand_split; [exact HR| rewrite rev_length; lia | apply run_len_firstn].
Qed.

Lemma hmtx_reconstructs : forall gs : list minput,
  let m := mb_run gs in
  hmtx_expand (m_long m) (m_sbs m) = Some (map pair_of gs)
  /\ (length (m_long m) + length (m_sbs m) = length gs)%nat.
Proof.
  intros gs m. unfold m, mb_run, mb_build. cbn [m_long m_sbs]. rewrite mb_run_long. split.
  - apply hmtx_reconstructs_list.
  - rewrite !map_length, firstn_length, skipn_length, !map_length. lia.
Qed.

(* Any other way of cutting the list that still expands to it keeps at least as many long metrics. *)
Lemma expand_some_tail : forall (P : list (Z * Z)) (sbs : list Z) L,
  sbs <> [] -> hmtx_expand P sbs = Some L ->
  exists a s0 P', rev P = (a, s0) :: P' /\ L = P ++ map (fun s => (a, s)) sbs.
Proof.
  intros P sbs L Hne H. unfold hmtx_expand in H.
  destruct sbs as [|s sbs]; [congruence|].
  destruct (rev P) as [|[a s0] P'] eqn:HP; [discriminate|].
  inversion H. eauto.
Qed.

Lemma num_long_minimal_list : forall (L : list (Z * Z)) n,
  hmtx_expand (firstn n L) (map snd (skipn n L)) = Some L ->
  (length L - num_lsb_only L <= n)%nat.
Proof.
  intros L n H.
  destruct (Nat.le_gt_cases (length L) n) as [Hge|Hlt]; [lia|].
  (* n < length L: the tail is not empty *)
  assert (Hne : map snd (skipn n L) <> []).
  { intro E. apply (f_equal (@length Z)) in E. rewrite map_length, skipn_length in E. cbn in E. lia. }
  destruct (expand_some_tail _ _ _ Hne H) as (a & s0 & P' & HP & HL).
  (* every element from position n-1 on has advance a *)
  assert (Hn : (1 <= n)%nat).
  { destruct n; [|lia]. cbn in HP. discriminate. }
  destruct (rev L) as [|[b t0] R'] eqn:HR.
  { assert (L = []) by (rewrite <- (rev_involutive L), HR; reflexivity). subst L. cbn in Hlt. lia. }
  assert (Hall : Forall (fun p => fst p = a) (firstn (length L - n + 1) (rev L))).
  { (* rev L = rev (tail) ++ rev (firstn n L) ; first (len-n) from tail, next one is last of firstn n L *)
    rewrite HL at 2. rewrite rev_app_distr, HP.
    assert (Hlen : length (rev (map (fun s : Z => (a, s)) (map snd (skipn n L)))) = (length L - n)%nat).
    { rewrite rev_length, !map_length, skipn_length. reflexivity. }
    rewrite firstn_app, Hlen.
    replace (length L - n + 1 - (length L - n))%nat with 1%nat by lia.
    apply Forall_app. split.
    - apply Forall_forall. intros x Hx. apply in_firstn' in Hx. apply in_rev in Hx.
      apply in_map_iff in Hx. destruct Hx as (s & <- & _). reflexivity.
    - cbn [firstn]. constructor; [reflexivity|constructor]. }
  assert (Hb : b = a).
  { rewrite HR in Hall. replace (length L - n + 1)%nat with (S (length L - n)) in Hall by lia.
    cbn [firstn] in Hall. apply Forall_inv in Hall. exact Hall. }
  subst b.
  assert (Hrun : (length L - n + 1 <= run_len a (rev L))%nat).
  { apply run_len_max; [rewrite rev_length; lia| exact Hall]. }
  unfold num_lsb_only. rewrite HR. rewrite <- HR. lia.
Qed.

Lemma num_long_minimal : forall (gs : list minput) n,
  hmtx_expand (firstn n (map pair_of gs)) (map snd (skipn n (map pair_of gs))) = Some (map pair_of gs) ->
  (length (m_long (mb_run gs)) <= n)%nat.
Proof.
  intros gs n H. unfold mb_run, mb_build. cbn [m_long]. rewrite mb_run_long.
  rewrite firstn_length. pose proof (num_long_minimal_list _ _ H). lia.
Qed.

(** ** extrema kept by the builder *)
Definition acc_min (o : option Z) (vs : list Z) : option Z := fold_left opt_min vs o.
Definition acc_max (o : option Z) (vs : list Z) : option Z := fold_left opt_max vs o.

Lemma acc_min_some : forall vs o, (o <> None \/ vs <> []) -> exists m, acc_min o vs = Some m.
Proof.
  induction vs as [|v vs IH]; intros o H; cbn.
  - destruct o; [eauto|]. destruct H; congruence.
  - apply IH. left. discriminate.
Qed.

Lemma acc_min_spec : forall vs o m, acc_min o vs = Some m ->
  (forall v, In v vs -> m <= v) /\ (forall x, o = Some x -> m <= x) /\ (o = Some m \/ In m vs).
Proof.
  induction vs as [|v vs IH]; intros o m H; cbn in H.
  - subst o. split; [intros v []|]. split; [intros x E; inversion E; lia|now left].
  - apply IH in H. destruct H as (H1 & H2 & H3). repeat split.
    + intros w [<-|Hw]; [|auto]. specialize (H2 _ eq_refl). destruct o; lia.
    + intros x ->. specialize (H2 _ eq_refl). lia.
    + destruct H3 as [H3|H3]; [|right; now right].
      unfold opt_min in H3. inversion H3 as [E]. destruct o as [x|].
      * destruct (Z.min_spec x v) as [[_ ->]|[_ ->]]; [now left|right; now left].
      * right. now left.
Qed.

Lemma acc_max_some : forall vs o, (o <> None \/ vs <> []) -> exists m, acc_max o vs = Some m.
Proof.
  induction vs as [|v vs IH]; intros o H; cbn.
  - destruct o; [eauto|]. destruct H; congruence.
  - apply IH. left. discriminate.
Qed.

Lemma acc_max_spec : forall vs o m, acc_max o vs = Some m ->
  (forall v, In v vs -> v <= m) /\ (forall x, o = Some x -> x <= m) /\ (o = Some m \/ In m vs).
Proof.
  induction vs as [|v vs IH]; intros o m H; cbn in H.
  - subst o. split; [intros v []|]. split; [intros x E; inversion E; lia|now left].
  - apply IH in H. destruct H as (H1 & H2 & H3). repeat split.
    + intros w [<-|Hw]; [|auto]. specialize (H2 _ eq_refl). destruct o; lia.
    + intros x ->. specialize (H2 _ eq_refl). lia.
    + destruct H3 as [H3|H3]; [|right; now right].
      unfold opt_max in H3. inversion H3 as [E]. destruct o as [x|].
      * destruct (Z.max_spec x v) as [[_ ->]|[_ ->]]; [right; now left|now left].
      * right. now left.
Qed.

Lemma acc_none_nil : forall vs, acc_min None vs = None -> vs = [].
Proof. intros [|v vs] H; [reflexivity|]. destruct (acc_min_some (v :: vs) None) as [m Hm]; [right; discriminate|congruence]. Qed.
Lemma acc_max_none_nil : forall vs, acc_max None vs = None -> vs = [].
Proof. intros [|v vs] H; [reflexivity|]. destruct (acc_max_some (v :: vs) None) as [m Hm]; [right; discriminate|congruence]. Qed.

Definition has_outline (g : minput) : bool := match snd g with Some _ => true | None => false end.
Definition adv_of (g : minput) : Z := fst (fst g).
Definition sb_of (g : minput) : Z := snd (fst g).

Lemma fold_update_extrema : forall gs s,
  let s' := fold_left mb_update gs s in
  ms_min1 s' = acc_min (ms_min1 s) (map sb_of (filter has_outline gs))
  /\ ms_min2 s' = acc_min (ms_min2 s) (map second_sb (filter has_outline gs))
  /\ ms_ext s' = acc_max (ms_ext s) (map extent_of (filter has_outline gs))
  /\ ms_amax s' = fold_left Z.max (map adv_of gs) (ms_amax s).
Proof.
  induction gs as [|[[adv sb] ba] gs IH]; intros s; cbn [fold_left].
  - cbn. auto.
  - specialize (IH (mb_update s (adv, sb, ba))). cbv zeta in IH.
    destruct IH as (I1 & I2 & I3 & I4). rewrite I1, I2, I3, I4.
    destruct ba as [b|]; cbn [filter has_outline snd map mb_update ms_min1 ms_min2 ms_ext ms_amax adv_of sb_of fst];
      cbn [acc_min acc_max fold_left]; auto.
Qed.

Lemma fold_max_spec : forall vs a0,
  let m := fold_left Z.max vs a0 in
  a0 <= m /\ (forall v, In v vs -> v <= m) /\ (m = a0 \/ In m vs).
Proof.
  induction vs as [|v vs IH]; intros a0; cbn [fold_left]; cbv zeta.
  - cbn. repeat split; try lia; try tauto.
  - specialize (IH (Z.max a0 v)). cbv zeta in IH. destruct IH as (H1 & H2 & H3). repeat split.
    + lia.
    + intros w [<-|Hw]; [lia|auto].
    + destruct H3 as [H3|H3]; [|right; now right].
      destruct (Z.max_spec a0 v) as [[_ E]|[_ E]]; rewrite E in *; [right; left; now symmetry|now left].
Qed.

(* The summary values of hhea/vhea, for every glyph list:
   - the advance maximum bounds every advance and is one of them (or 0 for no glyphs);
   - the minimum first side bearing, minimum second side bearing and maximum extent range over
     the glyphs with an outline, are attained there, and are 0 when there is none. *)
Definition is_min_over (vals : list Z) (m : Z) : Prop :=
  match vals with [] => m = 0 | _ => In m vals /\ forall v, In v vals -> m <= v end.
Definition is_max_over (vals : list Z) (m : Z) : Prop :=
  match vals with [] => m = 0 | _ => In m vals /\ forall v, In v vals -> v <= m end.

Lemma hhea_extrema_exact : forall gs : list minput,
  (forall g, In g gs -> 0 <= adv_of g) ->
  let m := mb_run gs in
  let outl := filter has_outline gs in
  is_max_over (map adv_of gs) (m_amax m)
  /\ is_min_over (map sb_of outl) (m_min1 m)
  /\ is_min_over (map second_sb outl) (m_min2 m)
  /\ is_max_over (map extent_of outl) (m_ext m).
Proof.
  intros gs Hpos m outl. unfold m, mb_run, mb_build. cbn [m_amax m_min1 m_min2 m_ext].
  destruct (fold_update_extrema gs ms_init) as (I1 & I2 & I3 & I4). cbv zeta in *.
  rewrite I1, I2, I3, I4. cbn [ms_init ms_min1 ms_min2 ms_ext ms_amax]. fold outl.
  repeat split.
  - unfold is_max_over. destruct (map adv_of gs) as [|v vs] eqn:E; [reflexivity|]. rewrite <- E.
    destruct (fold_max_spec (map adv_of gs) 0) as (H1 & H2 & H3). split; [|exact H2].
    destruct H3 as [H3|H3]; [|exact H3].
    (* the maximum is 0 = the start value: then some advance is 0 *)
    assert (Hv : In v (map adv_of gs)) by (rewrite E; now left).
    pose proof (H2 _ Hv) as Hle. apply in_map_iff in Hv. destruct Hv as (g & Hg & Hin).
    pose proof (Hpos _ Hin). rewrite H3 in Hle. assert (v = 0) by lia. subst v.
    rewrite H3, E. now left.
  - unfold is_min_over. destruct (map sb_of outl) as [|v vs] eqn:E; [reflexivity|]. rewrite <- E.
    destruct (acc_min_some (map sb_of outl) None) as [x Hx]; [right; rewrite E; discriminate|].
    rewrite Hx. cbn [unwrap0]. destruct (acc_min_spec _ _ _ Hx) as (H1 & _ & [H3|H3]); [discriminate|auto].
  - unfold is_min_over. destruct (map second_sb outl) as [|v vs] eqn:E; [reflexivity|]. rewrite <- E.
    destruct (acc_min_some (map second_sb outl) None) as [x Hx]; [right; rewrite E; discriminate|].
    rewrite Hx. cbn [unwrap0]. destruct (acc_min_spec _ _ _ Hx) as (H1 & _ & [H3|H3]); [discriminate|auto].
  - unfold is_max_over. destruct (map extent_of outl) as [|v vs] eqn:E; [reflexivity|]. rewrite <- E.
    destruct (acc_max_some (map extent_of outl) None) as [x Hx]; [right; rewrite E; discriminate|].
    rewrite Hx. cbn [unwrap0]. destruct (acc_max_spec _ _ _ Hx) as (H1 & _ & [H3|H3]); [discriminate|auto].
Qed.

Lemma clamp_i16_id : forall v, -32768 <= v <= 32767 -> clamp_i16 v = v.
Proof. intros v H. unfold clamp_i16. destruct (Z.ltb_spec v (-32768)); [lia|]. destruct (v >? 32767) eqn:E; [lia|reflexivity]. Qed.

Lemma clamp_i16_mono : forall a b, a <= b -> clamp_i16 a <= clamp_i16 b.
Proof.
  intros a b H. unfold clamp_i16.
  destruct (Z.ltb_spec a (-32768)), (Z.ltb_spec b (-32768)); destruct (a >? 32767) eqn:Ea; destruct (b >? 32767) eqn:Eb; lia.
Qed.
