(* C17 — Summary fields agree with the data they summarise.  Statements only; proofs in Proofs.v.

   What is proved here is about the model (Model.v) of fontbe's summary computations, for every
   input (any number of glyphs, any nesting, any order the hash map yields the composites in).
   The run of ./check C17 ties the model to the code: it drives the real MetricsBuilder /
   MaxBuilder through cfg hooks and compiles whole fonts, and evaluates, per case, a term that
   compares the model with what the code produced.  *)
From Coq Require Import List NArith ZArith QArith Qround Qminmax Bool.
From FV.C17 Require Import Model Proofs ProofsFloat.
Import ListNotations.

(** * hmtx / vmtx *)

(* Expanding the long metrics and trailing side bearings the way every reader does gives back
   each glyph's (advance, side bearing), and the two arrays together have one entry per glyph. *)
Theorem hmtx_reconstructs : forall gs : list minput,
  let m := mb_run gs in
  hmtx_expand (m_long m) (m_sbs m) = Some (map pair_of gs)
  /\ (length (m_long m) + length (m_sbs m) = length gs)%nat.
Proof. exact Proofs.hmtx_reconstructs. Qed.
Print Assumptions hmtx_reconstructs.

(* numberOfHMetrics is the least count that still expands to the glyphs' metrics. *)
Theorem num_long_minimal : forall (gs : list minput) n,
  hmtx_expand (firstn n (map pair_of gs)) (map snd (skipn n (map pair_of gs))) = Some (map pair_of gs) ->
  (length (m_long (mb_run gs)) <= n)%nat.
Proof. exact Proofs.num_long_minimal. Qed.
Print Assumptions num_long_minimal.

Example hmtx_nonvacuous :
  let gs := [(500, 10, Some 400); (600, -20, Some 700); (0, 0, None); (600, 5, Some 10); (600, 0, None)]%Z in
  m_long (mb_run gs) = [(500, 10); (600, -20); (0, 0); (600, 5)]%Z /\ m_sbs (mb_run gs) = [0%Z]
  /\ hmtx_expand (firstn 4 (map pair_of gs)) (map snd (skipn 4 (map pair_of gs))) = Some (map pair_of gs).
Proof. vm_compute. auto. Qed.

(** * hhea / vhea *)

(* advanceMax is the largest advance of all glyphs; the minimum first / second side bearing and
   the maximum extent are the extremes over exactly the glyphs with an outline (0 if none); the
   second side bearing and extent are clamped to i16 as the code does (clamp_i16 is the identity
   and monotone on the i16 range, lemmas clamp_i16_id / clamp_i16_mono).
   Assumes advances are not negative (they are u16). *)
Theorem hhea_extrema_exact : forall gs : list minput,
  (forall g, In g gs -> (0 <= adv_of g)%Z) ->
  let m := mb_run gs in
  let outl := filter has_outline gs in
  is_max_over (map adv_of gs) (m_amax m)
  /\ is_min_over (map sb_of outl) (m_min1 m)
  /\ is_min_over (map second_sb outl) (m_min2 m)
  /\ is_max_over (map extent_of outl) (m_ext m).
Proof. exact Proofs.hhea_extrema_exact. Qed.
Print Assumptions hhea_extrema_exact.

Theorem clamp_i16_exact_in_range : forall v, (-32768 <= v <= 32767)%Z -> clamp_i16 v = v.
Proof. exact Proofs.clamp_i16_id. Qed.
Print Assumptions clamp_i16_exact_in_range.

Example hhea_nonvacuous :
  let gs := [(500, 10, Some 400); (600, -20, Some 700); (0, 0, None); (65535, -32768, Some 65535)]%Z in
  (forall g, In g gs -> (0 <= adv_of g)%Z)
  /\ (m_amax (mb_run gs), m_min1 (mb_run gs), m_min2 (mb_run gs), m_ext (mb_run gs)) = (65535, -32768, -80, 32767)%Z.
Proof. split; [intros g [<-|[<-|[<-|[<-|[]]]]]; vm_compute; discriminate|vm_compute; reflexivity]. Qed.

(** * maxp *)

(* On an acyclic glyph table whose component references exist, for every order `pending` in which
   the hash map may yield the composites, update_composite_limits terminates without panic and
   its result is the field-wise maximum, over the composites, of the recursive definition
   has_limits (total points, total contours, 1 + deepest component): every composite's limits
   are below it and each field is attained (or 0).  For the exact arithmetic (Ideal)
   unconditionally; for the code (Checked: u32 sums narrowed by u16::try_from) provided every
   total fits in 16 bits — otherwise see composite_limits_overflow_reported. *)
Theorem composite_limits_eq_recursive : forall (gl : list glyph) m rank pending,
  simple_fits gl -> refs_ok gl -> acyclic gl rank -> mode_ok gl m ->
  (forall g, In g pending <-> is_comp gl g) ->
  exists L, update_composite_limits m (mx_info (mx_fold mx_init 0%N gl)) pending = LOk L /\ limits_spec gl L.
Proof.
  intros gl m rank pending H1 H2 H3 H4 H5. rewrite limits_run_info0.
  exact (composite_limits_main gl m rank pending H1 H2 H3 H4 H5).
Qed.
Print Assumptions composite_limits_eq_recursive.

(* If some composite's recursive totals do not fit maxp's 16-bit fields, the code reports an
   error (Error::OutOfBounds) — in every build profile, whatever the hash-map order: it neither
   wraps nor panics.  (Before the repair recorded in known_findings.txt the u16 sums wrapped in
   release builds and panicked in debug builds; the harness keeps the 70000-point input and
   reports key maxp-composite-total-over-u16 should that return.) *)
Theorem composite_limits_overflow_reported : forall (gl : list glyph) rank pending,
  simple_fits gl -> refs_ok gl -> acyclic gl rank ->
  (forall g, In g pending <-> is_comp gl g) ->
  (exists g, is_comp gl g /\ forall l, has_limits gl g l -> ~ small l) ->
  update_composite_limits Checked (mx_info (mx_fold mx_init 0%N gl)) pending = LTooBig.
Proof.
  intros gl rank pending H1 H2 H3 H4 H5. rewrite limits_run_info0.
  exact (Proofs.composite_limits_overflow_reported gl rank pending H1 H2 H3 H4 H5).
Qed.
Print Assumptions composite_limits_overflow_reported.

(* 100 components of a 700-point glyph: 70000 points in exact arithmetic, an error from the code *)
Example overflow_witness_reported :
  (exists o, limits_run Ideal overflow_witness [1%N] = LOk o /\ lo_cpts o = 70000%N)
  /\ limits_run Checked overflow_witness [1%N] = LTooBig.
Proof. exact Proofs.overflow_witness_reported. Qed.

(* ... and the recursive definition is a function there, so "the" limits of a glyph make sense *)
Theorem has_limits_unique : forall gl rank, acyclic gl rank ->
  forall g l l', has_limits gl g l -> has_limits gl g l' -> l = l'.
Proof. exact Proofs.has_limits_unique. Qed.
Print Assumptions has_limits_unique.

Example composite_limits_nonvacuous :
  let gl := [GSimple [4; 3]%N (0, 0, 1, 1)%Z; GComposite [0; 0]%N (0, 0, 1, 1)%Z; GEmpty; GComposite [1; 2; 0]%N (0, 0, 1, 1)%Z] in
  simple_fits gl /\ refs_ok gl /\ acyclic gl (fun g => N.to_nat g)
  /\ update_composite_limits Checked (mx_info (mx_fold mx_init 0%N gl)) [3; 1]%N = LOk (mkLim 21 6 2).
Proof.
  cbv zeta. split; [|split; [|split]].
  - intros g cs bb E. unfold glyph_at in E. destruct (N.to_nat g) as [|[|[|[|n]]]]; cbn in E; inversion E; subst; [vm_compute; auto|destruct n; discriminate].
  - intros g c bb E x Hx. unfold glyph_at in *. destruct (N.to_nat g) as [|[|[|[|n]]]] eqn:Eg; cbn in E; inversion E; subst;
      [| |destruct n; discriminate]; cbn in Hx; intuition (subst; cbn; discriminate).
  - intros g c bb E x Hx. unfold glyph_at in *. destruct (N.to_nat g) as [|[|[|[|n]]]] eqn:Eg; cbn in E; inversion E; subst;
      [| |destruct n; discriminate]; cbn in Hx; intuition (subst; cbn; Lia.lia).
  - vm_compute. reflexivity.
Qed.

(* maxPoints, maxContours, maxComponentElements *)
Theorem maxp_simple_maxima : forall gl : list glyph,
  let s := mx_fold mx_init 0%N gl in
  is_maxN_over (pts_list gl) (mx_pts s) /\ is_maxN_over (ctr_list gl) (mx_ctr s)
  /\ is_maxN_over (elems_list gl) (mx_elems s).
Proof.
  intros gl s. destruct (mx_fold_summary gl mx_init 0%N) as (M1 & M2 & M3 & _). cbv zeta in *.
  unfold s. rewrite M1, M2, M3. cbn [mx_init mx_pts mx_ctr mx_elems].
  repeat split; apply fold_maxN_is_max.
Qed.
Print Assumptions maxp_simple_maxima.

(** * head *)

(* The head box is the union of the glyph boxes: it contains each of them and each of its four
   sides is a side of some glyph box; there is none exactly when no glyph has a box. *)
Theorem head_bbox_is_union : forall gl : list glyph,
  is_union_of (boxes gl) (mx_bbox (mx_fold mx_init 0%N gl)).
Proof. exact Proofs.head_bbox_is_union. Qed.
Print Assumptions head_bbox_is_union.

Example head_bbox_nonvacuous :
  mx_bbox (mx_fold mx_init 0%N [GEmpty; GSimple [4%N] (-5, 0, 10, 7)%Z; GComposite [1%N] (0, -3, 4, 20)%Z]) = Some (-5, -3, 10, 20)%Z.
Proof. vm_compute. reflexivity. Qed.

(** * composite boxes *)

(* The box of a composite against its resolved outline (every leaf point through the stored
   F2Dot14 transforms, at any nesting depth): every point is inside the box widened by half a
   unit; every side is the nearest integer to the coordinate of some outline point; and if the
   resolved outline is integral (e.g. components that are only moved by whole units) the box
   contains it exactly.  An outline without points gets the zero box. *)
Theorem composite_bbox_covers : forall fuel gl comps bb pts,
  composite_bbox fuel gl comps = Some bb -> resolve fuel gl aff_id comps = Some pts ->
  let '(xmin, ymin, xmax, ymax) := bb in
  match pts with
  | [] => bb = (0, 0, 0, 0)%Z
  | _ =>
    (forall p, In p pts ->
        inject_Z xmin - (1 # 2) <= fst p /\ fst p < inject_Z xmax + (1 # 2)
        /\ inject_Z ymin - (1 # 2) <= snd p /\ snd p < inject_Z ymax + (1 # 2))%Q
    /\ (exists p, In p pts /\ xmin = ot_round (fst p)) /\ (exists p, In p pts /\ ymin = ot_round (snd p))
    /\ (exists p, In p pts /\ xmax = ot_round (fst p)) /\ (exists p, In p pts /\ ymax = ot_round (snd p))
    /\ ((forall p, In p pts -> integral p) ->
        forall p, In p pts -> (inject_Z xmin <= fst p <= inject_Z xmax /\ inject_Z ymin <= snd p <= inject_Z ymax)%Q)
  end.
Proof. exact Proofs.composite_bbox_covers. Qed.
Print Assumptions composite_bbox_covers.

(* Exact containment fails for scaled components: a point landing on x = 10.5 is left of the
   box's xMin = 11.  (Observed on real fonts under the key
   composite-bbox-excludes-fractional-extreme; fontTools rounds the same way.) *)
Theorem composite_bbox_strict_refuted :
  exists gl comps bb pts p,
    composite_bbox 2 gl comps = Some bb /\ resolve 2 gl aff_id comps = Some pts /\ In p pts
    /\ ~ (inject_Z (fst (fst (fst bb))) <= fst p)%Q.
Proof. exact Proofs.composite_bbox_strict_refuted. Qed.
Print Assumptions composite_bbox_strict_refuted.

Example composite_bbox_nonvacuous :
  let gl := [DSimple (0, 0, 10, 10)%Z [4%N] [(0, 0); (10, 0); (10, 10); (0, 10)]%Z;
             DComposite (0, 0, 0, 0)%Z [(0%N, (16384, 0, 0, 16384), (5, 7))%Z]] in
  composite_bbox 3 gl [(1%N, (16384, 0, 0, 16384), (100, 0))%Z; (0%N, (-16384, 0, 0, 16384), (0, 0))%Z]
    = Some (-10, 0, 115, 17)%Z.
Proof. vm_compute. reflexivity. Qed.

(** * loca *)

(* The short format is chosen only when every offset survives being stored as offset/2 in 16
   bits, and the long one only when some offset would not. *)
Theorem loca_short_roundtrips : forall sizes,
  let offs := offsets_of 0 sizes in
  loca_is_short offs = true -> Forall (fun o => short_roundtrip o = o) offs.
Proof. exact Proofs.loca_short_roundtrips. Qed.
Print Assumptions loca_short_roundtrips.

Theorem loca_long_needed : forall offs, loca_is_short offs = false ->
  exists o, (In o offs \/ o = last offs 0%N) /\ short_roundtrip o <> o.
Proof. exact Proofs.loca_long_needed. Qed.
Print Assumptions loca_long_needed.

Example loca_nonvacuous :
  loca_is_short (offsets_of 0 [12; 0; 130000]%N) = true /\ loca_is_short (offsets_of 0 [12; 131060]%N) = false.
Proof. vm_compute. auto. Qed.

(** * OS/2 *)

(* xAvgCharWidth is computed from the compressed hmtx (long metrics + copies of the last
   advance); the count and the sum it uses are those of the non-zero advances of all glyphs. *)
Theorem xavg_counts_all_glyphs : forall gs : list minput,
  (forall g, In g gs -> (0 <= adv_of g)%Z) ->
  xavg_parts (m_long (mb_run gs)) (Z.of_nat (length gs)) = xavg_parts_spec (map adv_of gs).
Proof. exact Proofs.xavg_counts_all_glyphs. Qed.
Print Assumptions xavg_counts_all_glyphs.

(* xavg_exact is the mean rounded half up ... *)
Theorem xavg_exact_is_rounded_mean : forall count total, (0 < count)%Z -> (0 <= total)%Z ->
  let r := xavg_exact count total in
  (2 * count * r <= 2 * total + count < 2 * count * (r + 1))%Z.
Proof. exact Proofs.xavg_exact_is_rounded_mean. Qed.
Print Assumptions xavg_exact_is_rounded_mean.

(* ... and that is what the code computes: x_avg_char_width divides total by count in f64 and
   rounds with floor(x + 0.5) (saturating to i16; NaN -> 0 when there is no non-zero advance).
   With f64 modelled as rounding to 53 significant bits, ties to even, the result is the exactly
   rounded mean, for up to 65536 glyphs with u16 advances. *)
Theorem xavg_f64_is_rounded_mean : forall count total : Z,
  (0 < count <= 65536)%Z -> (0 <= total <= count * 65535)%Z ->
  xavg_f64 count total = sat_i16 (xavg_exact count total).
Proof.
  intros count total H1 H2. unfold xavg_f64.
  exact (Proofs.xavg_fp_exact (fp_round 53) fp_round_mono fp_round_grid count total H1 H2).
Qed.
Print Assumptions xavg_f64_is_rounded_mean.

(* The same for any float type whose rounding is monotone and leaves the multiples of 2^-20
   below 2^33 unchanged. *)
Theorem xavg_exact_for_precise_rounding : forall rnd : Q -> Q,
  (forall a b, (a <= b)%Q -> (rnd a <= rnd b)%Q) ->
  (forall j : Z, (0 <= j < 2 ^ 53)%Z -> (rnd (inject_Z j * (1 # 1048576)) == inject_Z j * (1 # 1048576))%Q) ->
  forall count total : Z,
  (0 < count <= 65536)%Z -> (0 <= total <= count * 65535)%Z ->
  xavg_fp rnd count total = sat_i16 (xavg_exact count total).
Proof. exact Proofs.xavg_fp_exact. Qed.
Print Assumptions xavg_exact_for_precise_rounding.

(* binary32 is not precise enough (the defect repaired in os2.rs): 515 glyphs, 257 of advance 30001
   and 258 of 30000 have mean 30000.499..; f32 gave 30001, f64 gives 30000.  The harness keeps
   this font and reports key os2-xavgcharwidth-f32-tie should the f32 division return. *)
Example xavg_f32_differs :
  exists count total, (0 < count)%Z /\ xavg_f32 count total <> xavg_exact count total
                      /\ xavg_f64 count total = xavg_exact count total.
Proof. exact Proofs.xavg_f32_differs. Qed.

(* usFirstCharIndex / usLastCharIndex: least and greatest code point, capped at 0xFFFF
   (0xFFFF and 0 for an empty cmap), for any code points including supplementary planes. *)
Theorem first_last_char_index : forall cps,
  let '(first, last) := min_max_char cps in
  ((forall c, In c cps -> first <= c /\ N.min c 0xFFFF <= last)
  /\ (first = 0xFFFF \/ In first cps)
  /\ (last = 0 \/ exists c, In c cps /\ last = N.min c 0xFFFF)
  /\ first <= 0xFFFF /\ last <= 0xFFFF)%N.
Proof. exact Proofs.first_last_char_index. Qed.
Print Assumptions first_last_char_index.

(* Bit b of ulUnicodeRange1-4 is set iff some code point lies in a table range assigned to b, or
   b = 57 and some code point is beyond the BMP; the binary search finds the range whenever one
   exists because the table is ascending and disjoint (checked by computation on the table). *)
Theorem unicode_range_bits_correct : forall cps b, (b < 128)%N ->
  let '(w0, w1, w2, w3) := unicode_range_words cps in
  let word := match (b / 32)%N with 0 => w0 | 1 => w1 | 2 => w2 | _ => w3 end%N in
  N.testbit word (b mod 32) = true <->
  exists cp, In cp cps /\
    ((exists r, In r unicode_ranges /\ contains r cp /\ snd r = b) \/ (b = 57 /\ 0x10000 <= cp <= 0x10FFFF))%N.
Proof. exact Proofs.unicode_range_bits_correct. Qed.
Print Assumptions unicode_range_bits_correct.

(* The code-page bits depend only on which code points are present, not on the order the hash
   set yields them, and are never empty. *)
Theorem codepage_bits_set_only : forall cps cps', (forall c, In c cps <-> In c cps') ->
  codepage_bits cps = codepage_bits cps'.
Proof. exact Proofs.codepage_bits_set_only. Qed.
Print Assumptions codepage_bits_set_only.

(* usMaxContext bounds the context of every subtable of every lookup and is attained (or 0) *)
Theorem max_context_is_max : forall lookups,
  (forall l st, In l lookups -> In st l -> (sub_context st <= max_context lookups)%N)
  /\ (max_context lookups = 0%N \/ exists l st, In l lookups /\ In st l /\ sub_context st = max_context lookups).
Proof. exact Proofs.max_context_is_max. Qed.
Print Assumptions max_context_is_max.

Example os2_nonvacuous :
  min_max_char [0x41; 0x1F600; 0x20]%N = (0x20, 0xFFFF)%N
  /\ unicode_range_words [0x41; 0x1F600; 0x416]%N = (0x201, 0x02000000, 0, 0)%N
  /\ max_context [[StFixed 1]; [StLigature [3; 2]%N]; [StChain [(2, 3)]%N; StFixed 2]] = 5%N.
Proof. vm_compute. auto. Qed.

(** * the whole-font checker *)

(* A decoded font that passes check_font has: side bearings equal to xMin, hhea extremes over the
   right glyph sets, maxp maxima equal to the recursive definition, the head box equal to the
   union of the glyph boxes, first/last character index and max context as specified.
   (The remaining conjuncts of check_font — vhea, composite boxes, loca, average width, Unicode
   and code-page ranges — are recomputations by the model functions the theorems above are about.) *)
Theorem check_font_sound : forall f, check_font f = true -> font_spec f.
Proof. exact Proofs.check_font_sound. Qed.
Print Assumptions check_font_sound.

(* a font compiled by fontc from a generated source (5 glyphs: three simple, one empty, one
   composite; a ligature and a single substitution), as decoded by the harness *)
Example check_font_nonvacuous :
  check_font (mkF [(mkG 500%Z 50%Z (DSimple (50%Z, (-200)%Z, 450%Z, 800%Z) [4%N; 4%N] [(50%Z, (-200)%Z); (50%Z, 800%Z); (450%Z, 800%Z); (450%Z, (-200)%Z); (100%Z, (-150)%Z); (400%Z, (-150)%Z); (400%Z, 750%Z); (100%Z, 750%Z)])); (mkG 984%Z 153%Z (DSimple (153%Z, (-252)%Z, 188%Z, (-225)%Z) [4%N] [(153%Z, (-252)%Z); (153%Z, (-225)%Z); (188%Z, (-225)%Z); (188%Z, (-252)%Z)])); (mkG 261%Z (-356)%Z (DSimple ((-356)%Z, 145%Z, 2056%Z, 652%Z) [4%N; 4%N; 4%N] [((-356)%Z, 300%Z); ((-356)%Z, 476%Z); ((-348)%Z, 652%Z); ((-340)%Z, 300%Z); (263%Z, 145%Z); (263%Z, 328%Z); (2056%Z, 328%Z); (2056%Z, 145%Z); ((-221)%Z, 203%Z); ((-221)%Z, 394%Z); ((-146)%Z, 394%Z); ((-146)%Z, 203%Z)])); (mkG 1000%Z 0%Z DEmpty); (mkG 1000%Z 75%Z (DComposite (75%Z, (-1)%Z, 110%Z, 26%Z) [(1%N, (16384%Z, 0%Z, 0%Z, 16384%Z), ((-78)%Z, 251%Z))]))] 4%N ((-356)%Z, (-252)%Z, 2056%Z, 800%Z) (1000%Z, (-356)%Z, (-1795)%Z, 2056%Z) (12%N, 3%N, 4%N, 1%N, 1%N, 1%N) false [0%N; 42%N; 66%N; 120%N; 120%N; 138%N] 138%N (749%Z, 1400%N, 11676%N) (1024%N, 16384%N, 2048%N, 0%N) (1%N, 0%N) 4%N [1400%N; 9954%N; 11676%N] [[(StLigature [4%N])]; [(StFixed 1%N)]] None)
  = true.
Proof. vm_compute. reflexivity. Qed.
