(* C07 — the model does not depend on the order in which the masters are supplied. *)
From Coq Require Import List ZArith Bool Lia ZifyBool Sorting.Permutation Sorting.Sorted.
From FV.C07 Require Import Model Influence.
Import ListNotations.
Open Scope Z_scope.

(* ---- lexicographic order is antisymmetric ------------------------------------- *)
Lemma lex_leb_antisym a : forall b, lex_leb a b = true -> lex_leb b a = true -> a = b.
Proof.
  induction a as [|x a IH]; intros [|y b] H1 H2; cbn [lex_leb] in *; try reflexivity; try discriminate.
  destruct (Z.ltb_spec x y), (Z.ltb_spec y x); try lia; try discriminate.
  assert (x = y) by lia. subst. f_equal. apply IH; assumption.
Qed.

(* two sorted lists with the same elements are equal, when the order is antisymmetric on them *)
Lemma sorted_perm_unique {A} (le : A -> A -> Prop) (l1 : list A) : forall l2,
  (forall a b, In a l1 -> In b l1 -> le a b -> le b a -> a = b) ->
  StronglySorted le l1 -> StronglySorted le l2 -> Permutation l1 l2 -> l1 = l2.
Proof.
  induction l1 as [|x l1 IH]; intros l2 Hanti S1 S2 Hp.
  - apply Permutation_nil in Hp. subst. reflexivity.
  - destruct l2 as [|y l2]; [apply Permutation_sym, Permutation_nil in Hp; discriminate|].
    apply StronglySorted_inv in S1 as [S1 A1]. apply StronglySorted_inv in S2 as [S2 A2].
    rewrite Forall_forall in A1, A2.
    assert (Hxy : x = y).
    { assert (Hy : In y (x :: l1)) by (eapply Permutation_in; [symmetry; exact Hp|left; reflexivity]).
      assert (Hx : In x (y :: l2)) by (eapply Permutation_in; [exact Hp|left; reflexivity]).
      destruct Hy as [E|Hy]; [exact E|]. destruct Hx as [E|Hx]; [symmetry; exact E|].
      apply Hanti; [left; reflexivity|right; exact Hy|apply A1; exact Hy|apply A2; exact Hx]. }
    subst y. f_equal. apply IH; try assumption.
    + intros a b Ha Hb. apply Hanti; right; assumption.
    + eapply Permutation_cons_inv. exact Hp.
Qed.

(* ---- the sort key determines the location ------------------------------------------ *)
Lemma known_axes_ge i l x : In x (known_axes i l) -> Z.of_nat i <= x.
Proof.
  revert i. induction l as [|v l IH]; intros i H; cbn [known_axes] in H; [destruct H|].
  destruct (nz v).
  - destruct H as [<-|H]; [lia|]. specialize (IH (S i) H). lia.
  - specialize (IH (S i) H). lia.
Qed.

Lemma known_axes_nz a : forall b i, length a = length b -> known_axes i a = known_axes i b -> map nz a = map nz b.
Proof.
  induction a as [|va a IH]; intros [|vb b] i Hl Hk; cbn [length] in Hl; try discriminate; [reflexivity|].
  cbn [known_axes map] in *. destruct (nz va) eqn:Ea, (nz vb) eqn:Eb.
  - injection Hk as Hk. f_equal. eapply IH; [lia|exact Hk].
  - exfalso. assert (H : In (Z.of_nat i) (known_axes (S i) b)) by (rewrite <- Hk; left; reflexivity).
    apply known_axes_ge in H. lia.
  - exfalso. assert (H : In (Z.of_nat i) (known_axes (S i) a)) by (rewrite Hk; left; reflexivity).
    apply known_axes_ge in H. lia.
  - f_equal. eapply IH; [lia|exact Hk].
Qed.

Lemma known_axes_length i l : length (known_axes i l) = length (filter nz l).
Proof.
  revert i. induction l as [|v l IH]; intro i; cbn [known_axes filter]; [reflexivity|].
  destruct (nz v); cbn [length]; rewrite IH; reflexivity.
Qed.

Lemma app_inj_len {A} (x x' y y' : list A) : length x = length x' -> x ++ y = x' ++ y' -> x = x' /\ y = y'.
Proof.
  revert x'. induction x as [|a x IH]; intros [|a' x'] Hl H; cbn [length] in Hl; try discriminate.
  - split; [reflexivity|exact H].
  - cbn [app] in H. injection H as -> H. destruct (IH x' (eq_add_S _ _ Hl) H) as [-> ->]. split; reflexivity.
Qed.

Lemma sgn_abs_inj (l l' : list Z) : map Z.sgn l = map Z.sgn l' -> map Z.abs l = map Z.abs l' -> l = l'.
Proof.
  revert l'. induction l as [|x l IH]; intros [|y l'] H1 H2; cbn [map] in *; try discriminate; [reflexivity|].
  injection H1 as Hs H1. injection H2 as Ha H2. f_equal; [lia|apply IH; assumption].
Qed.

Lemma nz_filter_inj a : forall b, map nz a = map nz b -> filter nz a = filter nz b -> a = b.
Proof.
  induction a as [|va a IH]; intros [|vb b] Hm Hf; cbn [map] in Hm; try discriminate; [reflexivity|].
  injection Hm as Hn Hm. cbn [filter] in Hf. rewrite <- Hn in Hf. destruct (nz va) eqn:Ea.
  - injection Hf as -> Hf. f_equal. apply IH; assumption.
  - assert (va = 0) by (unfold nz in Ea; lia). assert (vb = 0) by (unfold nz in Hn; lia).
    subst. f_equal. apply IH; assumption.
Qed.

Lemma sort_key_inj pts a b : length a = length b -> sort_key pts a = sort_key pts b -> a = b.
Proof.
  intros Hl Hk. unfold sort_key in Hk. injection Hk as Hr _ Hk.
  assert (Hlen : length (known_axes 0 a) = length (known_axes 0 b)).
  { rewrite !known_axes_length. unfold rank in Hr. lia. }
  apply app_inj_len in Hk as [Hka Hk]; [|exact Hlen].
  apply app_inj_len in Hk as [Hs Ha]; [|rewrite !map_length; rewrite !known_axes_length in Hlen; exact Hlen].
  apply nz_filter_inj; [eapply known_axes_nz; eassumption|apply sgn_abs_inj; assumption].
Qed.

(* ---- the on-axis bonus depends only on the set of locations --------------------------- *)
Lemma mem_axis_point_perm pts pts' i v : Permutation pts pts' -> mem_axis_point pts i v = mem_axis_point pts' i v.
Proof.
  intro Hp. unfold mem_axis_point.
  destruct (existsb _ pts) eqn:E1, (existsb _ pts') eqn:E2; try reflexivity.
  - apply existsb_exists in E1 as (x & Hx & Hb). assert (Hx' : In x pts') by (eapply Permutation_in; eassumption).
    assert (existsb (fun p => Nat.eqb (fst p) i && (snd p =? v)) pts' = true) by (apply existsb_exists; exists x; split; assumption).
    congruence.
  - apply existsb_exists in E2 as (x & Hx & Hb). assert (Hx' : In x pts) by (eapply Permutation_in; [symmetry; exact Hp|exact Hx]).
    assert (existsb (fun p => Nat.eqb (fst p) i && (snd p =? v)) pts = true) by (apply existsb_exists; exists x; split; assumption).
    congruence.
Qed.

Lemma on_axis_score_perm pts pts' l : Permutation pts pts' -> forall i, on_axis_score pts i l = on_axis_score pts' i l.
Proof.
  intro Hp. induction l as [|v l IH]; intro i; cbn [on_axis_score]; [reflexivity|].
  rewrite (mem_axis_point_perm pts pts' i v Hp), IH. reflexivity.
Qed.

Lemma sort_key_perm pts pts' l : Permutation pts pts' -> sort_key pts l = sort_key pts' l.
Proof. intro Hp. unfold sort_key. rewrite (on_axis_score_perm pts pts' l Hp). reflexivity. Qed.

Lemma on_axis_points_perm locs locs' : Permutation locs locs' -> Permutation (on_axis_points locs) (on_axis_points locs').
Proof. intro H. unfold on_axis_points. apply Permutation_flat_map. exact H. Qed.

Lemma isort_key_ext {A} (k k' : A -> list Z) l : (forall x, k x = k' x) -> isort A k l = isort A k' l.
Proof.
  intro H. induction l as [|x l IH]; cbn [isort]; [reflexivity|]. rewrite IH.
  generalize (isort A k' l). intro s. induction s as [|y s IHs]; cbn [insert_sorted]; [reflexivity|].
  rewrite (H x), (H y), IHs. reflexivity.
Qed.

(* ---- the theorem ------------------------------------------------------------------------- *)
Theorem sort_perm_invariant n locs locs' :
  Forall (fun l => length l = n) locs -> Permutation locs locs' ->
  sort_locations locs' = sort_locations locs.
Proof.
  intros Hlen Hp. unfold sort_locations.
  rewrite (isort_key_ext (sort_key (on_axis_points locs')) (sort_key (on_axis_points locs)) locs')
    by (intro x; apply sort_key_perm; apply on_axis_points_perm; symmetry; exact Hp).
  set (key := sort_key (on_axis_points locs)).
  apply (sorted_perm_unique (kle loc key)).
  - intros a b Ha Hb H1 H2. unfold kle in *.
    assert (Hin : forall x, In x (isort loc key locs') -> length x = n).
    { intros x Hx. rewrite Forall_forall in Hlen. apply Hlen. eapply Permutation_in; [symmetry; exact Hp|].
      eapply Permutation_in; [apply isort_perm|exact Hx]. }
    apply (sort_key_inj (on_axis_points locs)); [rewrite (Hin a Ha), (Hin b Hb); reflexivity|].
    apply lex_leb_antisym; assumption.
  - apply isort_sorted.
  - apply isort_sorted.
  - rewrite isort_perm, isort_perm. symmetry. exact Hp.
Qed.

Theorem model_order_independent n locs locs' :
  Forall (fun l => length l = n) locs -> Permutation locs locs' -> model_new locs' = model_new locs.
Proof. intros Hlen Hp. unfold model_new. rewrite (sort_perm_invariant n locs locs' Hlen Hp). reflexivity. Qed.
