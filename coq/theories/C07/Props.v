From FV.C07 Require Import Model.
