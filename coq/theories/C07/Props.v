(* C07 — property theorems about the model of VariationModel (FV.C07.Model).
   Statements only; the proofs are in Tents, Trim, Influence, Deltas, Main. *)
From Coq Require Import List ZArith QArith Qabs Bool Sorting.Permutation.
From FV.C07 Require Import Model Tents Trim Influence Deltas Main OrderIndep Bounds.
Import ListNotations.

(* Input: any finite set of distinct locations with one (scaled integer)
   coordinate per axis; any number of axes n, any number of masters. *)

(* 1. The model keeps exactly the supplied locations. *)
Theorem model_locations_are_the_masters : forall n locs, wf_input n locs ->
  Permutation (m_locs (model_new locs)) locs.
Proof. intros n locs H. exact (proj1 (model_invariants n locs H)). Qed.
Print Assumptions model_locations_are_the_masters.

(* 2. Every region it builds has min <= peak <= max, never spans zero, and
      peaks at its own master. *)
Theorem tents_valid : forall n locs, wf_input n locs ->
  let m := model_new locs in
  Forall2 (fun l r =>
    Forall2 (fun v t => tpeak t = v /\ (tmin t <= tpeak t <= tmax t)%Z
                        /\ ~ (tmin t < 0 < tmax t)%Z) l (tents r))
    (m_locs m) (m_infl m).
Proof.
  intros n locs H. destruct (model_invariants n locs H) as (_ & A & _). cbn zeta.
  eapply Forall2_impl; [|exact A]. intros l r [Hw _].
  eapply Forall2_impl; [|exact Hw]. intros v t [Hp Hv]. cbn beta. split; [exact Hp|exact Hv].
Qed.
Print Assumptions tents_valid.

(* 3. Region scalars lie in [0,1], at every location, for every region. *)
Theorem scalar_in_unit : forall (r : region) (l : loc), (0 <= scalar_at r l <= 1)%Q.
Proof. intros r l. apply scalar_tents_unit. Qed.
Print Assumptions scalar_in_unit.

(* 4. In the model's order a master's own region has scalar 1 at the master and
      no later master's region reaches it. *)
Theorem own_scalar_one : forall n locs, wf_input n locs ->
  let m := model_new locs in
  forall i l r, nth_error (m_locs m) i = Some l -> nth_error (m_infl m) i = Some r ->
    (scalar_at r l == 1)%Q.
Proof.
  intros n locs H. destruct (model_invariants n locs H) as (_ & A & _). cbn zeta.
  apply own_scalar_gen. exact A.
Qed.
Print Assumptions own_scalar_one.

Theorem later_has_no_influence : forall n locs, wf_input n locs ->
  let m := model_new locs in
  forall i j l r, (i < j)%nat -> nth_error (m_locs m) i = Some l -> nth_error (m_infl m) j = Some r ->
    (scalar_at r l == 0)%Q.
Proof.
  intros n locs H. destruct (model_invariants n locs H) as (_ & A & B & _). cbn zeta.
  intros i j l r Hij Hl Hr. exact (later_scalar_at _ _ B i j l r Hij Hl Hr).
Qed.
Print Assumptions later_has_no_influence.

(* 5. Without rounding, applying the computed deltas at a master's location
      returns that master's value exactly — for every subset of masters that
      defines values (vals k = None: no value at the k-th model location). *)
Theorem deltas_reproduce_exact : forall n locs, wf_input n locs ->
  let m := model_new locs in
  forall vals, length vals = length (m_locs m) ->
  forall k lk x, nth_error (m_locs m) k = Some lk -> nth_error vals k = Some (Some x) ->
    (interpolate (m_infl m) (deltas m false vals) lk == x)%Q.
Proof.
  intros n locs H. destruct (model_invariants n locs H) as (_ & A & B & C). cbn zeta.
  intros vals Hv k lk x Hk Hx. unfold deltas. rewrite C.
  exact (reproduce _ _ A B false vals Hv k lk x Hk Hx).
Qed.
Print Assumptions deltas_reproduce_exact.

(* 6. With round-ties-even deltas the master is reproduced within 1/2. *)
Theorem deltas_reproduce_rounded : forall n locs, wf_input n locs ->
  let m := model_new locs in
  forall vals, length vals = length (m_locs m) ->
  forall k lk x, nth_error (m_locs m) k = Some lk -> nth_error vals k = Some (Some x) ->
    (Qabs (interpolate (m_infl m) (deltas m true vals) lk - x) <= 1 # 2)%Q.
Proof.
  intros n locs H. destruct (model_invariants n locs H) as (_ & A & B & C). cbn zeta.
  intros vals Hv k lk x Hk Hx. unfold deltas. rewrite C.
  exact (reproduce _ _ A B true vals Hv k lk x Hk Hx).
Qed.
Print Assumptions deltas_reproduce_rounded.

(* 7. The default master (the origin) is the first model location, and the
      value interpolated there is the default's value itself (its rounding,
      when rounding is on: exact for integer values). *)
Theorem default_exact : forall n locs o, wf_input n locs -> In o locs -> is_origin o ->
  let m := model_new locs in
  nth_error (m_locs m) 0 = Some o /\
  forall rounding vals x, length vals = length (m_locs m) -> nth_error vals 0 = Some (Some x) ->
    (interpolate (m_infl m) (deltas m rounding vals) o == apply_rounding rounding x)%Q.
Proof.
  intros n locs o H Hin Ho. destruct (model_invariants n locs H) as (_ & A & B & C). cbn zeta.
  pose proof (origin_first n locs o H Hin Ho) as H0. split; [exact H0|].
  intros rounding vals x Hv Hx. unfold deltas. rewrite C.
  exact (reproduce_first _ _ A B rounding vals Hv o x H0 Hx).
Qed.
Print Assumptions default_exact.

Theorem default_exact_integer : forall z : Z, apply_rounding true (inject_Z z) = inject_Z z.
Proof. intro z. unfold apply_rounding. rewrite round_ties_even_int. reflexivity. Qed.
Print Assumptions default_exact_integer.

(* 8. The result does not depend on the order in which the masters are supplied (nor, therefore, on
      HashSet iteration order): the whole model - sorted locations, regions, influence, delta weights -
      is the same for every permutation of the input. *)
Theorem result_independent_of_supply_order : forall n locs locs',
  Forall (fun l => length l = n) locs -> Permutation locs locs' -> model_new locs' = model_new locs.
Proof. exact model_order_independent. Qed.
Print Assumptions result_independent_of_supply_order.

(* 9. Every tent of every influence region stays inside the normalised range: if all master
      coordinates lie in [-B, B] (B is the scale of the integer grid, i.e. 1.0), so do the lower and
      upper ends of every tent, after any amount of trimming. *)
Theorem tents_stay_in_range : forall B n locs,
  0 <= B -> wf_input n locs -> Forall (Forall (fun v => - B <= v <= B)) locs ->
  Forall (fun r => Forall (fun t => - B <= tmin t /\ tmax t <= B) (tents r)) (m_infl (model_new locs)).
Proof. exact tents_inside_unit_cube. Qed.
Print Assumptions tents_stay_in_range.

(* the hypotheses are satisfiable by a non-trivial layout (two axes, corner,
   on-axis and interior masters) *)
Example layout : list loc := [[0;0];[10;10];[0;10];[10;0];[5;5];[-10;0]]%Z.
Example layout_wf : wf_input 2 layout.
Proof.
  split.
  - repeat (constructor; [cbn; intuition discriminate|]). constructor.
  - repeat constructor.
Qed.
