(* C07 — every tent of every influence region lies inside [-1,1] (scaled: [-B,B]). *)
From Coq Require Import List ZArith QArith Bool Lia Sorting.Permutation.
From Coq Require Import ZifyBool.
From FV.C07 Require Import Model Tents Trim Influence Main.
Import ListNotations.
Open Scope Z_scope.

Definition tent_bounded (B : Z) (t : tent) : Prop := - B <= tmin t /\ tmax t <= B.
Definition bounded (B : Z) (r : region) : Prop := Forall (tent_bounded B) (tents r).

Lemma map2_cut_bounded B xs : forall f,
  Forall good xs -> Forall2 flag_ok xs f ->
  Forall (tent_bounded B) (map (fun x => fst (fst x)) xs) ->
  Forall (tent_bounded B) (map2 apply_cut xs f).
Proof.
  induction xs as [|x xs IH]; intros f Hg HF Hb; inversion HF as [|? fl ? f' Hfl HF']; subst; cbn [map2]; [constructor|].
  inversion Hg as [|? ? Hgx Hgxs]; subst. cbn [map] in Hb. inversion Hb as [|? ? Hbx Hbxs]; subst.
  destruct (good_cut x fl Hgx Hfl) as (_ & A & C & (Hv & _) & _).
  constructor; [|apply IH; assumption]. unfold tent_bounded in *. lia.
Qed.

Lemma trim_bounded B l lp r prev :
  wf_region l r -> wf_region lp prev -> length lp = length l -> bounded B r -> bounded B (trim r prev).
Proof.
  intros Hr Hp Hlen Hb. unfold trim.
  destruct (negb (bools_eqb (active r) (active prev))); [exact Hb|].
  rewrite (wf_peaks _ _ Hp).
  destruct (forallb overlap1 (combine (tents r) lp)) eqn:Hov; cbn [negb]; [|exact Hb].
  destruct (axis_inputs_good l r lp Hr Hlen Hov) as (Hg & Ht & Hpp & Ha).
  fold (axis_inputs r lp). destruct (one_pass_flags (axis_inputs r lp)) as [HF _].
  unfold bounded. cbn [tents]. apply map2_cut_bounded; [exact Hg|exact HF|]. rewrite Ht. exact Hb.
Qed.

Lemma fold_trim_bounded B acc : forall alocs l r,
  Forall2 wf_region alocs acc -> Forall (fun a => length a = length l) alocs ->
  wf_region l r -> bounded B r -> bounded B (fold_left trim acc r).
Proof.
  induction acc as [|p acc IH]; intros alocs l r HA HL Hr Hb; cbn [fold_left]; [exact Hb|].
  inversion HA as [|lp ? alocs' ? Hp HA']; subst. inversion HL as [|? ? Hlp HL']; subst.
  eapply IH; [exact HA'|exact HL'|eapply trim_wf; eassumption|eapply trim_bounded; eassumption].
Qed.

(* the initial region of a location inside [-B,B]^n *)
Lemma axis_min_lb B i locs : 0 <= B -> Forall (Forall (fun v => - B <= v <= B)) locs -> - B <= axis_min i locs.
Proof.
  intros HB H. induction H as [|l locs Hl _ IH]; cbn [axis_min]; [lia|].
  assert (- B <= nth i l 0).
  { destruct (nth_in_or_default i l 0) as [Hin|Hd]; [|rewrite Hd; lia]. rewrite Forall_forall in Hl. apply Hl in Hin. lia. }
  lia.
Qed.

Lemma axis_max_ub B i locs : 0 <= B -> Forall (Forall (fun v => - B <= v <= B)) locs -> axis_max i locs <= B.
Proof.
  intros HB H. induction H as [|l locs Hl _ IH]; cbn [axis_max]; [lia|].
  assert (nth i l 0 <= B).
  { destruct (nth_in_or_default i l 0) as [Hin|Hd]; [|rewrite Hd; lia]. rewrite Forall_forall in Hl. apply Hl in Hin. lia. }
  lia.
Qed.

Lemma region_tents_bounded B locs l : 0 <= B -> Forall (Forall (fun v => - B <= v <= B)) locs ->
  forall i, Forall (tent_bounded B) (region_tents locs i l).
Proof.
  intros HB Hl. induction l as [|v l IH]; intro i; cbn [region_tents]; constructor; [|apply IH].
  pose proof (axis_min_lb B i locs HB Hl). pose proof (axis_max_ub B i locs HB Hl).
  pose proof (axis_min_nonpos i locs). pose proof (axis_max_nonneg i locs).
  unfold tent_bounded, tent_new. destruct (Z.eqb_spec v 0); destruct (Z.ltb_spec 0 v); cbn [tmin tmax]; lia.
Qed.

Lemma influence_acc_bounded B full rest : forall alocs acc,
  0 <= B -> Forall (Forall (fun v => - B <= v <= B)) full ->
  Forall2 wf_region alocs acc -> Forall (bounded B) acc ->
  Forall (fun a => length a = length (hd [] full)) (alocs ++ rest) ->
  incl rest full ->
  Forall (bounded B) (influence_acc acc (map (region_of full) rest)).
Proof.
  induction rest as [|lj rest IH]; intros alocs acc HB Hfull HA Hbd HL Hincl; cbn [map influence_acc]; [exact Hbd|].
  assert (Hlj_in : In lj full) by (apply Hincl; left; reflexivity).
  pose proof (region_of_wf full lj Hlj_in) as Hrj.
  assert (HLa : Forall (fun a => length a = length lj) alocs).
  { apply Forall_app in HL as [HL1 HL2]. inversion HL2 as [|? ? Hlj _]; subst.
    eapply Forall_impl; [|exact HL1]. intros a Ha. cbn beta in *. congruence. }
  assert (Hb0 : bounded B (region_of full lj)) by (unfold bounded, region_of; cbn [tents]; apply region_tents_bounded; assumption).
  apply (IH (alocs ++ [lj])); try assumption.
  - apply Forall2_app; [exact HA|constructor; [eapply fold_trim_wf; eassumption|constructor]].
  - apply Forall_app. split; [exact Hbd|constructor; [eapply fold_trim_bounded; eassumption|constructor]].
  - rewrite <- app_assoc. exact HL.
  - intros x Hx. apply Hincl. right. exact Hx.
Qed.

Theorem tents_inside_unit_cube B n locs :
  0 <= B -> wf_input n locs -> Forall (Forall (fun v => - B <= v <= B)) locs ->
  Forall (fun r => Forall (fun t => - B <= tmin t /\ tmax t <= B) (tents r)) (m_infl (model_new locs)).
Proof.
  intros HB [Hnd Hlen] Hloc. unfold model_new. cbn [m_infl]. unfold master_influence, regions_for.
  set (s := sort_locations locs).
  assert (Hp : Permutation s locs) by apply sort_perm.
  assert (Hs : Forall (fun l => length l = n) s) by (eapply Permutation_Forall; [symmetry; exact Hp|exact Hlen]).
  assert (Hsb : Forall (Forall (fun v => - B <= v <= B)) s) by (eapply Permutation_Forall; [symmetry; exact Hp|exact Hloc]).
  apply (influence_acc_bounded B s s [] []); try assumption.
  - constructor.
  - constructor.
  - cbn [app]. destruct s as [|h t]; [constructor|]. cbn [hd]. inversion Hs as [|? ? Hh _]; subst.
    eapply Forall_impl; [|exact Hs]. intros a Ha. cbn beta in *. congruence.
  - apply incl_refl.
Qed.
