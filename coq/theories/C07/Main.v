(* C07 — the theorems about model_new, assembled. *)
From Coq Require Import List ZArith QArith Qabs Bool Lia Lqa Sorting.Permutation Sorting.Sorted.
From FV.C07 Require Import Model Tents Trim Influence Deltas.
Import ListNotations.

(* the input of VariationModel::new: distinct locations, one coordinate per axis *)
Definition wf_input (n : nat) (locs : list loc) : Prop :=
  NoDup locs /\ Forall (fun l => length l = n) locs.

Lemma StronglySorted_impl {A} (R R' : A -> A -> Prop) l :
  (forall a b, R a b -> R' a b) -> StronglySorted R l -> StronglySorted R' l.
Proof.
  intros H. induction 1 as [|x l Hs IH Hall]; constructor; [exact IH|].
  eapply Forall_impl; [|exact Hall]. intros b Hb. apply H. exact Hb.
Qed.

Lemma sort_perm locs : Permutation (sort_locations locs) locs.
Proof. apply isort_perm. Qed.

Lemma sort_rank_sorted locs : StronglySorted (fun a b => (rank a <= rank b)%Z) (sort_locations locs).
Proof.
  unfold sort_locations. eapply StronglySorted_impl; [|apply isort_sorted].
  intros a b H. eapply sort_key_rank. exact H.
Qed.

Theorem model_invariants n locs : wf_input n locs ->
  let m := model_new locs in
  Permutation (m_locs m) locs
  /\ Forall2 wf_region (m_locs m) (m_infl m)
  /\ later_dead (m_locs m) (m_infl m)
  /\ m_weights m = delta_weights_from 0 (m_infl m) (m_locs m).
Proof.
  intros [Hnd Hlen]. cbn zeta. unfold model_new. cbn [m_locs m_infl m_weights].
  set (s := sort_locations locs).
  assert (Hp : Permutation s locs) by apply sort_perm.
  split; [exact Hp|].
  assert (Hinv : Forall2 wf_region ([] ++ s) (influence_acc [] (map (region_of s) s))
                 /\ later_dead ([] ++ s) (influence_acc [] (map (region_of s) s))).
  { apply influence_acc_inv.
    - constructor.
    - intros i j li Ij _ Hi. destruct i; discriminate.
    - cbn [app]. assert (Hs : Forall (fun l => length l = n) s).
      { eapply Permutation_Forall; [symmetry; exact Hp|exact Hlen]. }
      destruct s as [|h t]; [constructor|]. cbn [hd]. inversion Hs as [|? ? Hh _]; subst.
      eapply Forall_impl; [|exact Hs]. intros a Ha. cbn beta in *. congruence.
    - apply incl_refl.
    - cbn [app]. apply sort_rank_sorted.
    - cbn [app]. eapply Permutation_NoDup; [symmetry; exact Hp|exact Hnd]. }
  cbn [app] in Hinv. destruct Hinv as [A B]. unfold master_influence, regions_for.
  split; [exact A|]. split; [exact B|reflexivity].
Qed.

(* all-zero location *)
Definition is_origin (l : loc) : Prop := Forall (fun v => v = 0%Z) l.

Lemma rank_zero_origin l : rank l = 0%Z -> is_origin l.
Proof.
  unfold rank, is_origin. induction l as [|v l IH]; cbn [filter]; intro H; [constructor|].
  unfold nz at 1 in H. destruct (Z.eqb_spec v 0) as [->|Hv]; cbn [negb length] in H.
  - constructor; [reflexivity|apply IH; exact H].
  - lia.
Qed.

Lemma origin_rank l : is_origin l -> rank l = 0%Z.
Proof.
  unfold rank, is_origin. induction 1 as [|v l Hv _ IH]; cbn [filter]; [reflexivity|].
  subst v. cbn. exact IH.
Qed.

Lemma rank_nonneg l : (0 <= rank l)%Z.
Proof. unfold rank. lia. Qed.

Lemma origin_unique n a b : length a = n -> length b = n -> is_origin a -> is_origin b -> a = b.
Proof.
  revert n b. induction a as [|x a IH]; intros n [|y b] Ha Hb Oa Ob; cbn [length] in *; subst; try discriminate; [reflexivity|].
  inversion Oa; inversion Ob; subst. f_equal. eapply IH; [reflexivity|lia|assumption|assumption].
Qed.

(* the default (origin) is the first location of the model *)
Lemma origin_first n locs o : wf_input n locs -> In o locs -> is_origin o ->
  nth_error (sort_locations locs) 0 = Some o.
Proof.
  intros [Hnd Hlen] Hin Ho.
  pose proof (sort_perm locs) as Hp. pose proof (sort_rank_sorted locs) as Hs.
  assert (Hin' : In o (sort_locations locs)) by (eapply Permutation_in; [symmetry; exact Hp|exact Hin]).
  destruct (sort_locations locs) as [|h t]; [destruct Hin'|]. cbn.
  destruct Hin' as [->|Hint]; [reflexivity|].
  apply StronglySorted_inv in Hs as [_ Hall]. rewrite Forall_forall in Hall. specialize (Hall o Hint).
  rewrite (origin_rank o Ho) in Hall. pose proof (rank_nonneg h).
  assert (Hh : is_origin h) by (apply rank_zero_origin; lia).
  assert (Hlen' : Forall (fun l => length l = n) (h :: t)) by (eapply Permutation_Forall; [symmetry; exact Hp|exact Hlen]).
  rewrite Forall_forall in Hlen'.
  f_equal. eapply origin_unique; [apply Hlen'; left; reflexivity|apply Hlen'; right; exact Hint|exact Hh|exact Ho].
Qed.

Lemma Forall2_impl {A B} (R R' : A -> B -> Prop) l1 l2 :
  (forall a b, R a b -> R' a b) -> Forall2 R l1 l2 -> Forall2 R' l1 l2.
Proof. intros H. induction 1; constructor; auto. Qed.
