(* C07 — comparison functions used by the correspondence run (no proofs). *)
From Coq Require Import List ZArith QArith Qabs Bool.
From FV.Base Require Import Harness.
From FV.C07 Require Import Model.
Import ListNotations.

Definition tent_triple (t : tent) : Z * Z * Z := (tmin t, tpeak t, tmax t).
Definition triple_eqb (a b : Z * Z * Z) : bool :=
  let '(a1, a2, a3) := a in let '(b1, b2, b3) := b in (a1 =? b1)%Z && (a2 =? b2)%Z && (a3 =? b3)%Z.

Definition eps : Q := 1 # 1099511627776. (* 2^-40 *)

Definition wq_eqb (a b : nat * Q) : bool :=
  Nat.eqb (fst a) (fst b) && Qclose (eps * (1 + Qabs (snd b))) (snd a) (snd b).

(* sorted order, every tent of every influence region, every delta weight *)
Definition check_model (locs exp_sorted : list loc) (exp_tents : list (list (Z * Z * Z)))
           (exp_active : list (list bool)) (exp_w : list (list (nat * Q))) : bool :=
  let m := model_new locs in
  list_eqb (list_eqb Z.eqb) (m_locs m) exp_sorted
  && list_eqb (list_eqb triple_eqb) (map (fun r => map tent_triple (tents r)) (m_infl m)) exp_tents
  && list_eqb (list_eqb Bool.eqb) (map active (m_infl m)) exp_active
  && list_eqb (list_eqb wq_eqb) (m_weights m) exp_w.

(* vals are given per INPUT location (same order as locs); reorder to model order *)
Fixpoint find_val (locs : list loc) (vals : list (option Q)) (l : loc) : option Q :=
  match locs, vals with
  | x :: locs', v :: vals' => if list_eqb Z.eqb x l then v else find_val locs' vals' l
  | _, _ => None
  end.

Definition model_vals (m : model) (locs : list loc) (vals : list (option Q)) : list (option Q) :=
  map (find_val locs vals) (m_locs m).

Definition dq_eqb (tol : Q) (a b : nat * Q) : bool :=
  Nat.eqb (fst a) (fst b) && Qclose tol (snd a) (snd b).

(* deltas (as (model index, delta)) and the value interpolated at every location *)
Definition check_deltas (locs : list loc) (vals : list (option Q)) (rounding : bool)
           (exp_deltas : list (nat * Q)) (exp_interp : list Q) (tol : Q) : bool :=
  let m := model_new locs in
  let ds := deltas m rounding (model_vals m locs vals) in
  list_eqb (dq_eqb tol) ds exp_deltas
  && list_eqb (Qclose tol) (map (interpolate (m_infl m) ds) (m_locs m)) exp_interp.

(* distance of the model's pre-rounding values from a rounding tie; the harness
   skips cases where it is tiny (f64 vs exact arithmetic may round differently) *)
