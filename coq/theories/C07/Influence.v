(* C07 — the sort, the regions, and the key fact: a later master has no
   influence at an earlier master's location. *)
From Coq Require Import List ZArith QArith Bool Lia Lqa Sorting.Permutation Sorting.Sorted.
From Coq Require Import ZifyBool.
From FV.C07 Require Import Model Tents Trim.
Import ListNotations.
Open Scope Z_scope.

(* ---- lexicographic order and the insertion sort ---------------------------- *)
Lemma lex_leb_total a : forall b, lex_leb a b = false -> lex_leb b a = true.
Proof.
  induction a as [|x a IH]; intros [|y b]; cbn [lex_leb]; intro H; try discriminate; try reflexivity.
  destruct (Z.ltb_spec x y); [discriminate|].
  destruct (Z.ltb_spec y x); [reflexivity|]. apply IH. exact H.
Qed.

Lemma lex_leb_trans a : forall b c, lex_leb a b = true -> lex_leb b c = true -> lex_leb a c = true.
Proof.
  induction a as [|x a IH]; intros [|y b] [|z c]; cbn [lex_leb]; intros H1 H2;
    try reflexivity; try discriminate.
  destruct (Z.ltb_spec x y), (Z.ltb_spec y z), (Z.ltb_spec x z); try reflexivity; try lia;
    destruct (Z.ltb_spec y x), (Z.ltb_spec z y), (Z.ltb_spec z x); try discriminate; try lia.
  eapply IH; eassumption.
Qed.

Lemma lex_leb_head x a y b : lex_leb (x :: a) (y :: b) = true -> x <= y.
Proof. cbn [lex_leb]. destruct (Z.ltb_spec x y); [lia|]. destruct (Z.ltb_spec y x); [discriminate|lia]. Qed.

Section SortFacts.
  Variable A : Type.
  Variable key : A -> list Z.
  Definition kle (a b : A) : Prop := lex_leb (key a) (key b) = true.

  Lemma insert_perm x l : Permutation (insert_sorted A key x l) (x :: l).
  Proof.
    induction l as [|y t IH]; cbn [insert_sorted]; [reflexivity|].
    destruct (lex_leb (key x) (key y)); [reflexivity|].
    rewrite IH. apply perm_swap.
  Qed.

  Lemma isort_perm l : Permutation (isort A key l) l.
  Proof.
    induction l as [|x t IH]; cbn [isort]; [reflexivity|].
    rewrite insert_perm. constructor. exact IH.
  Qed.

  Lemma insert_sorted_sorted x l :
    StronglySorted kle l -> StronglySorted kle (insert_sorted A key x l).
  Proof.
    induction 1 as [|y t Hs IH Hall]; cbn [insert_sorted].
    - constructor; constructor.
    - destruct (lex_leb (key x) (key y)) eqn:E.
      + constructor; [constructor; assumption|]. constructor; [exact E|].
        eapply Forall_impl; [|exact Hall]. intros z Hz. unfold kle in *. eapply lex_leb_trans; eassumption.
      + constructor; [exact IH|].
        assert (Hyx : kle y x) by (apply lex_leb_total; exact E).
        eapply Permutation_Forall; [symmetry; apply insert_perm|]. constructor; assumption.
  Qed.

  Lemma isort_sorted l : StronglySorted kle (isort A key l).
  Proof. induction l; cbn [isort]; [constructor|apply insert_sorted_sorted; assumption]. Qed.
End SortFacts.

Lemma sort_key_rank pts a b :
  lex_leb (sort_key pts a) (sort_key pts b) = true -> rank a <= rank b.
Proof. unfold sort_key. apply lex_leb_head. Qed.

(* ---- counting non-zero axes -------------------------------------------------- *)
(* some axis is zero in li and non-zero in lj *)
Inductive zero_under : loc -> loc -> Prop :=
| zu_here li lj v : v <> 0 -> zero_under (0 :: li) (v :: lj)
| zu_later a b li lj : zero_under li lj -> zero_under (a :: li) (b :: lj).

Lemma map_nz_count li : forall lj, map nz li = map nz lj ->
  length (filter nz li) = length (filter nz lj).
Proof.
  induction li as [|x li IH]; intros [|y lj] E; cbn [map] in E; try discriminate; [reflexivity|].
  injection E as E1 E2. cbn [filter]. rewrite E1. destruct (nz y); cbn [length]; rewrite (IH lj E2); reflexivity.
Qed.

Lemma count_nz_cases li : forall lj,
  length li = length lj ->
  (length (filter nz li) <= length (filter nz lj))%nat ->
  map nz li = map nz lj \/ zero_under li lj.
Proof.
  induction li as [|a li IH]; intros [|b lj] Hlen Hcnt; cbn [length] in Hlen; try discriminate.
  - left; reflexivity.
  - cbn [filter map] in *.
    destruct (nz a) eqn:Ea; destruct (nz b) eqn:Eb; cbn [length] in Hcnt.
    + destruct (IH lj) as [E|Z]; [lia|lia|left; rewrite E; reflexivity|right; constructor 2; exact Z].
    + destruct (IH lj) as [E|Z]; [lia|lia| |right; constructor 2; exact Z].
      exfalso. pose proof (map_nz_count li lj E). lia.
    + right. assert (a = 0) by (unfold nz in Ea; lia). subst a.
      constructor 1. unfold nz in Eb. lia.
    + destruct (IH lj) as [E|Z]; [lia|lia|left; rewrite E; reflexivity|right; constructor 2; exact Z].
Qed.

(* a well-formed region for lj kills any location that is zero on one of lj's
   non-zero axes *)
Lemma wf_dead_zero ts : forall lj li,
  Forall2 (fun v t => tpeak t = v /\ valid t) lj ts -> zero_under li lj -> dead ts li.
Proof.
  induction ts as [|t ts IH]; intros lj li Hw Hz; inversion Hw as [|v ? lj' ? [Hp Hv] Hw']; subst;
    inversion Hz as [li' ? v' Hne|a b li' ? Hz']; subst.
  - apply dead_here. destruct Hv as [[H1 H2] H3]. unfold kills, valid. lia.
  - apply dead_later. eapply IH; eassumption.
Qed.

(* ---- folding trim over the earlier influences --------------------------------- *)
Lemma fold_trim_wf acc : forall alocs l r,
  Forall2 wf_region alocs acc -> Forall (fun a => length a = length l) alocs ->
  wf_region l r -> wf_region l (fold_left trim acc r).
Proof.
  induction acc as [|p acc IH]; intros alocs l r HA HL Hr; cbn [fold_left]; [exact Hr|].
  inversion HA as [|lp ? alocs' ? Hp HA']; subst. inversion HL as [|? ? Hlp HL']; subst.
  eapply IH; [exact HA'|exact HL'|]. eapply trim_wf; eassumption.
Qed.

Lemma fold_trim_preserves_dead acc : forall alocs l r x,
  Forall2 wf_region alocs acc -> Forall (fun a => length a = length l) alocs ->
  wf_region l r -> dead (tents r) x -> dead (tents (fold_left trim acc r)) x.
Proof.
  induction acc as [|p acc IH]; intros alocs l r x HA HL Hr Hd; cbn [fold_left]; [exact Hd|].
  inversion HA as [|lp ? alocs' ? Hp HA']; subst. inversion HL as [|? ? Hlp HL']; subst.
  eapply IH; [exact HA'|exact HL'|eapply trim_wf; eassumption|].
  eapply trim_preserves_dead; eassumption.
Qed.

Lemma fold_trim_dead acc : forall alocs lj r li,
  Forall2 wf_region alocs acc -> Forall (fun a => length a = length lj) alocs ->
  wf_region lj r -> In li alocs -> li <> lj -> rank li <= rank lj ->
  dead (tents (fold_left trim acc r)) li.
Proof.
  intros alocs lj r li HA HL Hr Hin Hne Hrk.
  assert (Hlen : length li = length lj) by (rewrite Forall_forall in HL; apply HL; exact Hin).
  destruct (count_nz_cases li lj Hlen) as [Hnz|Hz].
  { unfold rank in Hrk. lia. }
  - (* same non-zero axes: the trim against li's own influence kills li *)
    apply in_split in Hin as (a1 & a2 & ->).
    apply Forall2_app_inv_l in HA as (A1 & A2' & HA1 & HA2 & ->).
    inversion HA2 as [|? Ii ? A2 Hi HA2']; subst.
    rewrite fold_left_app. cbn [fold_left].
    apply Forall_app in HL as [HL1 HL2]. inversion HL2 as [|? ? Hli HL2']; subst.
    pose proof (fold_trim_wf A1 a1 lj r HA1 HL1 Hr) as Hr1.
    eapply fold_trim_preserves_dead; [exact HA2'|exact HL2'|eapply trim_wf; eassumption|].
    eapply trim_kills; eassumption.
  - (* li is zero on one of lj's axes: every well-formed region for lj kills it *)
    pose proof (fold_trim_wf acc alocs lj r HA HL Hr) as [Hw _].
    eapply wf_dead_zero; eassumption.
Qed.

(* ---- regions_for ------------------------------------------------------------- *)
Lemma axis_bounds locs l i : In l locs -> axis_min i locs <= nth i l 0 <= axis_max i locs.
Proof.
  induction locs as [|x locs IH]; intros []; cbn [axis_min axis_max].
  - subst. lia.
  - specialize (IH H). lia.
Qed.

Lemma axis_min_nonpos i locs : axis_min i locs <= 0.
Proof. induction locs; cbn [axis_min]; lia. Qed.
Lemma axis_max_nonneg i locs : 0 <= axis_max i locs.
Proof. induction locs; cbn [axis_max]; lia. Qed.

Lemma region_tents_wf locs l' : forall i,
  (forall k v, nth_error l' k = Some v -> axis_min (i + k) locs <= v <= axis_max (i + k) locs) ->
  Forall2 (fun v t => tpeak t = v /\ valid t) l' (region_tents locs i l')
  /\ map tent_nonzero (region_tents locs i l') = map nz l'.
Proof.
  induction l' as [|v l' IH]; intros i Hb; cbn [region_tents map]; [split; [constructor|reflexivity]|].
  destruct (IH (S i)) as [A B].
  { intros k w Hk. specialize (Hb (S k) w Hk). replace (S i + k)%nat with (i + S k)%nat by lia. exact Hb. }
  specialize (Hb 0%nat v eq_refl). rewrite Nat.add_0_r in Hb.
  pose proof (axis_min_nonpos i locs). pose proof (axis_max_nonneg i locs).
  assert (Ht : let t := (if v =? 0 then tent_new 0 v 0 else tent_new (axis_min i locs) v (axis_max i locs)) in
               tpeak t = v /\ valid t /\ tent_nonzero t = nz v).
  { unfold tent_new, nz, tent_nonzero, valid.
    destruct (Z.eqb_spec v 0) as [->|Hv]; cbn.
    - repeat split; lia.
    - destruct (Z.ltb_spec 0 v); cbn [tpeak tmin tmax]; repeat split; lia. }
  destruct Ht as (T1 & T2 & T3). split.
  - constructor; [split; assumption|exact A].
  - rewrite T3, B. reflexivity.
Qed.

Lemma region_of_wf locs l : In l locs -> wf_region l (region_of locs l).
Proof.
  intro Hin. unfold region_of, wf_region. cbn [tents active].
  apply region_tents_wf. intros k v Hk. cbn [Nat.add].
  pose proof (axis_bounds locs l k Hin) as Hb.
  rewrite (nth_error_nth l k 0 Hk) in Hb. exact Hb.
Qed.

Lemma ss_app_cross {A} (R : A -> A -> Prop) l1 l2 :
  StronglySorted R (l1 ++ l2) -> forall a b, In a l1 -> In b l2 -> R a b.
Proof.
  induction l1 as [|x l1 IH]; cbn [app]; intros Hs a b Ha Hb; [destruct Ha|].
  apply StronglySorted_inv in Hs as [Hs Hall]. destruct Ha as [->|Ha].
  - rewrite Forall_forall in Hall. apply Hall. apply in_or_app. right. exact Hb.
  - eapply IH; eassumption.
Qed.

(* ---- the accumulated influence list ------------------------------------------- *)
(* the invariant carried through influence_acc: every influence is well formed for
   its location, and no influence reaches an earlier location *)
Definition later_dead (alocs : list loc) (acc : list region) : Prop :=
  forall i j li Ij, (i < j)%nat -> nth_error alocs i = Some li -> nth_error acc j = Some Ij ->
                    dead (tents Ij) li.

Lemma influence_acc_inv full rest : forall alocs acc,
  Forall2 wf_region alocs acc -> later_dead alocs acc ->
  Forall (fun a => length a = length (hd [] full)) (alocs ++ rest) ->
  incl rest full ->
  StronglySorted (fun a b => rank a <= rank b) (alocs ++ rest) ->
  NoDup (alocs ++ rest) ->
  let out := influence_acc acc (map (region_of full) rest) in
  Forall2 wf_region (alocs ++ rest) out /\ later_dead (alocs ++ rest) out.
Proof.
  induction rest as [|lj rest IH]; intros alocs acc HA HD HL Hincl Hsort Hnd; cbn [map influence_acc].
  - rewrite app_nil_r. split; assumption.
  - set (n := length (hd [] full)) in *.
    assert (Hlj_in : In lj full) by (apply Hincl; left; reflexivity).
    pose proof (region_of_wf full lj Hlj_in) as Hrj.
    assert (HLa : Forall (fun a => length a = length lj) alocs).
    { apply Forall_app in HL as [HL1 HL2]. inversion HL2 as [|? ? Hlj _]; subst.
      eapply Forall_impl; [|exact HL1]. intros a Ha. cbn beta in *. congruence. }
    pose proof (fold_trim_wf acc alocs lj _ HA HLa Hrj) as Hnew.
    replace (alocs ++ lj :: rest) with ((alocs ++ [lj]) ++ rest) in * by (rewrite <- app_assoc; reflexivity).
    apply IH.
    + apply Forall2_app; [exact HA|constructor; [exact Hnew|constructor]].
    + (* later_dead for the extended list *)
      intros i j li Ij Hij Hi Hj.
      assert (Hlen : length alocs = length acc).
      { clear -HA. induction HA; cbn [length]; [reflexivity|rewrite IHHA; reflexivity]. }
      destruct (Nat.lt_ge_cases j (length acc)) as [Hjl|Hjl].
      * rewrite nth_error_app1 in Hj by exact Hjl.
        rewrite nth_error_app1 in Hi by lia. exact (HD i j li Ij Hij Hi Hj).
      * assert (j = length acc).
        { assert (Hlt : (j < length (acc ++ [fold_left trim acc (region_of full lj)]))%nat) by (apply nth_error_Some; congruence).
          rewrite app_length in Hlt. cbn [length] in Hlt. lia. }
        subst j. rewrite nth_error_app2 in Hj by lia. rewrite Nat.sub_diag in Hj. cbn in Hj.
        injection Hj as <-.
        rewrite nth_error_app1 in Hi by lia.
        assert (Hin : In li alocs) by (eapply nth_error_In; exact Hi).
        apply fold_trim_dead with (alocs := alocs) (lj := lj); try assumption.
        -- (* distinct *)
           intros ->. rewrite <- app_assoc in Hnd. cbn [app] in Hnd.
           apply NoDup_remove_2 in Hnd. apply Hnd. apply in_or_app. left. exact Hin.
        -- (* rank order *)
           rewrite <- app_assoc in Hsort. cbn [app] in Hsort.
           apply (ss_app_cross _ alocs (lj :: rest) Hsort li lj Hin). left. reflexivity.
    + exact HL.
    + intros x Hx. apply Hincl. right. exact Hx.
    + exact Hsort.
    + exact Hnd.
Qed.
