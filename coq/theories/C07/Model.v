(* C07 — model of fontdrasil/src/variations.rs (VariationModel::new, deltas,
   interpolate_from_deltas).  Executable definitions only.

   Coordinates.  A normalized location is a list of integers, one per axis of
   axis_order, all scaled by one common denominator D > 0 (so [-1,1] is
   [-D,D]).  Every decision the code takes on coordinates is a comparison, an
   equality test or a ratio of differences, all invariant under the scaling,
   so the scaled model computes the same sort order, the same tents (scaled)
   and the same scalars.  Scalars, weights, values and deltas are rationals
   (f64 in the code; see DESIGN.md 4.1). *)
From Coq Require Import List ZArith QArith Qabs Qround Bool.
Import ListNotations.
Open Scope Z_scope.

Definition loc := list Z.

Record tent := mkTent { tmin : Z; tpeak : Z; tmax : Z }.

(* Tent::new *)
Definition tent_new (mn pk mx : Z) : tent :=
  if 0 <? pk then mkTent 0 pk mx else mkTent mn pk 0.

(* Tent::has_non_zero *)
Definition tent_nonzero (t : tent) : bool :=
  negb ((tmin t =? 0) && (tpeak t =? 0) && (tmax t =? 0)).

(* Tent::validate *)
Definition tent_valid (t : tent) : bool :=
  negb ((tpeak t <? tmin t) || (tmax t <? tpeak t)) && negb ((tmin t <? 0) && (0 <? tmax t)).

(* VariationRegion: tents per axis (BTreeMap<Tag,Tent>) and active_axes (HashSet<Tag>)
   as a flag per axis. *)
Record region := mkRegion { tents : list tent; active : list bool }.

(* ---- sort key --------------------------------------------------------- *)
Definition nz (v : Z) : bool := negb (v =? 0).
Definition rank (l : loc) : Z := Z.of_nat (length (filter nz l)).

(* is the location on exactly one axis?  returns that axis index and value *)
Fixpoint single_nonzero (i : nat) (l : loc) : option (nat * Z) :=
  match l with
  | [] => None
  | v :: t => if nz v then (if forallb (fun x => x =? 0) t then Some (i, v) else None)
              else single_nonzero (S i) t
  end.

(* on_axis_points: (axis, value) pairs of the on-axis locations *)
Definition on_axis_points (locs : list loc) : list (nat * Z) :=
  flat_map (fun l => match single_nonzero 0 l with Some p => [p] | None => [] end) locs.

Definition mem_axis_point (pts : list (nat * Z)) (i : nat) (v : Z) : bool :=
  existsb (fun p => Nat.eqb (fst p) i && (snd p =? v)) pts.

Fixpoint on_axis_score (pts : list (nat * Z)) (i : nat) (l : loc) : Z :=
  match l with
  | [] => 0
  | v :: t => (if mem_axis_point pts i v then -1 else 0) + on_axis_score pts (S i) t
  end.

Fixpoint known_axes (i : nat) (l : loc) : list Z :=
  match l with
  | [] => []
  | v :: t => if nz v then Z.of_nat i :: known_axes (S i) t else known_axes (S i) t
  end.

(* LocationSortKey flattened: rank, on_axis_points, known_axes, signs, abs
   values.  (ordered_axes repeats known_axes as tags; with equal rank all the
   vectors have equal length, so the derived lexicographic order on the
   struct is the lexicographic order on this list.) *)
Definition sort_key (pts : list (nat * Z)) (l : loc) : list Z :=
  let nzs := filter nz l in
  rank l :: on_axis_score pts 0 l :: known_axes 0 l ++ map Z.sgn nzs ++ map Z.abs nzs.

Fixpoint lex_leb (a b : list Z) : bool :=
  match a, b with
  | [], _ => true
  | _ :: _, [] => false
  | x :: a', y :: b' => if x <? y then true else if y <? x then false else lex_leb a' b'
  end.

Section Sort.
  Variable A : Type.
  Variable key : A -> list Z.
  Fixpoint insert_sorted (x : A) (l : list A) : list A :=
    match l with
    | [] => [x]
    | y :: t => if lex_leb (key x) (key y) then x :: l else y :: insert_sorted x t
    end.
  Fixpoint isort (l : list A) : list A :=
    match l with
    | [] => []
    | x :: t => insert_sorted x (isort t)
    end.
End Sort.

Definition sort_locations (locs : list loc) : list loc :=
  isort loc (sort_key (on_axis_points locs)) locs.

(* ---- regions_for -------------------------------------------------------- *)
Fixpoint axis_min (i : nat) (locs : list loc) : Z :=
  match locs with [] => 0 | l :: t => Z.min (nth i l 0) (axis_min i t) end.
Fixpoint axis_max (i : nat) (locs : list loc) : Z :=
  match locs with [] => 0 | l :: t => Z.max (nth i l 0) (axis_max i t) end.

Fixpoint region_tents (locs : list loc) (i : nat) (l : loc) : list tent :=
  match l with
  | [] => []
  | v :: t =>
      (if v =? 0 then tent_new 0 v 0 else tent_new (axis_min i locs) v (axis_max i locs))
        :: region_tents locs (S i) t
  end.

Definition region_of (locs : list loc) (l : loc) : region :=
  let ts := region_tents locs 0 l in mkRegion ts (map tent_nonzero ts).

Definition regions_for (locs : list loc) : list region := map (region_of locs) locs.

(* ---- master_influence --------------------------------------------------- *)
Definition ratio (n d : Z) : Q := (inject_Z n / inject_Z d)%Q.

(* per axis: the current tent, the previous region's peak, the active flag *)
Definition axis_in := (tent * Z * bool)%type.

Definition overlap1 (x : tent * Z) : bool :=
  let '(t, pp) := x in (pp =? tpeak t) || ((tmin t <? pp) && (pp <? tmax t)).

(* candidate for a cut: active axis whose previous peak differs *)
Definition cand (x : axis_in) : bool :=
  let '(t, pp, act) := x in act && negb (pp =? tpeak t).

Definition cut_ratio (x : axis_in) : Q :=
  let '(t, pp, _) := x in
  if pp <? tpeak t then ratio (pp - tpeak t) (tmin t - tpeak t)
  else ratio (pp - tpeak t) (tmax t - tpeak t).

Definition cut_tent (x : axis_in) : tent :=
  let '(t, pp, _) := x in
  if pp <? tpeak t then mkTent pp (tpeak t) (tmax t) else mkTent (tmin t) (tpeak t) pp.

(* the single pass over axis_order keeping (best_ratio, axis_regions): flags
   say which axes are currently in axis_regions *)
Definition pass_step (st : Q * list bool) (x : axis_in) : Q * list bool :=
  let '(best, flags) := st in
  if cand x then
    let r := cut_ratio x in
    match Qcompare r best with
    | Gt => (r, map (fun _ => false) flags ++ [true])
    | Eq => (best, flags ++ [true])
    | Lt => (best, flags ++ [false])
    end
  else (best, flags ++ [false]).

Definition one_pass (xs : list axis_in) : Q * list bool :=
  fold_left pass_step xs ((-1)%Q, []).

Definition apply_cut (x : axis_in) (fl : bool) : tent :=
  if fl then cut_tent x else fst (fst x).
Definition apply_active (x : axis_in) (fl : bool) : bool :=
  if fl then snd x || tent_nonzero (cut_tent x) else snd x.

Fixpoint map2 {A B C} (f : A -> B -> C) (a : list A) (b : list B) : list C :=
  match a, b with
  | x :: a', y :: b' => f x y :: map2 f a' b'
  | _, _ => []
  end.

Fixpoint bools_eqb (a b : list bool) : bool :=
  match a, b with
  | [], [] => true
  | x :: a', y :: b' => Bool.eqb x y && bools_eqb a' b'
  | _, _ => false
  end.

(* one iteration of the inner loop: trim `r` against an earlier influence `prev` *)
Definition trim (r prev : region) : region :=
  if negb (bools_eqb (active r) (active prev)) then r else
  let zs := combine (tents r) (map tpeak (tents prev)) in
  if negb (forallb overlap1 zs) then r else
  let xs := combine zs (active r) in
  let flags := snd (one_pass xs) in
  mkRegion (map2 apply_cut xs flags) (map2 apply_active xs flags).

Fixpoint influence_acc (acc : list region) (rs : list region) : list region :=
  match rs with
  | [] => acc
  | r :: rest => influence_acc (acc ++ [fold_left trim acc r]) rest
  end.

Definition master_influence (rs : list region) : list region := influence_acc [] rs.

(* ---- scalar_at ------------------------------------------------------------ *)
Definition tent_scalar (t : tent) (v : Z) : Q :=
  if negb (tent_valid t) then 1%Q            (* filtered out of the fold *)
  else if v =? tpeak t then 1%Q
  else if (tmin t =? 0) && (tpeak t =? 0) && (tmax t =? 0) then 1%Q
  else if (v <=? tmin t) || (tmax t <=? v) then 0%Q
  else if v <? tpeak t then ratio (v - tmin t) (tpeak t - tmin t)
  else ratio (v - tmax t) (tpeak t - tmax t).

Fixpoint scalar_tents (ts : list tent) (l : loc) : Q :=
  match ts, l with
  | t :: ts', v :: l' => (tent_scalar t v * scalar_tents ts' l')%Q
  | _, _ => 1%Q
  end.

Definition scalar_at (r : region) (l : loc) : Q := scalar_tents (tents r) l.

(* ---- delta_weights --------------------------------------------------------- *)
Definition q_nonzero (q : Q) : bool := negb (Qeq_bool q 0).

(* weights of the earlier influences at location l: (index, scalar), zero scalars dropped *)
Fixpoint weights_at (i : nat) (infl : list region) (l : loc) : list (nat * Q) :=
  match infl with
  | [] => []
  | r :: t => let s := scalar_at r l in
              if q_nonzero s then (i, s) :: weights_at (S i) t l else weights_at (S i) t l
  end.

Fixpoint delta_weights_from (i : nat) (infl : list region) (locs : list loc) : list (list (nat * Q)) :=
  match locs with
  | [] => []
  | l :: t => weights_at 0 (firstn i infl) l :: delta_weights_from (S i) infl t
  end.

Record model := mkModel {
  m_locs : list loc;
  m_infl : list region;
  m_weights : list (list (nat * Q));
}.

Definition model_new (locs : list loc) : model :=
  let sorted := sort_locations locs in
  let infl := master_influence (regions_for sorted) in
  mkModel sorted infl (delta_weights_from 0 infl sorted).

(* ---- deltas (one value per location; point vectors are pointwise) --------- *)
Definition round_ties_even (q : Q) : Z :=
  let f := Qfloor q in
  match Qcompare (q - inject_Z f) (1#2) with
  | Lt => f
  | Gt => (f + 1)%Z
  | Eq => if Z.even f then f else (f + 1)%Z
  end.

Definition apply_rounding (rounding : bool) (q : Q) : Q :=
  if rounding then inject_Z (round_ties_even q) else q.

Fixpoint lookup_delta (res : list (nat * Q)) (j : nat) : option Q :=
  match res with
  | [] => None
  | (k, d) :: t => if Nat.eqb k j then Some d else lookup_delta t j
  end.

(* subtract the contributions of the already-produced deltas *)
Fixpoint subtract_influences (acc : Q) (ws : list (nat * Q)) (res : list (nat * Q)) : Q :=
  match ws with
  | [] => acc
  | (j, w) :: t =>
      match lookup_delta res j with
      | Some d => subtract_influences (acc - d * w)%Q t res
      | None => subtract_influences acc t res
      end
  end.

(* vals: one optional value per sorted model location (None = this location
   is not in point_seqs).  Result: (model index, delta) in model order. *)
Fixpoint deltas_from (rounding : bool) (i : nat) (ws : list (list (nat * Q)))
         (vals : list (option Q)) (res : list (nat * Q)) : list (nat * Q) :=
  match ws, vals with
  | w :: ws', v :: vals' =>
      match v with
      | Some x => deltas_from rounding (S i) ws' vals'
                    (res ++ [(i, apply_rounding rounding (subtract_influences x w res))])
      | None => deltas_from rounding (S i) ws' vals' res
      end
  | _, _ => res
  end.

Definition deltas (m : model) (rounding : bool) (vals : list (option Q)) : list (nat * Q) :=
  deltas_from rounding 0 (m_weights m) vals [].

(* interpolate_from_deltas: sum of scalar * delta over the delta sets *)
Fixpoint interpolate (infl : list region) (res : list (nat * Q)) (l : loc) : Q :=
  match res with
  | [] => 0%Q
  | (k, d) :: t =>
      (match nth_error infl k with
       | Some r => scalar_at r l * d
       | None => 0
       end + interpolate infl t l)%Q
  end.
