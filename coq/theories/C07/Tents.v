(* C07 — lemmas about single tents and products of tent scalars. *)
From Coq Require Import List ZArith QArith Qabs Qround Bool Lia Lqa.
From Coq Require Import ZifyBool.
From FV.C07 Require Import Model.
Import ListNotations.
Open Scope Z_scope.

Definition valid (t : tent) : Prop :=
  tmin t <= tpeak t <= tmax t /\ ~ (tmin t < 0 < tmax t).

Lemma tent_valid_iff t : tent_valid t = true <-> valid t.
Proof. unfold tent_valid, valid. lia. Qed.

Definition is_zero_tent (t : tent) : Prop := tmin t = 0 /\ tpeak t = 0 /\ tmax t = 0.

Lemma tent_nonzero_iff t : tent_nonzero t = true <-> ~ is_zero_tent t.
Proof. unfold tent_nonzero, is_zero_tent. lia. Qed.

(* the tent contributes factor 0 at coordinate v *)
Definition kills (t : tent) (v : Z) : Prop :=
  valid t /\ v <> tpeak t /\ tpeak t <> 0 /\ (v <= tmin t \/ tmax t <= v).

Lemma kills_scalar t v : kills t v -> tent_scalar t v = 0%Q.
Proof.
  intros (Hv & Hne & Hp & Hout). unfold tent_scalar.
  apply tent_valid_iff in Hv. rewrite Hv. cbn [negb].
  destruct (Z.eqb_spec v (tpeak t)); [contradiction|].
  destruct (Z.eqb_spec (tpeak t) 0); [contradiction|].
  rewrite andb_false_r. cbn [andb].
  replace ((v <=? tmin t) || (tmax t <=? v)) with true by lia. reflexivity.
Qed.

Lemma own_scalar t : tent_scalar t (tpeak t) = 1%Q.
Proof.
  unfold tent_scalar. destruct (tent_valid t); cbn [negb]; [|reflexivity].
  rewrite Z.eqb_refl. reflexivity.
Qed.

Lemma ratio_unit n d : 0 < n < d -> (0 < ratio n d /\ ratio n d < 1)%Q.
Proof.
  intros [Hn Hd]. unfold ratio.
  assert (Hd' : (0 < inject_Z d)%Q) by (rewrite <- (Zlt_Qlt 0); lia).
  assert (Hn' : (0 < inject_Z n)%Q) by (rewrite <- (Zlt_Qlt 0); lia).
  assert (Hnd : (inject_Z n < inject_Z d)%Q) by (rewrite <- Zlt_Qlt; lia).
  split.
  - apply Qlt_shift_div_l; [exact Hd'|lra].
  - apply Qlt_shift_div_r; [exact Hd'|lra].
Qed.

Lemma ratio_neg n d : ratio (- n) (- d) == ratio n d.
Proof.
  unfold ratio. rewrite !inject_Z_opp.
  destruct (Z.eq_dec d 0) as [->|Hd].
  - unfold Qdiv, Qinv. simpl. ring.
  - field. intro H. apply Hd. apply (inject_Z_injective d 0). exact H.
Qed.

Lemma tent_scalar_unit t v : (0 <= tent_scalar t v <= 1)%Q.
Proof.
  unfold tent_scalar.
  destruct (tent_valid t) eqn:Hv; cbn [negb]; [|lra].
  destruct (Z.eqb_spec v (tpeak t)) as [|Hv']; [lra|].
  destruct ((tmin t =? 0) && (tpeak t =? 0) && (tmax t =? 0)); [lra|].
  destruct ((v <=? tmin t) || (tmax t <=? v)) eqn:Hout; [lra|].
  apply tent_valid_iff in Hv. destruct Hv as [[H1 H2] H3].
  destruct (Z.ltb_spec v (tpeak t)) as [Hlt|Hge].
  - apply orb_false_iff in Hout as [Ha Hb]. apply Z.leb_gt in Ha, Hb.
    destruct (ratio_unit (v - tmin t) (tpeak t - tmin t)) as [A B]; [lia|lra].
  - assert (E : ratio (v - tmax t) (tpeak t - tmax t) == ratio (tmax t - v) (tmax t - tpeak t)).
    { rewrite <- ratio_neg. unfold ratio. f_equiv; f_equiv; ring. }
    apply orb_false_iff in Hout as [Ha Hb]. apply Z.leb_gt in Ha, Hb.
    destruct (ratio_unit (tmax t - v) (tmax t - tpeak t)) as [A B]; [lia|]. rewrite E. lra.
Qed.

(* ---- products ------------------------------------------------------------ *)
Lemma scalar_tents_unit ts : forall l, (0 <= scalar_tents ts l <= 1)%Q.
Proof.
  induction ts as [|t ts IH]; intros [|v l]; cbn [scalar_tents]; try lra.
  pose proof (tent_scalar_unit t v) as [A B]. pose proof (IH l) as [C D]. split.
  - apply Qmult_le_0_compat; assumption.
  - setoid_replace 1%Q with (1 * 1)%Q by ring.
    apply Qle_trans with (1 * scalar_tents ts l)%Q.
    + apply Qmult_le_compat_r; assumption.
    + apply Qmult_le_l; lra.
Qed.

(* some axis kills the location *)
Inductive dead : list tent -> loc -> Prop :=
| dead_here t ts v l : kills t v -> dead (t :: ts) (v :: l)
| dead_later t ts v l : dead ts l -> dead (t :: ts) (v :: l).

Lemma dead_scalar ts l : dead ts l -> scalar_tents ts l == 0%Q.
Proof.
  induction 1 as [t ts v l Hk|t ts v l _ IH]; cbn [scalar_tents].
  - rewrite (kills_scalar _ _ Hk). ring.
  - rewrite IH. ring.
Qed.

Lemma own_scalar_tents ts : scalar_tents ts (map tpeak ts) == 1%Q.
Proof.
  induction ts as [|t ts IH]; cbn [scalar_tents map]; [reflexivity|].
  rewrite own_scalar, IH. ring.
Qed.
