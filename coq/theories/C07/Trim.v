(* C07 — the inner loop of master_influence: one trim step. *)
From Coq Require Import List ZArith QArith Qabs Bool Lia Lqa.
From Coq Require Import ZifyBool.
From FV.C07 Require Import Model Tents.
Import ListNotations.
Open Scope Z_scope.

(* ---- the single pass ------------------------------------------------------ *)
Definition flag_ok (x : axis_in) (fl : bool) : Prop := fl = true -> cand x = true.

Definition pass_inv (xs : list axis_in) (st : Q * list bool) : Prop :=
  let '(b, f) := st in
  Forall2 flag_ok xs f
  /\ (-1 <= b)%Q
  /\ ((-1 < b)%Q -> In true f)
  /\ (forall x, In x xs -> cand x = true -> (cut_ratio x <= b)%Q).

Lemma Forall2_snoc {A B} (R : A -> B -> Prop) l1 l2 a b :
  Forall2 R l1 l2 -> R a b -> Forall2 R (l1 ++ [a]) (l2 ++ [b]).
Proof. intros H1 H2. apply Forall2_app; [exact H1|constructor; [exact H2|constructor]]. Qed.

Lemma Forall2_flag_clear xs f :
  Forall2 flag_ok xs f -> Forall2 flag_ok xs (map (fun _ => false) f).
Proof.
  induction 1 as [|x fl xs f _ _ IH]; cbn [map]; constructor; [|exact IH].
  intro H. discriminate H.
Qed.

Lemma pass_step_inv xs st x : pass_inv xs st -> pass_inv (xs ++ [x]) (pass_step st x).
Proof.
  destruct st as [b f]. intros (HF & Hb & Ht & Hmax). unfold pass_step.
  destruct (cand x) eqn:Hc.
  - destruct (Qcompare_spec (cut_ratio x) b) as [E|L|G].
    + (* equal: added *)
      split; [apply Forall2_snoc; [exact HF|intros _; exact Hc]|].
      split; [exact Hb|]. split; [intros _; apply in_or_app; right; left; reflexivity|].
      intros y Hy Hcy. apply in_app_or in Hy as [Hy|[<-|[]]]; [apply Hmax; assumption|lra].
    + (* smaller *)
      split; [apply Forall2_snoc; [exact HF|intro H; discriminate H]|].
      split; [exact Hb|]. split; [intro H; apply in_or_app; left; apply Ht; exact H|].
      intros y Hy Hcy. apply in_app_or in Hy as [Hy|[<-|[]]]; [apply Hmax; assumption|lra].
    + (* new best: clear *)
      split; [apply Forall2_snoc; [apply Forall2_flag_clear; exact HF|intros _; exact Hc]|].
      split; [lra|]. split; [intros _; apply in_or_app; right; left; reflexivity|].
      intros y Hy Hcy. apply in_app_or in Hy as [Hy|[<-|[]]]; [|lra].
      specialize (Hmax y Hy Hcy). lra.
  - split; [apply Forall2_snoc; [exact HF|intro H; discriminate H]|].
    split; [exact Hb|]. split; [intro H; apply in_or_app; left; apply Ht; exact H|].
    intros y Hy Hcy. apply in_app_or in Hy as [Hy|[<-|[]]]; [apply Hmax; assumption|congruence].
Qed.

Lemma fold_pass_inv ys : forall xs st, pass_inv xs st -> pass_inv (xs ++ ys) (fold_left pass_step ys st).
Proof.
  induction ys as [|y ys IH]; intros xs st H; cbn [fold_left].
  - rewrite app_nil_r. exact H.
  - replace (xs ++ y :: ys) with ((xs ++ [y]) ++ ys) by (rewrite <- app_assoc; reflexivity).
    apply IH. apply pass_step_inv. exact H.
Qed.

Lemma one_pass_inv xs : pass_inv xs (one_pass xs).
Proof.
  unfold one_pass. change xs with ([] ++ xs) at 1. apply fold_pass_inv.
  cbn. split; [constructor|]. split; [lra|]. split; [intro H; lra|]. intros x [].
Qed.

Lemma one_pass_flags xs :
  Forall2 flag_ok xs (snd (one_pass xs))
  /\ ((exists x, In x xs /\ cand x = true /\ (-1 < cut_ratio x)%Q) -> In true (snd (one_pass xs))).
Proof.
  pose proof (one_pass_inv xs) as H. destruct (one_pass xs) as [b f]. cbn [snd].
  destruct H as (HF & Hb & Ht & Hmax). split; [exact HF|].
  intros (x & Hx & Hc & Hr). apply Ht. specialize (Hmax x Hx Hc). lra.
Qed.

(* ---- per-axis facts --------------------------------------------------------- *)
(* what holds of every axis when trim reaches the cut: the tent is valid, the
   previous peak overlaps it, and an active axis has a non-zero peak *)
Definition good (x : axis_in) : Prop :=
  let '(t, pp, act) := x in
  valid t /\ overlap1 (t, pp) = true /\ (act = true -> tpeak t <> 0).

Lemma good_cand_ratio x : good x -> cand x = true -> (-1 < cut_ratio x)%Q.
Proof.
  destruct x as [[t pp] act]. intros ([[H1 H2] H3] & Ho & Ha) Hc.
  unfold cand in Hc. unfold overlap1 in Ho. unfold cut_ratio.
  assert (Hne : pp <> tpeak t) by lia.
  assert (Hin : tmin t < pp < tmax t) by lia.
  destruct (Z.ltb_spec pp (tpeak t)) as [Hlt|Hge].
  - assert (E : ratio (pp - tpeak t) (tmin t - tpeak t) == ratio (tpeak t - pp) (tpeak t - tmin t)).
    { rewrite <- ratio_neg. unfold ratio. f_equiv; f_equiv; ring. }
    destruct (ratio_unit (tpeak t - pp) (tpeak t - tmin t)) as [A B]; [lia|]. rewrite E. lra.
  - destruct (ratio_unit (pp - tpeak t) (tmax t - tpeak t)) as [A B]; [lia|lra].
Qed.

(* the cut keeps the peak, shrinks the tent, keeps it valid *)
Lemma good_cut x fl : good x -> flag_ok x fl ->
  let t := fst (fst x) in let t' := apply_cut x fl in
  tpeak t' = tpeak t /\ tmin t <= tmin t' /\ tmax t' <= tmax t /\ valid t'
  /\ apply_active x fl = snd x.
Proof.
  destruct x as [[t pp] act]. intros ([[H1 H2] H3] & Ho & Ha) Hf. cbn [fst snd].
  unfold apply_cut, apply_active. destruct fl; cbn [fst snd].
  - specialize (Hf eq_refl). unfold cand in Hf. unfold overlap1 in Ho.
    assert (Hact : act = true) by lia. subst act.
    assert (Hne : pp <> tpeak t) by lia.
    assert (Hin : tmin t < pp < tmax t) by lia.
    unfold cut_tent. destruct (Z.ltb_spec pp (tpeak t)) as [Hlt|Hge]; cbn [tpeak tmin tmax].
    + split; [reflexivity|]. split; [lia|]. split; [lia|]. split; [|reflexivity].
      unfold valid. cbn [tpeak tmin tmax]. lia.
    + split; [reflexivity|]. split; [lia|]. split; [lia|]. split; [|reflexivity].
      unfold valid. cbn [tpeak tmin tmax]. lia.
  - split; [reflexivity|]. split; [lia|]. split; [lia|]. split; [|reflexivity].
    split; [split; assumption|assumption].
Qed.

(* a flagged axis kills the previous peak *)
Lemma good_cut_kills x : good x -> cand x = true -> kills (cut_tent x) (snd (fst x)).
Proof.
  destruct x as [[t pp] act]. intros ([[H1 H2] H3] & Ho & Ha) Hc. cbn [fst snd].
  unfold cand in Hc. unfold overlap1 in Ho.
  assert (Hact : act = true) by lia. specialize (Ha Hact).
  assert (Hne : pp <> tpeak t) by lia.
  assert (Hin : tmin t < pp < tmax t) by lia.
  unfold cut_tent, kills, valid. destruct (Z.ltb_spec pp (tpeak t)); cbn [tpeak tmin tmax]; lia.
Qed.

Definition pp_of (x : axis_in) : Z := snd (fst x).

Lemma cut_dead xs : forall f,
  Forall good xs -> Forall2 flag_ok xs f -> In true f ->
  dead (map2 apply_cut xs f) (map pp_of xs).
Proof.
  induction xs as [|x xs IH]; intros f Hg HF Hin; inversion HF as [|? fl ? f' Hfl HF']; subst.
  - destruct Hin.
  - inversion Hg as [|? ? Hgx Hgxs]; subst. cbn [map2 map].
    destruct Hin as [->|Hin].
    + apply dead_here. unfold apply_cut. apply good_cut_kills; [exact Hgx|exact (Hfl eq_refl)].
    + apply dead_later. apply IH; assumption.
Qed.

(* a location already killed stays killed through a cut *)
Lemma kills_shrink t t' v :
  kills t v -> tpeak t' = tpeak t -> tmin t <= tmin t' -> tmax t' <= tmax t -> valid t' -> kills t' v.
Proof.
  unfold kills. intros (_ & A & B & C) Hp Hmn Hmx Hv.
  split; [exact Hv|]. rewrite Hp. split; [exact A|]. split; [exact B|]. lia.
Qed.

Lemma cut_preserves_dead xs : forall f l,
  Forall good xs -> Forall2 flag_ok xs f ->
  dead (map (fun x => fst (fst x)) xs) l -> dead (map2 apply_cut xs f) l.
Proof.
  induction xs as [|x xs IH]; intros f l Hg HF Hd; inversion HF as [|? fl ? f' Hfl HF']; subst;
    cbn [map] in Hd; inversion Hd as [t ts v l' Hk|t ts v l' Hd']; subst;
    inversion Hg as [|? ? Hgx Hgxs]; subst; cbn [map2].
  - apply dead_here. destruct (good_cut x fl Hgx Hfl) as (A & B & C & D & _).
    eapply kills_shrink; eassumption.
  - apply dead_later. apply IH; assumption.
Qed.

(* ---- regions --------------------------------------------------------------- *)
(* r is a well-formed region for the location l *)
Definition wf_region (l : loc) (r : region) : Prop :=
  Forall2 (fun v t => tpeak t = v /\ valid t) l (tents r) /\ active r = map nz l.

Lemma wf_peaks l r : wf_region l r -> map tpeak (tents r) = l.
Proof.
  intros [H _]. induction H as [|v t l ts [Hp _] _ IH]; cbn [map]; [reflexivity|].
  rewrite Hp, IH. reflexivity.
Qed.

Lemma wf_length l r : wf_region l r -> length (tents r) = length l.
Proof. intros [H _]. induction H; cbn [length]; [reflexivity|rewrite IHForall2; reflexivity]. Qed.

Lemma bools_eqb_eq a : forall b, bools_eqb a b = true <-> a = b.
Proof.
  induction a as [|x a IH]; intros [|y b]; cbn [bools_eqb]; split; intro H;
    try reflexivity; try discriminate.
  - apply andb_true_iff in H as [H1 H2]. apply eqb_prop in H1. apply IH in H2. congruence.
  - inversion H; subst. apply andb_true_iff. split; [apply eqb_reflx|apply IH; reflexivity].
Qed.

(* the per-axis inputs of the cut, built from a region and the previous peaks *)
Definition axis_inputs (r : region) (pps : list Z) : list axis_in :=
  combine (combine (tents r) pps) (active r).

Lemma axis_inputs_good l r pps :
  wf_region l r -> length pps = length l ->
  forallb overlap1 (combine (tents r) pps) = true ->
  Forall good (axis_inputs r pps)
  /\ map (fun x => fst (fst x)) (axis_inputs r pps) = tents r
  /\ map pp_of (axis_inputs r pps) = pps
  /\ map snd (axis_inputs r pps) = active r.
Proof.
  intros [HF Ha] Hlen Hov. unfold axis_inputs. rewrite Ha. clear Ha.
  revert pps Hlen Hov. induction HF as [|v t l ts [Hp Hv] _ IH]; intros [|pp pps] Hlen Hov;
    cbn [length] in Hlen; try discriminate; cbn [combine map].
  - repeat split; constructor.
  - cbn [combine forallb] in Hov. apply andb_true_iff in Hov as [Ho Hov].
    destruct (IH pps) as (A & B & C & D); [lia|exact Hov|].
    repeat split.
    + constructor; [|exact A]. split; [exact Hv|]. split; [exact Ho|].
      unfold nz. intro Hn. rewrite Hp. lia.
    + cbn [fst]. rewrite B. reflexivity.
    + unfold pp_of at 1. cbn [fst snd]. rewrite C. reflexivity.
    + cbn [snd]. rewrite D. reflexivity.
Qed.

Lemma map2_cut_wf xs : forall f l,
  Forall good xs -> Forall2 flag_ok xs f ->
  Forall2 (fun v t => tpeak t = v /\ valid t) l (map (fun x => fst (fst x)) xs) ->
  Forall2 (fun v t => tpeak t = v /\ valid t) l (map2 apply_cut xs f)
  /\ map2 apply_active xs f = map snd xs.
Proof.
  induction xs as [|x xs IH]; intros f l Hg HF Hw; inversion HF as [|? fl ? f' Hfl HF']; subst;
    cbn [map] in Hw; inversion Hw as [|v t l' ts [Hp Hv] Hw']; subst; cbn [map2 map].
  - split; [constructor|reflexivity].
  - inversion Hg as [|? ? Hgx Hgxs]; subst.
    destruct (good_cut x fl Hgx Hfl) as (A & B & C & D & E).
    destruct (IH f' l' Hgxs HF' Hw') as [F G]. split.
    + constructor; [|exact F]. split; [rewrite A; reflexivity|exact D].
    + rewrite E, G. reflexivity.
Qed.

(* trim keeps a region well formed for its own location *)
Lemma trim_wf l lp r prev :
  wf_region l r -> wf_region lp prev -> length lp = length l -> wf_region l (trim r prev).
Proof.
  intros Hr Hp Hlen. unfold trim.
  destruct (negb (bools_eqb (active r) (active prev))); [exact Hr|].
  rewrite (wf_peaks _ _ Hp).
  destruct (forallb overlap1 (combine (tents r) lp)) eqn:Hov; cbn [negb]; [|exact Hr].
  destruct (axis_inputs_good l r lp Hr Hlen Hov) as (Hg & Ht & Hpp & Ha).
  fold (axis_inputs r lp).
  destruct (one_pass_flags (axis_inputs r lp)) as [HF _].
  destruct Hr as [Hw Hact].
  destruct (map2_cut_wf (axis_inputs r lp) (snd (one_pass (axis_inputs r lp))) l Hg HF) as [A B].
  { rewrite Ht. exact Hw. }
  split; cbn [tents active]; [exact A|]. rewrite B, Ha. exact Hact.
Qed.

(* trim never revives a location that was already killed *)
Lemma trim_preserves_dead l lp r prev x :
  wf_region l r -> wf_region lp prev -> length lp = length l ->
  dead (tents r) x -> dead (tents (trim r prev)) x.
Proof.
  intros Hr Hp Hlen Hd. unfold trim.
  destruct (negb (bools_eqb (active r) (active prev))); [exact Hd|].
  rewrite (wf_peaks _ _ Hp).
  destruct (forallb overlap1 (combine (tents r) lp)) eqn:Hov; cbn [negb]; [|exact Hd].
  destruct (axis_inputs_good l r lp Hr Hlen Hov) as (Hg & Ht & Hpp & Ha).
  fold (axis_inputs r lp). cbn [tents].
  destruct (one_pass_flags (axis_inputs r lp)) as [HF _].
  apply cut_preserves_dead; [exact Hg|exact HF|]. rewrite Ht. exact Hd.
Qed.

(* no overlap on some axis: the previous peak is already killed there *)
Lemma no_overlap_dead ts : forall l lp,
  Forall2 (fun v t => tpeak t = v /\ valid t) l ts ->
  length lp = length l ->
  map nz lp = map nz l ->
  forallb overlap1 (combine ts lp) = false ->
  dead ts lp.
Proof.
  induction ts as [|t ts IH]; intros l lp Hw Hlen Hnz Hov; inversion Hw as [|v ? l' ? [Hp Hv] Hw']; subst.
  - destruct lp; cbn in Hov; discriminate.
  - destruct lp as [|pp lp]; [discriminate|]. cbn [combine forallb] in Hov.
    cbn [map] in Hnz. injection Hnz as Hnz1 Hnz2. cbn [length] in Hlen.
    destruct (overlap1 (t, pp)) eqn:Ho.
    + apply dead_later. eapply IH; [exact Hw'|lia|exact Hnz2|exact Hov].
    + apply dead_here. unfold overlap1 in Ho. unfold nz in Hnz1. destruct Hv as [[H1 H2] H3].
      unfold kills, valid. lia.
Qed.

(* same non-zero axes, different location: after the trim the previous
   location is killed *)
Lemma trim_kills l lp r prev :
  wf_region l r -> wf_region lp prev -> length lp = length l ->
  map nz lp = map nz l -> lp <> l ->
  dead (tents (trim r prev)) lp.
Proof.
  intros Hr Hp Hlen Hnz Hne. unfold trim.
  assert (Hact : bools_eqb (active r) (active prev) = true).
  { apply bools_eqb_eq. destruct Hr as [_ ->]. destruct Hp as [_ ->]. symmetry. exact Hnz. }
  rewrite Hact. cbn [negb]. rewrite (wf_peaks _ _ Hp).
  destruct (forallb overlap1 (combine (tents r) lp)) eqn:Hov; cbn [negb].
  - destruct (axis_inputs_good l r lp Hr Hlen Hov) as (Hg & Ht & Hpp & Ha).
    fold (axis_inputs r lp). cbn [tents].
    destruct (one_pass_flags (axis_inputs r lp)) as [HF Hex].
    assert (Hgoal : In true (snd (one_pass (axis_inputs r lp))) ->
                    dead (map2 apply_cut (axis_inputs r lp) (snd (one_pass (axis_inputs r lp)))) lp).
    { intro Hin. pose proof (cut_dead _ _ Hg HF Hin) as Hd. rewrite Hpp in Hd. exact Hd. }
    apply Hgoal. apply Hex.
    (* a differing axis is a candidate *)
    clear HF Hex Hov Hgoal.
    assert (Hxs : exists x, In x (axis_inputs r lp) /\ cand x = true).
    { destruct Hr as [Hw Hactr]. unfold axis_inputs in *. rewrite Hactr in *.
      clear Hg Ht Hpp Ha Hactr Hact Hp.
      revert lp Hlen Hnz Hne. induction Hw as [|v t l ts [Hpk Hv] _ IH]; intros [|pp lp] Hlen Hnz Hne;
        cbn [length] in Hlen; try discriminate.
      - contradiction Hne; reflexivity.
      - cbn [map] in Hnz. injection Hnz as Hnz1 Hnz2. cbn [combine map].
        destruct (Z.eq_dec pp v) as [->|Hd].
        + destruct (IH lp) as (x & Hx & Hc); [lia|exact Hnz2|congruence|].
          exists x. split; [right; exact Hx|exact Hc].
        + exists (t, pp, nz v). split; [left; reflexivity|].
          unfold cand, nz in *. rewrite Hpk. lia. }
    destruct Hxs as (x & Hx & Hc). exists x. split; [exact Hx|]. split; [exact Hc|].
    apply good_cand_ratio; [|exact Hc]. rewrite Forall_forall in Hg. apply Hg. exact Hx.
  - destruct Hr as [Hw _]. eapply no_overlap_dead; [exact Hw|exact Hlen|exact Hnz|exact Hov].
Qed.
