(* C07 — deltas and interpolation: the masters are reproduced. *)
From Coq Require Import List ZArith QArith Qabs Qround Bool Lia Lqa Sorting.Permutation Sorting.Sorted.
From FV.C07 Require Import Model Tents Trim Influence.
Import ListNotations.

Open Scope Q_scope.

(* ---- rounding --------------------------------------------------------------- *)
Lemma round_ties_even_bound q : Qabs (inject_Z (round_ties_even q) - q) <= 1#2.
Proof.
  unfold round_ties_even.
  pose proof (Qfloor_le q) as Hlo. pose proof (Qlt_floor q) as Hhi.
  rewrite inject_Z_plus in Hhi. change (inject_Z 1) with 1 in Hhi.
  set (f := Qfloor q) in *.
  destruct (Qcompare_spec (q - inject_Z f) (1#2)) as [E|L|G].
  - destruct (Z.even f); [|rewrite inject_Z_plus; change (inject_Z 1) with 1]; apply Qabs_case; intros; lra.
  - apply Qabs_case; intros; lra.
  - rewrite inject_Z_plus; change (inject_Z 1) with 1. apply Qabs_case; intros; lra.
Qed.

Lemma round_ties_even_int z : round_ties_even (inject_Z z) = z.
Proof.
  unfold round_ties_even. rewrite Qfloor_Z.
  destruct (Qcompare_spec (inject_Z z - inject_Z z) (1#2)) as [E|L|G]; [exfalso; lra|reflexivity|exfalso; lra].
Qed.

Lemma round_ties_even_comp a b : a == b -> round_ties_even a = round_ties_even b.
Proof.
  intro E. unfold round_ties_even. rewrite (Qfloor_comp _ _ E).
  assert (E2 : a - inject_Z (Qfloor b) == b - inject_Z (Qfloor b)) by (rewrite E; reflexivity).
  rewrite (Qcompare_comp _ _ E2 (1#2) (1#2) (Qeq_refl _)). reflexivity.
Qed.

(* how close the stored deltas bring us to the master value *)
Definition close (rounding : bool) (a x : Q) : Prop :=
  if rounding then Qabs (a - x) <= 1#2 else a == x.

(* ---- sums --------------------------------------------------------------------- *)
Definition dl (res : list (nat * Q)) (j : nat) : Q :=
  match lookup_delta res j with Some d => d | None => 0 end.

Fixpoint sumw (w : list (nat * Q)) (res : list (nat * Q)) : Q :=
  match w with [] => 0 | (j, s) :: t => dl res j * s + sumw t res end.

Lemma subtract_sumw w res : forall acc, subtract_influences acc w res == acc - sumw w res.
Proof.
  induction w as [|[j s] w IH]; intro acc; cbn [subtract_influences sumw]; [ring|].
  unfold dl. destruct (lookup_delta res j) as [d|]; rewrite IH; ring.
Qed.

Fixpoint sumall (o : nat) (infl : list region) (l : loc) (res : list (nat * Q)) : Q :=
  match infl with [] => 0 | r :: t => dl res o * scalar_at r l + sumall (S o) t l res end.

Lemma sumw_weights infl : forall o l res, sumw (weights_at o infl l) res == sumall o infl l res.
Proof.
  induction infl as [|r infl IH]; intros o l res; cbn [weights_at sumall]; [reflexivity|].
  unfold q_nonzero. destruct (Qeq_bool (scalar_at r l) 0) eqn:E; cbn [negb].
  - apply Qeq_bool_iff in E. rewrite IH, E. ring.
  - cbn [sumw]. rewrite IH. reflexivity.
Qed.

Lemma dl_cons_ne k d res j : k <> j -> dl ((k, d) :: res) j = dl res j.
Proof. intro H. unfold dl. cbn [lookup_delta]. destruct (Nat.eqb_spec k j); [contradiction|reflexivity]. Qed.

Lemma dl_cons_eq k d res : dl ((k, d) :: res) k = d.
Proof. unfold dl. cbn [lookup_delta]. rewrite Nat.eqb_refl. reflexivity. Qed.

Lemma dl_notin res k : ~ In k (map fst res) -> dl res k = 0.
Proof.
  unfold dl. induction res as [|[j d] res IH]; cbn [lookup_delta map fst In]; intro H; [reflexivity|].
  destruct (Nat.eqb_spec j k); [exfalso; apply H; left; assumption|]. apply IH. tauto.
Qed.

Lemma sumall_skip infl : forall o l k d res, (k < o)%nat ->
  sumall o infl l ((k, d) :: res) == sumall o infl l res.
Proof.
  induction infl as [|r infl IH]; intros o l k d res Hk; cbn [sumall]; [reflexivity|].
  rewrite dl_cons_ne by lia. rewrite IH by lia. reflexivity.
Qed.

Lemma sumall_cons infl : forall o l k d res r,
  ~ In k (map fst res) -> (o <= k)%nat -> nth_error infl (k - o) = Some r ->
  sumall o infl l ((k, d) :: res) == scalar_at r l * d + sumall o infl l res.
Proof.
  induction infl as [|r0 infl IH]; intros o l k d res r Hn Hk Hnth; [destruct (k - o)%nat; discriminate|].
  cbn [sumall]. destruct (Nat.eq_dec k o) as [->|Hne].
  - rewrite Nat.sub_diag in Hnth. cbn in Hnth. injection Hnth as ->.
    rewrite dl_cons_eq, (dl_notin res o Hn), sumall_skip by lia. ring.
  - rewrite dl_cons_ne by exact Hne.
    replace (k - o)%nat with (S (k - S o)) in Hnth by lia. cbn [nth_error] in Hnth.
    rewrite (IH (S o) l k d res r Hn) by (try lia; exact Hnth). ring.
Qed.

Lemma nth_error_firstn_lt {A} (l : list A) : forall i k, (k < i)%nat -> nth_error (firstn i l) k = nth_error l k.
Proof.
  induction l as [|x l IH]; intros [|i] [|k] H; cbn; try reflexivity; try lia. apply IH. lia.
Qed.

Lemma sumall_nil infl : forall o l, sumall o infl l [] == 0.
Proof. induction infl as [|r infl IH]; intros o l; cbn [sumall]; [reflexivity|]. rewrite IH. unfold dl. cbn. ring. Qed.

(* the sum over the weight list is the interpolated value of the deltas so far *)
Lemma sumall_interpolate infl i l res :
  NoDup (map fst res) -> Forall (fun p => (fst p < i)%nat) res -> (i <= length infl)%nat ->
  sumall 0 (firstn i infl) l res == interpolate infl res l.
Proof.
  intros Hnd Hlt Hi. induction res as [|[k d] res IH]; cbn [interpolate]; [apply sumall_nil|].
  cbn [map fst] in Hnd. inversion Hnd as [|? ? Hnk Hnd']; subst.
  inversion Hlt as [|? ? Hk Hlt']; subst. cbn [fst] in Hk.
  assert (Hex : exists r, nth_error infl k = Some r).
  { destruct (nth_error infl k) eqn:E; [eexists; reflexivity|]. apply nth_error_None in E. lia. }
  destruct Hex as [r Hr]. rewrite Hr.
  rewrite (sumall_cons _ 0 l k d res r Hnk); [|lia|rewrite Nat.sub_0_r, nth_error_firstn_lt by exact Hk; exact Hr].
  rewrite IH by assumption. reflexivity.
Qed.

Lemma interpolate_app infl res1 res2 l :
  interpolate infl (res1 ++ res2) l == interpolate infl res1 l + interpolate infl res2 l.
Proof.
  induction res1 as [|[k d] res1 IH]; cbn [app interpolate]; [ring|]. rewrite IH. ring.
Qed.

Lemma NoDup_app_snoc {A} (l : list A) x : NoDup l -> ~ In x l -> NoDup (l ++ [x]).
Proof.
  induction l as [|y l IH]; cbn [app]; intros Hnd Hx; [constructor; [intros []|constructor]|].
  inversion Hnd as [|? ? Hy Hnd']; subst. constructor.
  - intro H. apply in_app_or in H as [H|[H|[]]]; [contradiction|]. subst. apply Hx. left. reflexivity.
  - apply IH; [exact Hnd'|]. intro H. apply Hx. right. exact H.
Qed.

Lemma Forall2_len {A B} (R : A -> B -> Prop) l1 l2 : Forall2 R l1 l2 -> length l2 = length l1.
Proof. induction 1 as [|? ? ? ? _ _ IH]; cbn [length]; [reflexivity|rewrite IH; reflexivity]. Qed.

Lemma own_scalar_gen locs infl : Forall2 wf_region locs infl ->
  forall i l r, nth_error locs i = Some l -> nth_error infl i = Some r -> scalar_at r l == 1.
Proof.
  induction 1 as [|l0 r0 locs' infl' H0 _ IH]; intros [|i] l r Hl Hr; cbn in Hl, Hr; try discriminate.
  - injection Hl as <-. injection Hr as <-. unfold scalar_at.
    rewrite <- (wf_peaks _ _ H0). apply own_scalar_tents.
  - eapply IH; eassumption.
Qed.

(* ---- the main induction ----------------------------------------------------------- *)
Section Reproduce.
  Variable locs : list loc.
  Variable infl : list region.
  Hypothesis Hwf : Forall2 wf_region locs infl.
  Hypothesis Hdead : later_dead locs infl.
  Variable rounding : bool.

  Lemma infl_length : length infl = length locs.
  Proof. exact (Forall2_len _ _ _ Hwf). Qed.

  Lemma own_scalar_at i l r : nth_error locs i = Some l -> nth_error infl i = Some r -> scalar_at r l == 1.
  Proof. apply own_scalar_gen. exact Hwf. Qed.

  Lemma later_scalar_at i j l r : (i < j)%nat -> nth_error locs i = Some l -> nth_error infl j = Some r ->
    scalar_at r l == 0.
  Proof. intros Hij Hl Hr. apply dead_scalar. eapply Hdead; eassumption. Qed.

  (* invariant after the first (length pre) locations have been processed *)
  (* the interpolated value a at the k-th location whose master value is x: what
     the earlier deltas give there (s) plus the (rounded) remainder; s is 0 at the
     first location *)
  Definition hits (k : nat) (a x : Q) : Prop :=
    exists s, a == s + apply_rounding rounding (x - s) /\ (k = 0%nat -> s == 0).

  Definition inv (pre : list loc) (vpre : list (option Q)) (res : list (nat * Q)) : Prop :=
    Forall (fun p => (fst p < length pre)%nat) res
    /\ NoDup (map fst res)
    /\ (forall k lk x, nth_error pre k = Some lk -> nth_error vpre k = Some (Some x) ->
                       hits k (interpolate infl res lk) x).

  Lemma close_add k a x e : e == 0 -> hits k a x -> hits k (a + e) x.
  Proof. intros He (s & H & H0). exists s. split; [rewrite H, He; ring|exact H0]. Qed.

  Lemma close_eq k a b x : a == b -> hits k a x -> hits k b x.
  Proof. intros E (s & H & H0). exists s. split; [rewrite <- E; exact H|exact H0]. Qed.

  Lemma deltas_from_inv sl : forall pre vpre vsl res,
    locs = pre ++ sl -> length vpre = length pre -> length vsl = length sl ->
    inv pre vpre res ->
    inv locs (vpre ++ vsl)
        (deltas_from rounding (length pre) (delta_weights_from (length pre) infl sl) vsl res).
  Proof.
    induction sl as [|l sl IH]; intros pre vpre vsl res Hl Hvp Hvs Hinv.
    - destruct vsl; [|discriminate]. rewrite app_nil_r in *. subst pre. cbn. exact Hinv.
    - destruct vsl as [|v vsl]; [discriminate|]. cbn [delta_weights_from deltas_from].
      cbn [length] in Hvs.
      assert (Hi : nth_error locs (length pre) = Some l).
      { rewrite Hl, nth_error_app2 by lia. rewrite Nat.sub_diag. reflexivity. }
      assert (Hlen : (length pre < length infl)%nat).
      { rewrite infl_length, Hl, app_length. cbn [length]. lia. }
      destruct (nth_error infl (length pre)) as [ri|] eqn:Hri; [|apply nth_error_None in Hri; lia].
      replace (S (length pre)) with (length (pre ++ [l])) by (rewrite app_length; cbn [length]; lia).
      replace (vpre ++ v :: vsl) with ((vpre ++ [v]) ++ vsl) by (rewrite <- app_assoc; reflexivity).
      destruct Hinv as (Hlt & Hnd & Hrep).
      destruct v as [x|].
      + (* a value at this location: one more delta *)
        set (d := apply_rounding rounding
                    (subtract_influences x (weights_at 0 (firstn (length pre) infl) l) res)).
        apply IH.
        * rewrite <- app_assoc. exact Hl.
        * rewrite !app_length. cbn [length]. lia.
        * lia.
        * split; [|split].
          -- apply Forall_app. split.
             ++ eapply Forall_impl; [|exact Hlt]. intros p Hp. cbn beta in Hp |- *. rewrite app_length. cbn [length]. lia.
             ++ constructor; [|constructor]. cbn [fst]. rewrite app_length. cbn [length]. lia.
          -- rewrite map_app. cbn [map fst]. apply NoDup_app_snoc; [exact Hnd|].
             intro Hin. apply in_map_iff in Hin as (p & Hp1 & Hp2).
             rewrite Forall_forall in Hlt. specialize (Hlt p Hp2). lia.
          -- intros k lk y Hk Hy.
             apply close_eq with (a := interpolate infl res lk + (scalar_at ri lk * d + 0)).
             { rewrite interpolate_app. cbn [interpolate]. rewrite Hri. reflexivity. }
             destruct (Nat.lt_ge_cases k (length pre)) as [Hkl|Hkl].
             ++ (* an earlier location: the new delta does not reach it *)
                rewrite nth_error_app1 in Hk by exact Hkl.
                rewrite nth_error_app1 in Hy by lia.
                apply close_add; [|eapply Hrep; eassumption].
                assert (Hk' : nth_error locs k = Some lk) by (rewrite Hl, nth_error_app1 by exact Hkl; exact Hk).
                rewrite (later_scalar_at k (length pre) lk ri Hkl Hk' Hri). ring.
             ++ (* this location *)
                assert (k = length pre).
                { assert (Hb : (k < length (pre ++ [l]))%nat) by (apply nth_error_Some; congruence).
                  rewrite app_length in Hb. cbn [length] in Hb. lia. }
                subst k. rewrite nth_error_app2 in Hk by lia. rewrite Nat.sub_diag in Hk. cbn in Hk.
                injection Hk as <-.
                rewrite nth_error_app2 in Hy by lia. rewrite Hvp, Nat.sub_diag in Hy. cbn in Hy.
                injection Hy as <-.
                apply close_eq with (a := interpolate infl res l + d).
                { rewrite (own_scalar_at (length pre) l ri Hi Hri). ring. }
                assert (Hsub : subtract_influences x (weights_at 0 (firstn (length pre) infl) l) res
                               == x - interpolate infl res l).
                { rewrite subtract_sumw, sumw_weights, sumall_interpolate; [reflexivity|exact Hnd|exact Hlt|lia]. }
                exists (interpolate infl res l). split.
                ** unfold d, apply_rounding. destruct rounding.
                   --- rewrite (round_ties_even_comp _ _ Hsub). reflexivity.
                   --- rewrite Hsub. reflexivity.
                ** intro Hz. destruct pre; [|discriminate]. destruct res as [|[k0 d0] res']; [reflexivity|].
                   inversion Hlt as [|? ? Hk0 _]; subst. cbn [fst length] in Hk0. lia.
      + (* no value here *)
        apply IH.
        * rewrite <- app_assoc. exact Hl.
        * rewrite !app_length. cbn [length]. lia.
        * lia.
        * split; [|split].
          -- eapply Forall_impl; [|exact Hlt]. intros p Hp. cbn beta in Hp |- *. rewrite app_length. cbn [length]. lia.
          -- exact Hnd.
          -- intros k lk y Hk Hy.
             destruct (Nat.lt_ge_cases k (length pre)) as [Hkl|Hkl].
             ++ rewrite nth_error_app1 in Hk by exact Hkl. rewrite nth_error_app1 in Hy by lia.
                eapply Hrep; eassumption.
             ++ assert (k = length pre).
                { assert (Hb : (k < length (pre ++ [l]))%nat) by (apply nth_error_Some; congruence).
                  rewrite app_length in Hb. cbn [length] in Hb. lia. }
                subst k. rewrite nth_error_app2 in Hy by lia. rewrite Hvp, Nat.sub_diag in Hy. cbn in Hy. discriminate.
  Qed.

  Theorem reproduce_hits vals : length vals = length locs ->
    forall k lk x, nth_error locs k = Some lk -> nth_error vals k = Some (Some x) ->
      hits k (interpolate infl (deltas_from rounding 0 (delta_weights_from 0 infl locs) vals []) lk) x.
  Proof.
    intros Hv. pose proof (deltas_from_inv locs [] [] vals [] eq_refl eq_refl Hv) as H.
    destruct H as (_ & _ & H); [|exact H].
    split; [constructor|]. split; [constructor|]. intros k lk x Hk. destruct k; discriminate.
  Qed.

  Lemma hits_close k a x : hits k a x -> close rounding a x.
  Proof.
    intros (s & H & _). unfold close, apply_rounding in *. destruct rounding.
    - pose proof (round_ties_even_bound (x - s)) as Hb. rewrite H.
      setoid_replace (s + inject_Z (round_ties_even (x - s)) - x)
        with (inject_Z (round_ties_even (x - s)) - (x - s)) by ring. exact Hb.
    - rewrite H. ring.
  Qed.

  Theorem reproduce vals : length vals = length locs ->
    forall k lk x, nth_error locs k = Some lk -> nth_error vals k = Some (Some x) ->
      close rounding
        (interpolate infl (deltas_from rounding 0 (delta_weights_from 0 infl locs) vals []) lk) x.
  Proof. intros Hv k lk x Hk Hx. eapply hits_close. eapply reproduce_hits; eassumption. Qed.

  Theorem reproduce_first vals : length vals = length locs ->
    forall l0 x, nth_error locs 0 = Some l0 -> nth_error vals 0 = Some (Some x) ->
      interpolate infl (deltas_from rounding 0 (delta_weights_from 0 infl locs) vals []) l0
      == apply_rounding rounding x.
  Proof.
    intros Hv l0 x Hk Hx. destruct (reproduce_hits vals Hv 0 l0 x Hk Hx) as (s & H & H0).
    specialize (H0 eq_refl). rewrite H. unfold apply_rounding. destruct rounding.
    - assert (E : round_ties_even (x - s) = round_ties_even x).
      { apply round_ties_even_comp. rewrite H0. ring. }
      rewrite E, H0. ring.
    - rewrite H0. ring.
  Qed.
End Reproduce.
