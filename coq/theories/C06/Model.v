(* C06 — model of the glyph-set / glyph-order / cmap / post pipeline:
     ufo2fontir/src/source.rs   glyph_order (preliminary order of a UFO/designspace)
     glyphs-reader/src/font.rs  make_glyph_order (preliminary order of a .glyphs source)
     fontir/src/glyph.rs        GlyphOrderWork::exec (prune_missing_components,
                                flatten_all_non_export_components, removal of non-export
                                glyphs, resolve_inconsistencies / split_glyph /
                                name_for_derivative, apply_optional_transformations,
                                ensure_notdef_exists_and_is_gid_0)
     fontir/src/ir.rs           GlyphOrder (an IndexSet: insert / shift_remove / move_index)
     fontbe/src/cmap.rs         CmapWork::exec (+ write-fonts Cmap::from_mappings conflict rule)
     fontbe/src/post.rs         PostWork::exec (rename, strip, make unique)
   Executable definitions only; proofs are in Proofs.v.

   A glyph name is a Rust string = list of Unicode scalar values; Rust's `Ord` on
   strings (byte order of UTF-8) is code-point lexicographic order.  A glyph is
   abstracted to what decides set, order, cmap, names and component lists:
   name, export flag, code points, "has contours", component base names (of the
   default instance; the generators keep the component list equal in all masters,
   transforms are not modelled). *)
From Coq Require Import List NArith Bool Arith.
Import ListNotations.
Open Scope N_scope.

Definition name := list N.

Fixpoint name_eqb (a b : name) : bool :=
  match a, b with
  | [], [] => true
  | x :: a', y :: b' => (x =? y) && name_eqb a' b'
  | _, _ => false
  end.

(* Rust `str` ordering *)
Fixpoint name_leb (a b : name) : bool :=
  match a, b with
  | [], _ => true
  | _ :: _, [] => false
  | x :: a', y :: b' => if x <? y then true else if y <? x then false else name_leb a' b'
  end.

Definition mem (x : name) (l : list name) : bool := existsb (name_eqb x) l.

(* ---- IndexSet<GlyphName> (fontir::ir::GlyphOrder) --------------------------- *)
Definition iset_insert (l : list name) (x : name) : list name :=
  if mem x l then l else l ++ [x].
Definition iset_extend (l xs : list name) : list name := fold_left iset_insert xs l.
(* shift_remove *)
Definition iset_remove (x : name) (l : list name) : list name :=
  filter (fun y => negb (name_eqb x y)) l.

(* ---- sort() on names --------------------------------------------------------- *)
Fixpoint insert_sorted (x : name) (l : list name) : list name :=
  match l with
  | [] => [x]
  | y :: t => if name_leb x y then x :: l else y :: insert_sorted x t
  end.
Definition sort_names (l : list name) : list name := fold_right insert_sorted [] l.

(* ---- decimal printing: format!("{i}") ---------------------------------------- *)
Fixpoint uint_chars (u : Decimal.uint) : name :=
  match u with
  | Decimal.Nil => []
  | Decimal.D0 u => 0x30 :: uint_chars u
  | Decimal.D1 u => 0x31 :: uint_chars u
  | Decimal.D2 u => 0x32 :: uint_chars u
  | Decimal.D3 u => 0x33 :: uint_chars u
  | Decimal.D4 u => 0x34 :: uint_chars u
  | Decimal.D5 u => 0x35 :: uint_chars u
  | Decimal.D6 u => 0x36 :: uint_chars u
  | Decimal.D7 u => 0x37 :: uint_chars u
  | Decimal.D8 u => 0x38 :: uint_chars u
  | Decimal.D9 u => 0x39 :: uint_chars u
  end.
Definition dec (n : N) : name := uint_chars (N.to_uint n).
Definition DOT : N := 0x2E.
(* format!("{base}.{i}") *)
Definition suffixed (base : name) (i : N) : name := base ++ DOT :: dec i.

Definition NOTDEF : name := [0x2E; 0x6E; 0x6F; 0x74; 0x64; 0x65; 0x66].

(* first i >= start with base.i not in `used`; the Rust loops are unbounded, the
   model gives them |used|+1 steps (Proofs.first_free_spec: always enough). *)
Fixpoint first_free (fuel : nat) (used : list name) (base : name) (i : N) : N :=
  match fuel with
  | O => i
  | S f => if mem (suffixed base i) used then first_free f used base (N.succ i) else i
  end.

(* fontir/src/glyph.rs name_for_derivative *)
Definition name_for_derivative (base : name) (in_use : list name) : name :=
  suffixed base (first_free (S (length in_use)) in_use base 0).

(* ---- preliminary glyph order -------------------------------------------------- *)
(* ufo2fontir glyph_order: `names` is the HashSet of glyph names of the default
   master (duplicate free, arbitrary order), `declared` is public.glyphOrder. *)
Definition ufo_prelim (declared names : list name) : list name :=
  let placed := iset_extend [] (filter (fun n => mem n names) declared) in
  let pending := filter (fun n => negb (mem n placed)) names in
  iset_extend placed (sort_names pending).
(* (the `if glyph_order.is_empty()` tail of the Rust function can only run when
   `names` is empty, where it adds nothing) *)

(* glyphs-reader make_glyph_order followed by the IndexSet collect of
   glyphs2fontir: declared names that exist, first occurrence each, then the
   rest in file order. *)
Definition glyphs_prelim (declared file_names : list name) : list name :=
  let placed := iset_extend [] (filter (fun n => mem n file_names) declared) in
  iset_extend placed (filter (fun n => negb (mem n placed)) file_names).

(* ---- glyphs and the glyph context ---------------------------------------------- *)
Record glyph := mk_glyph {
  g_name : name;
  g_export : bool;       (* emit_to_binary *)
  g_cps : list N;        (* codepoints (a HashSet: duplicate free) *)
  g_contours : bool;     (* some contour present *)
  g_comps : list name    (* component bases, in order *)
}.

Definition ctx := list glyph.

Fixpoint lookup (c : ctx) (n : name) : option glyph :=
  match c with
  | [] => None
  | g :: t => if name_eqb (g_name g) n then Some g else lookup t n
  end.

(* context.glyphs.set *)
Fixpoint ctx_set (c : ctx) (g : glyph) : ctx :=
  match c with
  | [] => [g]
  | h :: t => if name_eqb (g_name h) (g_name g) then g :: t else h :: ctx_set t g
  end.

Definition with_comps (g : glyph) (contours : bool) (comps : list name) : glyph :=
  mk_glyph (g_name g) (g_export g) (g_cps g) contours comps.

Definition exists_in (c : ctx) (n : name) : bool :=
  match lookup c n with Some _ => true | None => false end.

(* emit_to_binary of a glyph that is known to exist (get_glyph would panic on a
   missing one; after prune every referenced glyph exists: Proofs.prune_closed) *)
Definition is_export (c : ctx) (n : name) : bool :=
  match lookup c n with Some g => g_export g | None => true end.

(* prune_missing_components *)
Definition prune (c : ctx) : ctx :=
  map (fun g => with_comps g (g_contours g) (filter (exists_in c) (g_comps g))) c.

(* ---- flatten_all_non_export_components ------------------------------------------- *)
Fixpoint max_opt (l : list (option nat)) : option nat :=
  match l with
  | [] => Some O
  | None :: _ => None
  | Some a :: t => match max_opt t with Some b => Some (Nat.max a b) | None => None end
  end.

(* component depth (fontdrasil::util::depth_sorted_composite_glyphs computes it by
   iterating to a fixed point; glyphs on or above a cycle get no depth and are
   dropped from the list: None here) *)
Fixpoint depth (fuel : nat) (c : ctx) (n : name) : option nat :=
  match fuel with
  | O => None
  | S f =>
      match lookup c n with
      | None => None
      | Some g =>
          match g_comps g with
          | [] => Some O
          | cs => option_map S (max_opt (map (depth f c) cs))
          end
      end
  end.

Definition opt_nat_eqb (a : option nat) (b : nat) : bool :=
  match a with Some x => Nat.eqb x b | None => false end.

(* sort of (depth, name) pairs = buckets by depth, names ascending inside *)
Definition depth_order (c : ctx) : list name :=
  let ns := sort_names (map g_name c) in
  let fuel := S (length c) in
  flat_map (fun d => filter (fun n => opt_nat_eqb (depth fuel c n) d) ns) (seq 0 fuel).

Definition has_nonexport_comp (c : ctx) (g : glyph) : bool :=
  existsb (fun b => negb (is_export c b)) (g_comps g).

(* flatten_non_export_components_for_glyph *)
Definition flatten_one (c : ctx) (g : glyph) : glyph :=
  with_comps g
    (g_contours g ||
     existsb (fun b => match lookup c b with
                       | Some r => negb (g_export r) && g_contours r
                       | None => false end) (g_comps g))
    (flat_map (fun b => match lookup c b with
                        | Some r => if g_export r then [b] else g_comps r
                        | None => [b] end) (g_comps g)).

(* the glyph itself comes from the snapshot taken before the loop, the referenced
   glyphs from the live context *)
Definition flatten_step (snap : ctx) (c : ctx) (n : name) : ctx :=
  match lookup snap n with
  | None => c
  | Some g => if has_nonexport_comp c g then ctx_set c (flatten_one c g) else c
  end.

Definition flatten_all (c : ctx) : ctx := fold_left (flatten_step c) (depth_order c) c.

(* ---- convert_components_to_contours --------------------------------------------------- *)
Fixpoint reach_contours (fuel : nat) (c : ctx) (n : name) : bool :=
  match fuel with
  | O => false
  | S f => match lookup c n with
           | None => false
           | Some g => g_contours g || existsb (reach_contours f c) (g_comps g)
           end
  end.

Definition to_contours (c : ctx) (g : glyph) : glyph :=
  with_comps g (g_contours g || existsb (reach_contours (S (length c)) c) (g_comps g)) [].

(* "Resolve component references to glyphs that are not retained" *)
Definition drop_unretained (order : list name) (c : ctx) : ctx :=
  fold_left (fun c n =>
    match lookup c n with
    | Some g => if existsb (fun b => negb (mem b order)) (g_comps g)
                then ctx_set c (to_contours c g) else c
    | None => c
    end) order c.

(* ---- mixed glyphs: resolve_inconsistencies ---------------------------------------------- *)
Inductive op := Convert | Move.

Definition is_mixed (g : glyph) : bool :=
  g_contours g && match g_comps g with [] => false | _ => true end.

Definition todo_of (prefer_simple : bool) (snap : ctx) (order : list name) : list (op * glyph) :=
  flat_map (fun n => match lookup snap n with
                     | Some g => if is_mixed g
                                 then [(if prefer_simple then Convert else Move, g)] else []
                     | None => [] end) order.

(* does the component graph under n touch a glyph that is still pending? *)
Fixpoint reaches (fuel : nat) (c : ctx) (pending : list name) (n : name) : bool :=
  mem n pending ||
  match fuel with
  | O => false
  | S f => match lookup c n with
           | Some g => existsb (reaches f c pending) (g_comps g)
           | None => false
           end
  end.

Record fe_state := mk_state {
  st_ctx : ctx;
  st_order : list name;
  st_derived : list name
}.

(* split_glyph + move_contours_to_new_component *)
Definition move_contours (s : fe_state) (g : glyph) : fe_state :=
  let sn := name_for_derivative (g_name g) (st_order s) in
  let simple := mk_glyph sn (g_export g) [] (g_contours g) [] in
  let composite := with_comps g false (g_comps g ++ [sn]) in
  mk_state (ctx_set (ctx_set (st_ctx s) simple) composite)
           (iset_insert (st_order s) sn)
           (st_derived s ++ [sn]).

(* the while-let loop; `fuel` bounds the number of pops (None = did not finish:
   the Rust loop spins forever when a pending glyph reaches itself) *)
Fixpoint resolve (fuel dfuel : nat) (s : fe_state) (pending : list name)
         (todo : list (op * glyph)) : option fe_state :=
  match todo with
  | [] => Some s
  | (o, g) :: rest =>
      match fuel with
      | O => None
      | S f =>
          if existsb (reaches dfuel (st_ctx s) pending) (g_comps g)
          then resolve f dfuel s pending (rest ++ [(o, g)])
          else
            let pending' := iset_remove (g_name g) pending in
            match o with
            | Convert =>
                resolve f dfuel
                  (mk_state (ctx_set (st_ctx s) (to_contours (st_ctx s) g)) (st_order s) (st_derived s))
                  pending' rest
            | Move => resolve f dfuel (move_contours s g) pending' rest
            end
      end
  end.

(* ---- apply_optional_transformations ----------------------------------------------------------- *)
Fixpoint leaves (fuel : nat) (c : ctx) (b : name) : list name :=
  match fuel with
  | O => [b]
  | S f => match lookup c b with
           | Some r => match g_comps r with
                       | [] => [b]
                       | cs => flat_map (leaves f c) cs
                       end
           | None => [b]
           end
  end.

Definition decompose_all (order : list name) (c : ctx) : ctx :=
  fold_left (fun c n => match lookup c n with
                        | Some g => match g_comps g with
                                    | [] => c
                                    | _ => ctx_set c (to_contours c g)
                                    end
                        | None => c end) order c.

Definition flatten_nested (order : list name) (c : ctx) : ctx :=
  fold_left (fun c n => match lookup c n with
                        | Some g => match g_comps g with
                                    | [] => c
                                    | cs => ctx_set c (with_comps g (g_contours g)
                                                         (flat_map (leaves (S (length c)) c) cs))
                                    end
                        | None => c end) order c.

Record flags := mk_flags {
  fl_prefer_simple : bool;   (* Flags::PREFER_SIMPLE_GLYPHS *)
  fl_flatten : bool;         (* Flags::FLATTEN_COMPONENTS *)
  fl_decompose : bool        (* Flags::DECOMPOSE_COMPONENTS *)
}.

Definition optional_transformations (fl : flags) (order : list name) (c : ctx) : ctx :=
  if fl_decompose fl then decompose_all order c
  else if fl_flatten fl then flatten_nested order c
  else c.

(* ---- ensure_notdef_exists_and_is_gid_0 ---------------------------------------------------------- *)
(* set_glyph_id(.notdef, 0): IndexSet::move_index(i, 0) shifts the glyphs before i up by one *)
Definition notdef_first (order : list name) : list name := NOTDEF :: iset_remove NOTDEF order.

Definition synthetic_notdef : glyph := mk_glyph NOTDEF true [] true [].

Definition ensure_notdef (order : list name) (c : ctx) : list name * ctx :=
  (notdef_first order, if mem NOTDEF order then c else ctx_set c synthetic_notdef).

(* ---- GlyphOrderWork::exec -------------------------------------------------------------------------- *)
Record fe_result := mk_result {
  r_order : list name;      (* final glyph order *)
  r_ctx : ctx;              (* final glyph IR *)
  r_derived : list name     (* glyphs the compiler added for hoisted contours, in creation order *)
}.

Definition glyph_order_work (fl : flags) (prelim : list name) (gs : ctx) : option fe_result :=
  let c0 := prune gs in
  let c1 := flatten_all c0 in
  let order3 := filter (is_export c1) prelim in
  let c2 := drop_unretained order3 c1 in
  let todo := todo_of (fl_prefer_simple fl) c1 order3 in
  let n := length todo in
  match resolve (S n * S n) (S (length c2 + n)) (mk_state c2 order3 [])
                (map (fun t => g_name (snd t)) todo) todo with
  | None => None
  | Some s =>
      let c3 := optional_transformations fl (st_order s) (st_ctx s) in
      let '(order, c4) := ensure_notdef (st_order s) c3 in
      Some (mk_result order c4 (st_derived s))
  end.

Definition ufo_compile (fl : flags) (declared : list name) (gs : ctx) : option fe_result :=
  glyph_order_work fl (ufo_prelim declared (map g_name gs)) gs.

Definition glyphs_compile (fl : flags) (declared : list name) (gs : ctx) : option fe_result :=
  glyph_order_work fl (glyphs_prelim declared (map g_name gs)) gs.

(* ---- cmap ---------------------------------------------------------------------------------------------- *)
Fixpoint with_gids (i : N) (order : list name) : list (N * name) :=
  match order with
  | [] => []
  | n :: t => (i, n) :: with_gids (N.succ i) t
  end.

(* (codepoint, gid) pairs CmapWork hands to Cmap::from_mappings *)
Definition cmap_mappings (order : list name) (c : ctx) : list (N * N) :=
  flat_map (fun p => match lookup c (snd p) with
                     | Some g => map (fun cp => (cp, fst p)) (g_cps g)
                     | None => [] end) (with_gids 0 order).

Definition pair_eqb (a b : N * N) : bool := (fst a =? fst b) && (snd a =? snd b).
Definition pair_leb (a b : N * N) : bool :=
  if fst a <? fst b then true else if fst b <? fst a then false else snd a <=? snd b.

Fixpoint pinsert (x : N * N) (l : list (N * N)) : list (N * N) :=
  match l with
  | [] => [x]
  | y :: t => if pair_eqb x y then l else if pair_leb x y then x :: l else y :: pinsert x t
  end.
(* sort(); dedup() *)
Definition sort_dedup (l : list (N * N)) : list (N * N) := fold_right pinsert [] l.

(* from_mappings: same character, different glyph => Err(CmapConflict) *)
Definition cmap_conflict (ms : list (N * N)) : bool :=
  existsb (fun a => existsb (fun b => (fst a =? fst b) && negb (snd a =? snd b)) ms) ms.

Definition cmap_build (ms : list (N * N)) : option (list (N * N)) :=
  if cmap_conflict ms then None else Some (sort_dedup ms).

Definition cmap_of (r : fe_result) : option (list (N * N)) :=
  cmap_build (cmap_mappings (r_order r) (r_ctx r)).

(* ---- post glyph names ------------------------------------------------------------------------------------- *)
Definition is_ps_char (c : N) : bool :=
  ((0x30 <=? c) && (c <=? 0x39)) || ((0x41 <=? c) && (c <=? 0x5A)) ||
  ((0x61 <=? c) && (c <=? 0x7A)) || (c =? 0x2E) || (c =? 0x5F).

Fixpoint assoc {V} (m : list (name * V)) (k : name) : option V :=
  match m with
  | [] => None
  | (k', v) :: t => if name_eqb k' k then Some v else assoc t k
  end.

Definition keys {V} (m : list (name * V)) : list name := map fst m.

(* PostWork::exec with a rename map: strip, then make unique with ".N" *)
Fixpoint post_names_go (rename : list (name * name)) (seen : list (name * N))
         (order : list name) : list name :=
  match order with
  | [] => []
  | g :: t =>
      let raw := match assoc rename g with Some r => r | None => g end in
      let nm := filter is_ps_char raw in
      match assoc seen nm with
      | Some n =>
          let n' := first_free (S (length seen)) (keys seen) nm n in
          let out := suffixed nm n' in
          out :: post_names_go rename ((out, 1) :: (nm, N.succ n') :: seen) t
      | None => nm :: post_names_go rename ((nm, 1) :: seen) t
      end
  end.

(* static_metadata.postscript_names = None: glyph names as they are *)
Definition post_names (rename : option (list (name * name))) (order : list name) : list name :=
  match rename with
  | Some m => post_names_go m [] order
  | None => order
  end.

(* ---- comparison helpers for the correspondence run ------------------------------------------------------------- *)
Fixpoint names_eqb (a b : list name) : bool :=
  match a, b with
  | [], [] => true
  | x :: a', y :: b' => name_eqb x y && names_eqb a' b'
  | _, _ => false
  end.

Fixpoint pairs_eqb (a b : list (N * N)) : bool :=
  match a, b with
  | [], [] => true
  | x :: a', y :: b' => pair_eqb x y && pairs_eqb a' b'
  | _, _ => false
  end.

(* component lists of every glyph of the final order, as names *)
Definition comps_of (r : fe_result) : list (list name) :=
  map (fun n => match lookup (r_ctx r) n with Some g => g_comps g | None => [] end) (r_order r).

Fixpoint nameslist_eqb (a b : list (list name)) : bool :=
  match a, b with
  | [], [] => true
  | x :: a', y :: b' => names_eqb x y && nameslist_eqb a' b'
  | _, _ => false
  end.

(* What the harness observed on the real font: glyph order (read through post when
   names are not renamed), post names, cmap (sorted by code point), component
   lists; or None when the compiler reported an error. *)
Record observed := mk_obs {
  o_order : list name;
  o_post : list name;
  o_cmap : list (N * N);
  o_comps : list (list name)
}.

(* fontc/src/workload.rs handle_success(GlyphOrder): backend glyph jobs are created for
   `final_glyph_order.difference(preliminary_glyph_order)` only.  A name of the final order
   that was already in the preliminary order as a NON-export glyph had its backend job
   completed as "does not emit to binary"; glyf/gvar then panic on the missing fragment. *)
Definition be_missing (prelim : list name) (gs : ctx) (final : list name) : list name :=
  filter (fun n => mem n prelim && negb (is_export gs n)) final.

Inductive result :=
| Font (r : fe_result) (cm : list (N * N))
| ErrCmapConflict                    (* Error::CmapConflict *)
| ErrMissingBackendJob (l : list name) (* "A task panicked: Be(GlyfFragment(x)) is not available" *)
| ErrBoth (l : list name)            (* both failures are pending; which job fails first is a race *)
| Diverged.                          (* resolve_inconsistencies did not finish *)

Definition compile (fl : flags) (prelim : list name) (gs : ctx) : result :=
  match glyph_order_work fl prelim gs with
  | None => Diverged
  | Some r =>
      match be_missing prelim gs (r_order r), cmap_of r with
      | [], Some cm => Font r cm
      | [], None => ErrCmapConflict
      | l, Some _ => ErrMissingBackendJob l
      | l, None => ErrBoth l
      end
  end.

Definition ufo_build (fl : flags) (declared : list name) (gs : ctx) : result :=
  compile fl (ufo_prelim declared (map g_name gs)) gs.
Definition glyphs_build (fl : flags) (declared : list name) (gs : ctx) : result :=
  compile fl (glyphs_prelim declared (map g_name gs)) gs.

Inductive outcome :=
| OFont (o : observed)
| OCmapConflict
| OMissingJob.

Definition nonzero_gid (l : list (N * N)) : list (N * N) := filter (fun p => negb (snd p =? 0)) l.

Definition agrees (r : result) (rename : option (list (name * name))) (obs : outcome) : bool :=
  match r, obs with
  | Font r cm, OFont o =>
      names_eqb (r_order r) (o_order o) &&
      names_eqb (post_names rename (r_order r)) (o_post o) &&
      pairs_eqb (nonzero_gid cm) (o_cmap o) &&
      nameslist_eqb (comps_of r) (o_comps o)
  | ErrCmapConflict, OCmapConflict => true
  | ErrMissingBackendJob _, OMissingJob => true
  | ErrBoth _, OCmapConflict => true
  | ErrBoth _, OMissingJob => true
  | _, _ => false
  end.
