(* C06 — property theorems.  Statements only; proofs are in Proofs.v.
   Source = public.glyphOrder (`declared`) + the glyphs of the default master (`gs`,
   names pairwise distinct) + flags.  `ufo_compile` is the front end up to the final
   glyph order and glyph IR, `ufo_build` adds the backend outcome (cmap conflict, missing
   backend job), `post_names` the post table names.  The same theorems hold for the
   .glyphs front end (`glyphs_*`), whose undeclared glyphs follow in file order. *)
From Coq Require Import List NArith Bool Permutation Sorted.
From FV.C06 Require Import Model Proofs.
Import ListNotations.
Open Scope N_scope.

(* ---- the preliminary order is "declared first, the rest sorted" ----------------------------- *)
(* Declared names that exist, first occurrence of each, in declared order; then every
   undeclared glyph in ascending (Rust string) order.  Any declared list (duplicates,
   unknown names, empty), any glyph set. *)
Theorem ufo_preliminary_order : forall declared names, NoDup names ->
  ufo_prelim declared names =
    dedup [] (filter (fun n => mem n names) declared)
    ++ sort_names (filter (fun n => negb (mem n declared)) names)
  /\ StronglySorted nle (sort_names (filter (fun n => negb (mem n declared)) names))
  /\ (forall x, In x (ufo_prelim declared names) <-> In x names)
  /\ NoDup (ufo_prelim declared names).
Proof.
  intros declared names Hn. split; [apply ufo_prelim_spec; exact Hn|].
  split; [apply sort_names_sorted|]. split; [intro x; apply ufo_prelim_In; exact Hn | apply ufo_prelim_NoDup].
Qed.
Print Assumptions ufo_preliminary_order.

(* The glyph names reach glyph_order as a HashSet: its iteration order cannot matter. *)
Theorem ufo_preliminary_order_hash_independent : forall declared names names',
  NoDup names -> Permutation names names' ->
  ufo_prelim declared names = ufo_prelim declared names'.
Proof. exact ufo_prelim_perm_invariant. Qed.
Print Assumptions ufo_preliminary_order_hash_independent.

Theorem glyphs_preliminary_order : forall declared file_names, NoDup file_names ->
  glyphs_prelim declared file_names =
    dedup [] (filter (fun n => mem n file_names) declared)
    ++ filter (fun n => negb (mem n declared)) file_names.
Proof. exact glyphs_prelim_spec. Qed.
Print Assumptions glyphs_preliminary_order.

(* ---- the final order, exactly ------------------------------------------------------------------- *)
(* .notdef is glyph 0; then the exported declared glyphs in declared order; then the exported
   undeclared glyphs in ascending order; then the glyphs the compiler derived, in creation
   order.  Non-export glyphs and a source .notdef (wherever it was declared, or missing) do
   not occur in the middle part: keep n = exported n && n <> .notdef.
   Holds for every flag combination and whenever the front end terminates (it does not on a
   component cycle, see resolve). *)
Theorem final_order_exact : forall fl declared gs r,
  NoDup (map g_name gs) ->
  ufo_compile fl declared gs = Some r ->
  r_order r = NOTDEF
     :: filter (keep gs) (dedup [] (filter (fun n => mem n (map g_name gs)) declared))
     ++ filter (keep gs) (sort_names (filter (fun n => negb (mem n declared)) (map g_name gs)))
     ++ r_derived r.
Proof. exact ufo_final_order. Qed.
Print Assumptions final_order_exact.

Theorem final_order_exact_glyphs : forall fl declared gs r,
  NoDup (map g_name gs) ->
  glyphs_compile fl declared gs = Some r ->
  r_order r = NOTDEF
     :: filter (keep gs) (dedup [] (filter (fun n => mem n (map g_name gs)) declared))
     ++ filter (keep gs) (filter (fun n => negb (mem n declared)) (map g_name gs))
     ++ r_derived r.
Proof. exact glyphs_final_order. Qed.
Print Assumptions final_order_exact_glyphs.

Example final_order_nonvacuous :
  let a := [0x61] in let b := [0x62] in let c := [0x63] in
  let gs := [mk_glyph b true [0x62] true []; mk_glyph a true [0x61] true [b];
             mk_glyph c false [] true []; mk_glyph NOTDEF true [] true []] in
  NoDup (map g_name gs) /\
  option_map r_order (ufo_compile (mk_flags false false false) [c; a; NOTDEF; a] gs)
    = Some [NOTDEF; a; b; suffixed a 0].
Proof.
  split; [|vm_compute; reflexivity].
  repeat constructor; simpl; intuition discriminate.
Qed.

(* .notdef is glyph 0 and occurs once; the order has no repeats. *)
Theorem notdef_first_and_no_dups : forall fl declared gs r,
  ufo_compile fl declared gs = Some r ->
  (exists t, r_order r = NOTDEF :: t /\ ~ In NOTDEF t) /\ NoDup (r_order r).
Proof.
  intros fl declared gs r H. unfold ufo_compile in H.
  pose proof (final_order_NoDup _ _ _ _ (ufo_prelim_NoDup _ _) H) as Hn. split; [|exact Hn].
  rewrite (final_order_shape _ _ _ _ H) in *. eexists. split; [reflexivity|].
  inversion Hn. assumption.
Qed.
Print Assumptions notdef_first_and_no_dups.

(* The glyph set is exactly: .notdef, the exported source glyphs, the derived glyphs. *)
Theorem final_set_exact : forall fl declared gs r n,
  NoDup (map g_name gs) ->
  ufo_compile fl declared gs = Some r ->
  (In n (r_order r) <->
   n = NOTDEF \/ (In n (map g_name gs) /\ is_export gs n = true /\ n <> NOTDEF) \/ In n (r_derived r)).
Proof.
  intros fl declared gs r n Hn H. unfold ufo_compile in H.
  rewrite (final_order_In _ _ _ _ n H). rewrite (ufo_prelim_In _ _ _ Hn). reflexivity.
Qed.
Print Assumptions final_set_exact.

(* Derived glyphs: each is named base.i for an exported glyph `base`, i is the least number
   such that base.i is not already in the order (exported glyphs and earlier derived ones);
   they are pairwise distinct and distinct from every exported glyph. *)
Theorem derived_fresh : forall fl declared gs r,
  ufo_compile fl declared gs = Some r ->
  let o0 := filter (is_export gs) (ufo_prelim declared (map g_name gs)) in
  derivation o0 o0 (r_derived r) /\ NoDup (r_derived r) /\ (forall x, In x (r_derived r) -> ~ In x o0).
Proof.
  intros fl declared gs r H o0. unfold ufo_compile in H.
  destruct (gow_order _ _ _ _ H) as [_ Hd]. split; [exact Hd | exact (derivation_fresh _ _ _ Hd)].
Qed.
Print Assumptions derived_fresh.

(* name_for_derivative's unbounded loop: the |names|+1 steps of the model always suffice. *)
Theorem derivative_name_is_free : forall base in_use, ~ In (name_for_derivative base in_use) in_use.
Proof. exact name_for_derivative_fresh. Qed.
Print Assumptions derivative_name_is_free.

(* ---- non-export glyphs ------------------------------------------------------------------------------ *)
(* When a font is produced no glyph the source marks as not exported is in the glyph set
   (hence in post, cmap, or any table indexed by glyph id). *)
Theorem nonexport_absent_from_glyph_set : forall fl declared gs r cm,
  NoDup (map g_name gs) ->
  ufo_build fl declared gs = Font r cm ->
  forall n g, lookup gs n = Some g -> g_export g = false -> ~ In n (r_order r).
Proof.
  intros fl declared gs r cm Hn H. eapply nonexport_not_in_order; [|exact H].
  intros n Hin. apply ufo_prelim_In; assumption.
Qed.
Print Assumptions nonexport_absent_from_glyph_set.

(* Components: in an acyclic source, every component of every glyph of the final IR is itself
   in the final glyph order (flatten_all_non_export_components, processing glyphs by component
   depth, leaves only exported bases; later steps only drop components or add derived ones).
   Together with the theorem above: when a font is produced, no component refers to a glyph
   the source marks as not exported. *)
Theorem components_inside_glyph_set : forall fl declared gs r,
  NoDup (map g_name gs) -> acyclic gs ->
  ufo_compile fl declared gs = Some r ->
  forall n g b, lookup (r_ctx r) n = Some g -> In b (g_comps g) -> In b (r_order r).
Proof.
  intros fl declared gs r Hn Ha H. unfold ufo_compile in H.
  eapply gow_comps; try eassumption. intros n Hin. apply ufo_prelim_In; assumption.
Qed.
Print Assumptions components_inside_glyph_set.

Theorem nonexport_absent_from_components : forall fl declared gs r cm,
  NoDup (map g_name gs) -> acyclic gs ->
  ufo_build fl declared gs = Font r cm ->
  forall n g b gb, lookup (r_ctx r) n = Some g -> In b (g_comps g) ->
                   lookup gs b = Some gb -> g_export gb = true.
Proof.
  intros fl declared gs r cm Hn Ha H n g b gb L Hb Lb.
  destruct (compile_font_inv _ _ _ _ _ H) as [HG _].
  pose proof (components_inside_glyph_set fl declared gs r Hn Ha HG n g b L Hb) as Hin.
  destruct (g_export gb) eqn:E; [reflexivity|]. exfalso.
  exact (nonexport_absent_from_glyph_set fl declared gs r cm Hn H b gb Lb E Hin).
Qed.
Print Assumptions nonexport_absent_from_components.

(* nested non-export components: e -> n1 -> n2 -> x, with n1, n2 not exported *)
Example components_nonvacuous :
  let x := [0x78] in let n2 := [0x6E; 0x32] in let n1 := [0x6E; 0x31] in let e := [0x65] in
  let gs := [mk_glyph e true [0x65] false [n1; x]; mk_glyph n1 false [] false [n2];
             mk_glyph n2 false [] false [x; x]; mk_glyph x true [] true []] in
  NoDup (map g_name gs) /\ acyclic gs /\
  exists r cm, ufo_build (mk_flags true false false) [] gs = Font r cm /\
               r_order r = [NOTDEF; e; x] /\ comps_of r = [[]; [x; x; x]; []].
Proof.
  split; [repeat constructor; simpl; intuition discriminate|].
  split; [apply acyclicb_sound; vm_compute; reflexivity|].
  eexists. eexists. split; [|split]; vm_compute; reflexivity.
Qed.

(* "For every source a font with the declared glyph set comes out" is FALSE in the faithful
   model: a source whose .notdef is listed in public.skipExportGlyphs makes the compiler
   synthesize .notdef, for which no backend job exists (the name was in the preliminary
   order).  Same for a derived name base.i that is the name of a non-export glyph.  Both
   reproduce on the real code (harness key compiler-added-glyph-reuses-nonexport-name). *)
Theorem build_total_refuted : exists fl declared gs,
  NoDup (map g_name gs) /\ ufo_build fl declared gs = ErrMissingBackendJob [NOTDEF].
Proof.
  exists (mk_flags true false false), [], [mk_glyph NOTDEF false [] true []; mk_glyph [0x61] true [0x61] true []].
  split; [|vm_compute; reflexivity]. repeat constructor; simpl; intuition discriminate.
Qed.
Print Assumptions build_total_refuted.

Theorem build_total_refuted_derived : exists fl declared gs,
  NoDup (map g_name gs) /\ ufo_build fl declared gs = ErrMissingBackendJob [suffixed [0x61] 0].
Proof.
  exists (mk_flags false false false), [],
    [mk_glyph [0x61] true [] true [[0x62]]; mk_glyph [0x62] true [] true [];
     mk_glyph (suffixed [0x61] 0) false [] true []].
  split; [|vm_compute; reflexivity]. repeat constructor; simpl; intuition discriminate.
Qed.
Print Assumptions build_total_refuted_derived.

(* Outside that class — no non-export glyph is called .notdef or base.i for an exported
   base — the missing-job failure cannot happen. *)
Theorem no_missing_job_outside_known : forall fl declared gs r,
  NoDup (map g_name gs) ->
  ufo_compile fl declared gs = Some r ->
  (forall n g, lookup gs n = Some g -> g_export g = false ->
     n <> NOTDEF /\ forall b i, is_export gs b = true -> In b (map g_name gs) -> n <> suffixed b i) ->
  be_missing (ufo_prelim declared (map g_name gs)) gs (r_order r) = [].
Proof.
  intros fl declared gs r Hn H Hc. eapply no_missing_job_outside; [|exact H|exact Hc].
  intros n Hin. apply (ufo_prelim_In declared _ _ Hn). exact Hin.
Qed.
Print Assumptions no_missing_job_outside_known.

Example no_missing_job_nonvacuous :
  let gs := [mk_glyph [0x61] true [] true [[0x62]]; mk_glyph [0x62] false [] true []] in
  (forall n g, lookup gs n = Some g -> g_export g = false ->
     n <> NOTDEF /\ forall b i, is_export gs b = true -> In b (map g_name gs) -> n <> suffixed b i).
Proof.
  intros gs n g L E. subst gs. cbn [lookup g_name] in L.
  destruct (name_eqb [0x61] n) eqn:E1; [inversion L as [Hg]; rewrite <- Hg in E; discriminate E|].
  destruct (name_eqb [0x62] n) eqn:E2; [|discriminate L]. apply name_eqb_eq in E2. subst n.
  split; [discriminate|]. intros b i _ _ Hs. unfold suffixed in Hs.
  destruct b as [|x [|y b]]; simpl in Hs; discriminate.
Qed.

(* ---- cmap --------------------------------------------------------------------------------------------- *)
(* When a font is produced, cmap maps c to g exactly when the glyph at index g of the final
   order carries code point c, and to nothing else; no code point has two glyphs. *)
Theorem cmap_exact : forall fl declared gs r cm,
  ufo_build fl declared gs = Font r cm ->
  (forall c g, In (c, g) cm <->
     exists j n gl, nth_error (r_order r) j = Some n /\ g = N.of_nat j /\
                    lookup (r_ctx r) n = Some gl /\ In c (g_cps gl)) /\
  (forall c g1 g2, In (c, g1) cm -> In (c, g2) cm -> g1 = g2).
Proof.
  intros fl declared gs r cm H. unfold ufo_build, compile in H.
  destruct (glyph_order_work _ _ gs) as [r'|]; [|discriminate].
  destruct (be_missing _ gs (r_order r')); destruct (cmap_of r') eqn:C; try discriminate.
  inversion H; subst. unfold cmap_of in C. destruct (cmap_build_spec _ _ C) as [H1 H2]. split; [|exact H2].
  intros c g. rewrite H1. apply cmap_mappings_In.
Qed.
Print Assumptions cmap_exact.

(* The same against the SOURCE: cmap maps c to g exactly when glyph g of the final order is an
   exported source glyph that carries c.  Code points of non-export glyphs, of the synthesized
   .notdef and of derived glyphs (none) do not appear; nothing else appears. *)
Theorem cmap_exact_source : forall fl declared gs r cm,
  NoDup (map g_name gs) ->
  ufo_build fl declared gs = Font r cm ->
  forall c g, In (c, g) cm <->
    exists j n gl, nth_error (r_order r) j = Some n /\ g = N.of_nat j /\
                   lookup gs n = Some gl /\ g_export gl = true /\ In c (g_cps gl).
Proof.
  intros fl declared gs r cm Hn H. eapply cmap_source; [|exact H].
  intros n Hin. apply ufo_prelim_In; assumption.
Qed.
Print Assumptions cmap_exact_source.

Example cmap_source_nonvacuous :
  let gs := [mk_glyph [0x61] true [0x61; 0x41] true []; mk_glyph [0x62] false [0x41; 0x62] true []] in
  NoDup (map g_name gs) /\
  exists r, ufo_build (mk_flags true false false) [] gs = Font r [(0x41, 1); (0x61, 1)].
Proof.
  split; [repeat constructor; simpl; intuition discriminate|]. eexists. vm_compute. reflexivity.
Qed.

(* A code point on two glyphs of the final order is an error outcome, never a silent choice. *)
Theorem cmap_conflict_is_error : forall fl declared gs r c j1 j2 n1 n2 g1 g2,
  ufo_compile fl declared gs = Some r ->
  nth_error (r_order r) j1 = Some n1 -> lookup (r_ctx r) n1 = Some g1 -> In c (g_cps g1) ->
  nth_error (r_order r) j2 = Some n2 -> lookup (r_ctx r) n2 = Some g2 -> In c (g_cps g2) ->
  j1 <> j2 ->
  match ufo_build fl declared gs with Font _ _ => False | _ => True end.
Proof.
  intros fl declared gs r c j1 j2 n1 n2 g1 g2 H A1 A2 A3 B1 B2 B3 Hne.
  unfold ufo_build, compile. unfold ufo_compile in H. rewrite H.
  assert (cmap_of r = None) as ->.
  { unfold cmap_of. apply cmap_build_none. exists c, (N.of_nat j1), (N.of_nat j2).
    split; [apply cmap_mappings_In; exists j1, n1, g1; auto|].
    split; [apply cmap_mappings_In; exists j2, n2, g2; auto|]. intro E. apply Hne. apply Nnat.Nat2N.inj. exact E. }
  destruct (be_missing _ gs (r_order r)); exact I.
Qed.
Print Assumptions cmap_conflict_is_error.

Example cmap_conflict_nonvacuous :
  ufo_build (mk_flags true false false) []
    [mk_glyph [0x61] true [0x41] true []; mk_glyph [0x62] true [0x41] true []] = ErrCmapConflict.
Proof. vm_compute. reflexivity. Qed.

(* ---- post ------------------------------------------------------------------------------------------------ *)
(* post has one name per glyph and no name twice — for any rename map (public.postscriptNames:
   duplicates, names that strip to nothing, names that collide with a generated "x.N"),
   and with renaming off the names are the glyph names themselves. *)
Theorem post_one_to_one : forall rename order, NoDup order ->
  length (post_names rename order) = length order /\ NoDup (post_names rename order).
Proof. exact post_names_one_to_one. Qed.
Print Assumptions post_one_to_one.

Theorem post_identity_without_rename : forall order, post_names None order = order.
Proof. reflexivity. Qed.

(* With a rename map whose images (identity where unmapped) are clean and distinct, post
   carries exactly those images. *)
Theorem post_follows_rename_map : forall rename order,
  let target := map (fun g => match assoc rename g with Some r => r | None => g end) order in
  Forall (fun nm => forallb is_ps_char nm = true) target -> NoDup target ->
  post_names (Some rename) order = target.
Proof.
  intros rename order target Hc Hn. simpl. apply post_go_clean; try assumption. intros x _ [].
Qed.
Print Assumptions post_follows_rename_map.

Example post_nonvacuous :
  post_names (Some [([0x61], [0x78]); ([0x62], [0x78]); ([0x63], [0x78; 0x2E; 0x31])])
             [[0x61]; [0x62]; [0x63]; [0x78]]
  = [[0x78]; [0x78; 0x2E; 0x31]; [0x78; 0x2E; 0x31; 0x2E; 0x31]; [0x78; 0x2E; 0x32]].
Proof. vm_compute. reflexivity. Qed.
