(* C06 — lemmas about FV.C06.Model. *)
From Coq Require Import List NArith Bool Arith Lia Permutation Sorted DecimalN.
From Coq Require Import ZifyBool ZifyN ZifyNat.
From FV.C06 Require Import Model.
Import ListNotations.
Open Scope N_scope.

(* ------------------------------------------------------------------ names *)
Lemma name_eqb_eq : forall a b, name_eqb a b = true <-> a = b.
Proof.
  induction a as [|x a IH]; intros [|y b]; simpl; split; intro H; try reflexivity; try discriminate.
  - apply andb_true_iff in H as [H1 H2]. apply N.eqb_eq in H1. apply IH in H2. congruence.
  - inversion H; subst. apply andb_true_iff. split; [apply N.eqb_refl | apply IH; reflexivity].
Qed.

Lemma name_eqb_refl : forall a, name_eqb a a = true.
Proof. intro a. apply name_eqb_eq. reflexivity. Qed.

Lemma name_eqb_neq : forall a b, name_eqb a b = false <-> a <> b.
Proof.
  intros a b. split; intro H.
  - intro E. apply name_eqb_eq in E. congruence.
  - destruct (name_eqb a b) eqn:E; [apply name_eqb_eq in E; contradiction | reflexivity].
Qed.

Lemma name_eqb_sym : forall a b, name_eqb a b = name_eqb b a.
Proof.
  intros a b. destruct (name_eqb a b) eqn:E.
  - apply name_eqb_eq in E. subst. symmetry. apply name_eqb_refl.
  - symmetry. apply name_eqb_neq. apply name_eqb_neq in E. congruence.
Qed.

Lemma mem_In : forall x l, mem x l = true <-> In x l.
Proof.
  intros x l. unfold mem. rewrite existsb_exists. split.
  - intros [y [Hy E]]. apply name_eqb_eq in E. subst. exact Hy.
  - intro H. exists x. split; [exact H | apply name_eqb_refl].
Qed.

Lemma mem_false : forall x l, mem x l = false <-> ~ In x l.
Proof.
  intros x l. split; intro H.
  - intro HI. apply mem_In in HI. congruence.
  - destruct (mem x l) eqn:E; [apply mem_In in E; contradiction | reflexivity].
Qed.

Lemma mem_ext : forall l1 l2, (forall x, In x l1 <-> In x l2) -> forall x, mem x l1 = mem x l2.
Proof.
  intros l1 l2 H x. destruct (mem x l1) eqn:E1.
  - symmetry. apply mem_In. apply H. apply mem_In. exact E1.
  - symmetry. apply mem_false. intro HI. apply H in HI. apply mem_In in HI. congruence.
Qed.

(* ------------------------------------------------------------------ order on names *)
Lemma name_leb_refl : forall a, name_leb a a = true.
Proof. induction a as [|x a IH]; simpl; [reflexivity|]. rewrite N.ltb_irrefl. exact IH. Qed.

Lemma name_leb_total : forall a b, name_leb a b = false -> name_leb b a = true.
Proof.
  induction a as [|x a IH]; intros [|y b]; simpl; intro H; try reflexivity; try discriminate.
  destruct (N.ltb_spec x y); [discriminate|]. destruct (N.ltb_spec y x); [reflexivity|].
  apply IH. exact H.
Qed.

Lemma name_leb_trans : forall a b c, name_leb a b = true -> name_leb b c = true -> name_leb a c = true.
Proof.
  induction a as [|x a IH]; intros [|y b] [|z c]; simpl; intros H1 H2; try reflexivity; try discriminate.
  destruct (N.ltb_spec x y), (N.ltb_spec y z), (N.ltb_spec x z); try reflexivity; try lia;
    destruct (N.ltb_spec y x); try discriminate; try lia;
    destruct (N.ltb_spec z y); try discriminate; try lia;
    destruct (N.ltb_spec z x); try lia.
  eapply IH; eassumption.
Qed.

Lemma name_leb_antisym : forall a b, name_leb a b = true -> name_leb b a = true -> a = b.
Proof.
  induction a as [|x a IH]; intros [|y b]; simpl; intros H1 H2; try reflexivity; try discriminate.
  destruct (N.ltb_spec x y), (N.ltb_spec y x); try discriminate; try lia.
  assert (x = y) by lia. subst. f_equal. apply IH; assumption.
Qed.

Definition nle (a b : name) : Prop := name_leb a b = true.

(* ------------------------------------------------------------------ sort_names *)
Lemma insert_sorted_perm : forall x l, Permutation (insert_sorted x l) (x :: l).
Proof.
  intros x l. induction l as [|y t IH]; simpl; [apply Permutation_refl|].
  destruct (name_leb x y); [apply Permutation_refl|].
  eapply perm_trans; [apply perm_skip; exact IH | apply perm_swap].
Qed.

Lemma sort_names_perm : forall l, Permutation (sort_names l) l.
Proof.
  induction l as [|x l IH]; simpl; [apply perm_nil|].
  eapply perm_trans; [apply insert_sorted_perm | apply perm_skip; exact IH].
Qed.

Lemma insert_sorted_sorted : forall x l, StronglySorted nle l -> StronglySorted nle (insert_sorted x l).
Proof.
  intros x l H. induction H as [|y t Hs IH Hall]; simpl.
  - constructor; constructor.
  - destruct (name_leb x y) eqn:E.
    + constructor; [constructor; assumption|]. constructor; [exact E|].
      eapply Forall_impl; [|exact Hall]. intros z Hz. eapply name_leb_trans; eassumption.
    + constructor; [exact IH|].
      eapply Permutation_Forall; [apply Permutation_sym; apply insert_sorted_perm|].
      constructor; [apply name_leb_total; exact E | exact Hall].
Qed.

Lemma sort_names_sorted : forall l, StronglySorted nle (sort_names l).
Proof. induction l as [|x l IH]; simpl; [constructor | apply insert_sorted_sorted; exact IH]. Qed.

Lemma sort_names_In : forall x l, In x (sort_names l) <-> In x l.
Proof.
  intros x l. split; intro H.
  - eapply Permutation_in; [apply sort_names_perm | exact H].
  - eapply Permutation_in; [apply Permutation_sym; apply sort_names_perm | exact H].
Qed.

Lemma sort_names_NoDup : forall l, NoDup l -> NoDup (sort_names l).
Proof. intros l H. eapply Permutation_NoDup; [apply Permutation_sym; apply sort_names_perm | exact H]. Qed.

(* a sorted list is determined by its elements *)
Lemma sorted_perm_unique : forall l1 l2,
  StronglySorted nle l1 -> StronglySorted nle l2 -> Permutation l1 l2 -> l1 = l2.
Proof.
  induction l1 as [|x l1 IH]; intros l2 H1 H2 P.
  - apply Permutation_nil in P. congruence.
  - destruct l2 as [|y l2]; [apply Permutation_sym, Permutation_nil in P; discriminate|].
    inversion H1 as [|? ? Hs1 Ha1]; subst. inversion H2 as [|? ? Hs2 Ha2]; subst.
    assert (x = y) as ->.
    { assert (In x (y :: l2)) as Hx by (eapply Permutation_in; [exact P | left; reflexivity]).
      assert (In y (x :: l1)) as Hy by (eapply Permutation_in; [apply Permutation_sym; exact P | left; reflexivity]).
      destruct Hx as [->|Hx]; [reflexivity|]. destruct Hy as [->|Hy]; [reflexivity|].
      rewrite Forall_forall in Ha1, Ha2. apply name_leb_antisym; [apply Ha1; exact Hy | apply Ha2; exact Hx]. }
    f_equal. apply IH; try assumption. eapply Permutation_cons_inv. exact P.
Qed.

(* the HashSet iteration order of the glyph names does not matter *)
Lemma sort_names_perm_invariant : forall l1 l2, Permutation l1 l2 -> sort_names l1 = sort_names l2.
Proof.
  intros l1 l2 P. apply sorted_perm_unique; try apply sort_names_sorted.
  eapply perm_trans; [apply sort_names_perm|]. eapply perm_trans; [exact P|].
  apply Permutation_sym. apply sort_names_perm.
Qed.

(* ------------------------------------------------------------------ IndexSet *)
(* first occurrences, skipping what is already present *)
Fixpoint dedup (seen : list name) (l : list name) : list name :=
  match l with
  | [] => []
  | x :: t => if mem x seen then dedup seen t else x :: dedup (x :: seen) t
  end.

Lemma dedup_ext : forall l s1 s2, (forall x, In x s1 <-> In x s2) -> dedup s1 l = dedup s2 l.
Proof.
  induction l as [|x t IH]; intros s1 s2 H; simpl; [reflexivity|].
  rewrite (mem_ext s1 s2 H x). destruct (mem x s2); [apply IH; exact H|].
  f_equal. apply IH. intro y. simpl. rewrite H. tauto.
Qed.

Lemma iset_extend_dedup : forall xs l, iset_extend l xs = l ++ dedup l xs.
Proof.
  induction xs as [|x t IH]; intro l; unfold iset_extend in *; simpl.
  - rewrite app_nil_r. reflexivity.
  - unfold iset_insert at 2. destruct (mem x l) eqn:E.
    + apply IH.
    + rewrite IH. rewrite <- app_assoc. simpl. f_equal. f_equal.
      apply dedup_ext. intro y. rewrite in_app_iff. simpl. tauto.
Qed.

Lemma dedup_In : forall l s x, In x (dedup s l) <-> In x l /\ ~ In x s.
Proof.
  induction l as [|y t IH]; intros s x; simpl; [tauto|].
  destruct (mem y s) eqn:E.
  - rewrite IH. apply mem_In in E. split; [tauto|]. intros [[->|H] Hn]; [contradiction | tauto].
  - apply mem_false in E. simpl. rewrite IH. simpl. split.
    + intros [->|[H Hn]]; [tauto|]. split; [tauto|]. intro. apply Hn. right. assumption.
    + intros [[->|H] Hn]; [tauto|]. destruct (list_eq_dec N.eq_dec y x) as [->|Hne]; [tauto|].
      right. split; [exact H|]. intros [?|?]; [congruence | contradiction].
Qed.

Lemma dedup_NoDup : forall l s, NoDup (dedup s l).
Proof.
  induction l as [|y t IH]; intro s; simpl; [constructor|].
  destruct (mem y s); [apply IH|]. constructor; [|apply IH].
  rewrite dedup_In. simpl. tauto.
Qed.

Lemma dedup_id : forall l s, NoDup l -> (forall x, In x l -> ~ In x s) -> dedup s l = l.
Proof.
  induction l as [|y t IH]; intros s Hn Hd; simpl; [reflexivity|].
  inversion Hn; subst.
  assert (mem y s = false) as -> by (apply mem_false; apply Hd; left; reflexivity).
  f_equal. apply IH; [assumption|]. intros x Hx [->|Hs]; [contradiction|].
  eapply Hd; [right; exact Hx | exact Hs].
Qed.

Lemma iset_insert_fresh : forall l x, ~ In x l -> iset_insert l x = l ++ [x].
Proof. intros l x H. unfold iset_insert. apply mem_false in H. rewrite H. reflexivity. Qed.

Lemma iset_remove_In : forall x y l, In y (iset_remove x l) <-> In y l /\ y <> x.
Proof.
  intros x y l. unfold iset_remove. rewrite filter_In. rewrite negb_true_iff, name_eqb_neq.
  split; intros [H1 H2]; split; congruence.
Qed.

Lemma NoDup_filter {A} (f : A -> bool) l : NoDup l -> NoDup (filter f l).
Proof.
  induction 1 as [|x l Hx Hn IH]; simpl; [constructor|].
  destruct (f x); [constructor; [rewrite filter_In; tauto | exact IH] | exact IH].
Qed.

(* ------------------------------------------------------------------ decimal printing *)
Definition is_digit (c : N) : Prop := 0x30 <= c <= 0x39.

Lemma uint_chars_digits : forall u, Forall is_digit (uint_chars u).
Proof. induction u; simpl; constructor; try assumption; unfold is_digit; lia. Qed.

Lemma uint_chars_inj : forall u v, uint_chars u = uint_chars v -> u = v.
Proof.
  induction u; destruct v; simpl; intro H; try reflexivity; try discriminate;
    inversion H; f_equal; auto.
Qed.

Lemma dec_inj : forall a b, dec a = dec b -> a = b.
Proof.
  intros a b H. unfold dec in H. apply uint_chars_inj in H.
  rewrite <- (Unsigned.of_to a), <- (Unsigned.of_to b). rewrite H. reflexivity.
Qed.

Lemma suffixed_inj : forall base a b, suffixed base a = suffixed base b -> a = b.
Proof.
  intros base a b H. unfold suffixed in H. apply app_inv_head in H. inversion H. apply dec_inj. assumption.
Qed.

Lemma suffixed_ne_notdef : forall base i, suffixed base i <> NOTDEF.
Proof.
  intros base i H. unfold suffixed, NOTDEF in H. pose proof (uint_chars_digits (N.to_uint i)) as D.
  fold (dec i) in D. destruct base as [|x b]; simpl in H.
  - inversion H as [H1]. rewrite H1 in D. inversion D as [|? ? Hd _]. unfold is_digit in Hd. lia.
  - inversion H as [[Hx Hb]].
    assert (In DOT (b ++ DOT :: dec i)) as HI by (apply in_or_app; right; left; reflexivity).
    rewrite Hb in HI. unfold DOT in HI. simpl in HI.
    repeat (destruct HI as [HI|HI]; [discriminate|]). exact HI.
Qed.

(* ------------------------------------------------------------------ first_free *)
Lemma first_free_used_prefix : forall fuel used base i,
  mem (suffixed base (first_free fuel used base i)) used = true ->
  forall k, (k < fuel)%nat -> In (suffixed base (i + N.of_nat k)) used.
Proof.
  induction fuel as [|f IH]; intros used base i H k Hk; [lia|].
  simpl in H. destruct (mem (suffixed base i) used) eqn:E.
  - destruct k as [|k].
    + rewrite N.add_0_r. apply mem_In. exact E.
    + replace (i + N.of_nat (S k)) with (N.succ i + N.of_nat k) by lia.
      apply IH; [exact H | lia].
  - congruence.
Qed.

Lemma first_free_spec : forall used base i,
  mem (suffixed base (first_free (S (length used)) used base i)) used = false.
Proof.
  intros used base i. destruct (mem _ used) eqn:E; [|reflexivity]. exfalso.
  pose proof (first_free_used_prefix _ _ _ _ E) as H.
  set (l := map (fun k => suffixed base (i + N.of_nat k)) (seq 0 (S (length used)))).
  assert (NoDup l) as Hn.
  { unfold l. apply FinFun.Injective_map_NoDup; [|apply seq_NoDup].
    intros a b Hab. apply suffixed_inj in Hab. lia. }
  assert (incl l used) as Hi.
  { intros x Hx. unfold l in Hx. apply in_map_iff in Hx as [k [<- Hk]]. apply in_seq in Hk. apply H. lia. }
  pose proof (NoDup_incl_length Hn Hi) as Hl. unfold l in Hl. rewrite map_length, seq_length in Hl. lia.
Qed.

(* with more fuel than names in use the search also succeeds (keys with repeats) *)
Lemma first_free_spec_ge : forall fuel used base i, (length used < fuel)%nat ->
  mem (suffixed base (first_free fuel used base i)) used = false.
Proof.
  intros fuel used base i Hf. destruct (mem _ used) eqn:E; [|reflexivity]. exfalso.
  pose proof (first_free_used_prefix _ _ _ _ E) as H.
  set (l := map (fun k => suffixed base (i + N.of_nat k)) (seq 0 fuel)).
  assert (NoDup l) as Hn.
  { unfold l. apply FinFun.Injective_map_NoDup; [|apply seq_NoDup].
    intros a b Hab. apply suffixed_inj in Hab. lia. }
  assert (incl l used) as Hi.
  { intros x Hx. unfold l in Hx. apply in_map_iff in Hx as [k [<- Hk]]. apply in_seq in Hk. apply H. lia. }
  pose proof (NoDup_incl_length Hn Hi) as Hl. unfold l in Hl. rewrite map_length, seq_length in Hl. lia.
Qed.

(* it is the FIRST free suffix *)
Lemma first_free_least : forall fuel used base i j,
  i <= j -> j < first_free fuel used base i -> In (suffixed base j) used.
Proof.
  induction fuel as [|f IH]; intros used base i j H1 H2; simpl in H2; [lia|].
  destruct (mem (suffixed base i) used) eqn:E; [|lia].
  destruct (N.eq_dec i j) as [->|Hne]; [apply mem_In; exact E|].
  apply (IH used base (N.succ i)); [lia | exact H2].
Qed.

Lemma first_free_ge : forall fuel used base i, i <= first_free fuel used base i.
Proof.
  induction fuel as [|f IH]; intros; simpl; [lia|].
  destruct (mem _ used); [|lia]. specialize (IH used base (N.succ i)). lia.
Qed.

Lemma name_for_derivative_fresh : forall base used, ~ In (name_for_derivative base used) used.
Proof. intros base used. apply mem_false. unfold name_for_derivative. apply first_free_spec. Qed.

(* ------------------------------------------------------------------ preliminary order *)
Lemma filter_ext_in' {A} (f g : A -> bool) l : (forall x, In x l -> f x = g x) -> filter f l = filter g l.
Proof.
  induction l as [|x t IH]; intro H; simpl; [reflexivity|].
  rewrite (H x (or_introl eq_refl)). rewrite IH; [reflexivity|]. intros y Hy. apply H. right. exact Hy.
Qed.

Lemma ufo_prelim_spec : forall declared names, NoDup names ->
  ufo_prelim declared names =
    dedup [] (filter (fun n => mem n names) declared)
    ++ sort_names (filter (fun n => negb (mem n declared)) names).
Proof.
  intros declared names Hn. unfold ufo_prelim.
  rewrite (iset_extend_dedup _ []). simpl.
  set (D := dedup [] (filter (fun n => mem n names) declared)).
  rewrite iset_extend_dedup.
  assert (filter (fun n => negb (mem n D)) names = filter (fun n => negb (mem n declared)) names) as HF.
  { apply filter_ext_in'. intros x Hx. f_equal.
    destruct (mem x declared) eqn:E.
    - apply mem_In. unfold D. rewrite dedup_In. split; [|simpl; tauto].
      apply filter_In. split; [apply mem_In; exact E | apply mem_In; exact Hx].
    - apply mem_false. unfold D. rewrite dedup_In. intros [H _]. apply filter_In in H as [H _].
      apply mem_In in H. congruence. }
  rewrite HF. f_equal. apply dedup_id.
  - apply sort_names_NoDup. apply NoDup_filter. exact Hn.
  - intros x Hx HD. apply (proj1 (sort_names_In _ _)) in Hx. apply filter_In in Hx as [_ Hx].
    apply negb_true_iff, mem_false in Hx. unfold D in HD. apply dedup_In in HD as [HD _].
    apply filter_In in HD as [HD _]. contradiction.
Qed.

Lemma glyphs_prelim_spec : forall declared file_names, NoDup file_names ->
  glyphs_prelim declared file_names =
    dedup [] (filter (fun n => mem n file_names) declared)
    ++ filter (fun n => negb (mem n declared)) file_names.
Proof.
  intros declared names Hn. unfold glyphs_prelim.
  rewrite (iset_extend_dedup _ []). simpl.
  set (D := dedup [] (filter (fun n => mem n names) declared)).
  rewrite iset_extend_dedup.
  assert (filter (fun n => negb (mem n D)) names = filter (fun n => negb (mem n declared)) names) as HF.
  { apply filter_ext_in'. intros x Hx. f_equal.
    destruct (mem x declared) eqn:E.
    - apply mem_In. unfold D. rewrite dedup_In. split; [|simpl; tauto].
      apply filter_In. split; [apply mem_In; exact E | apply mem_In; exact Hx].
    - apply mem_false. unfold D. rewrite dedup_In. intros [H _]. apply filter_In in H as [H _].
      apply mem_In in H. congruence. }
  rewrite HF. f_equal. apply dedup_id.
  - apply NoDup_filter. exact Hn.
  - intros x Hx HD. apply filter_In in Hx as [_ Hx].
    apply negb_true_iff, mem_false in Hx. unfold D in HD. apply dedup_In in HD as [HD _].
    apply filter_In in HD as [HD _]. contradiction.
Qed.

Lemma ufo_prelim_In : forall declared names x, NoDup names ->
  In x (ufo_prelim declared names) <-> In x names.
Proof.
  intros declared names x Hn. rewrite ufo_prelim_spec by exact Hn.
  rewrite in_app_iff, dedup_In, sort_names_In, !filter_In. simpl.
  rewrite negb_true_iff, mem_false, mem_In. split.
  - tauto.
  - intro H. destruct (in_dec (list_eq_dec N.eq_dec) x declared); tauto.
Qed.

Lemma NoDup_app' {A} (a b : list A) :
  NoDup a -> NoDup b -> (forall x, In x a -> ~ In x b) -> NoDup (a ++ b).
Proof.
  induction a as [|x a IH]; intros Ha Hb Hd; simpl; [exact Hb|].
  inversion Ha; subst. constructor.
  - rewrite in_app_iff. intros [H|H]; [contradiction|]. eapply Hd; [left; reflexivity | exact H].
  - apply IH; try assumption. intros y Hy. apply Hd. right. exact Hy.
Qed.

Lemma iset_extend_NoDup : forall xs l, NoDup l -> NoDup (iset_extend l xs).
Proof.
  intros xs l Hl. rewrite iset_extend_dedup. apply NoDup_app'; [exact Hl | apply dedup_NoDup|].
  intros x Hx Hd. apply dedup_In in Hd. tauto.
Qed.

Lemma ufo_prelim_NoDup : forall declared names, NoDup (ufo_prelim declared names).
Proof. intros. unfold ufo_prelim. apply iset_extend_NoDup. apply iset_extend_NoDup. constructor. Qed.

Lemma glyphs_prelim_NoDup : forall declared names, NoDup (glyphs_prelim declared names).
Proof. intros. unfold glyphs_prelim. apply iset_extend_NoDup. apply iset_extend_NoDup. constructor. Qed.

Lemma glyphs_prelim_In : forall declared names x, NoDup names ->
  In x (glyphs_prelim declared names) <-> In x names.
Proof.
  intros declared names x Hn. rewrite glyphs_prelim_spec by exact Hn.
  rewrite in_app_iff, dedup_In, !filter_In. simpl.
  rewrite negb_true_iff, mem_false, mem_In. split.
  - tauto.
  - intro H. destruct (in_dec (list_eq_dec N.eq_dec) x declared); tauto.
Qed.

(* ------------------------------------------------------------------ the glyph context *)
Lemma lookup_name : forall c n g, lookup c n = Some g -> g_name g = n.
Proof.
  induction c as [|h t IH]; intros n g H; simpl in H; [discriminate|].
  destruct (name_eqb (g_name h) n) eqn:E.
  - inversion H; subst. apply name_eqb_eq. exact E.
  - apply IH. exact H.
Qed.

Lemma lookup_ctx_set : forall c g n,
  lookup (ctx_set c g) n = if name_eqb (g_name g) n then Some g else lookup c n.
Proof.
  induction c as [|h t IH]; intros g n; simpl; [reflexivity|].
  destruct (name_eqb (g_name h) (g_name g)) eqn:E; simpl.
  - apply name_eqb_eq in E. rewrite E. destruct (name_eqb (g_name g) n); reflexivity.
  - rewrite IH. destruct (name_eqb (g_name h) n) eqn:E2; [|reflexivity].
    destruct (name_eqb (g_name g) n) eqn:E3; [|reflexivity].
    apply name_eqb_eq in E2, E3. rewrite <- E3 in E2. rewrite E2, name_eqb_refl in E. discriminate.
Qed.

Lemma lookup_In : forall c n g, lookup c n = Some g -> In g c.
Proof.
  induction c as [|h t IH]; intros n g H; simpl in H; [discriminate|].
  destruct (name_eqb (g_name h) n); [inversion H; left; reflexivity | right; eapply IH; exact H].
Qed.

Lemma lookup_Some_iff : forall c n, (exists g, lookup c n = Some g) <-> In n (map g_name c).
Proof.
  induction c as [|h t IH]; intro n; simpl.
  - split; [intros [g H]; discriminate | intros []].
  - destruct (name_eqb (g_name h) n) eqn:E.
    + apply name_eqb_eq in E. split; [intros _; left; exact E | intros _; eexists; reflexivity].
    + apply name_eqb_neq in E. rewrite IH. tauto.
Qed.

Lemma lookup_map : forall (f : glyph -> glyph) c n,
  (forall g, g_name (f g) = g_name g) -> lookup (map f c) n = option_map f (lookup c n).
Proof.
  intros f c n Hf. induction c as [|h t IH]; simpl; [reflexivity|].
  rewrite Hf. destruct (name_eqb (g_name h) n); [reflexivity | exact IH].
Qed.

(* export flags never change *)
Definition expo (c : ctx) (n : name) : option bool := option_map g_export (lookup c n).
Definition same_exp (c c' : ctx) : Prop := forall n, expo c' n = expo c n.

Lemma same_exp_refl : forall c, same_exp c c.
Proof. intros c n. reflexivity. Qed.

Lemma same_exp_trans : forall a b c, same_exp a b -> same_exp b c -> same_exp a c.
Proof. intros a b c H1 H2 n. rewrite H2. apply H1. Qed.

Lemma same_exp_is_export : forall c c' n, same_exp c c' -> is_export c' n = is_export c n.
Proof.
  intros c c' n H. specialize (H n). unfold expo, is_export in *.
  destruct (lookup c' n), (lookup c n); simpl in H; congruence.
Qed.

Lemma same_exp_set : forall c g, expo c (g_name g) = Some (g_export g) -> same_exp c (ctx_set c g).
Proof.
  intros c g H n. unfold expo in *. rewrite lookup_ctx_set.
  destruct (name_eqb (g_name g) n) eqn:E; [|reflexivity].
  apply name_eqb_eq in E. subst. simpl. symmetry. exact H.
Qed.

(* replacing a glyph by a variant of the glyph currently stored under that name *)
Lemma same_exp_set_lookup : forall c n g contours comps,
  lookup c n = Some g -> same_exp c (ctx_set c (with_comps g contours comps)).
Proof.
  intros c n g contours comps H. apply same_exp_set. simpl. unfold expo.
  rewrite (lookup_name _ _ _ H), H. reflexivity.
Qed.

Lemma prune_same_exp : forall c, same_exp c (prune c).
Proof.
  intros c n. unfold expo, prune. rewrite lookup_map by reflexivity.
  destruct (lookup c n); reflexivity.
Qed.

Lemma fold_same_exp : forall (step : ctx -> name -> ctx) l c0,
  (forall c n, same_exp c0 c -> same_exp c0 (step c n)) ->
  forall c, same_exp c0 c -> same_exp c0 (fold_left step l c).
Proof.
  intros step l c0 Hs. induction l as [|x t IH]; intros c Hc; simpl; [exact Hc|].
  apply IH. apply Hs. exact Hc.
Qed.

Lemma flatten_all_same_exp : forall c, same_exp c (flatten_all c).
Proof.
  intro c0. unfold flatten_all. apply fold_same_exp; [|apply same_exp_refl].
  intros c n Hc. unfold flatten_step. destruct (lookup c0 n) as [g|] eqn:L; [|exact Hc].
  destruct (has_nonexport_comp c g); [|exact Hc].
  eapply same_exp_trans; [exact Hc|]. apply same_exp_set. unfold flatten_one. simpl.
  rewrite Hc. unfold expo. rewrite (lookup_name _ _ _ L), L. reflexivity.
Qed.

(* ------------------------------------------------------------------ resolve_inconsistencies *)
(* how the derived names come about, starting from order o *)
Inductive derivation : list name -> list name -> Prop :=
| der_nil : forall o, derivation o []
| der_cons : forall o base i ds,
    In base o ->
    ~ In (suffixed base i) o ->
    (forall j, j < i -> In (suffixed base j) o) ->
    derivation (o ++ [suffixed base i]) ds ->
    derivation o (suffixed base i :: ds).

Lemma derivation_fresh : forall o ds, derivation o ds ->
  NoDup ds /\ (forall x, In x ds -> ~ In x o).
Proof.
  induction 1 as [o | o base i ds Hb Hf Hl Hd [IH1 IH2]].
  - split; [constructor | intros x []].
  - split.
    + constructor; [|exact IH1]. intro HI. apply (IH2 _ HI). apply in_or_app. right. left. reflexivity.
    + intros x [<-|Hx]; [exact Hf|]. intro Ho. apply (IH2 _ Hx). apply in_or_app. left. exact Ho.
Qed.

Lemma resolve_order : forall fuel d todo s p s',
  Forall (fun t => In (g_name (snd t)) (st_order s)) todo ->
  resolve fuel d s p todo = Some s' ->
  exists ds, st_order s' = st_order s ++ ds /\ st_derived s' = st_derived s ++ ds /\ derivation (st_order s) ds.
Proof.
  induction fuel as [|f IH]; intros d todo s p s' Ht H.
  - destruct todo as [|[o g] rest]; simpl in H; [|discriminate].
    inversion H; subst. exists []. rewrite !app_nil_r. repeat split. constructor.
  - destruct todo as [|[o g] rest]; simpl in H.
    + inversion H; subst. exists []. rewrite !app_nil_r. repeat split. constructor.
    + inversion Ht as [|? ? Hg Hrest]; subst. simpl in Hg.
      destruct (existsb (reaches d (st_ctx s) p) (g_comps g)).
      * apply IH in H; [exact H|]. apply Forall_app. split; [exact Hrest|]. constructor; [exact Hg | constructor].
      * destruct o.
        -- apply IH in H; [exact H | exact Hrest].
        -- apply IH in H.
           ++ destruct H as [ds [H1 [H2 H3]]]. unfold move_contours in H1, H2, H3. simpl in H1, H2, H3.
              pose proof (name_for_derivative_fresh (g_name g) (st_order s)) as Hfresh.
              rewrite (iset_insert_fresh _ _ Hfresh) in H1, H3.
              exists (name_for_derivative (g_name g) (st_order s) :: ds).
              rewrite <- app_assoc in H1, H2. simpl in H1, H2. repeat split; try assumption.
              unfold name_for_derivative in *. apply der_cons; try assumption.
              intros j Hj. eapply first_free_least; [|exact Hj]. lia.
           ++ unfold move_contours. simpl. eapply Forall_impl; [|exact Hrest].
              intros t Hin. unfold iset_insert. destruct (mem _ (st_order s)); [exact Hin|].
              apply in_or_app. left. exact Hin.
Qed.

Lemma todo_of_names : forall ps snap order,
  Forall (fun t => In (g_name (snd t)) order) (todo_of ps snap order).
Proof.
  intros ps snap order. unfold todo_of. apply Forall_forall. intros t Ht.
  apply in_flat_map in Ht as [n [Hn Ht]]. destruct (lookup snap n) as [g|] eqn:L; [|destruct Ht].
  destruct (is_mixed g); [|destruct Ht]. destruct Ht as [<-|[]]. simpl.
  rewrite (lookup_name _ _ _ L). exact Hn.
Qed.

(* ------------------------------------------------------------------ GlyphOrderWork::exec: the order *)
Lemma notdef_first_spec : forall l, notdef_first l = NOTDEF :: filter (fun y => negb (name_eqb NOTDEF y)) l.
Proof. reflexivity. Qed.

Lemma gow_order : forall fl prelim gs r,
  glyph_order_work fl prelim gs = Some r ->
  r_order r = notdef_first (filter (is_export gs) prelim ++ r_derived r) /\ derivation (filter (is_export gs) prelim) (r_derived r).
Proof.
  intros fl prelim gs r H. unfold glyph_order_work in H.
  set (c1 := flatten_all (prune gs)) in *.
  assert (same_exp gs c1) as Hexp.
  { eapply same_exp_trans; [apply prune_same_exp | apply flatten_all_same_exp]. }
  assert (filter (is_export c1) prelim = filter (is_export gs) prelim) as Hf.
  { apply filter_ext_in'. intros x _. apply same_exp_is_export. exact Hexp. }
  rewrite Hf in H. set (order3 := filter (is_export gs) prelim) in *.
  match type of H with match ?R with _ => _ end = _ => destruct R as [s|] eqn:HR end; [|discriminate].
  apply resolve_order in HR; [|simpl; apply todo_of_names].
  destruct HR as [ds [H1 [H2 H3]]]. simpl in H1, H2, H3.
  unfold ensure_notdef in H. injection H as Hr. rewrite <- Hr. simpl. rewrite H1, H2. split; [reflexivity | exact H3].
Qed.
