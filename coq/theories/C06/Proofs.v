(* C06 — lemmas about FV.C06.Model. *)
From Coq Require Import List NArith Bool Arith Lia Permutation Sorted DecimalN.
From Coq Require Import ZifyBool ZifyN ZifyNat.
From FV.C06 Require Import Model.
Import ListNotations.
Open Scope N_scope.

(* ------------------------------------------------------------------ names *)
Lemma name_eqb_eq : forall a b, name_eqb a b = true <-> a = b.
Proof.
  induction a as [|x a IH]; intros [|y b]; simpl; split; intro H; try reflexivity; try discriminate.
  - apply andb_true_iff in H as [H1 H2]. apply N.eqb_eq in H1. apply IH in H2. congruence.
  - inversion H; subst. apply andb_true_iff. split; [apply N.eqb_refl | apply IH; reflexivity].
Qed.

Lemma name_eqb_refl : forall a, name_eqb a a = true.
Proof. intro a. apply name_eqb_eq. reflexivity. Qed.

Lemma name_eqb_neq : forall a b, name_eqb a b = false <-> a <> b.
Proof.
  intros a b. split; intro H.
  - intro E. apply name_eqb_eq in E. congruence.
  - destruct (name_eqb a b) eqn:E; [apply name_eqb_eq in E; contradiction | reflexivity].
Qed.

Lemma name_eqb_sym : forall a b, name_eqb a b = name_eqb b a.
Proof.
  intros a b. destruct (name_eqb a b) eqn:E.
  - apply name_eqb_eq in E. subst. symmetry. apply name_eqb_refl.
  - symmetry. apply name_eqb_neq. apply name_eqb_neq in E. congruence.
Qed.

Lemma mem_In : forall x l, mem x l = true <-> In x l.
Proof.
  intros x l. unfold mem. rewrite existsb_exists. split.
  - intros [y [Hy E]]. apply name_eqb_eq in E. subst. exact Hy.
  - intro H. exists x. split; [exact H | apply name_eqb_refl].
Qed.

Lemma mem_false : forall x l, mem x l = false <-> ~ In x l.
Proof.
  intros x l. split; intro H.
  - intro HI. apply mem_In in HI. congruence.
  - destruct (mem x l) eqn:E; [apply mem_In in E; contradiction | reflexivity].
Qed.

Lemma mem_ext : forall l1 l2, (forall x, In x l1 <-> In x l2) -> forall x, mem x l1 = mem x l2.
Proof.
  intros l1 l2 H x. destruct (mem x l1) eqn:E1.
  - symmetry. apply mem_In. apply H. apply mem_In. exact E1.
  - symmetry. apply mem_false. intro HI. apply H in HI. apply mem_In in HI. congruence.
Qed.

(* ------------------------------------------------------------------ order on names *)
Lemma name_leb_refl : forall a, name_leb a a = true.
Proof. induction a as [|x a IH]; simpl; [reflexivity|]. rewrite N.ltb_irrefl. exact IH. Qed.

Lemma name_leb_total : forall a b, name_leb a b = false -> name_leb b a = true.
Proof.
  induction a as [|x a IH]; intros [|y b]; simpl; intro H; try reflexivity; try discriminate.
  destruct (N.ltb_spec x y); [discriminate|]. destruct (N.ltb_spec y x); [reflexivity|].
  apply IH. exact H.
Qed.

Lemma name_leb_trans : forall a b c, name_leb a b = true -> name_leb b c = true -> name_leb a c = true.
Proof.
  induction a as [|x a IH]; intros [|y b] [|z c]; simpl; intros H1 H2; try reflexivity; try discriminate.
  destruct (N.ltb_spec x y), (N.ltb_spec y z), (N.ltb_spec x z); try reflexivity; try lia;
    destruct (N.ltb_spec y x); try discriminate; try lia;
    destruct (N.ltb_spec z y); try discriminate; try lia;
    destruct (N.ltb_spec z x); try lia.
  eapply IH; eassumption.
Qed.

Lemma name_leb_antisym : forall a b, name_leb a b = true -> name_leb b a = true -> a = b.
Proof.
  induction a as [|x a IH]; intros [|y b]; simpl; intros H1 H2; try reflexivity; try discriminate.
  destruct (N.ltb_spec x y), (N.ltb_spec y x); try discriminate; try lia.
  assert (x = y) by lia. subst. f_equal. apply IH; assumption.
Qed.

Definition nle (a b : name) : Prop := name_leb a b = true.

(* ------------------------------------------------------------------ sort_names *)
Lemma insert_sorted_perm : forall x l, Permutation (insert_sorted x l) (x :: l).
Proof.
  intros x l. induction l as [|y t IH]; simpl; [apply Permutation_refl|].
  destruct (name_leb x y); [apply Permutation_refl|].
  eapply perm_trans; [apply perm_skip; exact IH | apply perm_swap].
Qed.

Lemma sort_names_perm : forall l, Permutation (sort_names l) l.
Proof.
  induction l as [|x l IH]; simpl; [apply perm_nil|].
  eapply perm_trans; [apply insert_sorted_perm | apply perm_skip; exact IH].
Qed.

Lemma insert_sorted_sorted : forall x l, StronglySorted nle l -> StronglySorted nle (insert_sorted x l).
Proof.
  intros x l H. induction H as [|y t Hs IH Hall]; simpl.
  - constructor; constructor.
  - destruct (name_leb x y) eqn:E.
    + constructor; [constructor; assumption|]. constructor; [exact E|].
      eapply Forall_impl; [|exact Hall]. intros z Hz. eapply name_leb_trans; eassumption.
    + constructor; [exact IH|].
      eapply Permutation_Forall; [apply Permutation_sym; apply insert_sorted_perm|].
      constructor; [apply name_leb_total; exact E | exact Hall].
Qed.

Lemma sort_names_sorted : forall l, StronglySorted nle (sort_names l).
Proof. induction l as [|x l IH]; simpl; [constructor | apply insert_sorted_sorted; exact IH]. Qed.

Lemma sort_names_In : forall x l, In x (sort_names l) <-> In x l.
Proof.
  intros x l. split; intro H.
  - eapply Permutation_in; [apply sort_names_perm | exact H].
  - eapply Permutation_in; [apply Permutation_sym; apply sort_names_perm | exact H].
Qed.

Lemma sort_names_NoDup : forall l, NoDup l -> NoDup (sort_names l).
Proof. intros l H. eapply Permutation_NoDup; [apply Permutation_sym; apply sort_names_perm | exact H]. Qed.

(* a sorted list is determined by its elements *)
Lemma sorted_perm_unique : forall l1 l2,
  StronglySorted nle l1 -> StronglySorted nle l2 -> Permutation l1 l2 -> l1 = l2.
Proof.
  induction l1 as [|x l1 IH]; intros l2 H1 H2 P.
  - apply Permutation_nil in P. congruence.
  - destruct l2 as [|y l2]; [apply Permutation_sym, Permutation_nil in P; discriminate|].
    inversion H1 as [|? ? Hs1 Ha1]; subst. inversion H2 as [|? ? Hs2 Ha2]; subst.
    assert (x = y) as ->.
    { assert (In x (y :: l2)) as Hx by (eapply Permutation_in; [exact P | left; reflexivity]).
      assert (In y (x :: l1)) as Hy by (eapply Permutation_in; [apply Permutation_sym; exact P | left; reflexivity]).
      destruct Hx as [->|Hx]; [reflexivity|]. destruct Hy as [->|Hy]; [reflexivity|].
      rewrite Forall_forall in Ha1, Ha2. apply name_leb_antisym; [apply Ha1; exact Hy | apply Ha2; exact Hx]. }
    f_equal. apply IH; try assumption. eapply Permutation_cons_inv. exact P.
Qed.

(* the HashSet iteration order of the glyph names does not matter *)
Lemma sort_names_perm_invariant : forall l1 l2, Permutation l1 l2 -> sort_names l1 = sort_names l2.
Proof.
  intros l1 l2 P. apply sorted_perm_unique; try apply sort_names_sorted.
  eapply perm_trans; [apply sort_names_perm|]. eapply perm_trans; [exact P|].
  apply Permutation_sym. apply sort_names_perm.
Qed.

(* ------------------------------------------------------------------ IndexSet *)
(* first occurrences, skipping what is already present *)
Fixpoint dedup (seen : list name) (l : list name) : list name :=
  match l with
  | [] => []
  | x :: t => if mem x seen then dedup seen t else x :: dedup (x :: seen) t
  end.

Lemma dedup_ext : forall l s1 s2, (forall x, In x s1 <-> In x s2) -> dedup s1 l = dedup s2 l.
Proof.
  induction l as [|x t IH]; intros s1 s2 H; simpl; [reflexivity|].
  rewrite (mem_ext s1 s2 H x). destruct (mem x s2); [apply IH; exact H|].
  f_equal. apply IH. intro y. simpl. rewrite H. tauto.
Qed.

Lemma iset_extend_dedup : forall xs l, iset_extend l xs = l ++ dedup l xs.
Proof.
  induction xs as [|x t IH]; intro l; unfold iset_extend in *; simpl.
  - rewrite app_nil_r. reflexivity.
  - unfold iset_insert at 2. destruct (mem x l) eqn:E.
    + apply IH.
    + rewrite IH. rewrite <- app_assoc. simpl. f_equal. f_equal.
      apply dedup_ext. intro y. rewrite in_app_iff. simpl. tauto.
Qed.

Lemma dedup_In : forall l s x, In x (dedup s l) <-> In x l /\ ~ In x s.
Proof.
  induction l as [|y t IH]; intros s x; simpl; [tauto|].
  destruct (mem y s) eqn:E.
  - rewrite IH. apply mem_In in E. split; [tauto|]. intros [[->|H] Hn]; [contradiction | tauto].
  - apply mem_false in E. simpl. rewrite IH. simpl. split.
    + intros [->|[H Hn]]; [tauto|]. split; [tauto|]. intro. apply Hn. right. assumption.
    + intros [[->|H] Hn]; [tauto|]. destruct (list_eq_dec N.eq_dec y x) as [->|Hne]; [tauto|].
      right. split; [exact H|]. intros [?|?]; [congruence | contradiction].
Qed.

Lemma dedup_NoDup : forall l s, NoDup (dedup s l).
Proof.
  induction l as [|y t IH]; intro s; simpl; [constructor|].
  destruct (mem y s); [apply IH|]. constructor; [|apply IH].
  rewrite dedup_In. simpl. tauto.
Qed.

Lemma dedup_id : forall l s, NoDup l -> (forall x, In x l -> ~ In x s) -> dedup s l = l.
Proof.
  induction l as [|y t IH]; intros s Hn Hd; simpl; [reflexivity|].
  inversion Hn; subst.
  assert (mem y s = false) as -> by (apply mem_false; apply Hd; left; reflexivity).
  f_equal. apply IH; [assumption|]. intros x Hx [->|Hs]; [contradiction|].
  eapply Hd; [right; exact Hx | exact Hs].
Qed.

Lemma iset_insert_fresh : forall l x, ~ In x l -> iset_insert l x = l ++ [x].
Proof. intros l x H. unfold iset_insert. apply mem_false in H. rewrite H. reflexivity. Qed.

Lemma iset_remove_In : forall x y l, In y (iset_remove x l) <-> In y l /\ y <> x.
Proof.
  intros x y l. unfold iset_remove. rewrite filter_In. rewrite negb_true_iff, name_eqb_neq.
  split; intros [H1 H2]; split; congruence.
Qed.

Lemma NoDup_filter {A} (f : A -> bool) l : NoDup l -> NoDup (filter f l).
Proof.
  induction 1 as [|x l Hx Hn IH]; simpl; [constructor|].
  destruct (f x); [constructor; [rewrite filter_In; tauto | exact IH] | exact IH].
Qed.

(* ------------------------------------------------------------------ decimal printing *)
Definition is_digit (c : N) : Prop := 0x30 <= c <= 0x39.

Lemma uint_chars_digits : forall u, Forall is_digit (uint_chars u).
Proof. induction u; simpl; constructor; try assumption; unfold is_digit; lia. Qed.

Lemma uint_chars_inj : forall u v, uint_chars u = uint_chars v -> u = v.
Proof.
  induction u; destruct v; simpl; intro H; try reflexivity; try discriminate;
    inversion H; f_equal; auto.
Qed.

Lemma dec_inj : forall a b, dec a = dec b -> a = b.
Proof.
  intros a b H. unfold dec in H. apply uint_chars_inj in H.
  rewrite <- (Unsigned.of_to a), <- (Unsigned.of_to b). rewrite H. reflexivity.
Qed.

Lemma suffixed_inj : forall base a b, suffixed base a = suffixed base b -> a = b.
Proof.
  intros base a b H. unfold suffixed in H. apply app_inv_head in H. inversion H. apply dec_inj. assumption.
Qed.

Lemma suffixed_ne_notdef : forall base i, suffixed base i <> NOTDEF.
Proof.
  intros base i H. unfold suffixed, NOTDEF in H. pose proof (uint_chars_digits (N.to_uint i)) as D.
  fold (dec i) in D. destruct base as [|x b]; simpl in H.
  - inversion H as [H1]. rewrite H1 in D. inversion D as [|? ? Hd _]. unfold is_digit in Hd. lia.
  - inversion H as [[Hx Hb]].
    assert (In DOT (b ++ DOT :: dec i)) as HI by (apply in_or_app; right; left; reflexivity).
    rewrite Hb in HI. unfold DOT in HI. simpl in HI.
    repeat (destruct HI as [HI|HI]; [discriminate|]). exact HI.
Qed.

(* ------------------------------------------------------------------ first_free *)
Lemma first_free_used_prefix : forall fuel used base i,
  mem (suffixed base (first_free fuel used base i)) used = true ->
  forall k, (k < fuel)%nat -> In (suffixed base (i + N.of_nat k)) used.
Proof.
  induction fuel as [|f IH]; intros used base i H k Hk; [lia|].
  simpl in H. destruct (mem (suffixed base i) used) eqn:E.
  - destruct k as [|k].
    + rewrite N.add_0_r. apply mem_In. exact E.
    + replace (i + N.of_nat (S k)) with (N.succ i + N.of_nat k) by lia.
      apply IH; [exact H | lia].
  - congruence.
Qed.

Lemma first_free_spec : forall used base i,
  mem (suffixed base (first_free (S (length used)) used base i)) used = false.
Proof.
  intros used base i. destruct (mem _ used) eqn:E; [|reflexivity]. exfalso.
  pose proof (first_free_used_prefix _ _ _ _ E) as H.
  set (l := map (fun k => suffixed base (i + N.of_nat k)) (seq 0 (S (length used)))).
  assert (NoDup l) as Hn.
  { unfold l. apply FinFun.Injective_map_NoDup; [|apply seq_NoDup].
    intros a b Hab. apply suffixed_inj in Hab. lia. }
  assert (incl l used) as Hi.
  { intros x Hx. unfold l in Hx. apply in_map_iff in Hx as [k [<- Hk]]. apply in_seq in Hk. apply H. lia. }
  pose proof (NoDup_incl_length Hn Hi) as Hl. unfold l in Hl. rewrite map_length, seq_length in Hl. lia.
Qed.

(* with more fuel than names in use the search also succeeds (keys with repeats) *)
Lemma first_free_spec_ge : forall fuel used base i, (length used < fuel)%nat ->
  mem (suffixed base (first_free fuel used base i)) used = false.
Proof.
  intros fuel used base i Hf. destruct (mem _ used) eqn:E; [|reflexivity]. exfalso.
  pose proof (first_free_used_prefix _ _ _ _ E) as H.
  set (l := map (fun k => suffixed base (i + N.of_nat k)) (seq 0 fuel)).
  assert (NoDup l) as Hn.
  { unfold l. apply FinFun.Injective_map_NoDup; [|apply seq_NoDup].
    intros a b Hab. apply suffixed_inj in Hab. lia. }
  assert (incl l used) as Hi.
  { intros x Hx. unfold l in Hx. apply in_map_iff in Hx as [k [<- Hk]]. apply in_seq in Hk. apply H. lia. }
  pose proof (NoDup_incl_length Hn Hi) as Hl. unfold l in Hl. rewrite map_length, seq_length in Hl. lia.
Qed.

(* it is the FIRST free suffix *)
Lemma first_free_least : forall fuel used base i j,
  i <= j -> j < first_free fuel used base i -> In (suffixed base j) used.
Proof.
  induction fuel as [|f IH]; intros used base i j H1 H2; simpl in H2; [lia|].
  destruct (mem (suffixed base i) used) eqn:E; [|lia].
  destruct (N.eq_dec i j) as [->|Hne]; [apply mem_In; exact E|].
  apply (IH used base (N.succ i)); [lia | exact H2].
Qed.

Lemma first_free_ge : forall fuel used base i, i <= first_free fuel used base i.
Proof.
  induction fuel as [|f IH]; intros; simpl; [lia|].
  destruct (mem _ used); [|lia]. specialize (IH used base (N.succ i)). lia.
Qed.

Lemma name_for_derivative_fresh : forall base used, ~ In (name_for_derivative base used) used.
Proof. intros base used. apply mem_false. unfold name_for_derivative. apply first_free_spec. Qed.

(* ------------------------------------------------------------------ preliminary order *)
Lemma filter_ext_in' {A} (f g : A -> bool) l : (forall x, In x l -> f x = g x) -> filter f l = filter g l.
Proof.
  induction l as [|x t IH]; intro H; simpl; [reflexivity|].
  rewrite (H x (or_introl eq_refl)). rewrite IH; [reflexivity|]. intros y Hy. apply H. right. exact Hy.
Qed.

Lemma ufo_prelim_spec : forall declared names, NoDup names ->
  ufo_prelim declared names =
    dedup [] (filter (fun n => mem n names) declared)
    ++ sort_names (filter (fun n => negb (mem n declared)) names).
Proof.
  intros declared names Hn. unfold ufo_prelim.
  rewrite (iset_extend_dedup _ []). simpl.
  set (D := dedup [] (filter (fun n => mem n names) declared)).
  rewrite iset_extend_dedup.
  assert (filter (fun n => negb (mem n D)) names = filter (fun n => negb (mem n declared)) names) as HF.
  { apply filter_ext_in'. intros x Hx. f_equal.
    destruct (mem x declared) eqn:E.
    - apply mem_In. unfold D. rewrite dedup_In. split; [|simpl; tauto].
      apply filter_In. split; [apply mem_In; exact E | apply mem_In; exact Hx].
    - apply mem_false. unfold D. rewrite dedup_In. intros [H _]. apply filter_In in H as [H _].
      apply mem_In in H. congruence. }
  rewrite HF. f_equal. apply dedup_id.
  - apply sort_names_NoDup. apply NoDup_filter. exact Hn.
  - intros x Hx HD. apply (proj1 (sort_names_In _ _)) in Hx. apply filter_In in Hx as [_ Hx].
    apply negb_true_iff, mem_false in Hx. unfold D in HD. apply dedup_In in HD as [HD _].
    apply filter_In in HD as [HD _]. contradiction.
Qed.

Lemma glyphs_prelim_spec : forall declared file_names, NoDup file_names ->
  glyphs_prelim declared file_names =
    dedup [] (filter (fun n => mem n file_names) declared)
    ++ filter (fun n => negb (mem n declared)) file_names.
Proof.
  intros declared names Hn. unfold glyphs_prelim.
  rewrite (iset_extend_dedup _ []). simpl.
  set (D := dedup [] (filter (fun n => mem n names) declared)).
  rewrite iset_extend_dedup.
  assert (filter (fun n => negb (mem n D)) names = filter (fun n => negb (mem n declared)) names) as HF.
  { apply filter_ext_in'. intros x Hx. f_equal.
    destruct (mem x declared) eqn:E.
    - apply mem_In. unfold D. rewrite dedup_In. split; [|simpl; tauto].
      apply filter_In. split; [apply mem_In; exact E | apply mem_In; exact Hx].
    - apply mem_false. unfold D. rewrite dedup_In. intros [H _]. apply filter_In in H as [H _].
      apply mem_In in H. congruence. }
  rewrite HF. f_equal. apply dedup_id.
  - apply NoDup_filter. exact Hn.
  - intros x Hx HD. apply filter_In in Hx as [_ Hx].
    apply negb_true_iff, mem_false in Hx. unfold D in HD. apply dedup_In in HD as [HD _].
    apply filter_In in HD as [HD _]. contradiction.
Qed.

Lemma ufo_prelim_In : forall declared names x, NoDup names ->
  In x (ufo_prelim declared names) <-> In x names.
Proof.
  intros declared names x Hn. rewrite ufo_prelim_spec by exact Hn.
  rewrite in_app_iff, dedup_In, sort_names_In, !filter_In. simpl.
  rewrite negb_true_iff, mem_false, mem_In. split.
  - tauto.
  - intro H. destruct (in_dec (list_eq_dec N.eq_dec) x declared); tauto.
Qed.

Lemma NoDup_app' {A} (a b : list A) :
  NoDup a -> NoDup b -> (forall x, In x a -> ~ In x b) -> NoDup (a ++ b).
Proof.
  induction a as [|x a IH]; intros Ha Hb Hd; simpl; [exact Hb|].
  inversion Ha; subst. constructor.
  - rewrite in_app_iff. intros [H|H]; [contradiction|]. eapply Hd; [left; reflexivity | exact H].
  - apply IH; try assumption. intros y Hy. apply Hd. right. exact Hy.
Qed.

Lemma iset_extend_NoDup : forall xs l, NoDup l -> NoDup (iset_extend l xs).
Proof.
  intros xs l Hl. rewrite iset_extend_dedup. apply NoDup_app'; [exact Hl | apply dedup_NoDup|].
  intros x Hx Hd. apply dedup_In in Hd. tauto.
Qed.

Lemma ufo_prelim_NoDup : forall declared names, NoDup (ufo_prelim declared names).
Proof. intros. unfold ufo_prelim. apply iset_extend_NoDup. apply iset_extend_NoDup. constructor. Qed.

Lemma glyphs_prelim_NoDup : forall declared names, NoDup (glyphs_prelim declared names).
Proof. intros. unfold glyphs_prelim. apply iset_extend_NoDup. apply iset_extend_NoDup. constructor. Qed.

Lemma glyphs_prelim_In : forall declared names x, NoDup names ->
  In x (glyphs_prelim declared names) <-> In x names.
Proof.
  intros declared names x Hn. rewrite glyphs_prelim_spec by exact Hn.
  rewrite in_app_iff, dedup_In, !filter_In. simpl.
  rewrite negb_true_iff, mem_false, mem_In. split.
  - tauto.
  - intro H. destruct (in_dec (list_eq_dec N.eq_dec) x declared); tauto.
Qed.

(* ------------------------------------------------------------------ the glyph context *)
Lemma lookup_name : forall c n g, lookup c n = Some g -> g_name g = n.
Proof.
  induction c as [|h t IH]; intros n g H; simpl in H; [discriminate|].
  destruct (name_eqb (g_name h) n) eqn:E.
  - inversion H; subst. apply name_eqb_eq. exact E.
  - apply IH. exact H.
Qed.

Lemma lookup_ctx_set : forall c g n,
  lookup (ctx_set c g) n = if name_eqb (g_name g) n then Some g else lookup c n.
Proof.
  induction c as [|h t IH]; intros g n; simpl; [reflexivity|].
  destruct (name_eqb (g_name h) (g_name g)) eqn:E; simpl.
  - apply name_eqb_eq in E. rewrite E. destruct (name_eqb (g_name g) n); reflexivity.
  - rewrite IH. destruct (name_eqb (g_name h) n) eqn:E2; [|reflexivity].
    destruct (name_eqb (g_name g) n) eqn:E3; [|reflexivity].
    apply name_eqb_eq in E2, E3. rewrite <- E3 in E2. rewrite E2, name_eqb_refl in E. discriminate.
Qed.

Lemma lookup_In : forall c n g, lookup c n = Some g -> In g c.
Proof.
  induction c as [|h t IH]; intros n g H; simpl in H; [discriminate|].
  destruct (name_eqb (g_name h) n); [inversion H; left; reflexivity | right; eapply IH; exact H].
Qed.

Lemma lookup_Some_iff : forall c n, (exists g, lookup c n = Some g) <-> In n (map g_name c).
Proof.
  induction c as [|h t IH]; intro n; simpl.
  - split; [intros [g H]; discriminate | intros []].
  - destruct (name_eqb (g_name h) n) eqn:E.
    + apply name_eqb_eq in E. split; [intros _; left; exact E | intros _; eexists; reflexivity].
    + apply name_eqb_neq in E. rewrite IH. tauto.
Qed.

Lemma lookup_map : forall (f : glyph -> glyph) c n,
  (forall g, g_name (f g) = g_name g) -> lookup (map f c) n = option_map f (lookup c n).
Proof.
  intros f c n Hf. induction c as [|h t IH]; simpl; [reflexivity|].
  rewrite Hf. destruct (name_eqb (g_name h) n); [reflexivity | exact IH].
Qed.

(* export flags never change *)
Definition expo (c : ctx) (n : name) : option bool := option_map g_export (lookup c n).
Definition same_exp (c c' : ctx) : Prop := forall n, expo c' n = expo c n.

Lemma same_exp_refl : forall c, same_exp c c.
Proof. intros c n. reflexivity. Qed.

Lemma same_exp_trans : forall a b c, same_exp a b -> same_exp b c -> same_exp a c.
Proof. intros a b c H1 H2 n. rewrite H2. apply H1. Qed.

Lemma same_exp_is_export : forall c c' n, same_exp c c' -> is_export c' n = is_export c n.
Proof.
  intros c c' n H. specialize (H n). unfold expo, is_export in *.
  destruct (lookup c' n), (lookup c n); simpl in H; congruence.
Qed.

Lemma same_exp_set : forall c g, expo c (g_name g) = Some (g_export g) -> same_exp c (ctx_set c g).
Proof.
  intros c g H n. unfold expo in *. rewrite lookup_ctx_set.
  destruct (name_eqb (g_name g) n) eqn:E; [|reflexivity].
  apply name_eqb_eq in E. subst. simpl. symmetry. exact H.
Qed.

(* replacing a glyph by a variant of the glyph currently stored under that name *)
Lemma same_exp_set_lookup : forall c n g contours comps,
  lookup c n = Some g -> same_exp c (ctx_set c (with_comps g contours comps)).
Proof.
  intros c n g contours comps H. apply same_exp_set. simpl. unfold expo.
  rewrite (lookup_name _ _ _ H), H. reflexivity.
Qed.

Lemma prune_same_exp : forall c, same_exp c (prune c).
Proof.
  intros c n. unfold expo, prune. rewrite lookup_map by reflexivity.
  destruct (lookup c n); reflexivity.
Qed.

Lemma fold_same_exp : forall (step : ctx -> name -> ctx) l c0,
  (forall c n, same_exp c0 c -> same_exp c0 (step c n)) ->
  forall c, same_exp c0 c -> same_exp c0 (fold_left step l c).
Proof.
  intros step l c0 Hs. induction l as [|x t IH]; intros c Hc; simpl; [exact Hc|].
  apply IH. apply Hs. exact Hc.
Qed.

Lemma flatten_all_same_exp : forall c, same_exp c (flatten_all c).
Proof.
  intro c0. unfold flatten_all. apply fold_same_exp; [|apply same_exp_refl].
  intros c n Hc. unfold flatten_step. destruct (lookup c0 n) as [g|] eqn:L; [|exact Hc].
  destruct (has_nonexport_comp c g); [|exact Hc].
  eapply same_exp_trans; [exact Hc|]. apply same_exp_set. unfold flatten_one. simpl.
  rewrite Hc. unfold expo. rewrite (lookup_name _ _ _ L), L. reflexivity.
Qed.

(* ------------------------------------------------------------------ resolve_inconsistencies *)
(* how the derived names come about: o0 = exported glyphs in preliminary order,
   o = the order so far *)
Inductive derivation (o0 : list name) : list name -> list name -> Prop :=
| der_nil : forall o, derivation o0 o []
| der_cons : forall o base i ds,
    In base o0 ->
    ~ In (suffixed base i) o ->
    (forall j, j < i -> In (suffixed base j) o) ->
    derivation o0 (o ++ [suffixed base i]) ds ->
    derivation o0 o (suffixed base i :: ds).

Lemma derivation_fresh : forall o0 o ds, derivation o0 o ds ->
  NoDup ds /\ (forall x, In x ds -> ~ In x o).
Proof.
  induction 1 as [o | o base i ds Hb Hf Hl Hd [IH1 IH2]].
  - split; [constructor | intros x []].
  - split.
    + constructor; [|exact IH1]. intro HI. apply (IH2 _ HI). apply in_or_app. right. left. reflexivity.
    + intros x [<-|Hx]; [exact Hf|]. intro Ho. apply (IH2 _ Hx). apply in_or_app. left. exact Ho.
Qed.

Lemma derivation_suffixed : forall o0 o ds, derivation o0 o ds ->
  Forall (fun x => exists base i, In base o0 /\ x = suffixed base i) ds.
Proof.
  induction 1 as [o | o base i ds Hb Hf Hl Hd IH]; constructor; [|exact IH].
  exists base, i. split; [exact Hb | reflexivity].
Qed.

Lemma resolve_order : forall o0 fuel d todo s p s',
  Forall (fun t => In (g_name (snd t)) o0) todo ->
  resolve fuel d s p todo = Some s' ->
  exists ds, st_order s' = st_order s ++ ds /\ st_derived s' = st_derived s ++ ds /\ derivation o0 (st_order s) ds.
Proof.
  intro o0. induction fuel as [|f IH]; intros d todo s p s' Ht H.
  - destruct todo as [|[o g] rest]; simpl in H; [|discriminate].
    inversion H; subst. exists []. rewrite !app_nil_r. repeat split. constructor.
  - destruct todo as [|[o g] rest]; simpl in H.
    + inversion H; subst. exists []. rewrite !app_nil_r. repeat split. constructor.
    + inversion Ht as [|? ? Hg Hrest]; subst. simpl in Hg.
      destruct (existsb (reaches d (st_ctx s) p) (g_comps g)).
      * apply IH in H; [exact H|]. apply Forall_app. split; [exact Hrest|]. constructor; [exact Hg | constructor].
      * destruct o.
        -- apply IH in H; [exact H | exact Hrest].
        -- apply IH in H; [|exact Hrest].
           destruct H as [ds [H1 [H2 H3]]]. unfold move_contours in H1, H2, H3. simpl in H1, H2, H3.
           pose proof (name_for_derivative_fresh (g_name g) (st_order s)) as Hfresh.
           rewrite (iset_insert_fresh _ _ Hfresh) in H1, H3.
           exists (name_for_derivative (g_name g) (st_order s) :: ds).
           rewrite <- app_assoc in H1, H2. simpl in H1, H2. repeat split; try assumption.
           unfold name_for_derivative in *. apply der_cons; try assumption.
           intros j Hj. eapply first_free_least; [|exact Hj]. lia.
Qed.

Lemma todo_of_names : forall ps snap order,
  Forall (fun t => In (g_name (snd t)) order) (todo_of ps snap order).
Proof.
  intros ps snap order. unfold todo_of. apply Forall_forall. intros t Ht.
  apply in_flat_map in Ht as [n [Hn Ht]]. destruct (lookup snap n) as [g|] eqn:L; [|destruct Ht].
  destruct (is_mixed g); [|destruct Ht]. destruct Ht as [<-|[]]. simpl.
  rewrite (lookup_name _ _ _ L). exact Hn.
Qed.

(* ------------------------------------------------------------------ GlyphOrderWork::exec: the order *)
Lemma notdef_first_spec : forall l, notdef_first l = NOTDEF :: filter (fun y => negb (name_eqb NOTDEF y)) l.
Proof. reflexivity. Qed.

Lemma gow_order : forall fl prelim gs r,
  glyph_order_work fl prelim gs = Some r ->
  r_order r = notdef_first (filter (is_export gs) prelim ++ r_derived r) /\
  derivation (filter (is_export gs) prelim) (filter (is_export gs) prelim) (r_derived r).
Proof.
  intros fl prelim gs r H. unfold glyph_order_work in H.
  set (c1 := flatten_all (prune gs)) in *.
  assert (same_exp gs c1) as Hexp.
  { eapply same_exp_trans; [apply prune_same_exp | apply flatten_all_same_exp]. }
  assert (filter (is_export c1) prelim = filter (is_export gs) prelim) as Hf.
  { apply filter_ext_in'. intros x _. apply same_exp_is_export. exact Hexp. }
  rewrite Hf in H. set (order3 := filter (is_export gs) prelim) in *.
  match type of H with match ?R with _ => _ end = _ => destruct R as [s|] eqn:HR end; [|discriminate].
  apply (resolve_order order3) in HR; [|simpl; apply todo_of_names].
  destruct HR as [ds [H1 [H2 H3]]]. simpl in H1, H2, H3.
  unfold ensure_notdef in H. injection H as Hr. rewrite <- Hr. simpl. rewrite H1, H2. split; [reflexivity | exact H3].
Qed.

(* ------------------------------------------------------------------ shape of the final order *)
Definition keep (gs : ctx) (n : name) : bool := is_export gs n && negb (name_eqb n NOTDEF).

Lemma filter_filter {A} (f g : A -> bool) l :
  filter f (filter g l) = filter (fun x => g x && f x) l.
Proof.
  induction l as [|x t IH]; simpl; [reflexivity|].
  destruct (g x); simpl; [destruct (f x); rewrite IH; reflexivity | exact IH].
Qed.

Lemma filter_id {A} (f : A -> bool) l : (forall x, In x l -> f x = true) -> filter f l = l.
Proof.
  induction l as [|x t IH]; intro H; simpl; [reflexivity|].
  rewrite (H x (or_introl eq_refl)). f_equal. apply IH. intros y Hy. apply H. right. exact Hy.
Qed.

Lemma final_order_shape : forall fl prelim gs r,
  glyph_order_work fl prelim gs = Some r ->
  r_order r = NOTDEF :: filter (keep gs) prelim ++ r_derived r.
Proof.
  intros fl prelim gs r H. destruct (gow_order _ _ _ _ H) as [Ho Hd].
  rewrite Ho, notdef_first_spec. f_equal. rewrite filter_app. f_equal.
  - rewrite filter_filter. apply filter_ext_in'. intros x _. unfold keep.
    rewrite (name_eqb_sym NOTDEF x). reflexivity.
  - apply filter_id. intros x Hx. apply negb_true_iff, name_eqb_neq.
    apply derivation_suffixed in Hd. rewrite Forall_forall in Hd.
    destruct (Hd x Hx) as [b [i [_ ->]]]. intro E. symmetry in E. exact (suffixed_ne_notdef _ _ E).
Qed.

Lemma final_order_NoDup : forall fl prelim gs r,
  NoDup prelim -> glyph_order_work fl prelim gs = Some r -> NoDup (r_order r).
Proof.
  intros fl prelim gs r Hn H. rewrite (final_order_shape _ _ _ _ H).
  destruct (gow_order _ _ _ _ H) as [_ Hd]. pose proof (derivation_fresh _ _ _ Hd) as [Hd1 Hd2].
  pose proof (derivation_suffixed _ _ _ Hd) as Hs. rewrite Forall_forall in Hs.
  constructor.
  - rewrite in_app_iff, filter_In. unfold keep. intros [[_ Hk]|Hk].
    + rewrite name_eqb_refl in Hk. rewrite andb_false_r in Hk. discriminate.
    + destruct (Hs _ Hk) as [b [i [_ E]]]. symmetry in E. exact (suffixed_ne_notdef _ _ E).
  - apply NoDup_app'; [apply NoDup_filter; exact Hn | exact Hd1|].
    intros x Hx Hdx. apply (Hd2 _ Hdx). apply filter_In in Hx as [Hx Hk]. apply filter_In.
    split; [exact Hx|]. unfold keep in Hk. apply andb_true_iff in Hk. tauto.
Qed.

Lemma final_order_In : forall fl prelim gs r n,
  glyph_order_work fl prelim gs = Some r ->
  (In n (r_order r) <->
   n = NOTDEF \/ (In n prelim /\ is_export gs n = true /\ n <> NOTDEF) \/ In n (r_derived r)).
Proof.
  intros fl prelim gs r n H. rewrite (final_order_shape _ _ _ _ H). simpl.
  rewrite in_app_iff, filter_In. unfold keep. rewrite andb_true_iff, negb_true_iff, name_eqb_neq.
  split; [intros [<-|[?|?]] | intros [->|[?|?]]]; tauto.
Qed.

(* ------------------------------------------------------------------ post names *)
Lemma assoc_None_keys {V} : forall (m : list (name * V)) k, assoc m k = None <-> ~ In k (keys m).
Proof.
  induction m as [|[k' v] t IH]; intro k; simpl; [tauto|].
  destruct (name_eqb k' k) eqn:E.
  - apply name_eqb_eq in E. split; [discriminate | intro H; exfalso; apply H; left; exact E].
  - apply name_eqb_neq in E. rewrite IH. tauto.
Qed.

Lemma post_go_spec : forall rename order seen,
  length (post_names_go rename seen order) = length order /\
  NoDup (post_names_go rename seen order) /\
  (forall x, In x (post_names_go rename seen order) -> ~ In x (keys seen)).
Proof.
  intros rename. induction order as [|g t IH]; intro seen; cbn [post_names_go]; cbv zeta.
  - repeat split; [constructor | intros x []].
  - match goal with |- context [filter is_ps_char ?X] => set (nm := filter is_ps_char X) end.
    destruct (assoc seen nm) as [n|] eqn:A.
    + set (n' := first_free (S (length seen)) (keys seen) nm n).
      assert (~ In (suffixed nm n') (keys seen)) as Hfree.
      { apply mem_false. apply first_free_spec_ge. unfold keys. rewrite map_length. lia. }
      destruct (IH ((suffixed nm n', 1) :: (nm, N.succ n') :: seen)) as [IH1 [IH2 IH3]].
      simpl in IH3. repeat split.
      * cbn [length]. rewrite IH1. reflexivity.
      * constructor; [|exact IH2]. intro HI. apply (IH3 _ HI). left. reflexivity.
      * intros x [<-|Hx]; [exact Hfree|]. intro Hk. apply (IH3 _ Hx). right. right. exact Hk.
    + apply assoc_None_keys in A.
      destruct (IH ((nm, 1) :: seen)) as [IH1 [IH2 IH3]]. simpl in IH3. repeat split.
      * cbn [length]. rewrite IH1. reflexivity.
      * constructor; [|exact IH2]. intro HI. apply (IH3 _ HI). left. reflexivity.
      * intros x [<-|Hx]; [exact A|]. intro Hk. apply (IH3 _ Hx). right. exact Hk.
Qed.

Lemma post_names_one_to_one : forall rename order, NoDup order ->
  length (post_names rename order) = length order /\ NoDup (post_names rename order).
Proof.
  intros [m|] order Hn; simpl.
  - destruct (post_go_spec m order []) as [H1 [H2 _]]. split; assumption.
  - split; [reflexivity | exact Hn].
Qed.

(* when nothing needs stripping and the renamed names are distinct, post carries exactly them *)
Lemma post_go_clean : forall rename order seen,
  let target := map (fun g => match assoc rename g with Some r => r | None => g end) order in
  Forall (fun nm => forallb is_ps_char nm = true) target ->
  NoDup target -> (forall x, In x target -> ~ In x (keys seen)) ->
  post_names_go rename seen order = target.
Proof.
  intros rename. induction order as [|g t IH]; intros seen target Hc Hn Hs; [reflexivity|].
  subst target. simpl in *. inversion Hc as [|? ? Hc1 Hc2]; subst. inversion Hn as [|? ? Hn1 Hn2]; subst.
  set (raw := match assoc rename g with Some r => r | None => g end) in *.
  assert (filter is_ps_char raw = raw) as ->.
  { apply filter_id. rewrite forallb_forall in Hc1. exact Hc1. }
  assert (assoc seen raw = None) as -> by (apply assoc_None_keys; apply Hs; left; reflexivity).
  f_equal. apply IH; try assumption. intros x Hx [<-|Hk]; [contradiction|].
  eapply Hs; [right; exact Hx | exact Hk].
Qed.

(* ------------------------------------------------------------------ cmap *)
Lemma pair_eqb_eq : forall a b, pair_eqb a b = true <-> a = b.
Proof.
  intros [a1 a2] [b1 b2]. unfold pair_eqb. simpl. rewrite andb_true_iff, !N.eqb_eq.
  split; [intros [-> ->]; reflexivity | intro H; inversion H; tauto].
Qed.

Lemma pinsert_In : forall x y l, In y (pinsert x l) <-> y = x \/ In y l.
Proof.
  intros x y l. induction l as [|z t IH]; simpl; [intuition congruence|].
  destruct (pair_eqb x z) eqn:E.
  - apply pair_eqb_eq in E. subst. simpl. intuition congruence.
  - destruct (pair_leb x z); simpl; [intuition congruence|]. rewrite IH. intuition congruence.
Qed.

Lemma sort_dedup_In : forall y l, In y (sort_dedup l) <-> In y l.
Proof.
  intros y l. induction l as [|x t IH]; simpl; [tauto|]. rewrite pinsert_In, IH. split; intros [?|?]; auto.
Qed.


Lemma cmap_conflict_false : forall ms, cmap_conflict ms = false ->
  forall c g1 g2, In (c, g1) ms -> In (c, g2) ms -> g1 = g2.
Proof.
  intros ms H c g1 g2 H1 H2. unfold cmap_conflict in H.
  destruct (N.eq_dec g1 g2) as [|Hne]; [assumption|]. exfalso.
  assert (existsb (fun a => existsb (fun b => (fst a =? fst b) && negb (snd a =? snd b)) ms) ms = true) as Ht.
  { apply existsb_exists. exists (c, g1). split; [exact H1|]. apply existsb_exists. exists (c, g2).
    split; [exact H2|]. simpl. rewrite N.eqb_refl. simpl. apply negb_true_iff. apply N.eqb_neq. exact Hne. }
  congruence.
Qed.

Lemma cmap_conflict_true : forall ms, cmap_conflict ms = true ->
  exists c g1 g2, In (c, g1) ms /\ In (c, g2) ms /\ g1 <> g2.
Proof.
  intros ms H. unfold cmap_conflict in H. apply existsb_exists in H as [[c1 g1] [H1 H]].
  apply existsb_exists in H as [[c2 g2] [H2 H]]. simpl in H. apply andb_true_iff in H as [Hc Hg].
  apply N.eqb_eq in Hc. subst. apply negb_true_iff, N.eqb_neq in Hg. exists c2, g1, g2. tauto.
Qed.

Lemma cmap_build_spec : forall ms cm, cmap_build ms = Some cm ->
  (forall p, In p cm <-> In p ms) /\
  (forall c g1 g2, In (c, g1) cm -> In (c, g2) cm -> g1 = g2).
Proof.
  intros ms cm H. unfold cmap_build in H. destruct (cmap_conflict ms) eqn:E; [discriminate|].
  inversion H; subst. split; [intro p; apply sort_dedup_In|].
  intros c g1 g2 H1 H2. apply (proj1 (sort_dedup_In _ _)) in H1. apply (proj1 (sort_dedup_In _ _)) in H2.
  eapply cmap_conflict_false; eassumption.
Qed.

Lemma cmap_build_none : forall ms, cmap_build ms = None <->
  exists c g1 g2, In (c, g1) ms /\ In (c, g2) ms /\ g1 <> g2.
Proof.
  intros ms. unfold cmap_build. destruct (cmap_conflict ms) eqn:E.
  - split; [intros _; apply cmap_conflict_true; exact E | reflexivity].
  - split; [discriminate|]. intros [c [g1 [g2 [H1 [H2 Hne]]]]]. exfalso. apply Hne.
    eapply cmap_conflict_false; eassumption.
Qed.

Lemma with_gids_In : forall order k i n,
  In (i, n) (with_gids k order) <-> exists j, nth_error order j = Some n /\ i = k + N.of_nat j.
Proof.
  induction order as [|x t IH]; intros k i n; simpl.
  - split; [intros [] | intros [[|j] [H _]]; discriminate].
  - rewrite IH. split.
    + intros [H|[j [H1 H2]]].
      * inversion H; subst. exists 0%nat. split; [reflexivity | lia].
      * exists (S j). split; [exact H1 | lia].
    + intros [[|j] [H1 H2]]; simpl in H1.
      * left. inversion H1; subst. f_equal. lia.
      * right. exists j. split; [exact H1 | lia].
Qed.

Lemma cmap_mappings_In : forall order c cp g,
  In (cp, g) (cmap_mappings order c) <->
  exists j n gl, nth_error order j = Some n /\ g = N.of_nat j /\ lookup c n = Some gl /\ In cp (g_cps gl).
Proof.
  intros order c cp g. unfold cmap_mappings. rewrite in_flat_map. split.
  - intros [[i n] [Hin H]]. simpl in H. apply with_gids_In in Hin as [j [Hj Hi]].
    destruct (lookup c n) as [gl|] eqn:L; [|destruct H].
    apply in_map_iff in H as [cp' [E Hcp]]. inversion E; subst.
    exists j, n, gl. repeat split; try assumption; try lia.
  - intros [j [n [gl [Hj [-> [L Hcp]]]]]]. exists (N.of_nat j, n). split.
    + apply with_gids_In. exists j. split; [exact Hj | lia].
    + simpl. rewrite L. apply in_map_iff. exists cp. split; [reflexivity | exact Hcp].
Qed.

(* ------------------------------------------------------------------ backend jobs *)
Lemma be_missing_nil : forall prelim gs final,
  be_missing prelim gs final = [] <->
  (forall n, In n final -> In n prelim -> is_export gs n = true).
Proof.
  intros prelim gs final. unfold be_missing. split.
  - intros H n Hf Hp. destruct (is_export gs n) eqn:E; [reflexivity|]. exfalso.
    assert (In n (filter (fun n => mem n prelim && negb (is_export gs n)) final)) as HI.
    { apply filter_In. split; [exact Hf|]. rewrite E. simpl. rewrite andb_true_r. apply mem_In. exact Hp. }
    rewrite H in HI. destruct HI.
  - intro H. destruct (filter _ final) as [|x t] eqn:E; [reflexivity|]. exfalso.
    assert (In x (filter (fun n => mem n prelim && negb (is_export gs n)) final)) as HI by (rewrite E; left; reflexivity).
    apply filter_In in HI as [Hf Hc]. apply andb_true_iff in Hc as [Hp He]. apply mem_In in Hp.
    rewrite (H x Hf Hp) in He. discriminate.
Qed.

(* ------------------------------------------------------------------ UFO / Glyphs front ends *)
Lemma filter_perm {A} (f : A -> bool) l1 l2 : Permutation l1 l2 -> Permutation (filter f l1) (filter f l2).
Proof.
  induction 1 as [|x l1 l2 P IH|x y l|l1 l2 l3 P1 IH1 P2 IH2]; simpl.
  - constructor.
  - destruct (f x); [constructor|]; exact IH.
  - destruct (f x), (f y); try apply Permutation_refl. apply perm_swap.
  - eapply perm_trans; eassumption.
Qed.

Lemma ufo_prelim_perm_invariant : forall declared names names',
  NoDup names -> Permutation names names' ->
  ufo_prelim declared names = ufo_prelim declared names'.
Proof.
  intros declared names names' Hn P.
  assert (NoDup names') as Hn' by (eapply Permutation_NoDup; eassumption).
  rewrite !ufo_prelim_spec by assumption. f_equal.
  - f_equal. apply filter_ext_in'. intros x _. apply mem_ext. intro y.
    split; intro H; [eapply Permutation_in; eassumption | eapply Permutation_in; [apply Permutation_sym|]; eassumption].
  - apply sort_names_perm_invariant. apply filter_perm. exact P.
Qed.

Lemma ufo_final_order : forall fl declared gs r,
  NoDup (map g_name gs) ->
  ufo_compile fl declared gs = Some r ->
  r_order r = NOTDEF
     :: filter (keep gs) (dedup [] (filter (fun n => mem n (map g_name gs)) declared))
     ++ filter (keep gs) (sort_names (filter (fun n => negb (mem n declared)) (map g_name gs)))
     ++ r_derived r.
Proof.
  intros fl declared gs r Hn H. unfold ufo_compile in H.
  rewrite (final_order_shape _ _ _ _ H). rewrite ufo_prelim_spec by exact Hn.
  rewrite filter_app, <- app_assoc. reflexivity.
Qed.

Lemma glyphs_final_order : forall fl declared gs r,
  NoDup (map g_name gs) ->
  glyphs_compile fl declared gs = Some r ->
  r_order r = NOTDEF
     :: filter (keep gs) (dedup [] (filter (fun n => mem n (map g_name gs)) declared))
     ++ filter (keep gs) (filter (fun n => negb (mem n declared)) (map g_name gs))
     ++ r_derived r.
Proof.
  intros fl declared gs r Hn H. unfold glyphs_compile in H.
  rewrite (final_order_shape _ _ _ _ H). rewrite glyphs_prelim_spec by exact Hn.
  rewrite filter_app, <- app_assoc. reflexivity.
Qed.

Lemma is_export_lookup : forall gs n g, lookup gs n = Some g -> is_export gs n = g_export g.
Proof. intros gs n g H. unfold is_export. rewrite H. reflexivity. Qed.

(* outside the failing class no backend job is missing *)
Lemma no_missing_job_outside : forall fl prelim gs r,
  (forall n, In n prelim -> In n (map g_name gs)) ->
  glyph_order_work fl prelim gs = Some r ->
  (forall n g, lookup gs n = Some g -> g_export g = false ->
     n <> NOTDEF /\ forall b i, is_export gs b = true -> In b (map g_name gs) -> n <> suffixed b i) ->
  be_missing prelim gs (r_order r) = [].
Proof.
  intros fl prelim gs r Hsub H Hcls. apply be_missing_nil. intros n Hf Hp.
  pose proof (Hsub _ Hp) as Hnm. apply lookup_Some_iff in Hnm as [g L].
  rewrite (is_export_lookup _ _ _ L). destruct (g_export g) eqn:E; [reflexivity|]. exfalso.
  destruct (Hcls _ _ L E) as [Hnd Hsf].
  apply (final_order_In _ _ _ _ n H) in Hf. destruct Hf as [->|[[_ [He _]]|Hd]].
  - apply Hnd. reflexivity.
  - rewrite (is_export_lookup _ _ _ L) in He. congruence.
  - destruct (gow_order _ _ _ _ H) as [_ Hder]. apply derivation_suffixed in Hder.
    rewrite Forall_forall in Hder. destruct (Hder _ Hd) as [b [i [Hb ->]]].
    apply filter_In in Hb as [Hb1 Hb2]. exact (Hsf b i Hb2 (Hsub _ Hb1) eq_refl).
Qed.

(* a font came out: no glyph the source marks non-export is in the glyph set *)
Lemma nonexport_not_in_order : forall fl prelim gs r cm,
  (forall n, In n (map g_name gs) -> In n prelim) ->
  compile fl prelim gs = Font r cm ->
  forall n g, lookup gs n = Some g -> g_export g = false -> ~ In n (r_order r).
Proof.
  intros fl prelim gs r cm Hsup H n g L E Hin. unfold compile in H.
  destruct (glyph_order_work fl prelim gs) as [r'|] eqn:HG; [|discriminate].
  destruct (be_missing prelim gs (r_order r')) eqn:HB; destruct (cmap_of r'); try discriminate.
  inversion H; subst. rewrite be_missing_nil in HB.
  assert (In n prelim) as Hp by (apply Hsup; apply lookup_Some_iff; eexists; exact L).
  specialize (HB n Hin Hp). rewrite (is_export_lookup _ _ _ L) in HB. congruence.
Qed.

(* ------------------------------------------------------------------ code points survive *)
Section SameOn.
  Context {A : Type} (f : glyph -> A).
  Hypothesis f_with_comps : forall g a b, f (with_comps g a b) = f g.

  Definition at_ (c : ctx) (n : name) : option A := option_map f (lookup c n).
  Definition same_on (c c' : ctx) : Prop := forall n, at_ c' n = at_ c n.

  Lemma at_set : forall c g n, at_ (ctx_set c g) n = if name_eqb (g_name g) n then Some (f g) else at_ c n.
  Proof. intros c g n. unfold at_. rewrite lookup_ctx_set. destruct (name_eqb (g_name g) n); reflexivity. Qed.

  Lemma same_on_refl : forall c, same_on c c.
  Proof. intros c n. reflexivity. Qed.

  Lemma same_on_trans : forall a b c, same_on a b -> same_on b c -> same_on a c.
  Proof. intros a b c H1 H2 n. rewrite H2. apply H1. Qed.

  Lemma same_on_set : forall c g, at_ c (g_name g) = Some (f g) -> same_on c (ctx_set c g).
  Proof.
    intros c g H n. rewrite at_set. destruct (name_eqb (g_name g) n) eqn:E; [|reflexivity].
    apply name_eqb_eq in E. subst. symmetry. exact H.
  Qed.

  Lemma same_on_set_lookup : forall c n g a b,
    lookup c n = Some g -> same_on c (ctx_set c (with_comps g a b)).
  Proof.
    intros c n g a b H. apply same_on_set. rewrite f_with_comps. simpl. unfold at_.
    rewrite (lookup_name _ _ _ H), H. reflexivity.
  Qed.

  Lemma prune_same_on : forall c, same_on c (prune c).
  Proof.
    intros c n. unfold at_, prune. rewrite lookup_map by reflexivity.
    destruct (lookup c n); simpl; [rewrite f_with_comps|]; reflexivity.
  Qed.

  Lemma fold_same_on : forall (step : ctx -> name -> ctx) l c0,
    (forall c n, same_on c0 c -> same_on c0 (step c n)) ->
    forall c, same_on c0 c -> same_on c0 (fold_left step l c).
  Proof.
    intros step l c0 Hs. induction l as [|x t IH]; intros c Hc; simpl; [exact Hc|].
    apply IH. apply Hs. exact Hc.
  Qed.

  Lemma flatten_all_same_on : forall c, same_on c (flatten_all c).
  Proof.
    intro c0. unfold flatten_all. apply fold_same_on; [|apply same_on_refl].
    intros c n Hc. unfold flatten_step. destruct (lookup c0 n) as [g|] eqn:L; [|exact Hc].
    destruct (has_nonexport_comp c g); [|exact Hc].
    eapply same_on_trans; [exact Hc|]. apply same_on_set. unfold flatten_one. rewrite f_with_comps. simpl.
    rewrite Hc. unfold at_. rewrite (lookup_name _ _ _ L), L. reflexivity.
  Qed.

  Lemma drop_unretained_same_on : forall order c, same_on c (drop_unretained order c).
  Proof.
    intros order c0. unfold drop_unretained. apply fold_same_on; [|apply same_on_refl].
    intros c n Hc. destruct (lookup c n) as [g|] eqn:L; [|exact Hc].
    destruct (existsb _ (g_comps g)); [|exact Hc].
    eapply same_on_trans; [exact Hc|]. unfold to_contours. eapply same_on_set_lookup. exact L.
  Qed.

  Lemma optional_same_on : forall fl order c, same_on c (optional_transformations fl order c).
  Proof.
    intros fl order c0. unfold optional_transformations.
    destruct (fl_decompose fl); [|destruct (fl_flatten fl); [|apply same_on_refl]].
    - unfold decompose_all. apply fold_same_on; [|apply same_on_refl].
      intros c n Hc. destruct (lookup c n) as [g|] eqn:L; [|exact Hc].
      destruct (g_comps g); [exact Hc|].
      eapply same_on_trans; [exact Hc|]. unfold to_contours. eapply same_on_set_lookup. exact L.
    - unfold flatten_nested. apply fold_same_on; [|apply same_on_refl].
      intros c n Hc. destruct (lookup c n) as [g|] eqn:L; [|exact Hc].
      destruct (g_comps g) eqn:G; [exact Hc|].
      eapply same_on_trans; [exact Hc|]. eapply same_on_set_lookup. exact L.
  Qed.
End SameOn.

Definition cps_at := at_ g_cps.

Lemma cps_with_comps : forall g a b, g_cps (with_comps g a b) = g_cps g.
Proof. reflexivity. Qed.

Lemma resolve_cps : forall o0 c2 fuel d todo s p s',
  (forall t, In t todo -> In (g_name (snd t)) o0 /\ cps_at c2 (g_name (snd t)) = Some (g_cps (snd t))) ->
  (forall n, In n o0 -> In n (st_order s)) ->
  (forall n, In n (st_derived s) -> In n (st_order s) /\ ~ In n o0) ->
  (forall n, In n o0 -> cps_at (st_ctx s) n = cps_at c2 n) ->
  (forall n, In n (st_derived s) -> cps_at (st_ctx s) n = Some []) ->
  resolve fuel d s p todo = Some s' ->
  (forall n, In n o0 -> cps_at (st_ctx s') n = cps_at c2 n) /\
  (forall n, In n (st_derived s') -> cps_at (st_ctx s') n = Some []).
Proof.
  intros o0 c2. induction fuel as [|f IH]; intros d todo s p s' Ht Ho Hd Hi Hii H.
  - destruct todo as [|[o g] rest]; simpl in H; [|discriminate]. inversion H; subst. tauto.
  - destruct todo as [|[o g] rest]; simpl in H; [inversion H; subst; tauto|].
    destruct (Ht (o, g) (or_introl eq_refl)) as [Hg1 Hg2]. simpl in Hg1, Hg2.
    assert (forall t, In t rest -> In (g_name (snd t)) o0 /\ cps_at c2 (g_name (snd t)) = Some (g_cps (snd t))) as Hrest
      by (intros t Hin; apply Ht; right; exact Hin).
    destruct (existsb (reaches d (st_ctx s) p) (g_comps g)).
    + eapply IH; [| | | | |exact H]; try assumption.
      intros t Hin. apply in_app_or in Hin as [Hin|[<-|[]]]; [apply Hrest; exact Hin | split; assumption].
    + destruct o.
      * eapply IH; [exact Hrest| | | | |exact H]; simpl; try assumption.
        -- intros n Hn. unfold cps_at. rewrite at_set. simpl.
           destruct (name_eqb (g_name g) n) eqn:E; [|apply Hi; exact Hn].
           apply name_eqb_eq in E. subst n. symmetry. exact Hg2.
        -- intros n Hn. unfold cps_at. rewrite at_set. simpl.
           destruct (name_eqb (g_name g) n) eqn:E; [|apply Hii; exact Hn].
           apply name_eqb_eq in E. subst n. exfalso. apply (proj2 (Hd _ Hn)). exact Hg1.
      * pose proof (name_for_derivative_fresh (g_name g) (st_order s)) as Hfresh.
        set (sn := name_for_derivative (g_name g) (st_order s)) in *.
        assert (sn <> g_name g) as Hne by (intro E; apply Hfresh; rewrite E; apply Ho; exact Hg1).
        eapply IH; [exact Hrest| | | | |exact H]; unfold move_contours; fold sn; simpl.
        -- intros n Hn. rewrite (iset_insert_fresh _ _ Hfresh). apply in_or_app. left. apply Ho. exact Hn.
        -- intros n Hn. rewrite (iset_insert_fresh _ _ Hfresh). apply in_app_or in Hn as [Hn|[<-|[]]].
           ++ destruct (Hd _ Hn) as [H1 H2]. split; [apply in_or_app; left; exact H1 | exact H2].
           ++ split; [apply in_or_app; right; left; reflexivity|]. intro Hin. apply Hfresh. apply Ho. exact Hin.
        -- intros n Hn. unfold cps_at. rewrite !at_set. simpl.
           destruct (name_eqb (g_name g) n) eqn:E.
           ++ apply name_eqb_eq in E. subst n. symmetry. exact Hg2.
           ++ destruct (name_eqb sn n) eqn:E2; [|apply Hi; exact Hn].
              apply name_eqb_eq in E2. subst n. exfalso. apply Hfresh. apply Ho. exact Hn.
        -- intros n Hn. unfold cps_at. rewrite !at_set. simpl.
           apply in_app_or in Hn as [Hn|[<-|[]]].
           ++ destruct (name_eqb (g_name g) n) eqn:E.
              { apply name_eqb_eq in E. subst n. exfalso. apply (proj2 (Hd _ Hn)). exact Hg1. }
              destruct (name_eqb sn n) eqn:E2; [reflexivity|]. apply Hii. exact Hn.
           ++ destruct (name_eqb (g_name g) sn) eqn:E; [apply name_eqb_eq in E; congruence|].
              rewrite name_eqb_refl. reflexivity.
Qed.

Lemma todo_of_cps : forall ps snap order t, In t (todo_of ps snap order) ->
  In (g_name (snd t)) order /\ cps_at snap (g_name (snd t)) = Some (g_cps (snd t)).
Proof.
  intros ps snap order t Ht. unfold todo_of in Ht.
  apply in_flat_map in Ht as [n [Hn Ht]]. destruct (lookup snap n) as [g|] eqn:L; [|destruct Ht].
  destruct (is_mixed g); [|destruct Ht]. destruct Ht as [<-|[]]. simpl.
  rewrite (lookup_name _ _ _ L). split; [exact Hn|]. unfold cps_at, at_. rewrite L. reflexivity.
Qed.

(* code points in the final IR: exported source glyphs keep theirs, added glyphs have none *)
Lemma gow_cps : forall fl prelim gs r,
  glyph_order_work fl prelim gs = Some r ->
  let o0 := filter (is_export gs) prelim in
  (forall n, In n o0 -> cps_at (r_ctx r) n = cps_at gs n) /\
  (forall n, In n (r_derived r) -> cps_at (r_ctx r) n = Some []) /\
  (~ In NOTDEF o0 -> cps_at (r_ctx r) NOTDEF = Some []).
Proof.
  intros fl prelim gs r H o0. pose proof H as H0. unfold glyph_order_work in H.
  set (c1 := flatten_all (prune gs)) in *.
  assert (same_exp gs c1) as Hexp.
  { eapply same_exp_trans; [apply prune_same_exp | apply flatten_all_same_exp]. }
  assert (filter (is_export c1) prelim = o0) as Hf.
  { apply filter_ext_in'. intros x _. apply same_exp_is_export. exact Hexp. }
  rewrite Hf in H.
  assert (same_on g_cps gs c1) as Hc1.
  { eapply same_on_trans; [apply prune_same_on; exact cps_with_comps | apply flatten_all_same_on; exact cps_with_comps]. }
  set (c2 := drop_unretained o0 c1) in *.
  assert (same_on g_cps c1 c2) as Hc2 by (apply drop_unretained_same_on; exact cps_with_comps).
  match type of H with match ?R with _ => _ end = _ => destruct R as [s|] eqn:HR end; [|discriminate].
  pose proof HR as HR2. apply (resolve_order o0) in HR2; [|simpl; apply todo_of_names].
  destruct HR2 as [ds [HO [HD Hder]]]. simpl in HO, HD.
  pose proof (derivation_fresh _ _ _ Hder) as [_ Hfr].
  apply (resolve_cps o0 c2) in HR; simpl; try tauto.
  2:{ intros t Ht. destruct (todo_of_cps _ _ _ _ Ht) as [T1 T2]. split; [exact T1|].
      unfold cps_at. rewrite Hc2. exact T2. }
  destruct HR as [R1 R2].
  unfold ensure_notdef in H. injection H as Hr. rewrite <- Hr. simpl.
  set (c3 := optional_transformations fl (st_order s) (st_ctx s)).
  assert (same_on g_cps (st_ctx s) c3) as Hc3 by (apply optional_same_on; exact cps_with_comps).
  assert (forall n, n <> NOTDEF ->
            cps_at (if mem NOTDEF (st_order s) then c3 else ctx_set c3 synthetic_notdef) n = cps_at (st_ctx s) n) as Hfin.
  { intros n Hn. destruct (mem NOTDEF (st_order s)); [apply Hc3|].
    unfold cps_at. rewrite at_set. change (g_name synthetic_notdef) with NOTDEF.
    destruct (name_eqb NOTDEF n) eqn:E; [apply name_eqb_eq in E; congruence | apply Hc3]. }
  assert (forall n, In n (st_order s) ->
            cps_at (if mem NOTDEF (st_order s) then c3 else ctx_set c3 synthetic_notdef) n = cps_at (st_ctx s) n) as Hfin2.
  { intros n Hn. destruct (list_eq_dec N.eq_dec n NOTDEF) as [->|Hne]; [|apply Hfin; exact Hne].
    apply mem_In in Hn. rewrite Hn. apply Hc3. }
  split; [|split].
  - intros n Hn. rewrite Hfin2 by (rewrite HO; apply in_or_app; left; exact Hn).
    rewrite (R1 _ Hn). unfold cps_at. rewrite Hc2, Hc1. reflexivity.
  - intros n Hn. rewrite HD in *. rewrite Hfin2 by (rewrite HO; apply in_or_app; right; exact Hn).
    apply R2. exact Hn.
  - intro Hno. assert (mem NOTDEF (st_order s) = false) as ->.
    { apply mem_false. rewrite HO. intro Hin. apply in_app_or in Hin as [Hin|Hin]; [contradiction|].
      apply derivation_suffixed in Hder. rewrite Forall_forall in Hder.
      destruct (Hder _ Hin) as [b [i [_ E]]]. symmetry in E. exact (suffixed_ne_notdef _ _ E). }
    unfold cps_at. rewrite at_set. change (g_name synthetic_notdef) with NOTDEF. rewrite name_eqb_refl. reflexivity.
Qed.

Lemma cps_at_Some : forall c n l, cps_at c n = Some l <-> exists g, lookup c n = Some g /\ g_cps g = l.
Proof.
  intros c n l. unfold cps_at, at_. destruct (lookup c n) as [g|]; simpl.
  - split; [intro H; inversion H; eauto | intros [g' [H1 H2]]; inversion H1; subst; reflexivity].
  - split; [discriminate | intros [g' [H1 _]]; discriminate].
Qed.

(* cmap against the SOURCE: c -> g iff glyph g of the final order is an exported source glyph carrying c *)
Lemma cmap_source : forall fl prelim gs r cm,
  (forall n, In n (map g_name gs) -> In n prelim) ->
  compile fl prelim gs = Font r cm ->
  forall c g, In (c, g) cm <->
    exists j n gl, nth_error (r_order r) j = Some n /\ g = N.of_nat j /\
                   lookup gs n = Some gl /\ g_export gl = true /\ In c (g_cps gl).
Proof.
  intros fl prelim gs r cm Hsup H c g. unfold compile in H.
  destruct (glyph_order_work fl prelim gs) as [r'|] eqn:HG; [|discriminate].
  destruct (be_missing prelim gs (r_order r')); destruct (cmap_of r') eqn:C; try discriminate.
  inversion H; subst. clear H. unfold cmap_of in C. destruct (cmap_build_spec _ _ C) as [H1 _].
  rewrite H1, cmap_mappings_In. destruct (gow_cps _ _ _ _ HG) as [K1 [K2 K3]].
  set (o0 := filter (is_export gs) prelim) in *.
  split.
  - intros [j [n [gl' [Hj [Hg [L Hc]]]]]].
    assert (In n o0) as Hn0.
    { destruct (in_dec (list_eq_dec N.eq_dec) n o0) as [|Hno]; [assumption|]. exfalso.
      assert (cps_at (r_ctx r) n = Some []) as Hz.
      { apply nth_error_In in Hj. apply (final_order_In _ _ _ _ n HG) in Hj.
        destruct Hj as [->|[[Hp [He _]]|Hd]]; [apply K3; exact Hno | | apply K2; exact Hd].
        exfalso. apply Hno. apply filter_In. tauto. }
      apply cps_at_Some in Hz as [g0 [L0 Hz]]. rewrite L in L0. inversion L0; subst. rewrite Hz in Hc. destruct Hc. }
    assert (cps_at gs n = Some (g_cps gl')) as Hs.
    { rewrite <- (K1 _ Hn0). apply cps_at_Some. eauto. }
    apply cps_at_Some in Hs as [gl [Lg Hcp]]. exists j, n, gl. repeat split; try assumption.
    + apply filter_In in Hn0 as [_ He]. rewrite (is_export_lookup _ _ _ Lg) in He. exact He.
    + rewrite Hcp. exact Hc.
  - intros [j [n [gl [Hj [Hg [L [He Hc]]]]]]].
    assert (In n o0) as Hn0.
    { apply filter_In. split; [apply Hsup; apply lookup_Some_iff; eauto|].
      rewrite (is_export_lookup _ _ _ L). exact He. }
    assert (cps_at (r_ctx r) n = Some (g_cps gl)) as Hs.
    { rewrite (K1 _ Hn0). apply cps_at_Some. eauto. }
    apply cps_at_Some in Hs as [gl' [L' Hcp]]. exists j, n, gl'. repeat split; try assumption.
    rewrite Hcp. exact Hc.
Qed.

(* ------------------------------------------------------------------ component depth *)
Lemma max_opt_Some : forall l m, max_opt l = Some m ->
  forall x, In x l -> exists a, x = Some a /\ (a <= m)%nat.
Proof.
  induction l as [|[a|] t IH]; intros m H x Hx; simpl in H; [destruct Hx | | discriminate H].
  destruct (max_opt t) as [b|] eqn:E; [|discriminate]. inversion H; subst.
  destruct Hx as [<-|Hx]; [exists a; split; [reflexivity | lia]|].
  destruct (IH b eq_refl x Hx) as [a' [-> Ha]]. exists a'. split; [reflexivity | lia].
Qed.

Lemma depth_lt_fuel : forall f c n d, depth f c n = Some d -> (d < f)%nat.
Proof.
  induction f as [|f IH]; intros c n d H; cbn [depth] in H; [discriminate|].
  destruct (lookup c n) as [g|]; [|discriminate]. destruct (g_comps g) as [|b cs] eqn:G.
  - inversion H. lia.
  - destruct (max_opt (map (depth f c) (b :: cs))) as [m|] eqn:M; [|simpl in H; discriminate H]. simpl in H. inversion H; subst.
    destruct (max_opt_Some _ _ M (depth f c b) (or_introl eq_refl)) as [a [Ha Hle]].
    (* m is attained by some element or is 0 *)
    assert (forall l m, max_opt l = Some m -> m = O \/ In (Some m) l) as Hatt.
    { clear. induction l as [|[a|] t IHl]; intros m H; simpl in H; [inversion H; left; reflexivity | | discriminate H].
      destruct (max_opt t) as [b|] eqn:E; [|discriminate]. inversion H; subst.
      destruct (Nat.max_spec a b) as [[_ ->]|[_ ->]].
      - destruct (IHl b eq_refl) as [->|Hin]; [left; reflexivity | right; right; exact Hin].
      - right. left. reflexivity. }
    pose proof (IH _ _ _ Ha) as Hf1.
    destruct (Hatt _ _ M) as [->|Hin]; [lia|].
    apply in_map_iff in Hin as [x [Hx _]]. apply IH in Hx. lia.
Qed.

Lemma depth_mono : forall f c n d, depth f c n = Some d -> forall f', (f <= f')%nat -> depth f' c n = Some d.
Proof.
  induction f as [|f IH]; intros c n d H f' Hf; cbn [depth] in H; [discriminate|].
  destruct f' as [|f']; [lia|]. cbn [depth].
  destruct (lookup c n) as [g|]; [|discriminate]. destruct (g_comps g) as [|b cs] eqn:G; [exact H|].
  destruct (max_opt (map (depth f c) (b :: cs))) as [m|] eqn:M; [|simpl in H; discriminate H].
  assert (map (depth f' c) (b :: cs) = map (depth f c) (b :: cs)) as ->; [|rewrite M; exact H].
  apply map_ext_in. intros x Hx.
  destruct (max_opt_Some _ _ M (depth f c x) (in_map _ _ _ Hx)) as [a [Ha _]].
  rewrite Ha. apply (IH c x a Ha). lia.
Qed.

Lemma depth_comp_lt : forall f c n g b d,
  lookup c n = Some g -> In b (g_comps g) -> depth f c n = Some d ->
  exists d', depth f c b = Some d' /\ (d' < d)%nat.
Proof.
  intros f c n g b d L Hb H. destruct f as [|f]; cbn [depth] in H; [discriminate|].
  rewrite L in H. destruct (g_comps g) as [|b0 cs] eqn:G; [destruct Hb|].
  destruct (max_opt (map (depth f c) (b0 :: cs))) as [m|] eqn:M; [|simpl in H; discriminate H]. simpl in H. inversion H; subst.
  destruct (max_opt_Some _ _ M (depth f c b) (in_map _ _ _ Hb)) as [a [Ha Hle]].
  exists a. split; [apply (depth_mono _ _ _ _ Ha); lia | lia].
Qed.

(* ------------------------------------------------------------------ flatten_all: only exported components remain *)
Lemma fold_left_flat_map {A B C} (f : A -> B -> A) (h : C -> list B) l a :
  fold_left f (flat_map h l) a = fold_left (fun a x => fold_left f (h x) a) l a.
Proof.
  revert a. induction l as [|x t IH]; intro a; simpl; [reflexivity|].
  rewrite fold_left_app. apply IH.
Qed.

Definition closed (c : ctx) : Prop :=
  forall n g b, lookup c n = Some g -> In b (g_comps g) -> exists_in c b = true.

Lemma exists_in_prune : forall c n, exists_in (prune c) n = exists_in c n.
Proof.
  intros c n. unfold exists_in, prune. rewrite lookup_map by reflexivity. destruct (lookup c n); reflexivity.
Qed.

Lemma prune_closed : forall c, closed (prune c).
Proof.
  intros c n g b L Hb. unfold prune in L. rewrite lookup_map in L by reflexivity.
  destruct (lookup c n) as [g0|]; [|discriminate]. simpl in L. inversion L; subst. simpl in Hb.
  apply filter_In in Hb as [_ Hb]. rewrite exists_in_prune. exact Hb.
Qed.

(* every component is an exported glyph that exists *)
Definition clean (c0 c : ctx) (n : name) : Prop :=
  forall g b, lookup c n = Some g -> In b (g_comps g) -> is_export c0 b = true /\ exists_in c0 b = true.

Lemma same_exp_exists_in : forall c c' n, same_exp c c' -> exists_in c' n = exists_in c n.
Proof.
  intros c c' n H. specialize (H n). unfold expo, exists_in in *.
  destruct (lookup c' n), (lookup c n); simpl in H; congruence.
Qed.

Definition dlt (c0 : ctx) (F : nat) (n : name) (d : nat) : Prop :=
  exists d', depth F c0 n = Some d' /\ (d' < d)%nat.

Lemma flatten_step_inv : forall c0 F d c n done,
  closed c0 ->
  depth F c0 n = Some d ->
  same_exp c0 c ->
  (forall m, ~ dlt c0 F m d -> ~ In m done -> lookup c m = lookup c0 m) ->
  (forall m, dlt c0 F m d \/ In m done -> clean c0 c m) ->
  ~ In n done ->
  let c' := flatten_step c0 c n in
  same_exp c0 c' /\
  (forall m, ~ dlt c0 F m d -> ~ In m (n :: done) -> lookup c' m = lookup c0 m) /\
  (forall m, dlt c0 F m d \/ In m (n :: done) -> clean c0 c' m).
Proof.
  intros c0 F d c n done Hcl Hd Hexp Hun Hcln Hnd c'. subst c'. unfold flatten_step.
  assert (~ dlt c0 F n d) as Hnlt by (intros [d' [E Hlt]]; rewrite Hd in E; inversion E; lia).
  destruct (lookup c0 n) as [g|] eqn:L.
  2:{ (* n has a depth, so it exists *)
      destruct F; simpl in Hd; [discriminate|]. rewrite L in Hd. discriminate. }
  pose proof (Hun n Hnlt Hnd) as Lc. rewrite L in Lc.
  destruct (has_nonexport_comp c g) eqn:HN.
  - set (g' := flatten_one c g).
    assert (g_name g' = n) as Hname by (unfold g', flatten_one; simpl; apply (lookup_name _ _ _ L)).
    split; [|split].
    + eapply same_exp_trans; [exact Hexp|]. apply same_exp_set. unfold g', flatten_one. simpl.
      rewrite Hexp. unfold expo. rewrite (lookup_name _ _ _ L), L. reflexivity.
    + intros m Hm Hmd. rewrite lookup_ctx_set, Hname.
      destruct (name_eqb n m) eqn:E; [apply name_eqb_eq in E; subst; exfalso; apply Hmd; left; reflexivity|].
      apply Hun; [exact Hm | intro; apply Hmd; right; assumption].
    + intros m Hm gm b Lm Hb. rewrite lookup_ctx_set, Hname in Lm.
      destruct (name_eqb n m) eqn:E.
      * inversion Lm; subst gm. clear Lm. unfold g', flatten_one in Hb. simpl in Hb.
        apply in_flat_map in Hb as [b0 [Hb0 Hb]].
        destruct (depth_comp_lt _ _ _ _ _ _ L Hb0 Hd) as [d0 [Hd0 Hlt0]].
        pose proof (Hcl _ _ _ L Hb0) as Hex0.
        destruct (lookup c b0) as [r|] eqn:Lr.
        -- destruct (g_export r) eqn:Er.
           ++ destruct Hb as [<-|[]]. split; [|exact Hex0].
              rewrite <- (same_exp_is_export _ _ b0 Hexp). unfold is_export. rewrite Lr. exact Er.
           ++ apply (Hcln b0 (or_introl (ex_intro _ d0 (conj Hd0 Hlt0))) r b Lr Hb).
        -- (* b0 exists in c0, hence in c *)
           rewrite <- (same_exp_exists_in _ _ b0 Hexp) in Hex0. unfold exists_in in Hex0. rewrite Lr in Hex0. discriminate.
      * assert (dlt c0 F m d \/ In m done) as Hm'.
        { destruct Hm as [Hm|[Hm|Hm]]; [left; exact Hm | apply name_eqb_neq in E; congruence | right; exact Hm]. }
        exact (Hcln m Hm' gm b Lm Hb).
  - split; [exact Hexp|]. split.
    + intros m Hm Hmd. apply Hun; [exact Hm | intro; apply Hmd; right; assumption].
    + intros m [Hm|[<-|Hm]]; [apply Hcln; left; exact Hm | | apply Hcln; right; exact Hm].
      intros gm b Lm Hb. rewrite Lc in Lm. inversion Lm; subst gm.
      unfold has_nonexport_comp in HN.
      assert (is_export c b = true) as He.
      { destruct (is_export c b) eqn:E; [reflexivity|]. exfalso.
        assert (existsb (fun b => negb (is_export c b)) (g_comps g) = true) as Ht
          by (apply existsb_exists; exists b; split; [exact Hb | rewrite E; reflexivity]).
        congruence. }
      rewrite (same_exp_is_export _ _ b Hexp) in He. split; [exact He | exact (Hcl _ _ _ L Hb)].
Qed.

Lemma flatten_bucket_inv : forall c0 F d bucket,
  closed c0 ->
  NoDup bucket -> (forall n, In n bucket -> depth F c0 n = Some d) ->
  forall c done,
  same_exp c0 c ->
  (forall m, ~ dlt c0 F m d -> ~ In m done -> lookup c m = lookup c0 m) ->
  (forall m, dlt c0 F m d \/ In m done -> clean c0 c m) ->
  (forall n, In n bucket -> ~ In n done) ->
  let c' := fold_left (flatten_step c0) bucket c in
  same_exp c0 c' /\
  (forall m, ~ dlt c0 F m d -> ~ In m (rev bucket ++ done) -> lookup c' m = lookup c0 m) /\
  (forall m, dlt c0 F m d \/ In m (rev bucket ++ done) -> clean c0 c' m).
Proof.
  intros c0 F d bucket Hcl. induction bucket as [|n t IH]; intros Hnd Hdep c done Hexp Hun Hcln Hdis; simpl.
  - tauto.
  - inversion Hnd as [|? ? Hn1 Hn2]; subst.
    destruct (flatten_step_inv c0 F d c n done Hcl (Hdep n (or_introl eq_refl)) Hexp Hun Hcln (Hdis n (or_introl eq_refl)))
      as [A1 [A2 A3]].
    specialize (IH Hn2 (fun m Hm => Hdep m (or_intror Hm)) (flatten_step c0 c n) (n :: done) A1 A2 A3).
    destruct IH as [B1 [B2 B3]].
    { intros m Hm [<-|Hmd]; [contradiction | exact (Hdis m (or_intror Hm) Hmd)]. }
    rewrite <- app_assoc. simpl. tauto.
Qed.

Lemma flatten_all_clean : forall c0,
  closed c0 -> NoDup (map g_name c0) ->
  forall n d, depth (S (length c0)) c0 n = Some d -> In n (map g_name c0) -> clean c0 (flatten_all c0) n.
Proof.
  intros c0 Hcl Hnd0. set (F := S (length c0)). set (ns := sort_names (map g_name c0)).
  assert (NoDup ns) as Hns by (apply sort_names_NoDup; exact Hnd0).
  unfold flatten_all, depth_order. fold F. fold ns. rewrite fold_left_flat_map.
  assert (forall k c j,
    same_exp c0 c ->
    (forall m, ~ dlt c0 F m j -> lookup c m = lookup c0 m) ->
    (forall m, dlt c0 F m j -> clean c0 c m) ->
    let c' := fold_left (fun a d => fold_left (flatten_step c0) (filter (fun n => opt_nat_eqb (depth F c0 n) d) ns) a) (seq j k) c in
    same_exp c0 c' /\ (forall m, dlt c0 F m (j + k) -> In m ns -> clean c0 c' m)) as Hmain.
  2:{ intros n d Hd Hn. destruct (Hmain F c0 O (same_exp_refl c0)) as [_ H].
      - intros m _. reflexivity.
      - intros m [d' [_ Hlt]]. lia.
      - apply H; [|apply sort_names_In; exact Hn]. exists d. split; [exact Hd|]. apply depth_lt_fuel in Hd. lia. }
  induction k as [|k IHk]; intros c j Hexp Hun Hcln; simpl.
  - split; [exact Hexp|]. intros m Hm _. apply Hcln. rewrite Nat.add_0_r in Hm. exact Hm.
  - set (bucket := filter (fun n => opt_nat_eqb (depth F c0 n) j) ns).
    assert (forall n, In n bucket <-> In n ns /\ depth F c0 n = Some j) as Hb.
    { intro n. unfold bucket. rewrite filter_In. unfold opt_nat_eqb.
      destruct (depth F c0 n) as [x|]; [rewrite Nat.eqb_eq|]; split; intros [H1 H2]; split; try assumption; try congruence; try discriminate. }
    destruct (flatten_bucket_inv c0 F j bucket Hcl (NoDup_filter _ _ Hns) (fun n Hn => proj2 (proj1 (Hb n) Hn)) c [] Hexp)
      as [B1 [B2 B3]].
    { intros m Hm _. apply Hun. exact Hm. }
    { intros m [Hm|[]]. apply Hcln. exact Hm. }
    { intros n _ []. }
    rewrite app_nil_r in B2, B3.
    specialize (IHk (fold_left (flatten_step c0) bucket c) (S j) B1).
    destruct IHk as [C1 C2].
    + intros m Hm. destruct (in_dec (list_eq_dec N.eq_dec) m bucket) as [Hin|Hnin].
      * exfalso. apply Hm. exists j. split; [apply Hb; exact Hin | lia].
      * apply B2; [|rewrite <- in_rev; exact Hnin]. intros [d' [E Hlt]]. apply Hm. exists d'. split; [exact E | lia].
    + intros m [d' [E Hlt]]. destruct (Nat.eq_dec d' j) as [->|Hne].
      * (* m has depth j: it is in the bucket iff it is a glyph name; otherwise it has no entry at all *)
        destruct (in_dec (list_eq_dec N.eq_dec) m ns) as [Hin|Hnin].
        -- apply B3. right. rewrite <- in_rev. apply Hb. split; assumption.
        -- intros g b L _. exfalso. apply Hnin. apply sort_names_In.
           assert (lookup c0 m <> None) as Hex.
           { destruct F; simpl in E; [discriminate|]. destruct (lookup c0 m); [discriminate | discriminate E]. }
           destruct (lookup c0 m) as [g0|] eqn:L0; [|congruence]. apply lookup_Some_iff. eauto.
      * apply B3. left. exists d'. split; [exact E | lia].
    + split; [exact C1|]. intros m Hm Hin. apply C2; [|exact Hin].
      replace (S j + k)%nat with (j + S k)%nat by lia. exact Hm.
Qed.

(* ------------------------------------------------------------------ components stay inside the glyph order *)
Definition comps_in (c : ctx) (o : list name) : Prop :=
  forall n g b, lookup c n = Some g -> In b (g_comps g) -> In b o.

Lemma comps_in_set : forall c o g, comps_in c o -> (forall b, In b (g_comps g) -> In b o) -> comps_in (ctx_set c g) o.
Proof.
  intros c o g Hc Hg n g0 b L Hb. rewrite lookup_ctx_set in L.
  destruct (name_eqb (g_name g) n); [inversion L; subst; apply Hg; exact Hb | eapply Hc; eassumption].
Qed.

Lemma comps_in_mono : forall c o o', comps_in c o -> incl o o' -> comps_in c o'.
Proof. intros c o o' H Hi n g b L Hb. apply Hi. eapply H; eassumption. Qed.

Lemma fold_comps_in : forall (step : ctx -> name -> ctx) o l,
  (forall c n, comps_in c o -> comps_in (step c n) o) ->
  forall c, comps_in c o -> comps_in (fold_left step l c) o.
Proof.
  intros step o l Hs. induction l as [|x t IH]; intros c Hc; simpl; [exact Hc|]. apply IH. apply Hs. exact Hc.
Qed.

Lemma drop_unretained_comps_in : forall order c o, comps_in c o -> comps_in (drop_unretained order c) o.
Proof.
  intros order c o H. unfold drop_unretained. apply fold_comps_in; [|exact H].
  intros c' n Hc. destruct (lookup c' n) as [g|]; [|exact Hc].
  destruct (existsb _ (g_comps g)); [|exact Hc]. apply comps_in_set; [exact Hc|]. intros b [].
Qed.

Lemma leaves_in : forall f c o b, comps_in c o -> In b o -> forall x, In x (leaves f c b) -> In x o.
Proof.
  induction f as [|f IH]; intros c o b Hc Hb x Hx; cbn [leaves] in Hx.
  - destruct Hx as [<-|[]]. exact Hb.
  - destruct (lookup c b) as [r|] eqn:L; [|destruct Hx as [<-|[]]; exact Hb].
    destruct (g_comps r) as [|b0 cs] eqn:G; [destruct Hx as [<-|[]]; exact Hb|].
    apply in_flat_map in Hx as [y [Hy Hx]]. eapply IH; [exact Hc | | exact Hx].
    eapply Hc; [exact L | rewrite G; exact Hy].
Qed.

Lemma optional_comps_in : forall fl order c o, comps_in c o -> comps_in (optional_transformations fl order c) o.
Proof.
  intros fl order c o H. unfold optional_transformations.
  destruct (fl_decompose fl); [|destruct (fl_flatten fl); [|exact H]].
  - unfold decompose_all. apply fold_comps_in; [|exact H].
    intros c' n Hc. destruct (lookup c' n) as [g|]; [|exact Hc]. destruct (g_comps g); [exact Hc|].
    apply comps_in_set; [exact Hc | intros b []].
  - unfold flatten_nested. apply fold_comps_in; [|exact H].
    intros c' n Hc. destruct (lookup c' n) as [g|] eqn:L; [|exact Hc]. destruct (g_comps g) as [|b0 cs] eqn:G; [exact Hc|].
    apply comps_in_set; [exact Hc|]. cbn [g_comps with_comps]. intros b Hb. apply in_flat_map in Hb as [y [Hy Hb]].
    eapply leaves_in; [exact Hc | | exact Hb]. eapply Hc; [exact L | rewrite G; exact Hy].
Qed.

Lemma resolve_comps_in : forall o0 fuel d todo s p s',
  (forall t b, In t todo -> In b (g_comps (snd t)) -> In b o0) ->
  incl o0 (st_order s) ->
  comps_in (st_ctx s) (st_order s) ->
  resolve fuel d s p todo = Some s' ->
  comps_in (st_ctx s') (st_order s').
Proof.
  intro o0. induction fuel as [|f IH]; intros d todo s p s' Ht Ho Hc H.
  - destruct todo as [|[o g] rest]; simpl in H; [|discriminate]. inversion H; subst. exact Hc.
  - destruct todo as [|[o g] rest]; simpl in H; [inversion H; subst; exact Hc|].
    assert (forall t b, In t rest -> In b (g_comps (snd t)) -> In b o0) as Hrest
      by (intros t b Hin; apply Ht; right; exact Hin).
    destruct (existsb (reaches d (st_ctx s) p) (g_comps g)).
    + eapply IH; [| | |exact H]; try assumption.
      intros t b Hin. apply in_app_or in Hin as [Hin|[<-|[]]]; [apply Hrest; exact Hin | apply Ht; left; reflexivity].
    + destruct o.
      * eapply IH; [exact Hrest| | |exact H]; simpl; [exact Ho|].
        apply comps_in_set; [exact Hc | intros b []].
      * pose proof (name_for_derivative_fresh (g_name g) (st_order s)) as Hfresh.
        eapply IH; [exact Hrest| | |exact H]; unfold move_contours; simpl; rewrite (iset_insert_fresh _ _ Hfresh).
        -- intros x Hx. apply in_or_app. left. apply Ho. exact Hx.
        -- apply comps_in_set; [apply comps_in_set|].
           ++ eapply comps_in_mono; [exact Hc|]. intros x Hx. apply in_or_app. left. exact Hx.
           ++ intros b [].
           ++ simpl. intros b Hb. apply in_app_or in Hb as [Hb|[<-|[]]].
              ** apply in_or_app. left. apply Ho. apply (Ht (Move, g) b (or_introl eq_refl) Hb).
              ** apply in_or_app. right. left. reflexivity.
Qed.

Definition acyclic (gs : ctx) : Prop :=
  forall n, In n (map g_name gs) -> depth (S (length gs)) (prune gs) n <> None.

Lemma prune_names : forall c, map g_name (prune c) = map g_name c.
Proof. intro c. unfold prune. rewrite map_map. reflexivity. Qed.

Lemma gow_comps : forall fl prelim gs r,
  NoDup (map g_name gs) -> acyclic gs ->
  (forall n, In n (map g_name gs) -> In n prelim) ->
  glyph_order_work fl prelim gs = Some r ->
  comps_in (r_ctx r) (r_order r).
Proof.
  intros fl prelim gs r Hnd Hac Hsup H. unfold glyph_order_work in H.
  set (c0 := prune gs) in *. set (c1 := flatten_all c0) in *.
  assert (same_exp gs c0) as He0 by apply prune_same_exp.
  assert (same_exp c0 c1) as He1 by apply flatten_all_same_exp.
  assert (same_exp gs c1) as Hexp by (eapply same_exp_trans; eassumption).
  assert (filter (is_export c1) prelim = filter (is_export gs) prelim) as Hf.
  { apply filter_ext_in'. intros x _. apply same_exp_is_export. exact Hexp. }
  rewrite Hf in H. set (o0 := filter (is_export gs) prelim) in *.
  assert (comps_in c1 o0) as Hc1.
  { intros n g b L Hb.
    assert (In n (map g_name c0)) as Hn.
    { apply lookup_Some_iff. pose proof (same_exp_exists_in _ _ n He1) as E. unfold exists_in in E. rewrite L in E.
      destruct (lookup c0 n); [eauto | discriminate]. }
    assert (exists d, depth (S (length c0)) c0 n = Some d) as [d Hd].
    { unfold c0 at 1. unfold prune at 1. rewrite map_length. fold c0.
      unfold c0 in Hn. rewrite prune_names in Hn. specialize (Hac n Hn). fold c0 in Hac.
      destruct (depth (S (length gs)) c0 n); [eauto | congruence]. }
    assert (NoDup (map g_name c0)) as Hnd0 by (unfold c0; rewrite prune_names; exact Hnd).
    destruct (flatten_all_clean c0 (prune_closed gs) Hnd0 n d Hd Hn g b L Hb) as [Hx1 Hx2].
    apply filter_In. split.
    - apply Hsup. rewrite (same_exp_exists_in _ _ b He0) in Hx2. unfold exists_in in Hx2.
      apply lookup_Some_iff. destruct (lookup gs b); [eauto | discriminate].
    - rewrite <- (same_exp_is_export _ _ b He0). exact Hx1. }
  set (c2 := drop_unretained o0 c1) in *.
  assert (comps_in c2 o0) as Hc2 by (apply drop_unretained_comps_in; exact Hc1).
  match type of H with match ?R with _ => _ end = _ => destruct R as [s|] eqn:HR end; [|discriminate].
  apply (resolve_comps_in o0) in HR; simpl; [| |apply incl_refl|exact Hc2].
  2:{ intros t b Ht Hb. unfold todo_of in Ht. apply in_flat_map in Ht as [n [Hn Ht]].
      destruct (lookup c1 n) as [g|] eqn:L; [|destruct Ht]. destruct (is_mixed g); [|destruct Ht].
      destruct Ht as [<-|[]]. simpl in Hb. eapply Hc1; eassumption. }
  unfold ensure_notdef in H. injection H as Hr. rewrite <- Hr. simpl.
  assert (comps_in (optional_transformations fl (st_order s) (st_ctx s)) (notdef_first (st_order s))) as Hc3.
  { eapply comps_in_mono; [apply optional_comps_in; exact HR|].
    intros x Hx. unfold notdef_first. destruct (list_eq_dec N.eq_dec x NOTDEF) as [->|Hne]; [left; reflexivity|].
    right. apply iset_remove_In. split; assumption. }
  destruct (mem NOTDEF (st_order s)); [exact Hc3|]. apply comps_in_set; [exact Hc3 | intros b []].
Qed.

Definition acyclicb (gs : ctx) : bool :=
  forallb (fun n => match depth (S (length gs)) (prune gs) n with Some _ => true | None => false end) (map g_name gs).

Lemma acyclicb_sound : forall gs, acyclicb gs = true -> acyclic gs.
Proof.
  intros gs H n Hn. unfold acyclicb in H. rewrite forallb_forall in H. specialize (H n Hn).
  destruct (depth (S (length gs)) (prune gs) n); [discriminate | discriminate H].
Qed.

Lemma compile_font_inv : forall fl prelim gs r cm,
  compile fl prelim gs = Font r cm ->
  glyph_order_work fl prelim gs = Some r /\ be_missing prelim gs (r_order r) = [] /\ cmap_of r = Some cm.
Proof.
  intros fl prelim gs r cm H. unfold compile in H.
  destruct (glyph_order_work fl prelim gs) as [r'|]; [|discriminate].
  destruct (be_missing prelim gs (r_order r')) eqn:B; destruct (cmap_of r') eqn:C; try discriminate.
  inversion H; subst. auto.
Qed.
