From Coq Require Import List NArith ZArith QArith Qabs Qround Bool Lia Lqa.
From Coq Require Import ZifyBool ZifyN.
From FV.C14 Require Import Model.
Import ListNotations.
Open Scope N_scope.
Ltac Zify.zify_post_hook ::= Z.div_mod_to_equations.

(* ------------------------------------------------------------------------ *)
(* reserved characters                                                       *)

Lemma reserved_lt_128 c : is_reserved_char c = true -> c < 128.
Proof. unfold is_reserved_char, SEP, PCT. lia. Qed.

Lemma sep_reserved : is_reserved_char SEP = true. Proof. reflexivity. Qed.
Lemma pct_reserved : is_reserved_char PCT = true. Proof. reflexivity. Qed.
Lemma dot_not_reserved : is_reserved_char DOT = false. Proof. reflexivity. Qed.

Lemma hex_digit_inj a b : a < 16 -> b < 16 -> hex_digit a = hex_digit b -> a = b.
Proof. unfold hex_digit. destruct (N.ltb_spec a 10), (N.ltb_spec b 10); lia. Qed.

Lemma hex_digit_not_sep d : d < 16 -> hex_digit d <> SEP.
Proof. unfold hex_digit, SEP. destruct (N.ltb_spec d 10); lia. Qed.

Lemma hex_digit_not_reserved d : d < 16 -> is_reserved_char (hex_digit d) = false.
Proof. unfold hex_digit, is_reserved_char, SEP, PCT. destruct (N.ltb_spec d 10); lia. Qed.

Lemma base32_not_sep d : d < 32 -> base32_char d <> SEP.
Proof. unfold base32_char, SEP. destruct (N.ltb_spec d 10); lia. Qed.

(* shape of one escaped character *)
Inductive esc_shape (c : char) : str -> Prop :=
| ES_lit : is_reserved_char c = false -> esc_shape c [c]
| ES_pct : forall h1 h2, h1 < 16 -> h2 < 16 -> esc_shape c [PCT; hex_digit h1; hex_digit h2].

Lemma esc_char_cases b c :
  (esc_char b c = [c] /\ is_reserved_char c = false /\ (b = false \/ c <> DOT))
  \/ (esc_char b c = pct_escape c /\ is_reserved_char c = true)
  \/ (esc_char b c = pct_escape DOT /\ b = true /\ c = DOT).
Proof.
  unfold esc_char. destruct b; simpl.
  - destruct (N.eqb_spec c DOT) as [->|Hne].
    + right; right. split; [reflexivity|auto].
    + destruct (is_reserved_char c) eqn:E; simpl; [right; left; auto|left; auto].
  - destruct (is_reserved_char c) eqn:E; simpl; [right; left; auto|left; auto].
Qed.

Lemma pct_escape_dot : pct_escape DOT = [PCT; 0x32; 0x45].
Proof. reflexivity. Qed.

Lemma esc_char_no_sep b c : ~ In SEP (esc_char b c).
Proof.
  destruct (esc_char_cases b c) as [(E & Hr & _)|[(E & Hr)|(E & _ & _)]]; rewrite E.
  - simpl. intros [H|[]]. subst c. rewrite sep_reserved in Hr. discriminate.
  - unfold pct_escape. pose proof (reserved_lt_128 _ Hr) as Hlt.
    simpl. intros [H|[H|[H|[]]]].
    + discriminate H.
    + revert H. apply hex_digit_not_sep. lia.
    + revert H. apply hex_digit_not_sep. lia.
  - rewrite pct_escape_dot. simpl. unfold SEP, PCT. intros [H|[H|[H|[]]]]; discriminate H.
Qed.

Lemma esc_tail_no_sep s : ~ In SEP (esc_tail s).
Proof.
  induction s as [|c t IH]; simpl; [tauto|].
  rewrite in_app_iff. intros [H|H]; [exact (esc_char_no_sep _ _ H)|exact (IH H)].
Qed.

Lemma esc_no_sep s : ~ In SEP (esc s).
Proof.
  destruct s as [|c t]; simpl; [tauto|].
  rewrite in_app_iff. intros [H|H]; [exact (esc_char_no_sep _ _ H)|exact (esc_tail_no_sep _ H)].
Qed.

(* one escaped character can be read back unambiguously *)
Lemma pct_escape_inj c c' r r' :
  c < 256 -> c' < 256 -> pct_escape c ++ r = pct_escape c' ++ r' -> c = c' /\ r = r'.
Proof.
  unfold pct_escape. simpl. intros Hc Hc' H. inversion H as [[H1 H2 H3]].
  apply hex_digit_inj in H1; [|lia|lia]. apply hex_digit_inj in H2; [|lia|lia].
  split; [lia|reflexivity].
Qed.

Lemma esc_char_inj b c c' r r' :
  esc_char b c ++ r = esc_char b c' ++ r' -> c = c' /\ r = r'.
Proof.
  intros H.
  destruct (esc_char_cases b c) as [(E & Hr & Hd)|[(E & Hr)|(E & Hb & Hc)]];
  destruct (esc_char_cases b c') as [(E' & Hr' & Hd')|[(E' & Hr')|(E' & Hb' & Hc')]];
  rewrite E, E' in H.
  - simpl in H. inversion H. auto.
  - exfalso. simpl in H. inversion H. subst c. rewrite pct_reserved in Hr. discriminate.
  - exfalso. simpl in H. inversion H. subst c. rewrite pct_reserved in Hr. discriminate.
  - exfalso. simpl in H. inversion H as [[H1 H2]]. subst c'. rewrite pct_reserved in Hr'. discriminate.
  - pose proof (reserved_lt_128 _ Hr). pose proof (reserved_lt_128 _ Hr').
    apply pct_escape_inj in H; [exact H|lia|lia].
  - exfalso. pose proof (reserved_lt_128 _ Hr).
    apply pct_escape_inj in H; [|lia|unfold DOT; lia]. destruct H as [-> _].
    rewrite dot_not_reserved in Hr. discriminate.
  - exfalso. simpl in H. inversion H as [[H1 H2]]. subst c'. rewrite pct_reserved in Hr'. discriminate.
  - exfalso. pose proof (reserved_lt_128 _ Hr').
    apply pct_escape_inj in H; [|unfold DOT; lia|lia]. destruct H as [<- _].
    rewrite dot_not_reserved in Hr'. discriminate.
  - subst. apply pct_escape_inj in H; [|unfold DOT; lia|unfold DOT; lia]. tauto.
Qed.

Lemma esc_char_nonempty b c : esc_char b c <> [].
Proof.
  destruct (esc_char_cases b c) as [(E & _)|[(E & _)|(E & _)]]; rewrite E; discriminate.
Qed.

Lemma esc_tail_inj s s' : esc_tail s = esc_tail s' -> s = s'.
Proof.
  revert s'. induction s as [|c t IH]; intros [|c' t'] H; simpl in H.
  - reflexivity.
  - exfalso. symmetry in H. apply app_eq_nil in H as [H _]. exact (esc_char_nonempty _ _ H).
  - exfalso. apply app_eq_nil in H as [H _]. exact (esc_char_nonempty _ _ H).
  - apply esc_char_inj in H as [-> H]. f_equal. apply IH. exact H.
Qed.

Lemma esc_inj s s' : esc s = esc s' -> s = s'.
Proof.
  destruct s as [|c t], s' as [|c' t']; simpl; intro H.
  - reflexivity.
  - exfalso. symmetry in H. apply app_eq_nil in H as [H _]. exact (esc_char_nonempty _ _ H).
  - exfalso. apply app_eq_nil in H as [H _]. exact (esc_char_nonempty _ _ H).
  - apply esc_char_inj in H as [-> H]. f_equal. apply esc_tail_inj. exact H.
Qed.

(* the tail part is empty or starts with the separator *)
Lemma tail_part_shape s : tail_part s = [] \/ exists r, tail_part s = SEP :: r.
Proof. unfold tail_part. destruct (code_digits s); [left|right; eexists]; reflexivity. Qed.

Lemma split_at_sep (a a' t t' : str) :
  ~ In SEP a -> ~ In SEP a' ->
  (t = [] \/ exists r, t = SEP :: r) -> (t' = [] \/ exists r, t' = SEP :: r) ->
  a ++ t = a' ++ t' -> a = a' /\ t = t'.
Proof.
  revert a'. induction a as [|x a IH]; intros [|y a'] Ha Ha' Ht Ht' H; simpl in *.
  - auto.
  - exfalso. destruct Ht as [->|[r ->]]; [discriminate|]. inversion H; subst. tauto.
  - exfalso. destruct Ht' as [->|[r ->]]; [discriminate|]. inversion H; subst. tauto.
  - inversion H; subst. destruct (IH a') as [-> ->]; auto.
Qed.

Lemma string_to_filename_inj s s' suf :
  string_to_filename s suf = string_to_filename s' suf -> s = s'.
Proof.
  unfold string_to_filename. rewrite !app_assoc. intro H. apply app_inv_tail in H.
  apply split_at_sep in H as [H _];
    [apply esc_inj; exact H|apply esc_no_sep|apply esc_no_sep|apply tail_part_shape|apply tail_part_shape].
Qed.

(* every emitted character before the suffix is harmless: a non-reserved
   character, or the '%' / '^' the scheme itself introduces *)
Definition harmless (c : char) : Prop := is_reserved_char c = false \/ c = PCT \/ c = SEP.

Lemma esc_char_harmless b c : Forall harmless (esc_char b c).
Proof.
  destruct (esc_char_cases b c) as [(E & Hr & _)|[(E & Hr)|(E & _ & _)]]; rewrite E.
  - constructor; [left; exact Hr|constructor].
  - pose proof (reserved_lt_128 _ Hr). unfold pct_escape.
    constructor; [right; left; reflexivity|].
    constructor; [left; apply hex_digit_not_reserved; lia|].
    constructor; [left; apply hex_digit_not_reserved; lia|constructor].
  - rewrite pct_escape_dot.
    constructor; [right; left; reflexivity|].
    constructor; [left; reflexivity|].
    constructor; [left; reflexivity|constructor].
Qed.

Lemma esc_tail_harmless s : Forall harmless (esc_tail s).
Proof. induction s; simpl; [constructor|apply Forall_app; split; [apply esc_char_harmless|assumption]]. Qed.

Lemma esc_harmless s : Forall harmless (esc s).
Proof. destruct s; simpl; [constructor|apply Forall_app; split; [apply esc_char_harmless|apply esc_tail_harmless]]. Qed.

(* digits are < 32 so that BASE_32_CHARS[d] cannot panic *)
Lemma digit_of_lt bits : (length bits <= 5)%nat -> digit_of bits < 32.
Proof.
  destruct bits as [|b0 [|b1 [|b2 [|b3 [|b4 [|b5 r]]]]]]; simpl; intros; try lia;
    repeat match goal with b : bool |- _ => destruct b end; simpl; lia.
Qed.

Lemma firstn_le_length_5 {A} (l : list A) : (length (firstn 5 l) <= 5)%nat.
Proof. rewrite firstn_length. apply Nat.le_min_l. Qed.

Lemma chunk5_len fuel l : Forall (fun c => (length c <= 5)%nat) (chunk5 fuel l).
Proof.
  revert l. induction fuel as [|f IH]; intros l; cbn [chunk5]; [constructor|].
  destruct l as [|x l]; [constructor|]. constructor; [|apply IH].
  apply firstn_le_length_5.
Qed.

Lemma code_digits_raw_lt s : Forall (fun d => d < 32) (code_digits_raw s).
Proof.
  unfold code_digits_raw. apply Forall_map.
  eapply Forall_impl; [|apply chunk5_len]. intros a Ha. apply digit_of_lt. exact Ha.
Qed.

Lemma trim_zeros_incl l : incl (trim_zeros l) l.
Proof.
  induction l as [|d t IH]; simpl; [apply incl_refl|].
  destruct (trim_zeros t) eqn:E.
  - destruct (d =? 0); [apply incl_nil_l|]. intros x [->|[]]. left; reflexivity.
  - intros x [->|Hx]; [left; reflexivity|right; apply IH; exact Hx].
Qed.

Lemma code_digits_lt s : Forall (fun d => d < 32) (code_digits s).
Proof.
  unfold code_digits. destruct (trim_zeros (code_digits_raw s)) eqn:E.
  - destruct (is_reserved_filename s); repeat constructor.
  - rewrite <- E. apply Forall_forall. intros x Hx.
    pose proof (code_digits_raw_lt s) as H. rewrite Forall_forall in H. apply H.
    apply trim_zeros_incl. exact Hx.
Qed.

Lemma base32_harmless d : d < 32 -> harmless (base32_char d).
Proof. intro H. left. unfold base32_char, is_reserved_char, SEP, PCT. destruct (N.ltb_spec d 10); lia. Qed.

Lemma tail_part_harmless s : Forall harmless (tail_part s).
Proof.
  unfold tail_part. pose proof (code_digits_lt s) as H. destruct (code_digits s) eqn:E; [constructor|].
  constructor; [right; right; reflexivity|]. apply Forall_map.
  eapply Forall_impl; [|exact H]. intros a Ha. apply base32_harmless. exact Ha.
Qed.

Lemma filename_harmless s : Forall harmless (esc s ++ tail_part s).
Proof. apply Forall_app; split; [apply esc_harmless|apply tail_part_harmless]. Qed.

(* ------------------------------------------------------------------------ *)
(* persistent context                                                        *)
Section CtxProofs.
  Variable V : Type.
  Variable veqb : V -> V -> bool.
  Variable fname : N -> N.
  Variable rd : V -> V.
  Notation ctx := (ctx V).
  Notation step := (step V veqb fname rd).
  Notation run := (run V veqb fname rd).

  (* memory contents do not depend on persistence as long as every get hits
     memory; the disk is never consulted *)
  Definition mem_agree (seen : list N) (a b : ctx) : Prop :=
    (forall i, mem V a i = mem V b i) /\ (forall i, In i seen -> mem V a i <> None).

  Lemma upd_same m k v i : upd V m k v i = if i =? k then Some v else m i.
  Proof. reflexivity. Qed.

  Lemma persist_transparent_gen ops : forall seen a b,
    mem_agree seen a b -> gets_after_sets V seen ops = true ->
    run true a ops = run false b ops /\ ~ In (RPanic V) (run true a ops).
  Proof.
    induction ops as [|o t IH]; intros seen a b [Hm Hs] Hg; simpl.
    - split; [reflexivity|tauto].
    - destruct o as [i v|i|i]; simpl in Hg |- *.
      + rewrite <- (Hm i).
        assert (Hstep : forall p (s : ctx), mem V (do_set V fname p s i v) = upd V (mem V s) i v) by reflexivity.
        destruct (mem V a i) as [old|] eqn:Ea.
        * destruct (veqb old v).
          -- destruct (IH (i :: seen) a b) as [E N0]; [split; [exact Hm|]|exact Hg|].
             ++ intros j [<-|Hj]; [congruence|apply Hs; exact Hj].
             ++ rewrite E. split; [reflexivity|]. intros [H|H]; [discriminate|rewrite <- E in H; tauto].
          -- destruct (IH (i :: seen) (do_set V fname true a i v) (do_set V fname false b i v)) as [E N0];
               [split|exact Hg|].
             ++ intro j. simpl. unfold upd. rewrite Hm. reflexivity.
             ++ intros j Hj. simpl. unfold upd. destruct (N.eqb_spec j i); [discriminate|].
                destruct Hj as [<-|Hj]; [congruence|apply Hs; exact Hj].
             ++ rewrite E. split; [reflexivity|]. intros [H|H]; [discriminate|rewrite <- E in H; tauto].
        * destruct (IH (i :: seen) (do_set V fname true a i v) (do_set V fname false b i v)) as [E N0];
            [split|exact Hg|].
          -- intro j. simpl. unfold upd. rewrite Hm. reflexivity.
          -- intros j Hj. simpl. unfold upd. destruct (N.eqb_spec j i); [discriminate|].
             destruct Hj as [<-|Hj]; [congruence|apply Hs; exact Hj].
          -- rewrite E. split; [reflexivity|]. intros [H|H]; [discriminate|rewrite <- E in H; tauto].
      + apply andb_true_iff in Hg as [Hin Hg].
        apply existsb_exists in Hin as [j [Hj Hij]]. apply N.eqb_eq in Hij. subst j.
        pose proof (Hs i Hj) as Hne. rewrite <- (Hm i).
        destruct (mem V a i) as [v|] eqn:Ea; [|congruence].
        destruct (IH seen a b) as [E N0]; [split; assumption|exact Hg|].
        rewrite E. split; [reflexivity|]. intros [H|H]; [discriminate|rewrite <- E in H; tauto].
      + (* try_get: memory only *)
        rewrite <- (Hm i). destruct (IH seen a b) as [E N0]; [split; assumption|exact Hg|].
        rewrite E. split; [reflexivity|].
        intros [H|H]; [destruct (mem V a i); discriminate|rewrite <- E in H; tauto].
  Qed.

  Theorem persist_transparent (dsk : N -> option V) ops :
    gets_after_sets V [] ops = true ->
    run true {| mem := fun _ => None; disk := dsk |} ops
      = run false {| mem := fun _ => None; disk := fun _ => None |} ops
    /\ ~ In (RPanic V) (run true {| mem := fun _ => None; disk := dsk |} ops).
  Proof.
    intro H. eapply persist_transparent_gen; [|exact H].
    split; [reflexivity|intros i []].
  Qed.
End CtxProofs.

(* ------------------------------------------------------------------------ *)
(* kern instance file names                                                  *)
Open Scope Q_scope.

Lemma kern_key_inj l : forall l', kern_file_key l = kern_file_key l' ->
  Forall2 (fun p p' => fst p = fst p' /\ snd p == snd p') l l'.
Proof.
  induction l as [|[t q] l IH]; intros [|[t' q'] l'] H; simpl in H; try discriminate; constructor.
  - injection H as Ht Hq Hl. simpl. split; [exact Ht|].
    rewrite <- (Qred_correct q), <- (Qred_correct q'), Hq. reflexivity.
  - apply IH. injection H as _ _ Hl. exact Hl.
Qed.

Lemma kern_key_complete l : forall l',
  Forall2 (fun p p' => fst p = fst p' /\ snd p == snd p') l l' -> kern_file_key l = kern_file_key l'.
Proof.
  intros l' H. induction H as [|[t q] [t' q'] l l' [Ht Hq] _ IH]; simpl in *; [reflexivity|].
  subst t'. rewrite (Qred_complete _ _ Hq), IH. reflexivity.
Qed.
