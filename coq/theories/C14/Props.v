(* C14 — property theorems.  Statements only; proofs are in Proofs.v. *)
From Coq Require Import List NArith ZArith QArith Qabs Bool.
From FV.C14 Require Import Model Proofs CaseFold.
Import ListNotations.

(* Distinct item names are never written to the same file: the file-name
   encoding is injective, for every pair of Unicode strings and any suffix. *)
Theorem filename_injective : forall (s s' suffix : str),
  string_to_filename s suffix = string_to_filename s' suffix -> s = s'.
Proof. exact string_to_filename_inj. Qed.
Print Assumptions filename_injective.

(* ... even on a file system that ignores (ASCII) case: names that differ only by case get file
   names that differ by more than case. *)
Theorem filename_injective_ignoring_case : forall (s s' suffix : str),
  fold_case (string_to_filename s suffix) = fold_case (string_to_filename s' suffix) -> s = s'.
Proof. exact filename_injective_casefold. Qed.
Print Assumptions filename_injective_ignoring_case.

(* No reserved character survives into the file name (other than the '%' and
   '^' the scheme itself introduces), so the name is valid on every platform
   the scheme targets. *)
Theorem filename_no_reserved : forall (s : str),
  Forall (fun c => is_reserved_char c = false \/ c = PCT \/ c = SEP) (esc s ++ tail_part s).
Proof. exact filename_harmless. Qed.
Print Assumptions filename_no_reserved.

(* The base-32 table lookup BASE_32_CHARS[d] cannot go out of bounds. *)
Theorem filename_digits_in_table : forall s : str, Forall (fun d => (d < 32)%N) (code_digits s).
Proof. exact code_digits_lt. Qed.
Print Assumptions filename_digits_in_table.

(* Turning persistence on is invisible: for every sequence of set / get / try_get operations in which
   each get of an item follows a set of it (C02; try_get is unrestricted), every read returns the same
   value with persistence on as with it off — whatever stale files the build
   directory holds, whichever items share a file name, and whatever reading a
   file back would yield — and no read panics. *)
Theorem persist_transparent : forall (V : Type) (veqb : V -> V -> bool) (fname : N -> N) (rd : V -> V)
    (stale : N -> option V) (ops : list (op V)),
  gets_after_sets V [] ops = true ->
  run V veqb fname rd true {| mem := fun _ => None; disk := stale |} ops
    = run V veqb fname rd false {| mem := fun _ => None; disk := fun _ => None |} ops
  /\ ~ In (RPanic V) (run V veqb fname rd true {| mem := fun _ => None; disk := stale |} ops).
Proof. exact Proofs.persist_transparent. Qed.
Print Assumptions persist_transparent.

Example persist_nonvacuous :
  gets_after_sets N [] [OTry N 3; OSet N 1 5; OGet N 1; OSet N 2 7; OTry N 2; OSet N 1 6; OGet N 1; OGet N 2]%N = true.
Proof. reflexivity. Qed.

(* Kerning-instance file names (after the repair of the two-decimal format,
   see known_findings.txt): two locations share a file exactly when they are the
   same location. *)
Theorem kern_file_injective : forall l l',
  kern_file_key l = kern_file_key l' <->
  Forall2 (fun p p' => fst p = fst p' /\ snd p == snd p') l l'.
Proof. intros l l'. split; [apply kern_key_inj|apply kern_key_complete]. Qed.
Print Assumptions kern_file_injective.
