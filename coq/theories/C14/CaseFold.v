(* C14 — the file-name encoding stays injective on a file system that ignores ASCII case. *)
From Coq Require Import List NArith ZArith Bool Lia.
From Coq Require Import ZifyBool ZifyN.
From FV.C14 Require Import Model Proofs.
Import ListNotations.
Open Scope N_scope.
Ltac Zify.zify_post_hook ::= Z.div_mod_to_equations.

Lemma to_lower_not_sep c : to_lower c = SEP -> c = SEP.
Proof. unfold to_lower, is_upper, SEP. destruct ((0x41 <=? c) && (c <=? 0x5A)) eqn:E; lia. Qed.

Lemma to_lower_pct c : to_lower c = PCT -> c = PCT.
Proof. unfold to_lower, is_upper, PCT. destruct ((0x41 <=? c) && (c <=? 0x5A)) eqn:E; lia. Qed.

Lemma fold_no_sep l : ~ In SEP l -> ~ In SEP (fold_case l).
Proof.
  unfold fold_case. intros H Hin. apply in_map_iff in Hin as (c & E & Hc). apply to_lower_not_sep in E. subst c. contradiction.
Qed.

Lemma hex_lower_val a : a < 16 -> to_lower (hex_digit a) = if a <? 10 then 0x30 + a else 0x57 + a.
Proof.
  intro Ha. unfold to_lower, is_upper, hex_digit. destruct (N.ltb_spec a 10).
  - replace ((0x41 <=? 0x30 + a) && (0x30 + a <=? 0x5A)) with false by lia. reflexivity.
  - replace ((0x41 <=? 0x41 + (a - 10)) && (0x41 + (a - 10) <=? 0x5A)) with true by lia. lia.
Qed.

Lemma hex_lower_inj a b : a < 16 -> b < 16 -> to_lower (hex_digit a) = to_lower (hex_digit b) -> a = b.
Proof.
  intros Ha Hb. rewrite (hex_lower_val a Ha), (hex_lower_val b Hb).
  destruct (N.ltb_spec a 10), (N.ltb_spec b 10); lia.
Qed.

Lemma base32_lower_val a : a < 32 -> to_lower (base32_char a) = if a <? 10 then 0x30 + a else 0x57 + a.
Proof.
  intro Ha. unfold to_lower, is_upper, base32_char. destruct (N.ltb_spec a 10).
  - replace ((0x41 <=? 0x30 + a) && (0x30 + a <=? 0x5A)) with false by lia. reflexivity.
  - replace ((0x41 <=? 0x41 + (a - 10)) && (0x41 + (a - 10) <=? 0x5A)) with true by lia. lia.
Qed.

Lemma base32_lower_inj a b : a < 32 -> b < 32 -> to_lower (base32_char a) = to_lower (base32_char b) -> a = b.
Proof.
  intros Ha Hb. rewrite (base32_lower_val a Ha), (base32_lower_val b Hb).
  destruct (N.ltb_spec a 10), (N.ltb_spec b 10); lia.
Qed.

(* one escaped character, case-folded, can still be read back up to ASCII case *)
Lemma pct_fold_inj c c' r r' : c < 256 -> c' < 256 ->
  fold_case (pct_escape c) ++ r = fold_case (pct_escape c') ++ r' -> c = c' /\ r = r'.
Proof.
  unfold pct_escape, fold_case. cbn [map app]. intros Hc Hc' H. injection H as H1 H2 H3.
  apply hex_lower_inj in H1; [|lia|lia]. apply hex_lower_inj in H2; [|lia|lia]. split; [lia|exact H3].
Qed.

Lemma esc_char_fold_inj b c c' r r' :
  fold_case (esc_char b c) ++ r = fold_case (esc_char b c') ++ r' -> to_lower c = to_lower c' /\ r = r'.
Proof.
  intros H.
  destruct (esc_char_cases b c) as [(E & Hr & Hd)|[(E & Hr)|(E & Hb & Hc)]];
  destruct (esc_char_cases b c') as [(E' & Hr' & Hd')|[(E' & Hr')|(E' & Hb' & Hc')]];
  rewrite E, E' in H.
  - cbn in H. injection H as H1 H2. auto.
  - exfalso. unfold pct_escape in H. cbn in H. injection H as H1 _. apply to_lower_pct in H1. subst c. rewrite pct_reserved in Hr. discriminate.
  - exfalso. rewrite pct_escape_dot in H. cbn in H. injection H as H1 _. apply to_lower_pct in H1. subst c. rewrite pct_reserved in Hr. discriminate.
  - exfalso. unfold pct_escape in H. cbn in H. injection H as H1 _. symmetry in H1. apply to_lower_pct in H1. subst c'. rewrite pct_reserved in Hr'. discriminate.
  - pose proof (reserved_lt_128 _ Hr). pose proof (reserved_lt_128 _ Hr').
    apply pct_fold_inj in H; [|lia|lia]. destruct H as [-> ->]. auto.
  - exfalso. pose proof (reserved_lt_128 _ Hr).
    apply pct_fold_inj in H; [|lia|unfold DOT; lia]. destruct H as [-> _]. rewrite dot_not_reserved in Hr. discriminate.
  - exfalso. rewrite pct_escape_dot in H. cbn in H. injection H as H1 _. symmetry in H1. apply to_lower_pct in H1. subst c'. rewrite pct_reserved in Hr'. discriminate.
  - exfalso. pose proof (reserved_lt_128 _ Hr').
    apply pct_fold_inj in H; [|unfold DOT; lia|lia]. destruct H as [<- _]. rewrite dot_not_reserved in Hr'. discriminate.
  - subst. apply pct_fold_inj in H; [|unfold DOT; lia|unfold DOT; lia]. destruct H as [_ ->]. auto.
Qed.

Lemma fold_app a b : fold_case (a ++ b) = fold_case a ++ fold_case b.
Proof. unfold fold_case. apply map_app. Qed.

Lemma esc_tail_fold_inj s : forall s', fold_case (esc_tail s) = fold_case (esc_tail s') -> fold_case s = fold_case s'.
Proof.
  induction s as [|c t IH]; intros [|c' t'] H; cbn [esc_tail] in H.
  - reflexivity.
  - exfalso. rewrite fold_app in H. symmetry in H. apply app_eq_nil in H as [H _].
    unfold fold_case in H. apply map_eq_nil in H. exact (esc_char_nonempty _ _ H).
  - exfalso. rewrite fold_app in H. apply app_eq_nil in H as [H _].
    unfold fold_case in H. apply map_eq_nil in H. exact (esc_char_nonempty _ _ H).
  - rewrite !fold_app in H. apply esc_char_fold_inj in H as [Hc H]. unfold fold_case at 1 2. cbn [map].
    rewrite Hc. f_equal. apply IH. exact H.
Qed.

Lemma esc_fold_inj s s' : fold_case (esc s) = fold_case (esc s') -> fold_case s = fold_case s'.
Proof.
  destruct s as [|c t], s' as [|c' t']; cbn [esc]; intro H.
  - reflexivity.
  - exfalso. rewrite fold_app in H. symmetry in H. apply app_eq_nil in H as [H _].
    unfold fold_case in H. apply map_eq_nil in H. exact (esc_char_nonempty _ _ H).
  - exfalso. rewrite fold_app in H. apply app_eq_nil in H as [H _].
    unfold fold_case in H. apply map_eq_nil in H. exact (esc_char_nonempty _ _ H).
  - rewrite !fold_app in H. apply esc_char_fold_inj in H as [Hc H]. unfold fold_case at 1 2. cbn [map].
    rewrite Hc. f_equal. apply esc_tail_fold_inj. exact H.
Qed.

(* ---- the digits record which bytes are upper case ------------------------------------------ *)
Lemma digit_of_inj a : forall b, length a = length b -> digit_of a = digit_of b -> a = b.
Proof.
  induction a as [|x a IH]; intros [|y b] Hl H; cbn [length] in Hl; try discriminate; [reflexivity|].
  cbn [digit_of] in H. assert (x = y /\ digit_of a = digit_of b) as [-> H'] by (destruct x, y; split; lia).
  f_equal. apply IH; [lia|exact H'].
Qed.

Lemma cons_inj {A} (x y : A) l l' : x :: l = y :: l' -> x = y /\ l = l'.
Proof. intro H. inversion H. auto. Qed.

Lemma chunk5_cons f x (a : list bool) : chunk5 (S f) (x :: a) = firstn 5 (x :: a) :: chunk5 f (skipn 5 (x :: a)).
Proof. reflexivity. Qed.

Lemma chunk5_inj fuel : forall a b, length a = length b -> (length a < fuel)%nat ->
  map digit_of (chunk5 fuel a) = map digit_of (chunk5 fuel b) -> a = b.
Proof.
  induction fuel as [|f IH]; intros a b Hl Hf H; [lia|].
  destruct a as [|x a]; destruct b as [|y b]; cbn [length] in Hl; try discriminate; [reflexivity|].
  rewrite !chunk5_cons in H. rewrite !map_cons in H. apply cons_inj in H as [Hd Hr].
  assert (L1 : length (firstn 5 (x :: a)) = length (firstn 5 (y :: b))) by (rewrite !firstn_length; cbn [length]; lia).
  apply digit_of_inj in Hd; [|exact L1].
  assert (L2 : length (skipn 5 (x :: a)) = length (skipn 5 (y :: b))) by (rewrite !skipn_length; cbn [length]; lia).
  assert (L3 : (length (skipn 5 (x :: a)) < f)%nat) by (rewrite skipn_length; cbn [length] in *; lia).
  specialize (IH _ _ L2 L3 Hr).
  rewrite <- (firstn_skipn 5 (x :: a)), <- (firstn_skipn 5 (y :: b)), Hd, IH. reflexivity.
Qed.

Lemma chunk5_length fuel : forall a b, length a = length b -> length (chunk5 fuel a) = length (chunk5 fuel b).
Proof.
  induction fuel as [|f IH]; intros a b Hl; [reflexivity|].
  destruct a as [|x a]; destruct b as [|y b]; cbn [length] in Hl; try discriminate; [reflexivity|].
  rewrite !chunk5_cons. cbn [length]. f_equal. apply IH. rewrite !skipn_length. cbn [length]. lia.
Qed.

Lemma trim_zeros_app_inj l : forall l', length l = length l' -> trim_zeros l = trim_zeros l' -> l = l'.
Proof.
  induction l as [|d t IH]; intros [|d' t'] Hl H; cbn [length] in Hl; try discriminate; [reflexivity|].
  cbn [trim_zeros] in H. specialize (IH t' (eq_add_S _ _ Hl)).
  destruct (trim_zeros t) as [|a ta] eqn:E1; destruct (trim_zeros t') as [|a' ta'] eqn:E2.
  - rewrite (IH eq_refl). destruct (N.eqb_spec d 0), (N.eqb_spec d' 0); try discriminate; [congruence|injection H as ->; reflexivity].
  - exfalso. destruct (d =? 0); discriminate.
  - exfalso. destruct (d' =? 0); discriminate.
  - apply cons_inj in H as [-> H]. rewrite (IH H). reflexivity.
Qed.

(* same letters up to case, same upper-case flags: the same string *)
Lemma to_lower_upper_inj c c' : to_lower c = to_lower c' -> is_upper c = is_upper c' -> c = c'.
Proof. unfold to_lower. intros H E. rewrite <- E in H. destruct (is_upper c); lia. Qed.

Lemma to_lower_len c c' : to_lower c = to_lower c' -> utf8_len c = utf8_len c'.
Proof.
  unfold to_lower, is_upper, utf8_len. intro H.
  destruct ((0x41 <=? c) && (c <=? 0x5A)) eqn:E1; destruct ((0x41 <=? c') && (c' <=? 0x5A)) eqn:E2;
    destruct (N.ltb_spec c 0x80), (N.ltb_spec c' 0x80); try lia; try reflexivity;
    destruct (N.ltb_spec c 0x800), (N.ltb_spec c' 0x800); try lia; try reflexivity;
    destruct (N.ltb_spec c 0x10000), (N.ltb_spec c' 0x10000); try lia; reflexivity.
Qed.

Definition char_flags (c : char) : list bool := if is_upper c then [true] else repeat false (utf8_len c).

Lemma upper_len c : is_upper c = true -> utf8_len c = 1%nat.
Proof. unfold is_upper, utf8_len. intro H. destruct (N.ltb_spec c 0x80); [reflexivity|lia]. Qed.

Lemma char_flags_len c : length (char_flags c) = utf8_len c.
Proof. unfold char_flags. destruct (is_upper c) eqn:E; [rewrite (upper_len c E); reflexivity|apply repeat_length]. Qed.

Lemma utf8_len_pos c : (1 <= utf8_len c)%nat.
Proof. unfold utf8_len. destruct (c <? 0x80), (c <? 0x800), (c <? 0x10000); lia. Qed.

Lemma flags_inj s : forall s', fold_case s = fold_case s' -> byte_flags s = byte_flags s' -> s = s'.
Proof.
  induction s as [|c t IH]; intros [|c' t'] Hf Hb; cbn [fold_case map] in Hf; try discriminate; [reflexivity|].
  injection Hf as Hc Hf. unfold byte_flags in Hb. cbn [flat_map] in Hb.
  fold (char_flags c) in Hb. fold (char_flags c') in Hb. fold (byte_flags t) in Hb. fold (byte_flags t') in Hb.
  assert (Hl : length (char_flags c) = length (char_flags c')) by (rewrite !char_flags_len; apply to_lower_len; exact Hc).
  assert (Hsplit : char_flags c = char_flags c' /\ byte_flags t = byte_flags t').
  { clear -Hl Hb. revert Hl Hb. generalize (char_flags c) (char_flags c') (byte_flags t) (byte_flags t').
    intros a. induction a as [|x a IHa]; intros [|y b] r r' Hl Hb; cbn [length] in Hl; try discriminate; [auto|].
    cbn [app] in Hb. injection Hb as -> Hb. destruct (IHa b r r' (eq_add_S _ _ Hl) Hb) as [-> ->]. auto. }
  destruct Hsplit as [Hcf Hbt].
  assert (Hu : is_upper c = is_upper c').
  { unfold char_flags in Hcf. destruct (is_upper c) eqn:E1, (is_upper c') eqn:E2; try reflexivity.
    - pose proof (utf8_len_pos c'). destruct (utf8_len c'); [lia|]. cbn in Hcf. discriminate.
    - pose proof (utf8_len_pos c). destruct (utf8_len c); [lia|]. cbn in Hcf. discriminate. }
  f_equal; [apply to_lower_upper_inj; assumption|apply IH; assumption].
Qed.

Lemma byte_flags_len s : forall s', fold_case s = fold_case s' -> length (byte_flags s) = length (byte_flags s').
Proof.
  induction s as [|c t IH]; intros [|c' t'] Hf; cbn [fold_case map] in Hf; try discriminate; [reflexivity|].
  injection Hf as Hc Hf. unfold byte_flags. cbn [flat_map]. rewrite !app_length.
  fold (char_flags c). fold (char_flags c'). rewrite !char_flags_len, (to_lower_len c c' Hc). f_equal. apply IH. exact Hf.
Qed.

Lemma no_upper_fixed s : Forall (fun b => b = false) (byte_flags s) -> fold_case s = s.
Proof.
  induction s as [|c t IH]; intro H; [reflexivity|]. unfold byte_flags in H. cbn [flat_map] in H.
  apply Forall_app in H as [H1 H2]. unfold fold_case. cbn [map]. f_equal.
  - unfold to_lower. destruct (is_upper c) eqn:E; [|reflexivity]. inversion H1; discriminate.
  - apply IH. exact H2.
Qed.

Lemma digit_zero_flags bits : digit_of bits = 0 -> Forall (fun b => b = false) bits.
Proof.
  induction bits as [|b t IH]; cbn [digit_of]; intro H; [constructor|].
  destruct b; [lia|]. constructor; [reflexivity|apply IH; lia].
Qed.

Lemma trim_nil_all_zero l : trim_zeros l = [] -> Forall (fun d => d = 0) l.
Proof.
  induction l as [|d t IH]; cbn [trim_zeros]; intro H; [constructor|].
  destruct (trim_zeros t) eqn:E; [|discriminate]. destruct (N.eqb_spec d 0); [|discriminate].
  constructor; [assumption|apply IH; reflexivity].
Qed.

Lemma chunk5_all_false fuel : forall l, (length l < fuel)%nat ->
  Forall (fun d => d = 0) (map digit_of (chunk5 fuel l)) -> Forall (fun b => b = false) l.
Proof.
  induction fuel as [|f IH]; intros l Hf H; [lia|]. destruct l as [|x l]; [constructor|].
  rewrite chunk5_cons, map_cons in H. inversion H as [|? ? H1 H2]; subst.
  rewrite <- (firstn_skipn 5 (x :: l)). apply Forall_app. split; [apply digit_zero_flags; exact H1|].
  apply IH; [rewrite skipn_length; cbn [length] in *; lia|exact H2].
Qed.

Lemma fold_cons c l : fold_case (c :: l) = to_lower c :: fold_case l.
Proof. reflexivity. Qed.

Lemma b32_fold_inj l : forall l', Forall (fun d => d < 32) l -> Forall (fun d => d < 32) l' ->
  fold_case (map base32_char l) = fold_case (map base32_char l') -> l = l'.
Proof.
  induction l as [|a l IH]; intros [|b l'] L1 L2 H; cbn [map] in H; try rewrite !fold_cons in H; try discriminate; [reflexivity|].
  apply cons_inj in H as [Ha H]. inversion L1; inversion L2; subst.
  apply base32_lower_inj in Ha; [|assumption|assumption]. subst. f_equal. apply IH; assumption.
Qed.

(* ---- the theorem -------------------------------------------------------------------------------- *)
Theorem filename_injective_casefold s s' suf :
  fold_case (string_to_filename s suf) = fold_case (string_to_filename s' suf) -> s = s'.
Proof.
  unfold string_to_filename. rewrite !app_assoc, !(fold_app _ suf). intro H. apply app_inv_tail in H.
  rewrite !fold_app in H.
  assert (Hshape : forall x, fold_case (tail_part x) = [] \/ exists r, fold_case (tail_part x) = SEP :: r).
  { intro x. destruct (tail_part_shape x) as [->|[r ->]]; [left; reflexivity|right; eexists; reflexivity]. }
  destruct (split_at_sep _ _ _ _ (fold_no_sep _ (esc_no_sep s)) (fold_no_sep _ (esc_no_sep s')) (Hshape s) (Hshape s') H) as [HE HT].
  apply esc_fold_inj in HE.
  (* the digit lists agree *)
  assert (Hd : code_digits s = code_digits s').
  { unfold tail_part in HT. pose proof (code_digits_lt s) as L1. pose proof (code_digits_lt s') as L2.
    destruct (code_digits s) as [|d ds] eqn:E1; destruct (code_digits s') as [|d' ds'] eqn:E2; try discriminate; [reflexivity|].
    rewrite !fold_cons in HT. apply cons_inj in HT as [_ HT]. apply b32_fold_inj; assumption. }
  (* either both strings have no upper-case byte, or the raw digit lists agree *)
  pose proof (byte_flags_len s s' HE) as Hlen.
  unfold code_digits in Hd.
  assert (Hraw_len : length (code_digits_raw s) = length (code_digits_raw s')).
  { unfold code_digits_raw. rewrite !map_length, Hlen. apply chunk5_length. exact Hlen. }
  destruct (trim_zeros (code_digits_raw s)) as [|a ta] eqn:T1; destruct (trim_zeros (code_digits_raw s')) as [|a' ta'] eqn:T2.
  - (* no upper-case byte on either side *)
    apply trim_nil_all_zero in T1, T2. unfold code_digits_raw in T1, T2.
    apply chunk5_all_false in T1; [|lia]. apply chunk5_all_false in T2; [|lia].
    rewrite <- (no_upper_fixed s T1), <- (no_upper_fixed s' T2). exact HE.
  - exfalso. destruct (is_reserved_filename s); [|discriminate]. injection Hd as <- <-.
    (* a trimmed list cannot be [0] *)
    clear -T2. revert T2. generalize (code_digits_raw s'). intro l. induction l as [|d t IH]; cbn [trim_zeros]; [discriminate|].
    destruct (trim_zeros t) eqn:E; [destruct (N.eqb_spec d 0); [discriminate|intro H; injection H as ->; contradiction]|].
    intro H. injection H as -> H. discriminate H.
  - exfalso. destruct (is_reserved_filename s'); [|discriminate]. injection Hd as -> ->.
    clear -T1. revert T1. generalize (code_digits_raw s). intro l. induction l as [|d t IH]; cbn [trim_zeros]; [discriminate|].
    destruct (trim_zeros t) eqn:E; [destruct (N.eqb_spec d 0); [discriminate|intro H; injection H as ->; contradiction]|].
    intro H. injection H as -> H. discriminate H.
  - rewrite <- T1, <- T2 in Hd. apply trim_zeros_app_inj in Hd; [|exact Hraw_len].
    unfold code_digits_raw in Hd. rewrite Hlen in Hd.
    apply chunk5_inj in Hd; [|exact Hlen|lia].
    apply flags_inj; assumption.
Qed.
