(* C14 — model of fontdrasil/src/paths.rs string_to_filename, fontir/src/paths.rs
   kern_ir_file, and of the persistent context item of fontir/src/orchestration.rs.
   Executable definitions only; proofs are in Proofs.v. *)
From Coq Require Import List NArith ZArith QArith Qabs Qround Bool.
Import ListNotations.
Open Scope N_scope.

(* A Rust `char` is a Unicode scalar value; a `&str` is a list of them. *)
Definition char := N.
Definition str := list char.

Definition utf8_len (c : char) : nat :=
  if c <? 0x80 then 1%nat else if c <? 0x800 then 2%nat else if c <? 0x10000 then 3%nat else 4%nat.

Definition is_upper (c : char) : bool := (0x41 <=? c) && (c <=? 0x5A).
Definition is_lower (c : char) : bool := (0x61 <=? c) && (c <=? 0x7A).
Definition to_upper (c : char) : char := if is_lower c then c - 0x20 else c.
Definition to_lower (c : char) : char := if is_upper c then c + 0x20 else c.

Definition SEP : char := 0x5E. (* '^' *)
Definition PCT : char := 0x25. (* '%' *)
Definition DOT : char := 0x2E. (* '.' *)

(* is_reserved_char *)
Definition is_reserved_char (c : char) : bool :=
  (c <=? 0x1F) || (c =? 0x7F) || (c =? SEP) || (c =? 0x3E) || (c =? 0x7C) || (c =? 0x5B)
  || (c =? 0x3F) || (c =? 0x2B) || (c =? 0x5C) || (c =? 0x22) || (c =? 0x3A) || (c =? 0x2F)
  || (c =? 0x3C) || (c =? PCT) || (c =? 0x5D) || (c =? 0x2A).

Definition str_eqb (a b : str) : bool :=
  (fix go (a b : str) : bool :=
     match a, b with
     | [], [] => true
     | x :: a', y :: b' => (x =? y) && go a' b'
     | _, _ => false
     end) a b.

(* "CON" "PRN" "AUX" "CLOCK$" "NUL" "COM1" "LPT1" "LPT2" "LPT3" "COM2" "COM3" "COM4" *)
Definition reserved_names : list str :=
  [ [0x43;0x4F;0x4E]; [0x50;0x52;0x4E]; [0x41;0x55;0x58]; [0x43;0x4C;0x4F;0x43;0x4B;0x24];
    [0x4E;0x55;0x4C]; [0x43;0x4F;0x4D;0x31]; [0x4C;0x50;0x54;0x31]; [0x4C;0x50;0x54;0x32];
    [0x4C;0x50;0x54;0x33]; [0x43;0x4F;0x4D;0x32]; [0x43;0x4F;0x4D;0x33]; [0x43;0x4F;0x4D;0x34] ].

Definition is_reserved_filename (s : str) : bool :=
  existsb (str_eqb (map to_upper s)) reserved_names.

(* upper-case flag per UTF-8 byte: only an ASCII byte can be_ascii_uppercase *)
Definition byte_flags (s : str) : list bool :=
  flat_map (fun c => if is_upper c then [true] else repeat false (utf8_len c)) s.

(* one base-32 digit from up to five flags, least significant first *)
Fixpoint digit_of (bits : list bool) : N :=
  match bits with
  | [] => 0
  | b :: t => (if b then 1 else 0) + 2 * digit_of t
  end.

Fixpoint chunk5 (fuel : nat) (l : list bool) : list (list bool) :=
  match fuel with
  | O => []
  | S f =>
      match l with
      | [] => []
      | _ => firstn 5 l :: chunk5 f (skipn 5 l)
      end
  end.

Definition code_digits_raw (s : str) : list N :=
  let fl := byte_flags s in map digit_of (chunk5 (S (length fl)) fl).

(* while let Some(0) = last { pop } *)
Fixpoint trim_zeros (l : list N) : list N :=
  match l with
  | [] => []
  | d :: t => match trim_zeros t with
              | [] => if d =? 0 then [] else [d]
              | t' => d :: t'
              end
  end.

Definition hex_digit (d : N) : char := if d <? 10 then 0x30 + d else 0x41 + (d - 10).
Definition base32_char (d : N) : char := if d <? 10 then 0x30 + d else 0x41 + (d - 10).

(* format!("%{:02X}", c as u32) for c < 0x100 *)
Definition pct_escape (c : char) : str := [PCT; hex_digit (c / 16); hex_digit (c mod 16)].

Definition esc_char (first : bool) (c : char) : str :=
  if first && (c =? DOT) then [PCT; 0x32; 0x45]
  else if negb (is_reserved_char c) then [c]
  else pct_escape c.

Fixpoint esc_tail (s : str) : str :=
  match s with
  | [] => []
  | c :: t => esc_char false c ++ esc_tail t
  end.

Definition esc (s : str) : str :=
  match s with
  | [] => []
  | c :: t => esc_char true c ++ esc_tail t
  end.

Definition code_digits (s : str) : list N :=
  let d := trim_zeros (code_digits_raw s) in
  match d with
  | [] => if is_reserved_filename s then [0] else []
  | _ => d
  end.

Definition tail_part (s : str) : str :=
  match code_digits s with
  | [] => []
  | d => SEP :: map base32_char d
  end.

Definition string_to_filename (s suffix : str) : str := esc s ++ tail_part s ++ suffix.

(* what a case-insensitive file system compares *)
Definition fold_case (s : str) : str := map to_lower s.

(* ---- kern_ir_file: format!("{tag}_{}", pos.to_f64()) ------------------------ *)
(* After the repair (fix: commit in /repo) the coordinate is printed with
   Rust's shortest round-tripping `Display` for f64, which is injective on
   finite values other than the pair 0.0 / -0.0; the model takes the printed
   coordinate to be the value itself (reduced), one entry per axis in the
   location's (sorted, duplicate-free) axis order. *)
Definition kern_file_key (loc : list (N * Q)) : list (N * Q) :=
  map (fun p => (fst p, Qred (snd p))) loc.

(* ---- persistent context map ---------------------------------------------- *)
(* ContextMap / ContextItem of fontir/src/orchestration.rs: an in-memory map
   plus, when persistence is active (--emit-ir), one file per item.  `fname`
   is the id -> file name function (Paths::target_file); it need not be
   injective here.  `set` skips equal values, otherwise writes the file (when
   active) and then memory; `get` reads memory, falls back to the file when
   active, and panics (None) otherwise; `try_get` reads memory only.  `rd` is what reading a written value
   back yields (serde round trip), not assumed to be the identity. *)
Section Ctx.
  Variable V : Type.
  Variable veqb : V -> V -> bool.
  Variable fname : N -> N.
  Variable rd : V -> V.
  Record ctx := { mem : N -> option V; disk : N -> option V }.
  Definition upd (m : N -> option V) (k : N) (v : V) : N -> option V :=
    fun k' => if k' =? k then Some v else m k'.
  (* OTry = try_get: memory only, never the disk ("was this item produced by this build?") *)
  Inductive op := OSet (i : N) (v : V) | OGet (i : N) | OTry (i : N).
  Inductive out := RUnit | RVal (v : V) | RPanic | RNone.
  Definition do_set (persistent : bool) (s : ctx) (i : N) (v : V) : ctx :=
    {| mem := upd (mem s) i v;
       disk := if persistent then upd (disk s) (fname i) v else disk s |}.
  Definition step (persistent : bool) (s : ctx) (o : op) : ctx * out :=
    match o with
    | OSet i v =>
        match mem s i with
        | Some old => if veqb old v then (s, RUnit) else (do_set persistent s i v, RUnit)
        | None => (do_set persistent s i v, RUnit)
        end
    | OGet i =>
        match mem s i with
        | Some v => (s, RVal v)
        | None =>
            if persistent then
              match disk s (fname i) with
              | Some v => ({| mem := upd (mem s) i (rd v); disk := disk s |}, RVal (rd v))
              | None => (s, RPanic)
              end
            else (s, RPanic)
        end
    | OTry i => (s, match mem s i with Some v => RVal v | None => RNone end)
    end.
  Fixpoint run (persistent : bool) (s : ctx) (ops : list op) : list out :=
    match ops with
    | [] => []
    | o :: t => let '(s', r) := step persistent s o in r :: run persistent s' t
    end.
  (* every get is preceded by a set of the same id (what C02 guarantees) *)
  Fixpoint gets_after_sets (seen : list N) (ops : list op) : bool :=
    match ops with
    | [] => true
    | OSet i _ :: t => gets_after_sets (i :: seen) t
    | OGet i :: t => existsb (N.eqb i) seen && gets_after_sets seen t
    | OTry _ :: t => gets_after_sets seen t
    end.
End Ctx.

(* comparison of outcome lists over numbers (used by the correspondence run) *)
Definition out_eqb (a b : out N) : bool :=
  match a, b with
  | RUnit _, RUnit _ => true
  | RVal _ x, RVal _ y => (x =? y)%N
  | RPanic _, RPanic _ => true
  | RNone _, RNone _ => true
  | _, _ => false
  end.
Fixpoint outs_eqb (a b : list (out N)) : bool :=
  match a, b with
  | [], [] => true
  | x :: a', y :: b' => out_eqb x y && outs_eqb a' b'
  | _, _ => false
  end.

Definition q_eqb (a b : Q) : bool := (Qnum a =? Qnum b)%Z && (Qden a =? Qden b)%positive.
Definition kern_key_eqb (a b : list (N * Q)) : bool :=
  (fix go (a b : list (N * Q)) : bool :=
     match a, b with
     | [], [] => true
     | (t, v) :: a', (t', v') :: b' => (t =? t')%N && q_eqb v v' && go a' b'
     | _, _ => false
     end) a b.
