(* C20 — the reader inverts the renderer: parse_rec on a rendered document returns the value the
   document denotes, whatever the formatting. *)
From Coq Require Import List NArith ZArith Bool Arith Lia ZifyBool ZifyN ZifyNat.
From FV.C20 Require Import Model ProofsLex.
Import ListNotations.
Open Scope N_scope.

Scheme cst_mut := Induction for cst Sort Prop
  with centries_mut := Induction for centries Sort Prop
  with citems_mut := Induction for citems Sort Prop.
Combined Scheme cst_mutind from cst_mut, centries_mut, citems_mut.

(* length of the longest chain of nested calls the reader makes on a document *)
Fixpoint need (c : cst) : nat :=
  match c with
  | CAtom _ _ | CQuot _ _ | CData _ _ => 1
  | CDict _ es _ => S (need_es es)
  | CArr _ its _ _ => S (need_its its)
  end
with need_es (es : centries) : nat :=
  match es with
  | ENil => 1
  | ECons _ _ _ v _ rest => S (Nat.max (need v) (need_es rest))
  end
with need_its (its : citems) : nat :=
  match its with
  | INil => 1
  | ICons v _ rest => S (Nat.max (need v) (need_its rest))
  end.

Lemma parse_rec_S : forall f depth s,
  parse_rec (S f) depth s =
  if (MAX_NESTING_DEPTH <? depth)%nat then Err
  else match lex s with
       | Err => Err
       | OutOfFuel => OutOfFuel
       | Ok (tok, s1) =>
           match tok with
           | TAtom a => Ok (parse_atom a, s1)
           | TString x => Ok (PStr x, s1)
           | TData b => Ok (PData b, s1)
           | TOpenBrace => dict_loop f depth s1 []
           | TOpenParen => arr_loop f depth s1 []
           | TEof => Err
           end
       end.
Proof. reflexivity. Qed.

Lemma dict_loop_S : forall f depth s d,
  dict_loop (S f) depth s d =
  match expect s 125 with
  | Some r => Ok (PDict d, r)
  | None =>
      match lex s with
      | Err => Err
      | OutOfFuel => OutOfFuel
      | Ok (key, s1) =>
          match key_of_token key with
          | None => Err
          | Some k =>
              match expect s1 61 with
              | None => Err
              | Some s2 =>
                  match parse_rec f (S depth) s2 with
                  | Err => Err
                  | OutOfFuel => OutOfFuel
                  | Ok (v, s3) =>
                      match expect s3 59 with
                      | None => Err
                      | Some s4 => dict_loop f depth s4 (dict_insert k v d)
                      end
                  end
              end
          end
      end
  end.
Proof. reflexivity. Qed.

Lemma arr_loop_S : forall f depth s acc,
  arr_loop (S f) depth s acc =
  match expect s 41 with
  | Some r => Ok (PArr (rev acc), r)
  | None =>
      match parse_rec f (S depth) s with
      | Err => Err
      | OutOfFuel => OutOfFuel
      | Ok (v, s1) =>
          match expect s1 41 with
          | Some r => Ok (PArr (rev (v :: acc)), r)
          | None =>
              match expect s1 44 with
              | None => Err
              | Some s2 =>
                  match expect s2 41 with
                  | Some r => Ok (PArr (rev (v :: acc)), r)
                  | None => arr_loop f depth s2 (v :: acc)
                  end
              end
          end
      end
  end.
Proof. reflexivity. Qed.

(* the first significant character of a rendered value is not a closing parenthesis *)
Lemma expect_value_none : forall v x, cst_ok v = true -> expect (render v ++ x) 41 = None.
Proof.
  intros v x H. destruct v as [w s|w l|w d|w es wc|w its tr wc]; cbn [cst_ok] in H; cbn [render].
  - apply andb_true_iff in H as [Hw Hs]. rewrite <- app_assoc.
    destruct s as [|b a]; [discriminate|]. cbn [atom_ok forallb] in Hs.
    apply andb_true_iff in Hs as [Hb _]. destruct (alnum_facts b Hb) as (Hws & _).
    cbn [app]. apply expect_miss; [assumption|assumption|]. intro E; subst b; discriminate Hb.
  - apply andb_true_iff in H as [Hw _]. rewrite <- app_assoc. cbn [app].
    apply expect_miss; [assumption|reflexivity|discriminate].
  - apply andb_true_iff in H as [Hw _]. rewrite <- app_assoc. cbn [app].
    apply expect_miss; [assumption|reflexivity|discriminate].
  - apply andb_true_iff in H as [H _]. apply andb_true_iff in H as [Hw _].
    rewrite <- app_assoc. cbn [app]. apply expect_miss; [assumption|reflexivity|discriminate].
  - apply andb_true_iff in H as [H _]. apply andb_true_iff in H as [H _].
    apply andb_true_iff in H as [Hw _].
    rewrite <- app_assoc. cbn [app]. apply expect_miss; [assumption|reflexivity|discriminate].
Qed.

Definition arr_tail (tr : option str) (wc rest : str) : str :=
  (match tr with Some wt => wt ++ [44] | None => [] end) ++ wc ++ 41 :: rest.

Definition tr_ok (tr : option str) (its : citems) : Prop :=
  match tr with
  | None => True
  | Some wt => ws_ok wt = true /\ its <> INil
  end.

Lemma head_ok_ws_delim : forall w d r, ws_ok w = true -> is_alnum d = false -> head_ok (w ++ d :: r).
Proof. intros. apply ws_head_ok; assumption. Qed.

Lemma head_ok_arr_tail : forall tr wc rest, match tr with Some wt => ws_ok wt = true | None => True end ->
  ws_ok wc = true -> head_ok (arr_tail tr wc rest).
Proof.
  intros [wt|] wc rest Ht Hwc; unfold arr_tail.
  - rewrite <- app_assoc. cbn [app]. apply ws_head_ok; [assumption|reflexivity].
  - cbn [app]. apply ws_head_ok; [assumption|reflexivity].
Qed.

Theorem parse_render_mut :
  (forall c, forall fuel depth rest,
      cst_ok c = true -> head_ok rest -> (depth + height c <= 257)%nat -> (need c <= fuel)%nat ->
      parse_rec fuel depth (render c ++ rest) = Ok (denote c, rest))
  /\ (forall es, forall fuel depth rest d wc,
      entries_ok es = true -> ws_ok wc = true ->
      (depth + 1 + height_entries es <= 257)%nat -> (need_es es <= fuel)%nat ->
      dict_loop fuel depth (render_entries es ++ wc ++ 125 :: rest) d
      = Ok (PDict (denote_entries es d), rest))
  /\ (forall its, forall fuel depth rest acc tr wc,
      items_ok its = true -> ws_ok wc = true -> tr_ok tr its ->
      (depth + 1 + height_items its <= 257)%nat -> (need_its its <= fuel)%nat ->
      arr_loop fuel depth (render_items its ++ arr_tail tr wc rest) acc
      = Ok (PArr (rev acc ++ denote_items its), rest)).
Proof.
  apply cst_mutind.
  - (* CAtom *)
    intros w s fuel depth rest Hok Hr Hd Hf. cbn [cst_ok] in Hok.
    apply andb_true_iff in Hok as [Hw Hs]. cbn [need height] in *.
    destruct fuel as [|f]; [lia|]. rewrite parse_rec_S.
    replace (MAX_NESTING_DEPTH <? depth)%nat with false by (unfold MAX_NESTING_DEPTH; lia).
    cbn [render]. rewrite <- app_assoc. rewrite lex_atom by assumption. reflexivity.
  - (* CQuot *)
    intros w l fuel depth rest Hok Hr Hd Hf. cbn [cst_ok] in Hok.
    apply andb_true_iff in Hok as [Hw Hl]. cbn [need height] in *.
    destruct fuel as [|f]; [lia|]. rewrite parse_rec_S.
    replace (MAX_NESTING_DEPTH <? depth)%nat with false by (unfold MAX_NESTING_DEPTH; lia).
    cbn [render]. rewrite <- app_assoc. cbn [app]. rewrite <- app_assoc. cbn [app].
    rewrite lex_quot by assumption. reflexivity.
  - (* CData *)
    intros w d fuel depth rest Hok Hr Hd Hf. cbn [cst_ok] in Hok.
    apply andb_true_iff in Hok as [Hw Hl]. cbn [need height] in *.
    destruct fuel as [|f]; [lia|]. rewrite parse_rec_S.
    replace (MAX_NESTING_DEPTH <? depth)%nat with false by (unfold MAX_NESTING_DEPTH; lia).
    cbn [render]. rewrite <- app_assoc. cbn [app]. rewrite <- app_assoc. cbn [app].
    rewrite lex_data by assumption. reflexivity.
  - (* CDict *)
    intros w es IH wc fuel depth rest Hok Hr Hd Hf. cbn [cst_ok] in Hok.
    apply andb_true_iff in Hok as [Hok Hwc]. apply andb_true_iff in Hok as [Hw Hes].
    cbn [need height] in *.
    destruct fuel as [|f]; [lia|]. rewrite parse_rec_S.
    replace (MAX_NESTING_DEPTH <? depth)%nat with false by (unfold MAX_NESTING_DEPTH; lia).
    cbn [render]. rewrite <- app_assoc. cbn [app]. rewrite lex_brace by assumption.
    rewrite <- app_assoc. rewrite <- app_assoc. cbn [app].
    rewrite IH by (assumption || lia). reflexivity.
  - (* CArr *)
    intros w its IH tr wc fuel depth rest Hok Hr Hd Hf. cbn [cst_ok] in Hok.
    apply andb_true_iff in Hok as [Hok Htr]. apply andb_true_iff in Hok as [Hok Hwc].
    apply andb_true_iff in Hok as [Hw Hits].
    cbn [need height] in *.
    destruct fuel as [|f]; [lia|]. rewrite parse_rec_S.
    replace (MAX_NESTING_DEPTH <? depth)%nat with false by (unfold MAX_NESTING_DEPTH; lia).
    cbn [render]. rewrite <- app_assoc. cbn [app]. rewrite lex_paren by assumption.
    rewrite <- app_assoc.
    change ((match tr with Some wt => wt ++ [44] | None => [] end ++ wc ++ [41]) ++ rest)
      with ((match tr with Some wt => wt ++ [44] | None => [] end ++ wc ++ [41]) ++ rest).
    replace ((match tr with Some wt => wt ++ [44] | None => [] end ++ wc ++ [41]) ++ rest)
      with (arr_tail tr wc rest)
      by (unfold arr_tail; rewrite <- !app_assoc; reflexivity).
    rewrite (IH f depth rest [] tr wc); [reflexivity|assumption|assumption| |lia|lia].
    destruct tr as [wt|]; [|exact I]. apply andb_true_iff in Htr as [Hwt Hne].
    split; [assumption|]. destruct its; [discriminate|discriminate].
  - (* ENil *)
    intros fuel depth rest d wc _ Hwc Hd Hf. cbn [need_es] in Hf.
    destruct fuel as [|f]; [lia|]. rewrite dict_loop_S. cbn [render_entries app denote_entries].
    rewrite expect_hit by (assumption || reflexivity). reflexivity.
  - (* ECons *)
    intros kw k ew v IHv sw rest_es IHes fuel depth rest d wc Hok Hwc Hd Hf.
    cbn [entries_ok] in Hok.
    apply andb_true_iff in Hok as [Hok Hrest]. apply andb_true_iff in Hok as [Hok Hsw].
    apply andb_true_iff in Hok as [Hok Hv]. apply andb_true_iff in Hok as [Hok Hew].
    apply andb_true_iff in Hok as [Hkw Hk].
    cbn [need_es height_entries] in *.
    destruct fuel as [|f]; [lia|]. rewrite dict_loop_S.
    cbn [render_entries denote_entries].
    rewrite <- !app_assoc.
    rewrite expect_key_none by assumption.
    match goal with
    | |- context [lex (kw ++ render_key k ++ ?r)] =>
        destruct (lex_key kw k r Hkw Hk) as (t & Hlex & Hkey)
    end.
    { cbn [app]. apply ws_head_ok; [assumption|reflexivity]. }
    rewrite Hlex, Hkey.
    cbn [app]. rewrite expect_hit by (assumption || reflexivity).
    rewrite <- !app_assoc.
    rewrite (IHv f (S depth)); [|assumption| |lia|lia].
    2:{ apply ws_head_ok; [assumption|reflexivity]. }
    cbn [app]. rewrite expect_hit by (assumption || reflexivity).
    rewrite (IHes f depth rest _ wc) by (assumption || lia). reflexivity.
  - (* INil *)
    intros fuel depth rest acc tr wc _ Hwc Htr Hd Hf. cbn [need_its] in Hf.
    destruct tr as [wt|]; [destruct Htr as [_ Hne]; contradiction|].
    destruct fuel as [|f]; [lia|]. rewrite arr_loop_S. unfold arr_tail.
    cbn [render_items app denote_items].
    rewrite expect_hit by (assumption || reflexivity). rewrite app_nil_r. reflexivity.
  - (* ICons *)
    intros v IHv w rest_its IHits fuel depth rest acc tr wc Hok Hwc Htr Hd Hf.
    cbn [items_ok] in Hok.
    apply andb_true_iff in Hok as [Hok Hrest]. apply andb_true_iff in Hok as [Hv Hw].
    cbn [need_its height_items] in *.
    destruct fuel as [|f]; [lia|]. rewrite arr_loop_S.
    cbn [render_items denote_items].
    rewrite <- app_assoc. rewrite expect_value_none by assumption.
    destruct rest_its as [|v2 w2 rest2].
    + (* last item *)
      cbn [app].
      assert (Htr' : match tr with Some wt => ws_ok wt = true | None => True end)
        by (destruct tr; [apply Htr|exact I]).
      rewrite (IHv f (S depth)); [|assumption| |lia|lia].
      2:{ apply head_ok_arr_tail; assumption. }
      unfold arr_tail. destruct tr as [wt|].
      * destruct Htr as [Hwt _]. rewrite <- app_assoc. cbn [app].
        rewrite expect_miss by (assumption || reflexivity || discriminate).
        rewrite expect_hit by (assumption || reflexivity).
        rewrite expect_hit by (assumption || reflexivity).
        cbn [rev denote_items]. reflexivity.
      * cbn [app]. rewrite expect_hit by (assumption || reflexivity).
        cbn [rev denote_items]. reflexivity.
    + (* more items follow *)
      rewrite <- app_assoc. cbn [app].
      rewrite (IHv f (S depth)); [|assumption| |lia|lia].
      2:{ apply ws_head_ok; [assumption|reflexivity]. }
      rewrite expect_miss by (assumption || reflexivity || discriminate).
      rewrite expect_hit by (assumption || reflexivity).
      cbn [items_ok] in Hrest. pose proof Hrest as Hrest'.
      apply andb_true_iff in Hrest' as [Hrest' _]. apply andb_true_iff in Hrest' as [Hv2 _].
      change (render_items (ICons v2 w2 rest2))
        with (render v2 ++ match rest2 with INil => [] | ICons _ _ _ => w2 ++ 44 :: render_items rest2 end).
      rewrite <- app_assoc. rewrite expect_value_none by assumption.
      rewrite app_assoc.
      change (render v2 ++ match rest2 with INil => [] | ICons _ _ _ => w2 ++ 44 :: render_items rest2 end)
        with (render_items (ICons v2 w2 rest2)).
      rewrite (IHits f depth rest (denote v :: acc) tr wc); [|assumption|assumption| |lia|lia].
      * cbn [rev]. rewrite <- app_assoc. reflexivity.
      * destruct tr as [wt|]; [|exact I]. split; [apply Htr|discriminate].
Qed.

(* the fuel given by `parse` is enough for any rendered document *)
Lemma need_le_length :
  (forall c, (need c <= length (render c) + 1)%nat)
  /\ (forall es, (need_es es <= length (render_entries es) + 1)%nat)
  /\ (forall its, (need_its its <= length (render_items its) + 2)%nat).
Proof.
  apply cst_mutind.
  - intros; cbn [need]; lia.
  - intros; cbn [need]; lia.
  - intros; cbn [need]; lia.
  - intros w es IH wc. cbn [need render].
    repeat first [rewrite app_length | progress cbn [length]]. lia.
  - intros w its IH tr wc. cbn [need render].
    repeat first [rewrite app_length | progress cbn [length]]. lia.
  - cbn [need_es render_entries length]. lia.
  - intros kw k ew v IHv sw rest IHr. cbn [need_es render_entries].
    repeat first [rewrite app_length | progress cbn [length]]. lia.
  - cbn [need_its render_items length]. lia.
  - intros v IHv w rest IHr. cbn [need_its render_items]. rewrite app_length.
    destruct rest as [|v2 w2 r2].
    + cbn [need_its length] in *. lia.
    + repeat first [rewrite app_length | progress cbn [length]]. lia.
Qed.

Theorem parse_render : forall c trailing,
  cst_ok c = true -> (height c <= 257)%nat -> head_ok trailing ->
  parse (render c ++ trailing) = Ok (denote c).
Proof.
  intros c trailing Hok Hh Ht. unfold parse.
  destruct parse_render_mut as [H _].
  rewrite (H c); [reflexivity|assumption|assumption|lia|].
  unfold fuel_for. rewrite app_length. pose proof (proj1 need_le_length c). lia.
Qed.
