(* C20 — proofs.  The lemmas live in ProofsLex (lexer on rendered tokens), ProofsParse (reader
   inverts renderer), ProofsDict (key order), ProofsLayout (oracle printer), ProofsFuel (fuel is
   never the reason; skip_rec = parse_rec), ProofsPkg (package, entry points, UFO). *)
From FV.C20 Require Export Model ProofsLex ProofsParse ProofsDict ProofsLayout ProofsFuel ProofsPkg.
From Coq Require Import List NArith Bool Arith Lia Permutation.
Import ListNotations.
Open Scope N_scope.

Lemma formatting_insensitive_lemma : forall (phi psi : oracle) v,
  wf v = true -> (vheight v <= 257)%nat -> parse (print phi v) = parse (print psi v).
Proof. intros. rewrite !parse_print by assumption. reflexivity. Qed.

Lemma equal_documents_lemma : forall c1 c2,
  cst_ok c1 = true -> cst_ok c2 = true -> (height c1 <= 257)%nat -> (height c2 <= 257)%nat ->
  denote c1 = denote c2 -> parse (render c1) = parse (render c2).
Proof.
  intros c1 c2 H1 H2 L1 L2 E.
  rewrite <- (app_nil_r (render c1)), <- (app_nil_r (render c2)).
  rewrite !parse_render by (assumption || exact I). rewrite E. reflexivity.
Qed.

(* the entries of a document's dictionary may be written in any order *)
Lemma entries_order_lemma : forall (l l' : list raw_entry) w wc,
  Permutation l l' -> NoDup (map (fun e => fst (entry_sem e)) l) ->
  denote (CDict w (entries_of_list l) wc) = denote (CDict w (entries_of_list l') wc).
Proof.
  intros l l' w wc Hp Hnd. cbn [denote]. f_equal. rewrite !entries_of_list_denote.
  apply build_order_irrelevant.
  - apply Permutation_map. exact Hp.
  - rewrite map_map. exact Hnd.
Qed.

(* a string field never accepts a list, however the list is laid out *)
Lemma string_field_rejects_list_lemma : forall w its tr wc rest,
  ws_ok w = true -> read_string_field (render (CArr w its tr wc) ++ rest) = Err.
Proof.
  intros w its tr wc rest Hw. unfold read_string_field. cbn [render]. rewrite <- app_assoc. cbn [app].
  rewrite lex_paren by exact Hw. reflexivity.
Qed.

Lemma string_field_reads_string_lemma : forall w l rest,
  ws_ok w = true -> forallb cchar_ok l = true ->
  read_string_field (render (CQuot w l) ++ rest) = Ok (map cchar_val l, rest).
Proof.
  intros w l rest Hw Hl. unfold read_string_field. cbn [render]. rewrite <- app_assoc. cbn [app].
  rewrite <- app_assoc. cbn [app]. rewrite lex_quot by assumption. reflexivity.
Qed.
