(* C20 — property theorems.  Statements only; proofs are in Proofs*.v.

   Proved here (for all inputs, no size bound other than the reader's own nesting limit):
   the reader of glyphs-reader/src/plist.rs returns the same value for every formatting of a
   document (white space, quoting and escape style, hex digit case, trailing commas, key order);
   it terminates on every input; the skipping reader used for unknown keys consumes exactly what
   the parsing reader consumes; a source split into a .glyphspackage reassembles to the source; the
   command-line entry point is the library entry point applied to the options computed from the
   arguments; a lone UFO is read as the one-source designspace that carries the UFO's public.*
   lib keys.
   Not proved (exercised by the correspondence run only): that the typed readers of font.rs, the
   front ends and the compilation produce the same font bytes from the same values. *)
From Coq Require Import List NArith ZArith QArith Bool Arith Permutation.
From FV.C20 Require Import Model Proofs.
Import ListNotations.
Open Scope N_scope.

(* Every formatting oracle: whatever white space, quoting, escapes, digit case, trailing commas
   and key order the printer is told to use, the reader returns the value that was printed.
   Assumes only that the value is one the reader can return (keys strictly sorted, numbers are
   number atoms, bytes < 256) and that it nests at most 257 levels (MAX_NESTING_DEPTH). *)
Theorem parse_print_any_format : forall (phi : oracle) (v : plist),
  wf v = true -> (vheight v <= 257)%nat -> parse (print phi v) = Ok v.
Proof. exact parse_print. Qed.
Print Assumptions parse_print_any_format.

(* ... hence two formattings of one value are read alike. *)
Theorem formatting_insensitive : forall (phi psi : oracle) (v : plist),
  wf v = true -> (vheight v <= 257)%nat -> parse (print phi v) = parse (print psi v).
Proof. exact formatting_insensitive_lemma. Qed.
Print Assumptions formatting_insensitive.

Definition sample_value : plist :=
  PDict [([97], PArr [PStr [120; 32; 34; 121]; PNum [45; 49; 46; 53]; PStr [113]; PStr [233; 128512]]);
         ([98], PData [1; 255]);
         ([122; 32], PDict [([107], PArr [])])].
Example sample_value_ok : wf sample_value = true /\ (vheight sample_value <= 257)%nat.
Proof. split; [reflexivity|vm_compute; repeat constructor]. Qed.
Example sample_two_formats :
  print (fun p i => N.of_nat (7 * i + 13 * length p + 3)) sample_value
  <> print (fun p i => N.of_nat (5 * i + 11 * length p + 2)) sample_value
  /\ parse (print (fun p i => N.of_nat (7 * i + 13 * length p + 3)) sample_value) = Ok sample_value.
Proof. split; [intro H; vm_compute in H; discriminate H|vm_compute; reflexivity]. Qed.

(* The same for an arbitrary well-formed document (every choice the grammar allows, not only the
   ones an oracle can produce), with anything after it that cannot extend a bare atom. *)
Theorem parse_render_any_document : forall (c : cst) (trailing : str),
  cst_ok c = true -> (height c <= 257)%nat -> head_ok trailing ->
  parse (render c ++ trailing) = Ok (denote c).
Proof. exact parse_render. Qed.
Print Assumptions parse_render_any_document.

Theorem equal_documents_parse_equal : forall c1 c2 : cst,
  cst_ok c1 = true -> cst_ok c2 = true -> (height c1 <= 257)%nat -> (height c2 <= 257)%nat ->
  denote c1 = denote c2 -> parse (render c1) = parse (render c2).
Proof. exact equal_documents_lemma. Qed.
Print Assumptions equal_documents_parse_equal.

Example documents_differing_in_everything_but_value :
  let c1 := CDict [] (ECons [] (KBare [97]) [32] (CAtom [32] [120]) []
                      (ECons [10] (KQuot [CRaw 98]) [] (CArr [] (ICons (CAtom [] [49]) [] INil) None []) [] ENil)) [10] in
  let c2 := CDict [9] (ECons [13] (KQuot [COct 98]) [] (CArr [32] (ICons (CAtom [10] [49]) [] INil) (Some [32]) [9]) [32]
                      (ECons [] (KQuot [CUni true 97]) [] (CQuot [] [CUni false 120]) [] ENil)) [] in
  cst_ok c1 = true /\ cst_ok c2 = true /\ denote c1 = denote c2 /\ render c1 <> render c2.
Proof. repeat split; try reflexivity. intro H; vm_compute in H; discriminate H. Qed.

(* Key order: with distinct keys, the dictionary built from the entries does not depend on their
   order (BTreeMap::insert in source order) ... *)
Theorem key_order_irrelevant : forall (l l' : list raw_entry) (w wc : str),
  Permutation l l' -> NoDup (map (fun e => fst (entry_sem e)) l) ->
  denote (CDict w (entries_of_list l) wc) = denote (CDict w (entries_of_list l') wc).
Proof. exact entries_order_lemma. Qed.
Print Assumptions key_order_irrelevant.

(* ... and every order is among the formattings the oracle printer quantifies over. *)
Theorem every_key_order_is_a_formatting : forall (A : Type) (l l' : list A),
  Permutation l' l -> exists pick, shuffle pick l = l'.
Proof. exact shuffle_reaches_every_order. Qed.
Print Assumptions every_key_order_is_a_formatting.

(* With a repeated key the order does matter (the later entry wins): the hypothesis above is needed. *)
Theorem key_order_with_duplicate_keys_refuted : exists c1 c2 : cst,
  cst_ok c1 = true /\ cst_ok c2 = true
  /\ (exists l l', Permutation l l' /\ c1 = CDict [] (entries_of_list l) [] /\ c2 = CDict [] (entries_of_list l') [])
  /\ parse (render c1) <> parse (render c2).
Proof.
  set (e1 := ([], KBare [97], [], CAtom [] [49], []) : raw_entry).
  set (e2 := ([], KBare [97], [], CAtom [] [50], []) : raw_entry).
  exists (CDict [] (entries_of_list [e1; e2]) []), (CDict [] (entries_of_list [e2; e1]) []).
  repeat split; try reflexivity.
  - exists [e1; e2], [e2; e1]. repeat split. apply perm_swap.
  - intro H. vm_compute in H. discriminate H.
Qed.
Print Assumptions key_order_with_duplicate_keys_refuted.

(* Quoting is insignificant exactly for strings that do not read as numbers: the reader (like the
   Glyphs application, which writes `.appVersion = "3219"` and `versionMajor = 3`) tells the string
   "1" from the number 1 by the quotes.  The printer therefore never strips the quotes of such a
   string (bare_ok), and never quotes a number. *)
Theorem quoting_a_number_refuted : exists s : str,
  atom_ok s = true /\ parse (render (CAtom [] s)) <> parse (render (CQuot [] (map CRaw s))).
Proof. exists [49]. split; [reflexivity|]. intro H. vm_compute in H. discriminate H. Qed.
Print Assumptions quoting_a_number_refuted.

Example key_order_nonvacuous :
  let l := [([], KBare [98], [], CAtom [] [49], []); ([10], KQuot [CRaw 97], [32], CQuot [] [], [])] : list raw_entry in
  NoDup (map (fun e => fst (entry_sem e)) l) /\ Permutation l (rev l) /\ l <> rev l.
Proof. cbn zeta. repeat split; [repeat constructor; cbn; intuition discriminate|apply Permutation_rev|discriminate]. Qed.

(* Where the one formatting-sensitive spot of the Glyphs loader comes from (finding
   glyphs-unicode-list-layout-changes-result): RawGlyph.unicode is a string field, and a string
   field rejects every list, whatever its layout; a `unicode = (a,b);` entry is therefore only
   readable after the textual rewrite of preprocess_unparsed_plist (a line-oriented regular
   expression, not modelled) has turned it into a quoted string, which it does for one layout only. *)
Theorem string_field_rejects_every_list : forall (w : str) (its : citems) (tr : option str) (wc rest : str),
  ws_ok w = true -> read_string_field (render (CArr w its tr wc) ++ rest) = Err.
Proof. exact string_field_rejects_list_lemma. Qed.
Print Assumptions string_field_rejects_every_list.

Theorem string_field_reads_quoted_string : forall (w : str) (l : list cchar) (rest : str),
  ws_ok w = true -> forallb cchar_ok l = true ->
  read_string_field (render (CQuot w l) ++ rest) = Ok (map cchar_val l, rest).
Proof. exact string_field_reads_string_lemma. Qed.
Print Assumptions string_field_reads_quoted_string.

(* The fuel of the model is never the reason for an answer: Plist::parse terminates on every
   input, well-formed or not. *)
Theorem parse_total : forall s : str, parse s <> OutOfFuel.
Proof. exact parse_never_out_of_fuel. Qed.
Print Assumptions parse_total.

(* Unknown keys: Tokenizer::skip_rec consumes exactly the text Plist::parse_rec consumes and fails
   exactly when it fails, so a value that is skipped is delimited like a value that is read,
   whatever its formatting. *)
Theorem skip_follows_parse : forall (fuel depth : nat) (s : str),
  skip_rec fuel depth s = drop_value (parse_rec fuel depth s).
Proof. intros fuel depth s. apply (proj1 (ProofsFuel.skip_follows_parse fuel)). Qed.
Print Assumptions skip_follows_parse.

(* .glyphspackage: split a source into fontinfo / one file per glyph / order.plist; whatever
   order the directory lists the glyph files in, loading the package gives the font dictionary
   and the glyph list of the file, in the order of the file.  Assumes the glyphs have distinct,
   non-empty names (otherwise the HashMap of load_package keeps one glyph per name, or fails). *)
Theorem package_reassembly : forall (top : list (str * plist)) (dir_order : list plist -> list plist),
  Permutation (dir_order (glyphs_of top)) (glyphs_of top) ->
  NoDup (map glyph_name (glyphs_of top)) ->
  Forall (fun g => glyph_name g <> []) (glyphs_of top) ->
  load_package (split top dir_order) = Some (load_file top).
Proof. intros top dir_order. unfold split. apply package_reassembly_lemma. Qed.
Print Assumptions package_reassembly.

Example package_nonvacuous :
  let g n := PDict [(k_glyphname, PStr n); ([119], PNum [54; 48; 48])] in
  let top := [([102], PStr [88]); (k_glyphs, PArr [g [98]; g [97]; g [99]])] in
  NoDup (map glyph_name (glyphs_of top)) /\ Forall (fun g => glyph_name g <> []) (glyphs_of top)
  /\ load_package (split top (@rev plist)) = Some (load_file top)
  /\ snd (load_file top) = [g [98]; g [97]; g [99]].
Proof.
  cbn zeta. repeat split.
  - vm_compute. repeat constructor; cbn; intuition discriminate.
  - vm_compute. repeat constructor; discriminate.
Qed.

(* Entry points: the command-line tool writes to its output file exactly the font the library
   entry point returns for the same source and the options computed from the arguments; both are
   generate_font_internal.  (The content is the transcription of main.rs / args.rs / lib.rs in
   Model.v, which the correspondence run checks against the real binary.) *)
Theorem entrypoints_share_core : forall (source font : Type) (source_flags : source -> flags)
    (compile : source -> flags -> bool -> bool -> option font) (a : args) (src : source),
  cli_main source font source_flags compile a (Some src)
  = match generate_font source font source_flags compile src (options_of_args a) with
    | Some f => Some (match a_output_file a with Some o => o | None => a_build_dir a ++ s_font_ttf end, f)
    | None => None
    end.
Proof. exact entrypoints_lemma. Qed.
Print Assumptions entrypoints_share_core.

(* What the flags of the command line mean once merged with the source's own: a tri-state flag
   given as =true / =false wins over the source, omitted it leaves the source's choice; the other
   flags can only add to what the source asks for. *)
Theorem cli_flag_semantics : forall (a : args) (sf : flags),
  let m := merge_compilation_flags (options_of_args a) sf in
  f_flatten m = tri (a_flatten_components a) (f_flatten sf)
  /\ f_erase_open_corners m = tri (a_erase_open_corners a) (f_erase_open_corners sf)
  /\ f_propagate_anchors m = tri (a_propagate_anchors a) (f_propagate_anchors sf)
  /\ f_prefer_simple m = a_prefer_simple_glyphs a || f_prefer_simple sf
  /\ f_decompose_transformed m = a_decompose_transformed_components a || f_decompose_transformed sf
  /\ f_decompose m = a_decompose_components a || f_decompose sf
  /\ f_keep_direction m = a_keep_direction a || f_keep_direction sf
  /\ f_production_names m = negb (a_no_production_names a) || f_production_names sf.
Proof. exact cli_flags_lemma. Qed.
Print Assumptions cli_flag_semantics.

(* A lone UFO is read through a synthetic designspace document.  For a hand-written designspace
   that lists that UFO and carries, in its own lib, exactly the UFO's public.* keys, the front end
   sees the same value under every lib key as for the lone UFO; and if the document has nothing
   else (no axes, the one source without name or location, no instances, no rules) it is the same
   document field by field, including the generated source name.
   (norad cannot read a <source> without a <dimension>, so a document on disk needs one axis; the
   run uses an axis with minimum = default = maximum, which fontir drops - exercised, not proved.) *)
Theorem ufo_as_designspace : forall (ufo_filename : str) (ufo_lib : lib) (doc : ds_doc),
  (forall k, lib_get k (ds_lib doc) = if is_public k then lib_get k ufo_lib else None) ->
  let a := ds_new true doc ufo_lib in
  let b := ds_new false (synthetic_doc ufo_filename) ufo_lib in
  (forall k, lib_get k (ds_lib a) = lib_get k (ds_lib b))
  /\ (ds_axes doc = [] -> ds_sources doc = ds_sources (synthetic_doc ufo_filename) ->
      ds_instances doc = [] -> ds_rules doc = [] ->
      ds_axes a = ds_axes b /\ ds_sources a = ds_sources b /\ ds_instances a = ds_instances b
      /\ ds_rules a = ds_rules b).
Proof. exact ufo_as_designspace_lemma. Qed.
Print Assumptions ufo_as_designspace.

(* The documented exception: a public.* key that only the UFO's lib has is read when the UFO is
   compiled alone and is not read through a designspace. *)
Theorem ufo_only_public_keys : forall (base ufo_lib : lib) (k : str),
  is_public k = true -> lib_get k base = None ->
  lib_get k (merge_lib base ufo_lib true) = None
  /\ lib_get k (merge_lib base ufo_lib false) = lib_get k ufo_lib.
Proof. exact ufo_only_keys_lemma. Qed.
Print Assumptions ufo_only_public_keys.

Example ufo_nonvacuous :
  let skip := [112;117;98;108;105;99;46;115] in  (* public.s *)
  let filt := [99;111;109] in
  let ufo_lib := [(skip, PArr [PStr [97]]); (filt, PStr [120])] in
  let ds := [(skip, PArr [PStr [97]])] in
  (forall k, lib_get k ds = if is_public k then lib_get k ufo_lib else None)
  /\ lib_get skip (merge_lib [] ufo_lib true) = None
  /\ lib_get skip (merge_lib ds ufo_lib true) = lib_get skip (merge_lib [] ufo_lib false).
Proof.
  cbn zeta. repeat split.
  intro k. cbn [lib_get].
  destruct (str_eqb k [112;117;98;108;105;99;46;115]) eqn:E.
  - apply ProofsDict.str_eqb_eq in E. subst k. reflexivity.
  - destruct (str_eqb k [99;111;109]) eqn:E2.
    + apply ProofsDict.str_eqb_eq in E2. subst k. reflexivity.
    + destruct (is_public k); reflexivity.
Qed.
