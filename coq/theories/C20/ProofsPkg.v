(* C20 — .glyphspackage reassembly, the two entry points, the lone UFO as a designspace. *)
From Coq Require Import List NArith ZArith Bool Arith Lia Permutation.
From FV.C20 Require Import Model ProofsDict.
Import ListNotations.
Open Scope N_scope.

(* ---- association lists *)
Lemma str_eqb_refl : forall a, str_eqb a a = true.
Proof. intro a. apply str_eqb_eq. reflexivity. Qed.

Lemma str_eqb_neq : forall a b, a <> b -> str_eqb a b = false.
Proof. intros a b H. destruct (str_eqb a b) eqn:E; [apply str_eqb_eq in E; contradiction|reflexivity]. Qed.

Lemma dict_get_remove_same : forall n m, dict_get n (dict_remove n m) = None.
Proof.
  induction m as [|[k v] t IH]; cbn [dict_remove dict_get]; [reflexivity|].
  destruct (str_eqb n k) eqn:E; [exact IH|]. cbn [dict_get]. rewrite E. exact IH.
Qed.

Lemma dict_get_remove_other : forall n n' m, n' <> n -> dict_get n' (dict_remove n m) = dict_get n' m.
Proof.
  induction m as [|[k v] t IH]; intro H; cbn [dict_remove dict_get]; [reflexivity|].
  destruct (str_eqb n k) eqn:E.
  - apply str_eqb_eq in E. subst k. rewrite (str_eqb_neq n' n H). apply IH. exact H.
  - cbn [dict_get]. rewrite IH by exact H. reflexivity.
Qed.

(* the map holds exactly the glyphs of L, each under its name *)
Definition holds (m : list (str * plist)) (L : list plist) : Prop :=
  forall n g, dict_get n m = Some g <-> (In g L /\ glyph_name g = n).

Lemma holds_nil_inv : forall m, holds m [] -> m = [].
Proof.
  intros [|[k v] t] H; [reflexivity|]. exfalso.
  destruct (H k v) as [H1 _]. cbn [dict_get] in H1. rewrite str_eqb_refl in H1.
  destruct (H1 eq_refl) as [[] _].
Qed.

Lemma holds_ext : forall m L L', (forall x, In x L <-> In x L') -> holds m L -> holds m L'.
Proof.
  intros m L L' E H n g. rewrite (H n g). rewrite (E g). reflexivity.
Qed.

Lemma holds_insert : forall m L g, holds m L -> glyph_name g <> [] ->
  ~ In (glyph_name g) (map glyph_name L) ->
  holds (hm_insert (glyph_name g) g m) (g :: L).
Proof.
  intros m L g Hm _ Hnin n' x. set (n := glyph_name g) in *. unfold hm_insert. cbn [dict_get In].
  destruct (str_eqb n' n) eqn:E.
  - apply str_eqb_eq in E. subst n'. split.
    + intro H. inversion H; subst x. split; [left; reflexivity|reflexivity].
    + intros [[Hin|Hin] Hname]; [congruence|]. exfalso. apply Hnin. apply in_map_iff.
      exists x. split; assumption.
  - assert (Hne : n' <> n) by (intro; subst; rewrite str_eqb_refl in E; discriminate).
    rewrite dict_get_remove_other by exact Hne. rewrite (Hm n' x). split.
    + intros [Hin Hname]. split; [right; exact Hin|exact Hname].
    + intros [[Hin|Hin] Hname]; [subst x; exfalso; apply Hne; symmetry; exact Hname|split; assumption].
Qed.

Lemma load_glyph_files_cons : forall g r m, glyph_name g <> [] ->
  load_glyph_files (g :: r) m = load_glyph_files r (hm_insert (glyph_name g) g m).
Proof.
  intros g r m H. cbn [load_glyph_files]. destruct (glyph_name g); [contradiction|reflexivity].
Qed.

Lemma load_glyph_files_spec : forall files m L,
  holds m L -> NoDup (map glyph_name (files ++ L)) ->
  Forall (fun g => glyph_name g <> []) files ->
  exists m', load_glyph_files files m = Some m' /\ holds m' (files ++ L).
Proof.
  induction files as [|g r IH]; intros m L Hm Hnd Hne.
  - exists m. split; [reflexivity|exact Hm].
  - inversion Hne as [|? ? Hg Hr]; subst. cbn [app map] in Hnd. inversion Hnd as [|? ? Hnin Hnd']; subst.
    assert (HninL : ~ In (glyph_name g) (map glyph_name L)).
    { intro H. apply Hnin. rewrite map_app. apply in_or_app. right. exact H. }
    pose proof (holds_insert m L g Hm Hg HninL) as Hm1.
    rewrite load_glyph_files_cons by exact Hg.
    destruct (IH (hm_insert (glyph_name g) g m) (g :: L) Hm1) as (m' & E & Hm').
    + eapply Permutation_NoDup; [|exact Hnd].
      change (glyph_name g :: map glyph_name (r ++ L)) with (map glyph_name (g :: r ++ L)).
      apply Permutation_map. apply Permutation_middle.
    + exact Hr.
    + exists m'. split; [exact E|].
      eapply holds_ext; [|exact Hm']. intro x. cbn [app In]. rewrite !in_app_iff. cbn [In]. tauto.
Qed.

Lemma holds_remove : forall m g L, holds m (g :: L) -> NoDup (map glyph_name (g :: L)) ->
  holds (dict_remove (glyph_name g) m) L.
Proof.
  intros m g L Hm Hnd n' x. cbn [map] in Hnd. inversion Hnd as [|? ? Hnin _]; subst.
  destruct (list_eq_dec N.eq_dec n' (glyph_name g)) as [E|E].
  - subst n'. rewrite dict_get_remove_same. split; [discriminate|].
    intros [Hin Hname]. exfalso. apply Hnin. apply in_map_iff. exists x. split; assumption.
  - rewrite dict_get_remove_other by exact E. rewrite (Hm n' x). cbn [In]. split.
    + intros [[Hin|Hin] Hname]; [subst x; exfalso; apply E; symmetry; exact Hname|split; assumption].
    + intros [Hin Hname]. split; [right; exact Hin|exact Hname].
Qed.

Lemma apply_order_spec : forall gs m acc,
  holds m gs -> NoDup (map glyph_name gs) ->
  apply_order (map (fun g => PStr (glyph_name g)) gs) m acc = Some (rev acc ++ gs, []).
Proof.
  induction gs as [|g t IH]; intros m acc Hm Hnd; cbn [map apply_order].
  - rewrite app_nil_r. rewrite (holds_nil_inv m Hm). reflexivity.
  - assert (Hg : dict_get (glyph_name g) m = Some g) by (apply Hm; split; [left; reflexivity|reflexivity]).
    rewrite Hg. rewrite (IH (dict_remove (glyph_name g) m) (g :: acc)).
    + cbn [rev]. rewrite <- app_assoc. reflexivity.
    + apply holds_remove; assumption.
    + cbn [map] in Hnd. inversion Hnd; assumption.
Qed.

(* Splitting a source into a package and loading the package gives the glyphs of the file, in the
   order of the file, whatever order the directory is listed in. *)
Theorem package_reassembly_lemma : forall top files,
  Permutation files (glyphs_of top) ->
  NoDup (map glyph_name (glyphs_of top)) ->
  Forall (fun g => glyph_name g <> []) (glyphs_of top) ->
  load_package {| pk_fontinfo := dict_remove k_glyphs top;
                  pk_files := files;
                  pk_order := Some (PArr (map (fun g => PStr (glyph_name g)) (glyphs_of top))) |}
  = Some (load_file top).
Proof.
  intros top files Hp Hnd Hne. unfold load_package, load_file. cbn [pk_files pk_order pk_fontinfo].
  destruct (load_glyph_files_spec files [] []) as (m & E & Hm).
  - intros n g. cbn [dict_get In]. split; [discriminate|intros [[] _]].
  - rewrite app_nil_r. eapply Permutation_NoDup; [apply Permutation_map; symmetry; exact Hp|exact Hnd].
  - eapply Permutation_Forall; [symmetry; exact Hp|exact Hne].
  - rewrite E. rewrite app_nil_r in Hm.
    assert (Hm' : holds m (glyphs_of top)).
    { eapply holds_ext; [|exact Hm]. intro x. split; apply Permutation_in; [exact Hp|symmetry; exact Hp]. }
    rewrite (apply_order_spec _ m [] Hm' Hnd). cbn [rev app sorted_rest fold_right map].
    rewrite app_nil_r. reflexivity.
Qed.

(* ---- entry points *)
Lemma entrypoints_lemma : forall (source font : Type) (source_flags : source -> flags)
    (compile : source -> flags -> bool -> bool -> option font) (a : args) (src : source),
  cli_main source font source_flags compile a (Some src)
  = match generate_font source font source_flags compile src (options_of_args a) with
    | Some f => Some (match a_output_file a with Some o => o | None => a_build_dir a ++ s_font_ttf end, f)
    | None => None
    end.
Proof.
  intros. unfold cli_main, run, generate_font. cbn [options_of_args o_output_file].
  destruct (a_output_file a); reflexivity.
Qed.

Definition tri (o : option bool) (source_default : bool) : bool :=
  match o with Some b => b | None => source_default end.

Lemma cli_flags_lemma : forall a sf,
  let m := merge_compilation_flags (options_of_args a) sf in
  f_flatten m = tri (a_flatten_components a) (f_flatten sf)
  /\ f_erase_open_corners m = tri (a_erase_open_corners a) (f_erase_open_corners sf)
  /\ f_propagate_anchors m = tri (a_propagate_anchors a) (f_propagate_anchors sf)
  /\ f_prefer_simple m = a_prefer_simple_glyphs a || f_prefer_simple sf
  /\ f_decompose_transformed m = a_decompose_transformed_components a || f_decompose_transformed sf
  /\ f_decompose m = a_decompose_components a || f_decompose sf
  /\ f_keep_direction m = a_keep_direction a || f_keep_direction sf
  /\ f_production_names m = negb (a_no_production_names a) || f_production_names sf.
Proof.
  intros a sf. cbn.
  destruct (a_flatten_components a) as [[|]|]; destruct (a_erase_open_corners a) as [[|]|];
    destruct (a_propagate_anchors a) as [[|]|]; cbn;
    repeat split; rewrite ?andb_true_r, ?andb_false_r, ?orb_false_l, ?orb_true_l; reflexivity.
Qed.

(* ---- lone UFO vs designspace *)
Lemma lib_get_snoc : forall k' base k v,
  lib_get k' (base ++ [(k, v)])
  = match lib_get k' base with Some x => Some x | None => if str_eqb k' k then Some v else None end.
Proof.
  induction base as [|[k0 v0] t IH]; intros k v; cbn [app lib_get]; [reflexivity|].
  destruct (str_eqb k' k0); [reflexivity|apply IH].
Qed.

Lemma lib_get_merge : forall child base skip k,
  lib_get k (merge_lib base child skip)
  = match lib_get k base with
    | Some v => Some v
    | None => if skip && is_public k then None else lib_get k child
    end.
Proof.
  induction child as [|[k0 v0] t IH]; intros base skip k; cbn [merge_lib lib_get].
  - destruct (lib_get k base); [reflexivity|]. destruct (skip && is_public k); reflexivity.
  - destruct (skip && is_public k0) eqn:Es.
    + rewrite IH. destruct (lib_get k base); [reflexivity|].
      destruct (str_eqb k k0) eqn:E; [|reflexivity].
      apply str_eqb_eq in E. subst k0. rewrite Es. reflexivity.
    + destruct (lib_get k0 base) eqn:Eb.
      * rewrite IH. destruct (lib_get k base) eqn:Ek; [reflexivity|].
        destruct (str_eqb k k0) eqn:E; [|reflexivity].
        apply str_eqb_eq in E. subst k0. congruence.
      * rewrite IH. rewrite lib_get_snoc. destruct (lib_get k base) eqn:Ek; [reflexivity|].
        destruct (str_eqb k k0) eqn:E.
        -- apply str_eqb_eq in E. subst k0. rewrite Es. reflexivity.
        -- reflexivity.
Qed.

Lemma ufo_as_designspace_lemma : forall ufo_filename ufo_lib (doc : ds_doc),
  (forall k, lib_get k (ds_lib doc) = if is_public k then lib_get k ufo_lib else None) ->
  let a := ds_new true doc ufo_lib in
  let b := ds_new false (synthetic_doc ufo_filename) ufo_lib in
  (forall k, lib_get k (ds_lib a) = lib_get k (ds_lib b))
  /\ (ds_axes doc = [] -> ds_sources doc = ds_sources (synthetic_doc ufo_filename) ->
      ds_instances doc = [] -> ds_rules doc = [] ->
      ds_axes a = ds_axes b /\ ds_sources a = ds_sources b /\ ds_instances a = ds_instances b
      /\ ds_rules a = ds_rules b).
Proof.
  intros f ufo_lib doc H. cbn zeta. split.
  - intro k. cbn [ds_new ds_lib synthetic_doc]. rewrite !lib_get_merge. cbn [lib_get andb]. rewrite (H k).
    destruct (is_public k); [destruct (lib_get k ufo_lib); reflexivity|reflexivity].
  - intros Ha Hs Hi Hr. cbn [ds_new ds_axes ds_sources ds_instances ds_rules synthetic_doc].
    rewrite Ha, Hs, Hi, Hr. repeat split.
Qed.

Lemma ufo_only_keys_lemma : forall base ufo_lib k,
  is_public k = true -> lib_get k base = None ->
  lib_get k (merge_lib base ufo_lib true) = None
  /\ lib_get k (merge_lib base ufo_lib false) = lib_get k ufo_lib.
Proof.
  intros base ufo_lib k Hp Hb. rewrite !lib_get_merge, Hb, Hp. split; reflexivity.
Qed.
