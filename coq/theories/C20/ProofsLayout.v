(* C20 — whatever the formatting oracle answers, the printer produces a well-formed document that
   denotes the value it was given. *)
From Coq Require Import List NArith ZArith Bool Arith Lia ZifyBool ZifyN ZifyNat Sorted Permutation.
From FV.C20 Require Import Model ProofsLex ProofsParse ProofsDict.
Import ListNotations.
Open Scope N_scope.

Section PlistInd.
  Variable P : plist -> Prop.
  Hypothesis HD : forall d, Forall (fun e : str * plist => P (snd e)) d -> P (PDict d).
  Hypothesis HA : forall a, Forall P a -> P (PArr a).
  Hypothesis HS : forall s, P (PStr s).
  Hypothesis HN : forall s, P (PNum s).
  Hypothesis HB : forall b, P (PData b).
  Fixpoint plist_ind' (v : plist) : P v :=
    match v with
    | PDict d =>
        HD d ((fix go (d : list (str * plist)) : Forall (fun e : str * plist => P (snd e)) d :=
                 match d with
                 | [] => Forall_nil _
                 | (k, x) :: t => Forall_cons (k, x) (plist_ind' x) (go t)
                 end) d)
    | PArr a =>
        HA a ((fix go (a : list plist) : Forall P a :=
                 match a with
                 | [] => Forall_nil _
                 | x :: t => Forall_cons x (plist_ind' x) (go t)
                 end) a)
    | PStr s => HS s
    | PNum s => HN s
    | PData b => HB b
    end.
End PlistInd.

Lemma ws_of_pos_ok : forall p, ws_ok (ws_of_pos p) = true.
Proof.
  fix IH 1. intros [[q|q|]|[q|q|]|]; cbn [ws_of_pos ws_ok forallb]; try reflexivity;
    change (forallb is_ws (ws_of_pos q)) with (ws_ok (ws_of_pos q)); rewrite IH; reflexivity.
Qed.

Lemma ws_of_ok : forall n, ws_ok (ws_of n) = true.
Proof. intros [|p]; [reflexivity|apply ws_of_pos_ok]. Qed.

Lemma style_char_spec : forall n c, cchar_ok (style_char n c) = true /\ cchar_val (style_char n c) = c.
Proof.
  intros n c. unfold style_char.
  assert (F : cchar_ok (if (c =? 34) || (c =? 92) then CEsc c else CRaw c) = true
              /\ cchar_val (if (c =? 34) || (c =? 92) then CEsc c else CRaw c) = c).
  { destruct ((c =? 34) || (c =? 92)) eqn:E; cbn [cchar_ok cchar_val]; split; try reflexivity; lia. }
  destruct (n mod 4) as [|[q|[q|q|]|]]; try exact F.
  - destruct (valid_scalar c) eqn:E; [split; [exact E|reflexivity]|exact F].
  - destruct (valid_scalar c) eqn:E; [split; [exact E|reflexivity]|exact F].
  - destruct (valid_scalar c) eqn:E; [split; [exact E|reflexivity]|exact F].
  - destruct (c <? 256) eqn:E; [split; [exact E|reflexivity]|exact F].
  - destruct (cchar_ok (CEsc c)) eqn:E; [split; [exact E|reflexivity]|exact F].
Qed.

Lemma style_chars_spec : forall f s i,
  forallb cchar_ok (style_chars f i s) = true /\ map cchar_val (style_chars f i s) = s.
Proof.
  induction s as [|c s IH]; intro i; cbn [style_chars forallb map]; [split; reflexivity|].
  destruct (style_char_spec (f i) c) as [H1 H2]. destruct (IH (S i)) as [H3 H4].
  rewrite H1, H2, H3, H4. split; reflexivity.
Qed.

Lemma layout_key_spec : forall phi q k,
  key_ok (layout_key phi q k) = true /\ key_val (layout_key phi q k) = k.
Proof.
  intros phi q k. unfold layout_key.
  destruct (atom_ok k && N.odd (phi q 1%nat)) eqn:E.
  - apply andb_true_iff in E as [E _]. split; [exact E|reflexivity].
  - cbn [key_ok key_val]. apply style_chars_spec.
Qed.

(* ---- lists of entries / items *)
Definition raw_entry := (str * ckey * str * cst * str)%type.
Definition entry_ok (e : raw_entry) : bool :=
  let '(kw, k, ew, v, sw) := e in ws_ok kw && key_ok k && ws_ok ew && cst_ok v && ws_ok sw.
Definition entry_sem (e : raw_entry) : str * plist :=
  let '(kw, k, ew, v, sw) := e in (key_val k, denote v).
Definition entry_height (e : raw_entry) : nat :=
  let '(kw, k, ew, v, sw) := e in height v.

Lemma entries_of_list_ok : forall l, Forall (fun e => entry_ok e = true) l ->
  entries_ok (entries_of_list l) = true.
Proof.
  induction l as [|[[[[kw k] ew] v] sw] t IH]; intro H; [reflexivity|].
  inversion H as [|? ? He Ht]; subst. cbn [entries_of_list entries_ok]. cbn [entry_ok] in He.
  rewrite He. rewrite IH by assumption. reflexivity.
Qed.

Lemma entries_of_list_denote : forall l acc,
  denote_entries (entries_of_list l) acc = build (map entry_sem l) acc.
Proof.
  induction l as [|[[[[kw k] ew] v] sw] t IH]; intro acc; [reflexivity|].
  cbn [entries_of_list denote_entries map entry_sem build fold_left fst snd]. rewrite IH. reflexivity.
Qed.

Definition list_max (l : list nat) : nat := fold_right Nat.max 0%nat l.

Lemma list_max_perm : forall l l', Permutation l l' -> list_max l = list_max l'.
Proof.
  induction 1; unfold list_max in *; cbn [fold_right] in *.
  - reflexivity.
  - lia.
  - lia.
  - congruence.
Qed.

Lemma entries_of_list_height : forall l,
  height_entries (entries_of_list l) = list_max (map entry_height l).
Proof.
  induction l as [|[[[[kw k] ew] v] sw] t IH]; [reflexivity|].
  cbn [entries_of_list height_entries map entry_height list_max fold_right]. rewrite IH. reflexivity.
Qed.

Lemma items_of_list_ok : forall l, Forall (fun e : cst * str => cst_ok (fst e) = true /\ ws_ok (snd e) = true) l ->
  items_ok (items_of_list l) = true.
Proof.
  induction l as [|[v w] t IH]; intro H; [reflexivity|].
  inversion H as [|? ? [Hv Hw] Ht]; subst. cbn [items_of_list items_ok]. cbn [fst snd] in *.
  rewrite Hv, Hw, IH by assumption. reflexivity.
Qed.

Lemma items_of_list_denote : forall l, denote_items (items_of_list l) = map (fun e => denote (fst e)) l.
Proof.
  induction l as [|[v w] t IH]; [reflexivity|]. cbn [items_of_list denote_items map fst]. rewrite IH. reflexivity.
Qed.

Lemma items_of_list_height : forall l,
  height_items (items_of_list l) = list_max (map (fun e => height (fst e)) l).
Proof.
  induction l as [|[v w] t IH]; [reflexivity|].
  cbn [items_of_list height_items map fst list_max fold_right]. rewrite IH. reflexivity.
Qed.

(* ---- the main statement *)
Definition layout_good (v : plist) : Prop :=
  forall phi p, wf v = true ->
    cst_ok (layout phi p v) = true /\ denote (layout phi p v) = v /\ height (layout phi p v) = vheight v.

Lemma bytes_layout : forall (g : nat -> bool * bool) b j,
  forallb (fun x => x <? 256) b = true ->
  forallb (fun x : N * bool * bool => fst (fst x) <? 256)
          (mapi_from (fun i x => (x, fst (g i), snd (g i))) j b) = true
  /\ map (fun x : N * bool * bool => fst (fst x)) (mapi_from (fun i x => (x, fst (g i), snd (g i))) j b) = b.
Proof.
  induction b as [|x b IH]; intros j H; cbn [mapi_from forallb map fst]; [split; reflexivity|].
  cbn [forallb] in H. apply andb_true_iff in H as [Hx Hb]. destruct (IH (S j) Hb) as [H1 H2].
  rewrite Hx, H1, H2. split; reflexivity.
Qed.

Theorem layout_spec : forall v, layout_good v.
Proof.
  apply plist_ind'; unfold layout_good.
  - (* PDict *)
    intros d IH phi p Hwf. cbn [wf] in Hwf. apply andb_true_iff in Hwf as [Hsorted Hall].
    cbn [layout].
    set (f := fun (j : nat) (e : str * plist) =>
                (ws_of (phi ((2 * j + 1)%nat :: p) 0%nat), layout_key phi ((2 * j + 1)%nat :: p) (fst e),
                 ws_of (phi ((2 * j + 1)%nat :: p) 2%nat), layout phi ((2 * j)%nat :: p) (snd e),
                 ws_of (phi ((2 * j + 1)%nat :: p) 3%nat))).
    assert (G : forall j, Forall (fun e => entry_ok e = true) (mapi_from f j d)
                          /\ map entry_sem (mapi_from f j d) = d
                          /\ list_max (map entry_height (mapi_from f j d))
                             = fold_right (fun e m => Nat.max (vheight (snd e)) m) 0%nat d).
    { clear Hsorted. induction d as [|[k x] t IHt]; intro j; cbn [mapi_from map fold_right list_max].
      - repeat split; constructor.
      - inversion IH as [|? ? Hx Ht]; subst. cbn [forallb snd] in Hall.
        apply andb_true_iff in Hall as [Hwx Hwt]. cbn [snd] in Hx.
        destruct (Hx phi ((2 * j)%nat :: p) Hwx) as (O1 & D1 & H1).
        destruct (IHt Ht Hwt (S j)) as (O2 & D2 & H2).
        destruct (layout_key_spec phi ((2 * j + 1)%nat :: p) k) as [K1 K2].
        repeat split.
        + constructor; [|exact O2]. unfold f. cbn [entry_ok fst snd].
          rewrite !ws_of_ok, K1, O1. reflexivity.
        + unfold f at 1. cbn [entry_sem fst snd]. rewrite K2, D1, D2. reflexivity.
        + unfold f at 1. cbn [entry_height snd]. rewrite H1. fold (list_max (map entry_height (mapi_from f (S j) t))).
          rewrite H2. reflexivity. }
    destruct (G 0%nat) as (GO & GD & GH).
    pose proof (shuffle_perm _ (fun i : nat => phi p (4 + i)%nat) (mapi_from f 0%nat d)) as Hp.
    cbn [cst_ok denote height]. repeat split.
    + rewrite !ws_of_ok. rewrite entries_of_list_ok; [reflexivity|].
      eapply Permutation_Forall; [symmetry; exact Hp|exact GO].
    + f_equal. rewrite entries_of_list_denote. apply build_sorted_id.
      * apply keys_sorted_Sorted. exact Hsorted.
      * eapply Permutation_trans; [apply Permutation_map; exact Hp|]. rewrite GD. reflexivity.
    + cbn [vheight]. f_equal. rewrite entries_of_list_height. rewrite <- GH.
      apply list_max_perm. apply Permutation_map. exact Hp.
  - (* PArr *)
    intros a IH phi p Hwf. cbn [wf] in Hwf. cbn [layout].
    set (g := fun (j : nat) (x : plist) =>
                (layout phi ((2 * j)%nat :: p) x, ws_of (phi ((2 * j + 1)%nat :: p) 0%nat))).
    assert (G : forall j, Forall (fun e : cst * str => cst_ok (fst e) = true /\ ws_ok (snd e) = true) (mapi_from g j a)
                          /\ map (fun e => denote (fst e)) (mapi_from g j a) = a
                          /\ list_max (map (fun e => height (fst e)) (mapi_from g j a))
                             = fold_right (fun x m => Nat.max (vheight x) m) 0%nat a).
    { induction a as [|x t IHt]; intro j; cbn [mapi_from map fold_right list_max].
      - repeat split; constructor.
      - inversion IH as [|? ? Hx Ht]; subst. cbn [forallb] in Hwf.
        apply andb_true_iff in Hwf as [Hwx Hwt].
        destruct (Hx phi ((2 * j)%nat :: p) Hwx) as (O1 & D1 & H1).
        destruct (IHt Ht Hwt (S j)) as (O2 & D2 & H2).
        repeat split.
        + constructor; [|exact O2]. unfold g. cbn [fst snd]. rewrite ws_of_ok, O1. split; reflexivity.
        + unfold g at 1. cbn [fst]. rewrite D1, D2. reflexivity.
        + unfold g at 1. cbn [fst]. rewrite H1.
          fold (list_max (map (fun e : cst * str => height (fst e)) (mapi_from g (S j) t))).
          rewrite H2. reflexivity. }
    destruct (G 0%nat) as (GO & GD & GH).
    cbn [cst_ok denote height]. repeat split.
    + rewrite !ws_of_ok. rewrite items_of_list_ok by exact GO. cbn [andb].
      destruct a as [|x t]; [reflexivity|].
      destruct (N.odd (phi p 2%nat)); [|reflexivity]. rewrite ws_of_ok. reflexivity.
    + f_equal. rewrite items_of_list_denote. exact GD.
    + cbn [vheight]. f_equal. rewrite items_of_list_height. exact GH.
  - (* PStr *)
    intros s phi p _. cbn [layout].
    destruct (bare_ok s && N.odd (phi p 1%nat)) eqn:E.
    + apply andb_true_iff in E as [E _]. unfold bare_ok in E. apply andb_true_iff in E as [Ea En].
      cbn [cst_ok denote height vheight]. rewrite ws_of_ok, Ea. repeat split.
      unfold parse_atom. destruct (atom_is_number s); [discriminate|reflexivity].
    + destruct (style_chars_spec (phi p) s 4%nat) as [H1 H2].
      cbn [cst_ok denote height vheight]. rewrite ws_of_ok, H1, H2. repeat split.
  - (* PNum *)
    intros s phi p Hwf. cbn [wf] in Hwf. apply andb_true_iff in Hwf as [Ha Hn].
    cbn [layout cst_ok denote height vheight]. rewrite ws_of_ok, Ha. repeat split.
    unfold parse_atom. rewrite Hn. reflexivity.
  - (* PData *)
    intros b phi p Hwf. cbn [wf] in Hwf. cbn [layout cst_ok denote height vheight].
    destruct (bytes_layout (fun i => (N.odd (phi p (4 + i)%nat), N.odd (phi p (4 + i)%nat / 2))) b 0%nat Hwf)
      as [H1 H2].
    cbn [fst snd] in H1, H2. rewrite ws_of_ok, H1, H2. repeat split.
Qed.

(* the theorem of the design: every formatting of a value reads back as that value *)
Theorem parse_print : forall (phi : oracle) (v : plist),
  wf v = true -> (vheight v <= 257)%nat -> parse (print phi v) = Ok v.
Proof.
  intros phi v Hwf Hh. destruct (layout_spec v phi [] Hwf) as (Hok & Hden & Hht).
  unfold print. rewrite <- (app_nil_r (render (layout phi [] v))).
  rewrite parse_render; [rewrite Hden; reflexivity|exact Hok|lia|exact I].
Qed.
