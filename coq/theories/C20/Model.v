(* C20 — model of the ASCII-plist reader of glyphs-reader/src/plist.rs (Token::lex, Token::expect,
   parse_escape, Plist::parse_rec, Plist::parse_atom, numeric_ok, Tokenizer::skip_rec), of a
   printer parameterised by every formatting choice the reader accepts, of .glyphspackage
   loading (glyphs-reader/src/font.rs RawFont::load / load_package) at the value level, of the two
   entry points (fontc/src/main.rs + args.rs, fontc/src/lib.rs) and of the lone-UFO synthetic
   designspace with its lib merge (ufo2fontir/src/source.rs).
   Executable definitions only; proofs are in Proofs*.v.

   Abstraction: a Rust &str is modelled as the list of its Unicode scalar values, not of its
   UTF-8 bytes.  The reader only ever compares bytes with ASCII values and every byte of a
   multi-byte UTF-8 sequence is >= 0x80, so a byte index of the real code that sits on a
   character boundary corresponds to a suffix of the list; where the real code counts bytes
   (`s.len() >= 4` before an octal escape, chunks_exact(2) in a data block) the two counts
   differ only on inputs that are rejected either way (a non-ASCII character where a digit is
   required). *)
From Coq Require Import List NArith ZArith QArith Qabs Bool Arith.
Import ListNotations.
Open Scope N_scope.

Definition ch := N.
Definition str := list ch.

(* Result of a fuelled function: fuel exhaustion is kept apart from a reported error, so that no
   theorem can hold because the fuel ran out. *)
Inductive res (A : Type) : Type :=
| Ok (a : A)
| Err
| OutOfFuel.
Arguments Ok {A} a.
Arguments Err {A}.
Arguments OutOfFuel {A}.

(* ---------------------------------------------------------------- characters *)
Definition is_digit (c : ch) : bool := (48 <=? c) && (c <=? 57).
Definition is_upper (c : ch) : bool := (65 <=? c) && (c <=? 90).
Definition is_lower (c : ch) : bool := (97 <=? c) && (c <=? 122).
(* is_numeric: digit, '.', '-' *)
Definition is_numeric (c : ch) : bool := is_digit c || (c =? 46) || (c =? 45).
(* is_alnum: is_numeric, letters, '_' '$' '/' ':' '.' '-' *)
Definition is_alnum (c : ch) : bool :=
  is_numeric c || is_upper c || is_lower c || (c =? 95) || (c =? 36) || (c =? 47) || (c =? 58)
  || (c =? 46) || (c =? 45).
Definition is_hex_upper (c : ch) : bool := is_digit c || ((65 <=? c) && (c <=? 70)).
(* is_ascii_whitespace of plist.rs: ' ' '\t' '\r' '\n' *)
Definition is_ws (c : ch) : bool := (c =? 32) || (c =? 9) || (c =? 13) || (c =? 10).
Definition to_lower (c : ch) : ch := if is_upper c then c + 32 else c.

Fixpoint str_eqb (a b : str) : bool :=
  match a, b with
  | [], [] => true
  | x :: a', y :: b' => (x =? y) && str_eqb a' b'
  | _, _ => false
  end.

(* Ord for str / SmolStr: lexicographic on bytes = lexicographic on scalar values *)
Fixpoint str_cmp (a b : str) : comparison :=
  match a, b with
  | [], [] => Eq
  | [], _ :: _ => Lt
  | _ :: _, [] => Gt
  | x :: a', y :: b' => match x ?= y with Eq => str_cmp a' b' | c => c end
  end.

Fixpoint skip_ws (s : str) : str :=
  match s with
  | c :: r => if is_ws c then skip_ws r else s
  | [] => []
  end.

(* longest prefix satisfying p, and the rest *)
Fixpoint span (p : ch -> bool) (s : str) : str * str :=
  match s with
  | c :: r => if p c then let (a, b) := span p r in (c :: a, b) else ([], s)
  | [] => ([], [])
  end.

(* ------------------------------------------------------------------- escapes *)
(* char::to_digit(16) / byte_from_hex: both cases accepted *)
Definition hex_val (c : ch) : option N :=
  if is_digit c then Some (c - 48)
  else if (97 <=? c) && (c <=? 102) then Some (c - 87)
  else if (65 <=? c) && (c <=? 70) then Some (c - 55)
  else None.

(* parse_hex_digit: the first character must be a hex digit; then up to four are folded *)
Fixpoint hex_run (n : nat) (acc : N) (s : str) : N * str :=
  match n with
  | O => (acc, s)
  | S n' =>
      match s with
      | c :: r => match hex_val c with
                  | Some d => hex_run n' (acc * 16 + d) r
                  | None => (acc, s)
                  end
      | [] => (acc, s)
      end
  end.

Definition parse_hex4 (s : str) : option (N * str) :=
  match s with
  | c :: _ => match hex_val c with Some _ => Some (hex_run 4 0 s) | None => None end
  | [] => None
  end.

Definition is_surrogate (v : N) : bool := (0xD800 <=? v) && (v <=? 0xDFFF).
Definition is_high (v : N) : bool := (0xD800 <=? v) && (v <=? 0xDBFF).
Definition is_low (v : N) : bool := (0xDC00 <=? v) && (v <=? 0xDFFF).

(* char::decode_utf16([v]).next() and ([v, v2]).next(), errors as None *)
Definition decode1 (v : N) : option ch := if is_surrogate v then None else Some v.
Definition decode2 (v v2 : N) : option ch :=
  if negb (is_surrogate v) then Some v
  else if is_high v && is_low v2 then Some (0x10000 + (v - 0xD800) * 1024 + (v2 - 0xDC00))
  else None.

Definition is_oct (c : ch) : bool := (48 <=? c) && (c <=? 55).

(* parse_escape, given the input after the backslash; returns the character and the input after
   the escape.  None = Err(UnknownEscape / InvalidUnicodeEscape). *)
Definition parse_escape (s : str) : option (ch * str) :=
  match s with
  | [] => None
  | b :: r =>
      if (b =? 34) || (b =? 92) then Some (b, r)
      else if b =? 110 then Some (10, r)
      else if b =? 114 then Some (13, r)
      else if b =? 116 then Some (9, r)
      else if b =? 85 then
        match r with
        | [] => None
        | _ :: _ =>
            match parse_hex4 r with
            | None => None
            | Some (v, r1) =>
                let pair := match r1 with 92 :: 85 :: _ => true | _ => false end in
                if negb (is_surrogate v) || negb pair then
                  match decode1 v with Some c => Some (c, r1) | None => None end
                else
                  match parse_hex4 (skipn 2 r1) with
                  | None => None
                  | Some (v2, r2) =>
                      match decode2 v v2 with Some c => Some (c, r2) | None => None end
                  end
            end
        end
      else if (48 <=? b) && (b <=? 51) then
        match r with
        | b1 :: b2 :: r' =>
            if is_oct b1 && is_oct b2
            then Some ((b - 48) * 64 + (b1 - 48) * 8 + (b2 - 48), r')
            else None
        | _ => None
        end
      else None
  end.

(* ---------------------------------------------------------------------- lexer *)
Inductive token : Type :=
| TEof
| TOpenBrace
| TOpenParen
| TData (b : list N)
| TString (s : str)
| TAtom (s : str).

(* the double-quote arm of Token::lex, after the opening quote; acc is the string so far, reversed *)
Fixpoint lex_quoted (fuel : nat) (s : str) (acc : str) : res (str * str) :=
  match fuel with
  | O => OutOfFuel
  | S f =>
      match s with
      | [] => Err                                      (* UnclosedString *)
      | c :: r =>
          if c =? 34 then Ok (rev acc, r)
          else if c =? 92 then
            match r with
            | [] => Err                                (* UnclosedString *)
            | _ :: _ =>
                match parse_escape r with
                | None => Err
                | Some (x, r') => lex_quoted f r' (x :: acc)
                end
            end
          else lex_quoted f r (c :: acc)
      end
  end.

(* text of a data block up to '>' *)
Fixpoint split_gt (s : str) : option (str * str) :=
  match s with
  | [] => None                                         (* UnclosedData *)
  | c :: r => if c =? 62 then Some ([], r)
              else match split_gt r with Some (a, b) => Some (c :: a, b) | None => None end
  end.

Fixpoint hex_pairs (s : str) : option (list N) :=
  match s with
  | [] => Some []
  | [_] => None                                        (* BadData: odd length *)
  | a :: b :: r =>
      match hex_val a, hex_val b, hex_pairs r with
      | Some x, Some y, Some t => Some (x * 16 + y :: t)
      | _, _, _ => None
      end
  end.

Definition lex (s : str) : res (token * str) :=
  match skip_ws s with
  | [] => Ok (TEof, [])
  | b :: r =>
      if b =? 123 then Ok (TOpenBrace, r)
      else if b =? 40 then Ok (TOpenParen, r)
      else if b =? 60 then
        match split_gt r with
        | None => Err
        | Some (d, r') => match hex_pairs d with Some bytes => Ok (TData bytes, r') | None => Err end
        end
      else if b =? 34 then
        match lex_quoted (S (length r)) r [] with
        | Ok (x, r') => Ok (TString x, r')
        | Err => Err
        | OutOfFuel => OutOfFuel
        end
      else if is_alnum b then let (a, r') := span is_alnum r in Ok (TAtom (b :: a), r')
      else Err                                         (* UnexpectedChar *)
  end.

(* Token::expect *)
Definition expect (s : str) (delim : ch) : option str :=
  match skip_ws s with
  | b :: r => if b =? delim then Some r else None
  | [] => None
  end.

(* ---------------------------------------------------------------------- values *)
(* Plist.  Integer and Float are kept as the atom text (PNum): the i64 / f64 value is a function
   of that text (num_int / num_float below), so equality of PNum is finer than equality of the
   Rust value. *)
Inductive plist : Type :=
| PDict (d : list (str * plist))        (* BTreeMap<SmolStr, Plist>: strictly sorted by key *)
| PArr (a : list plist)
| PStr (s : str)
| PNum (s : str)
| PData (b : list N).

(* BTreeMap::insert *)
Fixpoint dict_insert (k : str) (v : plist) (d : list (str * plist)) : list (str * plist) :=
  match d with
  | [] => [(k, v)]
  | (k', v') :: t =>
      match str_cmp k k' with
      | Lt => (k, v) :: d
      | Eq => (k, v) :: t
      | Gt => (k', v') :: dict_insert k v t
      end
  end.

Fixpoint dict_get (k : str) (d : list (str * plist)) : option plist :=
  match d with
  | [] => None
  | (k', v) :: t => if str_eqb k k' then Some v else dict_get k t
  end.

Fixpoint dict_remove (k : str) (d : list (str * plist)) : list (str * plist) :=
  match d with
  | [] => []
  | (k', v) :: t => if str_eqb k k' then dict_remove k t else (k', v) :: dict_remove k t
  end.

(* ---------------------------------------------------------------------- numbers *)
Definition eq_ignore_case (a b : str) : bool := str_eqb (map to_lower a) (map to_lower b).
Definition s_inf : str := [105; 110; 102].
Definition s_infinity : str := [105; 110; 102; 105; 110; 105; 116; 121].
Definition s_nan : str := [110; 97; 110].

Definition numeric_ok (s : str) : bool :=
  match s with
  | [] => false
  | c0 :: _ =>
      let s' := if (1 <? N.of_nat (length s)) && (c0 =? 34) && (last s 0 =? 34) then tl s else s in
      if forallb is_hex_upper s' && negb (forallb is_digit s') then false
      else if (1 <? N.of_nat (length s')) && (hd 0 s' =? 48) then negb (forallb is_digit s')
      else if eq_ignore_case s' s_infinity || eq_ignore_case s' s_inf || eq_ignore_case s' s_nan
           then false
      else true
  end.

Fixpoint digits_val (acc : N) (s : str) : option N :=
  match s with
  | [] => Some acc
  | c :: r => if is_digit c then digits_val (acc * 10 + (c - 48)) r else None
  end.

(* <i64 as FromStr>::from_str *)
Definition parse_i64 (s : str) : option Z :=
  let '(neg, body) := match s with
                      | 45 :: r => (true, r)
                      | 43 :: r => (false, r)
                      | _ => (false, s)
                      end in
  match body with
  | [] => None
  | _ :: _ =>
      match digits_val 0 body with
      | None => None
      | Some n =>
          if neg then (if n <=? 2 ^ 63 then Some (- Z.of_N n)%Z else None)
          else (if n <? 2 ^ 63 then Some (Z.of_N n) else None)
      end
  end.

(* <f64 as FromStr>::from_str, as documented:
     Float ::= Sign? ( 'inf' | 'infinity' | 'nan' | Number )
     Number ::= ( Digit+ | Digit+ '.' Digit* | Digit* '.' Digit+ ) Exp?
     Exp ::= 'e' Sign? Digit+        (letters case-insensitive) *)
Inductive fclass : Type :=
| FInf (neg : bool)
| FNan
| FDec (neg : bool) (mant : N) (e10 : Z).      (* (-1)^neg * mant * 10^e10 *)

Definition strip_sign (s : str) : bool * str :=
  match s with
  | 45 :: r => (true, r)
  | 43 :: r => (false, r)
  | _ => (false, s)
  end.

Definition parse_f64 (s : str) : option fclass :=
  let '(neg, body) := strip_sign s in
  if eq_ignore_case body s_inf || eq_ignore_case body s_infinity then Some (FInf neg)
  else if eq_ignore_case body s_nan then Some FNan
  else
    let (ip, r1) := span is_digit body in
    let '(fp, r2, dot) := match r1 with
                          | 46 :: r => let (f, r') := span is_digit r in (f, r', true)
                          | _ => ([], r1, false)
                          end in
    match ip, fp with
    | [], [] => None
    | _, _ =>
        match digits_val 0 (ip ++ fp) with
        | None => None
        | Some m =>
            let scale := (- Z.of_nat (length fp))%Z in
            match r2 with
            | [] => Some (FDec neg m scale)
            | e :: r3 =>
                if (e =? 101) || (e =? 69) then
                  let '(eneg, ed) := strip_sign r3 in
                  match ed with
                  | [] => None
                  | _ :: _ =>
                      match digits_val 0 ed with
                      | None => None
                      | Some x => Some (FDec neg m (scale + (if eneg then - Z.of_N x else Z.of_N x))%Z)
                      end
                  end
                else None
            end
        end
    end.

(* Plist::parse_atom *)
Definition atom_is_number (s : str) : bool :=
  numeric_ok s && (match parse_i64 s with Some _ => true | None => false end
                   || match parse_f64 s with Some _ => true | None => false end).
Definition parse_atom (s : str) : plist := if atom_is_number s then PNum s else PStr s.

(* ---------------------------------------------------------------------- parser *)
Definition MAX_NESTING_DEPTH : nat := 256.

Definition key_of_token (t : token) : option str :=
  match t with
  | TAtom s => Some s
  | TString s => Some s
  | _ => None
  end.

(* Plist::parse_rec; the two `loop`s are dict_loop / arr_loop.  One unit of fuel per call. *)
Fixpoint parse_rec (fuel : nat) (depth : nat) (s : str) {struct fuel} : res (plist * str) :=
  match fuel with
  | O => OutOfFuel
  | S f =>
      if (MAX_NESTING_DEPTH <? depth)%nat then Err
      else
        match lex s with
        | Err => Err
        | OutOfFuel => OutOfFuel
        | Ok (tok, s1) =>
            match tok with
            | TAtom a => Ok (parse_atom a, s1)
            | TString x => Ok (PStr x, s1)
            | TData b => Ok (PData b, s1)
            | TOpenBrace => dict_loop f depth s1 []
            | TOpenParen => arr_loop f depth s1 []
            | TEof => Err
            end
        end
  end
with dict_loop (fuel : nat) (depth : nat) (s : str) (d : list (str * plist)) {struct fuel}
  : res (plist * str) :=
  match fuel with
  | O => OutOfFuel
  | S f =>
      match expect s 125 with
      | Some r => Ok (PDict d, r)
      | None =>
          match lex s with
          | Err => Err
          | OutOfFuel => OutOfFuel
          | Ok (key, s1) =>
              match key_of_token key with
              | None => Err
              | Some k =>
                  match expect s1 61 with
                  | None => Err                                  (* ExpectedEquals *)
                  | Some s2 =>
                      match parse_rec f (S depth) s2 with
                      | Err => Err
                      | OutOfFuel => OutOfFuel
                      | Ok (v, s3) =>
                          match expect s3 59 with
                          | None => Err                          (* ExpectedSemicolon *)
                          | Some s4 => dict_loop f depth s4 (dict_insert k v d)
                          end
                      end
                  end
              end
          end
      end
  end
with arr_loop (fuel : nat) (depth : nat) (s : str) (acc : list plist) {struct fuel}
  : res (plist * str) :=
  match fuel with
  | O => OutOfFuel
  | S f =>
      match expect s 41 with
      | Some r => Ok (PArr (rev acc), r)
      | None =>
          match parse_rec f (S depth) s with
          | Err => Err
          | OutOfFuel => OutOfFuel
          | Ok (v, s1) =>
              match expect s1 41 with
              | Some r => Ok (PArr (rev (v :: acc)), r)
              | None =>
                  match expect s1 44 with
                  | None => Err                                  (* ExpectedComma *)
                  | Some s2 =>
                      match expect s2 41 with
                      | Some r => Ok (PArr (rev (v :: acc)), r)
                      | None => arr_loop f depth s2 (v :: acc)
                      end
                  end
              end
          end
      end
  end.

(* enough for every input: see parse_never_out_of_fuel *)
Definition fuel_for (s : str) : nat := S (S (2 * length s)).

(* Plist::parse: what follows the value is ignored (the TODO in the source) *)
Definition parse (s : str) : res plist :=
  match parse_rec (fuel_for s) 0 s with
  | Ok (v, _) => Ok v
  | Err => Err
  | OutOfFuel => OutOfFuel
  end.

(* Tokenizer::skip_rec_at_depth: the value is dropped, the position is kept *)
Fixpoint skip_rec (fuel : nat) (depth : nat) (s : str) {struct fuel} : res str :=
  match fuel with
  | O => OutOfFuel
  | S f =>
      if (MAX_NESTING_DEPTH <? depth)%nat then Err
      else
        match lex s with
        | Err => Err
        | OutOfFuel => OutOfFuel
        | Ok (tok, s1) =>
            match tok with
            | TAtom _ | TString _ | TData _ => Ok s1
            | TOpenBrace => skip_dict f depth s1
            | TOpenParen => skip_arr f depth s1
            | TEof => Err
            end
        end
  end
with skip_dict (fuel : nat) (depth : nat) (s : str) {struct fuel} : res str :=
  match fuel with
  | O => OutOfFuel
  | S f =>
      match expect s 125 with
      | Some r => Ok r
      | None =>
          match lex s with
          | Err => Err
          | OutOfFuel => OutOfFuel
          | Ok (key, s1) =>
              match key_of_token key with
              | None => Err
              | Some _ =>
                  match expect s1 61 with
                  | None => Err
                  | Some s2 =>
                      match skip_rec f (S depth) s2 with
                      | Err => Err
                      | OutOfFuel => OutOfFuel
                      | Ok s3 =>
                          match expect s3 59 with
                          | None => Err
                          | Some s4 => skip_dict f depth s4
                          end
                      end
                  end
              end
          end
      end
  end
with skip_arr (fuel : nat) (depth : nat) (s : str) {struct fuel} : res str :=
  match fuel with
  | O => OutOfFuel
  | S f =>
      match expect s 41 with
      | Some r => Ok r
      | None =>
          match skip_rec f (S depth) s with
          | Err => Err
          | OutOfFuel => OutOfFuel
          | Ok s1 =>
              match expect s1 41 with
              | Some r => Ok r
              | None =>
                  match expect s1 44 with
                  | None => Err
                  | Some s2 =>
                      match expect s2 41 with
                      | Some r => Ok r
                      | None => skip_arr f depth s2
                      end
                  end
              end
          end
      end
  end.

(* impl FromPlist for String / SmolStr: what the derived reader does for a field such as
   RawGlyph.unicode : Option<String> *)
Definition read_string_field (s : str) : res (str * str) :=
  match lex s with
  | Ok (TAtom a, r) => Ok (a, r)
  | Ok (TString a, r) => Ok (a, r)
  | Ok _ => Err                                        (* ExpectedString *)
  | Err => Err
  | OutOfFuel => OutOfFuel
  end.

(* -------------------------------------------------- concrete syntax = value + formatting *)
(* One character of a quoted string, as written. *)
Inductive cchar : Type :=
| CRaw (c : ch)                 (* the character itself; not a double quote or a backslash *)
| CEsc (c : ch)                 (* backslash followed by double quote, backslash, n, r or t *)
| COct (c : ch)                 (* \ooo, c < 256 *)
| CUni (up : bool) (c : ch).    (* \UXXXX, or a surrogate pair \UXXXX\UXXXX above the BMP *)

Definition cchar_val (x : cchar) : ch :=
  match x with CRaw c | CEsc c | COct c | CUni _ c => c end.

Definition hexchar (up : bool) (d : N) : ch :=
  if d <? 10 then 48 + d else (if up then 55 else 87) + d.
Definition hex4 (up : bool) (n : N) : str :=
  [hexchar up (n / 4096); hexchar up ((n / 256) mod 16); hexchar up ((n / 16) mod 16);
   hexchar up (n mod 16)].

Definition render_cchar (x : cchar) : str :=
  match x with
  | CRaw c => [c]
  | CEsc c => [92; if c =? 10 then 110 else if c =? 13 then 114 else if c =? 9 then 116 else c]
  | COct c => [92; 48 + c / 64; 48 + (c / 8) mod 8; 48 + c mod 8]
  | CUni up c =>
      if c <? 0x10000 then 92 :: 85 :: hex4 up c
      else let c' := c - 0x10000 in
           92 :: 85 :: hex4 up (0xD800 + c' / 1024) ++ 92 :: 85 :: hex4 up (0xDC00 + c' mod 1024)
  end.

Definition valid_scalar (c : ch) : bool := ((c <? 0xD800) || (0xE000 <=? c)) && (c <? 0x110000).

Definition cchar_ok (x : cchar) : bool :=
  match x with
  | CRaw c => negb (c =? 34) && negb (c =? 92)
  | CEsc c => (c =? 34) || (c =? 92) || (c =? 10) || (c =? 13) || (c =? 9)
  | COct c => c <? 256
  | CUni _ c => valid_scalar c
  end.

Inductive ckey : Type :=
| KBare (s : str)
| KQuot (l : list cchar).

Definition key_val (k : ckey) : str :=
  match k with KBare s => s | KQuot l => map cchar_val l end.
Definition render_key (k : ckey) : str :=
  match k with KBare s => s | KQuot l => 34 :: flat_map render_cchar l ++ [34] end.
Definition atom_ok (s : str) : bool :=
  match s with [] => false | _ :: _ => forallb is_alnum s end.
Definition key_ok (k : ckey) : bool :=
  match k with KBare s => atom_ok s | KQuot l => forallb cchar_ok l end.

(* A document as written: every token carries the white space in front of it. *)
Inductive cst : Type :=
| CAtom (w : str) (s : str)
| CQuot (w : str) (l : list cchar)
| CData (w : str) (d : list (N * bool * bool))          (* byte, case of each hex digit *)
| CDict (w : str) (es : centries) (wc : str)            (* wc: before '}' *)
| CArr (w : str) (its : citems) (trail : option str) (wc : str)
    (* trail: white space before an optional trailing comma; wc: before ')' *)
with centries : Type :=
| ENil
| ECons (kw : str) (k : ckey) (ew : str) (v : cst) (sw : str) (rest : centries)
    (* kw key ew '=' value sw ';' *)
with citems : Type :=
| INil
| ICons (v : cst) (w : str) (rest : citems).            (* w: before the ',' that follows, if any *)

Definition render_byte (x : N * bool * bool) : str :=
  let '(b, u1, u2) := x in [hexchar u1 (b / 16); hexchar u2 (b mod 16)].

Fixpoint render (c : cst) : str :=
  match c with
  | CAtom w s => w ++ s
  | CQuot w l => w ++ 34 :: flat_map render_cchar l ++ [34]
  | CData w d => w ++ 60 :: flat_map render_byte d ++ [62]
  | CDict w es wc => w ++ 123 :: render_entries es ++ wc ++ [125]
  | CArr w its tr wc =>
      w ++ 40 :: render_items its
        ++ (match tr with Some wt => wt ++ [44] | None => [] end) ++ wc ++ [41]
  end
with render_entries (es : centries) : str :=
  match es with
  | ENil => []
  | ECons kw k ew v sw rest =>
      kw ++ render_key k ++ ew ++ 61 :: render v ++ sw ++ 59 :: render_entries rest
  end
with render_items (its : citems) : str :=
  match its with
  | INil => []
  | ICons v w rest =>
      render v ++ match rest with INil => [] | ICons _ _ _ => w ++ 44 :: render_items rest end
  end.

(* the value a document denotes *)
Fixpoint denote (c : cst) : plist :=
  match c with
  | CAtom _ s => parse_atom s
  | CQuot _ l => PStr (map cchar_val l)
  | CData _ d => PData (map (fun x => fst (fst x)) d)
  | CDict _ es _ => PDict (denote_entries es [])
  | CArr _ its _ _ => PArr (denote_items its)
  end
with denote_entries (es : centries) (acc : list (str * plist)) : list (str * plist) :=
  match es with
  | ENil => acc
  | ECons _ k _ v _ rest => denote_entries rest (dict_insert (key_val k) (denote v) acc)
  end
with denote_items (its : citems) : list plist :=
  match its with
  | INil => []
  | ICons v _ rest => denote v :: denote_items rest
  end.

Definition ws_ok (w : str) : bool := forallb is_ws w.

(* well-formed document: white space is white space, bare tokens are atoms, escapes are legal,
   bytes are bytes, no trailing comma in an empty array *)
Fixpoint cst_ok (c : cst) : bool :=
  match c with
  | CAtom w s => ws_ok w && atom_ok s
  | CQuot w l => ws_ok w && forallb cchar_ok l
  | CData w d => ws_ok w && forallb (fun x => fst (fst x) <? 256) d
  | CDict w es wc => ws_ok w && entries_ok es && ws_ok wc
  | CArr w its tr wc =>
      ws_ok w && items_ok its && ws_ok wc
      && match tr with
         | None => true
         | Some wt => ws_ok wt && match its with INil => false | ICons _ _ _ => true end
         end
  end
with entries_ok (es : centries) : bool :=
  match es with
  | ENil => true
  | ECons kw k ew v sw rest =>
      ws_ok kw && key_ok k && ws_ok ew && cst_ok v && ws_ok sw && entries_ok rest
  end
with items_ok (its : citems) : bool :=
  match its with
  | INil => true
  | ICons v w rest => cst_ok v && ws_ok w && items_ok rest
  end.

(* nesting height: a scalar is 1 *)
Fixpoint height (c : cst) : nat :=
  match c with
  | CAtom _ _ | CQuot _ _ | CData _ _ => 1
  | CDict _ es _ => S (height_entries es)
  | CArr _ its _ _ => S (height_items its)
  end
with height_entries (es : centries) : nat :=
  match es with
  | ENil => 0
  | ECons _ _ _ v _ rest => Nat.max (height v) (height_entries rest)
  end
with height_items (its : citems) : nat :=
  match its with
  | INil => 0
  | ICons v _ rest => Nat.max (height v) (height_items rest)
  end.

(* ------------------------------------------------------------ printer with an oracle *)
(* A formatting oracle answers, for every node (addressed by its path from the root) and every
   slot of that node, with an arbitrary number; the printer decodes the numbers into white
   space, quoting style, escape style, hex digit case, trailing comma and key order. *)
Definition oracle := list nat -> nat -> N.

(* any white-space string: two bits per character *)
Fixpoint ws_of_pos (p : positive) : str :=
  match p with
  | xO (xO q) => 32 :: ws_of_pos q
  | xO (xI q) => 9 :: ws_of_pos q
  | xI (xO q) => 10 :: ws_of_pos q
  | xI (xI q) => 13 :: ws_of_pos q
  | _ => []
  end.
Definition ws_of (n : N) : str := match n with N0 => [] | Npos p => ws_of_pos p end.

(* may this string be written without quotes and still be read as the same string? *)
Definition bare_ok (s : str) : bool := atom_ok s && negb (atom_is_number s).

Definition style_char (n : N) (c : ch) : cchar :=
  let fallback := if (c =? 34) || (c =? 92) then CEsc c else CRaw c in
  match n mod 4 with
  | 0 => fallback
  | 1 => if cchar_ok (CEsc c) then CEsc c else fallback
  | 2 => if c <? 256 then COct c else fallback
  | _ => if valid_scalar c then CUni (N.odd (n / 4)) c else fallback
  end.

Fixpoint style_chars (f : nat -> N) (i : nat) (s : str) : list cchar :=
  match s with
  | [] => []
  | c :: r => style_char (f i) c :: style_chars f (S i) r
  end.

Fixpoint insert_at {A} (i : nat) (x : A) (l : list A) : list A :=
  match i, l with
  | O, _ => x :: l
  | S i', y :: t => y :: insert_at i' x t
  | S _, [] => [x]
  end.
(* an arbitrary permutation, coded by insertion positions *)
Fixpoint shuffle {A} (pick : nat -> N) (l : list A) : list A :=
  match l with
  | [] => []
  | x :: t => insert_at (N.to_nat (pick (length t))) x (shuffle pick t)
  end.

Fixpoint entries_of_list (l : list (str * ckey * str * cst * str)) : centries :=
  match l with
  | [] => ENil
  | (kw, k, ew, v, sw) :: t => ECons kw k ew v sw (entries_of_list t)
  end.
Fixpoint items_of_list (l : list (cst * str)) : citems :=
  match l with
  | [] => INil
  | (v, w) :: t => ICons v w (items_of_list t)
  end.

Definition layout_key (phi : oracle) (p : list nat) (k : str) : ckey :=
  (* keys are never read as numbers, so any atom may stay bare *)
  if atom_ok k && N.odd (phi p 1%nat) then KBare k else KQuot (style_chars (phi p) 4%nat k).

(* slots of a node at path p: 0 leading white space, 1 closing white space / quoting choice,
   2 trailing comma, 3 white space before it, 4.. per character / byte / entry choices.
   Child j of a container lives at path (2j :: p); the entry / separator around it at (2j+1 :: p)
   with slots 0 kw, 1 key quoting, 2 ew, 3 sw, 4.. key characters. *)
Section Mapi.
  Variables (A B : Type) (f : nat -> A -> B).
  Fixpoint mapi_from (j : nat) (l : list A) : list B :=
    match l with
    | [] => []
    | x :: r => f j x :: mapi_from (S j) r
    end.
End Mapi.
Arguments mapi_from {A B} f j l.

Fixpoint layout (phi : oracle) (p : list nat) (v : plist) {struct v} : cst :=
  let w := ws_of (phi p 0%nat) in
  match v with
  | PNum s => CAtom w s
  | PStr s =>
      if bare_ok s && N.odd (phi p 1%nat) then CAtom w s
      else CQuot w (style_chars (phi p) 4%nat s)
  | PData b =>
      CData w (mapi_from (fun i x => (x, N.odd (phi p (4 + i)%nat), N.odd (phi p (4 + i)%nat / 2)))
                         0%nat b)
  | PDict d =>
      let es :=
        mapi_from (fun j e =>
                     let q := (2 * j + 1)%nat :: p in
                     (ws_of (phi q 0%nat), layout_key phi q (fst e), ws_of (phi q 2%nat),
                      layout phi ((2 * j)%nat :: p) (snd e), ws_of (phi q 3%nat)))
                  0%nat d in
      CDict w (entries_of_list (shuffle (fun i => phi p (4 + i)%nat) es)) (ws_of (phi p 1%nat))
  | PArr a =>
      let its :=
        mapi_from (fun j x => (layout phi ((2 * j)%nat :: p) x,
                               ws_of (phi ((2 * j + 1)%nat :: p) 0%nat)))
                  0%nat a in
      let tr := match a with
                | [] => None
                | _ :: _ => if N.odd (phi p 2%nat) then Some (ws_of (phi p 3%nat)) else None
                end in
      CArr w (items_of_list its) tr (ws_of (phi p 1%nat))
  end.

Definition print (phi : oracle) (v : plist) : str := render (layout phi [] v).

(* well-formed value: what Plist::parse can return *)
Fixpoint keys_sorted (d : list (str * plist)) : bool :=
  match d with
  | [] => true
  | (k, _) :: t =>
      match t with
      | [] => true
      | (k', _) :: _ => match str_cmp k k' with Lt => true | _ => false end
      end && keys_sorted t
  end.

Fixpoint wf (v : plist) : bool :=
  match v with
  | PNum s => atom_ok s && atom_is_number s
  | PStr _ => true
  | PData b => forallb (fun x => x <? 256) b
  | PDict d => keys_sorted d && forallb (fun e => wf (snd e)) d
  | PArr a => forallb wf a
  end.

Fixpoint vheight (v : plist) : nat :=
  match v with
  | PDict d => S (fold_right (fun e m => Nat.max (vheight (snd e)) m) 0%nat d)
  | PArr a => S (fold_right (fun x m => Nat.max (vheight x) m) 0%nat a)
  | _ => 1%nat
  end.

(* ---------------------------------------------------- tie: the value the real code returned *)
Inductive rfloat : Type :=
| RFin (q : Q)
| RInf (neg : bool)
| RNan.
Inductive rplist : Type :=
| RDict (d : list (str * rplist))       (* BTreeMap iteration order *)
| RArr (a : list rplist)
| RStr (s : str)
| RInt (z : Z)
| RFloat (f : rfloat)
| RData (b : list N).

Definition pow10 (e : Z) : Q :=
  match e with
  | Z0 => 1
  | Zpos p => inject_Z (10 ^ Zpos p)
  | Zneg p => 1 # (10 ^ p)
  end%Q.

Definition fdec_value (neg : bool) (m : N) (e : Z) : Q :=
  ((if neg then -1 else 1) * inject_Z (Z.of_N m) * pow10 e)%Q.

Definition f64_max : Q := inject_Z (2 ^ 1024 - 2 ^ 971).

(* does the f64 the implementation produced round the decimal text? (2^-52 relative) *)
Definition float_agrees (c : fclass) (r : rfloat) : bool :=
  match c, r with
  | FNan, RNan => true
  | FInf n, RInf n' => Bool.eqb n n'
  | FDec n m e, RFin q =>
      let x := fdec_value n m e in
      Qle_bool (Qabs (x - q)) (Qabs x * (1 # 2 ^ 52) + (1 # 2 ^ 1074))%Q
  | FDec n m e, RInf n' =>
      let x := fdec_value n m e in
      Bool.eqb n n' && Qle_bool f64_max (Qabs x)
  | _, _ => false
  end.

Definition num_agrees (s : str) (r : rplist) : bool :=
  match parse_i64 s, r with
  | Some z, RInt z' => (z =? z')%Z
  | None, RFloat f => match parse_f64 s with Some c => float_agrees c f | None => false end
  | _, _ => false
  end.

Fixpoint agree (v : plist) (r : rplist) {struct v} : bool :=
  match v, r with
  | PStr s, RStr s' => str_eqb s s'
  | PNum s, _ => num_agrees s r
  | PData b, RData b' => str_eqb b b'
  | PArr a, RArr a' =>
      (fix go (a : list plist) (a' : list rplist) : bool :=
         match a, a' with
         | [], [] => true
         | x :: t, y :: t' => agree x y && go t t'
         | _, _ => false
         end) a a'
  | PDict d, RDict d' =>
      (fix go (d : list (str * plist)) (d' : list (str * rplist)) : bool :=
         match d, d' with
         | [], [] => true
         | (k, x) :: t, (k', y) :: t' => str_eqb k k' && agree x y && go t t'
         | _, _ => false
         end) d d'
  | _, _ => false
  end.

(* outcome of Plist::parse on the implementation side *)
Definition agree_res (m : res plist) (r : option rplist) : bool :=
  match m, r with
  | Ok v, Some x => agree v x
  | Err, None => true
  | _, _ => false
  end.

(* ------------------------------------------------------------------- .glyphspackage *)
(* RawFont at the value level: the top-level dictionary without its glyphs, and the glyph list
   in order.  (How the 6 500 lines of font.rs read the dictionaries is not modelled; both routes
   hand the same dictionaries to the same typed readers.) *)
Definition k_glyphs : str := [103; 108; 121; 112; 104; 115].
Definition k_glyphname : str := [103; 108; 121; 112; 104; 110; 97; 109; 101].

Definition raw_font : Type := (list (str * plist) * list plist)%type.

Definition glyphs_of (top : list (str * plist)) : list plist :=
  match dict_get k_glyphs top with Some (PArr gs) => gs | _ => [] end.

(* RawFont::load for a .glyphs file, after Plist-level reading *)
Definition load_file (top : list (str * plist)) : raw_font :=
  (dict_remove k_glyphs top, glyphs_of top).

(* glyphname: SmolStr takes an atom or a string token *)
Definition glyph_name (g : plist) : str :=
  match g with
  | PDict d => match dict_get k_glyphname d with
               | Some (PStr s) => s
               | Some (PNum s) => s
               | _ => []
               end
  | _ => []
  end.

(* HashMap<SmolStr, RawGlyph>: only insert / remove / sorted keys are used, so iteration order is
   never observed *)
Definition hm_insert (k : str) (g : plist) (m : list (str * plist)) : list (str * plist) :=
  (k, g) :: dict_remove k m.

Fixpoint load_glyph_files (files : list plist) (m : list (str * plist))
  : option (list (str * plist)) :=
  match files with
  | [] => Some m
  | g :: r => match glyph_name g with
              | [] => None                     (* error: glyph dict must have a glyphname key *)
              | n => load_glyph_files r (hm_insert n g m)
              end
  end.

(* for glyph_name in order { if let Some(glyph) = glyphs.remove(name) { ordered.push(glyph) } } *)
Fixpoint apply_order (order : list plist) (m : list (str * plist)) (acc : list plist)
  : option (list plist * list (str * plist)) :=
  match order with
  | [] => Some (rev acc, m)
  | PStr n :: r =>
      match dict_get n m with
      | Some g => apply_order r (dict_remove n m) (g :: acc)
      | None => apply_order r m acc
      end
  | _ :: _ => None                             (* expect_string fails *)
  end.

(* the glyphs not in order.plist, sorted by name *)
Fixpoint sort_insert (k : str) (g : plist) (l : list (str * plist)) : list (str * plist) :=
  match l with
  | [] => [(k, g)]
  | (k', g') :: t => match str_cmp k k' with
                     | Gt => (k', g') :: sort_insert k g t
                     | _ => (k, g) :: l
                     end
  end.
Definition sorted_rest (m : list (str * plist)) : list plist :=
  map snd (fold_right (fun e acc => sort_insert (fst e) (snd e) acc) [] m).

Record package : Type := {
  pk_fontinfo : list (str * plist);            (* fontinfo.plist *)
  pk_files : list plist;                       (* glyphs/*.glyph in directory order *)
  pk_order : option plist                      (* order.plist *)
}.

Definition load_package (p : package) : option raw_font :=
  match load_glyph_files (pk_files p) [] with
  | None => None
  | Some m =>
      match pk_order p with
      | None => Some (pk_fontinfo p, sorted_rest m)
      | Some (PArr order) =>
          match apply_order order m [] with
          | Some (ordered, rest) => Some (pk_fontinfo p, ordered ++ sorted_rest rest)
          | None => None
          end
      | Some _ => None                         (* expect_array fails *)
      end
  end.

(* the splitter: files may come back from the directory in any order *)
Definition split (top : list (str * plist)) (dir_order : list plist -> list plist) : package :=
  {| pk_fontinfo := dict_remove k_glyphs top;
     pk_files := dir_order (glyphs_of top);
     pk_order := Some (PArr (map (fun g => PStr (glyph_name g)) (glyphs_of top))) |}.

(* --------------------------------------------------------------------- entry points *)
(* Args of args.rs that reach the compilation; tri-state flags are option bool *)
Record args : Type := {
  a_prefer_simple_glyphs : bool;
  a_flatten_components : option bool;
  a_erase_open_corners : option bool;
  a_propagate_anchors : option bool;
  a_decompose_transformed_components : bool;
  a_decompose_components : bool;
  a_keep_direction : bool;
  a_no_production_names : bool;
  a_skip_features : bool;
  a_emit_lookup_debug_info : bool;
  a_output_file : option str;
  a_build_dir : str
}.

(* fontir::orchestration::Flags *)
Record flags : Type := {
  f_prefer_simple : bool;
  f_flatten : bool;
  f_erase_open_corners : bool;
  f_propagate_anchors : bool;
  f_decompose_transformed : bool;
  f_decompose : bool;
  f_keep_direction : bool;
  f_production_names : bool
}.

Definition flags_map2 (op : bool -> bool -> bool) (a b : flags) : flags :=
  {| f_prefer_simple := op (f_prefer_simple a) (f_prefer_simple b);
     f_flatten := op (f_flatten a) (f_flatten b);
     f_erase_open_corners := op (f_erase_open_corners a) (f_erase_open_corners b);
     f_propagate_anchors := op (f_propagate_anchors a) (f_propagate_anchors b);
     f_decompose_transformed := op (f_decompose_transformed a) (f_decompose_transformed b);
     f_decompose := op (f_decompose a) (f_decompose b);
     f_keep_direction := op (f_keep_direction a) (f_keep_direction b);
     f_production_names := op (f_production_names a) (f_production_names b) |}.

Definition flags_empty : flags := Build_flags false false false false false false false false.

Definition is_some_true (o : option bool) : bool := match o with Some true => true | _ => false end.
Definition is_some_false (o : option bool) : bool := match o with Some false => true | _ => false end.

(* Args::flags: Flags::default() has PREFER_SIMPLE_GLYPHS and PRODUCTION_NAMES; every bit the
   function touches is set explicitly, the tri-state ones only when Some(true) *)
Definition args_flags (a : args) : flags :=
  {| f_prefer_simple := a_prefer_simple_glyphs a;
     f_flatten := is_some_true (a_flatten_components a);
     f_erase_open_corners := is_some_true (a_erase_open_corners a);
     f_propagate_anchors := is_some_true (a_propagate_anchors a);
     f_decompose_transformed := a_decompose_transformed_components a;
     f_decompose := a_decompose_components a;
     f_keep_direction := a_keep_direction a;
     f_production_names := negb (a_no_production_names a) |}.

(* Args::flags_to_disable *)
Definition args_flags_to_disable (a : args) : flags :=
  {| f_prefer_simple := false;
     f_flatten := is_some_false (a_flatten_components a);
     f_erase_open_corners := is_some_false (a_erase_open_corners a);
     f_propagate_anchors := is_some_false (a_propagate_anchors a);
     f_decompose_transformed := false;
     f_decompose := false;
     f_keep_direction := false;
     f_production_names := false |}.

Record options : Type := {
  o_flags : flags;
  o_flags_to_disable : flags;
  o_skip_features : bool;
  o_compile_debg : bool;
  o_output_file : option str
}.

Definition s_font_ttf : str := [47; 102; 111; 110; 116; 46; 116; 116; 102].  (* /font.ttf *)

(* impl TryInto<Options> for Args (emit_ir / emit_debug / emit_timing off) *)
Definition options_of_args (a : args) : options :=
  {| o_flags := args_flags a;
     o_flags_to_disable := args_flags_to_disable a;
     o_skip_features := a_skip_features a;
     o_compile_debg := a_emit_lookup_debug_info a;
     o_output_file := match a_output_file a with
                      | Some f => Some f
                      | None => Some (a_build_dir a ++ s_font_ttf)
                      end |}.

(* merge_compilation_flags: (options.flags | source.compilation_flags()) & !options.flags_to_disable *)
Definition merge_compilation_flags (o : options) (source_flags : flags) : flags :=
  flags_map2 (fun x d => x && negb d) (flags_map2 orb (o_flags o) source_flags) (o_flags_to_disable o).

(* Input::new: dispatch on the extension *)
Inductive input_kind : Type := DesignSpacePath | GlyphsPath | FontraPath | GlyphsMemory.
Definition e_designspace : str := [100;101;115;105;103;110;115;112;97;99;101].
Definition e_ufo : str := [117;102;111].
Definition e_glyphs : str := [103;108;121;112;104;115].
Definition e_glyphspackage : str := [103;108;121;112;104;115;112;97;99;107;97;103;101].
Definition e_fontra : str := [102;111;110;116;114;97].
Definition input_new (ext : str) : option input_kind :=
  if str_eqb ext e_designspace then Some DesignSpacePath
  else if str_eqb ext e_ufo then Some DesignSpacePath
  else if str_eqb ext e_glyphs then Some GlyphsPath
  else if str_eqb ext e_glyphspackage then Some GlyphsPath
  else if str_eqb ext e_fontra then Some FontraPath
  else None.

Section EntryPoints.
  (* What the model does not look into: the source object, and the compilation proper
     (Workload::new + exec + the font bytes in the back-end context), a function of the source,
     the merged flags and the two options that reach it. *)
  Variable source : Type.
  Variable font : Type.
  Variable source_flags : source -> flags.
  Variable compile : source -> flags -> bool -> bool -> option font.

  (* generate_font_internal *)
  Definition generate_font_internal (src : source) (o : options) : option font :=
    compile src (merge_compilation_flags o (source_flags src)) (o_skip_features o) (o_compile_debg o).

  (* pub fn generate_font: the library entry point; output_file is ignored *)
  Definition generate_font (src : source) (o : options) : option font :=
    generate_font_internal src o.

  (* pub fn run + write_font_file (no --emit-ir): the bytes written to options.output_file *)
  Definition run (create_source : option source) (o : options) : option (str * font) :=
    match o_output_file o with
    | None => None                                     (* Error::NoOutputFile *)
    | Some out =>
        match create_source with
        | None => None
        | Some src =>
            match generate_font_internal src o with
            | Some f => Some (out, f)
            | None => None
            end
        end
    end.

  (* main.rs: run(args) *)
  Definition cli_main (a : args) (create_source : option source) : option (str * font) :=
    run create_source (options_of_args a).
End EntryPoints.

(* tie helpers: compare with the Options the real binary logged and the Input it built *)
Definition flags_eqb (a b : flags) : bool :=
  Bool.eqb (f_prefer_simple a) (f_prefer_simple b) && Bool.eqb (f_flatten a) (f_flatten b)
  && Bool.eqb (f_erase_open_corners a) (f_erase_open_corners b)
  && Bool.eqb (f_propagate_anchors a) (f_propagate_anchors b)
  && Bool.eqb (f_decompose_transformed a) (f_decompose_transformed b)
  && Bool.eqb (f_decompose a) (f_decompose b) && Bool.eqb (f_keep_direction a) (f_keep_direction b)
  && Bool.eqb (f_production_names a) (f_production_names b).

Definition options_agree (o : options) (fl dis : flags) (skip debg : bool) (out : option str) : bool :=
  flags_eqb (o_flags o) fl && flags_eqb (o_flags_to_disable o) dis
  && Bool.eqb (o_skip_features o) skip && Bool.eqb (o_compile_debg o) debg
  && match o_output_file o, out with
     | Some a, Some b => str_eqb a b
     | None, None => true
     | _, _ => false
     end.

(* 0 = error, 1 = DesignSpacePath, 2 = GlyphsPath, 3 = FontraPath *)
Definition input_code (k : option input_kind) : N :=
  match k with
  | None => 0
  | Some DesignSpacePath => 1
  | Some GlyphsPath => 2
  | Some FontraPath => 3
  | Some GlyphsMemory => 4
  end.

(* ------------------------------------------------------- lone UFO vs designspace *)
(* plist::Dictionary of a lib: an association list read by key *)
Definition lib := list (str * plist).

Definition is_public (k : str) : bool :=
  match k with
  | 112 :: 117 :: 98 :: 108 :: 105 :: 99 :: 46 :: _ => true        (* public. *)
  | _ => false
  end.

Fixpoint lib_get (k : str) (l : lib) : option plist :=
  match l with
  | [] => None
  | (k', v) :: t => if str_eqb k k' then Some v else lib_get k t
  end.

(* merge_default_master_lib_into_designspace_lib (the early return on base == child gives the same
   map as running the loop, which then changes nothing) *)
Fixpoint merge_lib (base : lib) (child : lib) (skip_public_keys : bool) : lib :=
  match child with
  | [] => base
  | (k, v) :: t =>
      if skip_public_keys && is_public k then merge_lib base t skip_public_keys
      else match lib_get k base with
           | None => merge_lib (base ++ [(k, v)]) t skip_public_keys
           | Some _ => merge_lib base t skip_public_keys          (* equal: nothing; differs: warn *)
           end
  end.

(* norad::designspace::Source / DesignSpaceDocument, the fields the front end reads *)
Record ds_source : Type := {
  src_filename : str;
  src_name : option str;
  src_layer : option str;
  src_location : list (str * Q)
}.
Record ds_doc : Type := {
  ds_axes : list (str * str);
  ds_sources : list ds_source;
  ds_instances : list (option str);
  ds_rules : list str;
  ds_lib : lib
}.

(* load_designspace, the ufo arm *)
Definition synthetic_doc (ufo_filename : str) : ds_doc :=
  {| ds_axes := []; ds_instances := []; ds_rules := []; ds_lib := [];
     ds_sources := [ {| src_filename := ufo_filename; src_name := None; src_layer := None;
                        src_location := [] |} ] |}.

Definition s_unnamed_source_0 : str :=
  [117;110;110;97;109;101;100;95;115;111;117;114;99;101;95;48].

(* DesignSpaceIrSource::new for a document with one source (index 0): names filled in, the
   default master's lib merged; is_designspace = the extension test on the path *)
Definition ds_new (is_designspace : bool) (doc : ds_doc) (ufo_lib : lib) : ds_doc :=
  {| ds_axes := ds_axes doc;
     ds_sources := map (fun s => {| src_filename := src_filename s;
                                    src_name := match src_name s with
                                                | Some n => Some n
                                                | None => Some s_unnamed_source_0
                                                end;
                                    src_layer := src_layer s;
                                    src_location := src_location s |}) (ds_sources doc);
     ds_instances := ds_instances doc;
     ds_rules := ds_rules doc;
     ds_lib := merge_lib (ds_lib doc) ufo_lib is_designspace |}.
