(* C20 — the fuel of the model is never the reason for a result: Plist::parse terminates on every
   input within the fuel `parse` provides; and Tokenizer::skip_rec consumes exactly what
   Plist::parse_rec consumes. *)
From Coq Require Import List NArith ZArith Bool Arith Lia ZifyBool ZifyN ZifyNat.
From FV.C20 Require Import Model ProofsLex ProofsParse.
Import ListNotations.
Open Scope N_scope.

Lemma skip_ws_length : forall s, (length (skip_ws s) <= length s)%nat.
Proof.
  induction s as [|c r IH]; cbn [skip_ws length]; [lia|]. destruct (is_ws c); cbn [length]; lia.
Qed.

Lemma expect_shorter : forall s d r, expect s d = Some r -> (length r < length s)%nat.
Proof.
  intros s d r H. unfold expect in H. pose proof (skip_ws_length s) as L.
  destruct (skip_ws s) as [|b t]; [discriminate|]. destruct (b =? d); [|discriminate].
  inversion H; subst. cbn [length] in L. lia.
Qed.

Lemma hex_run_length : forall n acc s v r, hex_run n acc s = (v, r) -> (length r <= length s)%nat.
Proof.
  induction n as [|n IH]; intros acc s v r H; cbn [hex_run] in H.
  - inversion H; subst. lia.
  - destruct s as [|c t]; [inversion H; subst; cbn; lia|].
    destruct (hex_val c); [|inversion H; subst; lia].
    apply IH in H. cbn [length]. lia.
Qed.

Lemma parse_hex4_length : forall s v r, parse_hex4 s = Some (v, r) -> (length r <= length s)%nat.
Proof.
  intros s v r H. unfold parse_hex4 in H. destruct s as [|c t]; [discriminate|].
  destruct (hex_val c) eqn:E; [|discriminate].
  assert (H' : hex_run 4 0 (c :: t) = (v, r)) by congruence.
  apply hex_run_length in H'. exact H'.
Qed.

Lemma parse_escape_shorter : forall s x r, parse_escape s = Some (x, r) -> (length r < length s)%nat.
Proof.
  intros s x r H. unfold parse_escape in H. destruct s as [|b t]; [discriminate|]. cbn [length].
  destruct ((b =? 34) || (b =? 92)); [inversion H; subst; lia|].
  destruct (b =? 110); [inversion H; subst; lia|].
  destruct (b =? 114); [inversion H; subst; lia|].
  destruct (b =? 116); [inversion H; subst; lia|].
  destruct (b =? 85).
  - destruct t as [|c t']; [discriminate|].
    destruct (parse_hex4 (c :: t')) as [[v r1]|] eqn:E1; [|discriminate].
    apply parse_hex4_length in E1.
    destruct (negb (is_surrogate v) || negb match r1 with 92 :: 85 :: _ => true | _ => false end).
    + destruct (decode1 v); [|discriminate]. inversion H; subst. lia.
    + destruct (parse_hex4 (skipn 2 r1)) as [[v2 r2]|] eqn:E2; [|discriminate].
      apply parse_hex4_length in E2.
      assert (L : (length (skipn 2 r1) <= length r1)%nat) by (rewrite skipn_length; lia).
      destruct (decode2 v v2); [|discriminate]. inversion H; subst. lia.
  - destruct ((48 <=? b) && (b <=? 51)); [|discriminate].
    destruct t as [|b1 [|b2 t']]; try discriminate.
    destruct (is_oct b1 && is_oct b2); [|discriminate]. inversion H; subst. cbn [length]. lia.
Qed.

Lemma lex_quoted_total : forall fuel s acc, (length s < fuel)%nat ->
  lex_quoted fuel s acc <> OutOfFuel
  /\ forall x r, lex_quoted fuel s acc = Ok (x, r) -> (length r < length s)%nat.
Proof.
  induction fuel as [|f IH]; intros s acc Hf; [lia|].
  destruct s as [|c t]; cbn [lex_quoted]; [split; [discriminate|discriminate]|].
  cbn [length] in Hf.
  destruct (c =? 34); [split; [discriminate|]; intros x r H; inversion H; subst; cbn [length]; lia|].
  destruct (c =? 92).
  - destruct t as [|c2 t2]; [split; discriminate|].
    destruct (parse_escape (c2 :: t2)) as [[x r']|] eqn:E; [|split; discriminate].
    apply parse_escape_shorter in E.
    destruct (IH r' (x :: acc)) as [I1 I2]; [lia|]. split; [exact I1|].
    intros y r H. apply I2 in H. cbn [length] in *. lia.
  - destruct (IH t (c :: acc)) as [I1 I2]; [lia|]. split; [exact I1|].
    intros y r H. apply I2 in H. cbn [length]. lia.
Qed.

Lemma split_gt_length : forall s a b, split_gt s = Some (a, b) -> (length b < length s)%nat.
Proof.
  induction s as [|c r IH]; intros a b H; cbn [split_gt] in H; [discriminate|].
  destruct (c =? 62); [inversion H; subst; cbn [length]; lia|].
  destruct (split_gt r) as [[a' b']|] eqn:E; [|discriminate]. inversion H; subst.
  specialize (IH _ _ eq_refl). cbn [length]. lia.
Qed.

Lemma span_length : forall p s a b, span p s = (a, b) -> (length b <= length s)%nat.
Proof.
  induction s as [|c r IH]; intros a b H; cbn [span] in H; [inversion H; subst; lia|].
  destruct (p c); [|inversion H; subst; lia].
  destruct (span p r) as [a' b'] eqn:E. inversion H; subst. specialize (IH _ _ eq_refl). cbn [length]. lia.
Qed.

Lemma lex_total : forall s, lex s <> OutOfFuel
  /\ forall tok r, lex s = Ok (tok, r) -> tok = TEof \/ (length r < length s)%nat.
Proof.
  intro s. unfold lex. pose proof (skip_ws_length s) as L.
  destruct (skip_ws s) as [|b t]; [split; [discriminate|]; intros ? ? H; inversion H; left; reflexivity|].
  cbn [length] in L.
  destruct (b =? 123); [split; [discriminate|]; intros ? ? H; inversion H; subst; right; lia|].
  destruct (b =? 40); [split; [discriminate|]; intros ? ? H; inversion H; subst; right; lia|].
  destruct (b =? 60).
  { destruct (split_gt t) as [[d r']|] eqn:E; [|split; discriminate].
    apply split_gt_length in E.
    destruct (hex_pairs d); [|split; discriminate].
    split; [discriminate|]. intros ? ? H; inversion H; subst; right; lia. }
  destruct (b =? 34).
  { destruct (lex_quoted_total (S (length t)) t []) as [I1 I2]; [lia|].
    destruct (lex_quoted (S (length t)) t []) as [[x r']| |] eqn:E.
    - split; [discriminate|]. intros ? ? H; inversion H; subst. right. specialize (I2 _ _ eq_refl). lia.
    - split; discriminate.
    - exfalso. apply I1. reflexivity. }
  destruct (is_alnum b); [|split; discriminate].
  destruct (span is_alnum t) as [a r'] eqn:E. apply span_length in E.
  split; [discriminate|]. intros ? ? H; inversion H; subst. right. lia.
Qed.

Theorem parse_rec_total : forall fuel,
  (forall depth s, (2 * length s < fuel)%nat ->
      parse_rec fuel depth s <> OutOfFuel
      /\ forall v r, parse_rec fuel depth s = Ok (v, r) -> (length r < length s)%nat)
  /\ (forall depth s d, (2 * length s + 1 < fuel)%nat ->
      dict_loop fuel depth s d <> OutOfFuel
      /\ forall v r, dict_loop fuel depth s d = Ok (v, r) -> (length r < length s)%nat)
  /\ (forall depth s acc, (2 * length s + 1 < fuel)%nat ->
      arr_loop fuel depth s acc <> OutOfFuel
      /\ forall v r, arr_loop fuel depth s acc = Ok (v, r) -> (length r < length s)%nat).
Proof.
  induction fuel as [|f (IHp & IHd & IHa)]; [repeat split; intros; lia|].
  repeat apply conj.
  - intros depth s Hf. rewrite parse_rec_S.
    destruct (MAX_NESTING_DEPTH <? depth)%nat; [split; discriminate|].
    destruct (lex_total s) as [L1 L2].
    destruct (lex s) as [[tok s1]| |]; [|split; discriminate|exfalso; apply L1; reflexivity].
    destruct (L2 _ _ eq_refl) as [E|Hl]; [subst tok; split; discriminate|].
    destruct tok.
    + split; [discriminate|intros ? ? H; discriminate H].
    + destruct (IHd depth s1 [] ltac:(lia)) as [I1 I2]. split; [exact I1|].
      intros v r H. apply I2 in H. lia.
    + destruct (IHa depth s1 [] ltac:(lia)) as [I1 I2]. split; [exact I1|].
      intros v r H. apply I2 in H. lia.
    + split; [discriminate|]. intros ? ? H; inversion H; subst; exact Hl.
    + split; [discriminate|]. intros ? ? H; inversion H; subst; exact Hl.
    + split; [discriminate|]. intros ? ? H; inversion H; subst; exact Hl.
  - intros depth s d Hf. rewrite dict_loop_S.
    destruct (expect s 125) as [r0|] eqn:E0.
    { apply expect_shorter in E0. split; [discriminate|]. intros ? ? H; inversion H; subst; exact E0. }
    destruct (lex_total s) as [L1 L2].
    destruct (lex s) as [[key s1]| |]; [|split; discriminate|exfalso; apply L1; reflexivity].
    destruct (key_of_token key) as [k|] eqn:Ek; [|split; discriminate].
    destruct (L2 _ _ eq_refl) as [E|Hl]; [subst key; discriminate|].
    destruct (expect s1 61) as [s2|] eqn:E1; [|split; discriminate]. apply expect_shorter in E1.
    destruct (IHp (S depth) s2 ltac:(lia)) as [I1 I2].
    destruct (parse_rec f (S depth) s2) as [[v s3]| |]; [|split; discriminate|exfalso; apply I1; reflexivity].
    specialize (I2 _ _ eq_refl).
    destruct (expect s3 59) as [s4|] eqn:E2; [|split; discriminate]. apply expect_shorter in E2.
    destruct (IHd depth s4 (dict_insert k v d) ltac:(lia)) as [J1 J2]. split; [exact J1|].
    intros v' r H. apply J2 in H. lia.
  - intros depth s acc Hf. rewrite arr_loop_S.
    destruct (expect s 41) as [r0|] eqn:E0.
    { apply expect_shorter in E0. split; [discriminate|]. intros ? ? H; inversion H; subst; exact E0. }
    destruct (IHp (S depth) s ltac:(lia)) as [I1 I2].
    destruct (parse_rec f (S depth) s) as [[v s1]| |]; [|split; discriminate|exfalso; apply I1; reflexivity].
    specialize (I2 _ _ eq_refl).
    destruct (expect s1 41) as [r1|] eqn:E1.
    { apply expect_shorter in E1. split; [discriminate|]. intros ? ? H; inversion H; subst; lia. }
    destruct (expect s1 44) as [s2|] eqn:E2; [|split; discriminate]. apply expect_shorter in E2.
    destruct (expect s2 41) as [r2|] eqn:E3.
    { apply expect_shorter in E3. split; [discriminate|]. intros ? ? H; inversion H; subst; lia. }
    destruct (IHa depth s2 (v :: acc) ltac:(lia)) as [J1 J2]. split; [exact J1|].
    intros v' r H. apply J2 in H. lia.
Qed.

Theorem parse_never_out_of_fuel : forall s, parse s <> OutOfFuel.
Proof.
  intro s. unfold parse. destruct (parse_rec_total (fuel_for s)) as [H _].
  destruct (H 0%nat s) as [H1 _]; [unfold fuel_for; lia|].
  destruct (parse_rec (fuel_for s) 0 s) as [[v r]| |]; [discriminate|discriminate|contradiction].
Qed.

(* ---- skip_rec follows parse_rec *)
Definition drop_value (r : res (plist * str)) : res str :=
  match r with Ok (_, s) => Ok s | Err => Err | OutOfFuel => OutOfFuel end.

Lemma skip_rec_S : forall f depth s,
  skip_rec (S f) depth s =
  if (MAX_NESTING_DEPTH <? depth)%nat then Err
  else match lex s with
       | Err => Err
       | OutOfFuel => OutOfFuel
       | Ok (tok, s1) =>
           match tok with
           | TAtom _ | TString _ | TData _ => Ok s1
           | TOpenBrace => skip_dict f depth s1
           | TOpenParen => skip_arr f depth s1
           | TEof => Err
           end
       end.
Proof. reflexivity. Qed.

Lemma skip_dict_S : forall f depth s,
  skip_dict (S f) depth s =
  match expect s 125 with
  | Some r => Ok r
  | None =>
      match lex s with
      | Err => Err
      | OutOfFuel => OutOfFuel
      | Ok (key, s1) =>
          match key_of_token key with
          | None => Err
          | Some _ =>
              match expect s1 61 with
              | None => Err
              | Some s2 =>
                  match skip_rec f (S depth) s2 with
                  | Err => Err
                  | OutOfFuel => OutOfFuel
                  | Ok s3 => match expect s3 59 with None => Err | Some s4 => skip_dict f depth s4 end
                  end
              end
          end
      end
  end.
Proof. reflexivity. Qed.

Lemma skip_arr_S : forall f depth s,
  skip_arr (S f) depth s =
  match expect s 41 with
  | Some r => Ok r
  | None =>
      match skip_rec f (S depth) s with
      | Err => Err
      | OutOfFuel => OutOfFuel
      | Ok s1 =>
          match expect s1 41 with
          | Some r => Ok r
          | None =>
              match expect s1 44 with
              | None => Err
              | Some s2 => match expect s2 41 with Some r => Ok r | None => skip_arr f depth s2 end
              end
          end
      end
  end.
Proof. reflexivity. Qed.

Theorem skip_follows_parse : forall fuel,
  (forall depth s, skip_rec fuel depth s = drop_value (parse_rec fuel depth s))
  /\ (forall depth s d, skip_dict fuel depth s = drop_value (dict_loop fuel depth s d))
  /\ (forall depth s acc, skip_arr fuel depth s = drop_value (arr_loop fuel depth s acc)).
Proof.
  induction fuel as [|f (IHp & IHd & IHa)]; [repeat split|].
  repeat apply conj.
  - intros depth s. rewrite skip_rec_S, parse_rec_S.
    destruct (MAX_NESTING_DEPTH <? depth)%nat; [reflexivity|].
    destruct (lex s) as [[tok s1]| |]; try reflexivity.
    destruct tok; try reflexivity; [apply IHd|apply IHa].
  - intros depth s d. rewrite skip_dict_S, dict_loop_S.
    destruct (expect s 125); [reflexivity|].
    destruct (lex s) as [[key s1]| |]; try reflexivity.
    destruct (key_of_token key); [|reflexivity].
    destruct (expect s1 61) as [s2|]; [|reflexivity].
    rewrite (IHp (S depth) s2).
    destruct (parse_rec f (S depth) s2) as [[v s3]| |]; try reflexivity. cbn [drop_value].
    destruct (expect s3 59); [|reflexivity]. apply IHd.
  - intros depth s acc. rewrite skip_arr_S, arr_loop_S.
    destruct (expect s 41); [reflexivity|].
    rewrite (IHp (S depth) s).
    destruct (parse_rec f (S depth) s) as [[v s1]| |]; try reflexivity. cbn [drop_value].
    destruct (expect s1 41); [reflexivity|].
    destruct (expect s1 44) as [s2|]; [|reflexivity].
    destruct (expect s2 41); [reflexivity|]. apply IHa.
Qed.
