(* C20 — the dictionary a reader builds (BTreeMap::insert in source order) does not depend on the
   order of the entries when the keys are distinct. *)
From Coq Require Import List NArith ZArith Bool Arith Lia Sorted Permutation.
From FV.C20 Require Import Model.
Import ListNotations.
Open Scope N_scope.

Lemma str_cmp_eq : forall a b, str_cmp a b = Eq <-> a = b.
Proof.
  induction a as [|x a IH]; intros [|y b]; cbn [str_cmp]; split; intro H;
    try reflexivity; try discriminate.
  - destruct (x ?= y) eqn:E; try discriminate. apply N.compare_eq_iff in E. subst y.
    apply IH in H. subst b. reflexivity.
  - inversion H; subst. rewrite N.compare_refl. apply IH. reflexivity.
Qed.

Lemma str_cmp_refl : forall a, str_cmp a a = Eq.
Proof. intro a. apply str_cmp_eq. reflexivity. Qed.

Lemma str_cmp_antisym : forall a b, str_cmp b a = CompOpp (str_cmp a b).
Proof.
  induction a as [|x a IH]; intros [|y b]; cbn [str_cmp CompOpp]; try reflexivity.
  rewrite (N.compare_antisym x y). destruct (x ?= y); cbn [CompOpp]; try reflexivity. apply IH.
Qed.

Lemma str_cmp_lt_trans : forall a b c, str_cmp a b = Lt -> str_cmp b c = Lt -> str_cmp a c = Lt.
Proof.
  induction a as [|x a IH]; intros [|y b] [|z c]; cbn [str_cmp]; intros H1 H2;
    try reflexivity; try discriminate.
  destruct (x ?= y) eqn:E1; try discriminate; destruct (y ?= z) eqn:E2; try discriminate.
  - apply N.compare_eq_iff in E1. apply N.compare_eq_iff in E2. subst. rewrite N.compare_refl.
    eapply IH; eassumption.
  - apply N.compare_eq_iff in E1. subst. rewrite E2. reflexivity.
  - apply N.compare_eq_iff in E2. subst. rewrite E1. reflexivity.
  - rewrite N.compare_lt_iff in E1, E2. assert (E : (x ?= z) = Lt) by (apply N.compare_lt_iff; lia).
    rewrite E. reflexivity.
Qed.

Lemma str_cmp_gt_lt : forall a b, str_cmp a b = Gt <-> str_cmp b a = Lt.
Proof.
  intros a b. rewrite (str_cmp_antisym a b). destruct (str_cmp a b); cbn; split; congruence.
Qed.

Lemma str_eqb_eq : forall a b, str_eqb a b = true <-> a = b.
Proof.
  induction a as [|x a IH]; intros [|y b]; cbn [str_eqb]; split; intro H;
    try reflexivity; try discriminate.
  - apply andb_true_iff in H as [H1 H2]. apply N.eqb_eq in H1. apply IH in H2. congruence.
  - inversion H; subst. rewrite N.eqb_refl. apply IH. reflexivity.
Qed.

Definition entry := (str * plist)%type.
Definition klt (e1 e2 : entry) : Prop := str_cmp (fst e1) (fst e2) = Lt.

Lemma keys_sorted_Sorted : forall d, keys_sorted d = true -> StronglySorted klt d.
Proof.
  intros d H. apply Sorted_StronglySorted.
  - intros a b c. unfold klt. apply str_cmp_lt_trans.
  - induction d as [|[k v] t IH]; [constructor|].
    cbn [keys_sorted] in H. apply andb_true_iff in H as [Hh Ht]. constructor; [apply IH; exact Ht|].
    destruct t as [|[k' v'] t']; constructor. unfold klt. cbn [fst].
    destruct (str_cmp k k'); try discriminate. reflexivity.
Qed.

Lemma Sorted_keys_sorted : forall d, StronglySorted klt d -> keys_sorted d = true.
Proof.
  induction d as [|[k v] t IH]; intro H; [reflexivity|].
  inversion H as [|? ? Ht Hall]; subst. cbn [keys_sorted]. rewrite IH by assumption.
  destruct t as [|[k' v'] t']; [reflexivity|]. inversion Hall as [|? ? Hk _]; subst.
  unfold klt in Hk. cbn [fst] in Hk. rewrite Hk. reflexivity.
Qed.

Lemma insert_in : forall k v d e, In e (dict_insert k v d) -> e = (k, v) \/ In e d.
Proof.
  induction d as [|[k' v'] t IH]; intros e H; cbn [dict_insert] in H.
  - destruct H as [H|[]]; left; congruence.
  - destruct (str_cmp k k'); cbn [In] in *.
    + destruct H as [H|H]; [left; congruence|right; right; exact H].
    + destruct H as [H|H]; [left; congruence|right; exact H].
    + destruct H as [H|H]; [right; left; exact H|]. apply IH in H. destruct H; [left|right; right]; assumption.
Qed.

Lemma insert_sorted : forall k v d, StronglySorted klt d -> StronglySorted klt (dict_insert k v d).
Proof.
  induction d as [|[k' v'] t IH]; intro H; cbn [dict_insert].
  - constructor; constructor.
  - inversion H as [|? ? Ht Hall]; subst. destruct (str_cmp k k') eqn:E.
    + apply str_cmp_eq in E. subst k'. constructor; [assumption|].
      eapply Forall_impl; [|exact Hall]. intros a Ha. exact Ha.
    + constructor; [assumption|]. constructor; [exact E|].
      eapply Forall_impl; [|exact Hall]. intros a Ha. unfold klt in *. cbn [fst] in *.
      eapply str_cmp_lt_trans; eassumption.
    + constructor; [apply IH; assumption|]. apply Forall_forall. intros e He.
      apply insert_in in He. destruct He as [He|He].
      * subst e. unfold klt. cbn [fst]. apply str_cmp_gt_lt. exact E.
      * rewrite Forall_forall in Hall. apply Hall. exact He.
Qed.

Lemma insert_perm : forall k v d, ~ In k (map fst d) ->
  Permutation (dict_insert k v d) ((k, v) :: d).
Proof.
  induction d as [|[k' v'] t IH]; intro Hn; cbn [dict_insert]; [reflexivity|].
  cbn [map fst In] in Hn. destruct (str_cmp k k') eqn:E.
  - apply str_cmp_eq in E. subst k'. exfalso. apply Hn. left. reflexivity.
  - reflexivity.
  - rewrite IH by (intro; apply Hn; right; assumption). apply perm_swap.
Qed.

Definition build (l : list entry) (acc : list entry) : list entry :=
  fold_left (fun a e => dict_insert (fst e) (snd e) a) l acc.

Lemma build_spec : forall l acc, StronglySorted klt acc -> NoDup (map fst l ++ map fst acc) ->
  StronglySorted klt (build l acc) /\ Permutation (build l acc) (l ++ acc).
Proof.
  induction l as [|[k v] l IH]; intros acc Hs Hnd; cbn [build fold_left].
  - split; [assumption|reflexivity].
  - cbn [map fst app] in Hnd. inversion Hnd as [|? ? Hnin Hnd']; subst.
    assert (Hk : ~ In k (map fst acc)) by (intro; apply Hnin; apply in_or_app; right; assumption).
    pose proof (insert_perm k v acc Hk) as Hp.
    specialize (IH (dict_insert k v acc) (insert_sorted k v acc Hs)).
    cbn [fst snd]. fold (build l (dict_insert k v acc)).
    destruct IH as [IH1 IH2].
    + (* NoDup *)
      assert (Hpk : Permutation (map fst (dict_insert k v acc)) (k :: map fst acc))
        by (apply (Permutation_map fst) in Hp; exact Hp).
      eapply Permutation_NoDup.
      * apply Permutation_app_head. symmetry. exact Hpk.
      * eapply Permutation_NoDup; [apply Permutation_middle|]. constructor; assumption.
    + split; [assumption|].
      rewrite IH2. rewrite Hp. symmetry. apply Permutation_middle.
Qed.

Lemma klt_irrefl : forall e, ~ klt e e.
Proof. intros e H. unfold klt in H. rewrite str_cmp_refl in H. discriminate. Qed.

Lemma sorted_perm_eq : forall l1 l2 : list entry,
  StronglySorted klt l1 -> StronglySorted klt l2 -> Permutation l1 l2 -> l1 = l2.
Proof.
  induction l1 as [|a1 t1 IH]; intros l2 H1 H2 Hp.
  - apply Permutation_nil in Hp. subst. reflexivity.
  - destruct l2 as [|a2 t2]; [apply Permutation_sym, Permutation_nil in Hp; discriminate|].
    inversion H1 as [|? ? Hs1 Ha1]; subst. inversion H2 as [|? ? Hs2 Ha2]; subst.
    assert (E : a1 = a2).
    { assert (I1 : In a1 (a2 :: t2)) by (eapply Permutation_in; [exact Hp|left; reflexivity]).
      assert (I2 : In a2 (a1 :: t1)) by (eapply Permutation_in; [symmetry; exact Hp|left; reflexivity]).
      destruct I1 as [I1|I1]; [congruence|]. destruct I2 as [I2|I2]; [congruence|].
      rewrite Forall_forall in Ha1, Ha2. specialize (Ha1 _ I2). specialize (Ha2 _ I1).
      exfalso. apply (klt_irrefl a1). unfold klt in *. eapply str_cmp_lt_trans; eassumption. }
    subst a2. f_equal. apply IH; try assumption. eapply Permutation_cons_inv. exact Hp.
Qed.

Lemma sorted_keys_nodup : forall d, StronglySorted klt d -> NoDup (map fst d).
Proof.
  induction d as [|[k v] t IH]; intro H; cbn [map]; [constructor|].
  inversion H as [|? ? Ht Hall]; subst. constructor; [|apply IH; assumption].
  cbn [fst]. intro Hin. apply in_map_iff in Hin as ([k' v'] & Hk & Hin). cbn [fst] in Hk. subst k'.
  rewrite Forall_forall in Hall. specialize (Hall _ Hin). apply (klt_irrefl (k, v')).
  unfold klt in *. cbn [fst] in *. exact Hall.
Qed.

(* distinct keys: any two orders of the same entries build the same dictionary *)
Theorem build_order_irrelevant : forall l l' : list entry,
  Permutation l l' -> NoDup (map fst l) -> build l [] = build l' [].
Proof.
  intros l l' Hp Hnd.
  assert (Hnd' : NoDup (map fst l')) by (eapply Permutation_NoDup; [apply Permutation_map; exact Hp|exact Hnd]).
  destruct (build_spec l [] (SSorted_nil _)) as [S1 P1]; [cbn [map]; rewrite app_nil_r; exact Hnd|].
  destruct (build_spec l' [] (SSorted_nil _)) as [S2 P2]; [cbn [map]; rewrite app_nil_r; exact Hnd'|].
  apply sorted_perm_eq; try assumption.
  rewrite P1, P2, !app_nil_r. exact Hp.
Qed.

(* entries of a sorted dictionary, in any order, build that dictionary *)
Theorem build_sorted_id : forall (d l : list entry),
  StronglySorted klt d -> Permutation l d -> build l [] = d.
Proof.
  intros d l Hs Hp.
  assert (Hnd : NoDup (map fst l)).
  { eapply Permutation_NoDup; [apply Permutation_map; symmetry; exact Hp|]. apply sorted_keys_nodup. exact Hs. }
  destruct (build_spec l [] (SSorted_nil _)) as [S1 P1]; [cbn [map]; rewrite app_nil_r; exact Hnd|].
  apply sorted_perm_eq; try assumption. rewrite P1, app_nil_r. exact Hp.
Qed.

(* ---- shuffle is a permutation *)
Lemma insert_at_perm : forall A (x : A) i l, Permutation (insert_at i x l) (x :: l).
Proof.
  intros A x. induction i as [|i IH]; intros [|y t]; cbn [insert_at]; try reflexivity.
  rewrite IH. apply perm_swap.
Qed.

Lemma shuffle_perm : forall A pick (l : list A), Permutation (shuffle pick l) l.
Proof.
  intros A pick. induction l as [|x t IH]; cbn [shuffle]; [reflexivity|].
  rewrite insert_at_perm. constructor. exact IH.
Qed.

(* every order is produced by some oracle *)
Lemma insert_at_reaches : forall A (x : A) l1 l2, insert_at (length l1) x (l1 ++ l2) = l1 ++ x :: l2.
Proof.
  intros A x. induction l1 as [|y l1 IH]; intro l2; cbn [length insert_at app]; [destruct l2; reflexivity|].
  rewrite IH. reflexivity.
Qed.

Theorem shuffle_reaches_every_order : forall A (l l' : list A),
  Permutation l' l -> exists pick, shuffle pick l = l'.
Proof.
  intros A l. induction l as [|x t IH]; intros l' Hp.
  - apply Permutation_sym, Permutation_nil in Hp. subst. exists (fun _ => 0). reflexivity.
  - assert (Hin : In x l') by (eapply Permutation_in; [symmetry; exact Hp|left; reflexivity]).
    apply in_split in Hin as (l1 & l2 & E). subst l'.
    assert (Hp' : Permutation (l1 ++ l2) t) by (eapply Permutation_cons_inv; rewrite <- Hp; apply Permutation_middle).
    destruct (IH _ Hp') as (pick & Hpick).
    exists (fun n => if Nat.eqb n (length t) then N.of_nat (length l1) else pick n).
    cbn [shuffle]. rewrite Nat.eqb_refl. rewrite Nnat.Nat2N.id.
    assert (Hs : shuffle (fun n => if Nat.eqb n (length t) then N.of_nat (length l1) else pick n) t
                 = shuffle pick t).
    { clear -t. assert (G : forall u : list A, (length u <= length t)%nat -> forall q,
               (forall n, (n < length t)%nat -> q n = pick n) -> shuffle q u = shuffle pick u).
      { induction u as [|y u IHu]; intros Hlen q Hq; cbn [shuffle]; [reflexivity|].
        cbn [length] in Hlen. rewrite Hq by lia. rewrite IHu by (lia || assumption). reflexivity. }
      apply G; [lia|]. intros n Hn. destruct (Nat.eqb_spec n (length t)); [lia|reflexivity]. }
    rewrite Hs, Hpick. apply insert_at_reaches.
Qed.
