(* C20 — lemmas about the lexer: what Token::lex / Token::expect return on rendered tokens. *)
From Coq Require Import List NArith ZArith Bool Arith Lia ZifyBool ZifyN ZifyNat.
From FV.C20 Require Import Model.
Import ListNotations.
Open Scope N_scope.
Ltac Zify.zify_post_hook ::= Z.div_mod_to_equations.

(* what may follow a bare atom: the end of the input or a character that is not is_alnum *)
Definition head_ok (rest : str) : Prop :=
  match rest with [] => True | c :: _ => is_alnum c = false end.

Lemma alnum_facts : forall c, is_alnum c = true ->
  is_ws c = false /\ (c =? 123) = false /\ (c =? 40) = false /\ (c =? 60) = false
  /\ (c =? 34) = false /\ (c =? 41) = false /\ (c =? 125) = false /\ (c =? 44) = false
  /\ (c =? 59) = false /\ (c =? 61) = false.
Proof.
  intros c H. unfold is_alnum, is_numeric, is_digit, is_upper, is_lower, is_ws in *. lia.
Qed.

Lemma skip_ws_app : forall w s, ws_ok w = true -> skip_ws (w ++ s) = skip_ws s.
Proof.
  induction w as [|c w IH]; intros s H; [reflexivity|].
  cbn [ws_ok forallb] in H. apply andb_true_iff in H as [Hc Hw].
  cbn [app skip_ws]. rewrite Hc. apply IH. exact Hw.
Qed.

Lemma skip_ws_stop : forall c s, is_ws c = false -> skip_ws (c :: s) = c :: s.
Proof. intros c s H. cbn [skip_ws]. rewrite H. reflexivity. Qed.

Lemma ws_head_ok : forall w c r, ws_ok w = true -> is_alnum c = false -> head_ok (w ++ c :: r).
Proof.
  intros [|x w] c r Hw Hc; cbn; [exact Hc|].
  cbn [ws_ok forallb] in Hw. apply andb_true_iff in Hw as [Hx _].
  destruct (is_alnum x) eqn:E; [|reflexivity]. apply alnum_facts in E. destruct E as [E _]. congruence.
Qed.

Lemma expect_hit : forall w d r, ws_ok w = true -> is_ws d = false -> expect (w ++ d :: r) d = Some r.
Proof.
  intros w d r Hw Hd. unfold expect. rewrite skip_ws_app by exact Hw.
  rewrite skip_ws_stop by exact Hd. rewrite N.eqb_refl. reflexivity.
Qed.

Lemma expect_miss : forall w c d r, ws_ok w = true -> is_ws c = false -> c <> d ->
  expect (w ++ c :: r) d = None.
Proof.
  intros w c d r Hw Hc Hne. unfold expect. rewrite skip_ws_app by exact Hw.
  rewrite skip_ws_stop by exact Hc. destruct (N.eqb_spec c d); [contradiction|reflexivity].
Qed.

Lemma expect_nil_ws : forall w d, ws_ok w = true -> expect w d = None.
Proof.
  intros w d Hw. unfold expect. rewrite <- (app_nil_r w). rewrite skip_ws_app by exact Hw. reflexivity.
Qed.

(* ---- atoms *)
Lemma span_alnum : forall a rest, forallb is_alnum a = true -> head_ok rest ->
  span is_alnum (a ++ rest) = (a, rest).
Proof.
  induction a as [|c a IH]; intros rest Ha Hr.
  - cbn [app]. destruct rest as [|x r]; [reflexivity|]. cbn in Hr. cbn [span]. rewrite Hr. reflexivity.
  - cbn [forallb] in Ha. apply andb_true_iff in Ha as [Hc Ha].
    cbn [app span]. rewrite Hc. rewrite IH by assumption. reflexivity.
Qed.

Lemma lex_atom : forall w s rest, ws_ok w = true -> atom_ok s = true -> head_ok rest ->
  lex (w ++ s ++ rest) = Ok (TAtom s, rest).
Proof.
  intros w s rest Hw Hs Hr. destruct s as [|b a]; [discriminate|].
  cbn [atom_ok forallb] in Hs. apply andb_true_iff in Hs as [Hb Ha].
  destruct (alnum_facts b Hb) as (Hws & H123 & H40 & H60 & H34 & _).
  unfold lex. rewrite skip_ws_app by exact Hw. cbn [app]. rewrite skip_ws_stop by exact Hws.
  rewrite H123, H40, H60, H34, Hb. rewrite span_alnum by assumption. reflexivity.
Qed.

(* ---- hex digits *)
Lemma hex_val_hexchar : forall up d, d < 16 -> hex_val (hexchar up d) = Some d.
Proof.
  intros up d H.
  assert (E : d = 0 \/ d = 1 \/ d = 2 \/ d = 3 \/ d = 4 \/ d = 5 \/ d = 6 \/ d = 7 \/ d = 8 \/ d = 9
              \/ d = 10 \/ d = 11 \/ d = 12 \/ d = 13 \/ d = 14 \/ d = 15) by lia.
  repeat (destruct E as [E|E]; [subst d; destruct up; reflexivity|]). subst d; destruct up; reflexivity.
Qed.

Lemma hexchar_not_gt : forall up d, d < 16 -> (hexchar up d =? 62) = false.
Proof.
  intros up d H. unfold hexchar. destruct (d <? 10) eqn:E; destruct up; lia.
Qed.

Lemma parse_hex4_hex4 : forall up n rest, n < 65536 ->
  parse_hex4 (hex4 up n ++ rest) = Some (n, rest).
Proof.
  intros up n rest H. unfold hex4, parse_hex4. cbn [app].
  assert (H1 : n / 4096 < 16) by lia.
  assert (H2 : (n / 256) mod 16 < 16) by lia.
  assert (H3 : (n / 16) mod 16 < 16) by lia.
  assert (H4 : n mod 16 < 16) by lia.
  rewrite (hex_val_hexchar up _ H1). cbn [hex_run].
  rewrite (hex_val_hexchar up _ H1), (hex_val_hexchar up _ H2), (hex_val_hexchar up _ H3),
    (hex_val_hexchar up _ H4).
  f_equal. f_equal. lia.
Qed.

(* ---- escapes *)
Lemma parse_escape_render : forall x rest, cchar_ok x = true ->
  match x with
  | CRaw _ => True
  | _ => exists e r, render_cchar x ++ rest = 92 :: e :: r
                     /\ parse_escape (e :: r) = Some (cchar_val x, rest)
  end.
Proof.
  intros [c|c|c|up c] rest Hok; [exact I| | |].
  - (* simple escapes *)
    cbn [cchar_ok] in Hok. cbn [render_cchar cchar_val app].
    eexists; eexists; split; [reflexivity|].
    assert (E : c = 34 \/ c = 92 \/ c = 10 \/ c = 13 \/ c = 9) by lia.
    destruct E as [E|[E|[E|[E|E]]]]; subst c; reflexivity.
  - (* octal *)
    cbn [cchar_ok] in Hok. cbn [render_cchar cchar_val app].
    eexists; eexists; split; [reflexivity|].
    assert (Hc : c < 256) by lia.
    unfold parse_escape.
    assert (D1 : c / 64 < 4) by lia.
    replace ((48 + c / 64 =? 34) || (48 + c / 64 =? 92)) with false by lia.
    replace (48 + c / 64 =? 110) with false by lia.
    replace (48 + c / 64 =? 114) with false by lia.
    replace (48 + c / 64 =? 116) with false by lia.
    replace (48 + c / 64 =? 85) with false by lia.
    replace ((48 <=? 48 + c / 64) && (48 + c / 64 <=? 51)) with true by lia.
    replace (is_oct (48 + (c / 8) mod 8) && is_oct (48 + c mod 8)) with true
      by (unfold is_oct; lia).
    f_equal. f_equal. lia.
  - (* \U *)
    cbn [cchar_ok] in Hok. unfold valid_scalar in Hok. cbn [render_cchar cchar_val].
    destruct (c <? 0x10000) eqn:Hbmp.
    + cbn [app]. eexists; eexists; split; [reflexivity|].
      assert (Hc : c < 65536) by lia.
      unfold parse_escape.
      change ((85 =? 34) || (85 =? 92)) with false. cbn match.
      change (85 =? 110) with false. change (85 =? 114) with false. change (85 =? 116) with false.
      change (85 =? 85) with true. cbn match.
      rewrite (parse_hex4_hex4 up c rest Hc).
      unfold hex4 at 1. cbn [app].
      assert (Hs : is_surrogate c = false) by (unfold is_surrogate; lia).
      rewrite Hs. cbn [negb orb]. unfold decode1. rewrite Hs. reflexivity.
    + set (c' := c - 0x10000).
      assert (Hc' : c' < 0x100000) by (subst c'; lia).
      set (hi := 0xD800 + c' / 1024). set (lo := 0xDC00 + c' mod 1024).
      assert (Hhi : hi < 65536) by (subst hi; lia).
      assert (Hlo : lo < 65536) by (subst lo; lia).
      rewrite <- app_comm_cons. rewrite <- app_comm_cons.
      eexists; eexists; split; [reflexivity|].
      unfold parse_escape.
      change ((85 =? 34) || (85 =? 92)) with false. cbn match.
      change (85 =? 110) with false. change (85 =? 114) with false. change (85 =? 116) with false.
      change (85 =? 85) with true. cbn match.
      rewrite <- app_assoc.
      rewrite (parse_hex4_hex4 up hi _ Hhi).
      unfold hex4 at 1. cbn [app].
      assert (Hs : is_surrogate hi = true) by (unfold is_surrogate; subst hi; lia).
      rewrite Hs. cbn [negb orb skipn].
      rewrite (parse_hex4_hex4 up lo rest Hlo).
      unfold decode2. rewrite Hs. cbn [negb].
      assert (Hh : is_high hi = true) by (unfold is_high; subst hi; lia).
      assert (Hl : is_low lo = true) by (unfold is_low; subst lo; lia).
      rewrite Hh, Hl. cbn [andb]. f_equal. f_equal. subst hi lo c'. lia.
Qed.

Lemma render_cchar_nonempty : forall x, (1 <= length (render_cchar x))%nat.
Proof.
  intros [c|c|c|up c]; cbn [render_cchar length]; try lia.
  destruct (c <? 65536); cbn [length]; lia.
Qed.

Lemma flat_map_render_length : forall l, (length l <= length (flat_map render_cchar l))%nat.
Proof.
  induction l as [|x l IH]; cbn [flat_map length]; [lia|].
  rewrite app_length. pose proof (render_cchar_nonempty x). lia.
Qed.

Lemma lex_quoted_render : forall l acc r fuel,
  forallb cchar_ok l = true -> (length l < fuel)%nat ->
  lex_quoted fuel (flat_map render_cchar l ++ 34 :: r) acc = Ok (rev acc ++ map cchar_val l, r).
Proof.
  induction l as [|x l IH]; intros acc r fuel Hok Hf.
  - destruct fuel; [cbn in Hf; lia|]. cbn [flat_map app lex_quoted map].
    change (34 =? 34) with true. cbn match. rewrite app_nil_r. reflexivity.
  - cbn [forallb] in Hok. apply andb_true_iff in Hok as [Hx Hl].
    destruct fuel as [|f]; [cbn in Hf; lia|]. cbn [length] in Hf.
    cbn [flat_map map]. rewrite <- app_assoc.
    pose proof (parse_escape_render x (flat_map render_cchar l ++ 34 :: r) Hx) as PE.
    destruct x as [c|c|c|up c].
    + cbn [cchar_ok] in Hx. cbn [render_cchar app lex_quoted cchar_val].
      replace (c =? 34) with false by lia. replace (c =? 92) with false by lia.
      rewrite IH by (assumption || lia). cbn [rev]. rewrite <- app_assoc. reflexivity.
    + destruct PE as (e & r' & E1 & E2). rewrite E1. cbn [lex_quoted].
      change (92 =? 34) with false. change (92 =? 92) with true. cbn match.
      rewrite E2. rewrite IH by (assumption || lia). cbn [rev]. rewrite <- app_assoc. reflexivity.
    + destruct PE as (e & r' & E1 & E2). rewrite E1. cbn [lex_quoted].
      change (92 =? 34) with false. change (92 =? 92) with true. cbn match.
      rewrite E2. rewrite IH by (assumption || lia). cbn [rev]. rewrite <- app_assoc. reflexivity.
    + destruct PE as (e & r' & E1 & E2). rewrite E1. cbn [lex_quoted].
      change (92 =? 34) with false. change (92 =? 92) with true. cbn match.
      rewrite E2. rewrite IH by (assumption || lia). cbn [rev]. rewrite <- app_assoc. reflexivity.
Qed.

Lemma lex_quot : forall w l rest, ws_ok w = true -> forallb cchar_ok l = true ->
  lex (w ++ 34 :: flat_map render_cchar l ++ 34 :: rest) = Ok (TString (map cchar_val l), rest).
Proof.
  intros w l rest Hw Hl. unfold lex. rewrite skip_ws_app by exact Hw.
  rewrite skip_ws_stop by reflexivity.
  change (34 =? 123) with false. change (34 =? 40) with false. change (34 =? 60) with false.
  change (34 =? 34) with true. cbn match.
  rewrite lex_quoted_render.
  - reflexivity.
  - exact Hl.
  - rewrite app_length. pose proof (flat_map_render_length l). lia.
Qed.

(* ---- data *)
Lemma split_gt_bytes : forall d rest, forallb (fun x : N * bool * bool => fst (fst x) <? 256) d = true ->
  split_gt (flat_map render_byte d ++ 62 :: rest) = Some (flat_map render_byte d, rest).
Proof.
  induction d as [|[[b u1] u2] d IH]; intros rest H.
  - cbn [flat_map app split_gt]. change (62 =? 62) with true. reflexivity.
  - cbn [forallb fst] in H. apply andb_true_iff in H as [Hb Hd].
    cbn [flat_map render_byte app split_gt].
    rewrite hexchar_not_gt by lia. rewrite hexchar_not_gt by lia.
    rewrite IH by exact Hd. reflexivity.
Qed.

Lemma hex_pairs_bytes : forall d, forallb (fun x : N * bool * bool => fst (fst x) <? 256) d = true ->
  hex_pairs (flat_map render_byte d) = Some (map (fun x => fst (fst x)) d).
Proof.
  induction d as [|[[b u1] u2] d IH]; intros H; [reflexivity|].
  cbn [forallb fst] in H. apply andb_true_iff in H as [Hb Hd].
  cbn [flat_map render_byte app hex_pairs map fst].
  rewrite hex_val_hexchar by lia. rewrite hex_val_hexchar by lia. rewrite IH by exact Hd.
  f_equal. f_equal. lia.
Qed.

Lemma lex_data : forall w d rest, ws_ok w = true ->
  forallb (fun x : N * bool * bool => fst (fst x) <? 256) d = true ->
  lex (w ++ 60 :: flat_map render_byte d ++ 62 :: rest) = Ok (TData (map (fun x => fst (fst x)) d), rest).
Proof.
  intros w d rest Hw Hd. unfold lex. rewrite skip_ws_app by exact Hw.
  rewrite skip_ws_stop by reflexivity.
  change (60 =? 123) with false. change (60 =? 40) with false. change (60 =? 60) with true. cbn match.
  rewrite split_gt_bytes by exact Hd. rewrite hex_pairs_bytes by exact Hd. reflexivity.
Qed.

Lemma lex_brace : forall w r, ws_ok w = true -> lex (w ++ 123 :: r) = Ok (TOpenBrace, r).
Proof.
  intros w r Hw. unfold lex. rewrite skip_ws_app by exact Hw. rewrite skip_ws_stop by reflexivity.
  reflexivity.
Qed.

Lemma lex_paren : forall w r, ws_ok w = true -> lex (w ++ 40 :: r) = Ok (TOpenParen, r).
Proof.
  intros w r Hw. unfold lex. rewrite skip_ws_app by exact Hw. rewrite skip_ws_stop by reflexivity.
  reflexivity.
Qed.

(* ---- keys *)
Lemma lex_key : forall w k rest, ws_ok w = true -> key_ok k = true -> head_ok rest ->
  exists t, lex (w ++ render_key k ++ rest) = Ok (t, rest) /\ key_of_token t = Some (key_val k).
Proof.
  intros w [s|l] rest Hw Hk Hr; cbn [key_ok render_key key_val] in *.
  - exists (TAtom s). split; [apply lex_atom; assumption|reflexivity].
  - exists (TString (map cchar_val l)). split; [|reflexivity].
    cbn [app]. rewrite <- app_assoc. cbn [app]. apply lex_quot; assumption.
Qed.

(* the first significant character of a key is not a closing brace *)
Lemma expect_key_none : forall w k rest, ws_ok w = true -> key_ok k = true ->
  expect (w ++ render_key k ++ rest) 125 = None.
Proof.
  intros w [s|l] rest Hw Hk; cbn [key_ok render_key] in *.
  - destruct s as [|b a]; [discriminate|]. cbn [atom_ok forallb] in Hk.
    apply andb_true_iff in Hk as [Hb _]. destruct (alnum_facts b Hb) as (Hws & _).
    cbn [app]. apply expect_miss; [assumption|assumption|].
    intro E; subst b. discriminate Hb.
  - cbn [app]. apply expect_miss; [assumption|reflexivity|discriminate].
Qed.
