(* C09 — basic facts: boolean equalities, membership, dedup, kget, group_of. *)
From Coq Require Import List NArith ZArith QArith Qabs Qround Bool Lia.
From FV.C09 Require Import Model.
Import ListNotations.

Lemma side_eqb_eq : forall x y, side_eqb x y = true <-> x = y.
Proof.
  intros [a|a] [b|b]; cbn; split; intro H; try discriminate; try (inversion H; subst; apply N.eqb_refl);
    try (apply N.eqb_eq in H; subst; reflexivity).
Qed.

Lemma side_eqb_refl : forall x, side_eqb x x = true.
Proof. intro x. apply side_eqb_eq. reflexivity. Qed.

Lemma pair_eqb_eq : forall p q, pair_eqb p q = true <-> p = q.
Proof.
  intros [a b] [c d]. unfold pair_eqb. cbn [fst snd]. rewrite andb_true_iff, !side_eqb_eq.
  split; [intros [-> ->]; reflexivity | intro H; inversion H; auto].
Qed.

Lemma mem_In : forall a l, mem a l = true <-> In a l.
Proof.
  intros a l. unfold mem. rewrite existsb_exists. split.
  - intros (x & Hx & E). apply N.eqb_eq in E. subst. exact Hx.
  - intro H. exists a. split; [exact H | apply N.eqb_refl].
Qed.

Lemma mem_false : forall a l, mem a l = false <-> ~ In a l.
Proof.
  intros a l. rewrite <- mem_In.
  destruct (mem a l); split; intro H; try reflexivity; try discriminate; try (intro; discriminate).
  exfalso; apply H; reflexivity.
Qed.

Lemma oeqb_eq : forall x y, oeqb x y = true <-> x = y.
Proof.
  intros [a|] [b|]; cbn; split; intro H; try discriminate; try reflexivity.
  - apply N.eqb_eq in H. subst. reflexivity.
  - inversion H. apply N.eqb_refl.
Qed.

Lemma oeqb_refl : forall x, oeqb x x = true.
Proof. intro x. apply oeqb_eq. reflexivity. Qed.

Lemma sig_eqb_eq : forall x y, sig_eqb x y = true <-> x = y.
Proof.
  induction x as [|a x IH]; intros [|b y]; cbn; split; intro H; try discriminate; try reflexivity.
  - apply andb_true_iff in H as [H1 H2]. apply oeqb_eq in H1. apply IH in H2. subst. reflexivity.
  - inversion H; subst. apply andb_true_iff. split; [apply oeqb_refl | apply IH; reflexivity].
Qed.

Lemma sig_eqb_refl : forall x, sig_eqb x x = true.
Proof. intro x. apply sig_eqb_eq. reflexivity. Qed.

Lemma dedup_In : forall l x, In x (dedup l) <-> In x l.
Proof.
  induction l as [|y l IH]; intro x; cbn; [tauto|].
  destruct (mem y l) eqn:E.
  - rewrite IH. split; [auto|]. intros [->|H]; [apply mem_In; exact E | exact H].
  - cbn. rewrite IH. tauto.
Qed.

(* ---- kget ------------------------------------------------------------------ *)
Lemma kget_In : forall k p v, kget k p = Some v -> In (p, v) k.
Proof.
  induction k as [|[q w] k IH]; intros p v H; cbn in H; [discriminate|].
  destruct (pair_eqb q p) eqn:E.
  - apply pair_eqb_eq in E. inversion H; subst. left. reflexivity.
  - right. apply IH. exact H.
Qed.

Lemma kget_None : forall k p, kget k p = None -> forall v, ~ In (p, v) k.
Proof.
  induction k as [|[q w] k IH]; intros p H v; cbn in *; [tauto|].
  destruct (pair_eqb q p) eqn:E; [discriminate|].
  intros [H1|H1].
  - inversion H1; subst. assert (pair_eqb p p = true) by (apply pair_eqb_eq; reflexivity). congruence.
  - exact (IH p H v H1).
Qed.

Lemma kget_some_of_In : forall k p v, In (p, v) k -> exists v', kget k p = Some v'.
Proof.
  intros k p v H. destruct (kget k p) eqn:E; [eauto|]. exfalso. exact (kget_None k p E v H).
Qed.

(* ---- group_of -------------------------------------------------------------- *)
Lemma group_of_In : forall gs a g, group_of gs a = Some g -> exists ms, In (g, ms) gs /\ In a ms.
Proof.
  induction gs as [|[g0 ms0] gs IH]; intros a g H; cbn in H; [discriminate|].
  destruct (group_of gs a) eqn:E.
  - inversion H; subst. destruct (IH a g E) as (ms & H1 & H2). exists ms. split; [right; exact H1 | exact H2].
  - destruct (mem a ms0) eqn:M; [|discriminate]. inversion H; subst.
    exists ms0. split; [left; reflexivity | apply mem_In; exact M].
Qed.

Lemma group_of_None : forall gs a, group_of gs a = None -> forall g ms, In (g, ms) gs -> ~ In a ms.
Proof.
  induction gs as [|[g0 ms0] gs IH]; intros a H g ms Hin; cbn in *; [tauto|].
  destruct (group_of gs a) eqn:E; [discriminate|].
  destruct (mem a ms0) eqn:M; [discriminate|].
  destruct Hin as [Hin|Hin].
  - inversion Hin; subst. apply mem_false. exact M.
  - exact (IH a E g ms Hin).
Qed.

(* the resolved group lists the glyph (group_of_In), and under validity no
   OTHER entry of the list does *)
Lemma group_of_unique : forall gs a g,
  groups_valid gs = true -> group_of gs a = Some g ->
  forall i j gi mi gj mj, nth_error gs i = Some (gi, mi) -> nth_error gs j = Some (gj, mj) ->
    In a mi -> In a mj -> i = j.
Proof.
  induction gs as [|[g0 ms0] gs IH]; intros a g V H i j gi mi gj mj Hi Hj Ai Aj.
  - destruct i; discriminate.
  - cbn in V. apply andb_true_iff in V as [V1 V2].
    assert (Hno : In a ms0 -> forall k gk mk, nth_error gs k = Some (gk, mk) -> ~ In a mk).
    { intros A0 k gk mk Hk Ak. rewrite forallb_forall in V1. specialize (V1 a A0).
      apply negb_true_iff in V1.
      assert (existsb (fun gm => mem a (snd gm)) gs = true).
      { apply existsb_exists. exists (gk, mk). split; [eapply nth_error_In; exact Hk | apply mem_In; exact Ak]. }
      congruence. }
    destruct i as [|i], j as [|j]; cbn in Hi, Hj.
    + reflexivity.
    + inversion Hi; subst. exfalso. exact (Hno Ai j gj mj Hj Aj).
    + inversion Hj; subst. exfalso. exact (Hno Aj i gi mi Hi Ai).
    + f_equal. cbn in H. destruct (group_of gs a) as [g1|] eqn:E.
      * exact (IH a g1 V2 E i j gi mi gj mj Hi Hj Ai Aj).
      * exfalso. apply nth_error_In in Hi. exact (group_of_None gs a E gi mi Hi Ai).
Qed.

(* ---- misc list facts --------------------------------------------------------- *)
Lemma nth_map_some : forall {A} (f : A -> Q) (l : list A) i x,
  nth_error l i = Some x -> nth i (map f l) 0 = f x.
Proof.
  intros A f. induction l as [|y l IH]; intros [|i] x H; cbn in *; try discriminate.
  - inversion H; reflexivity.
  - apply IH. exact H.
Qed.

Lemma map_eq_In : forall {A B} (f g : A -> B) (l : list A),
  map f l = map g l -> forall x, In x l -> f x = g x.
Proof.
  intros A B f g. induction l as [|y l IH]; intros H x Hin; cbn in *; [tauto|].
  inversion H. destruct Hin as [->|Hin]; [assumption | apply IH; assumption].
Qed.

Lemma nth_zeros : forall n i, nth i (zeros n) 0 = 0.
Proof.
  unfold zeros. induction n as [|n IH]; intros [|i]; cbn; try reflexivity. apply IH.
Qed.
