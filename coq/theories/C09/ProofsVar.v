(* C09 — kerning through the variation model (C07): the value interpolated at a
   kerning master's location is within 1/2 of that master's rounded kerning
   value, and exact at the default master. *)
From Coq Require Import List NArith ZArith QArith Qabs Qround Bool Lia.
From FV.C07 Require Model Main Props.
From FV.C09 Require Import Model ProofsBasics ProofsLookup ProofsBuild.
Import ListNotations.

Module V := FV.C07.Model.
Module VM := FV.C07.Main.
Module VP := FV.C07.Props.

(* resolve_variable_metric: one OtRound-ed value per location of the model *)
Definition master_vals (vals : list Q) : list (option Q) :=
  map (fun v => Some (inject_Z (ot_round v))) vals.

Lemma ot_round_comp : forall x y, x == y -> ot_round x = ot_round y.
Proof. intros x y H. unfold ot_round. apply Qfloor_comp. rewrite H. reflexivity. Qed.

Lemma nth_error_master_vals : forall vals k, (k < length vals)%nat ->
  nth_error (master_vals vals) k = Some (Some (inject_Z (ot_round (nth k vals 0)))).
Proof.
  intros vals k H. unfold master_vals.
  exact (map_nth_error (fun v => Some (inject_Z (ot_round v))) k vals (nth_error_nth' vals 0 H)).
Qed.

Lemma variation_at_master : forall n locs, VM.wf_input n locs ->
  let m := V.model_new locs in
  forall vals, length vals = length (V.m_locs m) ->
  forall k lk, nth_error (V.m_locs m) k = Some lk ->
    Qabs (V.interpolate (V.m_infl m) (V.deltas m true (master_vals vals)) lk
          - inject_Z (ot_round (nth k vals 0))) <= 1 # 2.
Proof.
  intros n locs W m vals L k lk Hk. subst m.
  refine (VP.deltas_reproduce_rounded n locs W (master_vals vals) _ k lk _ Hk _).
  - unfold master_vals. rewrite map_length. exact L.
  - apply nth_error_master_vals. rewrite L. apply nth_error_Some. rewrite Hk. discriminate.
Qed.

Lemma variation_at_default : forall n locs o, VM.wf_input n locs -> In o locs -> VM.is_origin o ->
  let m := V.model_new locs in
  forall vals, length vals = length (V.m_locs m) ->
    V.interpolate (V.m_infl m) (V.deltas m true (master_vals vals)) o == inject_Z (ot_round (nth 0 vals 0)).
Proof.
  intros n locs o W Hin Ho m vals L. subst m.
  destruct (VP.default_exact n locs o W Hin Ho) as [H0 H].
  assert (Lt : (0 < length vals)%nat).
  { rewrite L. apply nth_error_Some. rewrite H0. discriminate. }
  rewrite (H true (master_vals vals) (inject_Z (ot_round (nth 0 vals 0)))).
  - rewrite VP.default_exact_integer. reflexivity.
  - unfold master_vals. rewrite map_length. exact L.
  - apply nth_error_master_vals. exact Lt.
Qed.

Lemma font_values_len : forall srcs a b, length (font_values (length srcs) (build srcs) a b) = length srcs.
Proof.
  intros srcs a b. unfold font_values. destruct (best_hits (build srcs) a b) as [|r l] eqn:B.
  - unfold zeros. apply repeat_length.
  - apply build_rule_len. assert (Hr : In r (best_hits (build srcs) a b)) by (rewrite B; left; reflexivity).
    unfold best_hits in Hr.
    destruct (hits 0 (build srcs) a b) eqn:H0; [|rewrite <- H0 in Hr; apply hits_In in Hr; tauto].
    destruct (hits 1 (build srcs) a b) eqn:H1; [|rewrite <- H1 in Hr; apply hits_In in Hr; tauto].
    destruct (hits 2 (build srcs) a b) eqn:H2; [|rewrite <- H2 in Hr; apply hits_In in Hr; tauto].
    apply hits_In in Hr. tauto.
Qed.
