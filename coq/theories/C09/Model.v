(* C09 — model of the kerning pipeline of fontbe/src/features/kern.rs:
     KernSource::new, lookup_kerning_value, is_divergent, kerned_maps,
     refine_divergent_groups, SideState::units_for, resolve_units,
     build_variable_kern_adjustments (GatherIrKerningWork),
   of KernPair::add_to (fontbe/src/orchestration.rs) feeding write-fonts'
   PairPosBuilder (glyph pairs: first insert wins; class pairs: greedy subtable
   split), and of the OpenType reading of the resulting PairPos subtables.
   Executable definitions only; proofs are in Proofs*.v.

   Glyphs and group names are interned to N by the harness.  A kerning value is
   a rational (f64 in the code, DESIGN.md 4.1).  A `source` is one
   fontir::ir::KerningInstance: its kerns (BTreeMap -> association list, first
   match) and its own groups per side, in BTreeMap (name) order.

   Output class names are synthesised by the code and "never reach the compiled
   font"; the model identifies an output class with its member list. *)
From Coq Require Import List NArith ZArith QArith Qabs Qround Bool.
Import ListNotations.

Definition glyph := N.
Definition gname := N.

(* ir::KernSide; which side of the pair it sits on is positional *)
Inductive side := SG (g : glyph) | SC (c : gname).
Definition pair := (side * side)%type.
Definition groups := list (gname * list glyph).
Record source := mkSource { kerns : list (pair * Q); groups1 : groups; groups2 : groups }.

Inductive which := First | Second.
Definition groups_of (w : which) (s : source) : groups :=
  match w with First => groups1 s | Second => groups2 s end.
Definition pick (w : which) (p : pair) : side := match w with First => fst p | Second => snd p end.

Definition side_eqb (x y : side) : bool :=
  match x, y with
  | SG a, SG b => N.eqb a b
  | SC a, SC b => N.eqb a b
  | _, _ => false
  end.
Definition pair_eqb (p q : pair) : bool := side_eqb (fst p) (fst q) && side_eqb (snd p) (snd q).
Definition mem (a : N) (l : list N) : bool := existsb (N.eqb a) l.
Definition oeqb (x y : option N) : bool :=
  match x, y with
  | None, None => true
  | Some a, Some b => N.eqb a b
  | _, _ => false
  end.

(* BTreeMap::get *)
Fixpoint kget (k : list (pair * Q)) (p : pair) : option Q :=
  match k with
  | [] => None
  | (q, v) :: t => if pair_eqb q p then Some v else kget t p
  end.

(* KernSource::new: for (group, members) in groups { for m in members { map.insert(m, group) } }
   — a glyph listed in two same-side groups (invalid UFO 3) ends in the LAST one *)
Fixpoint group_of (gs : groups) (a : glyph) : option gname :=
  match gs with
  | [] => None
  | (g, ms) :: t =>
      match group_of t a with
      | Some g' => Some g'
      | None => if mem a ms then Some g else None
      end
  end.
Definition grp (w : which) (s : source) (a : glyph) : option gname := group_of (groups_of w s) a.

(* ---- lookup_kerning_value ------------------------------------------------- *)
Definition get_group_if_glyph (gs : groups) (x : side) : option side :=
  match x with
  | SG a => match group_of gs a with Some g => Some (SC g) | None => None end
  | SC _ => Some x
  end.
Definition only_glyph (x : side) : option side := match x with SG _ => Some x | SC _ => None end.
Definition kget2 (k : list (pair * Q)) (x y : option side) : option Q :=
  match x, y with Some x', Some y' => kget k (x', y') | _, _ => None end.

Definition lookup_kerning_value (s : source) (p : pair) : Q :=
  match kget (kerns s) p with
  | Some v => v
  | None =>
      let first_group := get_group_if_glyph (groups1 s) (fst p) in
      let second_group := get_group_if_glyph (groups2 s) (snd p) in
      let first := only_glyph (fst p) in
      let second := only_glyph (snd p) in
      match kget2 (kerns s) first second_group with
      | Some v => v
      | None =>
          match kget2 (kerns s) first_group second with
          | Some v => v
          | None =>
              match kget2 (kerns s) first_group second_group with
              | Some v => v
              | None => 0
              end
          end
      end
  end.

(* ---- the source side of the property: the UFO kerning value lookup ------- *)
(* glyph-glyph, then glyph-group, then group-glyph, then group-group, else 0,
   on this master's own kerning and groups *)
Definition ufo_value (s : source) (a b : glyph) : Q :=
  match kget (kerns s) (SG a, SG b) with
  | Some v => v
  | None =>
      match match grp Second s b with Some h => kget (kerns s) (SG a, SC h) | None => None end with
      | Some v => v
      | None =>
          match match grp First s a with Some g => kget (kerns s) (SC g, SG b) | None => None end with
          | Some v => v
          | None =>
              match match grp First s a, grp Second s b with
                    | Some g, Some h => kget (kerns s) (SC g, SC h)
                    | _, _ => None
                    end with
              | Some v => v
              | None => 0
              end
          end
      end
  end.

(* each glyph in at most one group per side (UFO 3 requirement) *)
Fixpoint groups_valid (gs : groups) : bool :=
  match gs with
  | [] => true
  | (_, ms) :: t => forallb (fun a => negb (existsb (fun gm => mem a (snd gm)) t)) ms && groups_valid t
  end.
Definition source_valid (s : source) : bool := groups_valid (groups1 s) && groups_valid (groups2 s).

(* ---- reconciliation of groups that differ between sources ---------------- *)
Fixpoint dedup (l : list N) : list N :=
  match l with
  | [] => []
  | x :: t => if mem x t then dedup t else x :: dedup t
  end.

(* every glyph any source groups on this side *)
Definition universe (w : which) (srcs : list source) : list glyph :=
  dedup (flat_map (fun s => flat_map snd (groups_of w s)) srcs).

(* SideState::all_members[g]: inverted from the per-source glyph -> group maps *)
Definition union_members (w : which) (srcs : list source) (g : gname) : list glyph :=
  filter (fun a => existsb (fun s => oeqb (grp w s a) (Some g)) srcs) (universe w srcs).

(* is_divergent *)
Definition divergent (w : which) (srcs : list source) (a : glyph) : bool :=
  match srcs with
  | [] => false
  | s0 :: t => existsb (fun s => negb (oeqb (grp w s a) (grp w s0 a))) t
  end.

(* KernSource::kerned_names *)
Definition kerned_names (w : which) (s : source) : list gname :=
  flat_map (fun kv => match pick w (fst kv) with SC g => [g] | SG _ => [] end) (kerns s).

(* kerned_maps[s].get(a) *)
Definition kerned_group (w : which) (s : source) (a : glyph) : option gname :=
  match grp w s a with
  | Some g => if mem g (kerned_names w s) then Some g else None
  | None => None
  end.

Definition signature (w : which) (srcs : list source) (a : glyph) : list (option gname) :=
  map (fun s => kerned_group w s a) srcs.
Fixpoint sig_eqb (x y : list (option gname)) : bool :=
  match x, y with
  | [], [] => true
  | a :: x', b :: y' => oeqb a b && sig_eqb x' y'
  | _, _ => false
  end.

(* a group is refined when one of its (union) members diverges *)
Definition is_refined (w : which) (srcs : list source) (g : gname) : bool :=
  existsb (divergent w srcs) (union_members w srcs g).

(* the refined class of g that holds a: the members with a's signature *)
Definition class_of (w : which) (srcs : list source) (g : gname) (a : glyph) : list glyph :=
  filter (fun m => sig_eqb (signature w srcs m) (signature w srcs a)) (union_members w srcs g).

(* one representative per refined class (first member with each signature) *)
Fixpoint reps (w : which) (srcs : list source) (ms : list glyph) : list glyph :=
  match ms with
  | [] => []
  | a :: t =>
      a :: filter (fun m => negb (sig_eqb (signature w srcs m) (signature w srcs a))) (reps w srcs t)
  end.

(* Names: Uniform = one name looked up in every source; PerSource = the refined
   class's kerned group in each source (signature[idx]); the signature is that
   of any member, so the model carries a representative member. *)
Inductive names := Uniform (x : side) | PerSource (w : which) (rep : glyph).
(* what a pair is emitted as: a glyph, or an output class (its members) *)
Inductive eside := EG (a : glyph) | EC (ms : list glyph).
Record unit_ := mkUnit { u_names : names; u_emit : eside }.

(* Names::at(idx) *)
Definition name_at (n : names) (s : source) : option side :=
  match n with
  | Uniform x => Some x
  | PerSource w a => match kerned_group w s a with Some g => Some (SC g) | None => None end
  end.

(* SideState::units_for *)
Definition units_for (w : which) (srcs : list source) (x : side) : list unit_ :=
  match x with
  | SG a => [mkUnit (Uniform x) (EG a)]
  | SC g =>
      let ms := union_members w srcs g in
      if is_refined w srcs g then
        map (fun a => mkUnit (PerSource w a) (EC (class_of w srcs g a))) (reps w srcs ms)
      else
        match ms with
        | [] => []                          (* a group unknown to every source *)
        | _ => [mkUnit (Uniform x) (EC ms)]
        end
  end.

(* resolve_units (resolve_pair is the Uniform/Uniform instance) *)
Definition resolve_units (srcs : list source) (u1 u2 : unit_) : list Q :=
  map (fun s =>
         match name_at (u_names u1) s, name_at (u_names u2) s with
         | Some x, Some y => lookup_kerning_value s (x, y)
         | _, _ => 0                         (* varLib.merger's implicit class 0 *)
         end) srcs.

Definition rule := ((eside * eside) * list Q)%type.
Definition is_class (x : side) : bool := match x with SC _ => true | SG _ => false end.
Definition all_zero (vs : list Q) : bool := forallb (fun v => Qeq_bool v 0) vs.

Definition emit_key (srcs : list source) (key : pair) : list rule :=
  match key with
  | (SG a, SC h) =>
      (* glyph-to-class: a per-glyph override, one glyph-glyph pair per member *)
      map (fun m => ((EG a, EG m), map (fun s => lookup_kerning_value s (SG a, SG m)) srcs))
          (union_members Second srcs h)
  | (x, y) =>
      let cc := is_class x && is_class y in
      flat_map (fun u1 =>
        flat_map (fun u2 =>
          let vals := resolve_units srcs u1 u2 in
          if cc && all_zero vals then [] else [((u_emit u1, u_emit u2), vals)])
          (units_for Second srcs y))
        (units_for First srcs x)
  end.

(* all pairs defined in at least one master *)
Definition all_keys (srcs : list source) : list pair := flat_map (fun s => map fst (kerns s)) srcs.

(* build_variable_kern_adjustments: the adjustments (insert_resolved overwrites on
   equal keys; the model keeps every insert, Props.collisions_benign shows equal keys carry
   equal values) *)
Definition build (srcs : list source) : list rule := flat_map (emit_key srcs) (all_keys srcs).

(* the refined_groups it returns, as member lists per side *)
Definition group_names (w : which) (srcs : list source) : list gname :=
  dedup (flat_map (fun s => map fst (groups_of w s)) srcs).
Definition out_classes (w : which) (srcs : list source) : list (list glyph) :=
  flat_map (fun g => map (fun u => match u_emit u with EC ms => ms | EG a => [a] end)
                         (units_for w srcs (SC g)))
           (group_names w srcs).

(* ---- what the emitted pair list means (ufo2ft / feature-writer semantics) - *)
Definition ematch (e : eside) (a : glyph) : bool :=
  match e with EG g => N.eqb g a | EC ms => mem a ms end.
Definition kind (r : rule) : N :=
  match fst (fst r), snd (fst r) with
  | EG _, EG _ => 0
  | EG _, EC _ => 1
  | EC _, EG _ => 2
  | EC _, EC _ => 3
  end%N.
Definition hits (k : N) (out : list rule) (a b : glyph) : list rule :=
  filter (fun r => N.eqb (kind r) k && ematch (fst (fst r)) a && ematch (snd (fst r)) b) out.

(* most specific kind first: glyph-glyph, glyph-class, class-glyph, class-class *)
Definition best_hits (out : list rule) (a b : glyph) : list rule :=
  match hits 0 out a b with
  | (_ :: _) as l => l
  | [] =>
      match hits 1 out a b with
      | (_ :: _) as l => l
      | [] =>
          match hits 2 out a b with
          | (_ :: _) as l => l
          | [] => hits 3 out a b
          end
      end
  end.

Definition zeros (n : nat) : list Q := repeat 0 n.
Definition font_values (n : nat) (out : list rule) (a b : glyph) : list Q :=
  match best_hits out a b with
  | r :: _ => snd r
  | [] => zeros n
  end.
Definition value_at (vs : list Q) (i : nat) : Q := nth i vs 0.

(* ---- PairPosBuilder and the OpenType reading of its subtables ------------- *)
(* KerningGatherWork sorts the pairs (KernSide: Glyph < Group), then KernPair::add_to
   feeds them to the builder: glyph/glyph, glyph/class and class/glyph rules are
   enumerated into glyph pairs, the first insert of a glyph pair wins; for a given
   glyph pair the sort puts its glyph/glyph rule before its glyph/class rules and
   those before its class/glyph rules.  So the format 1 value is the first hit
   in kind order. *)
Definition fmt1_hit (out : list rule) (a b : glyph) : option (list Q) :=
  match hits 0 out a b ++ hits 1 out a b ++ hits 2 out a b with
  | r :: _ => Some (snd r)
  | [] => None
  end.

Fixpoint subset (x y : list N) : bool :=
  match x with [] => true | a :: t => mem a y && subset t y end.
Definition set_eqb (x y : list N) : bool := subset x y && subset y x.

(* ClassPairPosSubtable: the two ClassDefBuilders and the items *)
Record subtable := mkSub {
  st_c1 : list (list glyph);
  st_c2 : list (list glyph);
  st_items : list ((list glyph * list glyph) * list Q)   (* newest first *)
}.
(* ClassDefBuilder::can_add *)
Definition can_add (classes : list (list glyph)) (cls : list glyph) : bool :=
  existsb (set_eqb cls) classes || forallb (fun g => negb (existsb (mem g) classes)) cls.
Definition sub_add (st : subtable) (c1 c2 : list glyph) (v : list Q) : subtable :=
  mkSub (c1 :: st_c1 st) (c2 :: st_c2 st) (((c1, c2), v) :: st_items st).
Definition sub_empty : subtable := mkSub [] [] [].

(* ClassPairPosBuilder::insert — only the LAST subtable is tried; `subs` is newest first *)
Definition cpp_insert (subs : list subtable) (c1 c2 : list glyph) (v : list Q) : list subtable :=
  match subs with
  | last :: rest =>
      if can_add (st_c1 last) c1 && can_add (st_c2 last) c2
      then sub_add last c1 c2 v :: rest
      else sub_add sub_empty c1 c2 v :: subs
  | [] => [sub_add sub_empty c1 c2 v]
  end.

Definition class_rules (out : list rule) : list ((list glyph * list glyph) * list Q) :=
  flat_map (fun r => match fst (fst r), snd (fst r) with
                     | EC c1, EC c2 => [((c1, c2), snd r)]
                     | _, _ => []
                     end) out.

(* subtables in the order they are written (oldest first) *)
Definition fmt2_subtables (out : list rule) : list subtable :=
  rev (fold_left (fun subs r => cpp_insert subs (fst (fst r)) (snd (fst r)) (snd r)) (class_rules out) []).

Definition st_covers (st : subtable) (a : glyph) : bool := existsb (fun it => mem a (fst (fst it))) (st_items st).
Definition st_class2_nonzero (st : subtable) (b : glyph) : bool := existsb (mem b) (st_c2 st).
(* items is a map keyed by the class sets: the newest insert for a key wins *)
Definition st_value (n : nat) (st : subtable) (a b : glyph) : list Q :=
  match filter (fun it => mem a (fst (fst it)) && mem b (snd (fst it))) (st_items st) with
  | it :: _ => snd it
  | [] => zeros n
  end.

(* OpenType: the first subtable whose Coverage holds the first glyph positions
   the pair (a class pair without a record is a zero record) and ends the lookup.
   `lenient` = HarfBuzz's reading: a format 2 subtable in which the second glyph
   has class 0 is skipped. *)
Fixpoint fmt2_value (lenient : bool) (n : nat) (subs : list subtable) (a b : glyph) : list Q :=
  match subs with
  | [] => zeros n
  | st :: rest =>
      if st_covers st a && (negb lenient || st_class2_nonzero st b)
      then st_value n st a b
      else fmt2_value lenient n rest a b
  end.

(* `subs` = fmt2_subtables out, passed in so that a caller can compute it once *)
Definition pairpos_values_with (lenient : bool) (n : nat) (out : list rule) (subs : list subtable)
    (a b : glyph) : list Q :=
  match fmt1_hit out a b with
  | Some v => v
  | None => fmt2_value lenient n subs a b
  end.
Definition pairpos_values (lenient : bool) (n : nat) (out : list rule) (a b : glyph) : list Q :=
  pairpos_values_with lenient n out (fmt2_subtables out) a b.

(* ---- the order in which KerningGatherWork hands the class pairs over ------ *)
(* IntSet<GlyphId16> orders by its ascending elements, a proper prefix first *)
Fixpoint ninsert (x : N) (l : list N) : list N :=
  match l with
  | [] => [x]
  | y :: t => if N.leb x y then x :: l else y :: ninsert x t
  end.
Definition nsort (l : list N) : list N := fold_right ninsert [] l.
Fixpoint lex_cmp (x y : list N) : comparison :=
  match x, y with
  | [], [] => Eq
  | [], _ :: _ => Lt
  | _ :: _, [] => Gt
  | a :: x', b :: y' => match N.compare a b with Eq => lex_cmp x' y' | c => c end
  end.
Definition eside_cmp (x y : eside) : comparison :=
  match x, y with
  | EG a, EG b => N.compare a b
  | EG _, EC _ => Lt
  | EC _, EG _ => Gt
  | EC a, EC b => lex_cmp a b
  end.
Definition rule_leb (r r' : rule) : bool :=
  match eside_cmp (fst (fst r)) (fst (fst r')) with
  | Lt => true
  | Gt => false
  | Eq => match eside_cmp (snd (fst r)) (snd (fst r')) with Gt => false | _ => true end
  end.
Fixpoint rinsert (r : rule) (l : list rule) : list rule :=
  match l with
  | [] => [r]
  | y :: t => if rule_leb r y then r :: l else y :: rinsert r t
  end.
Definition canon_side (e : eside) : eside := match e with EG a => EG a | EC ms => EC (nsort (dedup ms)) end.
Definition canon_rule (r : rule) : rule := ((canon_side (fst (fst r)), canon_side (snd (fst r))), snd r).
Definition sort_rules (out : list rule) : list rule := fold_right rinsert [] (map canon_rule out).

(* the font-level value the model predicts for glyphs a b at every source *)
Definition model_pairpos (lenient : bool) (srcs : list source) (a b : glyph) : list Q :=
  pairpos_values lenient (length srcs) (sort_rules (build srcs)) a b.

(* ---- rounding (OtRound: floor (x + 1/2)) ----------------------------------- *)
Definition ot_round (q : Q) : Z := Qfloor (q + (1 # 2)).

(* ---- comparison helpers for the correspondence run ----------------------- *)
Definition eside_eqb (x y : eside) : bool :=
  match x, y with
  | EG a, EG b => N.eqb a b
  | EC a, EC b => set_eqb a b
  | _, _ => false
  end.
Fixpoint qlist_eqb (x y : list Q) : bool :=
  match x, y with
  | [], [] => true
  | a :: x', b :: y' => Qeq_bool a b && qlist_eqb x' y'
  | _, _ => false
  end.
Definition rule_eqb (r r' : rule) : bool :=
  eside_eqb (fst (fst r)) (fst (fst r')) && eside_eqb (snd (fst r)) (snd (fst r')) && qlist_eqb (snd r) (snd r').
Definition rules_equiv (x y : list rule) : bool :=
  forallb (fun r => existsb (rule_eqb r) y) x && forallb (fun r => existsb (rule_eqb r) x) y.
Definition classes_equiv (x y : list (list glyph)) : bool :=
  forallb (fun c => existsb (set_eqb c) y) x && forallb (fun c => existsb (set_eqb c) x) y.

(* end-to-end observations: for glyphs (a, b) the x-advance adjustment the real
   font's kern feature applies at each kerning master, against the model's
   prediction (reconciled pairs -> PairPos model), rounded per master; eps is
   the tolerance per master (0 at the default master, 1/2 elsewhere: C07) *)
Definition qclose (eps a b : Q) : bool := Qle_bool (Qabs (a - b)) eps.
Fixpoint close_list (eps row want : list Q) : bool :=
  match eps, row, want with
  | [], [], [] => true
  | e :: eps', r :: row', w :: want' => qclose e r w && close_list eps' row' want'
  | _, _, _ => false
  end.
Definition obs_all_ok (srcs : list source) (eps : list Q) (obs : list ((glyph * glyph) * list Q)) : bool :=
  let out := sort_rules (build srcs) in
  let subs := fmt2_subtables out in
  let n := length srcs in
  forallb (fun o =>
             close_list eps (snd o)
               (map (fun v => inject_Z (ot_round v))
                    (pairpos_values_with false n out subs (fst (fst o)) (snd (fst o)))))
          obs.
