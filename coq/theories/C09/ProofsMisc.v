(* C09 — remaining lemmas: valid groups, colliding inserts, decidable side
   conditions, the classes of one group. *)
From Coq Require Import List NArith ZArith QArith Qabs Qround Bool Lia.
From FV.C09 Require Import Model ProofsBasics ProofsLookup ProofsBuild ProofsPairPos.
Import ListNotations.

(* with valid groups, the group a glyph resolves to is the group that lists it *)
Lemma group_of_complete : forall gs a g ms,
  groups_valid gs = true -> In (g, ms) gs -> In a ms -> group_of gs a = Some g.
Proof.
  induction gs as [|[g0 ms0] gs IH]; intros a g ms V Hin Ha; [contradiction|].
  cbn in V. apply andb_true_iff in V as [V1 V2]. cbn [group_of].
  destruct Hin as [E|Hin].
  - inversion E; subst.
    destruct (group_of gs a) as [g'|] eqn:G.
    + exfalso. destruct (group_of_In gs a g' G) as (ms' & H1 & H2).
      rewrite forallb_forall in V1. specialize (V1 a Ha). apply negb_true_iff in V1.
      assert (existsb (fun gm => mem a (snd gm)) gs = true).
      { apply existsb_exists. exists (g', ms'). split; [exact H1 | apply mem_In; exact H2]. }
      congruence.
    + assert (M : mem a ms = true) by (apply mem_In; exact Ha). rewrite M. reflexivity.
  - rewrite (IH a g ms V2 Hin Ha). reflexivity.
Qed.

(* ---- every emitted side holds a glyph; equal keys carry equal values ----------- *)
Lemma unit_inhabited : forall w srcs g u, In u (units_for w srcs (SC g)) -> exists a, ematch (u_emit u) a = true.
Proof.
  intros w srcs g u H. unfold units_for in H. destruct (is_refined w srcs g).
  - apply in_map_iff in H as (r & <- & Hr). exists r. cbn. apply mem_In. apply class_of_In.
    split; [eapply reps_sub; exact Hr | reflexivity].
  - destruct (union_members w srcs g) as [|x l]; [contradiction|]. destruct H as [<-|[]].
    exists x. cbn. rewrite N.eqb_refl. reflexivity.
Qed.

Lemma rule_inhabited : forall srcs r, In r (build srcs) -> exists a b, matches r a b.
Proof.
  intros srcs r H.
  destruct (build_origin srcs r H) as [a h m _ ->|a b ->|g b u1 H1 ->|g h u1 u2 H1 H2 ->].
  - exists a, m. split; cbn; apply N.eqb_refl.
  - exists a, b. split; cbn; apply N.eqb_refl.
  - destruct (unit_inhabited _ _ _ _ H1) as (a & Ha). exists a, b. split; [exact Ha | cbn; apply N.eqb_refl].
  - destruct (unit_inhabited _ _ _ _ H1) as (a & Ha). destruct (unit_inhabited _ _ _ _ H2) as (b & Hb).
    exists a, b. split; assumption.
Qed.

Lemma collisions_equal : forall srcs r r',
  In r (build srcs) -> In r' (build srcs) -> fst r = fst r' -> snd r = snd r'.
Proof.
  intros srcs r r' H H' E.
  destruct (rule_inhabited srcs r H) as (a & b & M).
  assert (M' : matches r' a b) by (unfold matches in *; rewrite <- E; exact M).
  assert (K : kind r = kind r') by (unfold kind; rewrite E; reflexivity).
  pose proof (build_rule_len srcs r H) as L.
  pose proof (build_rule_len srcs r' H') as L'.
  apply (nth_ext _ _ 0 0); [congruence|].
  intros i Hi. rewrite L in Hi. destruct (nth_error srcs i) as [s|] eqn:Es.
  - exact (collisions_agree srcs (build srcs) (build_sound srcs) r r' a b H H' K M M' i s Es).
  - apply nth_error_None in Es. lia.
Qed.

(* ---- decidable side conditions ---------------------------------------------------- *)
(* all masters group every glyph identically *)
Definition groups_agree_b (srcs : list source) : bool :=
  forallb (fun a => negb (divergent First srcs a)) (universe First srcs) &&
  forallb (fun a => negb (divergent Second srcs a)) (universe Second srcs).

Lemma outside_universe : forall w srcs a, ~ In a (universe w srcs) -> forall s, In s srcs -> grp w s a = None.
Proof.
  intros w srcs a H s Hs. destruct (grp w s a) as [g|] eqn:E; [|reflexivity].
  exfalso. apply H. eapply universe_In; eauto.
Qed.

Lemma groups_agree_b_sound : forall srcs, groups_agree_b srcs = true -> groups_agree srcs.
Proof.
  intros srcs H w a. unfold groups_agree_b in H. apply andb_true_iff in H as [H1 H2].
  assert (Hw : forallb (fun a => negb (divergent w srcs a)) (universe w srcs) = true) by (destruct w; assumption).
  destruct (in_dec N.eq_dec a (universe w srcs)) as [Hin|Hout].
  - rewrite forallb_forall in Hw. specialize (Hw a Hin). apply negb_true_iff in Hw. exact Hw.
  - destruct srcs as [|s0 t]; [reflexivity|]. unfold divergent.
    apply existsb_all_false. intros s Hs. apply negb_false_iff. apply oeqb_eq.
    rewrite (outside_universe w (s0 :: t) a Hout s (or_intror Hs)).
    rewrite (outside_universe w (s0 :: t) a Hout s0 (or_introl eq_refl)). reflexivity.
Qed.

(* the class-class rules' classes are pairwise the same set or disjoint, per side *)
Definition side_ok_b (e e' : eside) : bool :=
  match e, e' with
  | EC c, EC c' => set_eqb c c' || forallb (fun g => negb (mem g c')) c
  | _, _ => false
  end.
Definition classes_partition_b (out : list rule) : bool :=
  let cc := filter (fun r => N.eqb (kind r) 3) out in
  forallb (fun r => forallb (fun r' =>
    side_ok_b (fst (fst r)) (fst (fst r')) && side_ok_b (snd (fst r)) (snd (fst r'))) cc) cc.

Lemma side_ok_b_sound : forall e e', side_ok_b e e' = true -> side_ok e e'.
Proof.
  intros [a|c] [a'|c'] H; cbn in H; try discriminate.
  apply orb_true_iff in H as [H|H].
  - left. intro g. cbn. apply mem_ext. apply set_eqb_spec. exact H.
  - right. intros g Hg. cbn in *. rewrite forallb_forall in H.
    apply negb_true_iff. apply H. apply mem_In. exact Hg.
Qed.

Lemma classes_partition_b_sound : forall out, classes_partition_b out = true -> classes_partition out.
Proof.
  intros out H r r' Hr Hr' K K'. unfold classes_partition_b in H. cbn zeta in H.
  rewrite forallb_forall in H.
  assert (F : forall x, In x out -> kind x = 3%N -> In x (filter (fun r => N.eqb (kind r) 3) out)).
  { intros x Hx Kx. apply filter_In. split; [exact Hx | rewrite Kx; reflexivity]. }
  specialize (H r (F r Hr K)). rewrite forallb_forall in H. specialize (H r' (F r' Hr' K')).
  apply andb_true_iff in H as [H1 H2]. split; apply side_ok_b_sound; assumption.
Qed.

(* ---- the refined classes of ONE group partition its members ----------------------- *)
Lemma classes_of_group_partition : forall w srcs g r r' m,
  In m (class_of w srcs g r) -> In m (class_of w srcs g r') -> class_of w srcs g r = class_of w srcs g r'.
Proof.
  intros w srcs g r r' m H H'. apply class_of_In in H as [_ S]. apply class_of_In in H' as [_ S'].
  unfold class_of. rewrite <- S, <- S'. reflexivity.
Qed.

Lemma classes_of_group_cover : forall w srcs g a, In a (union_members w srcs g) ->
  exists u, In u (units_for w srcs (SC g)) /\ ematch (u_emit u) a = true.
Proof. exact unit_exists. Qed.
