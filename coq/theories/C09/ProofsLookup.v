(* C09 — lookup_kerning_value against the UFO lookup algorithm. *)
From Coq Require Import List NArith ZArith QArith Qabs Qround Bool Lia.
From FV.C09 Require Import Model ProofsBasics.
Import ListNotations.

(* on a glyph pair the code's cascade IS the UFO lookup algorithm *)
Lemma lookup_gg : forall s a b, lookup_kerning_value s (SG a, SG b) = ufo_value s a b.
Proof.
  intros s a b. unfold lookup_kerning_value, ufo_value, grp, groups_of. cbn [fst snd get_group_if_glyph only_glyph].
  destruct (kget (kerns s) (SG a, SG b)); [reflexivity|].
  destruct (group_of (groups2 s) b) as [h|]; destruct (group_of (groups1 s) a) as [g|]; cbn [kget2]; reflexivity.
Qed.

Lemma lookup_cg : forall s g b,
  lookup_kerning_value s (SC g, SG b) =
  match kget (kerns s) (SC g, SG b) with
  | Some v => v
  | None => match grp Second s b with
            | Some h => match kget (kerns s) (SC g, SC h) with Some v => v | None => 0 end
            | None => 0
            end
  end.
Proof.
  intros s g b. unfold lookup_kerning_value, grp, groups_of. cbn [fst snd get_group_if_glyph only_glyph kget2].
  destruct (kget (kerns s) (SC g, SG b)) eqn:E; [reflexivity|].
  destruct (group_of (groups2 s) b) as [h|]; cbn [kget2]; rewrite ?E; reflexivity.
Qed.

Lemma lookup_cc : forall s g h,
  lookup_kerning_value s (SC g, SC h) =
  match kget (kerns s) (SC g, SC h) with Some v => v | None => 0 end.
Proof.
  intros s g h. unfold lookup_kerning_value. cbn [fst snd get_group_if_glyph only_glyph kget2].
  destruct (kget (kerns s) (SC g, SC h)) eqn:E; reflexivity.
Qed.

Lemma kerned_names_In : forall w s p v g,
  In (p, v) (kerns s) -> pick w p = SC g -> In g (kerned_names w s).
Proof.
  intros w s p v g Hin Hp. unfold kerned_names. apply in_flat_map. exists (p, v). split; [exact Hin|].
  cbn [fst]. rewrite Hp. left. reflexivity.
Qed.

Lemma kget_unkerned : forall w s p g,
  pick w p = SC g -> ~ In g (kerned_names w s) -> kget (kerns s) p = None.
Proof.
  intros w s p g Hp Hn. destruct (kget (kerns s) p) eqn:E; [|reflexivity].
  exfalso. apply Hn. eapply kerned_names_In; [apply kget_In; exact E | exact Hp].
Qed.

(* a group no key of this source names on the first side resolves to 0 there *)
Lemma lookup_unkerned_first : forall s g y,
  ~ In g (kerned_names First s) -> lookup_kerning_value s (SC g, y) = 0.
Proof.
  intros s g y Hn. destruct y as [b|h].
  - rewrite lookup_cg. rewrite (kget_unkerned First s (SC g, SG b) g eq_refl Hn).
    destruct (grp Second s b) as [h|]; [|reflexivity].
    rewrite (kget_unkerned First s (SC g, SC h) g eq_refl Hn). reflexivity.
  - rewrite lookup_cc. rewrite (kget_unkerned First s (SC g, SC h) g eq_refl Hn). reflexivity.
Qed.

Lemma lookup_unkerned_second : forall s g h,
  ~ In h (kerned_names Second s) -> lookup_kerning_value s (SC g, SC h) = 0.
Proof.
  intros s g h Hn. rewrite lookup_cc. rewrite (kget_unkerned Second s (SC g, SC h) h eq_refl Hn). reflexivity.
Qed.

(* the value of a (possibly absent) name pair at one source: resolve_units' body *)
Definition resolve1 (s : source) (n1 n2 : option side) : Q :=
  match n1, n2 with
  | Some x, Some y => lookup_kerning_value s (x, y)
  | _, _ => 0
  end.

(* the group a glyph is in, as a side name *)
Definition eff (w : which) (s : source) (a : glyph) : option side :=
  match grp w s a with Some g => Some (SC g) | None => None end.

(* when neither the glyph pair nor a glyph-to-class key is defined, the UFO
   value is what the class-to-glyph lookup of a's group gives *)
Lemma ufo_cg_form : forall s a b,
  kget (kerns s) (SG a, SG b) = None ->
  (forall h, grp Second s b = Some h -> kget (kerns s) (SG a, SC h) = None) ->
  ufo_value s a b = resolve1 s (eff First s a) (Some (SG b)).
Proof.
  intros s a b H1 H2. unfold ufo_value, resolve1, eff. rewrite H1.
  destruct (grp Second s b) as [h|] eqn:Eh.
  - rewrite (H2 h eq_refl). destruct (grp First s a) as [g|] eqn:Eg; [|reflexivity].
    rewrite lookup_cg, Eh. destruct (kget (kerns s) (SC g, SG b)); reflexivity.
  - destruct (grp First s a) as [g|] eqn:Eg; [|reflexivity].
    rewrite lookup_cg, Eh. destruct (kget (kerns s) (SC g, SG b)); reflexivity.
Qed.

(* ... and when no class-to-glyph key of a's group is defined either, it is the
   class-to-class value *)
Lemma ufo_cc_form : forall s a b,
  kget (kerns s) (SG a, SG b) = None ->
  (forall h, grp Second s b = Some h -> kget (kerns s) (SG a, SC h) = None) ->
  (forall g, grp First s a = Some g -> kget (kerns s) (SC g, SG b) = None) ->
  ufo_value s a b = resolve1 s (eff First s a) (eff Second s b).
Proof.
  intros s a b H1 H2 H3. rewrite (ufo_cg_form s a b H1 H2). unfold resolve1, eff.
  destruct (grp First s a) as [g|] eqn:Eg; [|reflexivity].
  rewrite lookup_cg, (H3 g eq_refl).
  destruct (grp Second s b) as [h|] eqn:Eh; [|reflexivity].
  rewrite lookup_cc. reflexivity.
Qed.

Lemma resolve1_cc_value : forall s a b,
  resolve1 s (eff First s a) (eff Second s b) =
  match grp First s a, grp Second s b with
  | Some g, Some h => match kget (kerns s) (SC g, SC h) with Some v => v | None => 0 end
  | _, _ => 0
  end.
Proof.
  intros s a b. unfold resolve1, eff.
  destruct (grp First s a) as [g|]; [|reflexivity].
  destruct (grp Second s b) as [h|]; [|reflexivity].
  apply lookup_cc.
Qed.
