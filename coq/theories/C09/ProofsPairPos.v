(* C09 — the PairPos reading of the reconciled pair list. *)
From Coq Require Import List NArith ZArith QArith Qabs Qround Bool Lia.
From FV.C09 Require Import Model ProofsBasics ProofsLookup ProofsBuild.
Import ListNotations.

(* ---- rule lists that say the same thing --------------------------------------- *)
Definition similar (r r' : rule) : Prop :=
  kind r = kind r' /\
  (forall a, ematch (fst (fst r)) a = ematch (fst (fst r')) a) /\
  (forall b, ematch (snd (fst r)) b = ematch (snd (fst r')) b) /\
  snd r = snd r'.

Definition same_rules (out out' : list rule) : Prop :=
  (forall r', In r' out' -> exists r, In r out /\ similar r r') /\
  (forall r, In r out -> exists r', In r' out' /\ similar r r').

Lemma similar_matches : forall r r' a b, similar r r' -> (matches r a b <-> matches r' a b).
Proof. intros r r' a b (_ & E1 & E2 & _). unfold matches. rewrite (E1 a), (E2 b). tauto. Qed.

Lemma sound_transfer : forall srcs out out', sound srcs out -> same_rules out out' -> sound srcs out'.
Proof.
  intros srcs out out' S [B F]. constructor.
  - intros r' H. destruct (B r' H) as (r & Hr & (K & _)). rewrite <- K. exact (s_no1 _ _ S r Hr).
  - intros r' a b H K M i s Hi. destruct (B r' H) as (r & Hr & Sim).
    pose proof Sim as (K' & _ & _ & V). rewrite <- V.
    apply (s_gg _ _ S r a b Hr); [congruence | apply (similar_matches r r' a b Sim); exact M | exact Hi].
  - intros r' a b H K M i s Hi. destruct (B r' H) as (r & Hr & Sim).
    pose proof Sim as (K' & _ & _ & V). rewrite <- V.
    apply (s_cg _ _ S r a b Hr); [congruence | apply (similar_matches r r' a b Sim); exact M | exact Hi].
  - intros r' a b H K M i s Hi. destruct (B r' H) as (r & Hr & Sim).
    pose proof Sim as (K' & _ & _ & V). rewrite <- V.
    apply (s_cc _ _ S r a b Hr); [congruence | apply (similar_matches r r' a b Sim); exact M | exact Hi].
  - intros a b No. apply (c_gg _ _ S a b). intros r Hr K M.
    destruct (F r Hr) as (r' & Hr' & Sim). pose proof Sim as (K' & _).
    apply (No r' Hr'); [congruence | apply (similar_matches r r' a b Sim); exact M].
  - intros a b No. apply (c_cg _ _ S a b). intros r Hr K M.
    destruct (F r Hr) as (r' & Hr' & Sim). pose proof Sim as (K' & _).
    apply (No r' Hr'); [congruence | apply (similar_matches r r' a b Sim); exact M].
  - intros a b No. apply (c_cc _ _ S a b). intros r Hr K M.
    destruct (F r Hr) as (r' & Hr' & Sim). pose proof Sim as (K' & _).
    apply (No r' Hr'); [congruence | apply (similar_matches r r' a b Sim); exact M].
Qed.

(* ---- sort_rules keeps the rules ------------------------------------------------- *)
Lemma mem_ext : forall a l l', (forall x, In x l <-> In x l') -> mem a l = mem a l'.
Proof.
  intros a l l' H. destruct (mem a l) eqn:E, (mem a l') eqn:E'; try reflexivity.
  - apply mem_In in E. apply H in E. apply mem_In in E. congruence.
  - apply mem_In in E'. apply H in E'. apply mem_In in E'. congruence.
Qed.

Lemma ninsert_In : forall x l y, In y (ninsert x l) <-> y = x \/ In y l.
Proof.
  intros x. induction l as [|z l IH]; intro y; cbn.
  - intuition.
  - destruct (N.leb x z); cbn; [intuition|]. rewrite IH. intuition.
Qed.

Lemma nsort_In : forall l y, In y (nsort l) <-> In y l.
Proof.
  unfold nsort. induction l as [|x l IH]; intro y; cbn; [tauto|]. rewrite ninsert_In, IH. intuition.
Qed.

Lemma canon_side_ematch : forall e a, ematch (canon_side e) a = ematch e a.
Proof.
  intros [g|ms] a; cbn; [reflexivity|]. apply mem_ext. intro x. rewrite nsort_In, dedup_In. tauto.
Qed.

Lemma canon_similar : forall r, similar r (canon_rule r).
Proof.
  intros [[e1 e2] v]. unfold similar, canon_rule. cbn [fst snd]. repeat split.
  - destruct e1, e2; reflexivity.
  - intro a. symmetry. apply canon_side_ematch.
  - intro b. symmetry. apply canon_side_ematch.
Qed.

Lemma rinsert_In : forall r l y, In y (rinsert r l) <-> y = r \/ In y l.
Proof.
  intro r. induction l as [|z l IH]; intro y; cbn.
  - intuition.
  - destruct (rule_leb r z); cbn; [intuition|]. rewrite IH. intuition.
Qed.

Lemma rsort_In : forall l y, In y (fold_right rinsert [] l) <-> In y l.
Proof.
  induction l as [|x l IH]; intro y; cbn; [tauto|]. rewrite rinsert_In, IH. intuition.
Qed.

Lemma sort_rules_same : forall out, same_rules out (sort_rules out).
Proof.
  intro out. unfold sort_rules. split.
  - intros r' H. apply (proj1 (rsort_In _ _)) in H. apply in_map_iff in H as (r & <- & Hr).
    exists r. split; [exact Hr | apply canon_similar].
  - intros r Hr. exists (canon_rule r). split; [|apply canon_similar].
    apply rsort_In. apply in_map. exact Hr.
Qed.

(* ---- format 1: the first hit in kind order --------------------------------------- *)
Lemma fmt1_some : forall out a b v, fmt1_hit out a b = Some v ->
  exists r, In r (best_hits out a b) /\ snd r = v.
Proof.
  intros out a b v H. unfold fmt1_hit in H. unfold best_hits.
  destruct (hits 0 out a b) as [|r0 l0]; cbn in H.
  - destruct (hits 1 out a b) as [|r1 l1]; cbn in H.
    + destruct (hits 2 out a b) as [|r2 l2]; cbn in H; [discriminate|].
      inversion H. exists r2. split; [left; reflexivity | reflexivity].
    + inversion H. exists r1. split; [left; reflexivity | reflexivity].
  - inversion H. exists r0. split; [left; reflexivity | reflexivity].
Qed.

Lemma fmt1_none : forall out a b, fmt1_hit out a b = None -> best_hits out a b = hits 3 out a b.
Proof.
  intros out a b H. unfold fmt1_hit in H. unfold best_hits.
  destruct (hits 0 out a b) as [|r0 l0]; cbn in H; [|discriminate].
  destruct (hits 1 out a b) as [|r1 l1]; cbn in H; [|discriminate].
  destruct (hits 2 out a b) as [|r2 l2]; cbn in H; [reflexivity|discriminate].
Qed.

(* ---- format 2 when the classes of each side form a partition ----------------------- *)
Definition item := ((list glyph * list glyph) * list Q)%type.

Lemma subset_spec : forall x y, subset x y = true <-> forall g, In g x -> In g y.
Proof.
  induction x as [|a x IH]; intro y; cbn.
  - split; [intros _ g [] | reflexivity].
  - rewrite andb_true_iff, IH, mem_In. split.
    + intros [H1 H2] g [<-|Hg]; auto.
    + intro H. split; [apply H; left; reflexivity | intros g Hg; apply H; right; exact Hg].
Qed.

Lemma set_eqb_spec : forall x y, set_eqb x y = true <-> forall g, In g x <-> In g y.
Proof.
  intros x y. unfold set_eqb. rewrite andb_true_iff, !subset_spec. split.
  - intros [H1 H2] g. split; auto.
  - intro H. split; intros g Hg; apply H; exact Hg.
Qed.

Definition set_ok (c c' : list glyph) : Prop :=
  (forall g, In g c <-> In g c') \/ (forall g, In g c -> ~ In g c').

Definition partition_ok (items : list item) : Prop :=
  forall it it', In it items -> In it' items ->
    set_ok (fst (fst it)) (fst (fst it')) /\ set_ok (snd (fst it)) (snd (fst it')).

Lemma can_add_ok : forall classes c, (forall c', In c' classes -> set_ok c c') -> can_add classes c = true.
Proof.
  intros classes c H. unfold can_add.
  destruct (existsb (set_eqb c) classes) eqn:E; [reflexivity|]. cbn.
  apply forallb_forall. intros g Hg. apply negb_true_iff.
  destruct (existsb (mem g) classes) eqn:E2; [|reflexivity]. exfalso.
  apply existsb_exists in E2 as (c' & Hc' & M). apply mem_In in M.
  destruct (H c' Hc') as [Q|D].
  - pose proof (existsb_false _ _ E c' Hc') as F. cbn beta in F.
    assert (set_eqb c c' = true) by (apply set_eqb_spec; exact Q). congruence.
  - exact (D g Hg M).
Qed.

Definition run (subs : list subtable) (items : list item) : list subtable :=
  fold_left (fun subs r => cpp_insert subs (fst (fst r)) (snd (fst r)) (snd r)) items subs.

Definition st_of (done : list item) : subtable :=
  mkSub (rev (map (fun it : item => fst (fst it)) done))
        (rev (map (fun it : item => snd (fst it)) done))
        (rev done).

Lemma st_of_snoc : forall done (it : item),
  sub_add (st_of done) (fst (fst it)) (snd (fst it)) (snd it) = st_of (done ++ [it]).
Proof.
  intros done [[c1 c2] v]. unfold sub_add, st_of. cbn [st_c1 st_c2 st_items fst snd].
  rewrite !map_app, !rev_app_distr. reflexivity.
Qed.

Lemma run_cons : forall subs (it : item) items,
  run subs (it :: items) = run (cpp_insert subs (fst (fst it)) (snd (fst it)) (snd it)) items.
Proof. reflexivity. Qed.

Lemma run_single : forall items done, done <> [] -> partition_ok (done ++ items) ->
  run [st_of done] items = [st_of (done ++ items)].
Proof.
  induction items as [|it items IH]; intros done Hne P.
  - rewrite app_nil_r. reflexivity.
  - rewrite run_cons. unfold cpp_insert.
    assert (A1 : can_add (st_c1 (st_of done)) (fst (fst it)) = true).
    { apply can_add_ok. intros c' Hc'. cbn [st_of st_c1] in Hc'. apply in_rev in Hc'.
      apply in_map_iff in Hc' as (it' & <- & Hit').
      apply (P it it'); [apply in_or_app; right; left; reflexivity | apply in_or_app; left; exact Hit']. }
    assert (A2 : can_add (st_c2 (st_of done)) (snd (fst it)) = true).
    { apply can_add_ok. intros c' Hc'. cbn [st_of st_c2] in Hc'. apply in_rev in Hc'.
      apply in_map_iff in Hc' as (it' & <- & Hit').
      apply (P it it'); [apply in_or_app; right; left; reflexivity | apply in_or_app; left; exact Hit']. }
    rewrite A1, A2. cbn [andb]. rewrite st_of_snoc.
    rewrite IH.
    + rewrite <- app_assoc. reflexivity.
    + intro E. apply app_eq_nil in E as [_ E]. discriminate.
    + rewrite <- app_assoc. exact P.
Qed.

Lemma run_from_empty : forall items, items <> [] -> partition_ok items -> run [] items = [st_of items].
Proof.
  intros [|it items] Hne P; [contradiction|]. rewrite run_cons. cbn [cpp_insert].
  replace (sub_add sub_empty (fst (fst it)) (snd (fst it)) (snd it)) with (st_of [it]).
  - apply (run_single items [it]); [discriminate | exact P].
  - destruct it as [[c1 c2] v]. reflexivity.
Qed.

Definition item_matches (it : item) (a b : glyph) : Prop :=
  mem a (fst (fst it)) = true /\ mem b (snd (fst it)) = true.

Lemma filter_head_or_nil : forall {A} (f : A -> bool) l,
  (exists x rest, filter f l = x :: rest /\ In x l /\ f x = true) \/
  (filter f l = [] /\ forall x, In x l -> f x = false).
Proof.
  intros A f l. destruct (filter f l) as [|x rest] eqn:E.
  - right. split; [reflexivity|]. intros x Hx. destruct (f x) eqn:F; [|reflexivity].
    assert (In x (filter f l)) by (apply filter_In; auto). rewrite E in H. contradiction.
  - left. exists x, rest. split; [reflexivity|].
    assert (In x (filter f l)) by (rewrite E; left; reflexivity). apply filter_In in H. exact H.
Qed.

(* with a single subtable the value is that of a class pair covering (a, b), or zero when none does *)
Lemma fmt2_single : forall items n a b,
  let v := fmt2_value false n [st_of items] a b in
  (exists it, In it items /\ item_matches it a b /\ v = snd it) \/
  (v = zeros n /\ forall it, In it items -> ~ item_matches it a b).
Proof.
  intros items n a b v. subst v. cbn [fmt2_value negb orb]. rewrite andb_true_r.
  destruct (st_covers (st_of items) a) eqn:C.
  - unfold st_value. cbn [st_of st_items].
    match goal with |- context [filter ?f ?l] =>
      destruct (filter_head_or_nil f l) as [(x & rest & E & Hx & Fx)|[E No]]; rewrite E end.
    + left. exists x. apply in_rev in Hx. cbn beta in Fx. apply andb_true_iff in Fx.
      split; [exact Hx|]. split; [exact Fx | reflexivity].
    + right. split; [reflexivity|]. intros it Hit [M1 M2].
      specialize (No it (proj1 (in_rev items it) Hit)). cbn beta in No.
      assert (X : false = true) by (rewrite <- No; apply andb_true_iff; split; [exact M1 | exact M2]).
      discriminate X.
  - right. split; [reflexivity|]. intros it Hit [M1 _].
    unfold st_covers in C. cbn [st_of st_items] in C.
    pose proof (existsb_false _ _ C it (proj1 (in_rev items it) Hit)) as F. cbn beta in F.
    assert (X : false = true) by (rewrite <- F; exact M1). discriminate X.
Qed.

Lemma class_rules_In : forall out c1 c2 v,
  In ((c1, c2), v) (class_rules out) <-> In ((EC c1, EC c2), v) out.
Proof.
  intros out c1 c2 v. unfold class_rules. rewrite in_flat_map. split.
  - intros ([[e1 e2] w] & Hr & H). cbn [fst snd] in H. destruct e1, e2; cbn in H; try contradiction.
    destruct H as [H|[]]. inversion H; subst. exact Hr.
  - intro H. exists ((EC c1, EC c2), v). split; [exact H|]. left. reflexivity.
Qed.

(* classes of the class-class rules: same glyphs or no glyph in common, per side *)
Definition side_ok (e e' : eside) : Prop :=
  (forall g, ematch e g = ematch e' g) \/ (forall g, ematch e g = true -> ematch e' g = false).
Definition classes_partition (out : list rule) : Prop :=
  forall r r', In r out -> In r' out -> kind r = 3%N -> kind r' = 3%N ->
    side_ok (fst (fst r)) (fst (fst r')) /\ side_ok (snd (fst r)) (snd (fst r')).

Lemma side_ok_transfer : forall e1 e1' e2 e2',
  (forall g, ematch e1 g = ematch e2 g) -> (forall g, ematch e1' g = ematch e2' g) ->
  side_ok e1 e1' -> side_ok e2 e2'.
Proof.
  intros e1 e1' e2 e2' H H' [E|D].
  - left. intro g. rewrite <- H, <- H'. apply E.
  - right. intros g Hg. rewrite <- H'. apply D. rewrite H. exact Hg.
Qed.

Lemma classes_partition_transfer : forall out out',
  same_rules out out' -> classes_partition out -> classes_partition out'.
Proof.
  intros out out' [B _] P r1' r2' H1 H2 K1 K2.
  destruct (B r1' H1) as (r1 & Hr1 & (Ka & Ea & Fa & _)).
  destruct (B r2' H2) as (r2 & Hr2 & (Kb & Eb & Fb & _)).
  destruct (P r1 r2 Hr1 Hr2 ltac:(congruence) ltac:(congruence)) as [S1 S2].
  split; eapply side_ok_transfer; eauto.
Qed.

Lemma set_ok_of_side_ok : forall c c', side_ok (EC c) (EC c') -> set_ok c c'.
Proof.
  intros c c' [E|D].
  - left. intro g. rewrite <- !mem_In. specialize (E g). cbn in E. rewrite E. tauto.
  - right. intros g Hg Hg'. apply mem_In in Hg, Hg'. specialize (D g Hg). cbn in D. congruence.
Qed.

Lemma partition_items : forall out, classes_partition out -> partition_ok (class_rules out).
Proof.
  intros out P [[c1 c2] v] [[c1' c2'] v'] H H'. cbn [fst snd].
  apply class_rules_In in H, H'.
  destruct (P _ _ H H' eq_refl eq_refl) as [S1 S2]. cbn [fst snd] in S1, S2.
  split; apply set_ok_of_side_ok; assumption.
Qed.

Theorem pairpos_of_sound : forall srcs out, sound srcs out -> classes_partition out ->
  forall a b i s, nth_error srcs i = Some s ->
    value_at (pairpos_values false (length srcs) out a b) i == ufo_value s a b.
Proof.
  intros srcs out S P a b i s Hi. unfold value_at, pairpos_values, pairpos_values_with.
  destruct (fmt1_hit out a b) as [v|] eqn:F.
  - destruct (fmt1_some out a b v F) as (r & Hr & <-).
    rewrite (best_hits_sound srcs out S a b r Hr i s Hi). reflexivity.
  - pose proof (fmt1_none out a b F) as B.
    assert (Zero : hits 3 out a b = [] -> nth i (zeros (length srcs)) 0 == ufo_value s a b).
    { intro H3. rewrite nth_zeros. symmetry.
      apply (best_hits_complete srcs out S a b); [rewrite B; exact H3 | exact (nth_error_In _ _ Hi)]. }
    assert (NoItems : (forall it, In it (class_rules out) -> ~ item_matches it a b) -> hits 3 out a b = []).
    { intro No. destruct (hits 3 out a b) as [|r l] eqn:E; [reflexivity|]. exfalso.
      assert (Hr : In r (hits 3 out a b)) by (rewrite E; left; reflexivity).
      apply hits_In in Hr as (Hin & K & [M1 M2]). destruct r as [[e1 e2] v].
      rewrite kind_shape in K. destruct e1 as [?|c1], e2 as [?|c2]; try discriminate.
      apply (No ((c1, c2), v)); [apply class_rules_In; exact Hin | split; assumption]. }
    unfold fmt2_subtables. fold (run [] (class_rules out)).
    assert (D : class_rules out = [] \/ class_rules out <> []).
    { destruct (class_rules out); [left; reflexivity | right; discriminate]. }
    destruct D as [CR|CR].
    + assert (H3 : hits 3 out a b = []).
      { apply NoItems. intros it Hit. rewrite CR in Hit. contradiction. }
      rewrite CR. cbn. apply Zero. exact H3.
    + rewrite run_from_empty; [|exact CR | apply partition_items; exact P].
      cbn [rev app].
      destruct (fmt2_single (class_rules out) (length srcs) a b) as [(it & Hit & [M1 M2] & E)|[E No]];
        cbn zeta in E; rewrite E.
      * destruct it as [[c1 c2] v]. cbn [snd fst] in *.
        apply class_rules_In in Hit.
        assert (Hr : In ((EC c1, EC c2), v) (best_hits out a b)).
        { rewrite B. apply hits_In. split; [exact Hit|]. split; [reflexivity | split; assumption]. }
        pose proof (best_hits_sound srcs out S a b _ Hr i s Hi) as Q. cbn [snd] in Q.
        rewrite Q. reflexivity.
      * apply Zero. apply NoItems. exact No.
Qed.

(* ---- masters that group their glyphs identically --------------------------------- *)
Lemma existsb_all_false : forall {A} (f : A -> bool) l, (forall x, In x l -> f x = false) -> existsb f l = false.
Proof.
  intros A f l H. destruct (existsb f l) eqn:E; [|reflexivity].
  apply existsb_exists in E as (x & Hx & Fx). rewrite (H x Hx) in Fx. discriminate.
Qed.

Definition groups_agree (srcs : list source) : Prop := forall w a, divergent w srcs a = false.

Lemma agree_units : forall srcs w g u, groups_agree srcs -> In u (units_for w srcs (SC g)) ->
  u_emit u = EC (union_members w srcs g).
Proof.
  intros srcs w g u A H. unfold units_for in H.
  assert (R : is_refined w srcs g = false).
  { unfold is_refined. apply existsb_all_false. intros x _. apply A. }
  rewrite R in H. destruct (union_members w srcs g) as [|x l]; [contradiction|].
  destruct H as [<-|[]]. reflexivity.
Qed.

Lemma agree_side_ok : forall srcs w g g', groups_agree srcs ->
  side_ok (EC (union_members w srcs g)) (EC (union_members w srcs g')).
Proof.
  intros srcs w g g' A. destruct (N.eq_dec g g') as [->|Ne]; [left; reflexivity|].
  right. intros a Ha. cbn in *. apply mem_false. intro Ha'. apply mem_In in Ha.
  assert (R : forall x, is_refined w srcs x = false).
  { intro x. unfold is_refined. apply existsb_all_false. intros y _. apply A. }
  pose proof Ha as Ha2. apply union_In in Ha2 as (s & Hs & _).
  pose proof (unrefined_grp w srcs g a (R g) Ha s Hs) as E1.
  pose proof (unrefined_grp w srcs g' a (R g') Ha' s Hs) as E2.
  congruence.
Qed.

Theorem agree_partition : forall srcs, groups_agree srcs -> classes_partition (build srcs).
Proof.
  intros srcs A r r' H H' K K'.
  destruct (build_origin srcs r H) as [a h m _ ->|a b ->|g b u1 H1 ->|g h u1 u2 H1 H2 ->]; try discriminate.
  { destruct (unit_class_shape _ _ _ _ H1) as (ms & E). rewrite kind_shape, E in K. discriminate. }
  destruct (build_origin srcs r' H') as [a' h' m' _ ->|a' b' ->|g' b' u1' H1' ->|g' h' u1' u2' H1' H2' ->]; try discriminate.
  { destruct (unit_class_shape _ _ _ _ H1') as (ms & E). rewrite kind_shape, E in K'. discriminate. }
  cbn [fst snd].
  rewrite (agree_units srcs First g u1 A H1), (agree_units srcs Second h u2 A H2),
          (agree_units srcs First g' u1' A H1'), (agree_units srcs Second h' u2' A H2').
  split; apply agree_side_ok; exact A.
Qed.
