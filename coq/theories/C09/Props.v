(* C09 — Kerning in the font equals the source kerning at every master.
   Property theorems only; proofs are in Proofs*.v.

   Reading guide.  `source` = one master's kerning + its own groups
   (KerningInstance).  `ufo_value s a b` = the UFO kerning lookup algorithm on
   master s.  `build srcs` = build_variable_kern_adjustments: the reconciled pair
   list, each pair with one value per master.  `font_values` = the meaning of a
   pair list as the kern feature writer / ufo2ft define it (most specific rule
   first: glyph-glyph, glyph-class, class-glyph, class-class, else 0).
   `model_pairpos` = the same list pushed through the model of
   KernPair::add_to + write-fonts' PairPosBuilder and read back the way OpenType
   applies PairPos subtables.  C07's model carries the per-master values through
   the variation model. *)
From Coq Require Import List NArith ZArith QArith Qabs Qround Bool.
From FV.C07 Require Model Main Props.
From FV.C09 Require Import Model ProofsBasics ProofsLookup ProofsBuild ProofsPairPos ProofsVar ProofsMisc.
Import ListNotations.

(* 1. On a glyph pair the code's per-master lookup IS the UFO lookup algorithm
      (glyph-glyph, glyph-group, group-glyph, group-group, else 0), for every
      master, whatever its groups and pairs. *)
Theorem lookup_is_ufo_cascade : forall (s : source) (a b : glyph),
  lookup_kerning_value s (SG a, SG b) = ufo_value s a b.
Proof. exact lookup_gg. Qed.
Print Assumptions lookup_is_ufo_cascade.

(* ... and on a master whose groups are valid UFO 3 groups the group used for a
   glyph is the group that lists it (no dependence on map order). *)
Theorem group_resolution_unambiguous : forall gs a g ms,
  groups_valid gs = true -> In (g, ms) gs -> In a ms -> group_of gs a = Some g.
Proof. exact group_of_complete. Qed.
Print Assumptions group_resolution_unambiguous.

(* 2. MAIN.  For every list of masters (any number; groups that differ between
      masters, groups only some masters have, groups no pair refers to, pairs only
      some masters define, zero-valued pairs, exceptions of every kind, even
      invalid overlapping groups), every ordered glyph pair (a, b) and every
      master s: the reconciled pair list, read most-specific-rule-first, gives
      (a, b) at s exactly the value the UFO lookup gives on s's own kerning and
      groups.  No hypothesis. *)
Theorem cascade_preserved : forall (srcs : list source) (a b : glyph) (i : nat) (s : source),
  nth_error srcs i = Some s ->
  value_at (font_values (length srcs) (build srcs) a b) i == ufo_value s a b.
Proof. intros srcs. exact (cascade_of_sound srcs (build srcs) (build_sound srcs)). Qed.
Print Assumptions cascade_preserved.

(* 2'. Stronger than "the first hit": EVERY emitted rule of the most specific kind
       covering (a, b) carries the right value at every master — so the order in
       which equally specific rules reach the lookup builder (first insert wins)
       cannot matter — and a pair no rule covers is unkerned in every master. *)
Theorem every_covering_rule_agrees : forall srcs a b r, In r (best_hits (build srcs) a b) ->
  forall i s, nth_error srcs i = Some s -> value_at (snd r) i = ufo_value s a b.
Proof. intros srcs. exact (best_hits_sound srcs (build srcs) (build_sound srcs)). Qed.
Print Assumptions every_covering_rule_agrees.

Theorem uncovered_pairs_are_unkerned : forall srcs a b, best_hits (build srcs) a b = [] ->
  forall s, In s srcs -> ufo_value s a b == 0.
Proof. intros srcs. exact (best_hits_complete srcs (build srcs) (build_sound srcs)). Qed.
Print Assumptions uncovered_pairs_are_unkerned.

(* 3. insert_resolved's debug_assert is a theorem: two inserts under the same key
      carry the same values (so the overwrite is benign and HashSet iteration
      order of the keys cannot reach the output). *)
Theorem collisions_benign : forall srcs r r',
  In r (build srcs) -> In r' (build srcs) -> fst r = fst r' -> snd r = snd r'.
Proof. exact collisions_equal. Qed.
Print Assumptions collisions_benign.

(* 4. Output classes.  The refined classes of one group cover its members and are
      pairwise equal or disjoint ... *)
Theorem refined_classes_of_a_group_partition : forall w srcs g,
  (forall a, In a (union_members w srcs g) ->
     exists u, In u (units_for w srcs (SC g)) /\ ematch (u_emit u) a = true) /\
  (forall r r' m, In m (class_of w srcs g r) -> In m (class_of w srcs g r') ->
     class_of w srcs g r = class_of w srcs g r').
Proof. intros w srcs g. split; [apply classes_of_group_cover | apply classes_of_group_partition]. Qed.
Print Assumptions refined_classes_of_a_group_partition.

(* ... but classes refined from DIFFERENT groups can overlap without being equal
   (DESIGN.md's `refined_classes_partition` is false for the code that exists):
   A is in kern1.0 = {A, B} (kerned) in master 1; master 2 lists A in kern1.1
   but never kerns kern1.1, which master 1 kerns with the member C. *)
Definition leftover_srcs : list source :=
  [ mkSource [((SC 0, SC 0), -50 # 1); ((SC 0, SC 1), -70 # 1); ((SC 1, SC 0), -20 # 1)]
             [(0, [0; 1]); (1, [2])] [(0, [3]); (1, [4])];
    mkSource [((SG 2, SG 3), -10 # 1)] [(1, [0])] [(0, [3]); (1, [4])] ]%N.

Theorem refined_classes_partition_refuted :
  exists srcs c c' a,
    forallb source_valid srcs = true /\
    In c (out_classes First srcs) /\ In c' (out_classes First srcs) /\
    In a c /\ In a c' /\ set_eqb c c' = false.
Proof.
  exists leftover_srcs, [1; 0]%N, [0]%N, 0%N. vm_compute. intuition.
Qed.
Print Assumptions refined_classes_partition_refuted.

(* 5. Through PairPosBuilder and the OpenType reading of its subtables (first
      subtable whose Coverage holds the first glyph ends the lookup).
      When the classes of the class-class rules are, per side, pairwise equal or
      disjoint, the compiled lookup gives every ordered glyph pair, at every
      master, the source value — in particular whenever all masters group their
      glyphs identically. *)
Theorem pairpos_preserved_when_classes_partition : forall srcs,
  classes_partition (build srcs) ->
  forall a b i s, nth_error srcs i = Some s ->
    value_at (model_pairpos false srcs a b) i == ufo_value s a b.
Proof.
  intros srcs P. unfold model_pairpos.
  apply pairpos_of_sound.
  - exact (sound_transfer srcs _ _ (build_sound srcs) (sort_rules_same (build srcs))).
  - exact (classes_partition_transfer _ _ (sort_rules_same (build srcs)) P).
Qed.
Print Assumptions pairpos_preserved_when_classes_partition.

Theorem pairpos_preserved_when_groups_agree : forall srcs,
  groups_agree_b srcs = true ->
  forall a b i s, nth_error srcs i = Some s ->
    value_at (model_pairpos false srcs a b) i == ufo_value s a b.
Proof.
  intros srcs A. apply pairpos_preserved_when_classes_partition.
  apply agree_partition. apply groups_agree_b_sound. exact A.
Qed.
Print Assumptions pairpos_preserved_when_groups_agree.

(* 5'. Without that side condition the statement is FALSE for the code that
       exists: overlapping refined classes are split over two format 2 subtables
       and the first one shadows the second.  Valid UFO groups, two masters:
       (A, E) must kern by -70 at master 1, the compiled lookup gives 0. *)
Theorem pairpos_preserved_refuted :
  exists srcs a b i s,
    forallb source_valid srcs = true /\ nth_error srcs i = Some s /\
    ~ (value_at (model_pairpos false srcs a b) i == ufo_value s a b).
Proof.
  exists leftover_srcs, 0%N, 4%N, 0%nat, (nth 0 leftover_srcs (mkSource [] [] [])).
  split; [reflexivity|]. split; [reflexivity|].
  intro H. vm_compute in H. discriminate H.
Qed.
Print Assumptions pairpos_preserved_refuted.

(* 6. With C07: the per-master values are rounded (OtRound), turned into deltas
      by the variation model built on the kerning locations, and interpolated.
      For every layout of kerning masters (any number of axes and masters), at
      every kerning master's location the interpolated kern is within 1/2 of that
      master's rounded UFO value (integer deltas cannot do better at an
      intermediate master), and at the default master it is exactly that value. *)
Module V := FV.C07.Model.

Theorem kern_in_font_at_every_master : forall n locs, FV.C07.Main.wf_input n locs ->
  let m := V.model_new locs in
  forall (srcf : V.loc -> source) (a b : glyph),
  let srcs := map srcf (V.m_locs m) in
  let vals := font_values (length srcs) (build srcs) a b in
  forall k lk, nth_error (V.m_locs m) k = Some lk ->
    Qabs (V.interpolate (V.m_infl m) (V.deltas m true (master_vals vals)) lk
          - inject_Z (ot_round (ufo_value (srcf lk) a b))) <= 1 # 2.
Proof.
  intros n locs W m srcf a b srcs vals k lk Hk.
  assert (L : length vals = length (V.m_locs m)).
  { unfold vals. rewrite font_values_len. unfold srcs. apply map_length. }
  pose proof (variation_at_master n locs W vals L k lk Hk) as B.
  assert (E : nth k vals 0 == ufo_value (srcf lk) a b).
  { apply (cascade_preserved srcs a b k (srcf lk)). unfold srcs. apply map_nth_error. exact Hk. }
  rewrite (ot_round_comp _ _ E) in B. exact B.
Qed.
Print Assumptions kern_in_font_at_every_master.

Theorem kern_in_font_at_default_exact : forall n locs o, FV.C07.Main.wf_input n locs ->
  In o locs -> FV.C07.Main.is_origin o ->
  let m := V.model_new locs in
  forall (srcf : V.loc -> source) (a b : glyph),
  let srcs := map srcf (V.m_locs m) in
  let vals := font_values (length srcs) (build srcs) a b in
    V.interpolate (V.m_infl m) (V.deltas m true (master_vals vals)) o
    == inject_Z (ot_round (ufo_value (srcf o) a b)).
Proof.
  intros n locs o W Hin Ho m srcf a b srcs vals.
  assert (L : length vals = length (V.m_locs m)).
  { unfold vals. rewrite font_values_len. unfold srcs. apply map_length. }
  pose proof (variation_at_default n locs o W Hin Ho vals L) as B.
  destruct (FV.C07.Props.default_exact n locs o W Hin Ho) as [H0 _].
  assert (E : nth 0 vals 0 == ufo_value (srcf o) a b).
  { apply (cascade_preserved srcs a b 0%nat (srcf o)). unfold srcs. apply map_nth_error. exact H0. }
  rewrite <- (ot_round_comp _ _ E). exact B.
Qed.
Print Assumptions kern_in_font_at_default_exact.

(* ---- the hypotheses are satisfiable, the conclusions not vacuous ----------------- *)
(* fontc's own divergent-groups fixture (two masters, groups that differ, pairs in
   one master only): A0 B1 C2 D3 E4 H5 T6 W7 X8 Y9 Z10 *)
Definition divergent_srcs : list source :=
  [ mkSource [((SG 0, SC 0), 100 # 1); ((SC 0, SG 6), 200 # 1); ((SC 0, SC 0), 300 # 1)]
             [(0, [2; 3; 4])] [(0, [7; 8; 9])];
    mkSource [((SG 0, SC 1), -50 # 1); ((SG 0, SC 0), 100 # 1); ((SG 1, SC 2), -30 # 1);
              ((SC 1, SG 6), -60 # 1); ((SC 1, SC 1), -10 # 1); ((SC 0, SG 6), 200 # 1);
              ((SC 0, SC 0), 300 # 1)]
             [(0, [2; 3; 5]); (1, [4])] [(0, [7; 8]); (1, [9]); (2, [10])] ]%N.

(* masters are valid, their groups differ, yet the emitted classes partition: theorem 5 applies *)
Example divergent_valid : forallb source_valid divergent_srcs = true.
Proof. reflexivity. Qed.
Example divergent_diverges : groups_agree_b divergent_srcs = false.
Proof. reflexivity. Qed.
Example divergent_partition : classes_partition (build divergent_srcs).
Proof. apply classes_partition_b_sound. vm_compute. reflexivity. Qed.
(* E (4) against Y (9): 300 in the Regular, -10 in the Bold (its own groups) *)
Example divergent_values :
  model_pairpos false divergent_srcs 4%N 9%N = [300 # 1; -10 # 1] /\
  map (fun s => ufo_value s 4%N 9%N) divergent_srcs = [300 # 1; -10 # 1].
Proof. split; vm_compute; reflexivity. Qed.

(* theorem 2 on the same fixture, and on the left-over-group source, where the pair list
   itself is right ((A, E) = -70 at master 1) although the compiled lookup loses it *)
Example cascade_values :
  font_values 2 (build divergent_srcs) 4%N 9%N = [300 # 1; -10 # 1] /\
  font_values 2 (build leftover_srcs) 0%N 4%N = [-70 # 1; 0] /\
  model_pairpos false leftover_srcs 0%N 4%N = [0; 0] /\
  model_pairpos true leftover_srcs 0%N 4%N = [-70 # 1; 0].
Proof. repeat split; vm_compute; reflexivity. Qed.

(* masters that agree on groups: theorem pairpos_preserved_when_groups_agree applies *)
Definition agreeing_srcs : list source :=
  [ mkSource [((SC 0, SC 0), -40 # 1); ((SG 1, SG 3), 7 # 2)] [(0, [0; 1])] [(0, [2; 3])];
    mkSource [((SC 0, SG 2), 15 # 1)] [(0, [0; 1])] [(0, [2; 3])] ]%N.
Example agreeing_ok : groups_agree_b agreeing_srcs = true.
Proof. reflexivity. Qed.

(* a layout for theorem 6: default, one end, one intermediate master *)
Example kern_layout : list V.loc := [[0]; [10]; [5]]%Z.
Example kern_layout_wf : FV.C07.Main.wf_input 1 kern_layout.
Proof.
  split.
  - repeat (constructor; [cbn; intuition discriminate|]). constructor.
  - repeat constructor.
Qed.
