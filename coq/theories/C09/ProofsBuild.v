(* C09 — the reconciled pair list (build_variable_kern_adjustments) is sound and
   complete for every source's own cascade. *)
From Coq Require Import List NArith ZArith QArith Qabs Qround Bool Lia.
From FV.C09 Require Import Model ProofsBasics ProofsLookup.
Import ListNotations.

Lemma existsb_false : forall {A} (f : A -> bool) l, existsb f l = false -> forall x, In x l -> f x = false.
Proof.
  intros A f l H x Hin. destruct (f x) eqn:E; [|reflexivity].
  assert (existsb f l = true) by (apply existsb_exists; exists x; auto). congruence.
Qed.

(* ---- membership of the union, divergence --------------------------------- *)
Lemma universe_In : forall w srcs s a g, In s srcs -> grp w s a = Some g -> In a (universe w srcs).
Proof.
  intros w srcs s a g Hs H. unfold universe. apply dedup_In. apply in_flat_map. exists s. split; [exact Hs|].
  destruct (group_of_In _ _ _ H) as (ms & H1 & H2). apply in_flat_map. exists (g, ms). split; [exact H1 | exact H2].
Qed.

Lemma union_In : forall w srcs g a,
  In a (union_members w srcs g) <-> exists s, In s srcs /\ grp w s a = Some g.
Proof.
  intros w srcs g a. unfold union_members. rewrite filter_In, existsb_exists. split.
  - intros (_ & s & Hs & E). apply oeqb_eq in E. eauto.
  - intros (s & Hs & E). split; [eapply universe_In; eauto|]. exists s. split; [exact Hs | apply oeqb_eq; exact E].
Qed.

Lemma not_divergent : forall w srcs a, divergent w srcs a = false ->
  forall s s', In s srcs -> In s' srcs -> grp w s a = grp w s' a.
Proof.
  intros w [|s0 t] a H s s' Hs Hs'; [contradiction|]. unfold divergent in H.
  assert (K : forall x, In x (s0 :: t) -> grp w x a = grp w s0 a).
  { intros x [<-|Hx]; [reflexivity|]. pose proof (existsb_false _ _ H x Hx) as E. cbn beta in E.
    apply negb_false_iff in E. apply oeqb_eq in E. exact E. }
  rewrite (K s Hs), (K s' Hs'). reflexivity.
Qed.

Lemma unrefined_grp : forall w srcs g a,
  is_refined w srcs g = false -> In a (union_members w srcs g) ->
  forall s, In s srcs -> grp w s a = Some g.
Proof.
  intros w srcs g a R Ha s Hs. unfold is_refined in R.
  pose proof (existsb_false _ _ R a Ha) as D.
  apply union_In in Ha as (s0 & Hs0 & E0).
  rewrite (not_divergent w srcs a D s s0 Hs Hs0). exact E0.
Qed.

(* ---- representatives and refined classes ---------------------------------- *)
Lemma reps_sub : forall w srcs ms r, In r (reps w srcs ms) -> In r ms.
Proof.
  intros w srcs. induction ms as [|m ms IH]; intros r H; cbn in H; [contradiction|].
  destruct H as [<-|H]; [left; reflexivity|]. apply filter_In in H as [H _]. right. apply IH. exact H.
Qed.

Lemma reps_cover : forall w srcs ms a, In a ms ->
  exists r, In r (reps w srcs ms) /\ signature w srcs r = signature w srcs a.
Proof.
  intros w srcs. induction ms as [|m ms IH]; intros a H; [contradiction|].
  destruct H as [<-|H].
  - exists m. split; [left; reflexivity | reflexivity].
  - destruct (IH a H) as (r & Hr & E).
    destruct (sig_eqb (signature w srcs r) (signature w srcs m)) eqn:Q.
    + apply sig_eqb_eq in Q. exists m. split; [left; reflexivity | congruence].
    + exists r. split; [|exact E]. cbn. right. apply filter_In. split; [exact Hr | rewrite Q; reflexivity].
Qed.

Lemma class_of_In : forall w srcs g r m,
  In m (class_of w srcs g r) <->
  In m (union_members w srcs g) /\ signature w srcs m = signature w srcs r.
Proof. intros. unfold class_of. rewrite filter_In, sig_eqb_eq. tauto. Qed.

Lemma sig_kerned : forall w srcs m r s,
  signature w srcs m = signature w srcs r -> In s srcs -> kerned_group w s m = kerned_group w s r.
Proof. intros w srcs m r s H Hs. unfold signature in H. exact (map_eq_In _ _ srcs H s Hs). Qed.

(* ---- units ------------------------------------------------------------------ *)
Lemma unit_class_shape : forall w srcs g u, In u (units_for w srcs (SC g)) -> exists ms, u_emit u = EC ms.
Proof.
  intros w srcs g u H. unfold units_for in H. destruct (is_refined w srcs g).
  - apply in_map_iff in H as (r & <- & _). eexists; reflexivity.
  - destruct (union_members w srcs g); [contradiction|]. destruct H as [<-|[]]. eexists; reflexivity.
Qed.

Lemma unit_exists : forall w srcs g a, In a (union_members w srcs g) ->
  exists u, In u (units_for w srcs (SC g)) /\ ematch (u_emit u) a = true.
Proof.
  intros w srcs g a Ha. unfold units_for. destruct (is_refined w srcs g).
  - destruct (reps_cover w srcs _ a Ha) as (r & Hr & E).
    exists (mkUnit (PerSource w r) (EC (class_of w srcs g r))). split.
    + apply in_map_iff. exists r. split; [reflexivity | exact Hr].
    + cbn. apply mem_In. apply class_of_In. split; [exact Ha | symmetry; exact E].
  - destruct (union_members w srcs g) as [|x l] eqn:U; [contradiction|].
    exists (mkUnit (Uniform (SC g)) (EC (x :: l))). split; [left; reflexivity|].
    cbn [u_emit ematch]. apply mem_In. exact Ha.
Qed.

(* a first-side class unit that holds glyph a resolves, at every source, like a's own group *)
Lemma unit_first : forall srcs g u a,
  In u (units_for First srcs (SC g)) -> ematch (u_emit u) a = true ->
  forall s, In s srcs -> forall n2,
    resolve1 s (name_at (u_names u) s) n2 = resolve1 s (eff First s a) n2.
Proof.
  intros srcs g u a Hu Hm s Hs n2. unfold units_for in Hu.
  destruct (is_refined First srcs g) eqn:R.
  - apply in_map_iff in Hu as (r & <- & Hr). cbn [u_emit ematch] in Hm. apply mem_In in Hm.
    apply class_of_In in Hm as [Hau Hsig]. cbn [u_names name_at].
    rewrite <- (sig_kerned First srcs a r s Hsig Hs). unfold kerned_group, eff.
    destruct (grp First s a) as [g'|]; [|reflexivity].
    destruct (mem g' (kerned_names First s)) eqn:K; [reflexivity|].
    cbn [resolve1]. destruct n2 as [y|]; [|reflexivity].
    rewrite lookup_unkerned_first; [reflexivity | apply mem_false; exact K].
  - destruct (union_members First srcs g) as [|x l] eqn:U; [contradiction|].
    destruct Hu as [<-|[]]. cbn [u_emit ematch] in Hm. apply mem_In in Hm. rewrite <- U in Hm.
    cbn [u_names name_at]. unfold eff. rewrite (unrefined_grp First srcs g a R Hm s Hs). reflexivity.
Qed.

Lemma unit_second : forall srcs h u b,
  In u (units_for Second srcs (SC h)) -> ematch (u_emit u) b = true ->
  forall s, In s srcs -> forall a,
    resolve1 s (eff First s a) (name_at (u_names u) s) = resolve1 s (eff First s a) (eff Second s b).
Proof.
  intros srcs h u b Hu Hm s Hs a. unfold units_for in Hu.
  destruct (is_refined Second srcs h) eqn:R.
  - apply in_map_iff in Hu as (r & <- & Hr). cbn [u_emit ematch] in Hm. apply mem_In in Hm.
    apply class_of_In in Hm as [Hau Hsig]. cbn [u_names name_at].
    rewrite <- (sig_kerned Second srcs b r s Hsig Hs). unfold kerned_group, eff.
    destruct (grp Second s b) as [h'|]; [|reflexivity].
    destruct (mem h' (kerned_names Second s)) eqn:K; [reflexivity|].
    destruct (grp First s a) as [g|]; [|reflexivity]. cbn [resolve1].
    rewrite lookup_unkerned_second; [reflexivity | apply mem_false; exact K].
  - destruct (union_members Second srcs h) as [|x l] eqn:U; [contradiction|].
    destruct Hu as [<-|[]]. cbn [u_emit ematch] in Hm. apply mem_In in Hm. rewrite <- U in Hm.
    cbn [u_names name_at]. unfold eff at 3. rewrite (unrefined_grp Second srcs h b R Hm s Hs). reflexivity.
Qed.

Lemma resolve_units_eq : forall srcs u1 u2,
  resolve_units srcs u1 u2 = map (fun s => resolve1 s (name_at (u_names u1) s) (name_at (u_names u2) s)) srcs.
Proof. reflexivity. Qed.

(* ---- membership of the emitted list ---------------------------------------- *)
Lemma build_In : forall srcs r,
  In r (build srcs) <-> exists s key v, In s srcs /\ In (key, v) (kerns s) /\ In r (emit_key srcs key).
Proof.
  intros srcs r. unfold build, all_keys. rewrite in_flat_map. split.
  - intros (key & Hk & Hr). apply in_flat_map in Hk as (s & Hs & Hk).
    apply in_map_iff in Hk as ([key' v] & E & Hin). cbn in E. subst. eauto 6.
  - intros (s & key & v & Hs & Hin & Hr). exists key. split; [|exact Hr].
    apply in_flat_map. exists s. split; [exact Hs|]. apply in_map_iff. exists (key, v). auto.
Qed.

Definition matches (r : rule) (a b : glyph) : Prop :=
  ematch (fst (fst r)) a = true /\ ematch (snd (fst r)) b = true.

(* the general (non glyph-to-class) branch of emit_key *)
Definition emit_units (srcs : list source) (cc : bool) (x y : side) : list rule :=
  flat_map (fun u1 =>
    flat_map (fun u2 =>
      let vals := resolve_units srcs u1 u2 in
      if cc && all_zero vals then [] else [((u_emit u1, u_emit u2), vals)])
      (units_for Second srcs y))
    (units_for First srcs x).

Lemma emit_units_In : forall srcs cc x y r,
  In r (emit_units srcs cc x y) <->
  exists u1 u2, In u1 (units_for First srcs x) /\ In u2 (units_for Second srcs y) /\
                (cc && all_zero (resolve_units srcs u1 u2)) = false /\
                r = ((u_emit u1, u_emit u2), resolve_units srcs u1 u2).
Proof.
  intros srcs cc x y r. unfold emit_units. rewrite in_flat_map. split.
  - intros (u1 & H1 & H). apply in_flat_map in H as (u2 & H2 & H). cbn zeta in H.
    destruct (cc && all_zero (resolve_units srcs u1 u2)) eqn:Z; [contradiction|].
    destruct H as [<-|[]]. exists u1, u2. auto.
  - intros (u1 & u2 & H1 & H2 & Z & ->). exists u1. split; [exact H1|].
    apply in_flat_map. exists u2. split; [exact H2|]. cbn zeta. rewrite Z. left. reflexivity.
Qed.

Lemma emit_key_gg : forall srcs a b, emit_key srcs (SG a, SG b) = emit_units srcs false (SG a) (SG b).
Proof. reflexivity. Qed.
Lemma emit_key_cg : forall srcs g b, emit_key srcs (SC g, SG b) = emit_units srcs false (SC g) (SG b).
Proof. reflexivity. Qed.
Lemma emit_key_cc : forall srcs g h, emit_key srcs (SC g, SC h) = emit_units srcs true (SC g) (SC h).
Proof. reflexivity. Qed.

(* every emitted rule, by the key it comes from *)
Inductive origin (srcs : list source) (r : rule) : Prop :=
| o_gc : forall a h m, In m (union_members Second srcs h) ->
    r = ((EG a, EG m), map (fun s => lookup_kerning_value s (SG a, SG m)) srcs) -> origin srcs r
| o_gg : forall a b, r = ((EG a, EG b), map (fun s => lookup_kerning_value s (SG a, SG b)) srcs) -> origin srcs r
| o_cg : forall g b u1, In u1 (units_for First srcs (SC g)) ->
    r = ((u_emit u1, EG b), map (fun s => resolve1 s (name_at (u_names u1) s) (Some (SG b))) srcs) -> origin srcs r
| o_cc : forall g h u1 u2, In u1 (units_for First srcs (SC g)) -> In u2 (units_for Second srcs (SC h)) ->
    r = ((u_emit u1, u_emit u2),
         map (fun s => resolve1 s (name_at (u_names u1) s) (name_at (u_names u2) s)) srcs) -> origin srcs r.

Lemma build_origin : forall srcs r, In r (build srcs) -> origin srcs r.
Proof.
  intros srcs r H. apply build_In in H as (s & [x y] & v & Hs & Hin & Hr).
  destruct x as [a|g], y as [b|h].
  - rewrite emit_key_gg in Hr. apply emit_units_In in Hr as (u1 & u2 & H1 & H2 & _ & ->).
    cbn in H1, H2. destruct H1 as [<-|[]]. destruct H2 as [<-|[]]. eapply o_gg. reflexivity.
  - cbn [emit_key] in Hr. apply in_map_iff in Hr as (m & <- & Hm). eapply o_gc; [exact Hm | reflexivity].
  - rewrite emit_key_cg in Hr. apply emit_units_In in Hr as (u1 & u2 & H1 & H2 & _ & ->).
    cbn in H2. destruct H2 as [<-|[]]. eapply o_cg; [exact H1 | reflexivity].
  - rewrite emit_key_cc in Hr. apply emit_units_In in Hr as (u1 & u2 & H1 & H2 & _ & ->).
    eapply o_cc; [exact H1 | exact H2 | reflexivity].
Qed.

(* ---- soundness / completeness of a pair list -------------------------------- *)
Record sound (srcs : list source) (out : list rule) : Prop := {
  s_no1 : forall r, In r out -> kind r <> 1%N;
  s_gg : forall r a b, In r out -> kind r = 0%N -> matches r a b ->
         forall i s, nth_error srcs i = Some s -> nth i (snd r) 0 = ufo_value s a b;
  s_cg : forall r a b, In r out -> kind r = 2%N -> matches r a b ->
         forall i s, nth_error srcs i = Some s -> nth i (snd r) 0 = resolve1 s (eff First s a) (Some (SG b));
  s_cc : forall r a b, In r out -> kind r = 3%N -> matches r a b ->
         forall i s, nth_error srcs i = Some s ->
           nth i (snd r) 0 = resolve1 s (eff First s a) (eff Second s b);
  c_gg : forall a b, (forall r, In r out -> kind r = 0%N -> ~ matches r a b) ->
         forall s, In s srcs ->
           kget (kerns s) (SG a, SG b) = None /\
           forall h, grp Second s b = Some h -> kget (kerns s) (SG a, SC h) = None;
  c_cg : forall a b, (forall r, In r out -> kind r = 2%N -> ~ matches r a b) ->
         forall s, In s srcs -> forall g, grp First s a = Some g -> kget (kerns s) (SC g, SG b) = None;
  c_cc : forall a b, (forall r, In r out -> kind r = 3%N -> ~ matches r a b) ->
         forall s, In s srcs -> resolve1 s (eff First s a) (eff Second s b) == 0
}.

Lemma N_eqb_true : forall a b : N, N.eqb a b = true -> a = b.
Proof. intros a b H. apply N.eqb_eq. exact H. Qed.

Lemma kind_shape : forall e1 e2 v, kind ((e1, e2), v) =
  match e1, e2 with EG _, EG _ => 0 | EG _, EC _ => 1 | EC _, EG _ => 2 | EC _, EC _ => 3 end%N.
Proof. reflexivity. Qed.

Lemma all_zero_at : forall {A} (f : A -> Q) l x, all_zero (map f l) = true -> In x l -> f x == 0.
Proof.
  intros A f l x H Hin. unfold all_zero in H. rewrite forallb_forall in H.
  apply Qeq_bool_iff. apply H. apply in_map. exact Hin.
Qed.

Theorem build_sound : forall srcs, sound srcs (build srcs).
Proof.
  intro srcs. constructor.
  - (* no glyph-to-class rule is ever emitted *)
    intros r H. destruct (build_origin srcs r H) as [a h m _ ->|a b ->|g b u1 H1 ->|g h u1 u2 H1 H2 ->].
    + discriminate.
    + discriminate.
    + destruct (unit_class_shape _ _ _ _ H1) as (ms & ->). discriminate.
    + destruct (unit_class_shape _ _ _ _ H1) as (ms & ->). destruct (unit_class_shape _ _ _ _ H2) as (ms' & ->). discriminate.
  - (* glyph-glyph rules carry the full cascade *)
    intros r a b H K [M1 M2] i s Hi.
    destruct (build_origin srcs r H) as [a' h m _ ->|a' b' ->|g b' u1 H1 ->|g h u1 u2 H1 H2 ->].
    + cbn in M1, M2. apply N_eqb_true in M1, M2. subst. cbn [snd].
      rewrite (nth_map_some _ srcs i s Hi). apply lookup_gg.
    + cbn in M1, M2. apply N_eqb_true in M1, M2. subst. cbn [snd].
      rewrite (nth_map_some _ srcs i s Hi). apply lookup_gg.
    + destruct (unit_class_shape _ _ _ _ H1) as (ms & E). rewrite E in K. discriminate.
    + destruct (unit_class_shape _ _ _ _ H1) as (ms & E). rewrite E in K.
      destruct (unit_class_shape _ _ _ _ H2) as (ms' & E'). rewrite E' in K. discriminate.
  - (* class-glyph rules *)
    intros r a b H K [M1 M2] i s Hi.
    destruct (build_origin srcs r H) as [a' h m _ ->|a' b' ->|g b' u1 H1 ->|g h u1 u2 H1 H2 ->].
    + discriminate.
    + discriminate.
    + cbn [fst snd] in M1, M2. cbn in M2. apply N_eqb_true in M2. subst b'. cbn [snd].
      rewrite (nth_map_some _ srcs i s Hi).
      apply (unit_first srcs g u1 a H1 M1 s (nth_error_In _ _ Hi)).
    + destruct (unit_class_shape _ _ _ _ H1) as (ms & E). rewrite E in K.
      destruct (unit_class_shape _ _ _ _ H2) as (ms' & E'). rewrite E' in K. discriminate.
  - (* class-class rules *)
    intros r a b H K [M1 M2] i s Hi.
    destruct (build_origin srcs r H) as [a' h m _ ->|a' b' ->|g b' u1 H1 ->|g h u1 u2 H1 H2 ->].
    + discriminate.
    + discriminate.
    + destruct (unit_class_shape _ _ _ _ H1) as (ms & E). rewrite E in K. discriminate.
    + cbn [fst snd] in M1, M2. cbn [snd].
      rewrite (nth_map_some _ srcs i s Hi).
      pose proof (nth_error_In _ _ Hi) as Hs.
      rewrite (unit_first srcs g u1 a H1 M1 s Hs).
      apply (unit_second srcs h u2 b H2 M2 s Hs).
  - (* a glyph pair no glyph-glyph rule covers has no glyph-glyph and no glyph-class key anywhere *)
    intros a b No s Hs. split.
    + destruct (kget (kerns s) (SG a, SG b)) as [v|] eqn:E; [|reflexivity]. exfalso.
      apply kget_In in E.
      apply (No ((EG a, EG b), map (fun s => lookup_kerning_value s (SG a, SG b)) srcs)).
      * apply build_In. exists s, (SG a, SG b), v. split; [exact Hs|]. split; [exact E|].
        rewrite emit_key_gg. apply emit_units_In.
        exists (mkUnit (Uniform (SG a)) (EG a)), (mkUnit (Uniform (SG b)) (EG b)).
        split; [left; reflexivity|]. split; [left; reflexivity|]. split; reflexivity.
      * reflexivity.
      * split; cbn; apply N.eqb_refl.
    + intros h Hh. destruct (kget (kerns s) (SG a, SC h)) as [v|] eqn:E; [|reflexivity]. exfalso.
      apply kget_In in E.
      apply (No ((EG a, EG b), map (fun s => lookup_kerning_value s (SG a, SG b)) srcs)).
      * apply build_In. exists s, (SG a, SC h), v. split; [exact Hs|]. split; [exact E|].
        cbn [emit_key]. apply in_map_iff. exists b. split; [reflexivity|].
        apply union_In. exists s. auto.
      * reflexivity.
      * split; cbn; apply N.eqb_refl.
  - (* no class-glyph rule covers (a, b): a's group has no key against b, in any source *)
    intros a b No s Hs g Hg. destruct (kget (kerns s) (SC g, SG b)) as [v|] eqn:E; [|reflexivity]. exfalso.
    apply kget_In in E.
    assert (Ha : In a (union_members First srcs g)) by (apply union_In; exists s; auto).
    destruct (unit_exists First srcs g a Ha) as (u1 & Hu1 & Hm).
    destruct (unit_class_shape _ _ _ _ Hu1) as (ms & Ems).
    apply (No ((u_emit u1, EG b), resolve_units srcs u1 (mkUnit (Uniform (SG b)) (EG b)))).
    + apply build_In. exists s, (SC g, SG b), v. split; [exact Hs|]. split; [exact E|].
      rewrite emit_key_cg. apply emit_units_In. exists u1, (mkUnit (Uniform (SG b)) (EG b)).
      split; [exact Hu1|]. split; [left; reflexivity|]. split; reflexivity.
    + rewrite Ems. reflexivity.
    + split; [exact Hm | cbn; apply N.eqb_refl].
  - (* no class-class rule covers (a, b): the class-class value is zero in every source *)
    intros a b No s Hs. rewrite resolve1_cc_value.
    destruct (grp First s a) as [g|] eqn:Eg; [|reflexivity].
    destruct (grp Second s b) as [h|] eqn:Eh; [|reflexivity].
    destruct (kget (kerns s) (SC g, SC h)) as [v|] eqn:E; [|reflexivity].
    assert (Ha : In a (union_members First srcs g)) by (apply union_In; exists s; auto).
    assert (Hb : In b (union_members Second srcs h)) by (apply union_In; exists s; auto).
    destruct (unit_exists First srcs g a Ha) as (u1 & Hu1 & Hm1).
    destruct (unit_exists Second srcs h b Hb) as (u2 & Hu2 & Hm2).
    destruct (unit_class_shape _ _ _ _ Hu1) as (ms1 & E1).
    destruct (unit_class_shape _ _ _ _ Hu2) as (ms2 & E2).
    assert (V : resolve1 s (name_at (u_names u1) s) (name_at (u_names u2) s) = v).
    { rewrite (unit_first srcs g u1 a Hu1 Hm1 s Hs), (unit_second srcs h u2 b Hu2 Hm2 s Hs).
      rewrite resolve1_cc_value, Eg, Eh, E. reflexivity. }
    destruct (all_zero (resolve_units srcs u1 u2)) eqn:Z.
    + rewrite resolve_units_eq in Z. rewrite <- V.
      exact (all_zero_at _ srcs s Z Hs).
    + exfalso. apply kget_In in E.
      apply (No ((u_emit u1, u_emit u2), resolve_units srcs u1 u2)).
      * apply build_In. exists s, (SC g, SC h), v. split; [exact Hs|]. split; [exact E|].
        rewrite emit_key_cc. apply emit_units_In. exists u1, u2.
        split; [exact Hu1|]. split; [exact Hu2|]. split; [rewrite Z; reflexivity | reflexivity].
      * rewrite E1, E2. reflexivity.
      * split; assumption.
Qed.

(* ---- from soundness to the cascade ------------------------------------------ *)
Lemma hits_In : forall k out a b r,
  In r (hits k out a b) <-> In r out /\ kind r = k /\ matches r a b.
Proof.
  intros k out a b r. unfold hits, matches. rewrite filter_In, !andb_true_iff, N.eqb_eq. tauto.
Qed.

Lemma hits_nil : forall k out a b, hits k out a b = [] ->
  forall r, In r out -> kind r = k -> ~ matches r a b.
Proof.
  intros k out a b H r Hin K M. assert (In r (hits k out a b)) by (apply hits_In; auto).
  rewrite H in H0. exact H0.
Qed.

Lemma hits1_nil : forall srcs out a b, sound srcs out -> hits 1 out a b = [].
Proof.
  intros srcs out a b S. destruct (hits 1 out a b) as [|r l] eqn:E; [reflexivity|]. exfalso.
  assert (In r (hits 1 out a b)) by (rewrite E; left; reflexivity).
  apply hits_In in H as (Hin & K & _). exact (s_no1 _ _ S r Hin K).
Qed.

(* every rule of the most specific kind that covers (a, b) carries, at every
   source, the value that source's own cascade gives *)
Theorem best_hits_sound : forall srcs out, sound srcs out ->
  forall a b r, In r (best_hits out a b) ->
  forall i s, nth_error srcs i = Some s -> nth i (snd r) 0 = ufo_value s a b.
Proof.
  intros srcs out S a b r Hr i s Hi. pose proof (nth_error_In _ _ Hi) as Hs. unfold best_hits in Hr.
  rewrite (hits1_nil srcs out a b S) in Hr.
  destruct (hits 0 out a b) as [|r0 l0] eqn:H0.
  - destruct (c_gg _ _ S a b (hits_nil _ _ _ _ H0) s Hs) as [G1 G2].
    destruct (hits 2 out a b) as [|r2 l2] eqn:H2.
    + pose proof (c_cg _ _ S a b (hits_nil _ _ _ _ H2) s Hs) as G3.
      apply hits_In in Hr as (Hin & K & M).
      rewrite (s_cc _ _ S r a b Hin K M i s Hi). symmetry. apply ufo_cc_form; assumption.
    + assert (Hr' : In r (hits 2 out a b)) by (rewrite H2; exact Hr).
      apply hits_In in Hr' as (Hin & K & M).
      rewrite (s_cg _ _ S r a b Hin K M i s Hi). symmetry. apply ufo_cg_form; assumption.
  - assert (Hr' : In r (hits 0 out a b)) by (rewrite H0; exact Hr).
    apply hits_In in Hr' as (Hin & K & M).
    exact (s_gg _ _ S r a b Hin K M i s Hi).
Qed.

(* ... and when no rule at all covers (a, b), every source's cascade gives zero *)
Theorem best_hits_complete : forall srcs out, sound srcs out ->
  forall a b, best_hits out a b = [] -> forall s, In s srcs -> ufo_value s a b == 0.
Proof.
  intros srcs out S a b H s Hs. unfold best_hits in H.
  destruct (hits 0 out a b) as [|r0 l0] eqn:H0; [|discriminate].
  rewrite (hits1_nil srcs out a b S) in H.
  destruct (hits 2 out a b) as [|r2 l2] eqn:H2; [|discriminate].
  destruct (c_gg _ _ S a b (hits_nil _ _ _ _ H0) s Hs) as [G1 G2].
  pose proof (c_cg _ _ S a b (hits_nil _ _ _ _ H2) s Hs) as G3.
  rewrite (ufo_cc_form s a b G1 G2 G3).
  exact (c_cc _ _ S a b (hits_nil _ _ _ _ H) s Hs).
Qed.

Theorem cascade_of_sound : forall srcs out, sound srcs out ->
  forall a b i s, nth_error srcs i = Some s ->
    value_at (font_values (length srcs) out a b) i == ufo_value s a b.
Proof.
  intros srcs out S a b i s Hi. unfold value_at, font_values.
  destruct (best_hits out a b) as [|r l] eqn:B.
  - rewrite nth_zeros. symmetry.
    exact (best_hits_complete srcs out S a b B s (nth_error_In _ _ Hi)).
  - cbn [snd]. assert (Hr : In r (best_hits out a b)) by (rewrite B; left; reflexivity).
    rewrite (best_hits_sound srcs out S a b r Hr i s Hi). reflexivity.
Qed.

(* colliding inserts carry equal values: two emitted rules whose sides hold the
   same glyphs (in particular: the same key) agree at every source *)
Theorem collisions_agree : forall srcs out, sound srcs out ->
  forall r r' a b, In r out -> In r' out -> kind r = kind r' -> matches r a b -> matches r' a b ->
  forall i s, nth_error srcs i = Some s -> nth i (snd r) 0 = nth i (snd r') 0.
Proof.
  intros srcs out S r r' a b Hr Hr' K M M' i s Hi.
  destruct (N.eq_dec (kind r) 0) as [K0|K0].
  { rewrite (s_gg _ _ S r a b Hr K0 M i s Hi). rewrite K0 in K.
    rewrite (s_gg _ _ S r' a b Hr' (eq_sym K) M' i s Hi). reflexivity. }
  destruct (N.eq_dec (kind r) 2) as [K2|K2].
  { rewrite (s_cg _ _ S r a b Hr K2 M i s Hi). rewrite K2 in K.
    rewrite (s_cg _ _ S r' a b Hr' (eq_sym K) M' i s Hi). reflexivity. }
  destruct (N.eq_dec (kind r) 3) as [K3|K3].
  { rewrite (s_cc _ _ S r a b Hr K3 M i s Hi). rewrite K3 in K.
    rewrite (s_cc _ _ S r' a b Hr' (eq_sym K) M' i s Hi). reflexivity. }
  exfalso. pose proof (s_no1 _ _ S r Hr) as K1.
  destruct r as [[e1 e2] v]. rewrite kind_shape in *. destruct e1, e2; congruence.
Qed.

(* every emitted rule carries one value per source *)
Lemma build_rule_len : forall srcs r, In r (build srcs) -> length (snd r) = length srcs.
Proof.
  intros srcs r H.
  destruct (build_origin srcs r H) as [a h m _ ->|a b ->|g b u1 H1 ->|g h u1 u2 H1 H2 ->];
    cbn [snd]; apply map_length.
Qed.

