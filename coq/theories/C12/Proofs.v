(* C12 — the lemmas behind Props.v: the kurbo::Affine instance satisfies the
   laws the generic proofs use; the whole of GlyphOrderWork::exec keeps every
   glyph's look; concrete witnesses. *)
From Coq Require Import List Permutation Arith Lia Bool NArith ZArith QArith Qcanon.
From FV.C12 Require Import Model Ceq Sem Ops Pipeline.
Import ListNotations.
Close Scope Qc_scope.
Close Scope Q_scope.

(* ---- kurbo::Affine over exact rationals ------------------------------------------ *)
Lemma aff_act_mul a b p : aff_act (aff_mul a b) p = aff_act a (aff_act b p).
Proof. destruct p as [x y]. unfold aff_act, aff_mul; simpl. f_equal; ring. Qed.
Lemma aff_act_id p : aff_act aff_id p = p.
Proof. destruct p as [x y]. unfold aff_act, aff_id; simpl. f_equal; ring. Qed.
Lemma aff_det_mul a b : aff_det (aff_mul a b) = (aff_det a * aff_det b)%Qc.
Proof. unfold aff_det, aff_mul; simpl. ring. Qed.

Lemma aff_eqb_eq a b : aff_eqb a b = true -> a = b.
Proof.
  unfold aff_eqb. intro H. repeat (apply andb_true_iff in H as (H & ?)).
  destruct a, b; simpl in *.
  repeat match goal with E : Qc_eq_bool _ _ = true |- _ => apply Qc_eq_bool_correct in E end.
  match goal with E : Bool.eqb _ _ = true |- _ => apply Bool.eqb_prop in E end.
  congruence.
Qed.
Lemma Qc_eq_bool_refl x : Qc_eq_bool x x = true.
Proof. unfold Qc_eq_bool. destruct (Qc_eq_dec x x); congruence. Qed.
Lemma aff_eqb_refl a : aff_eqb a a = true.
Proof. unfold aff_eqb. rewrite !Qc_eq_bool_refl, Bool.eqb_reflx. reflexivity. Qed.

(* ---- ranks --------------------------------------------------------------------------- *)
Section Whole.
  Variables P T : Type.
  Variable tmul : T -> T -> T.
  Variable tid : T.
  Variable act : T -> P -> P.
  Variables tneg tovf tnonid tvary : T -> bool.
  Variable teqb : T -> T -> bool.
  Hypothesis act_mul : forall a b p, act (tmul a b) p = act a (act b p).
  Hypothesis act_id : forall p, act tid p = p.

  Notation font := (font P T).
  Notation process := (process P T tmul tid act tneg tovf tnonid tvary teqb).

  (* a source: acyclic component graph, no dangling references, no glyph under
     a derived name *)
  Definition source_ok (F0 : font) : Prop :=
    (exists r, wf r F0) /\ closed F0 /\ (forall id i, F0 (Der id i) = None).

  Definition lift (r : name -> nat) (n : name) : nat := match n with Src _ => S (r n) | Der _ _ => 0 end.
  Lemma lift_wf r (F0 : font) : wf r F0 -> (forall id i, F0 (Der id i) = None) -> wf (lift r) F0.
  Proof.
    intros Hwf Hder n g Hn c t Hin. destruct n as [x|x i]; [|rewrite Hder in Hn; discriminate].
    specialize (Hwf _ _ Hn c t Hin). destruct c; simpl; lia.
  Qed.
  Lemma lift_low r (F0 : font) : (forall id i, F0 (Der id i) = None) ->
    forall id i n, F0 n <> None -> lift r (Der id i) < lift r n.
  Proof. intros Hder id i n Hn. destruct n as [x|x j]; [simpl; lia|rewrite Hder in Hn; congruence]. Qed.

  Lemma process_keeps (F0 : font) fuel fl all order s :
    source_ok F0 -> process fuel fl F0 all order = Some s -> st_lossy s = false ->
    forall n g0, F0 n = Some g0 ->
      (exists g, st_font s n = Some g /\ g_adv g = g_adv g0 /\ g_export g = g_export g0)
      /\ (forall cs, res act F0 n cs -> exists cs', res act (st_font s) n cs' /\ ceqs cs cs').
  Proof.
    intros ((r & Hwf) & Hc & Hder) H Hl n g0 Hn.
    pose proof (process_good P T tmul tid act tneg tovf tnonid tvary teqb act_mul act_id (lift r) F0
                  (lift_wf r F0 Hwf Hder) Hder (lift_low r F0 Hder) fuel fl all order s Hc H Hl) as G.
    destruct G as [_ I _ _]. split.
    - apply (inv_meta P T act (lift r) F0 (st_font s) I n g0 Hn).
    - apply (inv_look P T act (lift r) F0 (st_font s) I n). congruence.
  Qed.

  Lemma process_options_agree (F0 : font) fuel fl1 fl2 all order s1 s2 :
    source_ok F0 ->
    process fuel fl1 F0 all order = Some s1 -> st_lossy s1 = false ->
    process fuel fl2 F0 all order = Some s2 -> st_lossy s2 = false ->
    forall n g0, F0 n = Some g0 ->
      (exists g1 g2, st_font s1 n = Some g1 /\ st_font s2 n = Some g2 /\ g_adv g1 = g_adv g2)
      /\ (forall cs1, res act (st_font s1) n cs1 -> exists cs2, res act (st_font s2) n cs2 /\ ceqs cs1 cs2).
  Proof.
    intros Hok H1 L1 H2 L2 n g0 Hn.
    destruct (process_keeps F0 fuel fl1 all order s1 Hok H1 L1 n g0 Hn) as ((g1 & Hg1 & Ha1 & _) & K1).
    destruct (process_keeps F0 fuel fl2 all order s2 Hok H2 L2 n g0 Hn) as ((g2 & Hg2 & Ha2 & _) & K2).
    split; [exists g1, g2; repeat split; auto; congruence|].
    intros cs1 Hcs1. destruct Hok as ((r & Hwf) & _).
    destruct (res_total P T act r F0 Hwf n) as (cs0 & H0).
    destruct (K1 cs0 H0) as (cs1' & Hr1 & E1). rewrite (res_fun P T act _ n cs1 cs1' Hcs1 Hr1).
    destruct (K2 cs0 H0) as (cs2 & Hr2 & E2). exists cs2; split; auto.
    eapply ceqs_trans; [apply ceqs_sym; exact E1|exact E2].
  Qed.
End Whole.

(* ---- concrete witnesses ------------------------------------------------------------- *)
Definition qz (z : Z) : Qc := Q2Qc (inject_Z z).
Definition qq (n : Z) (d : positive) : Qc := Q2Qc (n # d).
Definition scale (s : Qc) : aff := mkAff s (qz 0) (qz 0) s (qz 0) (qz 0) false.
Definition shift (s : Qc) (x y : Z) : aff := mkAff s (qz 0) (qz 0) s (qz x) (qz y) false.
Definition square : list pt := [(qz 0, qz 0); (qz 100, qz 0); (qz 100, qz 100); (qz 0, qz 100)].
Definition mk (cs : list (list pt)) (comps : list (name * aff)) (ex : bool) : qglyph :=
  glyph_new pt aff aff_ovf cs comps 500 ex.

(* a nested, transformed, mixed, partly non-exported source *)
Definition ex_font : qfont :=
  font_of [ (Src 0, mk [square] [] true);
            (Src 1, mk [] [(Src 0, shift (qq 3 2) 10 0)] false);
            (Src 2, mk [square] [(Src 1, shift (qz (-1)) 300 0); (Src 0, scale (qq 1 2))] true);
            (Src 3, mk [] [(Src 2, shift (qz 1) 0 50); (Src 1, scale (qz 1))] true) ].
Definition ex_names : list name := [Src 0; Src 1; Src 2; Src 3].
Definition ex_rank (n : name) : nat := match n with Src x => N.to_nat x | Der _ _ => 0 end.

(* a decidable sufficient condition for source_ok on a font given as a list *)
Definition src_check {P T} (r : name -> nat) (l : list (name * glyph P T)) : bool :=
  forallb (fun ng => match fst ng with Src _ => true | Der _ _ => false end
                     && forallb (fun ct => (r (fst ct) <? r (fst ng))
                                           && match font_of l (fst ct) with Some _ => true | None => false end)
                                (g_comps (snd ng))) l.

Lemma font_of_in {P T} (l : list (name * glyph P T)) n g : font_of l n = Some g -> In (n, g) l.
Proof.
  induction l as [|[m h] t IH]; simpl; [discriminate|].
  destruct (name_eqb n m) eqn:E; intro H.
  - apply name_eqb_eq in E. inversion H; subst. now left.
  - right; auto.
Qed.

Lemma src_check_ok {P T} r (l : list (name * glyph P T)) : src_check r l = true -> source_ok P T (font_of l).
Proof.
  intro H. unfold src_check in H. rewrite forallb_forall in H.
  split; [exists r|split].
  - intros n g Hn c t Hin. apply font_of_in in Hn. specialize (H _ Hn). simpl in H.
    apply andb_true_iff in H as (_ & H). rewrite forallb_forall in H. specialize (H _ Hin). simpl in H.
    apply andb_true_iff in H as (H & _). now apply Nat.ltb_lt in H.
  - intros n g Hn c t Hin. apply font_of_in in Hn. specialize (H _ Hn). simpl in H.
    apply andb_true_iff in H as (_ & H). rewrite forallb_forall in H. specialize (H _ Hin). simpl in H.
    apply andb_true_iff in H as (_ & H). destruct (font_of l c); congruence.
  - intros id i. destruct (font_of l (Der id i)) as [g|] eqn:E; auto.
    apply font_of_in in E. specialize (H _ E). simpl in H. discriminate.
Qed.

Definition ex_list : list (name * qglyph) :=
  [ (Src 0, mk [square] [] true);
    (Src 1, mk [] [(Src 0, shift (qq 3 2) 10 0)] false);
    (Src 2, mk [square] [(Src 1, shift (qz (-1)) 300 0); (Src 0, scale (qq 1 2))] true);
    (Src 3, mk [] [(Src 2, shift (qz 1) 0 50); (Src 1, scale (qz 1))] true) ].
Lemma ex_font_ok : source_ok pt aff ex_font.
Proof. apply (src_check_ok ex_rank ex_list). vm_compute. reflexivity. Qed.

(* two parents reach the same base under the same accumulated transform at the
   same position: the visited set of convert_components_to_contours drops the
   second instance *)
Definition dup_font : qfont :=
  font_of [ (Src 0, mk [square] [] true);
            (Src 1, mk [] [(Src 0, scale (qz 1)); (Src 0, shift (qz 1) 200 0)] true);
            (Src 2, mk [] [(Src 1, scale (qq 1 2)); (Src 1, scale (qq 1 2))] true) ].

(* c = 1.5 b, b = 1.5 a *)
Definition ovf_font : qfont :=
  font_of [ (Src 0, mk [square] [] true);
            (Src 1, mk [] [(Src 0, scale (qq 3 2))] true);
            (Src 2, mk [] [(Src 1, scale (qq 3 2))] true) ].
