(* C12 — after GlyphOrderWork::exec no glyph of the final glyph order keeps a
   component whose 2x2 leaves the F2Dot14 range [-2,2]: glyphs whose own
   components overflow are decomposed by the fixing loop, flattening re-tests the
   composed transforms (the repair of the flatten overflow), the other rewrites
   create no new 2x2.  So the backend's saturating F2Dot14 conversion is never
   reached with an out-of-range value, under any option subset. *)
From Coq Require Import List Arith Lia Bool NArith QArith.
From FV.C12 Require Import Model Sem.
Import ListNotations.
Close Scope Q_scope.

Section Range.
  Variables P T : Type.
  Variable tmul : T -> T -> T.
  Variable tid : T.
  Variable act : T -> P -> P.
  Variables tneg tovf tnonid tvary : T -> bool.
  Variable teqb : T -> T -> bool.
  (* the identity is in range *)
  Hypothesis tovf_id : tovf tid = false.

  Notation glyph := (glyph P T).
  Notation font := (font P T).
  Notation st := (st P T).
  Notation upd := (upd P T).
  Notation glyph_new := (glyph_new P T tovf).
  Notation decompose := (decompose P T tmul tid act tneg tovf teqb).
  Notation flatten_glyph := (flatten_glyph P T tmul tid act tneg tovf teqb).
  Notation apply_convert := (apply_convert P T tmul tid act tneg tovf teqb).
  Notation apply_move := (apply_move P T tid tovf).
  Notation fix_loop := (fix_loop P T tmul tid act tneg tovf teqb).
  Notation drop_unretained := (drop_unretained P T tmul tid act tneg tovf teqb).
  Notation convert_if := (convert_if P T tmul tid act tneg tovf teqb).
  Notation flatten_step := (flatten_step P T tmul tid act tneg tovf teqb).
  Notation optional_transforms := (optional_transforms P T tmul tid act tneg tovf tnonid teqb).
  Notation inline_step := (inline_step P T tmul act tneg tovf).
  Notation inline_all := (inline_all P T tmul act tneg tovf).
  Notation process := (process P T tmul tid act tneg tovf tnonid tvary teqb).
  Notation todo_of := (todo_of P T tvary).
  Notation classify := (classify P T tvary).

  Definition comps_ok (g : glyph) : Prop := forall c t, In (c, t) (g_comps g) -> tovf t = false.
  (* has_overflowing_2x2_transforms says what it should *)
  Definition accurate (g : glyph) : Prop := g_ovf g = existsb (fun ct => tovf (snd ct)) (g_comps g).
  Definition acc (F : font) : Prop := forall n g, F n = Some g -> accurate g.

  Lemma accurate_ok g : accurate g -> g_ovf g = false -> comps_ok g.
  Proof.
    unfold accurate. intros -> H c t Hin.
    destruct (tovf t) eqn:E; auto.
    assert (existsb (fun ct => tovf (snd ct)) (g_comps g) = true); [|congruence].
    apply existsb_exists. exists (c, t); auto.
  Qed.
  Lemma glyph_new_accurate cs comps adv ex : accurate (glyph_new cs comps adv ex).
  Proof. reflexivity. Qed.
  Lemma nocomps_ok (g : glyph) : g_comps g = [] -> comps_ok g.
  Proof. intros H c t Hin. rewrite H in Hin. contradiction. Qed.

  Lemma decompose_nocomps fuel F g g' d : decompose fuel F g = Some (g', d) -> g_comps g' = [].
  Proof.
    unfold Model.decompose. destruct (bfs _ _ _ _ _ _ _ _ _ _ _ _) as [[k d0]|]; [|discriminate].
    intro H; inversion H; reflexivity.
  Qed.

  Lemma flatten_glyph_ok fuel F g g' d : comps_ok g -> flatten_glyph fuel F g = Some (g', d) -> comps_ok g'.
  Proof.
    intros Hg H. unfold Model.flatten_glyph in H. destruct (g_comps g) as [|p l] eqn:E.
    - inversion H; subst; auto.
    - destruct (flat _ _ _ _ _ _ _ _) as [[s lost]|]; [|discriminate].
      destruct (g_ovf (glyph_new (g_contours g) s (g_adv g) (g_export g))) eqn:Eo.
      + destruct (decompose fuel F _) as [[g2 dup]|] eqn:Ed; [|discriminate].
        inversion H; subst. apply nocomps_ok. eapply decompose_nocomps; eauto.
      + inversion H; subst. apply accurate_ok; auto. apply glyph_new_accurate.
  Qed.

  (* ---- the state invariant ----------------------------------------------------- *)
  (* every glyph of the glyph order is in range, or still waits to be decomposed *)
  Definition rng (s : st) (todo : list (gop * name * glyph)) : Prop :=
    forall n g, In n (st_order s) -> st_font s n = Some g ->
      comps_ok g \/ exists g', In (OpConvert, n, g') todo.
  Definition moves_ok (todo : list (gop * name * glyph)) : Prop :=
    forall n g, In (OpMove, n, g) todo -> comps_ok g.

  Lemma rng_weaken s todo todo' :
    rng s todo -> (forall x, In x todo -> In x todo') -> rng s todo'.
  Proof. intros H Hi n g Hn Hg. destruct (H n g Hn Hg) as [Hok|(g' & Hin)]; eauto. Qed.

  Lemma apply_convert_rng fuel s n g s' todo :
    rng s ((OpConvert, n, g) :: todo) \/ rng s todo ->
    apply_convert fuel s n g = Some s' -> rng s' todo.
  Proof.
    intros H Hs. unfold Model.apply_convert in Hs.
    destruct (decompose fuel (st_font s) g) as [[g' d]|] eqn:E; [|discriminate].
    inversion Hs; subst; simpl. intros m gm Hm Hgm; simpl in *.
    destruct (name_eqb m n) eqn:Em.
    - apply name_eqb_eq in Em; subst. rewrite upd_same in Hgm. inversion Hgm; subst.
      left. apply nocomps_ok. eapply decompose_nocomps; eauto.
    - apply name_eqb_neq in Em. rewrite upd_other in Hgm; auto.
      destruct H as [H|H].
      + destruct (H m gm Hm Hgm) as [Hok|(g'' & [Heq|Hin])]; eauto. inversion Heq; congruence.
      + destruct (H m gm Hm Hgm) as [Hok|(g'' & Hin)]; eauto.
  Qed.

  Lemma apply_move_rng fuel s n g s' todo :
    rng s ((OpMove, n, g) :: todo) -> comps_ok g -> apply_move fuel s n g = Some s' -> rng s' todo.
  Proof.
    intros H Hg Hs. unfold Model.apply_move in Hs.
    destruct (name_for_derivative fuel n (st_order s) 0) as [nf|]; [|discriminate].
    inversion Hs; subst; simpl. intros m gm Hm Hgm; simpl in *.
    destruct (name_eqb m n) eqn:Em.
    - apply name_eqb_eq in Em; subst. rewrite upd_same in Hgm. inversion Hgm; subst. left.
      intros c t Hin. simpl in Hin. apply in_app_or in Hin as [Hin|[Heq|[]]]; [eauto|].
      inversion Heq; subst; auto.
    - apply name_eqb_neq in Em. rewrite upd_other in Hgm; auto.
      destruct (name_eqb m nf) eqn:Ef.
      + apply name_eqb_eq in Ef; subst. rewrite upd_same in Hgm. inversion Hgm; subst. left. apply nocomps_ok. reflexivity.
      + apply name_eqb_neq in Ef. rewrite upd_other in Hgm; auto.
        apply in_app_or in Hm as [Hm|[Heq|[]]]; [|congruence].
        destruct (H m gm Hm Hgm) as [Hok|(g'' & [Heq|Hin])]; eauto. inversion Heq.
  Qed.

  Lemma fix_loop_rng fuel ifuel : forall s todo pending s',
    rng s todo -> moves_ok todo -> fix_loop fuel ifuel s todo pending = Some s' -> rng s' [].
  Proof.
    induction fuel as [|fuel IH]; intros s todo pending s' R M H; [discriminate|].
    cbn [Model.fix_loop] in H. destruct todo as [|[[op n] g] rest].
    - inversion H; subst; auto.
    - destruct (reaches_pending P T ifuel (st_font s) pending (map fst (g_comps g))) as [[|]|]; [| |discriminate].
      + eapply IH; [| |exact H].
        * eapply rng_weaken; [exact R|]. intros x [<-|Hx]; apply in_or_app; [right; now left|now left].
        * intros m gm Hin. apply in_app_or in Hin as [Hin|[Heq|[]]]; [eapply M; right; eauto|].
          eapply M; left; eauto.
      + assert (moves_ok rest) as M' by (intros m gm Hin; eapply M; right; eauto).
        destruct op.
        * destruct (apply_convert ifuel s n g) as [s1|] eqn:E1; [|discriminate].
          eapply IH; [|exact M'|exact H]. eapply apply_convert_rng; eauto.
        * destruct (apply_move ifuel s n g) as [s1|] eqn:E1; [|discriminate].
          eapply IH; [|exact M'|exact H]. eapply apply_move_rng; eauto. eapply M; left; eauto.
  Qed.

  Lemma fold_opt_rng (f : st -> name -> option st) todo l :
    (forall s n s', rng s todo -> f s n = Some s' -> rng s' todo) ->
    forall s s', rng s todo -> fold_opt f l s = Some s' -> rng s' todo.
  Proof.
    intro Hf. induction l as [|n t IH]; intros s s' R H; simpl in H; [inversion H; subst; auto|].
    destruct (f s n) as [s1|] eqn:E; [|discriminate]. eauto.
  Qed.

  Lemma convert_if_rng fuel p s n s' todo : rng s todo -> convert_if fuel p s n = Some s' -> rng s' todo.
  Proof.
    unfold Model.convert_if. intros R H. destruct (st_font s n) as [g|]; [|discriminate].
    destruct (p g); [eapply apply_convert_rng; eauto|inversion H; subst; auto].
  Qed.
  Lemma drop_unretained_rng fuel s n s' todo : rng s todo -> drop_unretained fuel s n = Some s' -> rng s' todo.
  Proof.
    unfold Model.drop_unretained. intros R H. destruct (st_font s n) as [g|]; [|discriminate].
    destruct (existsb _ _); [eapply apply_convert_rng; eauto|inversion H; subst; auto].
  Qed.
  Lemma flatten_step_rng fuel s n s' : rng s [] -> flatten_step fuel s n = Some s' -> rng s' [].
  Proof.
    unfold Model.flatten_step. intros R H. destruct (st_font s n) as [g|] eqn:Eg; [|discriminate].
    destruct (flatten_glyph fuel (st_font s) g) as [[g' d]|] eqn:Ef; [|discriminate].
    inversion H; subst; simpl. intros m gm Hm Hgm; simpl in *. left.
    destruct (name_eqb m n) eqn:Em.
    - apply name_eqb_eq in Em; subst. rewrite upd_same in Hgm. inversion Hgm; subst.
      (* the glyph before flattening need not be in range for the result to be *)
      clear -Ef. unfold Model.flatten_glyph in Ef. destruct (g_comps g) as [|p l] eqn:E.
      + inversion Ef; subst. apply nocomps_ok; auto.
      + destruct (flat _ _ _ _ _ _ _ _) as [[s0 lost]|]; [|discriminate].
        destruct (g_ovf (glyph_new (g_contours g) s0 (g_adv g) (g_export g))) eqn:Eo.
        * destruct (decompose fuel (st_font s) _) as [[g2 dup]|] eqn:Ed; [|discriminate].
          inversion Ef; subst. apply nocomps_ok. eapply decompose_nocomps; eauto.
        * inversion Ef; subst. apply accurate_ok; auto. apply glyph_new_accurate.
    - apply name_eqb_neq in Em. rewrite upd_other in Hgm; auto.
      destruct (R m gm Hm Hgm) as [Hok|(g'' & [])]; auto.
  Qed.

  Lemma optional_transforms_rng fuel fl s s' : rng s [] -> optional_transforms fuel fl s = Some s' -> rng s' [].
  Proof.
    unfold Model.optional_transforms. intros R H.
    assert (forall p l s0 s1, rng s0 [] -> fold_opt (convert_if fuel p) l s0 = Some s1 -> rng s1 []) as Hc.
    { intros p l. apply fold_opt_rng. intros; eapply convert_if_rng; eauto. }
    assert (forall l s0 s1, rng s0 [] -> fold_opt (flatten_step fuel) l s0 = Some s1 -> rng s1 []) as Hf.
    { intros l. apply fold_opt_rng. intros; eapply flatten_step_rng; eauto. }
    destruct (fl_decompose fl); [eauto|].
    destruct (fl_decompose_tr fl).
    - destruct (fold_opt _ (st_order s) s) as [s1|] eqn:E1; [|discriminate].
      destruct (fl_flatten fl); [eauto|inversion H; subst; eauto].
    - destruct (fl_flatten fl); [eauto|inversion H; subst; auto].
  Qed.

  (* ---- the work list covers every glyph whose flag is set ------------------------- *)
  Lemma todo_of_convert fl (F : font) order n g :
    In n order -> F n = Some g -> g_ovf g = true -> In (OpConvert, n, g) (todo_of fl F order).
  Proof.
    intros Hin Hg Ho. induction order as [|m t IH]; [contradiction|]. simpl.
    destruct Hin as [->|Hin].
    - rewrite Hg. unfold Model.classify. rewrite Ho.
      destruct (negb (has_consistent_components P T tvary g)); now left.
    - destruct (F m) as [gm|]; [|auto]. destruct (classify fl gm); [right|]; auto.
  Qed.
  Lemma todo_of_moves fl (F : font) order : acc F -> moves_ok (todo_of fl F order).
  Proof.
    intros Ha. induction order as [|m t IH]; intros n g Hin; simpl in Hin; [contradiction|].
    destruct (F m) as [gm|] eqn:Em; [|eauto].
    destruct (classify fl gm) as [op|] eqn:Ec; [|eauto].
    destruct Hin as [Heq|Hin]; [|eauto]. inversion Heq; subst.
    apply accurate_ok; [eapply Ha; eauto|].
    unfold Model.classify in Ec. destruct (negb _); [discriminate|].
    destruct (g_ovf g); [discriminate|reflexivity].
  Qed.

  (* ---- flags stay accurate up to the work list ------------------------------------ *)
  Lemma filter_all' {A} (f : A -> bool) l : (forall x, In x l -> f x = true) -> filter f l = l.
  Proof.
    induction l as [|a l IH]; intro H; simpl; auto.
    rewrite (H a (or_introl eq_refl)). f_equal. apply IH. intros; apply H; now right.
  Qed.
  Lemma prune_acc (F0 : font) all : closed F0 -> acc F0 -> acc (prune P T F0 all).
  Proof.
    intros Hc Ha. unfold prune.
    assert (forall F, acc F -> acc (fold_left (fun F' n => match F0 n with Some g => upd F' n (prune_glyph P T F0 g) | None => F' end) all F)) as H.
    { induction all as [|n t IH]; intros F HF; simpl; auto. apply IH.
      destruct (F0 n) as [g|] eqn:E; auto. intros m gm Hm.
      destruct (name_eqb m n) eqn:Em.
      - apply name_eqb_eq in Em; subst. rewrite upd_same in Hm. inversion Hm; subst.
        unfold accurate, prune_glyph; simpl. rewrite filter_all'.
        + apply (Ha _ _ E).
        + intros [c t0] Hin. simpl. pose proof (Hc n g E c t0 Hin). destruct (F0 c); congruence.
      - apply name_eqb_neq in Em. rewrite upd_other in Hm; eauto. }
    apply H; auto.
  Qed.
  Lemma inline_all_acc fuel (F : font) all : acc F -> acc (inline_all fuel F all).
  Proof.
    unfold Model.inline_all. generalize (depth_order P T fuel F all). intro l. revert F.
    induction l as [|n t IH]; intros F HF; simpl; auto. apply IH.
    unfold Model.inline_step. destruct (F n) as [g|] eqn:E; auto. intros m gm Hm.
    destruct (name_eqb m n) eqn:Em.
    - apply name_eqb_eq in Em; subst. rewrite upd_same in Hm. inversion Hm; subst. apply glyph_new_accurate.
    - apply name_eqb_neq in Em. rewrite upd_other in Hm; eauto.
  Qed.

  Theorem process_in_range (F0 : font) fuel fl all order s :
    closed F0 -> acc F0 -> process fuel fl F0 all order = Some s ->
    forall n g, In n (st_order s) -> st_font s n = Some g -> comps_ok g.
  Proof.
    intros Hc Ha H. unfold Model.process in H.
    pose proof (inline_all_acc fuel _ all (prune_acc F0 all Hc Ha)) as A2.
    set (F2 := inline_all fuel (prune P T F0 all) all) in *.
    set (order' := filter (fun n => match F2 n with Some g => g_export g | None => false end) order) in *.
    destruct (fold_opt (drop_unretained fuel) order' (mkSt F2 order' false)) as [s3|] eqn:E3; [|discriminate].
    destruct (fix_loop fuel fuel s3 (todo_of fl F2 order') _) as [s4|] eqn:E4; [|discriminate].
    assert (rng (mkSt F2 order' false) (todo_of fl F2 order')) as R2.
    { intros n g Hn Hg; simpl in *. destruct (g_ovf g) eqn:Eo.
      - right. exists g. apply todo_of_convert; auto.
      - left. apply accurate_ok; auto. eapply A2; eauto. }
    assert (rng s3 (todo_of fl F2 order')) as R3.
    { eapply (fold_opt_rng (drop_unretained fuel)); [|exact R2|exact E3].
      intros; eapply drop_unretained_rng; eauto. }
    assert (rng s4 []) as R4.
    { eapply fix_loop_rng; [exact R3| |exact E4]. apply todo_of_moves; auto. }
    pose proof (optional_transforms_rng fuel fl s4 s R4 H) as R.
    intros n g Hn Hg. destruct (R n g Hn Hg) as [Hok|(g' & [])]; auto.
  Qed.
End Range.
