(* C12 — "the same contours": equality of contour lists up to the order of the
   contours and the orientation of each contour. *)
From Coq Require Import List Permutation Morphisms.
Import ListNotations.

Section Ceq.
  Variable P : Type.
  Notation contour := (list P).

  (* the same closed contour, possibly traversed the other way round *)
  Definition ceq (c c' : contour) : Prop := c' = c \/ c' = rev c.

  (* a bijection between two contour lists that pairs each contour with an equal
     or reversed one *)
  Definition ceqs (l l' : list contour) : Prop := exists m, Permutation l m /\ Forall2 ceq m l'.

  Lemma ceq_refl c : ceq c c.
  Proof. now left. Qed.
  Lemma ceq_sym c c' : ceq c c' -> ceq c' c.
  Proof. intros [->| ->]; [now left|right; now rewrite rev_involutive]. Qed.
  Lemma ceq_trans a b c : ceq a b -> ceq b c -> ceq a c.
  Proof.
    intros [->| ->] [->| ->]; try (now left); try (now right).
    left. now rewrite rev_involutive.
  Qed.
  Lemma ceq_rev c : ceq c (rev c).
  Proof. now right. Qed.

  Lemma F2_refl l : Forall2 ceq l l.
  Proof. induction l; constructor; auto using ceq_refl. Qed.
  Lemma F2_sym l l' : Forall2 ceq l l' -> Forall2 ceq l' l.
  Proof. induction 1; constructor; auto using ceq_sym. Qed.
  Lemma F2_trans a b c : Forall2 ceq a b -> Forall2 ceq b c -> Forall2 ceq a c.
  Proof.
    intros H; revert c; induction H; intros c' H'; inversion H'; subst; constructor; eauto using ceq_trans.
  Qed.

  (* a pointwise relation can be carried along a permutation of either side *)
  Lemma F2_perm_r (R : contour -> contour -> Prop) b b' :
    Permutation b b' -> forall a, Forall2 R a b -> exists a', Permutation a a' /\ Forall2 R a' b'.
  Proof.
    induction 1 as [|x b b' Hp IH|x y b|b b1 b2 H1 IH1 H2 IH2]; intros a Ha.
    - inversion Ha; subst. exists []; split; constructor.
    - inversion Ha as [|x0 ? a0 ? Hx Ht]; subst.
      destruct (IH _ Ht) as (a' & Hpa & Hfa). exists (x0 :: a'); split; [now constructor|now constructor].
    - inversion Ha as [|x0 ? a0 ? Hx Ht]; subst. inversion Ht as [|x1 ? a1 ? Hy Ht']; subst.
      exists (x1 :: x0 :: a1); split; [apply perm_swap|repeat constructor; auto].
    - destruct (IH1 _ Ha) as (a1 & Hp1 & Hf1). destruct (IH2 _ Hf1) as (a2 & Hp2 & Hf2).
      exists a2; split; [eapply perm_trans; eauto|auto].
  Qed.
  Lemma F2_flip (R : contour -> contour -> Prop) a b : Forall2 R a b -> Forall2 (fun x y => R y x) b a.
  Proof. induction 1; constructor; auto. Qed.
  Lemma F2_perm_l (R : contour -> contour -> Prop) a a' :
    Permutation a a' -> forall b, Forall2 R a b -> exists b', Permutation b b' /\ Forall2 R a' b'.
  Proof.
    intros Hp b Hf. apply F2_flip in Hf.
    destruct (F2_perm_r (fun x y => R y x) a a' Hp b Hf) as (b' & Hpb & Hfb).
    exists b'; split; auto. clear -Hfb. induction Hfb; constructor; auto.
  Qed.

  Lemma ceqs_refl l : ceqs l l.
  Proof. exists l; split; [reflexivity|apply F2_refl]. Qed.
  Lemma ceqs_perm l l' : Permutation l l' -> ceqs l l'.
  Proof. intros H. exists l'; split; [auto|apply F2_refl]. Qed.
  Lemma ceqs_F2 l l' : Forall2 ceq l l' -> ceqs l l'.
  Proof. intros H. exists l; split; [reflexivity|auto]. Qed.
  Lemma ceqs_sym l l' : ceqs l l' -> ceqs l' l.
  Proof.
    intros (m & Hp & Hf). apply F2_sym in Hf.
    destruct (F2_perm_r ceq m l (Permutation_sym Hp) l' Hf) as (a' & Hpa & Hfa).
    exists a'; split; auto.
  Qed.
  Lemma ceqs_trans a b c : ceqs a b -> ceqs b c -> ceqs a c.
  Proof.
    intros (m & Hp & Hf) (m' & Hp' & Hf').
    destruct (F2_perm_r ceq b m' Hp' m Hf) as (a' & Hpa & Hfa).
    exists a'; split; [eapply perm_trans; eauto|eapply F2_trans; eauto].
  Qed.
  Lemma ceqs_app a a' b b' : ceqs a a' -> ceqs b b' -> ceqs (a ++ b) (a' ++ b').
  Proof.
    intros (m & Hp & Hf) (m' & Hp' & Hf'). exists (m ++ m'); split.
    - now apply Permutation_app.
    - now apply Forall2_app.
  Qed.
  Lemma ceqs_app_comm a b : ceqs (a ++ b) (b ++ a).
  Proof. apply ceqs_perm, Permutation_app_comm. Qed.
  Lemma ceqs_nil_inv l : ceqs [] l -> l = [].
  Proof. intros (m & Hp & Hf). apply Permutation_nil in Hp; subst. now inversion Hf. Qed.
  Lemma ceqs_length l l' : ceqs l l' -> length l = length l'.
  Proof.
    intros (m & Hp & Hf). rewrite (Permutation_length Hp). clear Hp. induction Hf; simpl; auto.
  Qed.

  (* a map on contours that commutes with reversal respects the equivalence *)
  Lemma ceqs_map (f : contour -> contour) :
    (forall c, f (rev c) = rev (f c)) -> forall l l', ceqs l l' -> ceqs (map f l) (map f l').
  Proof.
    intros Hf l l' (m & Hp & Hm). exists (map f m); split; [now apply Permutation_map|].
    clear Hp. induction Hm as [|x y m l' Hxy Hm IH]; simpl; constructor; auto.
    destruct Hxy as [->| ->]; [now left|right; apply Hf].
  Qed.
  (* two maps that agree up to orientation on every contour *)
  Lemma ceqs_map2 (f g : contour -> contour) :
    (forall c, ceq (f c) (g c)) -> forall l, ceqs (map f l) (map g l).
  Proof.
    intros H l. apply ceqs_F2. induction l; simpl; constructor; auto.
  Qed.

  (* every contour of one list occurs, up to orientation, in the other *)
  Definition csub (l l' : list contour) : Prop := forall c, In c l -> exists c', In c' l' /\ ceq c c'.
  Lemma ceqs_csub l l' : ceqs l l' -> csub l l'.
  Proof.
    intros (m & Hp & Hf) c Hc. apply (Permutation_in _ Hp) in Hc. clear Hp.
    induction Hf as [|x y m l' Hxy Hf IH]; [inversion Hc|].
    destruct Hc as [->|Hc]; [exists y; split; [now left|auto]|].
    destruct (IH Hc) as (c' & Hin & He). exists c'; split; [now right|auto].
  Qed.
End Ceq.

Arguments ceq {P}.
Arguments ceqs {P}.
Arguments csub {P}.
