(* C12 — executable model of component handling in fontir/src/glyph.rs
   (GlyphOrderWork::exec and the functions it calls), of the glyph predicates
   in fontir/src/ir.rs it consults, and of the component quantisation in
   fontbe/src/glyphs.rs (create_component_ref_gid).

   One master location at a time: a glyph is its instance at that location
   (contours, components, advance).  What the code decides by looking at all
   locations at once is carried in the data: a transform knows whether its 2x2
   part varies over the design space (has_consistent_2x2_transforms), and every
   master is assumed to list the same components in the same order (what
   `components()` in glyph.rs panics on otherwise).  Interpolation of instances
   a glyph lacks (instantiate_instance) is C07's subject and is not modelled.

   Definitions only; proofs are in the other files of this directory. *)
From Coq Require Import List NArith ZArith QArith Qcanon Qround Qabs Bool.
Import ListNotations.
Close Scope Qc_scope.
Close Scope Q_scope.

(* ---- glyph names ----------------------------------------------------------- *)
(* A source glyph name, or the name `{base}.{i}` made by name_for_derivative.
   (A source glyph that is itself literally called `a.0` is outside the model;
   see C06 for what the naming loop does then.) *)
Inductive name := Src (id : N) | Der (id : N) (i : nat).

Definition name_eqb (a b : name) : bool :=
  match a, b with
  | Src x, Src y => N.eqb x y
  | Der x i, Der y j => N.eqb x y && Nat.eqb i j
  | _, _ => false
  end.

Definition derive (n : name) (i : nat) : name :=
  match n with Src x => Der x i | Der x j => Der x (S (j + i)) end.

Definition mem (n : name) (l : list name) : bool := existsb (name_eqb n) l.
Fixpoint remove_name (n : name) (l : list name) : list name :=
  match l with
  | [] => []
  | m :: t => if name_eqb m n then remove_name n t else m :: remove_name n t
  end.

(* the four options of the property (fontir::orchestration::Flags) *)
Record flags := mkFlags { fl_flatten : bool; fl_decompose : bool; fl_decompose_tr : bool; fl_prefer_simple : bool }.

Section Generic.
  (* P: points (kurbo::Point); T: component transforms (kurbo::Affine plus the
     fact "its 2x2 differs between masters"). *)
  Variables P T : Type.
  Variable tmul : T -> T -> T.        (* Affine * Affine *)
  Variable tid : T.                   (* Affine::IDENTITY *)
  Variable act : T -> P -> P.         (* Affine * Point *)
  Variable tneg : T -> bool.          (* determinant() < 0.0 *)
  Variable tovf : T -> bool.          (* a 2x2 entry outside [-2.0, 2.0] *)
  Variable tnonid : T -> bool.        (* Component::has_nonidentity_2x2 *)
  Variable tvary : T -> bool.         (* 2x2 not the same at every master *)
  Variable teqb : T -> T -> bool.     (* OrderedFloat equality of the coefficients *)

  Definition contour := list P.

  (* ir::Glyph at one location.  g_ovf is has_overflowing_2x2_transforms: it is
     computed by Glyph::new and not recomputed by code that edits sources in
     place (prune_missing_components; flatten_glyph rebuilds the glyph since the
     repair of the flatten overflow). *)
  Record glyph := mkGlyph {
    g_contours : list contour;
    g_comps : list (name * T);
    g_adv : Q;
    g_export : bool;
    g_ovf : bool }.

  Definition glyph_new (cs : list contour) (comps : list (name * T)) (adv : Q) (ex : bool) : glyph :=
    mkGlyph cs comps adv ex (existsb (fun ct => tovf (snd ct)) comps).

  Definition has_consistent_components (g : glyph) : bool := negb (existsb (fun ct => tvary (snd ct)) (g_comps g)).
  Definition has_mixed (g : glyph) : bool :=
    match g_comps g, g_contours g with
    | _ :: _, _ :: _ => true
    | _, _ => false
    end.
  Definition has_nonidentity_2x2 (g : glyph) : bool := existsb (fun ct => tnonid (snd ct)) (g_comps g).

  (* Context.glyphs *)
  Definition font := name -> option glyph.
  Definition upd (F : font) (n : name) (g : glyph) : font :=
    fun m => if name_eqb m n then Some g else F m.

  (* BezPath::apply_affine; and the same followed by reverse_subpaths when the
     determinant is negative.  Reversal is modelled up to the start point. *)
  Definition tr (t : T) (c : contour) : contour := map (act t) c.
  Definition tr_rev (t : T) (c : contour) : contour := if tneg t then rev (tr t c) else tr t c.

  (* ---- what a glyph looks like ------------------------------------------- *)
  (* Its own contours, then every component's resolved contours under the
     component's transform (what a rasteriser does with a composite glyph; a
     reference to a glyph that does not exist contributes nothing). *)
  Fixpoint resolve_comps (r : name -> option (list contour)) (cs : list (name * T)) : option (list contour) :=
    match cs with
    | [] => Some []
    | (c, t) :: rest =>
        match r c, resolve_comps r rest with
        | Some a, Some b => Some (map (tr t) a ++ b)
        | _, _ => None
        end
    end.

  Fixpoint resolve (fuel : nat) (F : font) (n : name) : option (list contour) :=
    match fuel with
    | O => None
    | S f =>
        match F n with
        | None => Some []
        | Some g => option_map (app (g_contours g)) (resolve_comps (resolve f F) (g_comps g))
        end
    end.

  (* the same for a glyph value that need not be stored in the font *)
  Definition gsem (fuel : nat) (F : font) (g : glyph) : option (list contour) :=
    option_map (app (g_contours g)) (resolve_comps (resolve fuel F) (g_comps g)).

  (* ---- prune_missing_components ------------------------------------------ *)
  Definition prune_glyph (F : font) (g : glyph) : glyph :=
    mkGlyph (g_contours g) (filter (fun ct => match F (fst ct) with Some _ => true | None => false end) (g_comps g))
            (g_adv g) (g_export g) (g_ovf g).
  Definition prune (F : font) (all : list name) : font :=
    fold_left (fun F' n => match F n with Some g => upd F' n (prune_glyph F g) | None => F' end) all F.

  (* ---- flatten_non_export_components_for_glyph ------------------------------ *)
  Fixpoint inline_comps (F : font) (cs : list (name * T)) : list contour * list (name * T) :=
    match cs with
    | [] => ([], [])
    | (c, t) :: rest =>
        let kc := inline_comps F rest in
        match F c with
        | None => (fst kc, (c, t) :: snd kc)
        | Some h =>
            if g_export h then (fst kc, (c, t) :: snd kc)
            else (map (tr_rev t) (g_contours h) ++ fst kc,
                  map (fun ct => (fst ct, tmul t (snd ct))) (g_comps h) ++ snd kc)
        end
    end.
  Definition inline_glyph (F : font) (g : glyph) : glyph :=
    let kc := inline_comps F (g_comps g) in
    glyph_new (g_contours g ++ fst kc) (snd kc) (g_adv g) (g_export g).

  (* depth_sorted_composite_glyphs: depth 0 = no components; a glyph whose
     component graph has a cycle or a bad reference gets no depth and is left
     alone.  Glyphs of equal depth never refer to each other, so only the depth
     matters for the result (the code breaks ties by name). *)
  Fixpoint max_opt (l : list (option nat)) : option nat :=
    match l with
    | [] => Some 0
    | None :: _ => None
    | Some a :: t => option_map (Nat.max a) (max_opt t)
    end.
  Fixpoint depth_of (fuel : nat) (F : font) (n : name) : option nat :=
    match fuel with
    | O => None
    | S f =>
        match F n with
        | None => None
        | Some g =>
            match g_comps g with
            | [] => Some 0
            | cs => option_map S (max_opt (map (fun ct => depth_of f F (fst ct)) cs))
            end
        end
    end.
  Definition names_at_depth (fuel : nat) (F : font) (all : list name) (d : nat) : list name :=
    filter (fun n => match depth_of fuel F n with Some d' => Nat.eqb d d' | None => false end) all.
  (* an acyclic graph over the glyphs of `all` has depth below their number *)
  Definition depth_order (fuel : nat) (F : font) (all : list name) : list name :=
    flat_map (names_at_depth fuel F all) (seq 0 (S (length all))).

  Definition inline_step (F : font) (n : name) : font :=
    match F n with
    | Some g => upd F n (inline_glyph F g)
    | None => F
    end.
  Definition inline_all (fuel : nat) (F : font) (all : list name) : font :=
    fold_left inline_step (depth_order fuel F all) F.

  (* ---- convert_components_to_contours ------------------------------------ *)
  (* `components(glyph, transform)`: every component with the accumulated
     transform and its position (the `index` of HashableComponent). *)
  Definition key := (name * T * nat)%type.
  Definition key_eqb (a b : key) : bool :=
    name_eqb (fst (fst a)) (fst (fst b)) && teqb (snd (fst a)) (snd (fst b)) && Nat.eqb (snd a) (snd b).
  Fixpoint keys_from (i : nat) (t0 : T) (cs : list (name * T)) : list key :=
    match cs with
    | [] => []
    | (c, t) :: r => (c, tmul t0 t, i) :: keys_from (S i) t0 r
    end.

  (* The frontier is a queue; `visited` is keyed by the whole key.  The last
     result says whether the visited test ever fired. *)
  Fixpoint bfs (fuel : nat) (F : font) (frontier visited : list key) (acc : list contour) (dup : bool)
    : option (list contour * bool) :=
    match fuel with
    | O => None
    | S f =>
        match frontier with
        | [] => Some (acc, dup)
        | k :: rest =>
            if existsb (key_eqb k) visited then bfs f F rest visited acc true
            else
              match F (fst (fst k)) with
              | None => bfs f F rest (k :: visited) acc dup
              | Some h =>
                  bfs f F (rest ++ keys_from 0 (snd (fst k)) (g_comps h)) (k :: visited)
                      (acc ++ map (tr_rev (snd (fst k))) (g_contours h)) dup
              end
        end
    end.

  Definition decompose (fuel : nat) (F : font) (g : glyph) : option (glyph * bool) :=
    match bfs fuel F (keys_from 0 tid (g_comps g)) [] [] false with
    | Some (k, dup) => Some (glyph_new (g_contours g ++ k) [] (g_adv g) (g_export g), dup)
    | None => None
    end.

  (* ---- split_glyph / move_contours_to_new_component ------------------------- *)
  Fixpoint name_for_derivative (fuel : nat) (n : name) (order : list name) (i : nat) : option name :=
    match fuel with
    | O => None
    | S f => if mem (derive n i) order then name_for_derivative f n order (S i) else Some (derive n i)
    end.
  Definition split_simple (g : glyph) : glyph := glyph_new (g_contours g) [] (g_adv g) (g_export g).
  Definition split_composite (g : glyph) (nf : name) : glyph :=
    glyph_new [] (g_comps g ++ [(nf, tid)]) (g_adv g) (g_export g).

  (* ---- flatten_glyph ------------------------------------------------------- *)
  (* A component that has components is replaced, in place, by those components
     under the composed transform; one without is kept.  Contours of a
     component that has components are not looked at (the caller has removed
     mixed glyphs before): the last result records whether such contours were
     passed over.  `context.get_glyph` panics on a missing glyph. *)
  Fixpoint flat (fuel : nat) (F : font) (frontier simple : list (name * T)) (lost : bool)
    : option (list (name * T) * bool) :=
    match fuel with
    | O => None
    | S f =>
        match frontier with
        | [] => Some (simple, lost)
        | (c, t) :: rest =>
            match F c with
            | None => None
            | Some h =>
                match g_comps h with
                | [] => flat f F rest (simple ++ [(c, t)]) lost
                | hc => flat f F (map (fun ct => (fst ct, tmul t (snd ct))) hc ++ rest) simple
                             (lost || match g_contours h with [] => false | _ => true end)
                end
            end
        end
    end.
  (* After the walk the glyph is rebuilt (GlyphBuilder::from(glyph).build(), which
     recomputes has_overflowing_2x2_transforms); composing transforms can leave
     the F2Dot14 range although every single one was inside, and then the glyph
     is decomposed like one whose own components overflow.  The flag of the
     result: contours passed over by the walk, or the visited test of the
     decomposition fired. *)
  Definition flatten_glyph (fuel : nat) (F : font) (g : glyph) : option (glyph * bool) :=
    match g_comps g with
    | [] => Some (g, false)
    | cs =>
        match flat fuel F cs [] false with
        | Some (s, lost) =>
            let g1 := glyph_new (g_contours g) s (g_adv g) (g_export g) in
            if g_ovf g1 then
              match decompose fuel F g1 with
              | Some (g2, dup) => Some (g2, lost || dup)
              | None => None
              end
            else Some (g1, lost)
        | None => None
        end
    end.

  (* ---- resolve_inconsistencies ------------------------------------------- *)
  Inductive gop := OpConvert | OpMove.

  (* is a glyph that still needs fixing reachable through components? *)
  Fixpoint reaches_pending (fuel : nat) (F : font) (pending stack : list name) : option bool :=
    match fuel with
    | O => None
    | S f =>
        match stack with
        | [] => Some false
        | c :: rest =>
            if mem c pending then Some true
            else match F c with
                 | None => None
                 | Some h => reaches_pending f F pending (map fst (g_comps h) ++ rest)
                 end
        end
    end.

  (* st_lossy: some contour was passed over on the way (the visited test of
     convert_components_to_contours fired, or flatten_glyph walked through a
     component that has both contours and components) *)
  Record st := mkSt { st_font : font; st_order : list name; st_lossy : bool }.

  Definition apply_convert (fuel : nat) (s : st) (n : name) (g : glyph) : option st :=
    match decompose fuel (st_font s) g with
    | Some (g', d) => Some (mkSt (upd (st_font s) n g') (st_order s) (st_lossy s || d))
    | None => None
    end.
  Definition apply_move (fuel : nat) (s : st) (n : name) (g : glyph) : option st :=
    match name_for_derivative fuel n (st_order s) 0 with
    | Some nf =>
        Some (mkSt (upd (upd (st_font s) nf (split_simple g)) n (split_composite g nf))
                   (st_order s ++ [nf]) (st_lossy s))
    | None => None
    end.

  Fixpoint fix_loop (fuel ifuel : nat) (s : st) (todo : list (gop * name * glyph)) (pending : list name) : option st :=
    match fuel with
    | O => None
    | S f =>
        match todo with
        | [] => Some s
        | (op, n, g) :: rest =>
            match reaches_pending ifuel (st_font s) pending (map fst (g_comps g)) with
            | None => None
            | Some true => fix_loop f ifuel s (rest ++ [(op, n, g)]) pending
            | Some false =>
                match (match op with OpConvert => apply_convert ifuel s n g | OpMove => apply_move ifuel s n g end) with
                | Some s' => fix_loop f ifuel s' rest (remove_name n pending)
                | None => None
                end
            end
        end
    end.

  (* the classification in GlyphOrderWork::exec, on the glyphs as they were
     after non-export inlining *)
  Definition classify (fl : flags) (g : glyph) : option gop :=
    if negb (has_consistent_components g) then Some OpConvert
    else if g_ovf g then Some OpConvert
    else if has_mixed g then (if fl_prefer_simple fl then Some OpConvert else Some OpMove)
    else None.
  Fixpoint todo_of (fl : flags) (F : font) (order : list name) : list (gop * name * glyph) :=
    match order with
    | [] => []
    | n :: t =>
        match F n with
        | Some g => match classify fl g with
                    | Some op => (op, n, g) :: todo_of fl F t
                    | None => todo_of fl F t
                    end
        | None => todo_of fl F t
        end
    end.

  (* a fold over glyph names that may fail *)
  Fixpoint fold_opt {S' : Type} (f : S' -> name -> option S') (l : list name) (s : S') : option S' :=
    match l with
    | [] => Some s
    | n :: t => match f s n with Some s' => fold_opt f t s' | None => None end
    end.

  (* "Resolve component references to glyphs that are not retained" *)
  Definition drop_unretained (fuel : nat) (s : st) (n : name) : option st :=
    match st_font s n with
    | Some g =>
        if existsb (fun ct => negb (mem (fst ct) (st_order s))) (g_comps g)
        then apply_convert fuel s n g else Some s
    | None => None
    end.

  (* apply_optional_transformations *)
  Definition convert_if (fuel : nat) (p : glyph -> bool) (s : st) (n : name) : option st :=
    match st_font s n with
    | Some g => if p g then apply_convert fuel s n g else Some s
    | None => None
    end.
  Definition flatten_step (fuel : nat) (s : st) (n : name) : option st :=
    match st_font s n with
    | Some g =>
        match flatten_glyph fuel (st_font s) g with
        | Some (g', lost) => Some (mkSt (upd (st_font s) n g') (st_order s) (st_lossy s || lost))
        | None => None
        end
    | None => None
    end.
  Definition has_comps (g : glyph) : bool := match g_comps g with [] => false | _ => true end.

  Definition optional_transforms (fuel : nat) (fl : flags) (s : st) : option st :=
    if fl_decompose fl then fold_opt (convert_if fuel has_comps) (st_order s) s
    else
      match (if fl_decompose_tr fl then fold_opt (convert_if fuel has_nonidentity_2x2) (st_order s) s else Some s) with
      | Some s1 => if fl_flatten fl then fold_opt (flatten_step fuel) (st_order s1) s1 else Some s1
      | None => None
      end.

  (* GlyphOrderWork::exec, the part that concerns outlines.  `all` lists every
     glyph of the source, `order` the preliminary glyph order. *)
  Definition process (fuel : nat) (fl : flags) (F : font) (all order : list name) : option st :=
    let F1 := prune F all in
    let F2 := inline_all fuel F1 all in
    let order' := filter (fun n => match F2 n with Some g => g_export g | None => false end) order in
    match fold_opt (drop_unretained fuel) order' (mkSt F2 order' false) with
    | Some s3 =>
        let todo := todo_of fl F2 order' in
        match fix_loop fuel fuel s3 todo (map (fun x => snd (fst x)) todo) with
        | Some s4 => optional_transforms fuel fl s4
        | None => None
        end
    | None => None
    end.
End Generic.

Arguments mkGlyph {P T}.
Arguments g_contours {P T}.
Arguments g_comps {P T}.
Arguments g_adv {P T}.
Arguments g_export {P T}.
Arguments g_ovf {P T}.
Arguments mkSt {P T}.
Arguments st_font {P T}.
Arguments st_order {P T}.
Arguments st_lossy {P T}.

(* ---- the instance: kurbo::Affine over exact rationals ------------------------ *)
(* f64 is modelled by Qc (canonical rationals, so equal values are equal terms).
   [a b c d e f] maps (x, y) to (a x + c y + e, b x + d y + f). *)
Local Open Scope Qc_scope.
Definition pt := (Qc * Qc)%type.
Record aff := mkAff { xx : Qc; yx : Qc; xy : Qc; yy : Qc; dx : Qc; dy : Qc; vary : bool }.

Definition aff_id : aff := mkAff 1 0 0 1 0 0 false.
Definition aff_mul (s o : aff) : aff :=
  mkAff (xx s * xx o + xy s * yx o)
        (yx s * xx o + yy s * yx o)
        (xx s * xy o + xy s * yy o)
        (yx s * xy o + yy s * yy o)
        (xx s * dx o + xy s * dy o + dx s)
        (yx s * dx o + yy s * dy o + dy s)
        (vary s || vary o).
Definition aff_act (t : aff) (p : pt) : pt :=
  (xx t * fst p + xy t * snd p + dx t, yx t * fst p + yy t * snd p + dy t).
Definition aff_det (t : aff) : Qc := xx t * yy t - yx t * xy t.
Definition Qc_ltb (a b : Qc) : bool := match a ?= b with Lt => true | _ => false end.
Definition Qc_leb (a b : Qc) : bool := match a ?= b with Gt => false | _ => true end.
Definition aff_neg (t : aff) : bool := Qc_ltb (aff_det t) 0.
Definition two : Qc := Q2Qc (2 # 1).
Definition in_f2dot14_range (v : Qc) : bool := Qc_leb (- two) v && Qc_leb v two.
Definition aff_ovf (t : aff) : bool :=
  negb (in_f2dot14_range (xx t) && in_f2dot14_range (yx t) && in_f2dot14_range (xy t) && in_f2dot14_range (yy t)).
Definition aff_nonid (t : aff) : bool :=
  negb (Qc_eq_bool (xx t) 1 && Qc_eq_bool (yx t) 0 && Qc_eq_bool (xy t) 0 && Qc_eq_bool (yy t) 1).
Definition aff_eqb (a b : aff) : bool :=
  Qc_eq_bool (xx a) (xx b) && Qc_eq_bool (yx a) (yx b) && Qc_eq_bool (xy a) (xy b) && Qc_eq_bool (yy a) (yy b)
  && Qc_eq_bool (dx a) (dx b) && Qc_eq_bool (dy a) (dy b) && Bool.eqb (vary a) (vary b).
Local Close Scope Qc_scope.

Definition qglyph := glyph pt aff.
Definition qfont := font pt aff.
Definition q_resolve := resolve pt aff aff_act.
Definition q_process := process pt aff aff_mul aff_id aff_act aff_neg aff_ovf aff_nonid vary aff_eqb.
Definition q_decompose := decompose pt aff aff_mul aff_id aff_act aff_neg aff_ovf aff_eqb.
Definition q_flatten := flatten_glyph pt aff aff_mul aff_id aff_act aff_neg aff_ovf aff_eqb.
Definition q_gsem := gsem pt aff aff_act.
Definition q_inline := inline_glyph pt aff aff_mul aff_act aff_neg aff_ovf.

(* a font given as an association list (first entry wins) *)
Fixpoint font_of {P T : Type} (l : list (name * glyph P T)) : font P T :=
  fun n => match l with
           | [] => None
           | (m, g) :: t => if name_eqb n m then Some g else font_of t n
           end.

(* ---- fontbe: create_component_ref_gid ---------------------------------------- *)
(* Offsets are ot_round'ed to integers, the 2x2 goes through
   F2Dot14::from_f64: trunc(x * 16384 ± 1/2) saturated to i16. *)
Local Open Scope Q_scope.
Definition ot_round (x : Q) : Z := Qfloor (x + (1 # 2)).
Definition round_half_away (x : Q) : Z :=
  if Qle_bool 0 x then Qfloor (x + (1 # 2)) else Qceiling (x - (1 # 2)).
Definition sat_i16 (z : Z) : Z := Z.max (-32768) (Z.min 32767 z).
Definition f2dot14 (x : Q) : Q := inject_Z (sat_i16 (round_half_away (x * 16384))) / 16384.

(* a component as stored in glyf, and its effect on a point *)
Record qaff := mkQ { qa : Q; qb : Q; qc : Q; qd : Q; qe : Q; qf : Q }.
Definition q_apply (t : qaff) (p : Q * Q) : Q * Q :=
  (qa t * fst p + qc t * snd p + qe t, qb t * fst p + qd t * snd p + qf t).
Definition be_component (t : qaff) : qaff :=
  mkQ (f2dot14 (qa t)) (f2dot14 (qb t)) (f2dot14 (qc t)) (f2dot14 (qd t))
      (inject_Z (ot_round (qe t))) (inject_Z (ot_round (qf t))).
Local Close Scope Q_scope.

(* ---- comparison helpers for the correspondence cases ------------------------- *)
Definition pt_eqb (a b : pt) : bool := Qc_eq_bool (fst a) (fst b) && Qc_eq_bool (snd a) (snd b).
Fixpoint list_eqb' {A} (e : A -> A -> bool) (a b : list A) : bool :=
  match a, b with
  | [], [] => true
  | x :: a', y :: b' => e x y && list_eqb' e a' b'
  | _, _ => false
  end.
Fixpoint rotations_aux {A} (n : nat) (l : list A) : list (list A) :=
  match n with
  | O => []
  | S k => l :: match l with [] => [] | x :: t => rotations_aux k (t ++ [x]) end
  end.
(* equal as closed contours: up to the start point *)
Definition contour_cyc_eqb (a b : list pt) : bool :=
  match a, b with
  | [], [] => true
  | _, _ => Nat.eqb (length a) (length b) && existsb (list_eqb' pt_eqb a) (rotations_aux (length b) b)
  end.
(* the implementation computes in f64: values are compared up to 2^-20 *)
Definition Qc_close (a b : Qc) : bool := Qle_bool (Qabs (this a - this b)) (1 # 1048576).
Definition pt_close (a b : pt) : bool := Qc_close (fst a) (fst b) && Qc_close (snd a) (snd b).
Definition contour_cyc_close (a b : list pt) : bool :=
  match a, b with
  | [], [] => true
  | _, _ => Nat.eqb (length a) (length b) && existsb (list_eqb' pt_close a) (rotations_aux (length b) b)
  end.
Definition aff_close (a b : aff) : bool :=
  Qc_close (xx a) (xx b) && Qc_close (yx a) (yx b) && Qc_close (xy a) (xy b) && Qc_close (yy a) (yy b)
  && Qc_close (dx a) (dx b) && Qc_close (dy a) (dy b) && Bool.eqb (vary a) (vary b).
Definition comp_eqb (a b : name * aff) : bool :=
  name_eqb (fst a) (fst b) && aff_close (snd a) (snd b).
(* the model's glyph against (contours, components, advance) read from the IR *)
Definition glyph_matches (g : option qglyph) (cs : list (list pt)) (comps : list (name * aff)) (adv : Q) : bool :=
  match g with
  | None => false
  | Some g => list_eqb' contour_cyc_close (g_contours g) cs
              && list_eqb' comp_eqb (g_comps g) comps
              && Qeq_bool (g_adv g) adv
  end.

(* ---- terms the harness writes ------------------------------------------------------ *)
Definition qr (n : Z) (d : positive) : Qc := Q2Qc (n # d).
(* a contour from x0 y0 x1 y1 ... over a common denominator *)
Fixpoint pts (d : positive) (l : list Z) : list pt :=
  match l with
  | x :: y :: t => (qr x d, qr y d) :: pts d t
  | _ => []
  end.
(* the same from one number: 2n digits of 48 bits, least significant first, each
   the coordinate times 2^24, rounded, plus 2^47 (how the harness ships what it
   read from the IR; exact for coordinates on a 2^-24 grid) *)
Fixpoint unpack48 (n : nat) (z : Z) : list Z :=
  match n with
  | O => []
  | S k => Z.land z 281474976710655 :: unpack48 k (Z.shiftr z 48)
  end.
Definition ptsP (n : nat) (z : Z) : list pt :=
  pts 16777216 (map (fun d => (d - 140737488355328)%Z) (unpack48 (2 * n) z)).
Definition A6 (d : positive) (a b c e f g : Z) (v : bool) : aff := mkAff (qr a d) (qr b d) (qr c d) (qr e d) (qr f d) (qr g d) v.
Definition G (cs : list (list pt)) (comps : list (name * aff)) (adv : Q) (ex : bool) : qglyph :=
  glyph_new pt aff aff_ovf cs comps adv ex.
(* fingerprint of a contour list: points per contour (in order), sum of x, sum of y,
   twice the signed area (shoelace; changes sign with the orientation, does not
   depend on the start point) *)
Local Open Scope Qc_scope.
Fixpoint shoelace_from (p0 : pt) (l : list pt) : Qc :=
  match l with
  | [] => 0
  | a :: t =>
      match t with
      | [] => fst a * snd p0 - fst p0 * snd a
      | b :: _ => fst a * snd b - fst b * snd a + shoelace_from p0 t
      end
  end.
Definition shoelace (c : list pt) : Qc := match c with [] => 0 | p0 :: _ => shoelace_from p0 c end.
Definition qsum (l : list Qc) : Qc := fold_right Qcplus 0 l.
Local Close Scope Qc_scope.
Definition fp_lens (cs : list (list pt)) : list nat := map (@length pt) cs.
Definition fp_sx (cs : list (list pt)) : Qc := qsum (map (fun c => qsum (map fst c)) cs).
Definition fp_sy (cs : list (list pt)) : Qc := qsum (map (fun c => qsum (map snd c)) cs).
Definition fp_area (cs : list (list pt)) : Qc := qsum (map shoelace cs).
Definition Qc_near (a b : Qc) : bool := Qle_bool (Qabs (this a - this b)) (1 # 1024).

(* what the implementation left in the IR: glyph order (without .notdef) and, per
   glyph at one location, components and advance with either all contour points
   or the fingerprint of the contours (large outlines) *)
Inductive ir_glyph :=
| IRfull (n : name) (cs : list (list pt)) (comps : list (name * aff)) (adv : Q)
| IRfp (n : name) (lens : list nat) (sx sy area : Qc) (comps : list (name * aff)) (adv : Q).
Definition ir_matches (F : qfont) (e : ir_glyph) : bool :=
  match e with
  | IRfull n cs comps adv => glyph_matches (F n) cs comps adv
  | IRfp n lens sx sy ar comps adv =>
      match F n with
      | None => false
      | Some g => list_eqb' Nat.eqb (fp_lens (g_contours g)) lens
                  && Qc_near (fp_sx (g_contours g)) sx && Qc_near (fp_sy (g_contours g)) sy
                  && Qc_near (fp_area (g_contours g)) ar
                  && list_eqb' comp_eqb (g_comps g) comps && Qeq_bool (g_adv g) adv
      end
  end.
Definition check_run (fuel : nat) (fl : flags) (F : qfont) (all order : list name)
                     (impl_order : list name) (impl : list ir_glyph) (impl_lost_contours : bool) : bool :=
  match q_process fuel fl F all order with
  | None => false
  | Some s =>
      list_eqb' name_eqb (st_order s) impl_order
      && forallb (ir_matches (st_font s)) impl
      && implb impl_lost_contours (st_lossy s)
  end.
Definition check_runs (fuel : nat) (fls : list flags) (F : qfont) (all order : list name)
                      (impl_order : list name) (impl : list ir_glyph) (impl_lost_contours : bool) : bool :=
  forallb (fun fl => check_run fuel fl F all order impl_order impl impl_lost_contours) fls.
(* diagnostic view of a run *)
Definition show_run (fuel : nat) (fl : flags) (F : qfont) (all order : list name) :=
  match q_process fuel fl F all order with
  | None => None
  | Some s => Some (st_order s, st_lossy s,
                    map (fun n => match st_font s n with
                                  | Some g => (map (map (fun p => (this (fst p), this (snd p)))) (g_contours g),
                                               map (fun ct => (fst ct, [this (xx (snd ct)); this (yx (snd ct)); this (xy (snd ct));
                                                                         this (yy (snd ct)); this (dx (snd ct)); this (dy (snd ct))]))
                                                   (g_comps g), g_adv g)
                                  | None => ([], [], 0%Q)
                                  end) (st_order s))
  end.
Definition lossy_run (fuel : nat) (fl : flags) (F : qfont) (all order : list name) : bool :=
  match q_process fuel fl F all order with Some s => st_lossy s | None => false end.
