(* C12 — each of the four rewrites keeps what the glyph looks like:
   inlining of non-export components, decomposition, hoisting contours into a
   new component, flattening. *)
From Coq Require Import List Permutation Arith Lia Bool NArith QArith.
From FV.C12 Require Import Model Ceq Sem.
Import ListNotations.
Close Scope Q_scope.

Section Ops.
  Variables P T : Type.
  Variable tmul : T -> T -> T.
  Variable tid : T.
  Variable act : T -> P -> P.
  Variables tneg tovf : T -> bool.
  Variable teqb : T -> T -> bool.

  (* what the proofs need to know about transforms: they act on points, and the
     product acts like the composition (kurbo: (A * B) * p = A * (B * p)) *)
  Hypothesis act_mul : forall a b p, act (tmul a b) p = act a (act b p).
  Hypothesis act_id : forall p, act tid p = p.

  Notation glyph := (glyph P T).
  Notation font := (font P T).
  Notation contour := (list P).
  Notation tr := (tr P T act).
  Notation tr_rev := (tr_rev P T act tneg).
  Notation upd := (upd P T).
  Notation res := (@res P T act).
  Notation rcomps := (@rcomps P T act).
  Notation gres := (@gres P T act).
  Notation inline_comps := (inline_comps P T tmul act tneg).
  Notation inline_glyph := (inline_glyph P T tmul act tneg tovf).
  Notation flat := (flat P T tmul).
  Notation flatten_glyph := (flatten_glyph P T tmul tid act tneg tovf teqb).
  Notation keys_from := (keys_from T tmul).
  Notation bfs := (bfs P T tmul act tneg teqb).
  Notation decompose := (decompose P T tmul tid act tneg tovf teqb).
  Notation split_simple := (split_simple P T tovf).
  Notation split_composite := (split_composite P T tid tovf).
  Notation compose t := (fun ct : name * T => (fst ct, tmul t (snd ct))).

  Lemma tr_mul t t0 (c : contour) : tr (tmul t t0) c = tr t (tr t0 c).
  Proof. unfold Model.tr. rewrite map_map. apply map_ext. intro; apply act_mul. Qed.
  Lemma tr_id (c : contour) : tr tid c = c.
  Proof. unfold Model.tr. rewrite <- (map_id c) at 2. apply map_ext. apply act_id. Qed.
  Lemma map_tr_mul t t0 (l : list contour) : map (tr (tmul t t0)) l = map (tr t) (map (tr t0) l).
  Proof. rewrite map_map. apply map_ext. intro; apply tr_mul. Qed.
  Lemma map_tr_id (l : list contour) : map (tr tid) l = l.
  Proof. rewrite <- (map_id l) at 2. apply map_ext. apply tr_id. Qed.

  Lemma ceq_tr_rev t (c : contour) : ceq (tr t c) (tr_rev t c).
  Proof. unfold Model.tr_rev. destruct (tneg t); [apply ceq_rev|apply ceq_refl]. Qed.
  Lemma ceqs_tr_rev t (l : list contour) : ceqs (map (tr t) l) (map (tr_rev t) l).
  Proof. apply ceqs_map2. apply ceq_tr_rev. Qed.

  Lemma rcomps_compose F t cs k : rcomps F cs k -> rcomps F (map (compose t) cs) (map (tr t) k).
  Proof.
    induction 1 as [|c t0 rest a b Ha Hb IH]; simpl; [constructor|].
    rewrite map_app, <- map_tr_mul. constructor; auto.
  Qed.

  Lemma rcomps_single F c t a : res F c a -> rcomps F [(c, t)] (map (tr t) a).
  Proof.
    intro H. pose proof (rc_cons P T act F c t [] a [] H (rc_nil P T act F)) as H0.
    now rewrite app_nil_r in H0.
  Qed.

  (* ---- inlining of non-export components ------------------------------------ *)
  Lemma inline_comps_sem F cs k :
    rcomps F cs k ->
    exists k', rcomps F (snd (inline_comps F cs)) k' /\ ceqs k (fst (inline_comps F cs) ++ k').
  Proof.
    induction 1 as [|c t rest a b Ha Hb (b' & Hb' & Eb)]; simpl.
    - exists []; split; [constructor|apply ceqs_refl].
    - destruct (F c) as [h|] eqn:Ec.
      + destruct (g_export h) eqn:Ex; simpl.
        * exists (map (tr t) a ++ b'); split; [constructor; auto|].
          eapply ceqs_trans; [apply ceqs_app; [apply ceqs_refl|exact Eb]|].
          rewrite !app_assoc. apply ceqs_app; [apply ceqs_app_comm|apply ceqs_refl].
        * apply res_unfold in Ha. rewrite Ec in Ha. destruct Ha as (kh & Hkh & ->).
          exists (map (tr t) kh ++ b'); split.
          { apply rcomps_app; auto. apply rcomps_compose; auto. }
          rewrite map_app.
          eapply ceqs_trans; [apply ceqs_app; [apply ceqs_app; [apply ceqs_tr_rev|apply ceqs_refl]|exact Eb]|].
          apply ceqs_perm.
          rewrite <- !app_assoc. apply Permutation_app_head.
          rewrite !app_assoc. apply Permutation_app_tail. apply Permutation_app_comm.
      + simpl. exists (map (tr t) a ++ b'); split; [constructor; auto|].
        eapply ceqs_trans; [apply ceqs_app; [apply ceqs_refl|exact Eb]|].
        rewrite !app_assoc. apply ceqs_app; [apply ceqs_app_comm|apply ceqs_refl].
  Qed.

  Lemma inline_looks F g cs : gres F g cs -> exists cs', gres F (inline_glyph F g) cs' /\ ceqs cs cs'.
  Proof.
    intros (k & Hk & ->). destruct (inline_comps_sem F _ k Hk) as (k' & Hk' & E).
    exists ((g_contours g ++ fst (inline_comps F (g_comps g))) ++ k'); split.
    - exists k'; split; auto.
    - rewrite <- app_assoc. apply ceqs_app; [apply ceqs_refl|exact E].
  Qed.

  Lemma inline_comps_rank (r : name -> nat) F m cs :
    wf r F -> (forall c t, In (c, t) cs -> r c < m) ->
    forall c t, In (c, t) (snd (inline_comps F cs)) -> r c < m.
  Proof.
    intros Hwf. induction cs as [|[c0 t0] rest IH]; intros H c t Hin; simpl in Hin; [contradiction|].
    assert (forall c t, In (c, t) rest -> r c < m) as Hrest by (intros; eapply H; right; eauto).
    destruct (F c0) as [h|] eqn:E0.
    - destruct (g_export h); simpl in Hin.
      + destruct Hin as [Heq|Hin]; [inversion Heq; subst; eapply H; left; eauto|eauto].
      + apply in_app_or in Hin as [Hin|Hin]; [|eauto].
        apply in_map_iff in Hin as ([c1 t1] & Heq & Hin1). inversion Heq; subst.
        specialize (Hwf c0 h E0 c t1 Hin1). specialize (H c0 t0 (or_introl eq_refl)). simpl in *. lia.
    - simpl in Hin. destruct Hin as [Heq|Hin]; [inversion Heq; subst; eapply H; left; eauto|eauto].
  Qed.
  Lemma inline_comps_defined F cs :
    closed F -> (forall c t, In (c, t) cs -> F c <> None) ->
    forall c t, In (c, t) (snd (inline_comps F cs)) -> F c <> None.
  Proof.
    intros Hc. induction cs as [|[c0 t0] rest IH]; intros H c t Hin; simpl in Hin; [contradiction|].
    assert (forall c t, In (c, t) rest -> F c <> None) as Hrest by (intros; eapply H; right; eauto).
    destruct (F c0) as [h|] eqn:E0.
    - destruct (g_export h); simpl in Hin.
      + destruct Hin as [Heq|Hin]; [inversion Heq; subst; eapply H; left; eauto|eauto].
      + apply in_app_or in Hin as [Hin|Hin]; [|eauto].
        apply in_map_iff in Hin as ([c1 t1] & Heq & Hin1). inversion Heq; subst. eapply Hc; eauto.
    - simpl in Hin. destruct Hin as [Heq|Hin]; [inversion Heq; subst; eapply H; left; eauto|eauto].
  Qed.

  (* ---- hoisting contours into a new component ------------------------------- *)
  Lemma split_looks F g nf cs :
    closed F -> F nf = None -> (forall c t, In (c, t) (g_comps g) -> F c <> None) ->
    gres F g cs ->
    exists cs', gres (upd F nf (split_simple g)) (split_composite g nf) cs' /\ ceqs cs cs'.
  Proof.
    intros Hc Hnf Hd (k & Hk & ->).
    exists ([] ++ (k ++ (map (tr tid) (g_contours g ++ []) ++ []))); split.
    - exists (k ++ (map (tr tid) (g_contours g ++ []) ++ [])); split; auto. simpl.
      apply rcomps_app; [apply fresh_rcomps; auto|].
      constructor; [|constructor]. apply res_unfold. rewrite upd_same. exists []; split; [constructor|reflexivity].
    - simpl. rewrite !app_nil_r, map_tr_id. apply ceqs_app_comm.
  Qed.

  (* ---- flattening ----------------------------------------------------------- *)
  Lemma flat_lost_true fuel F : forall fr simple out d, flat fuel F fr simple true = Some (out, d) -> d = true.
  Proof.
    induction fuel as [|fuel IH]; intros fr simple out d H; [discriminate|].
    cbn [Model.flat] in H. destruct fr as [|[c t] rest]; [now inversion H|].
    destruct (F c) as [h|]; [|discriminate]. destruct (g_comps h); eauto.
  Qed.

  (* as long as no component with both contours and components is walked through,
     flattening keeps the resolved contours, in the same order *)
  Lemma flat_sem fuel F : forall frontier simple out ks kf,
    flat fuel F frontier simple false = Some (out, false) ->
    rcomps F simple ks -> rcomps F frontier kf ->
    rcomps F out (ks ++ kf).
  Proof.
    induction fuel as [|fuel IH]; intros frontier simple out ks kf H Hs Hf; [discriminate|].
    cbn [Model.flat] in H. destruct frontier as [|[c t] rest].
    - inversion H; subst. inversion Hf; subst. now rewrite app_nil_r.
    - inversion Hf as [|c0 t0 rest0 a b Ha Hb]; subst.
      destruct (F c) as [h|] eqn:Ec; [|discriminate].
      apply res_unfold in Ha. rewrite Ec in Ha. destruct Ha as (kh & Hkh & ->).
      destruct (g_comps h) as [|p hc] eqn:Eh.
      + inversion Hkh; subst. rewrite app_assoc.
        eapply IH; [exact H| |exact Hb].
        apply rcomps_app; auto. apply rcomps_single.
        apply res_unfold. rewrite Ec. exists []. rewrite Eh. split; [constructor|reflexivity].
      + destruct (g_contours h) as [|c1 l1] eqn:Ech.
        * simpl in H. simpl app.
          eapply IH; [exact H|exact Hs|].
          exact (rcomps_app P T act F (map (compose t) (p :: hc)) rest _ _ (rcomps_compose F t (p :: hc) kh Hkh) Hb).
        * simpl in H. apply flat_lost_true in H. discriminate.
  Qed.

  Lemma flat_rank (r : name -> nat) F m fuel : wf r F -> forall frontier simple d out d',
    flat fuel F frontier simple d = Some (out, d') ->
    (forall c t, In (c, t) frontier -> r c < m) -> (forall c t, In (c, t) simple -> r c < m) ->
    forall c t, In (c, t) out -> r c < m.
  Proof.
    intros Hwf. induction fuel as [|fuel IH]; intros frontier simple d out d' H Hf Hs; [discriminate|].
    cbn [Model.flat] in H. destruct frontier as [|[c t] rest]; [inversion H; subst; auto|].
    destruct (F c) as [h|] eqn:Ec; [|discriminate].
    assert (r c < m) as Hc by (eapply Hf; left; eauto).
    destruct (g_comps h) as [|p hc] eqn:Eh.
    - eapply IH; [exact H|intros; eapply Hf; right; eauto|].
      intros c' t' Hin. apply in_app_or in Hin as [Hin|[Heq|[]]]; [eauto|inversion Heq; subst; auto].
    - eapply IH; [exact H| |exact Hs].
      intros c' t' Hin. apply in_app_or in Hin as [Hin|Hin]; [|eapply Hf; right; eauto].
      apply (in_map_iff (compose t)) in Hin as ([c1 t1] & Heq & Hin1). inversion Heq; subst.
      assert (r c' < r c) by (eapply Hwf; [exact Ec|rewrite Eh; exact Hin1]). simpl in *; lia.
  Qed.
  Lemma flat_defined F fuel : forall frontier simple d out d',
    flat fuel F frontier simple d = Some (out, d') ->
    (forall c t, In (c, t) simple -> F c <> None) ->
    forall c t, In (c, t) out -> F c <> None.
  Proof.
    induction fuel as [|fuel IH]; intros frontier simple d out d' H Hs; [discriminate|].
    cbn [Model.flat] in H. destruct frontier as [|[c t] rest]; [inversion H; subst; auto|].
    destruct (F c) as [h|] eqn:Ec; [|discriminate].
    destruct (g_comps h) as [|p hc] eqn:Eh.
    - eapply IH; [exact H|]. intros c' t' Hin. apply in_app_or in Hin as [Hin|[Heq|[]]]; [eauto|inversion Heq; subst; congruence].
    - eapply IH; [exact H|exact Hs].
  Qed.

  (* ---- decomposition -------------------------------------------------------- *)
  Notation key := (key T).
  Inductive rkeys (F : font) : list key -> list contour -> Prop :=
  | rk_nil : rkeys F [] []
  | rk_cons c t i rest a b : res F c a -> rkeys F rest b -> rkeys F ((c, t, i) :: rest) (map (tr t) a ++ b).

  Lemma rkeys_app F k1 k2 a b : rkeys F k1 a -> rkeys F k2 b -> rkeys F (k1 ++ k2) (a ++ b).
  Proof. induction 1; intro H2; simpl; auto. rewrite <- app_assoc. constructor; auto. Qed.

  Lemma rkeys_from F t0 cs k : rcomps F cs k -> forall i, rkeys F (keys_from i t0 cs) (map (tr t0) k).
  Proof.
    induction 1 as [|c t rest a b Ha Hb IH]; intro i; simpl; [constructor|].
    rewrite map_app, <- map_tr_mul. constructor; auto.
  Qed.

  Lemma bfs_dup_true fuel F : forall fr vis acc out d, bfs fuel F fr vis acc true = Some (out, d) -> d = true.
  Proof.
    induction fuel as [|fuel IH]; intros fr vis acc out d H; [discriminate|].
    cbn [Model.bfs] in H. destruct fr as [|k rest]; [now inversion H|].
    destruct (existsb _ vis); [eauto|]. destruct (F (fst (fst k))); eauto.
  Qed.

  (* while the visited test never fires, the queue discipline only reorders *)
  Lemma bfs_sem fuel F : forall fr vis acc out kf,
    bfs fuel F fr vis acc false = Some (out, false) -> rkeys F fr kf -> ceqs (acc ++ kf) out.
  Proof.
    induction fuel as [|fuel IH]; intros fr vis acc out kf H Hk; [discriminate|].
    cbn [Model.bfs] in H. destruct fr as [|k rest].
    - inversion H; subst. inversion Hk; subst. rewrite app_nil_r. apply ceqs_refl.
    - inversion Hk as [|c t i rest0 a b Ha Hb]; subst. simpl in H.
      destruct (existsb _ vis).
      + apply bfs_dup_true in H. discriminate.
      + apply res_unfold in Ha. destruct (F c) as [h|] eqn:Ec.
        * destruct Ha as (kh & Hkh & ->).
          eapply ceqs_trans; [|eapply IH; [exact H|apply rkeys_app; [exact Hb|apply rkeys_from; exact Hkh]]].
          rewrite map_app.
          eapply ceqs_trans;
            [apply ceqs_app; [apply ceqs_refl|apply ceqs_app; [apply ceqs_app; [apply ceqs_tr_rev|apply ceqs_refl]|apply ceqs_refl]]|].
          apply ceqs_perm. rewrite <- !app_assoc. apply Permutation_app_head, Permutation_app_head.
          apply Permutation_app_comm.
        * subst a. simpl. eapply IH; eauto.
  Qed.

  Lemma decompose_looks fuel F g g' cs :
    decompose fuel F g = Some (g', false) -> gres F g cs -> exists cs', gres F g' cs' /\ ceqs cs cs'.
  Proof.
    unfold Model.decompose. intros H (k & Hk & ->).
    destruct (bfs fuel F (keys_from 0 tid (g_comps g)) [] [] false) as [[out d]|] eqn:E; [|discriminate].
    inversion H; subst.
    exists ((g_contours g ++ out) ++ []); split; [exists []; split; [constructor|reflexivity]|].
    rewrite app_nil_r. apply ceqs_app; [apply ceqs_refl|].
    apply (bfs_sem fuel F _ _ [] out k E). rewrite <- (map_tr_id k). apply rkeys_from; auto.
  Qed.

  Lemma decompose_shape fuel F g g' d :
    decompose fuel F g = Some (g', d) -> g_comps g' = [] /\ g_adv g' = g_adv g /\ g_export g' = g_export g.
  Proof.
    unfold Model.decompose. destruct (bfs _ _ _ _ _ _) as [[k d0]|]; [|discriminate].
    intro H; inversion H; subst; simpl; auto.
  Qed.

  (* flatten_glyph as a whole: the walk, then decomposition when the composed 2x2
     leaves the F2Dot14 range *)
  Lemma flatten_looks fuel F g g' cs :
    flatten_glyph fuel F g = Some (g', false) -> gres F g cs -> exists cs', gres F g' cs' /\ ceqs cs cs'.
  Proof.
    intros H Hg. unfold Model.flatten_glyph in H.
    destruct (g_comps g) as [|p l] eqn:Eg.
    - inversion H; subst. exists cs; split; auto using ceqs_refl.
    - destruct (flat fuel F (p :: l) [] false) as [[s lost]|] eqn:Es; [|discriminate].
      assert (lost = false -> gres F (glyph_new P T tovf (g_contours g) s (g_adv g) (g_export g)) cs) as H1.
      { intros ->. destruct Hg as (k & Hk & ->). exists k; split; auto. simpl.
        rewrite Eg in Hk. apply (flat_sem fuel F _ _ _ [] k Es); auto. constructor. }
      destruct (g_ovf (glyph_new P T tovf (g_contours g) s (g_adv g) (g_export g))).
      + destruct (decompose fuel F _) as [[g2 dup]|] eqn:Ed; [|discriminate].
        injection H as Hg2 Hd. apply orb_false_iff in Hd as (Hl & Hdup). subst.
        eapply decompose_looks; eauto.
      + injection H as Hg1 Hl. subst. exists cs; split; auto using ceqs_refl.
  Qed.

  Lemma flatten_shape fuel F g g' d :
    flatten_glyph fuel F g = Some (g', d) ->
    g_adv g' = g_adv g /\ g_export g' = g_export g /\
    (g' = g \/ g_comps g' = [] \/ exists lost, flat fuel F (g_comps g) [] false = Some (g_comps g', lost)).
  Proof.
    intros H. unfold Model.flatten_glyph in H.
    destruct (g_comps g) as [|p l] eqn:Eg; [inversion H; subst; auto|].
    destruct (flat fuel F (p :: l) [] false) as [[s lost]|] eqn:Es; [|discriminate].
    destruct (g_ovf (glyph_new P T tovf (g_contours g) s (g_adv g) (g_export g))).
    - destruct (decompose fuel F _) as [[g2 dup]|] eqn:Ed; [|discriminate].
      inversion H; subst. destruct (decompose_shape _ _ _ _ _ Ed) as (Hc & Ha & He). simpl in *. auto.
    - injection H as <- <-. simpl. repeat split; auto. right; right. exists lost; auto.
  Qed.

  (* whatever the visited set does, decomposition invents no contour *)
  Lemma bfs_sub fuel F : forall fr vis acc d out d' kf,
    bfs fuel F fr vis acc d = Some (out, d') -> rkeys F fr kf -> csub out (acc ++ kf).
  Proof.
    induction fuel as [|fuel IH]; intros fr vis acc d out d' kf H Hk; [discriminate|].
    cbn [Model.bfs] in H. destruct fr as [|k rest].
    - inversion H; subst. inversion Hk; subst. rewrite app_nil_r. intros c Hc; exists c; split; auto using ceq_refl.
    - inversion Hk as [|c t i rest0 a b Ha Hb]; subst. simpl in H.
      destruct (existsb _ vis).
      + intros x Hx. destruct (IH _ _ _ _ _ _ _ H Hb x Hx) as (x' & Hin & E). exists x'; split; auto.
        apply in_app_or in Hin as [Hin|Hin]; apply in_or_app; [left|right; apply in_or_app; right]; auto.
      + apply res_unfold in Ha. destruct (F c) as [h|] eqn:Ec.
        * destruct Ha as (kh & Hkh & ->).
          intros x Hx.
          destruct (IH _ _ _ _ _ _ _ H (rkeys_app _ _ _ _ _ Hb (rkeys_from F t _ _ Hkh 0)) x Hx) as (x' & Hin & E).
          rewrite map_app.
          apply in_app_or in Hin as [Hin|Hin]; [apply in_app_or in Hin as [Hin|Hin]|apply in_app_or in Hin as [Hin|Hin]].
          -- exists x'; split; auto. apply in_or_app; auto.
          -- apply in_map_iff in Hin as (c0 & <- & Hc0). exists (tr t c0); split.
             ++ apply in_or_app; right. apply in_or_app; left. apply in_or_app; left. now apply in_map.
             ++ eapply ceq_trans; [exact E|apply ceq_sym, ceq_tr_rev].
          -- exists x'; split; auto. apply in_or_app; right. apply in_or_app; auto.
          -- exists x'; split; auto. apply in_or_app; right. apply in_or_app; left. apply in_or_app; auto.
        * subst a. simpl. eapply IH; eauto.
  Qed.

  Lemma decompose_no_spurious fuel F g g' d cs :
    decompose fuel F g = Some (g', d) -> gres F g cs -> csub (g_contours g') cs.
  Proof.
    unfold Model.decompose. intros H (k & Hk & ->).
    destruct (bfs fuel F (keys_from 0 tid (g_comps g)) [] [] false) as [[out d0]|] eqn:E; [|discriminate].
    inversion H; subst. simpl.
    assert (csub out ([] ++ k)) as Hs.
    { apply (bfs_sub fuel F _ _ _ _ _ _ k E). rewrite <- (map_tr_id k). apply rkeys_from; auto. }
    intros c Hc. apply in_app_or in Hc as [Hc|Hc].
    - exists c; split; [apply in_or_app; auto|apply ceq_refl].
    - destruct (Hs c Hc) as (c' & Hin & He). exists c'; split; [apply in_or_app; auto|auto].
  Qed.

  (* ---- ... and loses none: what the visited set drops is a repetition --------- *)
  Hypothesis teqb_eq : forall a b, teqb a b = true -> a = b.
  Hypothesis teqb_refl : forall a, teqb a a = true.

  Notation key_eqb := (key_eqb T teqb).
  Definition represented (k : key) (vis : list key) : Prop := existsb (key_eqb k) vis = true.

  Lemma key_eqb_refl k : key_eqb k k = true.
  Proof. destruct k as [[c t] i]. unfold Model.key_eqb; simpl. now rewrite name_eqb_refl, teqb_refl, Nat.eqb_refl. Qed.
  Lemma represented_cons k v vis : represented k vis -> represented k (v :: vis).
  Proof. unfold represented; simpl. intros ->. apply orb_true_r. Qed.
  Lemma represented_incl k vis vis' : incl vis vis' -> represented k vis -> represented k vis'.
  Proof.
    unfold represented. rewrite !existsb_exists. intros Hi (x & Hx & E). exists x; split; auto.
  Qed.

  Lemma csub_app (a b out : list contour) : csub a out -> csub b out -> csub (a ++ b) out.
  Proof. intros Ha Hb c Hc. apply in_app_or in Hc as [Hc|Hc]; auto. Qed.
  Lemma csub_weaken (a out out' : list contour) : csub a out -> (forall c, In c out -> In c out') -> csub a out'.
  Proof. intros Ha Hi c Hc. destruct (Ha c Hc) as (c' & Hin & E). exists c'; auto. Qed.

  Lemma keys_from_in t0 cs : forall i k, In k (keys_from i t0 cs) ->
    exists c t j, k = (c, tmul t0 t, j) /\ In (c, t) cs.
  Proof.
    induction cs as [|[c t] rest IH]; intros i k Hin; simpl in Hin; [contradiction|].
    destruct Hin as [<-|Hin]; [exists c, t, i; split; auto; now left|].
    destruct (IH _ _ Hin) as (c' & t' & j & -> & Hin'). exists c', t', j; split; auto. now right.
  Qed.
  Lemma keys_from_complete t0 cs : forall i c t, In (c, t) cs -> exists j, In (c, tmul t0 t, j) (keys_from i t0 cs).
  Proof.
    induction cs as [|[c0 t0'] rest IH]; intros i c t Hin; [contradiction|]. simpl.
    destruct Hin as [Heq|Hin]; [inversion Heq; subst; exists i; now left|].
    destruct (IH (S i) c t Hin) as (j & Hj). exists j; now right.
  Qed.

  Lemma rcomps_csub F cs k out :
    rcomps F cs k ->
    (forall c t a, In (c, t) cs -> res F c a -> csub (map (tr t) a) out) -> csub k out.
  Proof.
    induction 1 as [|c t rest a b Ha Hb IH]; intro H; [intros x []|].
    apply csub_app; [eapply H; eauto; now left|apply IH; intros; eapply H; eauto; now right].
  Qed.

  (* own contours of a visited key *)
  Definition own_in (F : font) (v : key) (out : list contour) : Prop :=
    forall h, F (fst (fst v)) = Some h -> forall c, In c (g_contours h) -> In (tr_rev (snd (fst v)) c) out.
  (* the children of a visited key are waiting or taken care of *)
  Definition kids_in (F : font) (v : key) (fr vis : list key) : Prop :=
    forall h, F (fst (fst v)) = Some h ->
    forall k, In k (keys_from 0 (snd (fst v)) (g_comps h)) -> In k fr \/ represented k vis.

  Lemma bfs_final fuel F : forall fr vis acc d out d',
    bfs fuel F fr vis acc d = Some (out, d') ->
    (forall v, In v vis -> own_in F v acc) ->
    (forall v, In v vis -> kids_in F v fr vis) ->
    exists Vf, incl vis Vf /\ (forall c, In c acc -> In c out) /\
               (forall k, In k fr -> represented k Vf) /\
               (forall v, In v Vf -> own_in F v out) /\
               (forall v, In v Vf -> kids_in F v [] Vf).
  Proof.
    induction fuel as [|fuel IH]; intros fr vis acc d out d' H Hown Hkids; [discriminate|].
    cbn [Model.bfs] in H. destruct fr as [|k rest].
    - inversion H; subst. exists vis. repeat split; auto using incl_refl. intros k [].
    - destruct (existsb (key_eqb k) vis) eqn:Evis.
      + (* already visited *)
        destruct (IH _ _ _ _ _ _ H Hown) as (Vf & Hi & Ha & Hf & Ho & Hk).
        { intros v Hv h Hh k' Hk'. destruct (Hkids v Hv h Hh k' Hk') as [[<-|Hin]|Hr]; auto. }
        exists Vf. repeat split; auto.
        intros k' [<-|Hin]; auto. eapply represented_incl; eauto.
      + destruct (F (fst (fst k))) as [h|] eqn:Ek.
        * destruct (IH _ _ _ _ _ _ H) as (Vf & Hi & Ha & Hf & Ho & Hk).
          { intros v [<-|Hv] h' Hh' c Hc.
            - rewrite Ek in Hh'. inversion Hh'; subst. apply in_or_app; right. now apply in_map.
            - apply in_or_app; left. eapply Hown; eauto. }
          { intros v [<-|Hv] h' Hh' k' Hk'.
            - rewrite Ek in Hh'. inversion Hh'; subst. left. apply in_or_app; now right.
            - destruct (Hkids v Hv h' Hh' k' Hk') as [[<-|Hin]|Hr].
              + right. unfold represented; simpl. now rewrite key_eqb_refl.
              + left. apply in_or_app; now left.
              + right. now apply represented_cons. }
          exists Vf. repeat split; auto.
          -- intros v Hv. apply Hi. now right.
          -- intros c Hc. apply Ha. apply in_or_app; now left.
          -- intros k' [<-|Hin]; [|apply Hf; apply in_or_app; now left].
             unfold represented. apply existsb_exists. exists k; split; [apply Hi; now left|apply key_eqb_refl].
        * destruct (IH _ _ _ _ _ _ H) as (Vf & Hi & Ha & Hf & Ho & Hk).
          { intros v [<-|Hv] h' Hh'; [congruence|]. eapply Hown; eauto. }
          { intros v [<-|Hv] h' Hh' k' Hk'; [congruence|].
            destruct (Hkids v Hv h' Hh' k' Hk') as [[<-|Hin]|Hr].
            - right. unfold represented; simpl. now rewrite key_eqb_refl.
            - now left.
            - right. now apply represented_cons. }
          exists Vf. repeat split; auto.
          -- intros v Hv. apply Hi. now right.
          -- intros k' [<-|Hin]; [|apply Hf; auto].
             unfold represented. apply existsb_exists. exists k; split; [apply Hi; now left|apply key_eqb_refl].
  Qed.

  Lemma represented_same k Vf : represented k Vf ->
    exists v, In v Vf /\ fst (fst v) = fst (fst k) /\ snd (fst v) = snd (fst k).
  Proof.
    unfold represented. rewrite existsb_exists. intros (v & Hv & E). exists v; split; auto.
    unfold Model.key_eqb in E. apply andb_true_iff in E as (E & _). apply andb_true_iff in E as (E1 & E2).
    apply name_eqb_eq in E1. apply teqb_eq in E2. split; congruence.
  Qed.

  Lemma closed_covers (r : name -> nat) F Vf out :
    wf r F ->
    (forall v, In v Vf -> own_in F v out) ->
    (forall v, In v Vf -> kids_in F v [] Vf) ->
    forall n v, r (fst (fst v)) = n -> In v Vf ->
    forall a, res F (fst (fst v)) a -> csub (map (tr (snd (fst v))) a) out.
  Proof.
    intros Hwf Hown Hkids n. induction n as [n IH] using (well_founded_induction lt_wf).
    intros [[c t] i] Hn Hv a Ha; simpl in *. apply res_unfold in Ha.
    destruct (F c) as [h|] eqn:Ec; [|subst a; intros x []].
    destruct Ha as (k & Hk & ->). rewrite map_app. apply csub_app.
    - intros x Hx. apply in_map_iff in Hx as (c0 & <- & Hc0).
      exists (tr_rev t c0); split; [apply (Hown _ Hv h Ec c0 Hc0)|apply ceq_tr_rev].
    - assert (rcomps F (map (compose t) (g_comps h)) (map (tr t) k)) as Hk' by (apply rcomps_compose; auto).
      eapply rcomps_csub; [exact Hk'|]. intros c' t' a' Hin Ha'.
      apply (in_map_iff (compose t)) in Hin as ([c1 t1] & Heq & Hin1). inversion Heq; subst c' t'.
      destruct (keys_from_complete t (g_comps h) 0 c1 t1 Hin1) as (j & Hj).
      destruct (Hkids _ Hv h Ec _ Hj) as [[]|Hr].
      destruct (represented_same _ _ Hr) as ([[c2 t2] i2] & Hv2 & E1 & E2); simpl in *; subst c2 t2.
      apply (IH (r c1)) with (v := (c1, tmul t t1, i2)); auto.
      subst n. eapply Hwf; eauto.
  Qed.

  (* every resolved contour is in the result, whatever the visited set dropped *)
  Lemma decompose_covers (r : name -> nat) fuel F g g' d cs :
    wf r F -> decompose fuel F g = Some (g', d) -> gres F g cs -> csub cs (g_contours g').
  Proof.
    unfold Model.decompose. intros Hwf H (k & Hk & ->).
    destruct (bfs fuel F (keys_from 0 tid (g_comps g)) [] [] false) as [[out d0]|] eqn:E; [|discriminate].
    inversion H; subst; simpl.
    destruct (bfs_final fuel F _ _ _ _ _ _ E) as (Vf & _ & _ & Hf & Ho & Hkd); [intros v []|intros v []|].
    apply csub_app.
    - intros c Hc. exists c; split; [apply in_or_app; now left|apply ceq_refl].
    - eapply csub_weaken; [|intros c Hc; apply in_or_app; right; exact Hc].
      eapply rcomps_csub; [exact Hk|]. intros c t a Hin Ha.
      destruct (keys_from_complete tid (g_comps g) 0 c t Hin) as (j & Hj).
      destruct (represented_same _ _ (Hf _ Hj)) as ([[c2 t2] i2] & Hv2 & E1 & E2); simpl in *; subst c2 t2.
      pose proof (closed_covers r F Vf out Hwf Ho Hkd (r c) (c, tmul tid t, i2) eq_refl Hv2 a Ha) as Hc. simpl in Hc.
      rewrite map_tr_mul, map_tr_id in Hc. exact Hc.
  Qed.
End Ops.
