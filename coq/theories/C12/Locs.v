(* C12 — the locations a glyph must be defined at before it is decomposed.
   fontir/src/glyph.rs collect_component_locations_nested walks the component
   graph below a glyph and gathers every location at which the glyph or anything
   it (transitively) refers to has a source;
   ensure_composite_defined_at_component_locations then interpolates the
   composite at those it lacks, so that convert_components_to_contours can give
   the simple glyph a source wherever a nested component has a master of its own
   (an intermediate / "brace" master deep in the graph).  If a location were
   missed the decomposed glyph would show the straight interpolation there while
   the builds that keep components show the component's real master: different
   contours at a master location depending only on the component options.

   Model of the walk and proof that its result is exactly the set of locations
   of the transitively referenced glyphs. *)
From Coq Require Import List Arith Lia Bool NArith ZArith.
From FV.C12 Require Import Model Sem.
Import ListNotations.

Section Locs.
  Variable L : Type.   (* NormalizedLocation *)

  (* what the walk looks at: where a glyph has sources, and what it refers to *)
  Record lglyph := mkL { lg_locs : list L; lg_comps : list name }.
  Definition lfont := name -> option lglyph.

  (* `todo` is a stack (Vec::pop / extend), `seen` a set, `out` a set; the order
     in which the stack is served does not matter for the result as a set.  A
     name is put into `seen` before the glyph is looked up; a missing glyph is
     skipped. *)
  Fixpoint collect (fuel : nat) (F : lfont) (todo seen : list name) (out : list L) : option (list L) :=
    match fuel with
    | O => None
    | S f =>
        match todo with
        | [] => Some out
        | n :: rest =>
            if mem n seen then collect f F rest seen out
            else
              match F n with
              | None => collect f F rest (n :: seen) out
              | Some g => collect f F (rev (lg_comps g) ++ rest) (n :: seen) (out ++ lg_locs g)
              end
        end
    end.

  Definition collect_component_locations_nested (fuel : nat) (F : lfont) (g : lglyph) : option (list L) :=
    collect fuel F (rev (lg_comps g)) [] (lg_locs g).

  (* m is n or is referred to, through any number of levels, by n *)
  Inductive reaches (F : lfont) : name -> name -> Prop :=
  | r_refl n : reaches F n n
  | r_step n g c m : F n = Some g -> In c (lg_comps g) -> reaches F c m -> reaches F n m.

  Definition closed_set (F : lfont) (S : list name) : Prop :=
    forall n g c, In n S -> F n = Some g -> In c (lg_comps g) -> In c S.

  Lemma closed_reaches F S : closed_set F S -> forall n m, reaches F n m -> In n S -> In m S.
  Proof. intros Hc n m H. induction H; intros Hin; auto. apply IHreaches. eapply Hc; eauto. Qed.

  Lemma collect_final fuel F : forall todo seen out res,
    collect fuel F todo seen out = Some res ->
    (forall n g, In n seen -> F n = Some g ->
       (forall l, In l (lg_locs g) -> In l out) /\ (forall c, In c (lg_comps g) -> In c seen \/ In c todo)) ->
    exists seenf,
      incl seen seenf /\ incl todo seenf /\ closed_set F seenf /\ (forall l, In l out -> In l res) /\
      (forall n g l, In n seenf -> F n = Some g -> In l (lg_locs g) -> In l res).
  Proof.
    induction fuel as [|fuel IH]; intros todo seen out res H Inv; [discriminate|].
    cbn [collect] in H. destruct todo as [|n rest].
    - inversion H; subst. exists seen. repeat split; auto using incl_refl.
      + intros x [].
      + intros m g c Hm Hg Hc. destruct (Inv m g Hm Hg) as (_ & Hk). destruct (Hk c Hc) as [|[]]; auto.
      + intros m g l Hm Hg Hl. destruct (Inv m g Hm Hg) as (Ho & _). auto.
    - destruct (mem n seen) eqn:Em.
      + apply mem_In in Em.
        destruct (IH rest seen out res H) as (sf & H1 & H2 & H3 & H4 & H5).
        { intros m g Hm Hg. destruct (Inv m g Hm Hg) as (Ho & Hk). split; auto.
          intros c Hc. destruct (Hk c Hc) as [|[<-|]]; auto. }
        exists sf. repeat split; auto. intros x [<-|Hx]; auto.
      + destruct (F n) as [g|] eqn:En.
        * destruct (IH _ _ _ res H) as (sf & H1 & H2 & H3 & H4 & H5).
          { intros m gm [<-|Hm] Hg.
            - rewrite En in Hg. inversion Hg; subst. split.
              + intros l Hl. apply in_or_app; now right.
              + intros c Hc. right. apply in_or_app; left. now apply in_rev in Hc.
            - destruct (Inv m gm Hm Hg) as (Ho & Hk). split.
              + intros l Hl. apply in_or_app; left; auto.
              + intros c Hc. destruct (Hk c Hc) as [|[<-|Hr]]; [left; now right|left; now left|].
                right. apply in_or_app; now right. }
          exists sf. repeat split; auto.
          -- intros x Hx. apply H1. now right.
          -- intros x [<-|Hx]; [apply H1; now left|apply H2; apply in_or_app; now right].
          -- intros l Hl. apply H4. apply in_or_app; now left.
        * destruct (IH _ _ _ res H) as (sf & H1 & H2 & H3 & H4 & H5).
          { intros m gm [<-|Hm] Hg; [congruence|].
            destruct (Inv m gm Hm Hg) as (Ho & Hk). split; auto.
            intros c Hc. destruct (Hk c Hc) as [|[<-|Hr]]; [left; now right|left; now left|now right]. }
          exists sf. repeat split; auto.
          -- intros x Hx. apply H1. now right.
          -- intros x [<-|Hx]; [apply H1; now left|apply H2; auto].
  Qed.

  (* nothing is collected that does not belong to a glyph on the way *)
  Lemma collect_sound fuel F (ok : L -> Prop) : forall todo seen out res,
    collect fuel F todo seen out = Some res ->
    (forall l, In l out -> ok l) ->
    (forall n m g l, In n todo -> reaches F n m -> F m = Some g -> In l (lg_locs g) -> ok l) ->
    forall l, In l res -> ok l.
  Proof.
    induction fuel as [|fuel IH]; intros todo seen out res H Ho Ht; [discriminate|].
    cbn [collect] in H. destruct todo as [|n rest]; [inversion H; subst; auto|].
    destruct (mem n seen).
    - eapply IH; eauto. intros; eapply Ht; eauto; now right.
    - destruct (F n) as [g|] eqn:En.
      + eapply IH; [exact H| |].
        * intros l Hl. apply in_app_or in Hl as [Hl|Hl]; auto.
          eapply (Ht n n g l); eauto; [now left|constructor].
        * intros c m gm l Hc Hr Hm Hl. apply in_app_or in Hc as [Hc|Hc].
          -- apply in_rev in Hc. eapply (Ht n m gm l); eauto; [now left|econstructor; eauto].
          -- eapply Ht; eauto; now right.
      + eapply IH; eauto. intros; eapply Ht; eauto; now right.
  Qed.

  (* The result is the set of locations of the glyph and of every glyph it
     transitively refers to: none is missed, at any depth, and none is invented. *)
  Theorem collect_is_transitive_closure fuel F g res :
    collect_component_locations_nested fuel F g = Some res ->
    forall l, In l res <->
      (In l (lg_locs g) \/
       exists c m gm, In c (lg_comps g) /\ reaches F c m /\ F m = Some gm /\ In l (lg_locs gm)).
  Proof.
    unfold collect_component_locations_nested. intros H l. split.
    - revert l. apply (collect_sound fuel F _ _ _ _ _ H).
      + intros l Hl. now left.
      + intros c m gm l Hc Hr Hm Hl. right. exists c, m, gm. apply in_rev in Hc. auto.
    - destruct (collect_final fuel F _ _ _ _ H) as (sf & _ & H2 & H3 & H4 & H5); [intros n g0 []|].
      intros [Hl|(c & m & gm & Hc & Hr & Hm & Hl)]; [auto|].
      eapply H5; eauto. eapply closed_reaches; eauto. apply H2. now apply in_rev in Hc.
  Qed.
End Locs.

Arguments mkL {L}.
Arguments lg_locs {L}.
Arguments lg_comps {L}.

(* ---- terms the harness writes ---------------------------------------------------------- *)
(* locations are multiples of 1/4 on the normalised axis, shipped as integers *)
Fixpoint lfont_of (l : list (name * lglyph Z)) : lfont Z :=
  fun n => match l with
           | [] => None
           | (m, g) :: t => if name_eqb n m then Some g else lfont_of t n
           end.
(* every glyph the implementation left without components must have a source at
   every location the walk over the source's component graph collects for it *)
Definition locs_cover (fuel : nat) (F : lfont Z) (n : name) (impl_locs : list Z) : bool :=
  match F n with
  | None => true
  | Some g =>
      match collect_component_locations_nested Z fuel F g with
      | None => false
      | Some res => forallb (fun l => existsb (Z.eqb l) impl_locs) res
      end
  end.
Definition locs_cover_all (fuel : nat) (F : lfont Z) (impl : list (name * list Z)) : bool :=
  forallb (fun e => locs_cover fuel F (fst e) (snd e)) impl.
